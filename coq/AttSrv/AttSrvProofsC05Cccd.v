(* C05, client characteristic configurations: a request through an unencrypted connection leaves the CCCD bits
   of every protected characteristic of that connection unchanged - connection wide, i.e. also when the request
   writes the CCCD of another (unprotected) characteristic. Uses: the packed store is a lens (AttSrvProofsC09:
   cccd_lens) and cccd_position is injective on the CCCD numbers (AttDbNotifProofs: cccd_position_inj). *)
From Coq Require Import Lia ZifyBool.
From BT Require Import Base.ListX AttDb.AttDbModel AttDb.AttDbNotifProofs NQueue.NQueueModel AttSrv.AttSrvModel
  AttSrv.AttSrvSpecC01 AttSrv.AttSrvProofsC01 AttSrv.AttSrvFrame AttSrv.AttSrvProofsC09
  AttSrv.AttSrvSpecVal AttSrv.AttSrvProofsVal AttSrv.AttSrvProofsC05.
Local Open Scope N_scope.

(* ------------------------------------------------------------------ a CCCD number names one characteristic *)
Definition with_cccd_sc (x : service_decl * char_decl) : bool := has_cccd (snd x).

Lemma filter_cccd_length cs : N.of_nat (length (filter has_cccd cs)) = sumN char_nccc cs.
Proof.
  induction cs as [|c t IH]; [reflexivity|]. cbn [filter sumN]. unfold char_nccc at 1.
  destruct (has_cccd c); cbn [length b2n]; lia.
Qed.

Lemma chars_cccd_char s : forall cs g cci0 i s' ch' cci,
  chars_attribute_at s cs g cci0 i = Some (ACccd s' ch' cci) ->
  s' = s /\ nth_error (filter has_cccd cs) (N.to_nat (cci - cci0)) = Some ch'.
Proof.
  induction cs as [|c t IH]; intros g cci0 i s' ch' cci H; [discriminate|].
  pose proof (chars_attribute_cccd s (c :: t) g cci0 i s' ch' cci H) as B. cbn [chars_attribute_at] in H.
  destruct (i <? char_nattrs c).
  - apply char_attribute_cccd in H. destruct H as (Hc & -> & -> & ->). split; [reflexivity|].
    cbn [filter]. rewrite Hc. replace (N.to_nat (cci0 - cci0)) with O by lia. reflexivity.
  - pose proof (chars_attribute_cccd s t _ _ _ _ _ _ H) as B2. apply IH in H. destruct H as [-> H]. split; [reflexivity|].
    cbn [filter]. unfold char_nccc in *. destruct (has_cccd c); cbn [b2n] in *.
    + replace (N.to_nat (cci - cci0)) with (S (N.to_nat (cci - (cci0 + 1)))) by lia. exact H.
    + replace (cci0 + 0) with cci0 in H by lia. exact H.
Qed.

Lemma svcs_cccd_char : forall ss g cci0 i s ch cci,
  svcs_attribute_at ss g cci0 i = Some (ACccd s ch cci) ->
  nth_error (filter with_cccd_sc (flat_map (fun s => map (fun ch => (s, ch)) (s_chars s)) ss)) (N.to_nat (cci - cci0)) = Some (s, ch).
Proof.
  induction ss as [|s0 t IH]; intros g cci0 i s ch cci H; [discriminate|].
  cbn [flat_map]. rewrite filter_app.
  assert (FL : filter with_cccd_sc (map (fun ch => (s0, ch)) (s_chars s0)) = map (fun ch => (s0, ch)) (filter has_cccd (s_chars s0))).
  { induction (s_chars s0) as [|c l IHl]; [reflexivity|]. cbn [map filter]. unfold with_cccd_sc at 1. cbn [snd].
    destruct (has_cccd c); cbn [map]; rewrite IHl; reflexivity. }
  rewrite FL. cbn [svcs_attribute_at] in H.
  destruct (i <? svc_nattrs s0).
  - unfold svc_attribute_at in H. destruct (i <? svc_nsattrs s0).
    + destruct (i =? 0); [discriminate|]. destruct (nth_error _ _); discriminate.
    + pose proof (chars_attribute_cccd _ _ _ _ _ _ _ _ H) as B. apply chars_cccd_char in H. destruct H as [-> H].
      rewrite nth_error_app1 by (rewrite map_length; apply nth_error_Some; congruence).
      rewrite nth_error_map, H. reflexivity.
  - pose proof (svcs_attribute_cccd _ _ _ _ _ _ _ H) as B. apply IH in H.
    pose proof (filter_cccd_length (s_chars s0)) as FLn. fold (svc_nccc s0) in FLn.
    rewrite nth_error_app2 by (rewrite map_length; lia). rewrite map_length.
    replace (N.to_nat (cci - cci0) - length (filter has_cccd (s_chars s0)))%nat with (N.to_nat (cci - (cci0 + svc_nccc s0))) by lia.
    exact H.
Qed.

(* two CCCD attributes with the same number belong to the same characteristic *)
Lemma cccd_attr_unique c i j s ch s' ch' cci :
  attribute_at c i = Some (ACccd s ch cci) -> attribute_at c j = Some (ACccd s' ch' cci) -> s = s' /\ ch = ch'.
Proof.
  unfold attribute_at. intros H1 H2. apply svcs_cccd_char in H1. apply svcs_cccd_char in H2.
  rewrite H1 in H2. inversion H2. split; reflexivity.
Qed.

(* ------------------------------------------------------------------ protected positions *)
(* [p] is the position of the CCCD of a characteristic that requires encryption *)
Definition ppos (c : cfg) (p : N) : Prop :=
  exists i s ch cci, attribute_at c i = Some (ACccd s ch cci) /\ char_requires_encryption c s ch = true /\ p = cccd_position c cci.

(* the connection data changes, but not at a protected position, and not its link security *)
Definition keeps (c : cfg) (k k' : conn) : Prop :=
  encrypted k' = encrypted k /\
  (conn_store_ok c k -> conn_store_ok c k' /\ forall p, ppos c p -> cccd_get (cccd k') p = cccd_get (cccd k) p).

Definition st_keeps (c : cfg) (cid : nat) (st st' : srv_state) : Prop :=
  forall k, get_conn st cid = Some k -> exists k', get_conn st' cid = Some k' /\ keeps c k k'.

Lemma keeps_refl c k : keeps c k k.
Proof. split; [reflexivity|]. intros S. split; auto. Qed.

Lemma st_keeps_conns c cid st st' : conns st' = conns st -> st_keeps c cid st st'.
Proof. intros E k G. exists k. split; [unfold get_conn in *; rewrite E; exact G|apply keeps_refl]. Qed.

Lemma st_keeps_refl c cid st : st_keeps c cid st st.
Proof. apply st_keeps_conns. reflexivity. Qed.

Lemma st_keeps_trans c cid a b d : st_keeps c cid a b -> st_keeps c cid b d -> st_keeps c cid a d.
Proof.
  intros H1 H2 k G. destruct (H1 k G) as (k1 & G1 & E1 & K1). destruct (H2 k1 G1) as (k2 & G2 & E2 & K2).
  exists k2. split; [exact G2|]. split; [congruence|]. intros S. destruct (K1 S) as [S1 P1]. destruct (K2 S1) as [S2 P2].
  split; [exact S2|]. intros p Hp. rewrite (P2 p Hp). apply P1. exact Hp.
Qed.

(* a change of the MTU or of the notification queue only *)
Lemma st_keeps_set_conn c cid st k0 k1 :
  get_conn st cid = Some k0 -> cccd k1 = cccd k0 -> encrypted k1 = encrypted k0 -> st_keeps c cid st (set_conn st cid k1).
Proof.
  intros G C E k G'. rewrite G in G'. inversion G'; subst k. exists k1. split; [eapply get_conn_set_conn; eauto|].
  split; [exact E|]. unfold conn_store_ok. rewrite C. intros S. split; auto.
Qed.

(* ------------------------------------------------------------------ writes *)
Lemma access_write_keeps c st cid k i a off data st' rc :
  get_conn st cid = Some k -> encrypted k = false -> attribute_at c i = Some a ->
  access_write c st cid a off data = Some (st', rc) -> st_keeps c cid st st'.
Proof.
  intros G E HA. unfold access_write. rewrite G.
  destruct a as [s|u|s ch|s ch g cci|s ch cci|nm|u v]; try (intros H; inv H; apply st_keeps_refl).
  - intros H. apply some_inj in H. apply value_write_conns in H. apply st_keeps_conns. exact H.
  - cbn [fst snd]. rewrite E. unfold security_check. destruct (char_requires_encryption c s ch) eqn:P; cbn [negb].
    + destruct (pairing k =? 0); intros H; inv H; apply st_keeps_refl.
    + unfold cccd_write. destruct (2 <? off); [intros H; inv H; apply st_keeps_refl|].
      destruct (2 <? len data + off); [intros H; inv H; apply st_keeps_refl|].
      destruct (off =? 0); [|intros H; inv H; apply st_keeps_refl].
      intros H. apply some_inj in H. apply pair_inj in H. destruct H as [<- _].
      intros k0 G0. rewrite G in G0. inversion G0; subst k0. eexists. split; [eapply get_conn_set_conn; eauto|].
      split; [reflexivity|]. unfold conn_store_ok. cbn [cccd]. intros S.
      destruct (cccd_attribute_position c i s ch cci HA) as [PL _].
      destruct (cccd_lens _ _ (cccd_position c cci) (nth 0 (takeN 2 (data ++ dropN (len data) [cccd_get (cccd k) (cccd_position c cci); 0])) 0
                  + 256 * nth 1 (takeN 2 (data ++ dropN (len data) [cccd_get (cccd k) (cccd_position c cci); 0])) 0) S PL) as (_ & B & C & _).
      split; [exact C|]. intros p (i' & s' & ch' & cci' & HA' & P' & ->).
      apply B.
      * apply (cccd_attribute_position c i' s' ch' cci' HA').
      * intros EQ. apply cccd_position_inj in EQ.
        -- subst cci'. destruct (cccd_attr_unique c i i' s ch s' ch' cci HA HA') as [-> ->]. congruence.
        -- rewrite n_cccd_is_number_of_client_configs. eapply attribute_cccd_number; eauto.
        -- rewrite n_cccd_is_number_of_client_configs. eapply attribute_cccd_number; eauto.
Qed.


Lemma execute_writes_keeps c cid : forall elems st st' f,
  unenc st cid -> execute_writes c st cid elems = Some (st', f) -> st_keeps c cid st st'.
Proof.
  induction elems as [|e t IH]; intros st st' f U H; cbn [execute_writes] in H.
  - mon. apply st_keeps_refl.
  - mon. match goal with X : attribute_at _ _ = Some ?a, Y : access_write _ _ _ ?a _ _ = Some (?s1, ?rc) |- _ =>
      assert (P1 : st_keeps c cid st s1) by (destruct (get_conn st cid) as [k|] eqn:G;
        [eapply access_write_keeps; eauto|unfold access_write in Y; rewrite G in Y; discriminate]);
      pose proof (access_write_unenc _ _ _ _ _ _ _ _ cid Y U) as U1; destruct rc end.
    + eapply st_keeps_trans; [exact P1|]. eapply IH; eauto.
    + mon. exact P1.
    + mon. exact P1.
Qed.

(* ------------------------------------------------------------------ l2cap_input *)
Theorem att_input_keeps c st cid pdu n st' rs :
  unenc st cid -> att_input c st cid pdu n = Some (st', rs) -> st_keeps c cid st st'.
Proof.
  intros U H.
  destruct (get_conn st cid) as [k|] eqn:G; [|unfold att_input in H; rewrite G in H; discriminate].
  destruct pdu as [|op t]; [unfold att_input in H; rewrite G in H; cbn in H; discriminate|].
  destruct (att_input_inv _ _ _ _ _ _ _ _ _ G H) as (Ho & b' & m & L & -> & D). clear H. pose proof (U k G) as E.
  set (b := repeat fill_byte (N.to_nat n)) in *. set (out_size := N.min n (negotiated_mtu c k)) in *. set (pdu := op :: t) in *.
  assert (WR : forall s1 r1, handle_write_request c st cid pdu b out_size = Some (s1, r1) -> st_keeps c cid st s1).
  { unfold handle_write_request. intros s1 r1 HW. mon. destruct (len pdu <? 3); [mon; apply st_keeps_refl|]. mon.
    destruct c0 as [f|[h i]]; mon; [apply st_keeps_refl|].
    match goal with X : attribute_at _ _ = Some ?a, Y : access_write _ _ _ ?a _ _ = Some (_, ?rc) |- _ =>
      pose proof (access_write_keeps _ _ _ _ _ _ _ _ _ _ G E X Y) as P1; destruct rc; mon; exact P1 end. }
  destruct (op =? 1); [mon; apply st_keeps_refl|].
  destruct (op =? 2).
  { unfold handle_exchange_mtu in D.
    repeat (mon; match type of D with (if ?x then _ else _) = Some _ => destruct x end); mon; try apply st_keeps_refl.
    match goal with X : get_conn st cid = Some ?k0 |- _ => eapply (st_keeps_set_conn c cid st k0); eauto end. }
  destruct (op =? 4); [mon; apply st_keeps_refl|].
  destruct (op =? 6); [mon; apply st_keeps_refl|].
  destruct (op =? 8); [apply read_by_type_same in D; apply st_keeps_conns; apply D|].
  destruct (op =? 10); [apply handle_read_same in D; apply st_keeps_conns; apply D|].
  destruct (op =? 12); [apply handle_read_blob_same in D; apply st_keeps_conns; apply D|].
  destruct (op =? 16); [mon; apply st_keeps_refl|].
  destruct (op =? 14); [apply read_multiple_same in D; apply st_keeps_conns; apply D|].
  destruct (op =? 18); [eapply WR; eauto|].
  destruct (op =? 82).
  { unfold handle_write_command in D. destruct (handle_write_request c st cid pdu b out_size) as [[s1 [b1 m1]]|] eqn:EW; [|discriminate].
    mon. eapply WR; eauto. }
  destruct (op =? 22).
  { unfold handle_prepare_write in D. mon. destruct (wqueue c); [|mon; apply st_keeps_refl]. destruct (len pdu <? 5); [mon; apply st_keeps_refl|]. mon.
    destruct c0 as [f|[h i]]; mon; [apply st_keeps_refl|]. unfold access_check_write in *.
    match goal with X : attribute_at _ _ = Some ?a, Y : access_write _ _ _ ?a 0 [] = Some (_, ?rc) |- _ =>
      pose proof (access_write_keeps _ _ _ _ _ _ _ _ _ _ G E X Y) as P1; destruct rc end; mon; try exact P1.
    unfold wq_allocate in D. destruct (_ || _) in D; mon; exact P1. }
  destruct (op =? 24).
  { unfold handle_execute_write in D. mon. destruct (wqueue c); [|mon; apply st_keeps_refl].
    destruct (negb (len pdu =? 2)); [mon; apply st_keeps_refl|]. mon.
    match type of D with (if ?x then _ else _) = Some _ => destruct x end; [mon; apply st_keeps_refl|]. mon.
    match goal with X : (if ?x then execute_writes c st cid (wq_elems st) else Some (st, None)) = Some (?s, ?o) |- _ =>
      assert (P1 : st_keeps c cid st s) by (destruct x; [eapply execute_writes_keeps; eauto|mon; apply st_keeps_refl]);
      assert (P2 : st_keeps c cid st (wq_free s cid))
        by (eapply st_keeps_trans; [exact P1|]; apply st_keeps_conns; unfold wq_free; destruct (wq_owner s); [destruct (Nat.eqb _ _)|]; reflexivity);
      destruct o as [[h code]|]; mon; exact P2
    end. }
  destruct (op =? 30).
  { unfold handle_confirmation in D. mon. destruct (negb (len pdu =? 1)); mon; try apply st_keeps_refl.
    match goal with X : get_conn st cid = Some ?k0 |- _ => eapply (st_keeps_set_conn c cid st k0); eauto using nq_step_encrypted end;
      try (unfold nq_step; destruct (NQueueModel.step _ _); reflexivity). }
  mon. apply st_keeps_refl.
Qed.

(* the statement: the CCCD bits of every protected characteristic of the requesting connection are unchanged *)
Theorem protected_cccd_unchanged c st cid pdu n st' rs k k' i s ch cci :
  get_conn st cid = Some k -> conn_store_ok c k -> encrypted k = false ->
  att_input c st cid pdu n = Some (st', rs) -> get_conn st' cid = Some k' ->
  attribute_at c i = Some (ACccd s ch cci) -> char_requires_encryption c s ch = true ->
  cccd_get (cccd k') (cccd_position c cci) = cccd_get (cccd k) (cccd_position c cci).
Proof.
  intros G S E H G' HA P.
  assert (U : unenc st cid) by (intros k0 G0; rewrite G in G0; inversion G0; subst; exact E).
  destruct (att_input_keeps c st cid pdu n st' rs U H k G) as (k1 & G1 & _ & K). rewrite G' in G1. inversion G1; subst k1.
  destruct (K S) as [_ PP]. apply PP. exists i, s, ch, cci. auto.
Qed.

(* every reachable state has well formed stores *)
Corollary protected_cccd_unchanged_reachable c ops cid pdu n st' rs k k' i s ch cci :
  get_conn (srv_after c (srv_init c) ops) cid = Some k -> encrypted k = false ->
  att_input c (srv_after c (srv_init c) ops) cid pdu n = Some (st', rs) -> get_conn st' cid = Some k' ->
  attribute_at c i = Some (ACccd s ch cci) -> char_requires_encryption c s ch = true ->
  cccd_get (cccd k') (cccd_position c cci) = cccd_get (cccd k) (cccd_position c cci).
Proof. intros G. eapply protected_cccd_unchanged; eauto. eapply store_ok_reachable; eauto. Qed.
