(* C10, trace level: the observer's table position of a characteristic is its global characteristic number; from
   that, the clause duplicate_pdu. *)
From Coq Require Import Lia ZifyBool Permutation.
From BT Require Import Base.ListX Base.Bits2 AttDb.AttDbModel AttDb.AttDbProofs AttDb.AttDbNotifProofs AttDb.AttDbNotifIndex AttDb.AttDbCccdIndex AttDb.AttDbAttrList
  NQueue.NQueueModel NQueue.NQueueSpec NQueue.NQueueProofs NQueue.NQueueDrain
  AttSrv.AttSrvModel AttSrv.AttSrvSpecC01 AttSrv.AttSrvProofsC01 AttSrv.AttSrvFrame AttSrv.AttSrvCbModel AttSrv.AttSrvNotifSpec AttSrv.AttSrvNotifObs
  AttSrv.AttSrvNotifObs09 AttSrv.AttSrvSpecC10 AttSrv.AttSrvProofsC08 AttSrv.AttSrvProofsC09 AttSrv.AttSrvProofsC09T AttSrv.AttSrvProofsC09T2
  AttSrv.AttSrvProofsC10 AttSrv.AttSrvProofsC11 AttSrv.AttSrvProofsC11Live AttSrv.AttSrvNoFault AttSrv.AttSrvProofsC10T.
Local Open Scope N_scope.

(* ------------------------------------------------------------------ table position = global characteristic number *)
Fixpoint number (i0 : N) (l : list attr) : list (N * attr) :=
  match l with [] => [] | a :: t => (i0, a) :: number (i0 + 1) t end.

Lemma attrs_from_number c : forall l2 l1, alist c = l1 ++ l2 -> attrs_from c (length l2) (len l1) = number (len l1) l2.
Proof.
  induction l2 as [|a t IH]; intros l1 E; cbn [length attrs_from number]; [reflexivity|].
  assert (A : attribute_at c (len l1) = Some a).
  { rewrite attribute_at_alist, E. unfold len. rewrite Nat2N.id. rewrite nth_error_app2 by lia. replace (length l1 - length l1)%nat with O by lia. reflexivity. }
  rewrite A. f_equal. specialize (IH (l1 ++ [a])). rewrite <- app_assoc in IH. specialize (IH E).
  replace (len (l1 ++ [a])) with (len l1 + 1) in IH by (unfold len; rewrite app_length; cbn [length]; lia). exact IH.
Qed.

Lemma attr_table_number c : attr_table c = number 0 (alist c).
Proof.
  unfold attr_table. rewrite <- alist_len. unfold len at 1. rewrite Nat2N.id. apply (attrs_from_number c (alist c) []). reflexivity.
Qed.

Lemma nth_error_seq : forall n a p g, nth_error (seq a n) p = Some g -> g = (a + p)%nat.
Proof.
  induction n as [|n IH]; intros a p g H; cbn [seq] in H; [destruct p; discriminate|].
  destruct p as [|p]; cbn [nth_error] in H; [inversion H; lia|]. apply IH in H. lia.
Qed.

Section Pos.
  Variable c : cfg.
  Let F := fun x : N * attr => match snd x with
                               | AValue s ch g cci => [cent_of c (attr_table c) (fst x) s ch g cci]
                               | _ => []
                               end.

  Lemma table_positions : forall l i0 p e,
    nth_error (flat_map F (number i0 l)) p = Some e ->
    exists i s ch g cci, In (i, AValue s ch g cci) (number i0 l) /\ e = cent_of c (attr_table c) i s ch g cci
                         /\ nth_error (flat_map gci_of l) p = Some g.
  Proof.
    induction l as [|a t IH]; intros i0 p e H; cbn [number flat_map] in *; [destruct p; discriminate|].
    unfold F at 1 in H. cbn [snd fst] in H.
    destruct a as [s|u|s ch|s ch g cci|s ch cci|nm|u v];
      try (cbn [app gci_of] in *; destruct (IH _ _ _ H) as (i & s' & ch' & g' & cci' & I & E & G); exists i, s', ch', g', cci'; split; [right; exact I|auto]).
    cbn [app gci_of] in *. destruct p as [|p]; cbn [nth_error] in *.
    - inversion H; subst. exists i0, s, ch, g, cci. split; [left; reflexivity|auto].
    - destruct (IH _ _ _ H) as (i & s' & ch' & g' & cci' & I & E & G). exists i, s', ch', g', cci'. split; [right; exact I|auto].
  Qed.

  (* the p-th entry of the observer's table belongs to the value attribute of characteristic number p *)
  Theorem table_position_is_gci p e :
    nth_error (char_table c) p = Some e ->
    exists i s ch cci, attribute_at c i = Some (AValue s ch p cci) /\ e = cent_of c (attr_table c) i s ch p cci.
  Proof.
    unfold char_table. intros H. fold F in H. rewrite attr_table_number in H at 1.
    destruct (table_positions _ _ _ _ H) as (i & s & ch & g & cci & I & E & G).
    rewrite alist_gcis in G. assert (g = p).
    { apply (nth_error_seq _ _ _ _ G). }
    subst g. rewrite <- attr_table_number in I. apply attr_table_in in I. exists i, s, ch, cci. tauto.
  Qed.
End Pos.

(* ------------------------------------------------------------------ observer steps that keep the requested sets *)
Definition keepsP (m m' : obs) : Prop := forall i, o_pend (oc_at m' i) = o_pend (oc_at m i).

Lemma kP_refl m : keepsP m m.
Proof. intros i. reflexivity. Qed.
Lemma kP_trans a b d : keepsP a b -> keepsP b d -> keepsP a d.
Proof. intros A B i. rewrite B. apply A. Qed.
Lemma kP_conns m m' : ob_conns m' = ob_conns m -> keepsP m m'.
Proof. intros E i. unfold oc_at. rewrite E. reflexivity. Qed.
Lemma kP_set_oc m i k : o_pend k = o_pend (oc_at m i) -> keepsP m (set_oc m i k).
Proof.
  intros H j. rewrite oc_at_set_oc.
  destruct (Nat.eqb i j) eqn:E; cbn [andb]; auto. apply Nat.eqb_eq in E. subst j.
  destruct (i <? length (ob_conns m))%nat; auto.
Qed.

Lemma kP_apply_cccd_write m cid g nv : keepsP m (apply_cccd_write m cid g nv).
Proof.
  unfold apply_cccd_write. destruct (drop_must (oc_at m cid) g nv) as [mu sl].
  intros i. unfold oc_at at 1. cbn [ob_conns].
  rewrite (nth_map_i _ _ _ _ O i (oc_init O) (oc_init O)). rewrite upd_length. cbn [Nat.add].
  destruct (i <? length (ob_conns m))%nat eqn:L.
  + apply Nat.ltb_lt in L. unfold mark_since. cbn [o_pend].
    destruct (Nat.eq_dec cid i) as [->|N].
    * rewrite nth_upd_eq by exact L. reflexivity.
    * rewrite nth_upd_neq by exact N. reflexivity.
  + apply Nat.ltb_ge in L. unfold oc_at. rewrite nth_overflow by exact L. reflexivity.
Qed.

Lemma kP_touch_cccd m cid g : keepsP m (touch_cccd m cid g).
Proof. unfold touch_cccd. apply kP_set_oc. reflexivity. Qed.
Lemma kP_forget_value m g : keepsP m (forget_value m g).
Proof. unfold forget_value. destruct (ce_const _); [apply kP_refl|apply kP_conns; reflexivity]. Qed.
Lemma kP_forget_all m : keepsP m (forget_all_values m).
Proof. apply kP_conns. reflexivity. Qed.

Lemma kP_adv_write m cid opc h data resp : keepsP m (adv_write m cid opc h data resp).
Proof.
  unfold adv_write. destruct (by_cccd_handle (ob_tab m) h) as [g|].
  - destruct (opc =? 18).
    + rewrite match19. destruct (bytes_eqb resp [19]); [apply kP_apply_cccd_write|apply kP_refl].
    + destruct (opc =? 82).
      * destruct (_ && _); [apply kP_apply_cccd_write|apply kP_refl].
      * destruct (starts 23 resp); [|apply kP_refl].
        set (m1 := apply_cccd_write m cid g None).
        match goal with |- keepsP m (set_cb ?x ?y) => apply kP_trans with x; [|apply kP_conns; reflexivity] end.
        apply kP_trans with m1; [apply kP_apply_cccd_write|apply kP_set_oc; reflexivity].
  - destruct (by_value_handle (ob_tab m) h) as [g|]; [|apply kP_refl].
    destruct (opc =? 22); [apply kP_refl|apply kP_forget_value].
Qed.

Lemma kP_exec m cid k' :
  o_pend k' = o_pend (oc_at m cid) -> keepsP m (set_cb (set_oc (forget_all_values m) cid k') None).
Proof.
  intros H. apply kP_trans with (set_oc (forget_all_values m) cid k'); [|apply kP_conns; reflexivity].
  apply kP_trans with (forget_all_values m); [apply kP_forget_all|]. apply kP_set_oc. exact H.
Qed.

Lemma kP_set_mtu m cid v : keepsP m (set_mtu m cid v).
Proof. unfold set_mtu. apply kP_set_oc. reflexivity. Qed.

Ltac kpP :=
  repeat match goal with
         | |- keepsP _ (match ?x with Some _ => _ | None => _ end) => destruct x
         | |- keepsP _ (if ?x then _ else _) => destruct x
         end;
  first [apply kP_refl | apply kP_touch_cccd | apply kP_adv_write | apply kP_forget_all | apply kP_set_mtu
        | apply kP_exec; reflexivity | apply kP_set_oc; reflexivity].

Ltac leafP := cbv beta iota zeta delta [adv_in]; kpP.

Lemma kP_adv_in c m cid pdu n resp : keepsP m (adv_in c m cid pdu n resp).
Proof.
  destruct pdu as [|a [|b [|d [|e t]]]]; try solve [leafP];
    (destruct a as [|p]; [solve [leafP]|]; repeat (destruct p as [p|p|]; try solve [leafP])).
Qed.

(* ------------------------------------------------------------------ the queue bits after an added request *)
Lemma m_chain_add_get k : forall ms i j, mwf ms ->
  mget (snd (m_chain_add ms i k)) j
  = if (Nat.eqb j i && (i <? mtotal ms)%nat)%bool then N.lor (mget ms i) (kbit k) else mget ms j.
Proof.
  induction ms as [|l t IH]; intros i j W; cbn [m_chain_add mtotal].
  { cbn [snd mget]. rewrite andb_false_r. reflexivity. }
  inversion W as [|? ? [L F] W']; subst.
  destruct (i <? msize l)%nat eqn:E.
  - apply Nat.ltb_lt in E. unfold m_level_add. cbn [snd mget msize mpend].
    replace (i <? msize l + mtotal t)%nat with true by (symmetry; apply Nat.ltb_lt; lia). rewrite andb_true_r.
    replace (i <? msize l)%nat with true by (symmetry; apply Nat.ltb_lt; exact E).
    destruct (Nat.eqb j i) eqn:J.
    + apply Nat.eqb_eq in J. subst j. replace (i <? msize l)%nat with true by (symmetry; apply Nat.ltb_lt; exact E).
      apply nth_upd_eq. lia.
    + apply Nat.eqb_neq in J. destruct (j <? msize l)%nat; [|reflexivity]. apply nth_upd_neq. auto.
  - apply Nat.ltb_ge in E. specialize (IH (i - msize l)%nat (j - msize l)%nat W').
    destruct (m_chain_add t (i - msize l)%nat k) as [r t'] eqn:A. cbn [snd mget] in *.
    replace (i <? msize l)%nat with false by (symmetry; apply Nat.ltb_ge; exact E).
    destruct (j <? msize l)%nat eqn:J.
    + apply Nat.ltb_lt in J. replace (Nat.eqb j i) with false by (symmetry; apply Nat.eqb_neq; lia). reflexivity.
    + apply Nat.ltb_ge in J. rewrite IH.
      replace (Nat.eqb (j - msize l)%nat (i - msize l)%nat) with (Nat.eqb j i) by (destruct (Nat.eqb j i) eqn:X; symmetry; [apply Nat.eqb_eq in X; apply Nat.eqb_eq; lia|apply Nat.eqb_neq in X; apply Nat.eqb_neq; lia]).
      replace (i - msize l <? mtotal t)%nat with (i <? msize l + mtotal t)%nat by (destruct (i <? msize l + mtotal t)%nat eqn:X; symmetry; [apply Nat.ltb_lt in X; apply Nat.ltb_lt; lia|apply Nat.ltb_ge in X; apply Nat.ltb_ge; lia]).
      reflexivity.
Qed.

(* ------------------------------------------------------------------ one characteristic per queue position *)
Lemma number_from_gci l : forall n, map ci_gci (number_from set_pos l n) = map ci_gci l.
Proof. induction l as [|a t IH]; intros n; cbn [number_from map]; [reflexivity|]. f_equal. apply IH. Qed.

Lemma nodup_map_filter (A B : Type) (f : A -> B) p l : NoDup (map f l) -> NoDup (map f (filter p l)).
Proof.
  induction l as [|a t IH]; cbn [map filter]; intros H; [constructor|]. inversion H as [|? ? H1 H2]; subst.
  destruct (p a); cbn [map]; [|auto]. constructor; [|auto]. intros I. apply H1. apply in_map_iff in I. destruct I as (y & E & I).
  apply filter_In in I. apply in_map_iff. exists y. tauto.
Qed.

Lemma sorted_gci_nodup c : NoDup (map ci_gci (sorted_infos c)).
Proof.
  apply (Permutation_NoDup (Permutation_map ci_gci (Permutation_sym (sorted_infos_perm c)))).
  unfold cccd_infos. change (fun (x : cinfo) (n : N) => _) with set_pos. rewrite number_from_gci.
  apply nodup_map_filter. apply all_infos_gci_nodup.
Qed.

Lemma sorted_gci_inj c i j x y :
  nth_error (sorted_infos c) i = Some x -> nth_error (sorted_infos c) j = Some y -> ci_gci x = ci_gci y -> i = j.
Proof.
  intros A B E. pose proof (sorted_gci_nodup c) as ND. rewrite NoDup_nth_error in ND. apply ND.
  - rewrite map_length. apply nth_error_Some. rewrite A. discriminate.
  - rewrite !nth_error_map, A, B. cbn [option_map]. congruence.
Qed.

(* ------------------------------------------------------------------ the invariant: a queued request is not marked "transmitted" *)
Definition pinv (c : cfg) (st : srv_state) (m : obs) : Prop :=
  forall cid k, get_conn st cid = Some k ->
  exists mq, st_rel (nq k) mq /\
    forall i x kd, nth_error (sorted_infos c) i = Some x -> has (mget (mlevels mq) i) kd = true ->
                   pick kd (nth (ci_gci x) (o_pend (oc_at m cid)) (0, 0)) <> 2.

Lemma pinv_weaken c st m st' m' :
  pinv c st m -> keepsP m m' ->
  (forall j k', get_conn st' j = Some k' ->
     exists k, get_conn st j = Some k /\ (nq k' = nq k \/ nq k' = fst (NQueueModel.step (nq k) Confirm))) ->
  pinv c st' m'.
Proof.
  intros P K H j k' G'. destruct (H _ _ G') as (k & G & Q). destruct (P _ _ G) as (mq & R & X).
  destruct Q as [Q|Q]; rewrite Q.
  - exists mq. split; [exact R|]. intros i x kd Nx Hh. rewrite K. eapply X; eauto.
  - exists (mkm (mlevels mq) false). split; [apply confirm_abs; exact R|]. cbn [mlevels]. intros i x kd Nx Hh. rewrite K. eapply X; eauto.
Qed.

Lemma att_input_queue c st cid pdu n st' rs :
  att_input c st cid pdu n = Some (st', rs) ->
  forall j k', get_conn st' j = Some k' ->
    exists k, get_conn st j = Some k /\ (nq k' = nq k \/ nq k' = fst (NQueueModel.step (nq k) Confirm)).
Proof.
  intros A j k' G'.
  destruct (Nat.eq_dec j cid) as [->|Nj].
  2:{ rewrite (frame_other _ _ _ _ _ j (att_input_frame _ _ _ _ _ _ _ A)) in G' by exact Nj. eauto. }
  assert (exists k, get_conn st cid = Some k) as (k & G) by (unfold att_input in A; destruct (get_conn st cid); [eauto|discriminate]).
  exists k. split; [exact G|].
  destruct (list_eq_dec N.eq_dec pdu [30]) as [->|Np].
  - right. unfold att_input in A. rewrite G in A. destruct (len [30] =? 0); [discriminate|]. destruct (_ <? _); [discriminate|].
    change (rd [30] 0) with (Some 30) in A. cbn [N.eqb Pos.eqb] in A.
    destruct (handle_confirmation _ _ _ _ _ _) as [[s1 [b1 mm]]|] eqn:HC; [|discriminate].
    rewrite (proj1 (confirmation_good c st cid _ _ k G)) in HC. apply f_some_inj in HC. apply f_pair_inj in HC. destruct HC as [<- _].
    destruct (mm <=? len b1); [|discriminate]. apply f_some_inj in A. apply f_pair_inj in A. destruct A as [<- _].
    rewrite (set_conn_get _ _ _ _ G) in G'. apply f_some_inj in G'. subst k'. unfold nq_step. destruct (NQueueModel.step (nq k) Confirm). reflexivity.
  - left. destruct (att_input_not_confirm _ _ _ _ _ _ _ _ G A Np) as (k2 & Gk & Q). rewrite Gk in G'. apply f_some_inj in G'. subst k2. exact Q.
Qed.

(* ------------------------------------------------------------------ the clause duplicate_pdu *)
Definition check10_dup (c : cfg) (m : obs) (o : srv_op) (r : srv_out) : option nat :=
  match o, r with
  | OpOut cid n, OBytes (opc :: lo :: hi :: v) =>
      if (opc =? 27) || (opc =? 29) then
        let kd := if opc =? 27 then KNotif else KInd in
        match by_value_handle (ob_tab m) (lo + 256 * hi) with
        | Some g => if pick kd (nth g (o_pend (oc_at m cid)) (0, 0)) =? 2 then Some t10_duplicate_pdu else None
        | None => None
        end
      else None
  | _, _ => None
  end.

Definition monitor10_dup (c : cfg) (tr : list (srv_op * srv_out)) : option (nat * nat) :=
  monitor_from_of check10_dup c (obs_init c) O tr.

Lemma check10_dup_complete c m o r : check10 c m o r = Some t10_duplicate_pdu -> check10_dup c m o r = Some t10_duplicate_pdu.
Proof.
  destruct o as [cid pdu n|cid n|cid e p|cid|bu kd g|g|g data]; destruct r as [l| |l| | |l lg]; cbn [check10 check10_dup fault_relevant];
    try discriminate; try (destruct (_ || _ || _ || _); discriminate); try (destruct (Nat.eqb _ _); discriminate).
  - destruct pdu as [|a t]; [discriminate|]. destruct (_ || _ || _ || _); discriminate.
  - destruct l as [|opc [|lo [|hi v]]]; try discriminate.
    destruct ((opc =? 27) || (opc =? 29)); [|discriminate].
    destruct (by_value_handle (ob_tab m) (lo + 256 * hi)) as [g|]; [|discriminate].
    destruct (pick _ _ =? 0); [discriminate|]. destruct (pick _ _ =? 2); [auto|].
    destruct (nth g (o_cccd (oc_at m cid)) None) as [bits|].
    + destruct (N.land bits _ =? 0); [discriminate|]. destruct (nth g (ob_vals m) None); [destruct (value_ok10 _ _ _)|]; discriminate.
    + destruct (nth g (ob_vals m) None); [destruct (value_ok10 _ _ _)|]; discriminate.
Qed.

Lemma pend_upd_other (l : list (N * N)) g g' kd kd' v :
  (g <> g' \/ kd' <> kd) -> pick kd' (nth g (upd l g' (put_k kd (nth g' l (0, 0)) v)) (0, 0)) = pick kd' (nth g l (0, 0)).
Proof.
  intros H. destruct (Nat.eq_dec g g') as [->|Ng].
  - destruct (lt_dec g' (length l)) as [Lt|Ge].
    + rewrite nth_upd_eq by exact Lt. destruct kd, kd'; cbn [pick put_k fst snd]; try reflexivity; destruct H; congruence.
    + rewrite upd_out by lia. reflexivity.
  - rewrite nth_upd_neq by auto. reflexivity.
Qed.

Lemma pend_upd_same (l : list (N * N)) g kd : pick kd (nth g (upd l g (put_k kd (nth g l (0, 0)) 1)) (0, 0)) <> 2.
Proof.
  destruct (lt_dec g (length l)) as [Lt|Ge].
  - rewrite nth_upd_eq by exact Lt. destruct kd; cbn [pick put_k fst snd]; discriminate.
  - rewrite upd_out by lia. rewrite nth_overflow by lia. destruct kd; cbn [pick fst snd]; discriminate.
Qed.

(* the table position found under the handle of a value attribute is its characteristic number *)
Lemma by_value_handle_gci c ai s ch g cci g' : wf c -> no_includes c ->
  attribute_at c ai = Some (AValue s ch g cci) -> by_value_handle (char_table c) (handle_by_index c ai) = Some g' -> g' = g.
Proof.
  intros W NI A B. destruct (by_value_handle_entry c W NI ai s ch g cci g' A B) as (Lg & Eg).
  destruct (nth_error (char_table c) g') as [e|] eqn:Ne; [|apply nth_error_None in Ne; lia].
  pose proof (nth_error_nth _ _ cent_dflt Ne) as En. rewrite En in Eg.
  destruct (table_position_is_gci c g' e Ne) as (i2 & s2 & ch2 & cci2 & A2 & E2).
  assert (Hh : handle_by_index c i2 = handle_by_index c ai).
  { pose proof (f_equal ce_vh E2) as X1. pose proof (f_equal ce_vh Eg) as X2. cbn [cent_of ce_vh] in X1, X2. congruence. }
  apply (hbi_inj c W NI) in Hh; [|eapply attribute_at_lt; eauto|eapply attribute_at_lt; eauto]. subst i2.
  rewrite A in A2. inversion A2. reflexivity.
Qed.

Lemma adv_out_other c m cid n rs j : j <> cid -> oc_at (adv_out c m cid n rs) j = oc_at m j.
Proof.
  intros Nj. assert (S : forall k, oc_at (set_oc m cid k) j = oc_at m j).
  { intros k. rewrite oc_at_set_oc. replace (Nat.eqb cid j) with false by (symmetry; apply Nat.eqb_neq; auto). reflexivity. }
  unfold adv_out, adv_sent, adv_sent_unknown.
  repeat match goal with
         | |- context [if ?x then _ else _] => destruct x
         | |- context [match ?x with _ => _ end] => destruct x
         end; try reflexivity; apply S.
Qed.

Lemma adv_out_pend c m cid n rs :
  o_pend (oc_at (adv_out c m cid n rs) cid) = o_pend (oc_at m cid)
  \/ exists opc lo hi v g kd, rs = opc :: lo :: hi :: v /\ by_value_handle (ob_tab m) (lo + 256 * hi) = Some g
       /\ kd = (if opc =? 27 then KNotif else KInd)
       /\ o_pend (oc_at (adv_out c m cid n rs) cid)
          = upd (o_pend (oc_at m cid)) g (put_k kd (nth g (o_pend (oc_at m cid)) (0, 0)) 2).
Proof.
  assert (S : forall k, o_pend k = o_pend (oc_at m cid) -> o_pend (oc_at (set_oc m cid k) cid) = o_pend (oc_at m cid)).
  { intros k Hk. rewrite oc_at_set_oc. destruct (_ && _); auto. }
  unfold adv_out. destruct rs as [|opc [|lo [|hi v]]]; try (left; reflexivity).
  - left. destruct (_ <? 3); [apply S; reflexivity|]. destruct (eligible_must _); [apply S; reflexivity|reflexivity].
  - destruct (by_value_handle (ob_tab m) (lo + 256 * hi)) as [g|] eqn:B.
    + assert (Q : forall kd, o_pend (oc_at (adv_sent m cid g kd) cid) = o_pend (oc_at m cid)
                       \/ o_pend (oc_at (adv_sent m cid g kd) cid) = upd (o_pend (oc_at m cid)) g (put_k kd (nth g (o_pend (oc_at m cid)) (0, 0)) 2)).
      { intros kd. unfold adv_sent. rewrite oc_at_set_oc. destruct (_ && _); [right; reflexivity|left; reflexivity]. }
      destruct (opc =? 27) eqn:E27.
      * destruct (Q KNotif) as [Q1|Q1]; [left; exact Q1|right]. exists opc, lo, hi, v, g, KNotif. rewrite E27. auto.
      * destruct (opc =? 29) eqn:E29; [|left; reflexivity].
        destruct (Q KInd) as [Q1|Q1]; [left; exact Q1|right]. exists opc, lo, hi, v, g, KInd. rewrite E27. auto.
    + left. destruct (opc =? 27); [unfold adv_sent_unknown; apply S; reflexivity|].
      destruct (opc =? 29); [unfold adv_sent_unknown; apply S; reflexivity|reflexivity].
Qed.

Lemma pinv_out c st m cid n st' rs k :
  wf c -> no_includes c -> env10 c = true -> ob_tab m = char_table c ->
  pinv c st m -> get_conn st cid = Some k -> qsize (nq k) = queue_total c ->
  att_output c st cid n = Some (st', rs) ->
  check10_dup c m (OpOut cid n) (OBytes rs) = None /\ pinv c st' (adv_out c m cid n rs).
Proof.
  intros W NI EV T P G Q A.
  destruct (P _ _ G) as (mq & R & X).
  pose proof (st_rel_mwf _ _ R) as Wm.
  destruct (NQueueModel.step (nq k) Dequeue) as [q1 r] eqn:D.
  destruct (att_output_conn c st cid n st' rs k q1 r G D A) as (k1 & G1 & _ & Qn).
  (* the abstraction of the queue after the step: its bits are bits of the old one *)
  assert (Sub : exists mq1, st_rel q1 mq1 /\ forall j kd', has (mget (mlevels mq1) j) kd' = true ->
             has (mget (mlevels mq) j) kd' = true /\ (forall kd i, r = OEntry (Some (kd, i)) -> j = i -> kd' <> kd)).
  { destruct r as [b|[[kd i]|]|].
    - destruct (dequeue_abs _ _ R) as (m1 & _ & Dq). rewrite D in Dq. destruct Dq.
    - destruct (dequeue_abs _ _ R) as (m1 & R1 & Dq). rewrite D in R1, Dq. cbn [fst snd] in R1, Dq. destruct Dq as (_ & _ & Gm).
      exists m1. split; [exact R1|]. intros j kd' Hh. rewrite Gm in Hh. destruct (Nat.eqb j i) eqn:J.
      + apply Nat.eqb_eq in J. subst j. rewrite has_ldiff in Hh by (apply mget_lt4; exact Wm). apply andb_true_iff in Hh. destruct Hh as [H1 H2].
        split; [exact H1|]. intros kd0 i0 E _. inversion E; subst. intros ->. destruct kd0; discriminate.
      + split; [exact Hh|]. intros kd0 i0 E J2. inversion E; subst. rewrite Nat.eqb_refl in J. discriminate.
    - destruct (step_rel _ _ Dequeue R) as (m1 & E & R1). rewrite D in E, R1. cbn [fst snd mstep] in E, R1.
      apply f_pair_inj in E. destruct E as [_ <-]. exists mq. split; [exact R1|]. intros j kd' Hh. split; [exact Hh|]. intros ? ? E. discriminate.
    - destruct (dequeue_abs _ _ R) as (m1 & _ & Dq). rewrite D in Dq. destruct Dq. }
  assert (Sub2 : exists mq2, st_rel (nq k1) mq2 /\ forall j kd', has (mget (mlevels mq2) j) kd' = true ->
             has (mget (mlevels mq) j) kd' = true /\ (forall kd i, r = OEntry (Some (kd, i)) -> j = i -> kd' <> kd)).
  { destruct Sub as (mq1 & R1 & B1). destruct Qn as [Qn|Qn]; rewrite Qn; [exists mq1; auto|].
    exists (mkm (mlevels mq1) false). split; [apply confirm_abs; exact R1|exact B1]. }
  assert (Oth : forall j, j <> cid -> get_conn st' j = get_conn st j).
  { intros j Nj. apply (frame_other _ _ _ _ _ j (att_output_frame _ _ _ _ _ _ A) Nj). }
  (* the characteristic of a transmitted PDU *)
  assert (Key : forall opc lo hi v g, rs = opc :: lo :: hi :: v -> by_value_handle (char_table c) (lo + 256 * hi) = Some g ->
            exists kd i x, r = OEntry (Some (kd, i)) /\ (if opc =? 27 then KNotif else KInd) = kd
                           /\ nth_error (sorted_infos c) i = Some x /\ g = ci_gci x /\ has (mget (mlevels mq) i) kd = true).
  { intros opc lo hi v g Ers Bv. subst rs.
    unfold env10 in EV. apply andb_true_iff in EV. destruct EV as [EV Eq]. apply andb_true_iff in EV. destruct EV as [EV Eh].
    apply andb_true_iff in EV. destruct EV as [E9 Ea]. apply Nat.eqb_eq in Eq.
    destruct (att_output_entry c st cid n st' _ k G A ltac:(discriminate)) as (kd & i & q1' & D').
    assert (Er : r = OEntry (Some (kd, i))) by congruence. assert (q1' = q1) by congruence. subst q1'.
    destruct (att_output_pdu c st cid n st' _ k q1 kd i G D' A ltac:(discriminate)) as (B & a & s1 & d & At & _ & Erx).
    set (ai := fst (find_notification_data_by_index c (N.of_nat i))) in *.
    pose proof (dequeued_index_in_range _ _ _ _ _ R D') as Hi. rewrite Q, Eq in Hi.
    destruct (nth_error (sorted_infos c) i) as [x|] eqn:Nx; [|apply nth_error_None in Nx; rewrite sorted_infos_length in Nx; lia].
    destruct (right_characteristic_nonempty c i x Ea Nx) as (Fd & Av & Cp).
    assert (Eai : ai = ci_first x + 1) by (unfold ai; rewrite Fd; reflexivity).
    rewrite <- Eai in Av.
    assert (H16 : handle_by_index c ai < 65536).
    { rewrite forallb_forall in Eh. apply N.ltb_lt. apply (Eh (ai, AValue (ci_svc x) (ci_char x) (ci_gci x) (ci_pos x))).
      apply attr_table_in. split; [eapply attribute_at_lt; eauto|exact Av]. }
    injection Erx as Eo El Eh2 Ev. unfold le16 in *.
    assert (Hh : lo + 256 * hi = handle_by_index c ai) by (subst lo hi; apply le16_decode; exact H16).
    rewrite Hh in Bv. pose proof (by_value_handle_gci c ai _ _ _ _ g W NI Av Bv) as Eg.
    exists kd, i, x. split; [exact Er|]. split; [subst opc; destruct kd; reflexivity|]. split; [exact Nx|]. split; [exact Eg|].
    destruct (dequeue_abs _ _ R) as (m1 & _ & Dq). rewrite D' in Dq. cbn [snd] in Dq. destruct Dq as (El2 & _). eapply eligible_has'; eauto. }
  split.
  - destruct rs as [|opc [|lo [|hi v]]]; try reflexivity. cbn [check10_dup].
    destruct ((opc =? 27) || (opc =? 29)) eqn:O; [|reflexivity]. rewrite T.
    destruct (by_value_handle (char_table c) (lo + 256 * hi)) as [g|] eqn:Bv; [|reflexivity].
    destruct (Key _ _ _ _ g eq_refl Bv) as (kd & i & x & Er & Ek & Nx & Eg & Hh). rewrite Ek. subst g.
    pose proof (X i x kd Nx Hh) as Ne. destruct (_ =? 2) eqn:E2; [apply N.eqb_eq in E2; contradiction|reflexivity].
  - intros j k' G'. destruct (Nat.eq_dec j cid) as [->|Nj].
    + rewrite G1 in G'. apply f_some_inj in G'. subst k'. destruct Sub2 as (mq2 & R2 & B2). exists mq2. split; [exact R2|].
      intros i x kd' Nx Hh. destruct (B2 _ _ Hh) as (H1 & H2). pose proof (X i x kd' Nx H1) as Old.
      destruct (adv_out_pend c m cid n rs) as [Ep|(opc & lo & hi & v & g & kd & Er & Bv & Ek & Ep)]; rewrite Ep; [exact Old|].
      rewrite T in Bv. destruct (Key _ _ _ _ g Er Bv) as (kd2 & i2 & x2 & Err & Ek2 & Nx2 & Eg & _).
      rewrite pend_upd_other; [exact Old|].
      destruct (Nat.eq_dec i i2) as [->|Ni]; [right; rewrite Ek, Ek2; apply (H2 kd2 i2 Err eq_refl)|left].
      subst g. intros Eq. apply Ni. eapply sorted_gci_inj; eauto.
    + rewrite Oth in G' by exact Nj. destruct (P _ _ G') as (mq' & R' & X'). exists mq'. split; [exact R'|].
      intros i x kd' Nx Hh. rewrite adv_out_other by exact Nj. eauto.
Qed.

(* ------------------------------------------------------------------ a request *)
Lemma queue_all_spec o : forall l,
  length (snd (queue_all l o)) = length l
  /\ forall i, nth_error (fst (queue_all l o)) i = option_map (fun k => fst (nq_step k o)) (nth_error l i).
Proof.
  induction l as [|k t IH]; cbn [queue_all].
  - split; [reflexivity|]. intros [|i]; reflexivity.
  - destruct (nq_step k o) as [k' r] eqn:E. destruct (queue_all t o) as [t' rs]. cbn [fst snd length] in *. destruct IH as [L H].
    split; [rewrite L; reflexivity|]. intros [|i]; cbn [nth_error option_map]; [rewrite E; reflexivity|apply H].
Qed.

Lemma adv_request_pend tab g kd : forall l bits i, length bits = length l -> (i < length l)%nat ->
  o_pend (nth i (adv_request tab g kd l bits) (oc_init O))
  = upd (o_pend (nth i l (oc_init O))) g (put_k kd (nth g (o_pend (nth i l (oc_init O))) (0, 0)) 1).
Proof.
  induction l as [|k t IH]; intros bits i Lb Hi; cbn [length] in *; [lia|].
  destruct bits as [|b bt]; cbn [length] in Lb; [discriminate|]. cbn [adv_request].
  destruct i as [|i]; cbn [nth]; [reflexivity|]. apply IH; lia.
Qed.

Lemma pend_request_ok (l : list (N * N)) g tgt kd kd' :
  (pick kd' (nth g l (0, 0)) <> 2 \/ (g = tgt /\ kd' = kd)) ->
  pick kd' (nth g (upd l tgt (put_k kd (nth tgt l (0, 0)) 1)) (0, 0)) <> 2.
Proof.
  intros H. destruct (Nat.eq_dec g tgt) as [->|Ng].
  - destruct kd, kd'; try apply pend_upd_same; (rewrite pend_upd_other by (right; discriminate));
      (destruct H as [H|[_ H]]; [exact H|discriminate]).
  - rewrite pend_upd_other by (left; exact Ng). destruct H as [H|[H _]]; [exact H|contradiction].
Qed.

Lemma pinv_request c st m kd d tgt :
  length (ob_conns m) = length (conns st) ->
  pinv c st m ->
  (exists x, nth_error (sorted_infos c) (N.to_nat (snd d)) = Some x /\ ci_gci x = tgt) ->
  pinv c (fst (request st kd d))
       (mkObs (ob_tab m) (adv_request (ob_tab m) tgt kd (ob_conns m) (snd (request st kd d))) (ob_vals m) (ob_cb m)).
Proof.
  intros L P (x0 & Nx0 & Gx0). unfold request.
  set (i0 := N.to_nat (snd d)) in *. set (o := match kd with KNotif => QueueN i0 | KInd => QueueI i0 end).
  pose proof (queue_all_spec o (conns st)) as (Ln & Hn).
  destruct (queue_all (conns st) o) as [l rs]. cbn [fst snd] in *.
  intros j k' G'. unfold get_conn in G'. cbn [conns] in G'. rewrite Hn in G'.
  destruct (nth_error (conns st) j) as [k|] eqn:Gk; [|discriminate]. cbn [option_map] in G'. apply f_some_inj in G'. subst k'.
  destruct (P j k Gk) as (mq & R & X). destruct (step_rel _ _ o R) as (mq' & E & R').
  pose proof (st_rel_mwf _ _ R) as Wm.
  exists mq'. split.
  { unfold nq_step. destruct (NQueueModel.step (nq k) o) as [q r]. cbn [fst nq] in *. exact R'. }
  assert (Em : mlevels mq' = snd (m_chain_add (mlevels mq) i0 kd)).
  { subst o. destruct kd; destruct (snd (NQueueModel.step (nq k) _)) as [b|e|]; cbn [NQueueSpec.mstep] in E; try discriminate;
      destruct (m_chain_add (mlevels mq) i0 _) as [e1 ls]; apply f_pair_inj in E; destruct E as [_ <-]; reflexivity. }
  assert (Lj : (j < length (ob_conns m))%nat) by (rewrite L; apply nth_error_Some; unfold get_conn in Gk; rewrite Gk; discriminate).
  intros i x kd' Nx Hh. unfold oc_at at 1. cbn [ob_conns]. rewrite adv_request_pend by (auto; lia).
  apply pend_request_ok. fold (oc_at m j).
  rewrite Em, m_chain_add_get in Hh by exact Wm.
  destruct (Nat.eqb i i0 && (i0 <? mtotal (mlevels mq))%nat)%bool eqn:Ca.
  - apply andb_true_iff in Ca. destruct Ca as [Ca _]. apply Nat.eqb_eq in Ca. subst i.
    assert (x = x0) by congruence. subst x.
    rewrite has_lor in Hh by (apply mget_lt4; exact Wm). apply orb_true_iff in Hh. destruct Hh as [Hh|Hh].
    + left. eapply X; eauto.
    + right. split; [exact Gx0|]. destruct kd, kd'; try discriminate; reflexivity.
  - left. eapply X; eauto.
Qed.

(* ------------------------------------------------------------------ the other operations *)
Lemma pinv_same c st m st' m' :
  pinv c st m -> keepsP m m' -> (forall j, get_conn st' j = get_conn st j) -> pinv c st' m'.
Proof.
  intros P K H. apply (pinv_weaken c st m st' m' P K). intros j k' G'. rewrite H in G'. exists k'. split; [exact G'|left; reflexivity].
Qed.

Lemma nth_repeat00 : forall n g, nth g (repeat (0, 0) n) (0, 0) = (0, 0).
Proof. induction n as [|n IH]; destruct g; cbn [repeat nth]; auto. Qed.

Lemma pinv_disc c st m cid :
  wf c -> length (ob_conns m) = length (conns st) -> pinv c st m ->
  pinv c (set_conn (wq_free st cid) cid (init_conn c)) (set_oc m cid (oc_init (length (ob_tab m)))).
Proof.
  intros W L P j k' G'.
  assert (Gw : forall i, get_conn (wq_free st cid) i = get_conn st i).
  { intros i. unfold wq_free. destruct (wq_owner st); [destruct (Nat.eqb _ _)|]; reflexivity. }
  destruct (Nat.eq_dec j cid) as [->|Nj].
  - assert (Cw : conns (wq_free st cid) = conns st).
    { unfold wq_free. destruct (wq_owner st); [destruct (Nat.eqb _ _)|]; reflexivity. }
    assert (Lc : (cid < length (conns st))%nat).
    { destruct (lt_dec cid (length (conns st))) as [Lt|Ge]; auto. exfalso.
      unfold get_conn, set_conn in G'. cbn [conns] in G'. rewrite Cw in G'.
      assert (Hn : nth_error (upd (conns st) cid (init_conn c)) cid = None) by (apply nth_error_None; rewrite upd_length; lia).
      congruence. }
    assert (exists k0, get_conn (wq_free st cid) cid = Some k0) as (k0 & G0).
    { rewrite Gw. unfold get_conn. destruct (nth_error (conns st) cid) eqn:E; [eauto|]. apply nth_error_None in E. lia. }
    rewrite (set_conn_get _ _ _ _ G0) in G'. apply f_some_inj in G'. subst k'.
    eexists. split; [unfold init_conn; cbn [nq]; apply init_rel; apply wf_sizes_of_wf; exact W|].
    intros i x kd _ _. rewrite oc_at_set_oc. rewrite Nat.eqb_refl. cbn [andb].
    replace (cid <? length (ob_conns m))%nat with true by (symmetry; apply Nat.ltb_lt; lia).
    unfold oc_init. cbn [o_pend]. rewrite nth_repeat00. destruct kd; cbn [pick fst snd]; discriminate.
  - rewrite set_conn_get_other in G' by exact Nj. rewrite Gw in G'. destruct (P _ _ G') as (mq & R & X).
    exists mq. split; [exact R|]. intros i x kd Nx Hh. rewrite oc_at_set_oc.
    replace (Nat.eqb cid j) with false by (symmetry; apply Nat.eqb_neq; auto). cbn [andb]. eauto.
Qed.

(* ------------------------------------------------------------------ the target of a request by uuid *)
Definition FF (c : cfg) := fun x : N * attr => match snd x with
                                              | AValue s ch g cci => [cent_of c (attr_table c) (fst x) s ch g cci]
                                              | _ => []
                                              end.

Lemma table_positions_vc c : forall l i0 p e,
  nth_error (flat_map (FF c) (number i0 l)) p = Some e ->
  exists i s ch g cci, e = cent_of c (attr_table c) i s ch g cci /\ nth_error (flat_map vc_of l) p = Some (s, ch).
Proof.
  induction l as [|a t IH]; intros i0 p e H; cbn [number flat_map] in *; [destruct p; discriminate|].
  unfold FF at 1 in H. cbn [snd fst] in H.
  destruct a as [s|u|s ch|s ch g cci|s ch cci|nm|u v];
    try (cbn [app vc_of] in *; destruct (IH _ _ _ H) as (i & s' & ch' & g' & cci' & E & G); exists i, s', ch', g', cci'; auto).
  cbn [app vc_of] in *. destruct p as [|p]; cbn [nth_error] in *.
  - inversion H; subst. exists i0, s, ch, g, cci. auto.
  - destruct (IH _ _ _ H) as (i & s' & ch' & g' & cci' & E & G). exists i, s', ch', g', cci'. auto.
Qed.

Lemma table_length_vc c : forall l i0, length (flat_map (FF c) (number i0 l)) = length (flat_map vc_of l).
Proof.
  induction l as [|a t IH]; intros i0; cbn [number flat_map]; [reflexivity|]. rewrite !app_length, IH. f_equal.
  unfold FF. cbn [snd fst]. destruct a; reflexivity.
Qed.

Lemma char_table_FF c : char_table c = flat_map (FF c) (number 0 (alist c)).
Proof. rewrite <- attr_table_number. reflexivity. Qed.

Lemma table_entry_char c g xg :
  nth_error (all_chars c) g = Some xg ->
  exists i s cci g', nth g (char_table c) cent_dflt = cent_of c (attr_table c) i s (snd xg) g' cci.
Proof.
  intros Nx. assert (Lg : (g < length (char_table c))%nat).
  { rewrite char_table_FF, table_length_vc, alist_vcs. apply nth_error_Some. rewrite Nx. discriminate. }
  destruct (nth_error (char_table c) g) as [e|] eqn:Ne; [|apply nth_error_None in Ne; lia].
  rewrite (nth_error_nth _ _ cent_dflt Ne). rewrite char_table_FF in Ne.
  destruct (table_positions_vc c _ _ _ _ Ne) as (i & s & ch & g' & cci & E & G). rewrite alist_vcs, Nx in G.
  apply f_some_inj in G. subst xg. exists i, s, cci, g'. exact E.
Qed.

Lemma first_uuid_gci u : forall (infos : list cinfo) (chars : list (service_decl * char_decl)) i0 x0 rest,
  map ci_char infos = map snd chars -> map ci_gci infos = seq i0 (length infos) ->
  filter (fun x => uuid_eqb (c_uuid (ci_char x)) u) infos = x0 :: rest -> first_uuid chars u i0 = ci_gci x0.
Proof.
  induction infos as [|a t IH]; intros chars i0 x0 rest Ec Eg F; [discriminate|].
  destruct chars as [|y ys]; [discriminate|]. cbn [map length seq] in *. injection Ec as E1 E2. injection Eg as G1 G2.
  cbn [filter] in F. cbn [first_uuid]. rewrite <- E1. destruct (uuid_eqb (c_uuid (ci_char a)) u).
  - injection F as Fa _. subst x0. symmetry. exact G1.
  - eapply IH; eauto.
Qed.

Lemma all_chars_snd c : map snd (all_chars c) = flat_map s_chars (services c).
Proof.
  unfold all_chars. induction (services c) as [|s t IH]; cbn [flat_map map]; [reflexivity|].
  rewrite map_app, IH, map_map. cbn [snd]. rewrite map_id. reflexivity.
Qed.

Lemma uuid_target c g xg d :
  nth_error (all_chars c) g = Some xg -> find_notification_by_uuid c (c_uuid (snd xg)) = Some d ->
  exists x, nth_error (sorted_infos c) (N.to_nat (snd d)) = Some x /\ ci_gci x = ce_first (cent_at (char_table c) g).
Proof.
  intros Nx Fd. destruct (by_uuid_addresses_sorted_index c _ d Fd) as (x0 & F0 & _ & x & Nxs & Gx & _).
  exists x. split; [exact Nxs|]. rewrite Gx.
  destruct (table_entry_char c g xg Nx) as (i & s & cci & g' & En). unfold cent_at. rewrite En. cbn [cent_of ce_first].
  unfold find_char_by_uuid in F0. destruct (filter _ (all_infos c)) as [|y r] eqn:Fl; [discriminate|]. apply f_some_inj in F0. subst y.
  symmetry. eapply first_uuid_gci; [| |exact Fl].
  - unfold all_infos. rewrite svcs_infos_chars, all_chars_snd. reflexivity.
  - unfold all_infos. apply svcs_infos_gci.
Qed.

(* ------------------------------------------------------------------ the trace level theorem for the clause *)
Lemma pinv_init c : wf c -> pinv c (srv_init c) (obs_init c).
Proof.
  intros W j k G. destruct (queue_reachable c [] j k W G) as ((mq & R) & _). exists mq. split; [exact R|].
  intros i x kd _ _. unfold obs_init, oc_at. cbn [ob_conns].
  destruct (nth_in_or_default j (repeat (oc_init (length (char_table c))) n_conns) (oc_init O)) as [I|E].
  - apply repeat_spec in I. rewrite I. unfold oc_init. cbn [o_pend]. rewrite nth_repeat00. destruct kd; cbn [pick fst snd]; discriminate.
  - rewrite E. unfold oc_init. cbn [o_pend repeat]. destruct (ci_gci x); destruct kd; cbn [nth pick fst snd]; discriminate.
Qed.

Theorem monitor10_dup_from c : wf c -> no_includes c -> env10 c = true -> forall ops pre n0 m pos,
  sim09 c (srv_after c (srv_init c) pre, n0) m -> pinv c (srv_after c (srv_init c) pre) m ->
  forallb op10_bytes ops = true ->
  no_fault (srv_run c (srv_after c (srv_init c) pre) ops) ->
  monitor_from_of check10_dup c m pos (srv_run c (srv_after c (srv_init c) pre) ops) = None.
Proof.
  intros W NI EV. pose proof (env10_env09 c EV) as E9.
  induction ops as [|o t IH]; intros pre n0 m pos SM PV OK NF; cbn [srv_run monitor_from_of]; [reflexivity|].
  cbn [forallb] in OK. apply andb_true_iff in OK. destruct OK as [Ok1 Ok2].
  set (st := srv_after c (srv_init c) pre) in *.
  assert (Est : fst (srv_step c st o) = srv_after c (srv_init c) (pre ++ [o])).
  { rewrite srv_after_app. cbn [srv_after]. reflexivity. }
  destruct (srv_step c st o) as [st' x] eqn:E. cbn [fst snd] in *.
  cbn [srv_run] in NF. rewrite E in NF. inversion NF as [|? ? NF1 NF2]. cbn [snd] in NF1.
  assert (NFx : snd (srv_step c st o) <> OFault) by (rewrite E; exact NF1).
  pose proof SM as (T & L & _ & _). cbn [fst] in L.
  (* the next simulation state *)
  assert (S1 : exists n1, sim09 c (st', n1) (advance c m o x)).
  { destruct o as [cid pdu n|cid n|cid e p|cid|bu kd g|g|g data].
    - cbn [srv_step] in E. destruct (att_input c st cid pdu n) as [[s1 rs]|] eqn:A; [|inv E; contradiction]. inv E.
      assert (BO : bytes_ok_l pdu).
      { cbn [op10_bytes] in Ok1. rewrite forallb_forall in Ok1. apply Forall_forall. intros b Hb. apply N.ltb_lt. apply Ok1. exact Hb. }
      eexists. exact (sim09_in c st n0 m cid pdu n _ rs W NI E9 BO SM A).
    - destruct (sim09_other c st n0 m (OpOut cid n) I NFx SM) as (S1 & _). rewrite E in S1. cbn [fst snd] in S1. eauto.
    - destruct (sim09_other c st n0 m (OpSec cid e p) I NFx SM) as (S1 & _). rewrite E in S1. cbn [fst snd] in S1. eauto.
    - destruct (sim09_other c st n0 m (OpDisc cid) I NFx SM) as (S1 & _). rewrite E in S1. cbn [fst snd] in S1. eauto.
    - destruct (sim09_other c st n0 m (OpNotify bu kd g) I NFx SM) as (S1 & _). rewrite E in S1. cbn [fst snd] in S1. eauto.
    - destruct (sim09_other c st n0 m (OpVal g) I NFx SM) as (S1 & _). rewrite E in S1. cbn [fst snd] in S1. eauto.
    - destruct (sim09_other c st n0 m (OpSetVal g data) I NFx SM) as (S1 & _). rewrite E in S1. cbn [fst snd] in S1. eauto. }
  (* the clause, and the next requested sets *)
  assert (CP : check10_dup c m o x = None /\ pinv c st' (advance c m o x)).
  { destruct o as [cid pdu n|cid n|cid e p|cid|bu kd g|g|g data].
    - split; [destruct x; reflexivity|].
      cbn [srv_step] in E. destruct (att_input c st cid pdu n) as [[s1 rs]|] eqn:A; [|inv E; contradiction]. inv E. cbn [advance].
      destruct ((len pdu =? 0) || (n <? default_att_mtu)).
      + exact (pinv_weaken _ _ _ _ _ PV (kP_refl m) (att_input_queue _ _ _ _ _ _ _ A)).
      + exact (pinv_weaken _ _ _ _ _ PV (kP_adv_in c m cid pdu n rs) (att_input_queue _ _ _ _ _ _ _ A)).
    - cbn [srv_step] in E. destruct (att_output c st cid n) as [[s1 rs]|] eqn:A; [|inv E; contradiction]. inv E.
      assert (exists k, get_conn st cid = Some k) as (k & G) by (unfold att_output in A; destruct (get_conn st cid); [eauto|discriminate]).
      destruct (queue_reachable c pre cid k W G) as (_ & Qs).
      exact (pinv_out c st m cid n _ rs k W NI EV T PV G Qs A).
    - split; [destruct x; reflexivity|]. cbn [srv_step] in E. destruct (get_conn st cid) as [k|] eqn:G; inv E; cbn [advance].
      + apply (pinv_weaken c st m _ _ PV); [apply kP_set_oc; reflexivity|].
        intros j k' G'. destruct (Nat.eq_dec j cid) as [->|Nj].
        * rewrite (set_conn_get _ _ _ _ G) in G'. apply f_some_inj in G'. subst k'. exists k. split; [exact G|left; reflexivity].
        * rewrite set_conn_get_other in G' by exact Nj. exists k'. split; [exact G'|left; reflexivity].
      + apply (pinv_same c st m _ _ PV); [apply kP_set_oc; reflexivity|reflexivity].
    - split; [destruct x; reflexivity|]. cbn [srv_step] in E. inv E. cbn [advance]. exact (pinv_disc c st m cid W L PV).
    - split; [destruct x; reflexivity|]. cbn [srv_step] in E. destruct bu.
      { destruct (by_uuid_available c kd g); [|inv E; exact (pinv_same c st m _ _ PV (kP_refl m) (fun j => eq_refl))].
        destruct (notify_by_uuid c st kd g) as [[s1 r]|] eqn:Nv; [|inv E; contradiction].
        assert (Hr : exists xg d, nth_error (all_chars c) g = Some xg /\ find_notification_by_uuid c (c_uuid (snd xg)) = Some d
                                  /\ request st kd d = (s1, r)).
        { unfold notify_by_uuid in Nv. destruct (nth_error (all_chars c) g) as [xg|]; [|discriminate].
          destruct (find_notification_by_uuid c (c_uuid (snd xg))) as [d|] eqn:Fd; [|discriminate].
          exists xg, d. split; [reflexivity|]. split; [exact Fd|]. apply f_some_inj in Nv. exact Nv. }
        destruct Hr as (xg & d & Nxg & Fd & Hr). inv E. cbn [advance target].
        pose proof (pinv_request c st m kd d _ L PV (uuid_target c g xg d Nxg Fd)) as Pr. rewrite Hr in Pr. cbn [fst snd] in Pr.
        rewrite <- T in Pr. exact Pr. }
      destruct (by_value_available c g); [|inv E; exact (pinv_same c st m _ _ PV (kP_refl m) (fun j => eq_refl))].
      destruct (notify_by_value c st kd g) as [[s1 r]|] eqn:Nv; [|inv E; contradiction].
      assert (Hr : exists d, find_notification_data c g = Some d /\ request st kd d = (s1, r)).
      { unfold notify_by_value in Nv. destruct (find_notification_data c g) as [d|]; [|discriminate]. exists d. split; [reflexivity|].
        apply f_some_inj in Nv. exact Nv. }
      destruct Hr as (d & Fd & Hr). inv E. cbn [advance target].
      destruct (by_value_addresses_sorted_index c g d Fd) as (_ & x & Nx & Gx & _).
      pose proof (pinv_request c st m kd d g L PV (ex_intro _ x (conj Nx Gx))) as Pr. rewrite Hr in Pr. cbn [fst snd] in Pr. exact Pr.
    - split; [destruct x; reflexivity|]. cbn [srv_step] in E. destruct (has_var c g) as [[w h]|]; inv E; cbn [advance];
        (apply (pinv_same c st m _ _ PV); [try apply kP_refl; apply kP_conns; reflexivity|reflexivity]).
    - split; [destruct x; reflexivity|]. cbn [srv_step] in E. destruct (has_var c g) as [[[|] h]|]; inv E; cbn [advance];
        (apply (pinv_same c st m _ _ PV); [destruct (nth g (ob_vals m) None); try apply kP_refl; apply kP_conns; reflexivity|reflexivity]). }
  destruct CP as (Ck & PV1). destruct S1 as (n1 & S1). cbn [monitor_from_of]. unfold mstep_of. rewrite Ck. rewrite Est in *.
  apply (IH (pre ++ [o]) n1); [exact S1|exact PV1|exact Ok2|exact NF2].
Qed.

Theorem monitor10_dup_accepts_model c ops :
  wf c -> no_includes c -> env10 c = true -> forallb op10_bytes ops = true ->
  no_fault (srv_run c (srv_init c) ops) -> monitor10_dup c (srv_run c (srv_init c) ops) = None.
Proof.
  intros W NI EV OK NF. exact (monitor10_dup_from c W NI EV ops [] 0 (obs_init c) O (sim09_init c) (pinv_init c W) OK NF).
Qed.
