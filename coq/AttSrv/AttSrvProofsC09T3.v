(* C09 trace level theorem without a no-FAULT hypothesis for l2cap_input: every state along the history is
   reachable, so att-core's reachable-state theorem (AttSrvNoFault.att_input_no_fault_reachable) applies. A
   no-FAULT hypothesis remains for the other operations (l2cap_output, notify / indicate). *)
From Coq Require Import Lia ZifyBool.
From BT Require Import Base.ListX AttDb.AttDbModel AttDb.AttDbProofs NQueue.NQueueModel AttSrv.AttSrvModel AttSrv.AttSrvSpecC01
  AttSrv.AttSrvFrame AttSrv.AttSrvCbModel AttSrv.AttSrvNotifSpec AttSrv.AttSrvNotifObs AttSrv.AttSrvNotifObs09 AttSrv.AttSrvSpecC09
  AttSrv.AttSrvProofsC09T AttSrv.AttSrvProofsC09T2 AttSrv.AttSrvNoFault.
Local Open Scope N_scope.

(* requests inside the hypotheses of l2cap_input (its asserts), PDUs of bytes *)
Definition op09_req (o : op9) : bool :=
  match o with
  | Op9 (OpIn cid pdu n) => (cid <? n_conns)%nat && (1 <=? len pdu) && (23 <=? n) && forallb (fun b => b <? 256) pdu
  | _ => true
  end.
(* no FAULT of the operations that are not l2cap_input *)
Definition no_fault9_other (tr : list (op9 * out9)) : Prop :=
  Forall (fun x => match fst x with Op9 (OpIn _ _ _) => True | _ => snd x <> Out9 OFault end) tr.

Theorem monitor09_from_accepts_reach c : wf c -> no_includes c -> no_marker_uuids c -> env09 c = true ->
  forall ops pre n0 m pos,
  sim09 c (srv_after c (srv_init c) pre, n0) m -> forallb op09_req ops = true ->
  no_fault9_other (srv9_run c (srv_after c (srv_init c) pre, n0) ops) ->
  monitor09_from c m pos (srv9_run c (srv_after c (srv_init c) pre, n0) ops) = None.
Proof.
  intros W NI NM EV. induction ops as [|o t IH]; intros pre n0 m pos SM OK NF; cbn [srv9_run monitor09_from]; [reflexivity|].
  cbn [forallb] in OK. apply andb_true_iff in OK. destruct OK as [Ok1 Ok2].
  set (st := srv_after c (srv_init c) pre) in *.
  destruct o as [op|].
  - assert (Est : forall st' x, srv_step c st op = (st', x) -> st' = srv_after c (srv_init c) (pre ++ [op])).
    { intros st' x E. rewrite srv_after_app. cbn [srv_after]. fold st. rewrite E. reflexivity. }
    destruct op as [cid pdu n|cid n|cid e p|cid|bu kd g|g|g data].
    + cbn [op09_req] in Ok1. apply andb_true_iff in Ok1. destruct Ok1 as [Ok1 Ob]. apply andb_true_iff in Ok1. destruct Ok1 as [Ok1 On].
      apply andb_true_iff in Ok1. destruct Ok1 as [Oc Ol]. apply Nat.ltb_lt in Oc. apply N.leb_le in Ol, On.
      assert (BO : bytes_ok_l pdu).
      { rewrite forallb_forall in Ob. apply Forall_forall. intros b Hb. apply N.ltb_lt. apply Ob. exact Hb. }
      pose proof (att_input_no_fault_reachable c pre cid pdu n W NI NM Oc Ol On) as NFi. rewrite srv_final_after in NFi. fold st in NFi.
      cbn [srv9_run srv9_step fst snd srv_step] in NF |- *.
      pose proof (Est) as Est'. cbn [srv_step] in Est'.
      destruct (att_input c st cid pdu n) as [[st' rs]|] eqn:A; [|contradiction]. cbn [fst snd] in NF |- *.
      pose proof (Est' st' (OBytes rs) eq_refl) as E'.
      cbn [monitor09_from mstep09]. unfold mstep_of.
      rewrite (check09_in_ok c st n0 m cid pdu n st' rs W NI EV BO SM A).
      inversion NF as [|? ? NF1 NF2].
      pose proof (sim09_in c st n0 m cid pdu n st' rs W NI EV BO SM A) as S1.
      rewrite E' in S1, NF2 |- *. apply IH; [exact S1|exact Ok2|exact NF2].
    + cbn [srv9_run srv9_step fst snd] in NF |- *.
      destruct (srv_step c st (OpOut cid n)) as [st' x] eqn:E. cbn [fst snd] in NF |- *. inversion NF as [|? ? NF1 NF2]. cbn [fst snd] in NF1.
      assert (NFx : snd (srv_step c st (OpOut cid n)) <> OFault) by (rewrite E; intros X; apply NF1; cbn [snd] in X |- *; congruence).
      destruct (sim09_other c st n0 m (OpOut cid n) I NFx SM) as (S1 & C1). rewrite E in S1, C1. cbn [fst snd] in S1, C1.
      cbn [monitor09_from mstep09]. unfold mstep_of. rewrite C1. rewrite N.add_0_r in *. rewrite (Est st' x eq_refl) in *. apply IH; [exact S1|exact Ok2|exact NF2].
    + cbn [srv9_run srv9_step fst snd] in NF |- *.
      destruct (srv_step c st (OpSec cid e p)) as [st' x] eqn:E. cbn [fst snd] in NF |- *. inversion NF as [|? ? NF1 NF2]. cbn [fst snd] in NF1.
      assert (NFx : snd (srv_step c st (OpSec cid e p)) <> OFault) by (rewrite E; intros X; apply NF1; cbn [snd] in X |- *; congruence).
      destruct (sim09_other c st n0 m (OpSec cid e p) I NFx SM) as (S1 & C1). rewrite E in S1, C1. cbn [fst snd] in S1, C1.
      cbn [monitor09_from mstep09]. unfold mstep_of. rewrite C1. rewrite N.add_0_r in *. rewrite (Est st' x eq_refl) in *. apply IH; [exact S1|exact Ok2|exact NF2].
    + cbn [srv9_run srv9_step fst snd] in NF |- *.
      destruct (srv_step c st (OpDisc cid)) as [st' x] eqn:E. cbn [fst snd] in NF |- *. inversion NF as [|? ? NF1 NF2]. cbn [fst snd] in NF1.
      assert (NFx : snd (srv_step c st (OpDisc cid)) <> OFault) by (rewrite E; intros X; apply NF1; cbn [snd] in X |- *; congruence).
      destruct (sim09_other c st n0 m (OpDisc cid) I NFx SM) as (S1 & C1). rewrite E in S1, C1. cbn [fst snd] in S1, C1.
      cbn [monitor09_from mstep09]. unfold mstep_of. rewrite C1. rewrite N.add_0_r in *. rewrite (Est st' x eq_refl) in *. apply IH; [exact S1|exact Ok2|exact NF2].
    + cbn [srv9_run srv9_step fst snd] in NF |- *.
      destruct (srv_step c st (OpNotify bu kd g)) as [st' x] eqn:E. cbn [fst snd] in NF |- *. inversion NF as [|? ? NF1 NF2]. cbn [fst snd] in NF1.
      assert (NFx : snd (srv_step c st (OpNotify bu kd g)) <> OFault) by (rewrite E; intros X; apply NF1; cbn [snd] in X |- *; congruence).
      destruct (sim09_other c st n0 m (OpNotify bu kd g) I NFx SM) as (S1 & C1). rewrite E in S1, C1. cbn [fst snd] in S1, C1.
      cbn [monitor09_from mstep09]. unfold mstep_of. rewrite C1. rewrite N.add_0_r in *. rewrite (Est st' x eq_refl) in *. apply IH; [exact S1|exact Ok2|exact NF2].
    + cbn [srv9_run srv9_step fst snd] in NF |- *.
      destruct (srv_step c st (OpVal g)) as [st' x] eqn:E. cbn [fst snd] in NF |- *. inversion NF as [|? ? NF1 NF2]. cbn [fst snd] in NF1.
      assert (NFx : snd (srv_step c st (OpVal g)) <> OFault) by (rewrite E; intros X; apply NF1; cbn [snd] in X |- *; congruence).
      destruct (sim09_other c st n0 m (OpVal g) I NFx SM) as (S1 & C1). rewrite E in S1, C1. cbn [fst snd] in S1, C1.
      cbn [monitor09_from mstep09]. unfold mstep_of. rewrite C1. rewrite N.add_0_r in *. rewrite (Est st' x eq_refl) in *. apply IH; [exact S1|exact Ok2|exact NF2].
    + cbn [srv9_run srv9_step fst snd] in NF |- *.
      destruct (srv_step c st (OpSetVal g data)) as [st' x] eqn:E. cbn [fst snd] in NF |- *. inversion NF as [|? ? NF1 NF2]. cbn [fst snd] in NF1.
      assert (NFx : snd (srv_step c st (OpSetVal g data)) <> OFault) by (rewrite E; intros X; apply NF1; cbn [snd] in X |- *; congruence).
      destruct (sim09_other c st n0 m (OpSetVal g data) I NFx SM) as (S1 & C1). rewrite E in S1, C1. cbn [fst snd] in S1, C1.
      cbn [monitor09_from mstep09]. unfold mstep_of. rewrite C1. rewrite N.add_0_r in *. rewrite (Est st' x eq_refl) in *. apply IH; [exact S1|exact Ok2|exact NF2].
  - cbn [srv9_run srv9_step fst snd] in NF |- *. cbn [monitor09_from mstep09].
    inversion NF as [|? ? NF1 NF2].
    destruct SM as (T & L & CB & S). cbn [fst snd] in *.
    assert (SM' : sim09 c (st, 0) (set_cb m (Some 0))).
    { split; [exact T|]. split; [exact L|]. split; [intros e He; cbn [set_cb ob_cb] in He; inversion He; reflexivity|]. exact S. }
    destruct (ob_cb m) as [e|] eqn:Cb.
    + rewrite (CB e eq_refl), N.eqb_refl. apply IH; [exact SM'|exact Ok2|exact NF2].
    + apply IH; [exact SM'|exact Ok2|exact NF2].
Qed.

Theorem monitor09_accepts_model_reach c ops :
  wf c -> no_includes c -> no_marker_uuids c -> env09 c = true -> forallb op09_req ops = true ->
  no_fault9_other (srv9_run c (srv9_init c) ops) -> monitor09 c (srv9_run c (srv9_init c) ops) = None.
Proof.
  intros W NI NM EV OK NF. exact (monitor09_from_accepts_reach c W NI NM EV ops [] 0 (obs_init c) O (sim09_init c) OK NF).
Qed.
