(* What the responses that the C05 / C06 monitors SCAN may contain: every handle in a Read By Type Response,
   every handle of an answered Read Multiple Request and the handle of a notification / indication is the
   handle of an attribute whose read access succeeded on that connection ([may_read]). Built on the byte level
   invariants of AttSrvProofsC02.v (col_inv, seg) and the inverse laws of the handle mapping (AttDbProofs.v). *)
From Coq Require Import Lia ZifyBool.
From BT Require Import Base.ListX AttDb.AttDbModel AttDb.AttDbSpec AttDb.AttDbProofs NQueue.NQueueModel
  AttSrv.AttSrvModel AttSrv.AttSrvSpecC01 AttSrv.AttSrvProofsC01 AttSrv.AttSrvProofsC02
  AttSrv.AttSrvSpecVal AttSrv.AttSrvProofsVal AttSrv.AttSrvProofsC05.
Local Open Scope N_scope.

Ltac nlia := zify; Z.to_euclidean_division_equations; lia.

(* ------------------------------------------------------------------ a read access that succeeds *)
Definition model_readable (ch : char_decl) : bool :=
  match c_value ch with
  | VBind _ _ | VFixed _ _ => negb (c_no_read ch)
  | VString _ => true
  | VHandler _ rd _ _ => rd
  end.

Definition may_read (c : cfg) (k : conn) (a : attr) : bool :=
  match a with
  | AValue s ch _ _ => (negb (char_requires_encryption c s ch) || encrypted k) && model_readable ch
  | ACccd s ch _ => negb (char_requires_encryption c s ch) || encrypted k
  | _ => true
  end.

Lemma access_read_success c st cid k a i off m st' d :
  get_conn st cid = Some k -> access_read c st cid a i off m = Some (st', Success, d) -> may_read c k a = true.
Proof.
  intros G. unfold access_read. rewrite G. destruct a as [s|u|s ch|s ch g cci|s ch cci|nm|u v]; cbn [may_read]; try reflexivity.
  - unfold value_read, security_check, model_readable. cbn [fst snd].
    destruct (char_requires_encryption c s ch), (encrypted k); cbn [negb orb andb];
      try (destruct (pairing k =? 0); intros H; inv H; fail);
      (destruct (c_value ch) as [size kc|size v|bytes|size hrd hwr blob];
       [destruct (c_no_read ch); [intros H; inv H|reflexivity]
       |destruct (c_no_read ch); [intros H; inv H|reflexivity]
       |reflexivity
       |destruct hrd; [reflexivity|intros H; inv H]]).
  - unfold security_check. cbn [fst snd].
    destruct (char_requires_encryption c s ch), (encrypted k); cbn [negb orb]; try reflexivity.
    destruct (pairing k =? 0); intros H; inv H.
Qed.

(* ------------------------------------------------------------------ handles in the response *)
(* [h] is the handle of an attribute this connection may read *)
Definition good_handle (c : cfg) (k : conn) (h : N) : Prop :=
  exists i a, attribute_at c i = Some a /\ h = handle_by_index c i /\ may_read c k a = true.

Lemma good_handle_attr c k h : wf c -> no_includes c -> good_handle c k h ->
  h < 65536 /\ exists a, attr_of c h = Some a /\ may_read c k a = true.
Proof.
  intros Hw Hn (i & a & HA & -> & M).
  assert (Hi : i < number_of_attributes c).
  { destruct (N.lt_ge_cases i (number_of_attributes c)) as [L|L]; [exact L|]. rewrite (attribute_at_beyond c i L) in HA. discriminate. }
  destruct (index_by_handle_inverse c i Hw Hn Hi) as [Inv NZ]. split.
  - apply (assign_upper c _ Hw Hn). rewrite (handle_by_index_nth c i Hw Hn Hi). apply nth_In.
    pose proof (assign_length c Hw Hn). lia.
  - exists a. split; [|exact M]. unfold attr_of.
    destruct (handle_by_index c i =? 0) eqn:E0; [apply N.eqb_eq in E0; unfold invalid_handle in NZ; contradiction|].
    rewrite Inv. destruct (i =? invalid_index) eqn:EI; [|exact HA].
    apply N.eqb_eq in EI. pose proof (wf_attr_bound c Hw). unfold invalid_index in EI. lia.
Qed.

(* ------------------------------------------------------------------ Read By Type: the collected entries *)
Lemma collect_attribute_good c st cid k col e index a st' col' E :
  get_conn st cid = Some k -> attribute_at c index = Some a ->
  collect_attribute c st cid col e index a = Some (st', col') ->
  col_inv col E -> co_cur col <= e -> e <= len (co_buf col) -> Forall (good_handle c k) (map fst E) ->
  co_cur col' <= e /\ len (co_buf col') = len (co_buf col) /\
  exists E', col_inv col' E' /\ Forall (good_handle c k) (map fst E').
Proof.
  intros G HA H Hinv Hc He HG.
  assert (Keep : col' = col -> co_cur col' <= e /\ len (co_buf col') = len (co_buf col) /\
                 exists E', col_inv col' E' /\ Forall (good_handle c k) (map fst E')).
  { intros ->. repeat split; auto. exists E. split; assumption. }
  pose proof H as H0. unfold collect_attribute in H0.
  destruct (2 <=? e - co_cur col); [|apply Keep; inversion H0; reflexivity].
  cbv zeta in H0. destruct (access_read c st cid a index 0 _) as [[[st1 rc] d]|] eqn:Ea; [|discriminate].
  destruct rc; [|apply Keep; inversion H0; reflexivity|apply Keep; inversion H0; reflexivity].
  pose proof (access_read_success _ _ _ _ _ _ _ _ _ _ G Ea) as M.
  destruct (collect_attribute_step c st cid col e index a st' col' E H Hinv Hc He) as (A & B & [C|(d' & C)]).
  - repeat split; auto. exists E. split; assumption.
  - repeat split; auto. eexists. split; [exact C|]. rewrite map_app. apply Forall_app. split; [exact HG|].
    cbn [map fst]. constructor; [|constructor]. exists index, a. repeat split; auto.
Qed.

Lemma all_attributes_good c cid k f e last eh : forall fuel st col index st' col' E,
  get_conn st cid = Some k ->
  all_attributes fuel c st cid f col e index last eh = Some (st', col') ->
  col_inv col E -> co_cur col <= e -> e <= len (co_buf col) -> Forall (good_handle c k) (map fst E) ->
  co_cur col' <= e /\ len (co_buf col') = len (co_buf col) /\
  exists E', col_inv col' E' /\ Forall (good_handle c k) (map fst E').
Proof.
  induction fuel as [|n IH]; intros st col index st' col' E G H Hinv Hc He HG; cbn [all_attributes] in H.
  - inversion H; subst. repeat split; auto. exists E. split; assumption.
  - destruct ((index <=? last) && (handle_by_index c index <=? eh)).
    2:{ inversion H; subst. repeat split; auto. exists E. split; assumption. }
    destruct (attribute_at c index) as [a|] eqn:HA; [|discriminate].
    destruct (uuid_filter_match f a); [|eapply IH; eauto].
    destruct (collect_attribute c st cid col e index a) as [[st1 col1]|] eqn:EC; [|discriminate].
    destruct (collect_attribute_good c st cid k col e index a st1 col1 E G HA EC Hinv Hc He HG) as (A & B & E1 & I1 & G1).
    assert (G' : get_conn st1 cid = Some k).
    { apply collect_attribute_same in EC. destruct EC as (_ & _ & _ & CE & _). unfold get_conn in *. rewrite CE. exact G. }
    destruct (IH st1 col1 (index + 1) st' col' E1 G' H I1 A ltac:(lia) G1) as (A2 & B2 & X). repeat split; auto. lia.
Qed.

(* the handles the monitors find in a (possibly truncated) list of entries *)
Lemma le16_value x : nth 0 (le16 x) 0 + 256 * nth 1 (le16 x) 0 = x mod 65536.
Proof. unfold le16. cbn [nth]. nlia. Qed.

Lemma entry_handles_prefix (E : list (N * list N)) (l : nat) :
  (forall x, In x E -> length (ebytes x) = l) -> (2 <= l)%nat ->
  forall fuel m h, In h (entry_handles fuel l (firstn m (flat_map ebytes E))) -> exists x, In x E /\ h = fst x mod 65536.
Proof.
  intros HL L2. induction E as [|x t IH]; intros fuel m h Hin.
  - cbn [flat_map] in Hin. rewrite firstn_nil in Hin. destruct fuel; destruct Hin.
  - assert (IHt : forall fuel m h, In h (entry_handles fuel l (firstn m (flat_map ebytes t))) -> exists y, In y (x :: t) /\ h = fst y mod 65536).
    { intros f' m' h' Hh. destruct (IH (fun y Hy => HL y (or_intror Hy)) f' m' h' Hh) as (y & Hy & ->). exists y. split; [right; exact Hy|reflexivity]. }
    destruct fuel as [|fuel]; [destruct Hin|].
    cbn [flat_map] in Hin. pose proof (HL x (or_introl eq_refl)) as Lx.
    unfold ebytes in Lx. unfold ebytes at 1 in Hin. unfold le16 in Lx, Hin. cbn [app length] in Lx.
    destruct m as [|[|m]]; [destruct Hin|destruct Hin|].
    cbn [app firstn entry_handles] in Hin. destruct Hin as [<-|Hin].
    + exists x. split; [left; reflexivity|]. nlia.
    + (* the rest: after dropping l bytes *)
      destruct l as [|[|l']]; try lia. cbn [skipn] in Hin.
      assert (SK : exists m', skipn l' (firstn m (snd x ++ flat_map ebytes t)) = firstn m' (flat_map ebytes t)).
      { assert (Ls : length (snd x) = l') by lia. rewrite <- Ls. rewrite skipn_firstn_comm.
        rewrite skipn_app, skipn_all, Nat.sub_diag. cbn [app skipn]. eexists. reflexivity. }
      destruct SK as [m' SK]. rewrite SK in Hin. eapply IHt; eauto.
Qed.

(* a handle found in the response names an attribute this connection may read *)
Definition readable_here (c : cfg) (k : conn) (h : N) : Prop := exists a, attr_of c h = Some a /\ may_read c k a = true.

Lemma may_read_enc c k k' a : encrypted k' = encrypted k -> may_read c k' a = may_read c k a.
Proof. intros E. destruct a; cbn [may_read]; rewrite ?E; reflexivity. Qed.

(* ------------------------------------------------------------------ Read By Type *)
Theorem read_by_type_handles c st cid k pdu b out_size st' b' m :
  wf c -> no_includes c -> get_conn st cid = Some k -> 23 <= out_size -> out_size <= len b ->
  handle_read_by_type c st cid pdu b out_size = Some (st', (b', m)) -> m <= len b' ->
  forall l entries, takeN m b' = 9 :: l :: entries ->
  forall h, In h (entry_handles (length entries) (N.to_nat l) entries) -> readable_here c k h.
Proof.
  intros Hw Hn G Ho Hb H Lm l entries HR h Hin. unfold handle_read_by_type in H.
  destruct (check_size_and_handle_range c pdu b out_size 7 21) as [chk|] eqn:EC; [|discriminate].
  destruct (rd pdu 0) as [op|] eqn:Eop.
  2:{ unfold check_size_and_handle_range in EC. rewrite Eop in EC. discriminate. }
  assert (ErrNo9 : forall code hh bb (r : resp), error_response op code hh bb out_size = Some r -> takeN (snd r) (fst r) = 9 :: l :: entries -> False).
  { intros code hh bb [b1 m1] He HT. destruct (error_response_exact _ _ _ _ out_size _ _ ltac:(lia) He) as [_ T]. cbn [fst snd] in HT.
    rewrite T in HT. discriminate HT. }
  destruct chk as [r|[sh eh]].
  - (* the range check failed: an error response *)
    apply some_inj in H. apply pair_inj in H. destruct H as [_ ->].
    exfalso. unfold check_size_and_handle_range in EC. rewrite Eop in EC.
    repeat match type of EC with
           | (if ?x then _ else _) = _ => destruct x
           | match ?x with Some _ => _ | None => None end = _ => destruct x eqn:?; [|discriminate]
           end; try discriminate;
      apply some_inj in EC; apply failed_inj in EC; subst;
      match goal with X : error_response _ _ _ _ _ = Some _ |- _ => eapply (ErrNo9 _ _ _ _ X); exact HR end.
  - destruct (make_uuid_filter pdu (len pdu =? 21)) as [f|]; [|discriminate].
    destruct (all_attributes _ c st cid f (mkCol b 2 0 true) out_size _ _ eh) as [[st1 col]|] eqn:EA; [|discriminate].
    assert (I0 : col_inv (mkCol b 2 0 true) []).
    { unfold col_inv. cbn [co_cur co_buf co_first co_size]. split; [lia|]. split; [apply seg_nil|]. split; [auto|].
      split; [intros X; discriminate X|]. intros x []. }
    destruct (all_attributes_good c cid k f out_size _ eh _ _ _ _ _ _ [] G EA I0 ltac:(cbn; lia) ltac:(cbn [co_buf]; exact Hb) (Forall_nil _))
      as (Cc & Lb & E & IE & GE). cbn [co_cur co_buf] in *.
    destruct (negb (co_cur col =? 2)) eqn:E2.
    2:{ destruct (error_response op err_attribute_not_found sh (co_buf col) out_size) as [r|] eqn:He; [|discriminate].
        apply some_inj in H. apply pair_inj in H. destruct H as [_ H]. exfalso. eapply (ErrNo9 _ _ _ _ He). rewrite H. exact HR. }
    destruct (put (co_buf col) 0 [9; co_size col]) as [b1|] eqn:P; [|discriminate].
    apply some_inj in H. apply pair_inj in H. destruct H as [_ H]. apply pair_inj in H. destruct H as [<- <-].
    destruct IE as (I1 & I2 & I3 & I4 & I5).
    set (mm := 2 + (co_cur col - 2) mod 256) in *.
    assert (Hmm : 2 <= mm /\ mm <= co_cur col) by (unfold mm; split; nlia).
    rewrite (takeN_seg mm b1 Lm) in HR. rewrite (seg_app 0 2 mm) in HR by lia.
    change 2 with (0 + len [9; co_size col]) in HR at 1. rewrite (seg_put_self _ _ _ _ P) in HR.
    rewrite (seg_put_other _ _ _ _ 2 mm P) in HR by (right; cbn; lia).
    cbn [app] in HR. inversion HR as [[Hl He]]. clear HR.
    assert (Pre : seg 2 mm (co_buf col) = firstn (N.to_nat (mm - 2)) (flat_map ebytes E)).
    { rewrite <- I2. rewrite (seg_app 2 mm (co_cur col)) by lia.
      rewrite <- (firstn_all (seg 2 mm (co_buf col))) at 1. pose proof (seg_len 2 mm (co_buf col)) as SL. unfold len in SL.
      replace (N.to_nat (mm - 2)) with (length (seg 2 mm (co_buf col)) + 0)%nat by lia.
      rewrite firstn_app_2. cbn [firstn]. rewrite app_nil_r. apply firstn_all. }
    rewrite Pre in He. subst entries l.
    destruct E as [|e0 E0]; [cbn [flat_map] in Hin; rewrite firstn_nil in Hin; destruct (length _); destruct Hin|].
    destruct (I4 ltac:(destruct (co_first col) eqn:X; [specialize (I3 eq_refl); discriminate|reflexivity])) as [_ Sz].
    destruct (entry_handles_prefix (e0 :: E0) (N.to_nat (co_size col))) with (fuel := length (firstn (N.to_nat (mm - 2)) (flat_map ebytes (e0 :: E0))))
      (m := N.to_nat (mm - 2)) (h := h) as (x & Hx & Hh).
    + intros x Hx. specialize (I5 x Hx). unfold ebytes, le16, len in *. rewrite app_length. cbn [length]. lia.
    + specialize (I5 e0 (or_introl eq_refl)). lia.
    + exact Hin.
    + rewrite Forall_forall in GE. assert (GH : good_handle c k (fst x)) by (apply GE; apply in_map; exact Hx).
      destruct (good_handle_attr c k (fst x) Hw Hn GH) as [Lt R]. rewrite (N.mod_small _ _ Lt) in Hh. subst h. exact R.
Qed.

(* ------------------------------------------------------------------ Read Multiple *)
(* the loop answers with the Read Multiple Response only if every handle could be read; otherwise with the error
   of the first handle that could not *)
Lemma read_multiple_loop_handles c cid k opcode b0 out_size : forall hs st b p st' b' m,
  get_conn st cid = Some k -> 5 <= out_size -> 1 <= p -> nth 0 b 0 = 15 ->
  read_multiple_loop c st cid opcode hs b0 b p out_size = Some (st', (b', m)) ->
  (nth 0 b' 0 = 15 /\ 1 <= m /\ forall h, In h (pair_handles hs) -> readable_here c k h)
  \/ (exists h code, In h (pair_handles hs) /\ m <= len b' /\ takeN m b' = err_rsp opcode h code /\
        (attr_of c h = None
         \/ exists a st0 st1 rc d mm, attr_of c h = Some a /\ get_conn st0 cid = Some k /\
              access_read c st0 cid a (index_by_handle c h) 0 mm = Some (st1, rc, d) /\ rc <> Success /\ code = att_code rc err_read_not_permitted)).
Proof.
  fix IH 1. intros hs st b p st' b' m G Ho Hp Hb H. destruct hs as [|lo [|hi t]]; cbn [read_multiple_loop pair_handles] in *.
  - inversion H; subst. left. repeat split; auto. intros h [].
  - inversion H; subst. left. repeat split; auto. intros h [].
  - cbv zeta in H.
    destruct (lo + 256 * hi =? 0) eqn:E0.
    { apply N.eqb_eq in E0. destruct (error_response opcode err_invalid_handle (lo + 256 * hi) b out_size) as [[bb mm]|] eqn:E; [|discriminate].
      apply some_inj in H. apply pair_inj in H. destruct H as [_ H]. apply pair_inj in H. destruct H as [<- <-].
      right. exists (lo + 256 * hi), err_invalid_handle.
      destruct (error_response_exact _ _ _ _ out_size _ _ Ho E) as [L T]. split; [left; reflexivity|]. repeat split; auto. left. rewrite E0. reflexivity. }
    destruct (index_by_handle c (lo + 256 * hi) =? invalid_index) eqn:EI.
    { apply N.eqb_eq in EI. destruct (error_response opcode err_invalid_handle (lo + 256 * hi) b out_size) as [[bb mm]|] eqn:E; [|discriminate].
      apply some_inj in H. apply pair_inj in H. destruct H as [_ H]. apply pair_inj in H. destruct H as [<- <-].
      right. exists (lo + 256 * hi), err_invalid_handle.
      destruct (error_response_exact _ _ _ _ out_size _ _ Ho E) as [L T]. split; [left; reflexivity|]. repeat split; auto. left. apply attr_of_invalid. exact EI. }
    apply N.eqb_neq in E0, EI.
    destruct (attribute_at c (index_by_handle c (lo + 256 * hi))) as [a|] eqn:HA; [|discriminate].
    assert (AO : attr_of c (lo + 256 * hi) = Some a) by (rewrite (attr_of_index c _ E0 EI); exact HA).
    destruct (access_read c st cid a (index_by_handle c (lo + 256 * hi)) 0 (out_size - p)) as [[[st1 rc] d]|] eqn:ER; [|discriminate].
    destruct rc.
    + destruct (put b p d) as [b1|] eqn:P; [|discriminate]. destruct (out_size <? p + len d); [discriminate|].
      assert (G1 : get_conn st1 cid = Some k).
      { pose proof (access_read_same _ _ _ _ _ _ _ _ _ _ ER) as (_ & _ & _ & CE & _). unfold get_conn in *. rewrite CE. exact G. }
      assert (Hb1 : nth 0 b1 0 = 15) by (rewrite (AttSrvProofsC01.put_nth_low _ _ _ _ 0%nat P) by lia; exact Hb).
      destruct (IH t st1 b1 (p + len d) st' b' m G1 Ho ltac:(lia) Hb1 H) as [(A & B & C)|(h0 & c0 & I0 & X)]; [left|right; exists h0, c0; split; [right; exact I0|exact X]].
      repeat split; auto. intros h' [<-|Hin]; [|apply C; exact Hin].
      exists a. split; [exact AO|]. exact (access_read_success _ _ _ _ _ _ _ _ _ _ G ER).
    + destruct (error_response opcode _ (lo + 256 * hi) b out_size) as [[bb mm]|] eqn:E; [|discriminate].
      apply some_inj in H. apply pair_inj in H. destruct H as [<- H]. apply pair_inj in H. destruct H as [<- <-].
      right. exists (lo + 256 * hi), code. destruct (error_response_exact _ _ _ _ out_size _ _ Ho E) as [L T]. split; [left; reflexivity|]. repeat split; auto.
      right. exists a, st, st1, (Err code), d, (out_size - p). repeat split; auto. discriminate.
    + destruct (error_response opcode _ (lo + 256 * hi) b out_size) as [[bb mm]|] eqn:E; [|discriminate].
      apply some_inj in H. apply pair_inj in H. destruct H as [<- H]. apply pair_inj in H. destruct H as [<- <-].
      right. exists (lo + 256 * hi), err_read_not_permitted. destruct (error_response_exact _ _ _ _ out_size _ _ Ho E) as [L T]. split; [left; reflexivity|]. repeat split; auto.
      right. exists a, st, st1, ValueEqual, d, (out_size - p). repeat split; auto. discriminate.
Qed.

Theorem read_multiple_handles c st cid k hs b out_size st' b' m :
  get_conn st cid = Some k -> 23 <= out_size ->
  handle_read_multiple c st cid (14 :: hs) b out_size = Some (st', (b', m)) -> m <= len b' ->
  (forall t, takeN m b' = 15 :: t -> forall h, In h (pair_handles hs) -> readable_here c k h)
  /\ (forall lo hi e, takeN m b' = [1; 14; lo; hi; e] ->
        (exists h code, In h (pair_handles hs) /\ [lo; hi; e] = [h mod 256; (h / 256) mod 256; code] /\
          (attr_of c h = None
           \/ exists a st0 st1 rc d mm, attr_of c h = Some a /\ get_conn st0 cid = Some k /\
                access_read c st0 cid a (index_by_handle c h) 0 mm = Some (st1, rc, d) /\ rc <> Success /\ code = att_code rc err_read_not_permitted))
        \/ (lo = 0 /\ hi = 0 /\ e = err_invalid_pdu)).
Proof.
  intros G Ho H Lm. unfold handle_read_multiple in H. rewrite rd_0 in H.
  destruct ((len (14 :: hs) <? 5) || (len (14 :: hs) mod 2 =? 0)).
  - mon. destruct (error_response_exact _ _ _ _ out_size _ _ ltac:(lia) E) as [L T]. split.
    + intros t HT. rewrite T in HT. discriminate HT.
    + intros lo hi e HT. rewrite T in HT. inversion HT; subst. right. repeat split; reflexivity.
  - destruct (put b 0 [15]) as [b1|] eqn:P; [|discriminate].
    assert (SL : slice (14 :: hs) 1 (len (14 :: hs)) = Some hs) by (apply (slice_all_from (14 :: hs) 1); cbn [length]; lia).
    rewrite SL in H. assert (Hb1 : nth 0 b1 0 = 15) by (apply (AttSrvProofsC01.put_zero _ _ _ _ P)).
    destruct (read_multiple_loop_handles c cid k 14 b out_size hs st b1 1 st' b' m G ltac:(lia) ltac:(lia) Hb1 H)
      as [(A & B & C)|(h & code & Ih & L & T & X)]; split.
    + intros t HT h Hin. apply C. exact Hin.
    + intros lo hi e HT. exfalso. destruct (takeN_hd m b' B ltac:(lia)) as [t' Ht']. rewrite Ht', A in HT. discriminate HT.
    + intros t HT. rewrite T in HT. discriminate HT.
    + intros lo hi e HT. rewrite T in HT. unfold err_rsp in HT. left. exists h, code. split; [exact Ih|]. split; [inversion HT; reflexivity|exact X].
Qed.

(* ------------------------------------------------------------------ l2cap_output *)
Theorem att_output_handle c st cid k n st' r :
  wf c -> no_includes c -> get_conn st cid = Some k -> att_output c st cid n = Some (st', r) ->
  forall op lo hi t, r = op :: lo :: hi :: t -> readable_here c k (lo + 256 * hi).
Proof.
  intros Hw Hn G H op lo hi t HR. unfold att_output in H. rewrite G in H. cbv zeta in H.
  pose proof (nq_step_aconn k Dequeue) as NA. destruct (nq_step k Dequeue) as [k1 r1]. cbn [fst] in NA.
  assert (EK : encrypted k1 = encrypted k) by (unfold aconn_of_conn in NA; inversion NA; reflexivity).
  pose proof (get_conn_set_conn st cid k k1 G) as G1.
  destruct r1; try (mon; discriminate HR).
  match type of H with match ?e with Some _ => _ | None => _ end = _ => destruct e as [[kd i]|] end; [|mon; discriminate HR].
  destruct (find_notification_data_by_index c (N.of_nat i)) as [ai ci].
  match type of H with (if ?x then _ else _) = _ => destruct x end; [|mon; discriminate HR].
  destruct (attribute_at c ai) as [a|] eqn:HA; [|discriminate].
  match type of H with context [access_read ?c' ?s ?i' ?a' ?x ?o ?l] =>
    destruct (access_read c' s i' a' x o l) as [[[st2 rc] d]|] eqn:ER; [|discriminate] end.
  destruct rc; try (mon; discriminate HR).
  destruct (put _ 3 d) as [b1|] eqn:P1; [|discriminate].
  destruct (put b1 0 _) as [b2|] eqn:P2; [|discriminate].
  apply some_inj in H. apply pair_inj in H. destruct H as [_ H].
  assert (M : may_read c k a = true).
  { rewrite <- (may_read_enc c k k1 a EK). eapply access_read_success; [|exact ER]. exact G1. }
  assert (GH : good_handle c k (handle_by_index c ai)) by (exists ai, a; repeat split; auto).
  destruct (good_handle_attr c k _ Hw Hn GH) as [Lt R].
  (* the first three bytes of the output *)
  pose proof (put_spec _ _ _ _ P2) as [E2 B2]. change (N.to_nat 0) with 0%nat in *. cbn [firstn app Nat.add length] in E2, B2.
  rewrite E2 in H. unfold takeN in H. replace (N.to_nat (3 + len d)) with (S (S (S (length d)))) in H by (unfold len; lia). unfold le16 in H. cbn [app firstn] in H. rewrite HR in H.
  inversion H; subst. replace (handle_by_index c ai mod 256 + 256 * ((handle_by_index c ai / 256) mod 256)) with (handle_by_index c ai) by nlia.
  exact R.
Qed.
