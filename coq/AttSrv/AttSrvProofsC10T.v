(* Trace level sub-theorem of C10: the clause not_subscribed never fires on a trace of the model (for well formed,
   attributable configurations without include_service<>, write queue and encryption requirements, 16 bit handles). *)
From Coq Require Import Lia ZifyBool Permutation.
From BT Require Import Base.ListX Base.Bits2 AttDb.AttDbModel AttDb.AttDbProofs AttDb.AttDbNotifProofs AttDb.AttDbNotifIndex AttDb.AttDbCccdIndex
  NQueue.NQueueModel NQueue.NQueueSpec NQueue.NQueueProofs NQueue.NQueueDrain
  AttSrv.AttSrvModel AttSrv.AttSrvSpecC01 AttSrv.AttSrvProofsC01 AttSrv.AttSrvFrame AttSrv.AttSrvCbModel AttSrv.AttSrvNotifSpec AttSrv.AttSrvNotifObs
  AttSrv.AttSrvNotifObs09 AttSrv.AttSrvSpecC10 AttSrv.AttSrvProofsC08 AttSrv.AttSrvProofsC09 AttSrv.AttSrvProofsC09T AttSrv.AttSrvProofsC09T2
  AttSrv.AttSrvProofsC10 AttSrv.AttSrvProofsC11Live AttSrv.AttSrvNoFault.
Local Open Scope N_scope.

(* ------------------------------------------------------------------ the size of the queue never changes *)
Lemma chain_add_sizes k : forall ls i, map lsize (snd (chain_add ls i k)) = map lsize ls.
Proof.
  induction ls as [|l t IH]; intros i; cbn [chain_add]; [reflexivity|].
  destruct (Nat.ltb i (lsize l)).
  - destruct l as [s n q|st]; cbn [level_add]; [destruct (add q i (kbit k))|]; reflexivity.
  - specialize (IH (i - lsize l)%nat). destruct (chain_add t (i - lsize l) k). cbn [snd map] in *. rewrite IH. reflexivity.
Qed.

Lemma level_deq_size l no : lsize (snd (level_deq l no)) = lsize l.
Proof.
  destruct l as [s n q|st]; cbn [level_deq].
  - destruct (scan s s q n no) as [[k i]|]; reflexivity.
  - destruct (_ && no); [reflexivity|]. destruct (negb _); reflexivity.
Qed.

Lemma chain_deq_sizes no : forall ls off, map lsize (snd (chain_deq ls off no)) = map lsize ls.
Proof.
  induction ls as [|l t IH]; intros off; cbn [chain_deq]; [reflexivity|].
  pose proof (level_deq_size l no) as E. destruct (level_deq l no) as [[[k i]|] l']; cbn [snd] in E.
  - cbn [snd map]. rewrite E. reflexivity.
  - specialize (IH (off + lsize l)%nat). destruct (chain_deq t (off + lsize l) no). cbn [snd map] in *. rewrite E, IH. reflexivity.
Qed.

Lemma step_qsize s o : qsize (fst (NQueueModel.step s o)) = qsize s.
Proof.
  unfold qsize. destruct o as [i|i| | |]; cbn [NQueueModel.step].
  - pose proof (chain_add_sizes KNotif (levels s) i) as E. destruct (chain_add (levels s) i KNotif). cbn [fst levels snd] in *. rewrite E. reflexivity.
  - pose proof (chain_add_sizes KInd (levels s) i) as E. destruct (chain_add (levels s) i KInd). cbn [fst levels snd] in *. rewrite E. reflexivity.
  - pose proof (chain_deq_sizes (is_none (outstanding s)) (levels s) 0) as E. destruct (chain_deq (levels s) 0 _). cbn [fst levels snd] in *. rewrite E. reflexivity.
  - reflexivity.
  - cbn [fst levels]. rewrite map_map. f_equal. apply map_ext. intros l. destruct l; reflexivity.
Qed.

Lemma init_qsize sizes : qsize (NQueueModel.init sizes) = list_sum sizes.
Proof.
  unfold qsize, NQueueModel.init. cbn [levels]. rewrite map_map. f_equal. rewrite <- (map_id sizes) at 2. apply map_ext.
  intros s. unfold init_level. destruct (Nat.eqb s 1) eqn:E; [apply Nat.eqb_eq in E; subst; reflexivity|reflexivity].
Qed.

Definition queue_total (c : cfg) : nat := list_sum (map N.to_nat (priority_numbers c)).

(* every reachable queue has the C12 abstraction and the size it was created with *)
Theorem queue_reachable c ops j k :
  wf c -> get_conn (srv_after c (srv_init c) ops) j = Some k ->
  (exists m, st_rel (nq k) m) /\ qsize (nq k) = queue_total c.
Proof.
  intros W. revert j k.
  apply (inv_reachable c (fun k => (exists m, st_rel (nq k) m) /\ qsize (nq k) = queue_total c)).
  - split; [eexists; unfold init_conn; cbn [nq]; apply init_rel; apply wf_sizes_of_wf; exact W|].
    unfold init_conn. cbn [nq]. apply init_qsize.
  - intros k m H _. exact H.
  - intros k pos v H. exact H.
  - intros k o [(m & R) Q]. unfold nq_step.
    destruct (step_rel _ _ o R) as (m' & _ & R'). pose proof (step_qsize (nq k) o) as Sq.
    destruct (NQueueModel.step (nq k) o) as [q r]. cbn [fst nq] in *. split; [eauto|congruence].
  - intros k e p H. exact H.
Qed.

(* a dequeued request has an index inside the queue *)
Lemma dequeued_index_in_range s m kd i q1 :
  st_rel s m -> NQueueModel.step s Dequeue = (q1, OEntry (Some (kd, i))) -> (i < qsize s)%nat.
Proof.
  intros R D. destruct (dequeue_abs s m R) as (m' & _ & Dq). rewrite D in Dq. cbn [snd] in Dq. destruct Dq as (El & _).
  apply eligible_has' in El. rewrite <- (mtotal_qsize _ _ R).
  destruct (Nat.lt_ge_cases i (mtotal (mlevels m))); auto. rewrite mget_beyond in El by auto. rewrite has_0 in El. discriminate.
Qed.

(* ------------------------------------------------------------------ the observer's table has one entry per value attribute *)
Section Table.
  Variable c : cfg.
  Hypothesis W : wf c.
  Hypothesis NI : no_includes c.
  Let tab := char_table c.
  Let F := fun x : N * attr => match snd x with
                               | AValue s ch g cci => [cent_of c (attr_table c) (fst x) s ch g cci]
                               | _ => []
                               end.

  Lemma hbi_inj i j : i < number_of_attributes c -> j < number_of_attributes c -> handle_by_index c i = handle_by_index c j -> i = j.
  Proof.
    intros Hi Hj E. destruct (index_by_handle_inverse c i W NI Hi) as (A & _). destruct (index_by_handle_inverse c j W NI Hj) as (B & _).
    rewrite E in A. congruence.
  Qed.

  Lemma vh_in_range : forall n i1 h,
    In h (map ce_vh (flat_map F (attrs_from c n i1))) -> exists j, i1 <= j /\ j < i1 + N.of_nat n /\ h = handle_by_index c j.
  Proof.
    intros n i1 h H. apply in_map_iff in H. destruct H as (e & <- & H). apply in_flat_map in H. destruct H as ([j a] & I & He).
    apply attrs_from_in in I. destruct I as (A & B & _). unfold F in He. cbn [snd fst] in He.
    destruct a; try (destruct He; fail). destruct He as [<-|[]]. exists j. repeat split; auto.
  Qed.

  Lemma vh_nodup : forall n i1, i1 + N.of_nat n <= number_of_attributes c -> NoDup (map ce_vh (flat_map F (attrs_from c n i1))).
  Proof.
    induction n as [|n IH]; intros i1 B; cbn [attrs_from]; [constructor|].
    assert (B' : i1 + 1 + N.of_nat n <= number_of_attributes c) by lia.
    destruct (attribute_at c i1) as [a|]; [|apply IH; exact B'].
    cbn [flat_map]. rewrite map_app. unfold F at 1. cbn [snd fst].
    destruct a; try (cbn [map app]; apply IH; exact B').
    cbn [map app cent_of ce_vh]. constructor; [|apply IH; exact B'].
    intros H. apply vh_in_range in H. destruct H as (j & A1 & A2 & E). apply hbi_inj in E; lia.
  Qed.

  Lemma char_table_vh_nodup : NoDup (map ce_vh tab).
  Proof. unfold tab, char_table, attr_table. apply vh_nodup. lia. Qed.

  Lemma nodup_map_pos (A B : Type) (f : A -> B) (l : list A) d p q :
    NoDup (map f l) -> (p < length l)%nat -> (q < length l)%nat -> f (nth p l d) = f (nth q l d) -> p = q.
  Proof.
    intros ND Hp Hq E. rewrite NoDup_nth with (d := f d) in ND. apply ND; try (rewrite map_length; assumption).
    rewrite !map_nth. exact E.
  Qed.

  (* the entry the observer finds under the handle of a value attribute is the entry of that attribute *)
  Lemma by_value_handle_entry ai s ch g cci g' :
    attribute_at c ai = Some (AValue s ch g cci) ->
    by_value_handle tab (handle_by_index c ai) = Some g' ->
    (g' < length tab)%nat /\ nth g' tab cent_dflt = cent_of c (attr_table c) ai s ch g cci.
  Proof.
    intros A B. unfold by_value_handle in B. destruct (_ =? 0); [discriminate|].
    destruct (find_idx_some _ _ cent_dflt _ _ B) as (Lg & Pg). apply N.eqb_eq in Pg. split; [exact Lg|].
    assert (Ie : In (cent_of c (attr_table c) ai s ch g cci) tab).
    { apply char_table_in. exists ai, s, ch, g, cci. split; [|reflexivity]. apply attr_table_in. split; [eapply attribute_at_lt; eauto|exact A]. }
    apply (In_nth _ _ cent_dflt) in Ie. destruct Ie as (p & Lp & Ep).
    assert (p = g') by (apply (nodup_map_pos _ _ ce_vh tab cent_dflt p g' char_table_vh_nodup Lp Lg); rewrite Ep, Pg; reflexivity).
    subst p. exact Ep.
  Qed.

  (* ... and the observer finds the same entry under the handle of the CCCD of that characteristic *)
  Lemma by_cccd_handle_same ai s ch g cci g' :
    attribute_at c ai = Some (AValue s ch g cci) -> has_cccd ch = true ->
    by_value_handle tab (handle_by_index c ai) = Some g' ->
    by_cccd_handle tab (handle_by_index c (ai + 1)) = Some g'
    /\ attribute_at c (index_by_handle c (handle_by_index c (ai + 1))) = Some (ACccd s ch cci).
  Proof.
    intros A Hc B. pose proof (value_followed_by_cccd c ai s ch g cci A Hc) as AC.
    pose proof (attribute_at_lt _ _ _ AC) as L1. pose proof (attribute_at_lt _ _ _ A) as L0.
    destruct (index_by_handle_inverse c (ai + 1) W NI L1) as (I1 & I2). rewrite I1. split; [|exact AC].
    destruct (by_value_handle_entry ai s ch g cci g' A B) as (Lg & Eg).
    assert (Ch : ce_ch (nth g' tab cent_dflt) = handle_by_index c (ai + 1)).
    { rewrite Eg. cbn [cent_of ce_ch]. rewrite Hc. apply (cccd_handle_of_index c (ai + 1) s ch cci AC L1). }
    unfold by_cccd_handle. replace (handle_by_index c (ai + 1) =? 0) with false by (symmetry; apply N.eqb_neq; exact I2).
    destruct (find_idx_ex _ (fun e => ce_ch e =? handle_by_index c (ai + 1)) tab (nth g' tab cent_dflt)) as (g2 & F2);
      [apply nth_In; exact Lg|rewrite Ch; apply N.eqb_refl|].
    rewrite F2. f_equal.
    destruct (find_idx_some _ _ cent_dflt _ _ F2) as (L2 & P2). apply N.eqb_eq in P2.
    (* the entry g2 comes from a value attribute i2 with CCCD; its CCCD attribute is the one at ai + 1 *)
    assert (I2' : In (nth g2 tab cent_dflt) tab) by (apply nth_In; exact L2).
    destruct (proj1 (char_table_in c _) I2') as (i2 & s2 & ch2 & gg2 & cci2 & Ia2 & E2).
    apply attr_table_in in Ia2. destruct Ia2 as (Li2 & A2).
    assert (P2' : ce_ch (cent_of c (attr_table c) i2 s2 ch2 gg2 cci2) = handle_by_index c (ai + 1)) by (rewrite <- E2; exact P2).
    cbn [cent_of ce_ch] in P2'. destruct (has_cccd ch2) eqn:Hc2; [|exfalso; apply I2; unfold invalid_handle; symmetry; exact P2'].
    pose proof (value_followed_by_cccd c i2 s2 ch2 gg2 cci2 A2 Hc2) as AC2. pose proof (attribute_at_lt _ _ _ AC2) as L12.
    rewrite (cccd_handle_of_index c (i2 + 1) s2 ch2 cci2 AC2 L12) in P2'.
    assert (i2 + 1 = ai + 1) by (apply hbi_inj; auto). assert (i2 = ai) by lia. subst i2.
    apply (nodup_map_pos _ _ ce_vh tab cent_dflt g2 g' char_table_vh_nodup L2 Lg). rewrite E2, Eg. reflexivity.
  Qed.
End Table.

(* ------------------------------------------------------------------ the clause not_subscribed *)
(* whenever check10 reports not_subscribed, so does the clause alone *)
Lemma check10_ns_complete c m o r : check10 c m o r = Some t10_not_subscribed -> check10_ns c m o r = Some t10_not_subscribed.
Proof.
  destruct o as [cid pdu n|cid n|cid e p|cid|bu kd g|g|g data]; destruct r as [l| |l| | |l lg]; cbn [check10 check10_ns fault_relevant];
    try discriminate; try (destruct (_ || _ || _ || _); discriminate); try (destruct (Nat.eqb _ _); discriminate).
  - destruct pdu as [|a t]; [discriminate|]. destruct (_ || _ || _ || _); discriminate.
  - destruct l as [|opc [|lo [|hi v]]]; try discriminate.
    destruct ((opc =? 27) || (opc =? 29)); [|discriminate].
    destruct (by_value_handle (ob_tab m) (lo + 256 * hi)) as [g|]; [|discriminate].
    destruct (pick _ _ =? 0); [discriminate|]. destruct (pick _ _ =? 2); [discriminate|].
    destruct (nth g (o_cccd (oc_at m cid)) None) as [bits|].
    + destruct (N.land bits _ =? 0); [auto|]. destruct (nth g (ob_vals m) None); [destruct (value_ok10 _ _ _)|]; discriminate.
    + destruct (nth g (ob_vals m) None); [destruct (value_ok10 _ _ _)|]; discriminate.
Qed.

Definition env10 (c : cfg) : bool :=
  env09 c && attributable c
  && forallb (fun x => handle_by_index c (fst x) <? 65536) (attr_table c)
  && Nat.eqb (queue_total c) (n_cccd c).

Lemma le16_decode h : h < 65536 -> h mod 256 + 256 * ((h / 256) mod 256) = h.
Proof.
  intros H. rewrite (N.mod_small (h / 256) 256) by (apply N.div_lt_upper_bound; lia).
  rewrite N.add_comm. symmetry. apply N.div_mod. discriminate.
Qed.

Lemma att_output_entry c st cid n st' rs k :
  get_conn st cid = Some k -> att_output c st cid n = Some (st', rs) -> rs <> [] ->
  exists kd i q1, NQueueModel.step (nq k) Dequeue = (q1, OEntry (Some (kd, i))).
Proof.
  intros G A Hr. unfold att_output in A. rewrite G in A. unfold nq_step at 1 in A.
  destruct (NQueueModel.step (nq k) Dequeue) as [q1 r]. destruct r as [x|[[kd i]|]|]; try (inv A; contradiction). eauto.
Qed.

Lemma check10_ns_out c st n0 m cid n st' rs k :
  wf c -> no_includes c -> env10 c = true ->
  sim09 c (st, n0) m -> get_conn st cid = Some k ->
  (exists mq, st_rel (nq k) mq) -> qsize (nq k) = queue_total c ->
  att_output c st cid n = Some (st', rs) ->
  check10_ns c m (OpOut cid n) (OBytes rs) = None.
Proof.
  intros W NI EV (T & L & CB & S) G (mq & R) Q A. cbn [fst snd] in *.
  unfold env10 in EV. apply andb_true_iff in EV. destruct EV as [EV Eq]. apply andb_true_iff in EV. destruct EV as [EV Eh].
  apply andb_true_iff in EV. destruct EV as [E9 Ea]. apply Nat.eqb_eq in Eq.
  destruct rs as [|opc [|lo [|hi v]]]; try reflexivity.
  destruct (att_output_entry c st cid n st' _ k G A ltac:(discriminate)) as (kd & i & q1 & D).
  destruct (att_output_pdu c st cid n st' _ k q1 kd i G D A ltac:(discriminate)) as (B & a & s1 & d & At & _ & Er).
  set (ai := fst (find_notification_data_by_index c (N.of_nat i))) in *.
  pose proof (dequeued_index_in_range _ _ _ _ _ R D) as Hi. rewrite Q, Eq in Hi.
  destruct (nth_error (sorted_infos c) i) as [x|] eqn:Nx; [|apply nth_error_None in Nx; rewrite sorted_infos_length in Nx; lia].
  destruct (right_characteristic_nonempty c i x Ea Nx) as (Fd & Av & Cp).
  assert (Eai : ai = ci_first x + 1) by (unfold ai; rewrite Fd; reflexivity).
  assert (Hc : has_cccd (ci_char x) = true).
  { destruct (sorted_in_all c x (nth_error_In _ _ Nx)) as (x1 & p & _ & H1 & ->). exact H1. }
  rewrite <- Eai in Av.
  assert (H16 : handle_by_index c ai < 65536).
  { rewrite forallb_forall in Eh. apply N.ltb_lt. apply (Eh (ai, AValue (ci_svc x) (ci_char x) (ci_gci x) (ci_pos x))).
    apply attr_table_in. split; [eapply attribute_at_lt; eauto|exact Av]. }
  injection Er as Eo El Eh2 Ev. unfold le16 in *.
  assert (Hh : lo + 256 * hi = handle_by_index c ai) by (subst lo hi; apply le16_decode; exact H16).
  cbn [check10_ns]. rewrite Hh, T.
  assert (Ok : ((opc =? 27) || (opc =? 29)) = true /\ (if opc =? 27 then KNotif else KInd) = kd) by (subst opc; destruct kd; split; reflexivity).
  destruct Ok as (-> & ->).
  destruct (by_value_handle (char_table c) (handle_by_index c ai)) as [g'|] eqn:Bv; [|reflexivity].
  destruct (nth g' (o_cccd (oc_at m cid)) None) as [bits|] eqn:Tr; [|reflexivity].
  destruct (by_cccd_handle_same c W NI ai _ _ _ _ g' Av Hc Bv) as (Bc & Ac).
  destruct (S _ _ G) as (_ & _ & S3).
  pose proof (S3 g' bits _ _ _ _ Tr Bc Ac) as Eb. rewrite Cp in Eb. rewrite <- Eb.
  apply negb_true_iff in B. rewrite B. reflexivity.
Qed.

(* ------------------------------------------------------------------ the trace level theorem for the clause *)
Definition op10_bytes (o : srv_op) : bool :=
  match o with OpIn _ pdu _ => forallb (fun b => b <? 256) pdu | _ => true end.

Lemma env10_env09 c : env10 c = true -> env09 c = true.
Proof. unfold env10. intros H. apply andb_true_iff in H. destruct H as [H _]. apply andb_true_iff in H. destruct H as [H _]. apply andb_true_iff in H. destruct H as [H _]. exact H. Qed.

Theorem monitor10_ns_from c : wf c -> no_includes c -> env10 c = true -> forall ops pre n0 m pos,
  sim09 c (srv_after c (srv_init c) pre, n0) m -> forallb op10_bytes ops = true ->
  no_fault (srv_run c (srv_after c (srv_init c) pre) ops) ->
  monitor_from_of check10_ns c m pos (srv_run c (srv_after c (srv_init c) pre) ops) = None.
Proof.
  intros W NI EV. pose proof (env10_env09 c EV) as E9.
  induction ops as [|o t IH]; intros pre n0 m pos SM OK NF; cbn [srv_run monitor_from_of]; [reflexivity|].
  cbn [forallb] in OK. apply andb_true_iff in OK. destruct OK as [Ok1 Ok2].
  set (st := srv_after c (srv_init c) pre) in *.
  assert (Est : fst (srv_step c st o) = srv_after c (srv_init c) (pre ++ [o])).
  { rewrite srv_after_app. cbn [srv_after]. reflexivity. }
  destruct (srv_step c st o) as [st' x] eqn:E. cbn [fst snd] in *.
  cbn [srv_run] in NF. rewrite E in NF. inversion NF as [|? ? NF1 NF2]. cbn [snd] in NF1.
  assert (NFx : snd (srv_step c st o) <> OFault) by (rewrite E; exact NF1).
  (* the clause, and the next simulation state *)
  assert (Step : check10_ns c m o x = None /\ exists n1, sim09 c (st', n1) (advance c m o x)).
  { destruct o as [cid pdu n|cid n|cid e p|cid|bu kd g|g|g data].
    - split; [destruct x; reflexivity|].
      cbn [srv_step] in E. destruct (att_input c st cid pdu n) as [[s1 rs]|] eqn:A; [|inv E; contradiction]. inv E.
      assert (BO : bytes_ok_l pdu).
      { cbn [op10_bytes] in Ok1. rewrite forallb_forall in Ok1. apply Forall_forall. intros b Hb. apply N.ltb_lt. apply Ok1. exact Hb. }
      eexists. exact (sim09_in c st n0 m cid pdu n _ rs W NI E9 BO SM A).
    - destruct (sim09_other c st n0 m (OpOut cid n) I NFx SM) as (S1 & _). rewrite E in S1. cbn [fst snd] in S1. split; [|eauto].
      cbn [srv_step] in E. destruct (att_output c st cid n) as [[s1 rs]|] eqn:A; [|inv E; contradiction]. inv E.
      assert (exists k, get_conn st cid = Some k) as (k & G) by (unfold att_output in A; destruct (get_conn st cid); [eauto|discriminate]).
      destruct (queue_reachable c pre cid k W G) as (Rq & Qs).
      exact (check10_ns_out c st n0 m cid n _ rs k W NI EV SM G Rq Qs A).
    - destruct (sim09_other c st n0 m (OpSec cid e p) I NFx SM) as (S1 & _). rewrite E in S1. cbn [fst snd] in S1. split; [destruct x; reflexivity|eauto].
    - destruct (sim09_other c st n0 m (OpDisc cid) I NFx SM) as (S1 & _). rewrite E in S1. cbn [fst snd] in S1. split; [destruct x; reflexivity|eauto].
    - destruct (sim09_other c st n0 m (OpNotify bu kd g) I NFx SM) as (S1 & _). rewrite E in S1. cbn [fst snd] in S1. split; [destruct x; reflexivity|eauto].
    - destruct (sim09_other c st n0 m (OpVal g) I NFx SM) as (S1 & _). rewrite E in S1. cbn [fst snd] in S1. split; [destruct x; reflexivity|eauto].
    - destruct (sim09_other c st n0 m (OpSetVal g data) I NFx SM) as (S1 & _). rewrite E in S1. cbn [fst snd] in S1. split; [destruct x; reflexivity|eauto]. }
  destruct Step as (Ck & n1 & S1). cbn [monitor_from_of]. unfold mstep_of. rewrite Ck. rewrite Est in *. apply (IH (pre ++ [o]) n1); [exact S1|exact Ok2|exact NF2].
Qed.

Theorem monitor10_ns_accepts_model c ops :
  wf c -> no_includes c -> env10 c = true -> forallb op10_bytes ops = true ->
  no_fault (srv_run c (srv_init c) ops) -> monitor10_ns c (srv_run c (srv_init c) ops) = None.
Proof.
  intros W NI EV OK NF. exact (monitor10_ns_from c W NI EV ops [] 0 (obs_init c) O (sim09_init c) OK NF).
Qed.
