(* Proofs for property C07: prepared writes are deferred, per-client and applied in order.
   The refinement of the reference semantics (abstract queue, AttSrvSpecVal.v) is AttSrvProofsVal.v: sim_step.
   Here: the C07 judgement accepts every output that meets the expectation; direct statements about the model. *)
From Coq Require Import Lia ZifyBool.
From BT Require Import Base.ListX AttDb.AttDbModel NQueue.NQueueModel AttSrv.AttSrvModel AttSrv.AttSrvSpecC01
  AttSrv.AttSrvProofsC01 AttSrv.AttSrvSpecVal AttSrv.AttSrvProofsVal AttSrv.AttSrvSpecC07.
Local Open Scope N_scope.

Lemma forallb_true (A : Type) (l : list A) : forallb (fun _ => true) l = true.
Proof. induction l; cbn; auto. Qed.

Lemma judge_ok c a o x r : no_k2 c -> (sat_cond c x -> sat c x r) -> judge c a o x r = Ok.
Proof.
  intros NK H. unfold judge. destruct o as [cid pdu n|cid n|cid e p|cid|by_uuid kd g|g|g data]; try (destruct r; reflexivity).
  - destruct r as [resp| | | | |]; try reflexivity. destruct x as [|kind exp g rsp|p|g v wl]; try reflexivity.
    destruct (Nat.eqb kind k_read) eqn:EK.
    + apply Nat.eqb_eq in EK. subst kind. destruct (list_eqb resp rsp); reflexivity.
    + assert (S : sat c (XResp kind exp g rsp) (OBytes resp)) by (apply H; cbn [sat_cond]; intros X; congruence).
      cbn [sat] in S. inversion S; subst. rewrite list_eqb_refl. reflexivity.
  - destruct r as [| | | | |v wl]; try reflexivity. destruct x as [|kind exp g0 rsp|p|g0 v' wl']; try reflexivity.
    destruct (H I) as (lg & E & W). inversion E; subst. rewrite list_eqb_refl. cbn [negb].
    specialize (W NK). destruct lg as [[[r0 w] e]|]; [|reflexivity]. destruct wl' as [[w' e']|]; [|reflexivity].
    destruct W as [-> ->]. rewrite !N.eqb_refl. reflexivity.
Qed.

(* the monitor accepts every trace of the model, for every configuration without write handlers
   (a write handler is called by the permission probe of Prepare Write: known finding) *)
Theorem monitor_sound c ops : no_k2 c -> monitor c (srv_run c (srv_init c) ops) = None.
Proof.
  intros NK. unfold monitor, monitor_from, minit.
  apply (monitor_sound_with judge (fun _ => true)).
  - intros a o x r _ H. apply judge_ok; assumption.
  - apply sim_init.
  - apply forallb_true.
Qed.

(* ------------------------------------------------------------------ direct statements about the model *)
(* what a write access never touches: the write queue *)
Lemma access_write_queue c st cid a off data st' rc :
  access_write c st cid a off data = Some (st', rc) -> wq_owner st' = wq_owner st /\ wq_elems st' = wq_elems st.
Proof.
  unfold access_write. destruct (get_conn st cid) as [k|]; [|discriminate].
  destruct a as [s|u|s ch|s ch g cci|s ch cci|nm|u v]; try (intros H; inv H; split; reflexivity).
  - unfold value_write. destruct (security_check _ _ _); try (intros H; inv H; split; reflexivity).
    destruct (c_value ch) as [size kc|size v|bytes|size hrd hwr blob]; try (intros H; inv H; split; reflexivity).
    + destruct (kc || c_no_write ch); [intros H; inv H; split; reflexivity|]. destruct (mem_write _ _ _). intros H; inv H. split; reflexivity.
    + destruct (negb hwr); [intros H; inv H; split; reflexivity|]. destruct (negb blob && _); [intros H; inv H; split; reflexivity|].
      destruct (mem_write _ _ _). intros H; inv H. split; reflexivity.
  - destruct (security_check _ _ _); try (intros H; inv H; split; reflexivity).
    unfold cccd_write. destruct (2 <? off); [intros H; inv H; split; reflexivity|]. destruct (2 <? _); [intros H; inv H; split; reflexivity|].
    destruct (off =? 0); intros H; inv H; split; reflexivity.
Qed.

(* (a) a write of nothing at offset 0 (the probe of Prepare Write) leaves every value as it is *)
Lemma probe_vals c st cid a st' rc : access_write c st cid a 0 [] = Some (st', rc) -> vals st' = vals st.
Proof.
  unfold access_write. destruct (get_conn st cid) as [k|]; [|discriminate].
  destruct a as [s|u|s ch|s ch g cci|s ch cci|nm|u v]; try (intros H; inv H; reflexivity).
  - unfold value_write. destruct (security_check _ _ _); try (intros H; inv H; reflexivity).
    destruct (c_value ch) as [size kc|size v|bytes|size hrd hwr blob]; try (intros H; inv H; reflexivity).
    + destruct (kc || c_no_write ch); [intros H; inv H; reflexivity|]. rewrite mem_write_splice.
      destruct (len (get_val st g) <? 0); [intros H; inv H; cbn; apply upd_same|].
      destruct (len (get_val st g) <? 0 + len (@nil N)); intros H; inv H; cbn [vals set_vals]; [apply upd_same|].
      unfold get_val. rewrite splice_nothing. apply upd_same.
    + destruct (negb hwr); [intros H; inv H; reflexivity|]. destruct (negb blob && _); [intros H; inv H; reflexivity|].
      rewrite mem_write_splice.
      destruct (len (get_val st g) <? 0); [intros H; inv H; cbn; apply upd_same|].
      destruct (len (get_val st g) <? 0 + len (@nil N)); intros H; inv H; cbn [vals set_vals log_call set_hlogs]; [apply upd_same|].
      unfold get_val. rewrite splice_nothing. apply upd_same.
  - destruct (security_check _ _ _); intros H; inv H; reflexivity.
Qed.

(* (a) Prepare Write never changes a value: every configuration, state, connection, request, buffer *)
Theorem prepare_never_changes_value c st cid pdu b n st' r :
  handle_prepare_write c st cid pdu b n = Some (st', r) -> vals st' = vals st.
Proof.
  unfold handle_prepare_write. intros H. mon. destruct (wqueue c) as [qs|]; [|mon; reflexivity].
  destruct (len pdu <? 5); [mon; reflexivity|]. mon. destruct c0 as [f|[h i]]; mon; [reflexivity|].
  unfold access_check_write in *.
  match goal with X : access_write _ _ _ _ 0 [] = Some (?s1, ?rc) |- _ => pose proof (probe_vals _ _ _ _ _ _ X) as V; destruct rc end; mon; try exact V.
  unfold wq_allocate in H. destruct (_ || _) in H; mon; exact V.
Qed.

(* (c) the queue is released by Execute Write (both flags, also when a queued write fails) ... *)
Lemma execute_writes_queue c cid elems : forall st st' f,
  execute_writes c st cid elems = Some (st', f) -> wq_owner st' = wq_owner st /\ wq_elems st' = wq_elems st.
Proof.
  induction elems as [|e t IH]; intros st st' f H; cbn [execute_writes] in H.
  - mon. split; reflexivity.
  - mon. match goal with X : access_write _ _ _ _ _ _ = Some (?s1, ?rc) |- _ => destruct (access_write_queue _ _ _ _ _ _ _ _ X) as [Q1 Q2]; destruct rc end.
    + destruct (IH _ _ _ H) as [I1 I2]. split; congruence.
    + mon. split; assumption.
    + mon. split; assumption.
Qed.

Theorem execute_releases_queue c st cid flag b n st' r :
  wqueue c <> None -> flag = 0 \/ flag = 1 ->
  handle_execute_write c st cid [24; flag] b n = Some (st', r) -> wq_owner st' <> Some cid.
Proof.
  intros Hq Hf. unfold handle_execute_write. rewrite rd_0. destruct (wqueue c) as [qs|]; [|contradiction].
  cbn [len length N.of_nat Pos.of_succ_nat Pos.succ N.eqb Pos.eqb negb]. rewrite rd_1.
  replace (negb (flag =? 0) && negb (flag =? 1)) with false by (destruct Hf as [-> | ->]; reflexivity).
  intros H. mon.
  assert (Q : wq_owner s = wq_owner st).
  { destruct ((flag =? 1) && _); [|mon; reflexivity]. eapply execute_writes_queue; eauto. }
  assert (R : wq_owner (wq_free s cid) <> Some cid).
  { unfold wq_free. destruct (wq_owner s) as [o'|] eqn:EO; [|rewrite EO; discriminate].
    destruct (Nat.eqb o' cid) eqn:EN; [cbn; discriminate|]. rewrite EO. intros X. inv X. rewrite Nat.eqb_refl in EN. discriminate. }
  destruct o as [[h code]|]; mon; exact R.
Qed.

(* ... and by a disconnect *)
Theorem disconnect_releases_queue c st cid : wq_owner (fst (srv_step c st (OpDisc cid))) <> Some cid.
Proof.
  cbn [srv_step fst set_conn wq_owner]. unfold wq_free. destruct (wq_owner st) as [o|] eqn:EO; [|rewrite EO; discriminate].
  destruct (Nat.eqb o cid) eqn:EN; [cbn; discriminate|]. rewrite EO. intros X. inv X. rewrite Nat.eqb_refl in EN. discriminate.
Qed.

(* (d) while another client holds the queue a permitted Prepare Write is answered with Prepare Queue Full and
   changes nothing of the queue *)
Theorem other_client_gets_queue_full st cid o qs elem :
  wq_owner st = Some o -> o <> cid -> wq_allocate qs st cid elem = None.
Proof.
  intros HO NE. unfold wq_allocate. rewrite HO. replace (Nat.eqb o cid) with false by (symmetry; apply Nat.eqb_neq; exact NE).
  cbn [negb]. rewrite orb_true_r. reflexivity.
Qed.

(* ------------------------------------------------------------------ configurations WITH write handlers *)
Lemma judge_core_ok c a o x r : (sat_cond c x -> sat c x r) -> judge_core c a o x r = Ok.
Proof.
  intros H. unfold judge_core, judge. destruct o as [cid pdu n|cid n|cid e p|cid|by_uuid kd g|g|g data]; try (destruct r; reflexivity).
  - destruct r as [resp| | | | |]; try reflexivity. destruct x as [|kind exp g rsp|p|g v wl]; try reflexivity.
    destruct (Nat.eqb kind k_read) eqn:EK.
    + apply Nat.eqb_eq in EK. subst kind. destruct (list_eqb resp rsp); reflexivity.
    + assert (S : sat c (XResp kind exp g rsp) (OBytes resp)) by (apply H; cbn [sat_cond]; intros X; congruence).
      cbn [sat] in S. inversion S; subst. rewrite list_eqb_refl. reflexivity.
  - destruct r as [| | | | |v wl]; try reflexivity. destruct x as [|kind exp g0 rsp|p|g0 v' wl']; try reflexivity.
    destruct (H I) as (lg & E & _). inversion E; subst. rewrite list_eqb_refl. cbn [negb]. destruct lg as [[[? ?] ?]|]; reflexivity.
Qed.

(* every configuration - write handlers or not -: all clauses but the handler call counters *)
Theorem monitor_core_sound c ops : monitor_core c (srv_run c (srv_init c) ops) = None.
Proof.
  unfold monitor_core, minit. apply (monitor_sound_with judge_core (fun _ => true)).
  - intros a o x r _ H. apply judge_core_ok; assumption.
  - apply sim_init.
  - apply forallb_true.
Qed.

(* ... and what the permission probe of Prepare Write does to a value behind a write handler, exactly: one
   call of the handler with an empty write at offset 0 (counted as a write and as an empty write), which the
   harness' array handler accepts; no value, no connection data and nothing of the queue changes *)
Theorem probe_calls_handler_once c st cid k s ch g cci size hrd blob st' rc :
  get_conn st cid = Some k -> c_value ch = VHandler size hrd true blob ->
  security_check (char_requires_encryption c s ch) (encrypted k) (pairing k) = Success ->
  access_check_write c st cid (AValue s ch g cci) = Some (st', rc) ->
  rc = Success /\ vals st' = vals st /\ conns st' = conns st /\ wq_owner st' = wq_owner st /\ wq_elems st' = wq_elems st
  /\ hlogs st' = upd (hlogs st) g (let '(r, w, e) := nth g (hlogs st) (0, 0, 0) in (r, w + 1, e + 1)).
Proof.
  intros G HV HS. unfold access_check_write, access_write. rewrite G. unfold value_write. cbn [fst snd]. rewrite HS, HV.
  cbn [negb andb]. replace (negb blob && negb (0 =? 0)) with false by (rewrite andb_false_r; reflexivity).
  rewrite mem_write_splice.
  replace (len (get_val st g) <? 0) with false by (symmetry; apply N.ltb_ge; lia).
  replace (len (get_val st g) <? 0 + len (@nil N)) with false by (symmetry; apply N.ltb_ge; unfold len; cbn [length]; lia).
  intros H. inv H. repeat split; try reflexivity.
  cbn [vals set_vals log_call set_hlogs]. unfold get_val. rewrite splice_nothing. apply upd_same.
Qed.
