(* The C01 monitor (AttSrvSpecC01.monitor) accepts every trace of the model: for well formed
   configurations without include_service<>, without the marker uuid 0x0001 and with max_mtu <= 256,
   and histories of input-side operations (l2cap_input, security changes, disconnects, value access)
   on existing connections. The monitor's MTU tracking is the model's client MTU (with att-mtu's
   C8.srv_step_mtu: both follow mtu_after). l2cap_output and notify / indicate are C08 / C10 / C11
   territory; their absence of faults is not proved here (see docs/C01.md). *)
From Coq Require Import Lia ZifyBool.
From BT Require Import Base.ListX AttDb.AttDbModel AttDb.AttDbProofs NQueue.NQueueModel
  AttSrv.AttSrvModel AttSrv.AttSrvSpecC01 AttSrv.AttSrvProofsC01 AttSrv.AttSrvFrame
  AttSrv.AttSrvSpecVal AttSrv.AttSrvProofsVal AttSrv.AttSrvNoFault AttSrv.AttSrvFrameList.
From BT Require AttSrv.AttSrvProofsC08.
Module C8 := AttSrv.AttSrvProofsC08.
Module M1 := AttSrv.AttSrvSpecC01.
Local Open Scope N_scope.

Definition input_side (o : srv_op) : bool :=
  match o with
  | OpOut _ _ | OpNotify _ _ _ => false
  | OpIn cid _ _ => Nat.ltb cid n_conns
  | _ => true
  end.

(* a valid Exchange MTU Request is answered with an Exchange MTU Response *)
Lemma valid_exchange_response c st cid lo hi n k st' rs :
  get_conn st cid = Some k -> default_att_mtu <= lo + 256 * hi -> default_att_mtu <= N.min n (negotiated_mtu c k) ->
  att_input c st cid [2; lo; hi] n = Some (st', rs) -> exists t, rs = 3 :: t.
Proof.
  intros G Lv Ln A. rewrite (C8.att_input_opcode2 c st cid [2; lo; hi] n k G eq_refl Ln) in A.
  destruct (C8.exchange_mtu_valid c st cid lo hi (repeat fill_byte (N.to_nat n)) (N.min n (negotiated_mtu c k)) k) as (b' & HV & HT & HL); auto.
  { rewrite len_repeat. unfold default_att_mtu in Ln. lia. }
  rewrite HV in A. destruct (3 <=? len b'); [|discriminate]. inversion A. rewrite HT. eauto.
Qed.

(* what the monitor does with the client MTU is mtu_after *)
Lemma monitor_mtu_update c m cid pdu n rs j m' :
  (cid < length m)%nat ->
  (forall lo hi, pdu = [2; lo; hi] -> default_att_mtu <= lo + 256 * hi -> default_att_mtu <= n -> exists t, rs = 3 :: t) ->
  M1.mstep c m (OpIn cid pdu n) (OBytes rs) = (M1.Ok, m') ->
  nth j m' default_att_mtu = C8.mtu_after j (nth j m default_att_mtu) (OpIn cid pdu n).
Proof.
  intros Hc Hr. unfold M1.mstep. cbn [C8.mtu_after].
  destruct ((len pdu =? 0) || (n <? default_att_mtu)) eqn:Hh.
  - intros H. inversion H. subst m'. apply orb_true_iff in Hh. destruct Hh as [Hh|Hh].
    + apply N.eqb_eq in Hh. destruct pdu; [|unfold len in Hh; cbn [length] in Hh; lia].
      destruct (Nat.eqb cid j && (default_att_mtu <=? n)); reflexivity.
    + apply N.ltb_lt in Hh. replace (default_att_mtu <=? n) with false by (symmetry; apply N.leb_gt; exact Hh).
      rewrite andb_false_r. reflexivity.
  - apply orb_false_iff in Hh. destruct Hh as [_ Hn]. apply N.ltb_ge in Hn.
    replace (default_att_mtu <=? n) with true by (symmetry; apply N.leb_le; exact Hn). rewrite andb_true_r.
    cbv zeta. destruct (N.min n _ <? len rs); [discriminate|]. destruct (negb (M1.frame_ok pdu rs)); [discriminate|].
    destruct (negb (M1.frame_list_ok rs)); [discriminate|]. intros H. apply pair_inj in H. destruct H as [_ Hm'].
    unfold C8.valid_exchange.
    assert (BR : forall (a : N) (y z : N), (if Nat.eqb cid j then y else z) = (if Nat.eqb cid j then y else z)) by reflexivity.
    destruct pdu as [|a [|lo [|hi [|x t]]]].
    + subst m'. destruct (Nat.eqb cid j); reflexivity.
    + subst m'. destruct (Nat.eqb cid j); destruct a as [|p]; try reflexivity; repeat (destruct p; try reflexivity).
    + subst m'. destruct (Nat.eqb cid j); destruct a as [|p]; try reflexivity; repeat (destruct p; try reflexivity).
    + destruct (a =? 2) eqn:Ea.
      * apply N.eqb_eq in Ea. subst a. cbn [andb].
        destruct (default_att_mtu <=? lo + 256 * hi) eqn:Ev.
        -- apply N.leb_le in Ev. destruct (Hr lo hi eq_refl Ev Hn) as [t ->]. subst m'.
           destruct (Nat.eqb cid j) eqn:Ej.
           ++ apply Nat.eqb_eq in Ej. subst j. apply nth_upd_eq. exact Hc.
           ++ apply Nat.eqb_neq in Ej. apply nth_upd_neq. exact Ej.
        -- subst m'. destruct rs as [|r0 t0]; [destruct (Nat.eqb cid j); reflexivity|].
           destruct (Nat.eqb cid j); destruct r0 as [|p]; try reflexivity; repeat (destruct p; try reflexivity).
      * subst m'. cbn [andb]. destruct (Nat.eqb cid j); destruct a as [|p]; try reflexivity; try discriminate Ea; repeat (destruct p; try reflexivity; try discriminate Ea).
    + subst m'. destruct (Nat.eqb cid j); destruct a as [|p]; try reflexivity; repeat (destruct p; try reflexivity).
Qed.

Lemma mstep_length c m o r : length (snd (M1.mstep c m o r)) = length m.
Proof.
  unfold M1.mstep. destruct o as [cid pdu n|cid n|cid e p|cid|bu kd g|g|g data]; cbn [snd]; try reflexivity.
  - destruct ((len pdu =? 0) || (n <? default_att_mtu)); [reflexivity|].
    destruct r; try reflexivity. cbv zeta.
    destruct (_ <? len l); [reflexivity|]. destruct (negb (M1.frame_ok pdu l)); [reflexivity|].
    destruct (negb (M1.frame_list_ok l)); [reflexivity|]. cbn [snd].
    destruct pdu as [|a0 [|lo [|hi [|x t]]]].
    + reflexivity.
    + destruct a0 as [|p0]; [reflexivity|repeat (destruct p0; try reflexivity)].
    + destruct a0 as [|p0]; [reflexivity|repeat (destruct p0; try reflexivity)].
    + destruct a0 as [|p0]; [reflexivity|]. repeat (destruct p0; try reflexivity).
      destruct l as [|r0 t0]; [reflexivity|]. destruct r0 as [|p1]; [reflexivity|]. repeat (destruct p1; try reflexivity).
      destruct (default_att_mtu <=? lo + 256 * hi); [apply upd_length|reflexivity].
    + destruct a0 as [|p0]; [reflexivity|repeat (destruct p0; try reflexivity)].
  - apply upd_length.
Qed.

(* ------------------------------------------------------------------ the invariant between model state and monitor state *)
Record inv (c : cfg) (st : srv_state) (m : M1.mon) : Prop := mkInv {
  inv_sim : exists a, sim c st a;
  inv_len : length m = n_conns;
  inv_conn : forall j, (j < n_conns)%nat ->
             exists k, get_conn st j = Some k /\ default_att_mtu <= client_mtu k /\ nth j m default_att_mtu = client_mtu k }.

Lemma inv_init c : inv c (srv_init c) M1.minit.
Proof.
  constructor.
  - eexists. apply sim_init.
  - reflexivity.
  - intros j Hj. exists (init_conn c). split; [unfold get_conn, srv_init; cbn [conns]; apply nth_error_repeat; exact Hj|].
    split; [cbn; lia|]. unfold M1.minit. rewrite repeat_nth by exact Hj. reflexivity.
Qed.

Lemma sim_next c st a o : sim c st a -> exists a', sim c (fst (srv_step c st o)) a'.
Proof.
  intros S. destruct (snd (srv_step c st o)) eqn:E;
    try (destruct (sim_step c st a o S) as [S' _]; [rewrite E; discriminate|]; eexists; exact S').
  rewrite (srv_step_fault_state c st o E). eauto.
Qed.

Section Step.
  Variable c : cfg.
  Hypothesis Hw : wf c.
  Hypothesis Hn : no_includes c.
  Hypothesis Hm : no_marker_uuids c.
  Hypothesis Hmax : max_mtu c <= 256.

  (* the new state satisfies the invariant as soon as the monitor followed mtu_after *)
  Lemma inv_next st m o m' : inv c st m -> length m' = n_conns ->
    (forall j, (j < n_conns)%nat -> nth j m' default_att_mtu = C8.mtu_after j (nth j m default_att_mtu) o) ->
    inv c (fst (srv_step c st o)) m'.
  Proof.
    intros [[a S] L C] L' U. constructor; auto.
    - eapply sim_next; eauto.
    - intros j Hj. destruct (C j Hj) as (k & G & M & E).
      destruct (C8.srv_step_mtu c st o j k (mtu_ge c Hw) G M) as (k' & G' & E').
      exists k'. split; auto. rewrite E'. split; [exact (C8.mtu_after_ge j (client_mtu k) o M)|]. rewrite U by exact Hj. rewrite E. reflexivity.
  Qed.

  Lemma step_ok st m o : input_side o = true -> inv c st m ->
    exists m', M1.mstep c m o (snd (srv_step c st o)) = (M1.Ok, m') /\ inv c (fst (srv_step c st o)) m'.
  Proof.
    intros Hs I. pose proof I as [[a S] L C].
    destruct o as [cid pdu n|cid n|cid e p|cid|bu kd g|g|g data]; cbn [input_side] in Hs; try discriminate Hs.
    - (* l2cap_input *)
      apply Nat.ltb_lt in Hs. destruct (C cid Hs) as (k & G & M & E).
      unfold M1.mstep. destruct ((len pdu =? 0) || (n <? default_att_mtu)) eqn:Hh.
      + (* outside the hypotheses of the property: the monitor ignores it, the model asserts *)
        exists m. split; [reflexivity|]. apply (inv_next st m); auto.
        intros j Hj. cbn [C8.mtu_after]. apply orb_true_iff in Hh. destruct Hh as [Hh|Hh].
        * apply N.eqb_eq in Hh. destruct pdu; [|unfold len in Hh; cbn [length] in Hh; lia].
          destruct (Nat.eqb cid j && (default_att_mtu <=? n)); reflexivity.
        * apply N.ltb_lt in Hh. replace (default_att_mtu <=? n) with false by (symmetry; apply N.leb_gt; exact Hh).
          rewrite andb_false_r. reflexivity.
      + apply orb_false_iff in Hh. destruct Hh as [Hl Hn1]. apply N.eqb_neq in Hl. apply N.ltb_ge in Hn1.
        assert (Hos : default_att_mtu <= N.min n (negotiated_mtu c k)).
        { unfold negotiated_mtu. pose proof (mtu_ge c Hw). lia. }
        cbn [srv_step].
        destruct (att_input c st cid pdu n) as [[st' rs]|] eqn:A.
        2:{ exfalso. assert (HL1 : 1 <= len pdu) by lia. unfold default_att_mtu in Hos.
            exact (att_input_no_fault c st cid pdu n k Hw Hn Hm (sim_qok S) G HL1 Hos A). }
        cbn [snd fst].
        destruct (att_input_length_and_frame c st cid pdu n st' rs k G A) as [Hlen Hfr].
        pose proof (att_input_frame_list c st cid pdu n st' rs k Hw G ltac:(unfold negotiated_mtu; lia) A) as Hfl.
        assert (Emtu : N.min (max_mtu c) (nth cid m default_att_mtu) = negotiated_mtu c k) by (rewrite E; reflexivity).
        set (R := M1.mstep c m (OpIn cid pdu n) (OBytes rs)).
        assert (HR : fst R = M1.Ok).
        { unfold R, M1.mstep.
          replace ((len pdu =? 0) || (n <? default_att_mtu)) with false
            by (symmetry; apply orb_false_iff; split; [apply N.eqb_neq; exact Hl|apply N.ltb_ge; exact Hn1]).
          cbv zeta. rewrite Emtu.
          replace (N.min n (negotiated_mtu c k) <? len rs) with false by (symmetry; apply N.ltb_ge; exact Hlen).
          rewrite Hfr, Hfl. reflexivity. }
        assert (HR2 : R = (M1.Ok, snd R)) by (destruct R as [v mm]; cbn [fst snd] in *; subst v; reflexivity).
        assert (HR3 : M1.mstep c m (OpIn cid pdu n) (OBytes rs) = (M1.Ok, snd R)) by exact HR2.
        unfold M1.mstep in HR3.
        replace ((len pdu =? 0) || (n <? default_att_mtu)) with false in HR3
          by (symmetry; apply orb_false_iff; split; [apply N.eqb_neq; exact Hl|apply N.ltb_ge; exact Hn1]).
        exists (snd R). split; [exact HR3|].
        replace st' with (fst (srv_step c st (OpIn cid pdu n))) by (cbn [srv_step]; rewrite A; reflexivity).
        apply (inv_next st m); auto.
        * unfold R. rewrite mstep_length. exact L.
        * intros j Hj. eapply (monitor_mtu_update c m cid pdu n rs j).
          -- rewrite L. exact Hs.
          -- intros lo hi -> Lv _. eapply valid_exchange_response; eauto.
          -- exact HR2.
    - (* link security *)
      assert (NF : snd (srv_step c st (OpSec cid e p)) <> OFault) by (cbn [srv_step]; destruct (get_conn st cid); cbn [snd]; discriminate).
      exists m. split; [unfold M1.mstep; destruct (snd _); try reflexivity; congruence|]. apply (inv_next st m); auto.
    - (* disconnect *)
      assert (NF : snd (srv_step c st (OpDisc cid)) <> OFault) by (cbn [srv_step snd]; discriminate).
      eexists. split; [unfold M1.mstep; destruct (snd _); try reflexivity; congruence|]. apply (inv_next st m); auto.
      + rewrite upd_length. exact L.
      + intros j Hj. cbn [C8.mtu_after]. destruct (Nat.eqb cid j) eqn:Ej.
        * apply Nat.eqb_eq in Ej. subst j. apply nth_upd_eq. rewrite L. exact Hj.
        * apply Nat.eqb_neq in Ej. apply nth_upd_neq. exact Ej.
    - assert (NF : snd (srv_step c st (OpVal g)) <> OFault) by (cbn [srv_step]; destruct (has_var c g) as [[w h]|]; cbn [snd]; discriminate).
      exists m. split; [unfold M1.mstep; destruct (snd _); try reflexivity; congruence|]. apply (inv_next st m); auto.
    - assert (NF : snd (srv_step c st (OpSetVal g data)) <> OFault) by (cbn [srv_step]; destruct (has_var c g) as [[[|] h]|]; cbn [snd]; discriminate).
      exists m. split; [unfold M1.mstep; destruct (snd _); try reflexivity; congruence|]. apply (inv_next st m); auto.
  Qed.
End Step.

(* ------------------------------------------------------------------ the monitor accepts every model trace *)
Theorem monitor_accepts_from c : wf c -> no_includes c -> no_marker_uuids c -> max_mtu c <= 256 ->
  forall ops st m pos, forallb input_side ops = true -> inv c st m ->
  M1.monitor_from c m pos (srv_run c st ops) = None.
Proof.
  intros Hw Hn Hm Hmax. induction ops as [|o t IH]; intros st m pos Hs I; cbn [srv_run M1.monitor_from]; [reflexivity|].
  cbn [forallb] in Hs. apply andb_true_iff in Hs. destruct Hs as [Ho Ht].
  destruct (step_ok c Hw Hn Hm Hmax st m o Ho I) as (m' & E & I').
  destruct (srv_step c st o) as [st' r] eqn:Es. cbn [fst snd] in *. cbn [M1.monitor_from]. rewrite E. apply IH; auto.
Qed.

Theorem monitor_accepts_model c ops : wf c -> no_includes c -> no_marker_uuids c -> max_mtu c <= 256 ->
  forallb input_side ops = true -> M1.monitor c (srv_run c (srv_init c) ops) = None.
Proof. intros Hw Hn Hm Hmax Hs. unfold M1.monitor. apply monitor_accepts_from; auto. apply inv_init. Qed.
