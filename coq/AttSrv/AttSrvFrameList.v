(* C01 (c'): list shaped responses are opcode, [entry length,] a positive whole number of entries of
   equal size; fixed size responses have their size - for every response of l2cap_input as long as
   min( out_size, negotiated MTU ) <= 256 (above, the 8 bit size counters of Read By Type / Find By Type
   Value truncate: C01_framing_large_mtu_refuted). Needs only well formed service uuids (from wf). *)
From Coq Require Import Lia ZifyBool.
From BT Require Import Base.ListX AttDb.AttDbModel NQueue.NQueueModel
  AttSrv.AttSrvModel AttSrv.AttSrvSpecC01 AttSrv.AttSrvProofsC01.
From BT Require AttSrv.AttSrvProofsC02.
Module C2 := AttSrv.AttSrvProofsC02.
Local Open Scope N_scope.

Ltac okb :=
  repeat match goal with
         | H : (if ?x then _ else _) = Some _ |- _ => destruct x eqn:?
         | H : match ?x with Success => _ | Err _ => _ | ValueEqual => _ end = Some _ |- _ => destruct x
         | H : match ?x with Failed _ => _ | Passed _ => _ end = Some _ |- _ => destruct x eqn:?
         | H : match ?x with Some _ => _ | None => _ end = Some _ |- _ => let E := fresh "E" in destruct x eqn:E
         | _ => progress mon
         end.

(* ------------------------------------------------------------------ reading a response off the buffer *)
Lemma takeN_two m (b : list N) : 2 <= m -> m <= len b ->
  exists t, takeN m b = nth 0 b 0 :: nth 1 b 0 :: t.
Proof.
  intros H1 H2. unfold takeN. destruct b as [|x [|y t]]; unfold len in H2; cbn [length] in H2; try lia.
  destruct (N.to_nat m) as [|[|k]] eqn:E; try lia. cbn [firstn nth]. eexists. reflexivity.
Qed.

Lemma put_at_one b x t b' : put b 1 (x :: t) = Some b' -> nth 1 b' 0 = x.
Proof.
  unfold put. destruct (1 + len (x :: t) <=? len b) eqn:E; [|discriminate]. intros H. inversion H.
  apply N.leb_le in E. unfold len in E. cbn [length] in E. unfold takeN.
  destruct b as [|x0 tt]; cbn [length] in E; [lia|]. reflexivity.
Qed.

Lemma len_takeN_le m (b : list N) : m <= len b -> len (takeN m b) = m.
Proof. intros H. rewrite len_takeN. lia. Qed.

Lemma whole_entries_mul q entry : 1 <= q -> 1 <= entry -> whole_entries (q * entry) entry = true.
Proof.
  intros Hq He. unfold whole_entries. rewrite N.mod_mul by lia.
  replace (1 <=? entry) with true by (symmetry; apply N.leb_le; lia).
  replace (1 <=? q * entry) with true by (symmetry; apply N.leb_le; nia). reflexivity.
Qed.

(* an error response is never judged by frame_list_ok *)
Lemma fl_err op r m b : is_err op r -> r = (b, m) -> frame_list_ok (takeN m b) = true.
Proof. intros [E1 (x & y & z & E2)] ->. cbn [fst snd] in *. subst m. rewrite E2. reflexivity. Qed.

(* the shape of an error response produced directly *)
Lemma error_fl op code h b n b' m : 5 <= n -> error_response op code h b n = Some (b', m) -> frame_list_ok (takeN m b') = true.
Proof.
  intros Hn H. destruct (error_frame_exact op code h b n b' m Hn H) as [_ E]. rewrite E. reflexivity.
Qed.

Lemma fl_head m (b' : list N) x : 1 <= m -> m <= len b' -> nth 0 b' 0 = x ->
  exists t, takeN m b' = x :: t /\ len (x :: t) = m.
Proof.
  intros H1 H2 Hx. destruct (takeN_hd m b') as [t Ht]; [lia|lia|]. exists t. rewrite <- Hx, <- Ht. split; [reflexivity|apply len_takeN_le; lia].
Qed.

(* responses judged by their first byte only *)
Lemma fl_good_plain op os b' m : good op os (b', m) -> m <= len b' -> op = 10 \/ op = 12 \/ op = 14 ->
  frame_list_ok (takeN m b') = true.
Proof.
  intros [_ [[G1 G2]|G]] Hl Hop; [|eapply fl_err; eauto]. cbn [fst snd] in *.
  destruct (fl_head m b' _ G1 Hl G2) as [t [-> _]]. destruct Hop as [ -> | [ -> | -> ] ]; reflexivity.
Qed.

Ltac err_fl := match goal with X : error_response _ _ _ _ _ = Some _ |- _ => eapply error_fl; [|exact X]; lia end.

Lemma check_range_failed_fl c pdu b n sa sb r : 5 <= n ->
  check_size_and_handle_range c pdu b n sa sb = Some (Failed r) -> frame_list_ok (takeN (snd r) (fst r)) = true.
Proof. intros Hn. unfold check_size_and_handle_range. intros H. okb; match goal with X : error_response _ _ _ _ _ = Some ?r0 |- _ => destruct r0 end; cbn [fst snd]; err_fl. Qed.

Lemma check_handle_failed_fl c pdu b n r : 5 <= n ->
  check_handle c pdu b n = Some (Failed r) -> frame_list_ok (takeN (snd r) (fst r)) = true.
Proof. intros Hn. unfold check_handle. intros H. okb; match goal with X : error_response _ _ _ _ _ = Some ?r0 |- _ => destruct r0 end; cbn [fst snd]; err_fl. Qed.

(* ------------------------------------------------------------------ fixed size responses *)
Ltac fl_fixed Z :=
  match goal with |- frame_list_ok (takeN ?m ?bb) = true =>
    let t := fresh "t" in let L := fresh "L" in
    destruct (fl_head m bb _ ltac:(lia) ltac:(lia) Z) as [t [-> L]]; cbn [frame_list_ok]; rewrite L end.

Lemma exchange_mtu_fl c st cid pdu b n st' b' m : 23 <= n -> m <= len b' ->
  handle_exchange_mtu c st cid pdu b n = Some (st', (b', m)) -> frame_list_ok (takeN m b') = true.
Proof.
  intros Hn Hl. unfold handle_exchange_mtu. intros H. okb; try err_fl.
  match goal with X : put _ 0 _ = Some _ |- _ => apply put_zero in X; rename X into Z end.
  fl_fixed Z. reflexivity.
Qed.

Lemma write_request_fl c st cid pdu b n st' b' m : 23 <= n -> m <= len b' ->
  handle_write_request c st cid pdu b n = Some (st', (b', m)) -> frame_list_ok (takeN m b') = true.
Proof.
  intros Hn Hl. unfold handle_write_request. intros H. okb; try err_fl.
  - match goal with X : check_handle _ _ _ _ = Some (Failed _) |- _ => apply check_handle_failed_fl in X; [exact X|lia] end.
  - match goal with X : put _ 0 _ = Some _ |- _ => apply put_zero in X; rename X into Z end.
    fl_fixed Z. reflexivity.
Qed.

Lemma prepare_write_fl c st cid pdu b n st' b' m : 23 <= n -> m <= len b' ->
  handle_prepare_write c st cid pdu b n = Some (st', (b', m)) -> frame_list_ok (takeN m b') = true.
Proof.
  intros Hn Hl. unfold handle_prepare_write. intros H. okb; try err_fl.
  - match goal with X : check_handle _ _ _ _ = Some (Failed _) |- _ => apply check_handle_failed_fl in X; [exact X|lia] end.
  - match goal with X : (len pdu <? 5) = false |- _ => apply N.ltb_ge in X end.
    match goal with X : put _ 1 _ = Some _, Y : put _ 0 _ = Some _ |- _ =>
      pose proof (put_nth_low _ _ _ _ 0%nat X ltac:(lia)) as Z; rewrite (put_zero _ _ _ _ Y) in Z end.
    fl_fixed Z. apply N.leb_le. lia.
Qed.

Lemma execute_write_fl c st cid pdu b n st' b' m : 23 <= n -> m <= len b' ->
  handle_execute_write c st cid pdu b n = Some (st', (b', m)) -> frame_list_ok (takeN m b') = true.
Proof.
  intros Hn Hl. unfold handle_execute_write. intros H. okb; try err_fl.
  all: match goal with X : put _ 0 _ = Some _ |- _ => apply put_zero in X; rename X into Z end; fl_fixed Z; reflexivity.
Qed.

(* ------------------------------------------------------------------ Find By Type Value *)
Lemma services_by_group_q c st cid : forall ss index si ei value b cur e found b' cur' found',
  services_by_group c st cid ss index si ei value b cur e found = Some (b', cur', found') ->
  exists q, cur' = cur + 4 * q /\ (found' = true -> found = true \/ 1 <= q).
Proof.
  induction ss as [|s t IH]; intros index si ei value b cur e found b' cur' found' H; cbn [services_by_group] in H.
  - mon. exists 0. split; [lia|auto].
  - cbv zeta in H. brk; [|eapply IH; eauto]. mon. brk; [eapply IH; eauto|].
    destruct (access_compare_value c st cid a value); try (eapply IH; eauto; fail).
    brk; [|eapply IH; eauto]. mon. apply IH in H. destruct H as [q [H1 H2]].
    exists (q + 1). split; [lia|]. intros _. right. lia.
Qed.

Lemma find_by_type_value_fl c st cid pdu b n b' m : 23 <= n -> n <= 256 -> m <= len b' ->
  handle_find_by_type_value c st cid pdu b n = Some (b', m) -> frame_list_ok (takeN m b') = true.
Proof.
  intros Hn Hn2 Hl. unfold handle_find_by_type_value. intros H. okb; try err_fl.
  - match goal with X : check_size_and_handle_range _ _ _ _ _ _ = Some (Failed _) |- _ => apply check_range_failed_fl in X; [exact X|lia] end.
  - match goal with X : services_by_group _ _ _ _ _ _ _ _ _ _ _ _ = Some (_, ?cur, _) |- _ =>
      pose proof (services_by_group_inv _ _ _ _ _ _ _ _ _ _ _ _ _ _ _ X ltac:(lia)) as [I1 I2];
      destruct (services_by_group_q _ _ _ _ _ _ _ _ _ _ _ _ _ _ _ X) as [q [Q1 Q2]] end.
    destruct (Q2 eq_refl) as [Q|Q]; [discriminate Q|].
    match goal with X : put _ 0 _ = Some _ |- _ => apply put_zero in X; rename X into Z end.
    subst. replace (1 + 4 * q - 1) with (4 * q) in * by lia. rewrite (N.mod_small (4 * q) 256) in * by lia.
    fl_fixed Z. replace (4 * q + 1 - 1) with (q * 4) by lia. apply whole_entries_mul; lia.
Qed.

(* ------------------------------------------------------------------ Read By Type *)
Definition col_ok (k : collect) : Prop :=
  if co_first k then co_cur k = 2
  else exists q, 1 <= q /\ co_cur k = 2 + q * co_size k /\ 2 <= co_size k /\ co_size k <= 255.

Lemma collect_attribute_ok c st cid k e index a st' k' :
  collect_attribute c st cid k e index a = Some (st', k') -> col_ok k -> col_ok k'.
Proof.
  unfold collect_attribute. intros H Hk. brk; [|mon; exact Hk]. cbv zeta in H. mon.
  destruct a0; mon; try exact Hk.
  brk; [discriminate|]. match goal with X : (253 <? len ?d) = false |- _ => apply N.ltb_ge in X; rename X into Ld end.
  mon. unfold col_ok in *. destruct (co_first k) eqn:Ef.
  - (* the first entry fixes the size *)
    rewrite (N.mod_small (len l + 2) 256) in H by lia.
    rewrite N.eqb_refl in H. mon. cbn [co_first co_cur co_size].
    exists 1. rewrite (N.mod_small (len l) 256) by lia. lia.
  - destruct Hk as (q & Q1 & Q2 & Q3 & Q4). brk; mon; cbn [co_first co_cur co_size].
    + match goal with X : (_ =? _) = true |- _ => apply N.eqb_eq in X; rename X into Es end.
      exists (q + 1). rewrite (N.mod_small (len l) 256) by lia. nia.
    + exists q. auto.
Qed.

Lemma all_attributes_ok c cid f e last eh : forall fuel st k index st' k',
  all_attributes fuel c st cid f k e index last eh = Some (st', k') -> col_ok k -> col_ok k'.
Proof.
  induction fuel as [|fu IH]; intros st k index st' k' H Hk; cbn [all_attributes] in H; [mon; exact Hk|].
  brk; [|mon; exact Hk]. mon. brk.
  - mon. eapply IH; eauto. eapply collect_attribute_ok; eauto.
  - eapply IH; eauto.
Qed.

Ltac fl_two Z0 Z1 :=
  match goal with |- frame_list_ok (takeN ?m ?bb) = true =>
    let t := fresh "t" in let E := fresh "E" in
    destruct (takeN_two m bb ltac:(lia) ltac:(lia)) as [t E];
    pose proof (len_takeN_le m bb ltac:(lia)) as L; rewrite E in L |- *; rewrite Z0, Z1 in L |- *; cbn [frame_list_ok]; rewrite L end.

Lemma read_by_type_fl c st cid pdu b n st' b' m : 23 <= n -> n <= 257 -> m <= len b' ->
  handle_read_by_type c st cid pdu b n = Some (st', (b', m)) -> frame_list_ok (takeN m b') = true.
Proof.
  intros Hn Hn2 Hl. unfold handle_read_by_type. intros H. okb; try err_fl.
  - match goal with X : check_size_and_handle_range _ _ _ _ _ _ = Some (Failed _) |- _ => apply check_range_failed_fl in X; [exact X|lia] end.
  - match goal with X : all_attributes _ _ _ _ _ _ _ _ _ _ = Some (_, ?k) |- _ => rename k into c1; rename X into Ea end.
    pose proof (all_attributes_inv _ _ _ _ _ _ _ _ _ _ _ _ Ea) as [I1 I2]; [cbn [co_cur]; lia|cbn [co_cur]; lia|].
    pose proof (all_attributes_ok _ _ _ _ _ _ _ _ _ _ _ _ Ea) as Ok. unfold col_ok at 1 in Ok. cbn [co_first co_cur] in Ok. specialize (Ok eq_refl).
    match goal with X : negb (_ =? 2) = true |- _ => apply negb_true_iff, N.eqb_neq in X; rename X into Ne end.
    unfold col_ok in Ok. destruct (co_first c1); [congruence|]. destruct Ok as (q & Q1 & Q2 & Q3 & Q4).
    match goal with X : put _ 0 [9; _] = Some _ |- _ =>
      pose proof (put_zero _ _ _ _ X) as Z0;
      match type of X with put _ _ _ = Some ?bb => assert (Z1 : nth 1 bb 0 = co_size c1) by (unfold put in X; destruct (_ <=? _); [|discriminate X]; inversion X; reflexivity) end end.
    rewrite (N.mod_small (co_cur c1 - 2) 256) in * by lia.
    fl_two Z0 Z1. replace (2 <=? co_size c1) with true by (symmetry; apply N.leb_le; lia). cbn [andb].
    replace (2 + (co_cur c1 - 2) - 2) with (q * co_size c1) by lia. apply whole_entries_mul; lia.
Qed.

(* ------------------------------------------------------------------ Find Information *)
Lemma collect_tuples_q c : forall fuel start e only16 b out out_end b' out',
  collect_handle_uuid_tuples fuel c start e only16 b out out_end = Some (b', out') -> 2 <= out ->
  (exists q, out' = out + q * (if only16 then 4 else 18)) /\ nth 0 b' 0 = nth 0 b 0 /\ nth 1 b' 0 = nth 1 b 0.
Proof.
  induction fuel as [|f IH]; intros start e only16 b out out_end b' out' H Ho; cbn [collect_handle_uuid_tuples] in H.
  - mon. split; [exists 0; lia|auto].
  - cbv zeta in H. brk; [|mon; split; [exists 0; lia|auto]]. mon. brk.
    + mon. apply IH in H; [|destruct only16; lia]. destruct H as ([q Q] & N0 & N1).
      split; [exists (q + 1); lia|].
      match goal with X : put b out _ = Some ?b1, Y : put ?b1 (out + 2) _ = Some _ |- _ =>
        rewrite N0, N1, (put_nth_low _ _ _ _ 0%nat Y), (put_nth_low _ _ _ _ 1%nat Y), (put_nth_low _ _ _ _ 0%nat X), (put_nth_low _ _ _ _ 1%nat X) by lia end.
      auto.
    + apply IH in H; auto.
Qed.

Lemma find_information_fl c pdu b n b' m : 23 <= n -> m <= len b' ->
  handle_find_information c pdu b n = Some (b', m) -> frame_list_ok (takeN m b') = true.
Proof.
  intros Hn Hl. unfold handle_find_information. intros H. okb; try err_fl.
  - match goal with X : check_size_and_handle_range _ _ _ _ _ _ = Some (Failed _) |- _ => apply check_range_failed_fl in X; [exact X|lia] end.
  - (* the first attribute always yields an entry *)
    match goal with X : attribute_at c ?si = Some ?a0 |- _ => rename X into Ha; rename a0 into a; set (start := si) in * end.
    assert (Hs : start < number_of_attributes c).
    { destruct (N.lt_ge_cases start (number_of_attributes c)) as [L|L]; auto. rewrite (C2.attribute_at_beyond c start L) in Ha. discriminate. }
    match goal with X : (_ <? handle_by_index c start) = false |- _ => apply N.ltb_ge in X; rename X into Hh end.
    match goal with X : collect_handle_uuid_tuples _ _ _ _ _ _ _ _ = Some _ |- _ => rename X into Ec end.
    cbn [collect_handle_uuid_tuples] in Ec. cbv zeta in Ec.
    set (only16 := negb (attr_uuid a =? internal_128bit_uuid)) in *.
    replace ((start <? number_of_attributes c) && (handle_by_index c start <=? n1)) with true in Ec
      by (symmetry; apply andb_true_iff; split; [apply N.ltb_lt; exact Hs|apply N.leb_le; exact Hh]).
    replace ((if only16 then 4 else 18) <=? n - 2) with true in Ec by (symmetry; apply N.leb_le; destruct only16; lia).
    cbn [andb] in Ec. rewrite Ha in Ec. fold only16 in Ec. rewrite Bool.eqb_reflx in Ec. mon.
    match goal with X : collect_handle_uuid_tuples _ _ _ _ _ _ _ _ = Some _ |- _ =>
      apply collect_tuples_q in X; [destruct X as ([q Q] & N0 & N1)|destruct only16; lia] end.
    rewrite (put_nth_low _ _ _ _ 0%nat E4), (put_nth_low _ _ _ _ 0%nat E0), (put_nth_low _ _ _ _ 0%nat E3), (put_zero _ _ _ _ E1) in N0 by lia.
    rewrite (put_nth_low _ _ _ _ 1%nat E4), (put_nth_low _ _ _ _ 1%nat E0) in N1 by lia.
    pose proof (put_at_one _ _ _ _ E3) as Z1.
    rewrite Z1 in N1. subst.
    fl_two N0 N1. destruct only16; cbn [N.eqb Pos.eqb andb orb].
    + replace (2 + 4 + q * 4 - 2) with ((q + 1) * 4) by lia. rewrite whole_entries_mul by lia. reflexivity.
    + replace (2 + 18 + q * 18 - 2) with ((q + 1) * 18) by lia. rewrite whole_entries_mul by lia. reflexivity.
  - match goal with X : negb (1 =? n) = false |- _ => apply negb_false_iff, N.eqb_eq in X; lia end.
Qed.

(* ------------------------------------------------------------------ Read By Group Type *)
Definition gsize (is128 : bool) : N := if is128 then 20 else 6.

Definition pc_ok (k : pcollect) : Prop :=
  if pc_first k then pc_out k = 2
  else exists q, nth 1 (pc_buf k) 0 = gsize (pc_is128 k) /\ pc_out k = 2 + q * gsize (pc_is128 k).

Lemma rpsr_q c s b out e index is128 b' out' :
  uuid_ok (s_uuid s) = true -> 2 <= out ->
  read_primary_service_response c s b out e index is128 = Some (b', out') ->
  (out' = out \/ out' = out + gsize is128) /\ nth 1 b' 0 = nth 1 b 0.
Proof.
  intros Hu Ho. unfold read_primary_service_response. cbv zeta. intros H.
  destruct (mem_read (uuid_bytes (s_uuid s)) 0 (e - (out + 4))) as [rc d] eqn:Em.
  brk; [|mon; auto].
  match goal with X : _ && _ = true |- _ => apply andb_true_iff in X; destruct X as [X1 X2]; apply Bool.eqb_prop in X1; apply N.leb_le in X2; rename X1 into Y1; rename X2 into Y2 end.
  mon. split.
  - right. unfold mem_read in Em. cbn [N.ltb N.compare] in Em.
    replace (len (uuid_bytes (s_uuid s)) <? 0) with false in Em by (symmetry; apply N.ltb_ge; lia).
    inversion Em. rewrite len_takeN, len_dropN. pose proof (C2.uuid_bytes_len _ Hu) as Lu.
    unfold gsize in *. destruct (is_128bit (s_uuid s)); lia.
  - match goal with X : put b out _ = Some ?b1, Y : put ?b1 (out + 4) _ = Some _ |- _ =>
      rewrite (put_nth_low _ _ _ _ 1%nat Y), (put_nth_low _ _ _ _ 1%nat X) by lia end. reflexivity.
Qed.

Lemma collect_primary_services_ok c : forall ss k si eh e k',
  forallb (fun s => uuid_ok (s_uuid s)) ss = true ->
  collect_primary_services c ss k si eh e = Some k' -> pc_ok k -> pc_ok k'.
Proof.
  induction ss as [|s t IH]; intros k si eh e k' Hu H Hk; cbn [collect_primary_services] in H; [mon; exact Hk|].
  cbn [forallb] in Hu. apply andb_true_iff in Hu. destruct Hu as [Hs Ht].
  cbv zeta in H. brk; [|eapply IH; eauto].
  assert (Ho : 2 <= pc_out k).
  { unfold pc_ok in Hk. destruct (pc_first k); [lia|]. destruct Hk as (q & _ & Q). lia. }
  mon. match goal with X : read_primary_service_response _ _ _ _ _ _ _ = Some _ |- _ => apply rpsr_q in X; auto; destruct X as [Q1 Q2] end.
  eapply IH; eauto. unfold pc_ok in *. cbn [pc_first pc_buf pc_out pc_is128].
  destruct (pc_first k) eqn:Ef.
  - (* the first group fixes the entry size; output[ 1 ] is written *)
    match goal with X : put (pc_buf k) 1 _ = Some _ |- _ => pose proof (put_at_one _ _ _ _ X) as Z1 end. fold (gsize (is_128bit (s_uuid s))) in Z1.
    rewrite Q2, Z1. destruct Q1 as [->| ->]; [exists 0|exists 1]; split; auto; lia.
  - destruct Hk as (q & N1 & Q). mon. rewrite Q2, N1. destruct Q1 as [->| ->]; [exists q|exists (q + 1)]; split; auto; lia.
Qed.

Lemma read_by_group_type_fl c pdu b n b' m : wf c -> 23 <= n -> m <= len b' ->
  handle_read_by_group_type c pdu b n = Some (b', m) -> frame_list_ok (takeN m b') = true.
Proof.
  intros Hw Hn Hl. unfold handle_read_by_group_type. intros H.
  assert (Hu : forallb (fun s => uuid_ok (s_uuid s)) (services c) = true).
  { pose proof Hw as W. unfold wf, wf_b in W. repeat (apply andb_true_iff in W; destruct W as [W ?]).
    apply forallb_forall. intros s Hs.
    match goal with X : forallb (svc_static_ok c) (services c) = true |- _ => rewrite forallb_forall in X; specialize (X s Hs); rename X into Y end.
    unfold svc_static_ok in Y. repeat (apply andb_true_iff in Y; destruct Y as [Y ?]). exact Y. }
  okb; try err_fl.
  - match goal with X : check_size_and_handle_range _ _ _ _ _ _ = Some (Failed _) |- _ => apply check_range_failed_fl in X; [exact X|lia] end.
  - match goal with X : collect_primary_services _ _ _ _ _ _ = Some ?k |- _ => rename k into kk; rename X into Ec end.
    pose proof (collect_primary_services_inv _ _ _ _ _ _ _ Ec) as (I1 & I2 & I3); [cbn [pc_out]; lia|cbn [pc_out]; lia|].
    pose proof (collect_primary_services_ok _ _ _ _ _ _ _ Hu Ec) as Ok. unfold pc_ok at 1 in Ok. cbn [pc_first pc_out] in Ok. specialize (Ok eq_refl).
    cbn [pc_buf] in I3. match goal with X : put b 0 [17] = Some _ |- _ => rewrite (put_zero _ _ _ _ X) in I3 end.
    match goal with X : (pc_out kk =? 2) = false |- _ => apply N.eqb_neq in X; rename X into Ne end.
    unfold pc_ok in Ok. destruct (pc_first kk); [congruence|]. destruct Ok as (q & N1 & Q).
    fl_two I3 N1.
    replace ((gsize (pc_is128 kk) =? 6) || (gsize (pc_is128 kk) =? 20)) with true by (unfold gsize; destruct (pc_is128 kk); reflexivity).
    cbn [andb]. rewrite Q. replace (2 + q * gsize (pc_is128 kk) - 2) with (q * gsize (pc_is128 kk)) by lia.
    apply whole_entries_mul; [|unfold gsize; destruct (pc_is128 kk); lia].
    destruct (N.eq_dec q 0) as [->|]; [lia|lia].
Qed.

(* ------------------------------------------------------------------ l2cap_input *)
Theorem att_input_frame_list c st cid pdu n st' rs k :
  wf c -> get_conn st cid = Some k -> N.min n (negotiated_mtu c k) <= 256 ->
  att_input c st cid pdu n = Some (st', rs) -> frame_list_ok rs = true.
Proof.
  intros Hw Hk Hs. unfold att_input. rewrite Hk. cbv zeta.
  set (os := N.min n (negotiated_mtu c k)) in *.
  destruct (len pdu =? 0); [discriminate|].
  destruct (os <? default_att_mtu) eqn:Eo; [discriminate|]. apply N.ltb_ge in Eo. unfold default_att_mtu in Eo.
  destruct (rd pdu 0) as [op|] eqn:Hop; [|discriminate].
  set (b := repeat fill_byte (N.to_nat n)).
  intros H.
  match type of H with match ?x with _ => _ end = _ => destruct x as [[s1 [b1 m]]|] eqn:EH; [|discriminate H] end.
  destruct (m <=? len b1) eqn:El; [|discriminate]. apply N.leb_le in El. mon.
  destruct (op =? 1); [mon; reflexivity|].
  destruct (op =? 2) eqn:E2; [eapply exchange_mtu_fl; eauto|].
  destruct (op =? 4) eqn:E4; [mon; eapply find_information_fl; eauto|].
  destruct (op =? 6) eqn:E6; [mon; eapply find_by_type_value_fl; eauto|].
  destruct (op =? 8) eqn:E8; [eapply read_by_type_fl; eauto; lia|].
  destruct (op =? 10) eqn:E10.
  { apply N.eqb_eq in E10. subst op. eapply fl_good_plain; [eapply read_good; eauto|lia|auto]. }
  destruct (op =? 12) eqn:E12.
  { apply N.eqb_eq in E12. subst op. eapply fl_good_plain; [eapply read_blob_good; eauto|lia|auto]. }
  destruct (op =? 16) eqn:E16; [mon; eapply read_by_group_type_fl; eauto|].
  destruct (op =? 14) eqn:E14.
  { apply N.eqb_eq in E14. subst op. eapply fl_good_plain; [eapply read_multiple_good; eauto|lia|auto]. }
  destruct (op =? 18) eqn:E18; [eapply write_request_fl; eauto|].
  destruct (op =? 82) eqn:E82; [unfold handle_write_command in EH; mon; reflexivity|].
  destruct (op =? 22) eqn:E22; [eapply prepare_write_fl; eauto|].
  destruct (op =? 24) eqn:E24; [eapply execute_write_fl; eauto|].
  destruct (op =? 30) eqn:E30.
  { unfold handle_confirmation in EH. okb; [err_fl|reflexivity]. }
  mon. err_fl.
Qed.
