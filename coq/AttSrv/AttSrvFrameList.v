(* C01 (c'): list shaped responses are opcode, [entry length,] a positive whole number of entries of
   equal size; fixed size responses have their size - for every response of l2cap_input as long as
   min( out_size, negotiated MTU ) <= 256 (above, the 8 bit size counters of Read By Type / Find By Type
   Value truncate: C01_framing_large_mtu_refuted). Needs only well formed service uuids (from wf). *)
From Coq Require Import Lia ZifyBool.
From BT Require Import Base.ListX AttDb.AttDbModel NQueue.NQueueModel
  AttSrv.AttSrvModel AttSrv.AttSrvSpecC01 AttSrv.AttSrvProofsC01.
Local Open Scope N_scope.

Ltac okb :=
  repeat match goal with
         | H : (if ?x then _ else _) = Some _ |- _ => destruct x eqn:?
         | H : match ?x with Success => _ | Err _ => _ | ValueEqual => _ end = Some _ |- _ => destruct x
         | H : match ?x with Failed _ => _ | Passed _ => _ end = Some _ |- _ => destruct x eqn:?
         | H : match ?x with Some _ => _ | None => _ end = Some _ |- _ => let E := fresh "E" in destruct x eqn:E
         | _ => progress mon
         end.

(* ------------------------------------------------------------------ reading a response off the buffer *)
Lemma takeN_two m (b : list N) : 2 <= m -> m <= len b ->
  exists t, takeN m b = nth 0 b 0 :: nth 1 b 0 :: t.
Proof.
  intros H1 H2. unfold takeN. destruct b as [|x [|y t]]; unfold len in H2; cbn [length] in H2; try lia.
  destruct (N.to_nat m) as [|[|k]] eqn:E; try lia. cbn [firstn nth]. eexists. reflexivity.
Qed.

Lemma len_takeN_le m (b : list N) : m <= len b -> len (takeN m b) = m.
Proof. intros H. rewrite len_takeN. lia. Qed.

Lemma whole_entries_mul q entry : 1 <= q -> 1 <= entry -> whole_entries (q * entry) entry = true.
Proof.
  intros Hq He. unfold whole_entries. rewrite N.mod_mul by lia.
  replace (1 <=? entry) with true by (symmetry; apply N.leb_le; lia).
  replace (1 <=? q * entry) with true by (symmetry; apply N.leb_le; nia). reflexivity.
Qed.

(* an error response is never judged by frame_list_ok *)
Lemma fl_err op r m b : is_err op r -> r = (b, m) -> frame_list_ok (takeN m b) = true.
Proof. intros [E1 (x & y & z & E2)] ->. cbn [fst snd] in *. subst m. rewrite E2. reflexivity. Qed.

(* the shape of an error response produced directly *)
Lemma error_fl op code h b n b' m : 5 <= n -> error_response op code h b n = Some (b', m) -> frame_list_ok (takeN m b') = true.
Proof.
  intros Hn H. destruct (error_frame_exact op code h b n b' m Hn H) as [_ E]. rewrite E. reflexivity.
Qed.

Lemma fl_head m (b' : list N) x : 1 <= m -> m <= len b' -> nth 0 b' 0 = x ->
  exists t, takeN m b' = x :: t /\ len (x :: t) = m.
Proof.
  intros H1 H2 Hx. destruct (takeN_hd m b') as [t Ht]; [lia|lia|]. exists t. rewrite <- Hx, <- Ht. split; [reflexivity|apply len_takeN_le; lia].
Qed.

(* responses judged by their first byte only *)
Lemma fl_good_plain op os b' m : good op os (b', m) -> m <= len b' -> op = 10 \/ op = 12 \/ op = 14 ->
  frame_list_ok (takeN m b') = true.
Proof.
  intros [_ [[G1 G2]|G]] Hl Hop; [|eapply fl_err; eauto]. cbn [fst snd] in *.
  destruct (fl_head m b' _ G1 Hl G2) as [t [-> _]]. destruct Hop as [->|[->|->]]; reflexivity.
Qed.

Ltac err_fl := match goal with X : error_response _ _ _ _ _ = Some _ |- _ => eapply error_fl; [|exact X]; lia end.

Lemma check_range_failed_fl c pdu b n sa sb r : 5 <= n ->
  check_size_and_handle_range c pdu b n sa sb = Some (Failed r) -> frame_list_ok (takeN (snd r) (fst r)) = true.
Proof. intros Hn. unfold check_size_and_handle_range. intros H. okb; destruct r; cbn [fst snd]; err_fl. Qed.

Lemma check_handle_failed_fl c pdu b n r : 5 <= n ->
  check_handle c pdu b n = Some (Failed r) -> frame_list_ok (takeN (snd r) (fst r)) = true.
Proof. intros Hn. unfold check_handle. intros H. okb; destruct r; cbn [fst snd]; err_fl. Qed.

(* ------------------------------------------------------------------ fixed size responses *)
Lemma exchange_mtu_fl c st cid pdu b n st' b' m : 23 <= n -> m <= len b' ->
  handle_exchange_mtu c st cid pdu b n = Some (st', (b', m)) -> frame_list_ok (takeN m b') = true.
Proof.
  intros Hn Hl. unfold handle_exchange_mtu. intros H. okb; try err_fl.
  match goal with X : put _ 0 _ = Some _ |- _ => apply put_zero in X; rename X into Z end.
  destruct (fl_head 3 b' 3) as [t [-> L]]; [lia|lia|exact Z|]. cbn [frame_list_ok]. rewrite L. reflexivity.
Qed.

Lemma write_request_fl c st cid pdu b n st' b' m : 23 <= n -> m <= len b' ->
  handle_write_request c st cid pdu b n = Some (st', (b', m)) -> frame_list_ok (takeN m b') = true.
Proof.
  intros Hn Hl. unfold handle_write_request. intros H. okb; try err_fl.
  - match goal with X : check_handle _ _ _ _ = Some (Failed _) |- _ => apply check_handle_failed_fl in X; [exact X|lia] end.
  - match goal with X : put _ 0 _ = Some _ |- _ => apply put_zero in X; rename X into Z end.
    destruct (fl_head 1 b' 19) as [t [-> L]]; [lia|lia|exact Z|]. cbn [frame_list_ok]. rewrite L. reflexivity.
Qed.

Lemma prepare_write_fl c st cid pdu b n st' b' m : 23 <= n -> m <= len b' ->
  handle_prepare_write c st cid pdu b n = Some (st', (b', m)) -> frame_list_ok (takeN m b') = true.
Proof.
  intros Hn Hl. unfold handle_prepare_write. intros H. okb; try err_fl.
  - match goal with X : check_handle _ _ _ _ = Some (Failed _) |- _ => apply check_handle_failed_fl in X; [exact X|lia] end.
  - match goal with X : (len pdu <? 5) = false |- _ => apply N.ltb_ge in X end.
    match goal with X : put _ 1 _ = Some _, Y : put _ 0 _ = Some _ |- _ =>
      pose proof (put_nth_low _ _ _ _ 0%nat X ltac:(lia)) as Z; rewrite (put_zero _ _ _ _ Y) in Z end.
    destruct (fl_head (N.min n (len pdu)) b' 23) as [t [-> L]]; [lia|lia|exact Z|]. cbn [frame_list_ok]. rewrite L.
    apply N.leb_le. lia.
Qed.

Lemma execute_write_fl c st cid pdu b n st' b' m : 23 <= n -> m <= len b' ->
  handle_execute_write c st cid pdu b n = Some (st', (b', m)) -> frame_list_ok (takeN m b') = true.
Proof.
  intros Hn Hl. unfold handle_execute_write. intros H. okb; try err_fl.
  all: match goal with X : put _ 0 _ = Some _ |- _ => apply put_zero in X; rename X into Z end;
    destruct (fl_head 1 b' 25) as [t [-> L]]; [lia|lia|exact Z|]; cbn [frame_list_ok]; rewrite L; reflexivity.
Qed.
