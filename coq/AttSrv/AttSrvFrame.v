(* Frame lemma of the ATT server model, used by C08, C09, C10, C11: whatever l2cap_input (att_input),
   l2cap_output (att_output) or any other operation does, the per connection data changes only

     - on the connection the request arrived on (all other connections are untouched), and only by
     - Exchange MTU (client_mtu := a value >= 23),
     - the CCCD attribute (cccd := cccd_set ...),
     - a notification queue operation (nq := step ...),

   and from it: an invariant of connections that these three changes, a security change and a fresh
   connection preserve holds in every reachable state ([inv_reachable]). *)
From Coq Require Import Lia ZifyBool.
From BT Require Import Base.ListX AttDb.AttDbModel NQueue.NQueueModel AttSrv.AttSrvModel.
Local Open Scope N_scope.

Ltac inv H := inversion H; subst; clear H.

Lemma f_some_inj (A : Type) (a b : A) : Some a = Some b -> a = b.
Proof. intros H. inversion H. reflexivity. Qed.
Lemma f_pair_inj (A B : Type) (a c : A) (b d : B) : (a, b) = (c, d) -> a = c /\ b = d.
Proof. intros H. inversion H. split; reflexivity. Qed.
Lemma f_failed_inj (A : Type) (a b : resp) : @Failed A a = Failed b -> a = b.
Proof. intros H. inversion H. reflexivity. Qed.
Lemma f_passed_inj (A : Type) (a b : A) : Passed a = Passed b -> a = b.
Proof. intros H. inversion H. reflexivity. Qed.

(* break the option monad / conditionals of a hypothesis "... = Some _" *)
Ltac fmon :=
  repeat match goal with
         | H : Some _ = Some _ |- _ => apply f_some_inj in H
         | H : None = Some _ |- _ => discriminate H
         | H : Passed _ = Failed _ |- _ => discriminate H
         | H : Failed _ = Passed _ |- _ => discriminate H
         | H : Failed _ = Failed _ |- _ => apply f_failed_inj in H
         | H : Passed _ = Passed _ |- _ => apply f_passed_inj in H
         | H : (_, _) = (_, _) |- _ => apply f_pair_inj in H; destruct H
         | H : _ = ?v |- _ => is_var v; subst v
         | H : ?v = _ |- _ => is_var v; subst v
         | H : match ?x with Some _ => _ | None => None end = Some _ |- _ =>
             let E := fresh "E" in destruct x eqn:E; [|discriminate H]
         | H : (let '(_, _) := ?x in _) = Some _ |- _ => destruct x
         end.
Ltac fbrk := match goal with H : (if ?x then _ else _) = Some _ |- _ => destruct x eqn:? end.

(* ------------------------------------------------------------------ upd *)
Lemma upd_upd (A : Type) (l : list A) i a b : upd (upd l i a) i b = upd l i b.
Proof. revert i. induction l as [|x t IH]; intros [|i]; simpl; auto. rewrite IH. reflexivity. Qed.

Lemma nth_error_upd_eq (A : Type) (l : list A) i a : (i < length l)%nat -> nth_error (upd l i a) i = Some a.
Proof. revert i. induction l as [|x t IH]; intros [|i] H; simpl in *; try lia; auto. apply IH. lia. Qed.

Lemma nth_error_upd_neq (A : Type) (l : list A) i j a : i <> j -> nth_error (upd l i a) j = nth_error l j.
Proof. revert i j. induction l as [|x t IH]; intros [|i] [|j] H; simpl; auto; try congruence. Qed.

Lemma upd_nth_error_same (A : Type) (l : list A) i a : nth_error l i = Some a -> upd l i a = l.
Proof. revert i. induction l as [|x t IH]; intros [|i] H; simpl in *; try discriminate; auto.
  - inv H. reflexivity.
  - rewrite IH; auto.
Qed.

Lemma nth_error_lt (A : Type) (l : list A) i a : nth_error l i = Some a -> (i < length l)%nat.
Proof. intros H. apply nth_error_Some. congruence. Qed.

(* ------------------------------------------------------------------ changes of one connection *)
(* [mt] : may the client MTU change (only an Exchange MTU Request does that);
   [qt] : may the notification queue change (only a Handle Value Confirmation and l2cap_output do that) *)
Inductive conn_change (mt qt : bool) : conn -> conn -> Prop :=
| cc_refl k : conn_change mt qt k k
| cc_mtu k m k2 :
    mt = true -> default_att_mtu <= m ->
    conn_change mt qt (mkConn m (cccd k) (encrypted k) (pairing k) (nq k)) k2 -> conn_change mt qt k k2
| cc_cccd k pos v k2 :
    conn_change mt qt (mkConn (client_mtu k) (cccd_set (cccd k) pos v) (encrypted k) (pairing k) (nq k)) k2 -> conn_change mt qt k k2
| cc_nq k o k2 :
    qt = true -> conn_change mt qt (fst (nq_step k o)) k2 -> conn_change mt qt k k2.

Lemma conn_change_trans mt qt a b d : conn_change mt qt a b -> conn_change mt qt b d -> conn_change mt qt a d.
Proof.
  induction 1; intros H2; auto.
  - eapply cc_mtu; eauto.
  - eapply cc_cccd; eauto.
  - eapply cc_nq; eauto.
Qed.

Lemma conn_change_weaken mt qt a b : conn_change mt qt a b -> conn_change true true a b.
Proof.
  induction 1; [constructor| | |].
  - eapply cc_mtu; eauto.
  - eapply cc_cccd; eauto.
  - eapply cc_nq; eauto.
Qed.

Lemma conn_change_mtu qt a b : conn_change false qt a b -> client_mtu b = client_mtu a.
Proof.
  induction 1; auto; try discriminate.
  - rewrite IHconn_change. unfold nq_step. destruct (NQueueModel.step (nq k) o). reflexivity.
Qed.

Lemma conn_change_nq mt a b : conn_change mt false a b -> nq b = nq a.
Proof. induction 1; auto; discriminate. Qed.

Definition frameb (mt qt : bool) (cid : nat) (st st' : srv_state) : Prop :=
  exists k k', get_conn st cid = Some k /\ conns st' = upd (conns st) cid k' /\ conn_change mt qt k k'.
Notation frame := (frameb true true).

Lemma frameb_weaken mt qt cid st st' : frameb mt qt cid st st' -> frame cid st st'.
Proof. intros (k & k' & G & E & C). exists k, k'. repeat split; auto. eapply conn_change_weaken; eauto. Qed.

Lemma conn_change_weaken_q mt a b : conn_change mt false a b -> forall qt, conn_change mt qt a b.
Proof. induction 1; intros qt0; [constructor| | |discriminate].
  - eapply cc_mtu; eauto.
  - eapply cc_cccd; eauto.
Qed.

Lemma frameb_weaken_q mt qt cid st st' : frameb mt false cid st st' -> frameb mt qt cid st st'.
Proof. intros (k & k' & G & E & C). exists k, k'. repeat split; auto. apply conn_change_weaken_q; auto. Qed.

Lemma frame_same mt qt cid st st' k : get_conn st cid = Some k -> conns st' = conns st -> frameb mt qt cid st st'.
Proof.
  intros G E. exists k, k. split; auto. split; [|constructor].
  rewrite E. symmetry. apply upd_nth_error_same. exact G.
Qed.

Lemma frame_trans mt qt cid st st1 st2 : frameb mt qt cid st st1 -> frameb mt qt cid st1 st2 -> frameb mt qt cid st st2.
Proof.
  intros (k & k1 & G & E & C) (k1' & k2 & G1 & E1 & C1).
  unfold get_conn in *. rewrite E in G1. rewrite nth_error_upd_eq in G1 by (eapply nth_error_lt; eauto).
  inv G1. exists k, k2. split; auto. split.
  - rewrite E1, E, upd_upd. reflexivity.
  - eapply conn_change_trans; eauto.
Qed.

Lemma frame_get mt qt cid st st' : frameb mt qt cid st st' -> exists k, get_conn st cid = Some k.
Proof. intros (k & _ & G & _). eauto. Qed.

Lemma frame_other mt qt cid st st' j : frameb mt qt cid st st' -> j <> cid -> get_conn st' j = get_conn st j.
Proof.
  intros (k & k' & G & E & _) N. unfold get_conn. rewrite E. apply nth_error_upd_neq. auto.
Qed.

Lemma frame_this mt qt cid st st' : frameb mt qt cid st st' ->
  exists k k', get_conn st cid = Some k /\ get_conn st' cid = Some k' /\ conn_change mt qt k k'.
Proof.
  intros (k & k' & G & E & C). exists k, k'. repeat split; auto.
  unfold get_conn in *. rewrite E. apply nth_error_upd_eq. eapply nth_error_lt; eauto.
Qed.

(* ------------------------------------------------------------------ attribute access *)
Lemma value_read_conns c st sec s ch gci off maxlen st' r d :
  value_read c st sec s ch gci off maxlen = (st', r, d) -> conns st' = conns st.
Proof.
  unfold value_read. destruct (security_check _ _ _); try (intros H; inv H; reflexivity).
  destruct (c_value ch).
  - destruct (c_no_read ch); [intros H; inv H; reflexivity|]. destruct (mem_read _ _ _). intros H; inv H. reflexivity.
  - destruct (c_no_read ch); [intros H; inv H; reflexivity|]. destruct (mem_read _ _ _). intros H; inv H. reflexivity.
  - destruct (mem_read _ _ _). intros H; inv H. reflexivity.
  - destruct (negb rd); [intros H; inv H; reflexivity|].
    destruct (negb blob && negb (off =? 0)); [intros H; inv H; reflexivity|].
    destruct (mem_read _ _ _). intros H; inv H. reflexivity.
Qed.

Lemma access_read_conns c st cid a index off maxlen st' r d :
  access_read c st cid a index off maxlen = Some (st', r, d) -> conns st' = conns st.
Proof.
  unfold access_read. destruct (get_conn st cid) as [k|]; [|discriminate].
  destruct a as [s|u|s ch|s ch gci cci|s ch cci|nm|u v].
  - destruct (mem_read _ _ _). intros H; inv H. reflexivity.
  - destruct (mem_read _ _ _). intros H; inv H. reflexivity.
  - destruct (char_decl_value c ch index); [|discriminate]. destruct (mem_read _ _ _). intros H; inv H. reflexivity.
  - intros H; inv H. eapply value_read_conns; eauto.
  - destruct (security_check _ _ _); try (intros H; inv H; reflexivity).
    destruct (mem_read _ _ _). intros H; inv H. reflexivity.
  - destruct (mem_read _ _ _). intros H; inv H. reflexivity.
  - destruct (mem_read _ _ _). intros H; inv H. reflexivity.
Qed.

Lemma value_write_conns c st sec s ch gci off data st' r :
  value_write c st sec s ch gci off data = (st', r) -> conns st' = conns st.
Proof.
  unfold value_write. destruct (security_check _ _ _); try (intros H; inv H; reflexivity).
  destruct (c_value ch).
  - destruct (is_const || c_no_write ch); [intros H; inv H; reflexivity|].
    destruct (mem_write _ _ _). intros H; inv H. reflexivity.
  - repeat match goal with |- context [if ?x then _ else _] => destruct x end; intros H; inv H; reflexivity.
  - intros H; inv H; reflexivity.
  - destruct (negb wr); [intros H; inv H; reflexivity|].
    destruct (negb blob && negb (off =? 0)); [intros H; inv H; reflexivity|].
    destruct (mem_write _ _ _). intros H; inv H. reflexivity.
Qed.

Lemma cccd_write_frame mt qt c st cid k cci off data st' r :
  get_conn st cid = Some k -> cccd_write c st cid k cci off data = (st', r) -> frameb mt qt cid st st'.
Proof.
  intros G. unfold cccd_write.
  destruct (2 <? off); [intros H; inv H; eapply frame_same; eauto|].
  destruct (2 <? len data + off); [intros H; inv H; eapply frame_same; eauto|].
  destruct (off =? 0); [|intros H; inv H; eapply frame_same; eauto].
  intros H; inv H. exists k. eexists. split; [exact G|]. split; [reflexivity|].
  eapply cc_cccd. constructor.
Qed.

Lemma access_write_frame mt qt c st cid a off data st' r :
  access_write c st cid a off data = Some (st', r) -> frameb mt qt cid st st'.
Proof.
  unfold access_write. destruct (get_conn st cid) as [k|] eqn:G; [|discriminate].
  destruct a as [s|u|s ch|s ch gci cci|s ch cci|nm|u v]; intros H.
  1-3,7: inv H; eapply frame_same; eauto.
  - inv H. eapply frame_same; eauto. eapply value_write_conns; eauto.
  - destruct (security_check _ _ _); try (inv H; eapply frame_same; eauto; fail).
    inv H. eapply cccd_write_frame; eauto.
  - inv H. eapply frame_same; eauto.
Qed.

(* ------------------------------------------------------------------ the handlers *)
Lemma exchange_mtu_frame c st cid pdu b n st' r k0 :
  get_conn st cid = Some k0 ->
  handle_exchange_mtu c st cid pdu b n = Some (st', r) -> frameb true false cid st st'.
Proof.
  intros G. unfold handle_exchange_mtu. intros H. fmon. fbrk; fmon; [eapply frame_same; eauto|].
  fbrk; fmon; [eapply frame_same; eauto|].
  eexists. eexists. split; [eassumption|]. split; [reflexivity|].
  eapply cc_mtu; [reflexivity| |constructor]. apply N.ltb_ge. assumption.
Qed.

(* destruct the acc_res / checked scrutinee of the hypothesis *)
Ltac fres := match goal with
  | H : match ?x with Success => _ | Err _ => _ | ValueEqual => _ end = Some _ |- _ => destruct x
  end.
Ltac fchk := match goal with
  | H : match ?x with Failed _ => _ | Passed _ => _ end = Some _ |- _ => let f := fresh "f" in let h := fresh "h" in let i := fresh "i" in destruct x as [f|[h i]]
  end.
Ltac fread := match goal with E : access_read _ _ _ _ _ _ _ = Some _ |- _ => apply access_read_conns in E end.
Ltac fstep := first [fres | fchk | fbrk]; fmon.

Lemma read_common_conns c st cid pdu b n rsp h index off st' r :
  handle_read_common c st cid pdu b n rsp h index off = Some (st', r) -> conns st' = conns st.
Proof. unfold handle_read_common. intros H. fmon. fread. fres; fmon; auto. Qed.

Lemma read_conns c st cid pdu b n st' r : handle_read c st cid pdu b n = Some (st', r) -> conns st' = conns st.
Proof. unfold handle_read. intros H. fmon. fchk; fmon; auto. eapply read_common_conns; eauto. Qed.

Lemma read_blob_conns c st cid pdu b n st' r : handle_read_blob c st cid pdu b n = Some (st', r) -> conns st' = conns st.
Proof. unfold handle_read_blob. intros H. fmon. fchk; fmon; auto. eapply read_common_conns; eauto. Qed.

Lemma collect_attribute_conns c st cid k e index a st' k' :
  collect_attribute c st cid k e index a = Some (st', k') -> conns st' = conns st.
Proof.
  unfold collect_attribute. intros H. fbrk; fmon; auto. fread.
  fres; fmon; auto. fbrk; fmon. fbrk; fmon; auto.
Qed.

Lemma all_attributes_conns fuel : forall c st cid f k e index last eh st' k',
  all_attributes fuel c st cid f k e index last eh = Some (st', k') -> conns st' = conns st.
Proof.
  induction fuel as [|fuel IH]; intros c st cid f k e index last eh st' k' H; simpl in H; fmon; auto.
  fbrk; fmon; auto. fbrk.
  - fmon. match goal with E : collect_attribute _ _ _ _ _ _ _ = Some _ |- _ => apply collect_attribute_conns in E end.
    apply IH in H. congruence.
  - apply IH in H. auto.
Qed.

Lemma read_by_type_conns c st cid pdu b n st' r : handle_read_by_type c st cid pdu b n = Some (st', r) -> conns st' = conns st.
Proof.
  unfold handle_read_by_type. intros H. fmon. fchk; fmon; auto.
  match goal with E : all_attributes _ _ _ _ _ _ _ _ _ _ = Some _ |- _ => apply all_attributes_conns in E end.
  fbrk; fmon; auto.
Qed.

Lemma read_multiple_loop_conns c cid opcode b0 n : forall m hs st b p st' r,
  (length hs <= m)%nat ->
  read_multiple_loop c st cid opcode hs b0 b p n = Some (st', r) -> conns st' = conns st.
Proof.
  induction m as [|m IH]; intros hs st b p st' r L H.
  - destruct hs; [|simpl in L; lia]. simpl in H. fmon. auto.
  - destruct hs as [|lo [|hi t]]; simpl in H; fmon; auto.
    fbrk; fmon; auto. fbrk; fmon; auto. fread.
    fres; fmon; auto. fbrk; fmon. apply IH in H; [congruence|]. simpl in L. lia.
Qed.

Lemma read_multiple_conns c st cid pdu b n st' r : handle_read_multiple c st cid pdu b n = Some (st', r) -> conns st' = conns st.
Proof.
  unfold handle_read_multiple. intros H. fmon. fbrk; fmon; auto.
  eapply read_multiple_loop_conns in H; eauto.
Qed.

Ltac fwrite m q := match goal with E : access_write _ _ _ _ _ _ = Some _ |- _ => apply (access_write_frame m q) in E end.

Lemma write_request_frame mt qt c st cid pdu b n st' r k :
  get_conn st cid = Some k -> handle_write_request c st cid pdu b n = Some (st', r) -> frameb mt qt cid st st'.
Proof.
  intros G. unfold handle_write_request. intros H. fmon. fbrk; fmon; [eapply frame_same; eauto|].
  fchk; fmon; [eapply frame_same; eauto|]. fwrite mt qt. fres; fmon; auto.
Qed.

Lemma write_command_frame mt qt c st cid pdu b n st' r k :
  get_conn st cid = Some k -> handle_write_command c st cid pdu b n = Some (st', r) -> frameb mt qt cid st st'.
Proof.
  intros G. unfold handle_write_command. intros H. fmon.
  eapply write_request_frame; eauto.
Qed.

Lemma wq_allocate_conns s st cid elem st' : wq_allocate s st cid elem = Some st' -> conns st' = conns st.
Proof. unfold wq_allocate. intros H. fbrk; fmon. reflexivity. Qed.

Lemma wq_free_conns st cid : conns (wq_free st cid) = conns st.
Proof. unfold wq_free. destruct (wq_owner st); auto. destruct (Nat.eqb n cid); auto. Qed.

Lemma frame_conns_eq mt qt cid st s1 s2 : frameb mt qt cid st s1 -> conns s2 = conns s1 -> frameb mt qt cid st s2.
Proof. intros (k0 & k1 & G0 & E0 & C0) E. exists k0, k1. repeat split; auto. congruence. Qed.

Lemma prepare_write_frame mt qt c st cid pdu b n st' r k :
  get_conn st cid = Some k -> handle_prepare_write c st cid pdu b n = Some (st', r) -> frameb mt qt cid st st'.
Proof.
  intros G. unfold handle_prepare_write. intros H. fmon.
  destruct (wqueue c) as [qs|]; fmon; [|eapply frame_same; eauto].
  fbrk; fmon; [eapply frame_same; eauto|].
  fchk; fmon; [eapply frame_same; eauto|].
  match goal with E : access_check_write _ _ _ _ = Some _ |- _ => unfold access_check_write in E end.
  fwrite mt qt. fres; fmon; auto.
  match goal with H : match wq_allocate ?a ?b ?c ?d with Some _ => _ | None => _ end = Some _ |- _ =>
    destruct (wq_allocate a b c d) as [s2|] eqn:A end; fmon; auto.
  apply wq_allocate_conns in A. eapply frame_conns_eq; eauto.
Qed.

Lemma execute_writes_frame mt qt c cid : forall elems st st' f k,
  get_conn st cid = Some k -> execute_writes c st cid elems = Some (st', f) -> frameb mt qt cid st st'.
Proof.
  induction elems as [|e t IH]; intros st st' f k G H; simpl in H; fmon.
  - eapply frame_same; eauto.
  - fwrite mt qt. match goal with F : frameb mt qt cid st ?s1 |- _ =>
      destruct (frame_this _ _ _ _ _ F) as (k0 & k1 & _ & G1 & _);
      fres; fmon; auto; eapply frame_trans; [exact F|]; eapply IH; eauto end.
Qed.

Lemma execute_write_frame mt qt c st cid pdu b n st' r k :
  get_conn st cid = Some k -> handle_execute_write c st cid pdu b n = Some (st', r) -> frameb mt qt cid st st'.
Proof.
  intros G. unfold handle_execute_write. intros H. fmon.
  destruct (wqueue c) as [qs|]; fmon; [|eapply frame_same; eauto].
  fbrk; fmon; [eapply frame_same; eauto|].
  fbrk; fmon; [eapply frame_same; eauto|].
  match goal with E : (if ?x then execute_writes _ _ _ _ else _) = Some (?s1, _) |- _ =>
    assert (F : frameb mt qt cid st s1) by
      (destruct x; [eapply execute_writes_frame; eauto|fmon; eapply frame_same; eauto]);
    assert (F2 : frameb mt qt cid st (wq_free s1 cid)) by (eapply frame_conns_eq; [exact F|apply wq_free_conns])
  end.
  match goal with H : match ?fl with Some _ => _ | None => _ end = Some _ |- _ => destruct fl as [[h code]|] end; fmon; auto.
Qed.

Lemma confirmation_frame mt c st cid pdu b n st' r k0 :
  get_conn st cid = Some k0 -> handle_confirmation c st cid pdu b n = Some (st', r) -> frameb mt true cid st st'.
Proof.
  intros G. unfold handle_confirmation. intros H. fmon. fbrk; fmon; [eapply frame_same; eauto|].
  eexists. eexists. split; [eassumption|]. split; [reflexivity|]. eapply cc_nq; [reflexivity|]. constructor.
Qed.

(* ------------------------------------------------------------------ l2cap_input *)
(* only an Exchange MTU Request (opcode 2) may change the client MTU *)
Theorem att_input_frameb c st cid pdu n st' rs op :
  rd pdu 0 = Some op ->
  att_input c st cid pdu n = Some (st', rs) -> frameb (op =? 2) (op =? 30) cid st st'.
Proof.
  intros Hop. unfold att_input. destruct (get_conn st cid) as [k|] eqn:G; [|discriminate].
  destruct (len pdu =? 0); [discriminate|].
  destruct (N.min n (negotiated_mtu c k) <? default_att_mtu); [discriminate|].
  rewrite Hop.
  set (b := repeat fill_byte (N.to_nat n)). set (os := N.min n (negotiated_mtu c k)).
  intros H.
  match goal with H : match ?x with Some _ => _ | None => None end = Some _ |- _ => destruct x as [[s1 [b1 m]]|] eqn:EH; [|discriminate H] end.
  fbrk; fmon.
  destruct (op =? 1); [fmon; eapply frame_same; eauto|].
  destruct (op =? 2); [eapply frameb_weaken_q; eapply exchange_mtu_frame; eauto|].
  destruct (op =? 30) eqn:E30.
  { assert (op = 30) by (apply N.eqb_eq; exact E30). subst op. cbn in EH. eapply confirmation_frame; eauto. }
  repeat match goal with
         | H : (if ?x then _ else _) = Some _ |- _ => destruct x
         end; fmon; try (eapply frame_same; eauto; fail).
  - eapply frame_same; eauto. eapply read_by_type_conns; eauto.
  - eapply frame_same; eauto. eapply read_conns; eauto.
  - eapply frame_same; eauto. eapply read_blob_conns; eauto.
  - eapply frame_same; eauto. eapply read_multiple_conns; eauto.
  - eapply write_request_frame; eauto.
  - eapply write_command_frame; eauto.
  - eapply prepare_write_frame; eauto.
  - eapply execute_write_frame; eauto.
Qed.

Theorem att_input_frame c st cid pdu n st' rs :
  att_input c st cid pdu n = Some (st', rs) -> frame cid st st'.
Proof.
  intros H. destruct (rd pdu 0) as [op|] eqn:E.
  - eapply frameb_weaken. eapply att_input_frameb; eauto.
  - unfold att_input in H. destruct (get_conn st cid); [|discriminate].
    destruct (len pdu =? 0); [discriminate|]. destruct (_ <? _); [discriminate|]. rewrite E in H. discriminate.
Qed.

(* ------------------------------------------------------------------ l2cap_output *)
Lemma set_conn_frame mt qt st cid k k' : get_conn st cid = Some k -> conn_change mt qt k k' -> frameb mt qt cid st (set_conn st cid k').
Proof. intros G C. exists k, k'. repeat split; auto. Qed.

Lemma unsent_indication_frame mt st cid kd : (exists k, get_conn st cid = Some k) -> frameb mt true cid st (unsent_indication st cid kd).
Proof.
  intros (k & G). unfold unsent_indication. destruct kd.
  - eapply frame_same; eauto.
  - rewrite G. apply set_conn_frame with (k := k); auto. eapply cc_nq; [reflexivity|]. constructor.
Qed.

(* l2cap_output never changes the client MTU *)
Theorem att_output_frameb c st cid n st' rs :
  att_output c st cid n = Some (st', rs) -> frameb false true cid st st'.
Proof.
  unfold att_output. destruct (get_conn st cid) as [k|] eqn:G; [|discriminate].
  destruct (nq_step k Dequeue) as [k1 r] eqn:D.
  assert (F1 : frameb false true cid st (set_conn st cid k1)).
  { apply set_conn_frame with (k := k); auto. eapply cc_nq with (o := Dequeue); [reflexivity|]. rewrite D. constructor. }
  assert (G1 : get_conn (set_conn st cid k1) cid = Some k1).
  { unfold get_conn, set_conn. cbn [conns]. apply nth_error_upd_eq. eapply nth_error_lt; eauto. }
  destruct r as [x|[[kd i]|]|]; try (intros H; inv H; exact F1).
  destruct (find_notification_data_by_index c (N.of_nat i)) as [ai ci].
  destruct (negb _ && _).
  - intros H. fmon.
    match goal with E0 : access_read _ _ _ _ _ _ _ = Some (?s2, _, _) |- _ =>
      pose proof (access_read_conns _ _ _ _ _ _ _ _ _ _ E0) as C2;
      assert (F2 : frameb false true cid st s2) by (eapply frame_conns_eq; [exact F1|exact C2]);
      assert (G2 : get_conn s2 cid = Some k1) by (unfold get_conn in *; rewrite C2; exact G1)
    end.
    fres; fmon; auto; (eapply frame_trans; [exact F2|]; apply unsent_indication_frame; eauto).
  - intros H. inv H. eapply frame_trans; [exact F1|]. apply unsent_indication_frame. eauto.
Qed.

Theorem att_output_frame c st cid n st' rs :
  att_output c st cid n = Some (st', rs) -> frame cid st st'.
Proof. intros H. eapply frameb_weaken. eapply att_output_frameb; eauto. Qed.

(* ------------------------------------------------------------------ invariants of reachable states *)
Fixpoint srv_after (c : cfg) (st : srv_state) (ops : list srv_op) : srv_state :=
  match ops with
  | [] => st
  | o :: t => srv_after c (fst (srv_step c st o)) t
  end.

Lemma srv_after_app c ops1 : forall st ops2, srv_after c st (ops1 ++ ops2) = srv_after c (srv_after c st ops1) ops2.
Proof. induction ops1; intros; simpl; auto. Qed.

Lemma queue_all_spec o : forall l l' rs, queue_all l o = (l', rs) ->
  length l' = length l /\ forall j k, nth_error l j = Some k -> nth_error l' j = Some (fst (nq_step k o)).
Proof.
  induction l as [|k t IH]; intros l' rs H; simpl in H.
  - inv H. split; auto. intros [|j] k H; discriminate.
  - destruct (nq_step k o) as [k' r] eqn:E. destruct (queue_all t o) as [t' rs'] eqn:Q. inv H.
    destruct (IH _ _ eq_refl) as (L & N). split; [simpl; lia|].
    intros [|j] k0 H; simpl in *.
    + inv H. rewrite E. reflexivity.
    + auto.
Qed.

Section Inv.
  Variable c : cfg.
  Variable I : conn -> Prop.
  Hypothesis I_init : I (init_conn c).
  Hypothesis I_mtu : forall k m, I k -> default_att_mtu <= m -> I (mkConn m (cccd k) (encrypted k) (pairing k) (nq k)).
  Hypothesis I_cccd : forall k pos v, I k -> I (mkConn (client_mtu k) (cccd_set (cccd k) pos v) (encrypted k) (pairing k) (nq k)).
  Hypothesis I_nq : forall k o, I k -> I (fst (nq_step k o)).
  Hypothesis I_sec : forall k e p, I k -> I (mkConn (client_mtu k) (cccd k) e p (nq k)).

  Definition inv_st (st : srv_state) : Prop := forall j k, get_conn st j = Some k -> I k.

  Lemma conn_change_inv k k' : conn_change true true k k' -> I k -> I k'.
  Proof. induction 1; intros HI; auto. Qed.

  Lemma frame_inv cid st st' : frame cid st st' -> inv_st st -> inv_st st'.
  Proof.
    intros F H j k G. destruct (Nat.eq_dec j cid) as [->|N].
    - destruct (frame_this _ _ _ _ _ F) as (k0 & k1 & G0 & G1 & C). rewrite G1 in G. inv G.
      eapply conn_change_inv; eauto.
    - rewrite (frame_other _ _ _ _ _ _ F N) in G. eauto.
  Qed.

  Lemma set_conn_inv st cid k : inv_st st -> I k -> inv_st (set_conn st cid k).
  Proof.
    intros H Hk j k0 G. unfold get_conn, set_conn in G. cbn [conns] in G.
    destruct (Nat.eq_dec cid j) as [->|N].
    - destruct (Nat.lt_ge_cases j (length (conns st))) as [L|L].
      + rewrite nth_error_upd_eq in G by auto. inv G. auto.
      + rewrite upd_out in G by auto. eapply H; eauto.
    - rewrite nth_error_upd_neq in G by auto. eapply H; eauto.
  Qed.

  Lemma srv_step_inv st o : inv_st st -> inv_st (fst (srv_step c st o)).
  Proof.
    intros H. destruct o as [cid pdu n|cid n|cid e p|cid|bu kd gci|gci|gci data]; cbn [srv_step].
    - destruct (att_input c st cid pdu n) as [[st' r]|] eqn:E; cbn [fst]; auto.
      eapply frame_inv; eauto. eapply att_input_frame; eauto.
    - destruct (att_output c st cid n) as [[st' r]|] eqn:E; cbn [fst]; auto.
      eapply frame_inv; eauto. eapply att_output_frame; eauto.
    - destruct (get_conn st cid) as [k|] eqn:G; cbn [fst]; auto.
      apply set_conn_inv; auto. apply I_sec. eauto.
    - cbn [fst]. apply set_conn_inv; auto.
      intros j k G. apply (H j k). unfold get_conn in *. rewrite wq_free_conns in G. exact G.
    - assert (R : forall d, inv_st (fst (request st kd d))).
      { intros d. unfold request. destruct (queue_all (conns st) _) as [l rs] eqn:Q. cbn [fst].
        destruct (queue_all_spec _ _ _ _ Q) as (L & N).
        intros j k G. unfold get_conn in G. cbn [conns] in G.
        destruct (nth_error (conns st) j) as [k0|] eqn:G0.
        - rewrite (N _ _ G0) in G. inv G. apply I_nq. eapply H; eauto.
        - apply nth_error_None in G0. assert (nth_error l j = None) by (apply nth_error_None; lia). congruence. }
      destruct bu.
      + destruct (by_uuid_available c kd gci); cbn [fst]; auto.
        unfold notify_by_uuid. destruct (nth_error (all_chars c) gci) as [x|]; cbn [fst]; auto.
        destruct (find_notification_by_uuid c (c_uuid (snd x))) as [d|]; cbn [fst]; auto.
        specialize (R d). destruct (request st kd d). exact R.
      + destruct (by_value_available c gci); cbn [fst]; auto.
        unfold notify_by_value. destruct (find_notification_data c gci) as [d|]; cbn [fst]; auto.
        specialize (R d). destruct (request st kd d). exact R.
    - destruct (has_var c gci) as [[w h]|]; cbn [fst]; auto.
    - destruct (has_var c gci) as [[[|] h]|]; cbn [fst]; auto.
  Qed.

  Lemma inv_init : inv_st (srv_init c).
  Proof.
    intros j k G. unfold get_conn, srv_init in G. cbn [conns] in G.
    apply nth_error_In in G. apply repeat_spec in G. subst. exact I_init.
  Qed.

  Theorem inv_after st ops : inv_st st -> inv_st (srv_after c st ops).
  Proof. revert st. induction ops as [|o t IH]; intros st H; simpl; auto. apply IH. apply srv_step_inv. auto. Qed.

  Theorem inv_reachable ops : inv_st (srv_after c (srv_init c) ops).
  Proof. apply inv_after. apply inv_init. Qed.
End Inv.
