(* Observer lemmas for the trace level theorem of C09: how one observed step changes what the observer knows
   about link encryption and CCCD bits of every connection, its table and its callback expectation. *)
From Coq Require Import Lia ZifyBool.
From BT Require Import Base.ListX AttDb.AttDbModel NQueue.NQueueModel AttSrv.AttSrvModel AttSrv.AttSrvNotifSpec AttSrv.AttSrvNotifObs.
Local Open Scope N_scope.

Definition part9 (k : oconn) : bool * list (option N) := (o_enc k, o_cccd k).

(* table, callback expectation and the C09 part of every connection are kept *)
Definition keeps9 (m m' : obs) : Prop :=
  ob_tab m' = ob_tab m /\ ob_cb m' = ob_cb m /\ length (ob_conns m') = length (ob_conns m)
  /\ forall i, part9 (oc_at m' i) = part9 (oc_at m i).

Lemma k9_refl m : keeps9 m m.
Proof. unfold keeps9. auto. Qed.
Lemma k9_trans a b d : keeps9 a b -> keeps9 b d -> keeps9 a d.
Proof. intros (A1 & A2 & A3 & A4) (B1 & B2 & B3 & B4). unfold keeps9. split; [congruence|]. split; [congruence|]. split; [congruence|]. intros i. rewrite B4. apply A4. Qed.
Lemma k9_conns m m' : ob_tab m' = ob_tab m -> ob_cb m' = ob_cb m -> ob_conns m' = ob_conns m -> keeps9 m m'.
Proof. intros A B C. unfold keeps9, oc_at. rewrite A, B, C. auto. Qed.

Lemma k9_set_oc m i k : part9 k = part9 (oc_at m i) -> keeps9 m (set_oc m i k).
Proof.
  intros H. unfold keeps9. split; [reflexivity|]. split; [reflexivity|]. split; [apply set_oc_length|]. intros j. rewrite oc_at_set_oc.
  destruct (Nat.eqb i j) eqn:E; cbn [andb]; auto. apply Nat.eqb_eq in E. subst j.
  destruct (i <? length (ob_conns m))%nat; auto.
Qed.

Lemma k9_adv_request tab g kd : forall l bits,
  length (adv_request tab g kd l bits) = length l
  /\ forall i, part9 (nth i (adv_request tab g kd l bits) (oc_init O)) = part9 (nth i l (oc_init O)).
Proof.
  induction l as [|k t IH]; intros bits; cbn [adv_request]; [split; auto|].
  destruct bits as [|b bt]; [split; auto|]. destruct (IH bt) as (L & C). split; [cbn [length]; congruence|].
  intros [|i]; cbn [nth]; [reflexivity|apply C].
Qed.

(* the effect of a CCCD write the observer registers *)
Lemma apply_cccd_write_eff m cid g nv :
  ob_tab (apply_cccd_write m cid g nv) = ob_tab m
  /\ length (ob_conns (apply_cccd_write m cid g nv)) = length (ob_conns m)
  /\ (forall i, o_enc (oc_at (apply_cccd_write m cid g nv) i) = o_enc (oc_at m i))
  /\ (forall i, o_cccd (oc_at (apply_cccd_write m cid g nv) i)
                = if Nat.eqb cid i && (cid <? length (ob_conns m))%nat then upd (o_cccd (oc_at m cid)) g nv else o_cccd (oc_at m i))
  /\ ob_cb (apply_cccd_write m cid g nv)
     = match ob_cb m, nth g (o_cccd (oc_at m cid)) None, nv with
       | Some n, Some a, Some b => Some (if a =? b then n else n + 1)
       | _, _, _ => None
       end.
Proof.
  unfold apply_cccd_write. destruct (drop_must (oc_at m cid) g nv) as [mu sl]. cbn [ob_tab ob_conns ob_cb].
  split; [reflexivity|]. split; [rewrite map_i_length; apply upd_length|].
  assert (HN : forall i, nth i (map_i (mark_since cid g) 0 (upd (ob_conns m) cid
                 (mkOC (o_mtu (oc_at m cid)) (o_enc (oc_at m cid)) (upd (o_cccd (oc_at m cid)) g nv) (o_since (oc_at m cid))
                       (o_prep (oc_at m cid)) (o_pend (oc_at m cid)) mu (o_out (oc_at m cid)) sl))) (oc_init O)
               = if (i <? length (ob_conns m))%nat
                 then mark_since cid g i (nth i (upd (ob_conns m) cid
                        (mkOC (o_mtu (oc_at m cid)) (o_enc (oc_at m cid)) (upd (o_cccd (oc_at m cid)) g nv) (o_since (oc_at m cid))
                              (o_prep (oc_at m cid)) (o_pend (oc_at m cid)) mu (o_out (oc_at m cid)) sl)) (oc_init O))
                 else oc_init O).
  { intros i. rewrite (nth_map_i _ _ _ _ O i (oc_init O) (oc_init O)), upd_length. reflexivity. }
  split; [|split; [|reflexivity]].
  - intros i. unfold oc_at at 1. cbn [ob_conns]. rewrite HN. destruct (i <? length (ob_conns m))%nat eqn:L.
    + apply Nat.ltb_lt in L. unfold mark_since. cbn [o_enc]. destruct (Nat.eq_dec cid i) as [->|Ne].
      * rewrite nth_upd_eq by exact L. reflexivity.
      * rewrite nth_upd_neq by exact Ne. reflexivity.
    + apply Nat.ltb_ge in L. unfold oc_at. rewrite nth_overflow by exact L. reflexivity.
  - intros i. unfold oc_at at 1. cbn [ob_conns]. rewrite HN. destruct (i <? length (ob_conns m))%nat eqn:L.
    + apply Nat.ltb_lt in L. unfold mark_since. cbn [o_cccd]. destruct (Nat.eq_dec cid i) as [->|Ne].
      * rewrite nth_upd_eq by exact L. rewrite Nat.eqb_refl. replace (i <? length (ob_conns m))%nat with true by (symmetry; apply Nat.ltb_lt; exact L). reflexivity.
      * rewrite nth_upd_neq by exact Ne. replace (Nat.eqb cid i) with false by (symmetry; apply Nat.eqb_neq; exact Ne). reflexivity.
    + apply Nat.ltb_ge in L.
      assert (X : (Nat.eqb cid i && (cid <? length (ob_conns m))%nat) = false).
      { destruct (Nat.eqb cid i) eqn:E; cbn [andb]; [|reflexivity]. apply Nat.eqb_eq in E. subst i. apply Nat.ltb_ge. exact L. }
      rewrite X. unfold oc_at. rewrite (nth_overflow (ob_conns m) (oc_init O) L). reflexivity.
Qed.

(* ------------------------------------------------------------------ l2cap_input, classified for C09 *)
Inductive pdu_class9 := P9Write (opc lo hi : N) (data : list N) | P9Exec | P9Other.
Definition classify9 (pdu : list N) : pdu_class9 :=
  match pdu with
  | [2; lo; hi] => P9Other
  | [30] => P9Other
  | [10; lo; hi] => P9Other
  | 24 :: _ => P9Exec
  | opc :: lo :: hi :: data => if (opc =? 18) || (opc =? 82) || (opc =? 22) then P9Write opc lo hi data else P9Other
  | _ => P9Other
  end.

Definition exec9 (m : obs) (cid : nat) : obs :=
  let k := oc_at m cid in
  let m1 := forget_all_values m in
  if o_prep k then
    set_cb (set_oc m1 cid (mkOC (o_mtu k) (o_enc k) (map (fun _ => None) (o_cccd k)) (o_since k) false (o_pend k)
                                (map (fun _ => (false, false)) (o_must k)) (o_out k) (o_slack k + count_must (o_must k)))) None
  else m1.

Lemma k9_touch m cid g : keeps9 m (touch_cccd m cid g).
Proof. unfold touch_cccd. apply k9_set_oc. reflexivity. Qed.
Lemma k9_forget_all m : keeps9 m (forget_all_values m).
Proof. apply k9_conns; reflexivity. Qed.
Lemma k9_forget_value m g : keeps9 m (forget_value m g).
Proof. unfold forget_value. destruct (ce_const _); [apply k9_refl|apply k9_conns; reflexivity]. Qed.
Lemma k9_set_mtu m cid v : keeps9 m (set_mtu m cid v).
Proof. unfold set_mtu. apply k9_set_oc. reflexivity. Qed.

Ltac kp9 :=
  repeat match goal with
         | |- keeps9 _ (match ?x with Some _ => _ | None => _ end) => destruct x
         | |- keeps9 _ (if ?x then _ else _) => destruct x
         end;
  first [apply k9_refl | apply k9_touch | apply k9_set_mtu | apply k9_set_oc; reflexivity].

Definition adv_in_spec9 (c : cfg) (m : obs) (cid : nat) (pdu : list N) (n : N) (resp : list N) : Prop :=
  match classify9 pdu with
  | P9Write opc lo hi data => pdu = opc :: lo :: hi :: data /\ ((opc =? 18) || (opc =? 82) || (opc =? 22)) = true
                              /\ adv_in c m cid pdu n resp = adv_write m cid opc (lo + 256 * hi) data resp
  | P9Exec => (exists t, pdu = 24 :: t) /\ adv_in c m cid pdu n resp = exec9 m cid
  | P9Other => keeps9 m (adv_in c m cid pdu n resp)
               /\ ((len pdu <? 3) = true \/ exists op, rd pdu 0 = Some op /\ op <> 18 /\ op <> 82 /\ op <> 22 /\ op <> 24)
  end.

Ltac leaf9 :=
  cbv beta iota zeta delta [adv_in_spec9 classify9 adv_in N.eqb Pos.eqb orb];
  first [ split; [kp9|first [left; reflexivity|right; eexists; split; [reflexivity|repeat split; discriminate]]]
        | split; [eexists; reflexivity|reflexivity] ].

Lemma adv_in_classified9 c m cid pdu n resp : adv_in_spec9 c m cid pdu n resp.
Proof.
  destruct pdu as [|a [|b [|d t]]].
  - leaf9.
  - destruct a as [|p]; [leaf9|]. repeat (destruct p as [p|p|]; try solve [leaf9]).
  - destruct a as [|p]; [leaf9|]. repeat (destruct p as [p|p|]; try solve [leaf9]).
  - unfold adv_in_spec9.
    assert (G : forall (X : obs),
      (adv_in c m cid (a :: b :: d :: t) n resp = X -> True) -> True) by auto. clear G.
    destruct (N.eq_dec a 24) as [->|N24]; [split; [eexists; reflexivity|reflexivity]|].
    destruct ((a =? 18) || (a =? 82) || (a =? 22)) eqn:W.
    + assert (C9 : classify9 (a :: b :: d :: t) = P9Write a b d t).
      { apply orb_true_iff in W. destruct W as [W|W]; [apply orb_true_iff in W; destruct W as [W|W]|]; apply N.eqb_eq in W; subst a; reflexivity. }
      rewrite C9. split; [reflexivity|]. split; [exact W|].
      apply orb_true_iff in W. destruct W as [W|W]; [apply orb_true_iff in W; destruct W as [W|W]|]; apply N.eqb_eq in W; subst a; reflexivity.
    + apply orb_false_iff in W. destruct W as [W W3]. apply orb_false_iff in W. destruct W as [W1 W2].
      apply N.eqb_neq in W1, W2, W3.
      assert (R : rd (a :: b :: d :: t) 0 = Some a) by reflexivity.
      destruct t as [|e t'].
      * destruct a as [|p]; [leaf9|]. repeat (destruct p as [p|p|]; try solve [leaf9]); try solve [exfalso; apply N24; reflexivity | exfalso; apply W1; reflexivity | exfalso; apply W2; reflexivity | exfalso; apply W3; reflexivity].
      * destruct a as [|p]; [leaf9|]. repeat (destruct p as [p|p|]; try solve [leaf9]); try solve [exfalso; apply N24; reflexivity | exfalso; apply W1; reflexivity | exfalso; apply W2; reflexivity | exfalso; apply W3; reflexivity].
Qed.

(* ------------------------------------------------------------------ the other operations *)
Lemma k9_adv_out c m cid n pdu : keeps9 m (adv_out c m cid n pdu).
Proof.
  unfold adv_out. destruct pdu as [|opc [|lo [|hi t]]]; try apply k9_refl.
  - destruct (_ <? 3); [apply k9_set_oc; reflexivity|]. destruct (eligible_must _); [apply k9_set_oc; reflexivity|apply k9_refl].
  - destruct (by_value_handle _ _); destruct (opc =? 27); try (apply k9_set_oc; reflexivity);
      destruct (opc =? 29); try (apply k9_set_oc; reflexivity); apply k9_refl.
Qed.

Lemma k9_notify m bu kd g bits :
  keeps9 m (mkObs (ob_tab m) (adv_request (ob_tab m) (target m bu g) kd (ob_conns m) bits) (ob_vals m) (ob_cb m)).
Proof.
  destruct (k9_adv_request (ob_tab m) (target m bu g) kd (ob_conns m) bits) as (L & C).
  unfold keeps9. cbn [ob_tab ob_cb ob_conns]. repeat split; auto.
Qed.

Lemma exec9_eff m cid :
  ob_tab (exec9 m cid) = ob_tab m /\ length (ob_conns (exec9 m cid)) = length (ob_conns m)
  /\ (forall i, o_enc (oc_at (exec9 m cid) i) = o_enc (oc_at m i))
  /\ ((keeps9 m (exec9 m cid))
      \/ (ob_cb (exec9 m cid) = None
          /\ forall i, o_cccd (oc_at (exec9 m cid) i) = o_cccd (oc_at m i) \/ forall g, nth g (o_cccd (oc_at (exec9 m cid) i)) None = None)).
Proof.
  unfold exec9. destruct (o_prep (oc_at m cid)).
  - cbn [ob_tab set_cb set_oc forget_all_values set_obvals ob_conns]. split; [reflexivity|]. split; [apply upd_length|].
    assert (A : forall i, oc_at (set_cb (set_oc (forget_all_values m) cid
                (mkOC (o_mtu (oc_at m cid)) (o_enc (oc_at m cid)) (map (fun _ => None) (o_cccd (oc_at m cid))) (o_since (oc_at m cid)) false
                      (o_pend (oc_at m cid)) (map (fun _ => (false, false)) (o_must (oc_at m cid))) (o_out (oc_at m cid))
                      (o_slack (oc_at m cid) + count_must (o_must (oc_at m cid))))) None) i
              = if Nat.eqb cid i && (cid <? length (ob_conns m))%nat
                then mkOC (o_mtu (oc_at m cid)) (o_enc (oc_at m cid)) (map (fun _ => None) (o_cccd (oc_at m cid))) (o_since (oc_at m cid)) false
                      (o_pend (oc_at m cid)) (map (fun _ => (false, false)) (o_must (oc_at m cid))) (o_out (oc_at m cid))
                      (o_slack (oc_at m cid) + count_must (o_must (oc_at m cid)))
                else oc_at m i).
    { intros i. exact (oc_at_set_oc (forget_all_values m) cid _ i). }
    split.
    + intros i. rewrite A. destruct (Nat.eqb cid i) eqn:E; cbn [andb]; auto. apply Nat.eqb_eq in E. subst i.
      destruct (cid <? _)%nat; reflexivity.
    + right. split; [reflexivity|]. intros i. rewrite A. destruct (Nat.eqb cid i && _); [|left; reflexivity].
      right. intros g. cbn [o_cccd]. destruct (Nat.lt_ge_cases g (length (o_cccd (oc_at m cid)))).
      * change (@None N) with ((fun _ : option N => @None N) None) at 2. rewrite map_nth. reflexivity.
      * apply nth_overflow. rewrite map_length. auto.
  - pose proof (k9_forget_all m) as (A & B & C & D). split; auto. split; auto. split; [intros i; specialize (D i); unfold part9 in D; congruence|].
    left. apply k9_forget_all.
Qed.
