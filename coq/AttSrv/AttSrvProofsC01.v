(* Proofs for property C01 (b) and (c): whenever l2cap_input (att_input) returns at all, the response
   is at most min( out_size, negotiated MTU ) bytes long and framed according to the request opcode.
   For every configuration (no wf needed), every state, every request. *)
From Coq Require Import Lia ZifyBool.
From BT Require Import Base.ListX AttDb.AttDbModel NQueue.NQueueModel AttSrv.AttSrvModel AttSrv.AttSrvSpecC01.
Local Open Scope N_scope.

(* ------------------------------------------------------------------ buffers *)
Lemma len_app (A : Type) (a b : list A) : len (a ++ b) = len a + len b.
Proof. unfold len. rewrite app_length. lia. Qed.

Lemma len_takeN (A : Type) n (l : list A) : len (takeN n l) = N.min n (len l).
Proof. unfold len, takeN. rewrite firstn_length. lia. Qed.

Lemma len_dropN (A : Type) n (l : list A) : len (dropN n l) = len l - n.
Proof. unfold len, dropN. rewrite skipn_length. lia. Qed.

Lemma put_len b p bs b' : put b p bs = Some b' -> len b' = len b.
Proof.
  unfold put. destruct (p + len bs <=? len b) eqn:E; [|discriminate]. intros H. inversion H; subst.
  apply N.leb_le in E. rewrite !len_app, len_takeN, len_dropN. lia.
Qed.

Lemma put_nth_low b p bs b' q : put b p bs = Some b' -> (q < N.to_nat p)%nat -> nth q b' 0 = nth q b 0.
Proof.
  unfold put. destruct (p + len bs <=? len b) eqn:E; [|discriminate]. intros H Hq. inversion H; subst.
  apply N.leb_le in E. unfold takeN. unfold len in E.
  rewrite app_nth1 by (rewrite firstn_length; lia).
  rewrite <- (firstn_skipn (N.to_nat p) b) at 2. rewrite app_nth1 by (rewrite firstn_length; lia). reflexivity.
Qed.

Lemma put_zero b x t b' : put b 0 (x :: t) = Some b' -> nth 0 b' 0 = x.
Proof.
  unfold put. destruct (0 + len (x :: t) <=? len b); [|discriminate]. intros H. inversion H; subst. reflexivity.
Qed.

Lemma put_take b bs b' : put b 0 bs = Some b' -> takeN (len bs) b' = bs.
Proof.
  unfold put. destruct (0 + len bs <=? len b); [|discriminate]. intros H. inversion H; subst.
  unfold takeN, len. cbn [N.to_nat firstn app]. rewrite Nat2N.id.
  rewrite firstn_app, firstn_all. replace (length bs - length bs)%nat with O by lia. cbn [firstn]. apply app_nil_r.
Qed.

Lemma takeN_hd n (l : list N) : 1 <= n -> 1 <= len l -> exists t, takeN n l = nth 0 l 0 :: t.
Proof.
  intros Hn Hl. unfold takeN. destruct l as [|x t]; [unfold len in Hl; cbn in Hl; lia|].
  destruct (N.to_nat n) eqn:E; [lia|]. cbn [firstn nth]. eexists. reflexivity.
Qed.

(* ------------------------------------------------------------------ the shape of a handler result *)
Definition is_rsp (op : N) (r : resp) : Prop := 1 <= snd r /\ nth 0 (fst r) 0 = op + 1.
Definition is_err (op : N) (r : resp) : Prop :=
  snd r = 5 /\ exists x y z, takeN 5 (fst r) = [1; op; x; y; z].
Definition good (op out_size : N) (r : resp) : Prop := snd r <= out_size /\ (is_rsp op r \/ is_err op r).

Lemma error_response_err op code h b out_size r :
  5 <= out_size -> error_response op code h b out_size = Some r -> good op out_size r.
Proof.
  intros Ho. unfold error_response. replace (5 <=? out_size) with true by (symmetry; apply N.leb_le; auto).
  destruct (put b 0 (1 :: op :: le16 h ++ [code])) eqn:E; [|discriminate]. intros H. inversion H; subst.
  split; [cbn; lia|]. right. split; [reflexivity|].
  apply put_take in E. cbn [fst]. unfold le16 in *. cbn [app len length N.of_nat] in E.
  eexists _, _, _. exact E.
Qed.

Ltac inv H := inversion H; subst; clear H.

(* injection reduces the injected terms (1 + x becomes a match); these lemmas do not *)
Lemma some_inj (A : Type) (a b : A) : Some a = Some b -> a = b.
Proof. intros H. inversion H. reflexivity. Qed.
Lemma pair_inj (A B : Type) (a c : A) (b d : B) : (a, b) = (c, d) -> a = c /\ b = d.
Proof. intros H. inversion H. split; reflexivity. Qed.
Lemma failed_inj (A : Type) (a b : resp) : @Failed A a = Failed b -> a = b.
Proof. intros H. inversion H. reflexivity. Qed.
Lemma passed_inj (A : Type) (a b : A) : Passed a = Passed b -> a = b.
Proof. intros H. inversion H. reflexivity. Qed.

(* break the option monad / conditionals of a hypothesis "... = Some _" *)
Ltac mon :=
  repeat match goal with
         | H : Some _ = Some _ |- _ => apply some_inj in H
         | H : None = Some _ |- _ => discriminate H
         | H : Passed _ = Failed _ |- _ => discriminate H
         | H : Failed _ = Passed _ |- _ => discriminate H
         | H : Failed _ = Failed _ |- _ => apply failed_inj in H
         | H : Passed _ = Passed _ |- _ => apply passed_inj in H
         | H : (_, _) = (_, _) |- _ => apply pair_inj in H; destruct H
         | H : _ = ?v |- _ => is_var v; subst v
         | H : ?v = _ |- _ => is_var v; subst v
         | H : match ?x with Some _ => _ | None => None end = Some _ |- _ =>
             let E := fresh "E" in destruct x eqn:E; [|discriminate H]
         | H : (let '(_, _) := ?x in _) = Some _ |- _ => destruct x
         end.

Lemma check_range_failed c pdu b out_size sa sb op r :
  5 <= out_size -> rd pdu 0 = Some op ->
  check_size_and_handle_range c pdu b out_size sa sb = Some (Failed r) -> good op out_size r.
Proof.
  intros Ho Hop. unfold check_size_and_handle_range. rewrite Hop.
  destruct (negb (len pdu =? sa) && negb (len pdu =? sb)).
  - intros H. mon. eapply error_response_err; eauto.
  - intros H. mon. destruct ((n =? 0) || (n0 <? n)).
    + mon. eapply error_response_err; eauto.
    + destruct (first_index_by_handle c n =? invalid_index); mon. eapply error_response_err; eauto.
Qed.

Lemma check_handle_failed c pdu b out_size op r :
  5 <= out_size -> rd pdu 0 = Some op ->
  check_handle c pdu b out_size = Some (Failed r) -> good op out_size r.
Proof.
  intros Ho Hop. unfold check_handle. rewrite Hop. intros H. mon.
  destruct (n =? 0).
  - mon. eapply error_response_err; eauto.
  - destruct (index_by_handle c n =? invalid_index); mon. eapply error_response_err; eauto.
Qed.

Lemma check_size_and_handle_failed c pdu b out_size sa op r :
  5 <= out_size -> rd pdu 0 = Some op ->
  check_size_and_handle c pdu b out_size sa = Some (Failed r) -> good op out_size r.
Proof.
  intros Ho Hop. unfold check_size_and_handle. rewrite Hop.
  destruct (negb (len pdu =? sa)).
  - intros H. mon. eapply error_response_err; eauto.
  - apply check_handle_failed; auto.
Qed.

(* ------------------------------------------------------------------ reads never exceed the offered buffer *)
Lemma mem_read_len mem off maxlen r d : mem_read mem off maxlen = (r, d) -> len d <= maxlen.
Proof.
  unfold mem_read. destruct (len mem <? off); intros H; inv H; [unfold len; cbn; lia|].
  rewrite len_takeN. lia.
Qed.

Lemma value_read_len c st sec s ch gci off maxlen st' r d :
  value_read c st sec s ch gci off maxlen = (st', r, d) -> len d <= maxlen.
Proof.
  unfold value_read.
  destruct (security_check _ _ _); try (intros H; inv H; unfold len; cbn; lia).
  destruct (c_value ch).
  - destruct (c_no_read ch); [intros H; inv H; unfold len; cbn; lia|].
    destruct (mem_read _ _ _) eqn:E. intros H; inv H. eapply mem_read_len; eauto.
  - destruct (c_no_read ch); [intros H; inv H; unfold len; cbn; lia|].
    destruct (mem_read _ _ _) eqn:E. intros H; inv H. eapply mem_read_len; eauto.
  - destruct (mem_read _ _ _) eqn:E. intros H; inv H. eapply mem_read_len; eauto.
  - destruct (negb rd); [intros H; inv H; unfold len; cbn; lia|].
    destruct (negb blob && negb (off =? 0)); [intros H; inv H; unfold len; cbn; lia|].
    destruct (mem_read _ _ _) eqn:E. intros H; inv H. eapply mem_read_len; eauto.
Qed.

Lemma access_read_len c st cid a index off maxlen st' r d :
  access_read c st cid a index off maxlen = Some (st', r, d) -> len d <= maxlen.
Proof.
  unfold access_read. destruct (get_conn st cid) as [k|]; [|discriminate].
  destruct a as [s|u|s ch|s ch gci cci|s ch cci|nm|u v].
  - destruct (mem_read _ _ _) eqn:E. intros H; inv H. eapply mem_read_len; eauto.
  - destruct (mem_read _ _ _) eqn:E. intros H; inv H. eapply mem_read_len; eauto.
  - destruct (char_decl_value c ch index); [|discriminate].
    destruct (mem_read _ _ _) eqn:E. intros H; inv H. eapply mem_read_len; eauto.
  - intros H; inv H. eapply value_read_len; eauto.
  - destruct (security_check _ _ _); try (intros H; inv H; unfold len; cbn; lia).
    destruct (mem_read _ _ _) eqn:E. intros H; inv H. eapply mem_read_len; eauto.
  - destruct (mem_read _ _ _) eqn:E. intros H; inv H. eapply mem_read_len; eauto.
  - destruct (mem_read _ _ _) eqn:E. intros H; inv H. eapply mem_read_len; eauto.
Qed.

(* ------------------------------------------------------------------ the handlers *)
Lemma good_rsp op out_size b m x t b0 :
  put b0 0 (x :: t) = Some b -> x = op + 1 -> 1 <= m -> m <= out_size -> good op out_size (b, m).
Proof. intros H Hx H1 H2. split; [exact H2|]. left. split; [exact H1|]. cbn [fst]. rewrite (put_zero _ _ _ _ H). exact Hx. Qed.

Lemma exchange_mtu_good c st cid pdu b out_size st' r :
  23 <= out_size -> rd pdu 0 = Some 2 ->
  handle_exchange_mtu c st cid pdu b out_size = Some (st', r) -> good 2 out_size r.
Proof.
  intros Ho Hop. unfold handle_exchange_mtu. rewrite Hop.
  destruct (negb (len pdu =? 3)).
  - intros H. mon. eapply error_response_err; eauto. lia.
  - intros H. mon. destruct (n <? default_att_mtu).
    + mon. eapply error_response_err; eauto. lia.
    + mon. eapply good_rsp; eauto; lia.
Qed.

Lemma read_common_good c st cid pdu b out_size rsp h index off op st' r :
  23 <= out_size -> rd pdu 0 = Some op -> rsp = op + 1 ->
  handle_read_common c st cid pdu b out_size rsp h index off = Some (st', r) -> good op out_size r.
Proof.
  intros Ho Hop Hr. unfold handle_read_common. rewrite Hop. intros H. mon.
  apply access_read_len in E0.
  destruct a0; mon.
  - eapply good_rsp; eauto; lia.
  - eapply error_response_err; eauto. lia.
  - eapply error_response_err; eauto. lia.
Qed.

Lemma read_good c st cid pdu b out_size st' r :
  23 <= out_size -> rd pdu 0 = Some 10 -> handle_read c st cid pdu b out_size = Some (st', r) -> good 10 out_size r.
Proof.
  intros Ho Hop. unfold handle_read. intros H. mon. destruct c0 as [f|[h i]]; mon.
  - eapply check_size_and_handle_failed; eauto. lia.
  - eapply read_common_good; eauto.
Qed.

Lemma read_blob_good c st cid pdu b out_size st' r :
  23 <= out_size -> rd pdu 0 = Some 12 -> handle_read_blob c st cid pdu b out_size = Some (st', r) -> good 12 out_size r.
Proof.
  intros Ho Hop. unfold handle_read_blob. intros H. mon. destruct c0 as [f|[h i]]; mon.
  - eapply check_size_and_handle_failed; eauto. lia.
  - eapply read_common_good; eauto.
Qed.

Lemma write_request_good c st cid pdu b out_size op st' r :
  23 <= out_size -> rd pdu 0 = Some op -> op = 18 ->
  handle_write_request c st cid pdu b out_size = Some (st', r) -> good op out_size r.
Proof.
  intros Ho Hop Ho18. unfold handle_write_request. rewrite Hop.
  destruct (len pdu <? 3).
  - intros H. mon. eapply error_response_err; eauto. lia.
  - intros H. mon. destruct c0 as [f|[h i]]; mon.
    + eapply check_handle_failed; eauto. lia.
    + destruct a0; mon.
      * eapply good_rsp; eauto; lia.
      * eapply error_response_err; eauto. lia.
      * eapply error_response_err; eauto. lia.
Qed.

Lemma prepare_write_good c st cid pdu b out_size st' r :
  23 <= out_size -> rd pdu 0 = Some 22 ->
  handle_prepare_write c st cid pdu b out_size = Some (st', r) -> good 22 out_size r.
Proof.
  intros Ho Hop. unfold handle_prepare_write. rewrite Hop.
  destruct (wqueue c).
  - destruct (len pdu <? 5) eqn:El.
    + intros H. mon. eapply error_response_err; eauto. lia.
    + apply N.ltb_ge in El. intros H. mon. destruct c0 as [f|[h i]]; mon.
      * eapply check_handle_failed; eauto. lia.
      * destruct a0; mon.
        -- destruct (wq_allocate n s cid l); mon.
           ++ split; [cbn [snd]; lia|]. left. split; [cbn [snd]; lia|]. cbn [fst].
              rewrite (put_nth_low _ _ _ _ 0%nat E5) by lia. eapply put_zero; eauto.
           ++ eapply error_response_err; eauto. lia.
        -- eapply error_response_err; eauto. lia.
        -- eapply error_response_err; eauto. lia.
  - intros H. mon. eapply error_response_err; eauto. lia.
Qed.

Lemma execute_write_good c st cid pdu b out_size st' r :
  23 <= out_size -> rd pdu 0 = Some 24 ->
  handle_execute_write c st cid pdu b out_size = Some (st', r) -> good 24 out_size r.
Proof.
  intros Ho Hop. unfold handle_execute_write. rewrite Hop.
  destruct (wqueue c).
  - destruct (negb (len pdu =? 2)).
    + intros H. mon. eapply error_response_err; eauto. lia.
    + intros H. mon. destruct (negb (n0 =? 0) && negb (n0 =? 1)).
      * mon. eapply error_response_err; eauto. lia.
      * mon. destruct o as [[h code]|]; mon.
        -- eapply error_response_err; eauto. lia.
        -- eapply good_rsp; eauto; lia.
  - intros H. mon. eapply error_response_err; eauto. lia.
Qed.

(* ------------------------------------------------------------------ Find Information *)
Lemma collect_tuples_inv fuel c start e only16 b out out_end b' out' :
  collect_handle_uuid_tuples fuel c start e only16 b out out_end = Some (b', out') ->
  1 <= out -> out <= out_end -> out <= out' /\ out' <= out_end /\ nth 0 b' 0 = nth 0 b 0.
Proof.
  revert start b out; induction fuel as [|f IH]; intros start b out H H1 H2; cbn [collect_handle_uuid_tuples] in H.
  - mon. repeat split; lia.
  - cbv zeta in H.
    destruct ((start <? number_of_attributes c) && (handle_by_index c start <=? e)
              && ((if only16 then 4 else 18) <=? out_end - out)) eqn:Ec.
    + apply andb_true_iff in Ec. destruct Ec as [_ Ec]. apply N.leb_le in Ec.
      mon. destruct (Bool.eqb only16 (negb (attr_uuid a =? internal_128bit_uuid))).
      * mon. apply IH in H; [|destruct only16; lia|destruct only16; lia].
        destruct H as (I1 & I2 & I3). repeat split; [destruct only16; lia|lia|].
        rewrite I3. rewrite (put_nth_low _ _ _ _ 0%nat E2) by lia. apply (put_nth_low _ _ _ _ 0%nat E0). lia.
      * apply IH in H; auto.
    + mon. repeat split; lia.
Qed.

Ltac brk := match goal with H : (if ?x then _ else _) = Some _ |- _ => destruct x eqn:? end.

Lemma find_information_good c pdu b out_size r :
  23 <= out_size -> rd pdu 0 = Some 4 -> handle_find_information c pdu b out_size = Some r -> good 4 out_size r.
Proof.
  intros Ho Hop. unfold handle_find_information. intros H. mon. destruct c0 as [f|[sh eh]]; mon.
  - eapply check_range_failed; eauto. lia.
  - brk; [mon; eapply error_response_err; eauto; lia|].
    replace (negb (1 =? out_size)) with true in * by (symmetry; apply negb_true_iff, N.eqb_neq; lia).
    mon.
    match goal with X : collect_handle_uuid_tuples _ _ _ _ _ _ _ _ = Some ?p |- _ =>
      destruct p as [b' out']; apply collect_tuples_inv in X; [destruct X as (I1 & I2 & I3)|lia|lia] end.
    split; [cbn [snd]; lia|]. left. split; [cbn [snd]; lia|]. cbn [fst]. rewrite I3.
    match goal with X : put _ 1 _ = Some _ |- _ => rewrite (put_nth_low _ _ _ _ 0%nat X) by lia end.
    eapply put_zero; eauto.
Qed.

(* ------------------------------------------------------------------ Find By Type Value *)
Lemma services_by_group_inv c st cid ss index si ei value b cur e found b' cur' found' :
  services_by_group c st cid ss index si ei value b cur e found = Some (b', cur', found') ->
  cur <= e -> cur <= cur' /\ cur' <= e.
Proof.
  revert index b cur found; induction ss as [|s t IH]; intros index b cur found H Hc; cbn [services_by_group] in H.
  - mon. lia.
  - cbv zeta in H.
    destruct ((negb (si =? invalid_index) && (si <=? index)) && (handle_by_index c index <=? ei)).
    + mon. destruct (negb (attr_uuid a =? uuid_primary_service)); [apply IH in H; auto|].
      destruct (access_compare_value c st cid a value).
      * apply IH in H; auto.
      * apply IH in H; auto.
      * destruct (4 <=? e - cur) eqn:E4.
        -- apply N.leb_le in E4. mon. apply IH in H; lia.
        -- apply IH in H; auto.
    + apply IH in H; auto.
Qed.

Lemma find_by_type_value_good c st cid pdu b out_size r :
  23 <= out_size -> rd pdu 0 = Some 6 -> handle_find_by_type_value c st cid pdu b out_size = Some r -> good 6 out_size r.
Proof.
  intros Ho Hop. unfold handle_find_by_type_value. rewrite Hop. intros H. mon. destruct c0 as [f|[sh eh]]; mon.
  - eapply check_range_failed; eauto. lia.
  - brk.
    + eapply error_response_err; eauto. lia.
    + mon.
      match goal with X : services_by_group _ _ _ _ _ _ _ _ _ _ _ _ = Some (_, ?cur, _) |- _ =>
        apply services_by_group_inv in X; [|lia];
        assert ((cur - 1) mod 256 <= cur - 1) by (apply N.mod_le; lia);
        set (m := (cur - 1) mod 256) in * end.
      brk; mon.
      * eapply good_rsp; eauto; lia.
      * eapply error_response_err; eauto. lia.
Qed.

(* ------------------------------------------------------------------ Read By Type *)
Lemma collect_attribute_inv c st cid k e index a st' k' :
  collect_attribute c st cid k e index a = Some (st', k') ->
  2 <= co_cur k -> co_cur k <= e -> 2 <= co_cur k' /\ co_cur k' <= e /\ co_cur k <= co_cur k'.
Proof.
  unfold collect_attribute. intros H H1 H2.
  destruct (2 <=? e - co_cur k) eqn:E2; [|mon; lia].
  apply N.leb_le in E2. mon. apply access_read_len in E.
  destruct a0; mon; try lia.
  destruct (253 <? len l); [discriminate|]. mon.
  assert (len l mod 256 <= len l) by (apply N.mod_le; lia).
  destruct (len l + 2 =? (if co_first k then (len l + 2) mod 256 else co_size k)); mon; cbn [co_cur];
    set (m := len l mod 256) in *; lia.
Qed.

Lemma all_attributes_inv fuel c st cid f k e index last eh st' k' :
  all_attributes fuel c st cid f k e index last eh = Some (st', k') ->
  2 <= co_cur k -> co_cur k <= e -> 2 <= co_cur k' /\ co_cur k' <= e.
Proof.
  revert st k index; induction fuel as [|n IH]; intros st k index H H1 H2; cbn [all_attributes] in H.
  - mon. lia.
  - destruct ((index <=? last) && (handle_by_index c index <=? eh)); [|mon; lia].
    mon. destruct (uuid_filter_match f a).
    + mon. apply collect_attribute_inv in E0; auto. apply IH in H; lia.
    + apply IH in H; auto.
Qed.

Lemma read_by_type_good c st cid pdu b out_size st' r :
  23 <= out_size -> rd pdu 0 = Some 8 -> handle_read_by_type c st cid pdu b out_size = Some (st', r) -> good 8 out_size r.
Proof.
  intros Ho Hop. unfold handle_read_by_type. rewrite Hop. intros H. mon. destruct c0 as [f|[sh eh]]; mon.
  - eapply check_range_failed; eauto. lia.
  - match goal with X : all_attributes _ _ _ _ _ _ _ _ _ _ = Some (_, ?k) |- _ =>
      apply all_attributes_inv in X; [|cbn [co_cur]; lia|cbn [co_cur]; lia]; destruct X as [I1 I2];
      assert ((co_cur k - 2) mod 256 <= co_cur k - 2) by (apply N.mod_le; lia);
      set (m := (co_cur k - 2) mod 256) in * end.
    brk; mon.
    + eapply good_rsp; eauto; lia.
    + eapply error_response_err; eauto. lia.
Qed.

(* ------------------------------------------------------------------ Read By Group Type *)
Lemma read_primary_service_response_inv c s b out e index is128 b' out' :
  read_primary_service_response c s b out e index is128 = Some (b', out') ->
  1 <= out -> out <= e -> out <= out' /\ out' <= e /\ nth 0 b' 0 = nth 0 b 0.
Proof.
  unfold read_primary_service_response. cbv zeta. intros H H1 H2.
  destruct (Bool.eqb is128 (is_128bit (s_uuid s)) && ((if is128 then 20 else 6) <=? e - out)) eqn:Ec.
  - apply andb_true_iff in Ec. destruct Ec as [_ Ec]. apply N.leb_le in Ec.
    destruct (mem_read (uuid_bytes (s_uuid s)) 0 (e - (out + 4))) as [rc d] eqn:Em.
    apply mem_read_len in Em. mon.
    assert (6 <= e - out) by (destruct is128; cbv iota in Ec; lia).
    repeat split; [lia|lia|].
    rewrite (put_nth_low _ _ _ _ 0%nat E0) by lia. apply (put_nth_low _ _ _ _ 0%nat E). lia.
  - mon. repeat split; lia.
Qed.

Lemma collect_primary_services_inv c ss k si eh e k' :
  collect_primary_services c ss k si eh e = Some k' ->
  2 <= pc_out k -> pc_out k <= e ->
  2 <= pc_out k' /\ pc_out k' <= e /\ nth 0 (pc_buf k') 0 = nth 0 (pc_buf k) 0.
Proof.
  revert k; induction ss as [|s t IH]; intros k H H1 H2; cbn [collect_primary_services] in H.
  - mon. repeat split; lia.
  - cbv zeta in H.
    destruct (negb (pc_stopped k) && negb (s_secondary s) && (negb (si =? invalid_index) && (si <=? pc_index k))
              && (handle_by_index c (pc_index k) <=? eh)).
    + mon.
      match goal with X : read_primary_service_response _ _ _ _ _ _ _ = Some (_, _) |- _ =>
        apply read_primary_service_response_inv in X; [destruct X as (I1 & I2 & I3)|lia|lia] end.
      apply IH in H; cbn [pc_out pc_buf] in *; [|lia|lia].
      destruct H as (J1 & J2 & J3). repeat split; auto. rewrite J3, I3.
      destruct (pc_first k); mon; [|reflexivity].
      match goal with X : put _ 1 _ = Some _ |- _ => apply (put_nth_low _ _ _ _ 0%nat X); lia end.
    + apply IH in H; cbn [pc_out pc_buf] in *; auto.
Qed.

Lemma read_by_group_type_good c pdu b out_size r :
  23 <= out_size -> rd pdu 0 = Some 16 -> handle_read_by_group_type c pdu b out_size = Some r -> good 16 out_size r.
Proof.
  intros Ho Hop. unfold handle_read_by_group_type. rewrite Hop. intros H. mon. destruct c0 as [f|[sh eh]]; mon.
  - eapply check_range_failed; eauto. lia.
  - brk.
    + eapply error_response_err; eauto. lia.
    + mon.
      match goal with X : collect_primary_services _ _ _ _ _ _ = Some _ |- _ =>
        apply collect_primary_services_inv in X;
          [cbn [pc_out pc_buf] in X; destruct X as (I1 & I2 & I3)|cbn [pc_out]; lia|cbn [pc_out]; lia] end.
      brk.
      * eapply error_response_err; eauto. lia.
      * mon. split; [cbn [snd]; lia|]. left. split; [cbn [snd]; lia|]. cbn [fst]. rewrite I3. eapply put_zero; eauto.
Qed.

(* ------------------------------------------------------------------ Read Multiple *)
Lemma read_multiple_loop_good c st cid hs b0 b p out_size st' r :
  23 <= out_size ->
  read_multiple_loop c st cid 14 hs b0 b p out_size = Some (st', r) ->
  1 <= p -> p <= out_size -> nth 0 b 0 = 15 -> good 14 out_size r.
Proof.
  intros Ho. remember (length hs) as n eqn:Hn. revert hs Hn st b p.
  induction n as [n IH] using lt_wf_ind. intros hs Hn st b p H H1 H2 H3.
  destruct hs as [|lo [|hi t]]; cbn [read_multiple_loop] in H.
  - mon. split; [cbn [snd]; lia|]. left. split; [cbn [snd]; lia|]. exact H3.
  - mon. split; [cbn [snd]; lia|]. left. split; [cbn [snd]; lia|]. exact H3.
  - cbv zeta in H. brk.
    + mon. eapply error_response_err; eauto. lia.
    + brk.
      * mon. eapply error_response_err; eauto. lia.
      * mon. destruct a0; mon.
        -- brk; [discriminate|].
           match goal with X : (_ <? _) = false |- _ => apply N.ltb_ge in X end.
           match goal with X : put b p ?l = Some ?b1 |- _ =>
             eapply (IH (length t)); [cbn [length]; lia|reflexivity|eassumption|lia|lia|
                                      rewrite (put_nth_low _ _ _ _ 0%nat X) by lia; exact H3] end.
        -- eapply error_response_err; eauto. lia.
        -- eapply error_response_err; eauto. lia.
Qed.

Lemma read_multiple_good c st cid pdu b out_size st' r :
  23 <= out_size -> rd pdu 0 = Some 14 -> handle_read_multiple c st cid pdu b out_size = Some (st', r) -> good 14 out_size r.
Proof.
  intros Ho Hop. unfold handle_read_multiple. rewrite Hop.
  destruct ((len pdu <? 5) || (len pdu mod 2 =? 0)).
  - intros H. mon. eapply error_response_err; eauto. lia.
  - intros H. mon. eapply read_multiple_loop_good; eauto; try lia. eapply put_zero; eauto.
Qed.

(* ------------------------------------------------------------------ l2cap_input *)
Lemma rd0_cons pdu op : rd pdu 0 = Some op -> exists t, pdu = op :: t.
Proof.
  unfold rd. destruct (0 <? len pdu); [|discriminate]. destruct pdu as [|x t]; cbn; [discriminate|].
  intros H. inversion H. eexists. reflexivity.
Qed.

Lemma good_frame_req op t out_size b' m :
  good op out_size (b', m) -> m <= len b' -> is_request op = true ->
  (op =? 1) = false -> (op =? 82) = false -> (op =? 30) = false ->
  len (takeN m b') <= out_size /\ frame_ok (op :: t) (takeN m b') = true.
Proof.
  intros [Hm Hg] Hl Hr H1 H2 H3. cbn [fst snd] in *. split; [rewrite len_takeN; lia|].
  unfold frame_ok. rewrite H1, H2, H3, Hr. cbn [orb].
  destruct Hg as [[G1 G2]|[G1 [x [y [z G2]]]]]; cbn [fst snd] in *.
  - destruct (takeN_hd m b') as [t' Ht]; [lia|lia|]. rewrite Ht, G2, N.eqb_refl. reflexivity.
  - subst m. rewrite G2. cbn [is_error_for]. rewrite N.eqb_refl. apply orb_true_r.
Qed.

Lemma error_frame_exact op code h b out_size b' m :
  5 <= out_size -> error_response op code h b out_size = Some (b', m) ->
  m = 5 /\ takeN m b' = 1 :: op :: le16 h ++ [code].
Proof.
  intros Ho. unfold error_response. replace (5 <=? out_size) with true by (symmetry; apply N.leb_le; auto).
  intros H. mon. split; [reflexivity|]. apply put_take in E. exact E.
Qed.

(* C01 (b) and (c): whenever l2cap_input returns, the response fits min( out_size, negotiated MTU )
   and is framed according to the request opcode *)
Theorem att_input_length_and_frame c st cid pdu n st' rs k :
  get_conn st cid = Some k ->
  att_input c st cid pdu n = Some (st', rs) ->
  len rs <= N.min n (negotiated_mtu c k) /\ frame_ok pdu rs = true.
Proof.
  intros Hk. unfold att_input. rewrite Hk. cbv zeta.
  set (out_size := N.min n (negotiated_mtu c k)).
  destruct (len pdu =? 0); [discriminate|].
  destruct (out_size <? default_att_mtu) eqn:Eo; [discriminate|]. apply N.ltb_ge in Eo. unfold default_att_mtu in Eo.
  destruct (rd pdu 0) as [op|] eqn:Hop; [|discriminate].
  destruct (rd0_cons pdu op Hop) as [t Hp]. subst pdu.
  set (b := repeat fill_byte (N.to_nat n)).
  (* one lemma per handler; [fin] closes a request opcode branch *)
  assert (FIN : forall b' m st1, is_request op = true -> (op =? 1) = false -> (op =? 82) = false -> (op =? 30) = false ->
                good op out_size (b', m) ->
                (if m <=? len b' then Some (st1, takeN m b') else None) = Some (st', rs) ->
                len rs <= out_size /\ frame_ok (op :: t) rs = true).
  { intros b' m st1 R1 R2 R3 R4 G H. destruct (m <=? len b') eqn:El; [|discriminate]. apply N.leb_le in El.
    mon. eapply good_frame_req; eauto. }
  destruct (op =? 1) eqn:E1.
  { apply N.eqb_eq in E1. subst op. intros H. mon. brk; mon.
    change (takeN 0 b) with (@nil N). split; [unfold len; cbn [length N.of_nat]; lia|reflexivity]. }
  destruct (op =? 2) eqn:E2.
  { apply N.eqb_eq in E2. subst op. intros H. mon.
    eapply FIN; [reflexivity|reflexivity|reflexivity|reflexivity| |eassumption]. eapply exchange_mtu_good; eauto. }
  destruct (op =? 4) eqn:E4.
  { apply N.eqb_eq in E4. subst op. intros H. mon.
    eapply FIN; [reflexivity|reflexivity|reflexivity|reflexivity| |eassumption]. eapply find_information_good; eauto. }
  destruct (op =? 6) eqn:E6.
  { apply N.eqb_eq in E6. subst op. intros H. mon.
    eapply FIN; [reflexivity|reflexivity|reflexivity|reflexivity| |eassumption]. eapply find_by_type_value_good; eauto. }
  destruct (op =? 8) eqn:E8.
  { apply N.eqb_eq in E8. subst op. intros H. mon.
    eapply FIN; [reflexivity|reflexivity|reflexivity|reflexivity| |eassumption]. eapply read_by_type_good; eauto. }
  destruct (op =? 10) eqn:E10.
  { apply N.eqb_eq in E10. subst op. intros H. mon.
    eapply FIN; [reflexivity|reflexivity|reflexivity|reflexivity| |eassumption]. eapply read_good; eauto. }
  destruct (op =? 12) eqn:E12.
  { apply N.eqb_eq in E12. subst op. intros H. mon.
    eapply FIN; [reflexivity|reflexivity|reflexivity|reflexivity| |eassumption]. eapply read_blob_good; eauto. }
  destruct (op =? 16) eqn:E16.
  { apply N.eqb_eq in E16. subst op. intros H. mon.
    eapply FIN; [reflexivity|reflexivity|reflexivity|reflexivity| |eassumption]. eapply read_by_group_type_good; eauto. }
  destruct (op =? 14) eqn:E14.
  { apply N.eqb_eq in E14. subst op. intros H. mon.
    eapply FIN; [reflexivity|reflexivity|reflexivity|reflexivity| |eassumption]. eapply read_multiple_good; eauto. }
  destruct (op =? 18) eqn:E18.
  { apply N.eqb_eq in E18. subst op. intros H. mon.
    eapply FIN; [reflexivity|reflexivity|reflexivity|reflexivity| |eassumption]. eapply write_request_good; eauto. }
  destruct (op =? 82) eqn:E82.
  { apply N.eqb_eq in E82. subst op. intros H. mon.
    unfold handle_write_command in E. mon. brk; mon.
    match goal with |- len (takeN 0 ?x) <= _ /\ _ => change (takeN 0 x) with (@nil N) end.
    split; [unfold len; cbn [length N.of_nat]; lia|reflexivity]. }
  destruct (op =? 22) eqn:E22.
  { apply N.eqb_eq in E22. subst op. intros H. mon.
    eapply FIN; [reflexivity|reflexivity|reflexivity|reflexivity| |eassumption]. eapply prepare_write_good; eauto. }
  destruct (op =? 24) eqn:E24.
  { apply N.eqb_eq in E24. subst op. intros H. mon.
    eapply FIN; [reflexivity|reflexivity|reflexivity|reflexivity| |eassumption]. eapply execute_write_good; eauto. }
  destruct (op =? 30) eqn:E30.
  { apply N.eqb_eq in E30. subst op. intros H. mon.
    unfold handle_confirmation in E. rewrite Hop in E.
    destruct (negb (len (30 :: t) =? 1)) eqn:El.
    - mon.
      match goal with X : error_response _ _ _ _ _ = Some _ |- _ => apply error_frame_exact in X; [|lia]; destruct X as [-> E0] end.
      brk; mon. rewrite E0. split; [unfold len; cbn [length app le16 N.of_nat]; lia|].
      unfold frame_ok. cbn [N.eqb Pos.eqb orb]. apply negb_true_iff in El. rewrite El. reflexivity.
    - mon. apply negb_false_iff in El. brk; mon.
      match goal with |- len (takeN 0 ?x) <= _ /\ _ => change (takeN 0 x) with (@nil N) end.
      split; [unfold len; cbn [length N.of_nat]; lia|].
      unfold frame_ok. cbn [N.eqb Pos.eqb orb]. rewrite El. reflexivity. }
  (* any other opcode: Request Not Supported *)
  intros H. mon.
  match goal with X : error_response _ _ _ _ _ = Some _ |- _ => apply error_frame_exact in X; [|lia]; destruct X as [-> E] end.
  brk; mon. rewrite E. split; [unfold len; cbn [length app le16 N.of_nat]; lia|].
  unfold frame_ok. rewrite E1, E82, E30. cbn [orb].
  assert (Hr : is_request op = false).
  { unfold is_request. cbn [existsb].
    rewrite E2, E4, E6, E8, E10, E12, E14, E16, E18, E22, E24. reflexivity. }
  rewrite Hr. cbn. apply N.eqb_refl.
Qed.

(* ------------------------------------------------------------------ (a) for the opcodes that touch no attribute *)
Lemma len_repeat (x : N) n : len (repeat x (N.to_nat n)) = n.
Proof. unfold len. rewrite repeat_length. lia. Qed.

Lemma put_ok b p bs : p + len bs <= len b -> exists b', put b p bs = Some b'.
Proof. intros H. unfold put. replace (p + len bs <=? len b) with true by (symmetry; apply N.leb_le; auto). eexists; reflexivity. Qed.

Lemma error_response_ok op code h b out_size :
  5 <= len b -> exists r, error_response op code h b out_size = Some r /\ snd r <= 5 /\ len (fst r) = len b.
Proof.
  intros H. unfold error_response. destruct (5 <=? out_size).
  - destruct (put_ok b 0 (1 :: op :: le16 h ++ [code])) as [b' Hb]; [unfold len; cbn; unfold len in H; lia|].
    rewrite Hb. eexists. split; [reflexivity|]. cbn [fst snd]. split; [lia|]. eapply put_len; eauto.
  - eexists. split; [reflexivity|]. cbn [fst snd]. split; [lia|reflexivity].
Qed.

Lemma rd_ok pdu i : i < len pdu -> exists x, rd pdu i = Some x.
Proof.
  intros H. unfold rd. replace (i <? len pdu) with true by (symmetry; apply N.ltb_lt; auto).
  destruct (nth_error pdu (N.to_nat i)) eqn:E; [eexists; reflexivity|].
  apply nth_error_None in E. unfold len in H. lia.
Qed.

(* Error Response, Exchange MTU, Handle Value Confirmation and every opcode that is no ATT request
   of this server never fault (given the asserted preconditions of l2cap_input) *)
Theorem att_input_no_fault_simple c st cid pdu n k op :
  get_conn st cid = Some k -> rd pdu 0 = Some op ->
  23 <= N.min n (negotiated_mtu c k) ->
  forallb (fun x => negb (op =? x)) [4; 6; 8; 10; 12; 14; 16; 18; 82; 22; 24] = true ->
  att_input c st cid pdu n <> None.
Proof.
  intros Hk Hop Hn Hops. unfold att_input. rewrite Hk. cbv zeta.
  destruct (rd0_cons pdu op Hop) as [t Hp].
  assert (Hl : (len pdu =? 0) = false) by (subst pdu; apply N.eqb_neq; unfold len; cbn [length]; lia).
  rewrite Hl. replace (N.min n (negotiated_mtu c k) <? default_att_mtu) with false
    by (symmetry; apply N.ltb_ge; unfold default_att_mtu; lia).
  rewrite Hop. set (b := repeat fill_byte (N.to_nat n)).
  assert (Hb : len b = n) by apply len_repeat.
  cbn [forallb] in Hops. repeat (apply andb_true_iff in Hops; destruct Hops as [?H Hops]).
  repeat match goal with H : negb (op =? _) = true |- _ => apply negb_true_iff in H; rewrite H end.
  destruct (op =? 1); [rewrite Hb; replace (0 <=? n) with true by (symmetry; apply N.leb_le; lia); discriminate|].
  destruct (op =? 2) eqn:E2.
  { unfold handle_exchange_mtu. rewrite Hop. destruct (negb (len pdu =? 3)) eqn:E3.
    - destruct (error_response_ok op err_invalid_pdu 0 b (N.min n (negotiated_mtu c k))) as [[b' m] [Hr [G1 G2]]]; [lia|].
      rewrite Hr. cbn [fst snd] in *. replace (m <=? len b') with true by (symmetry; apply N.leb_le; lia). discriminate.
    - apply negb_false_iff, N.eqb_eq in E3.
      destruct (rd_ok pdu 1) as [lo Hlo]; [lia|]. destruct (rd_ok pdu 2) as [hi Hhi]; [lia|].
      unfold rd16. rewrite Hlo. change (1 + 1) with 2. rewrite Hhi.
      destruct (lo + 256 * hi <? default_att_mtu).
      + destruct (error_response_ok op err_invalid_pdu 0 b (N.min n (negotiated_mtu c k))) as [[b' m] [Hr [G1 G2]]]; [lia|].
        rewrite Hr. cbn [fst snd] in *. replace (m <=? len b') with true by (symmetry; apply N.leb_le; lia). discriminate.
      + rewrite Hk. destruct (put_ok b 0 (3 :: le16 (max_mtu c))) as [b' Hb']; [unfold len at 1; cbn [length le16]; lia|].
        rewrite Hb'. apply put_len in Hb'. replace (3 <=? len b') with true by (symmetry; apply N.leb_le; lia). discriminate. }
  destruct (op =? 30) eqn:E30.
  { unfold handle_confirmation. rewrite Hop. destruct (negb (len pdu =? 1)).
    - destruct (error_response_ok op err_invalid_pdu 0 b (N.min n (negotiated_mtu c k))) as [[b' m] [Hr [G1 G2]]]; [lia|].
      rewrite Hr. cbn [fst snd] in *. replace (m <=? len b') with true by (symmetry; apply N.leb_le; lia). discriminate.
    - rewrite Hk. rewrite Hb. replace (0 <=? n) with true by (symmetry; apply N.leb_le; lia). discriminate. }
  destruct (error_response_ok op err_request_not_supported 0 b (N.min n (negotiated_mtu c k))) as [[b' m] [Hr [G1 G2]]]; [lia|].
  rewrite Hr. cbn [fst snd] in *. replace (m <=? len b') with true by (symmetry; apply N.leb_le; lia). discriminate.
Qed.
