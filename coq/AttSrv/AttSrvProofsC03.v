(* Proofs for property C03: primary service discovery never reports secondary services.
   Read By Group Type is proved in AttSrvProofsC02 (read_by_group_type_spec, walk_first_spec,
   rbg_discover_all); here: Find By Type Value and the statements in terms of [primary_services]. *)
From Coq Require Import Lia ZifyBool.
From BT Require Import Base.ListX AttDb.AttDbModel AttDb.AttDbSpec AttDb.AttDbProofs NQueue.NQueueModel
  AttSrv.AttSrvModel AttSrv.AttSrvSpecC02 AttSrv.AttSrvSpecC03 AttSrv.AttSrvProofsC02.
Local Open Scope N_scope.

(* ================================================================== Find By Type Value *)
Definition genc4 (g : N * N * service_decl) : list N := le16 (gfirst g) ++ le16 (glast g).

(* services_by_group as a walk over the groups *)
Fixpoint fbtv_walk (G : list (N * N * service_decl)) (lo hi : N) (value : list N) (avail : N) : list (N * N * service_decl) :=
  match G with
  | [] => []
  | g :: G' =>
      if (lo <=? gfirst g) && (gfirst g <=? hi) && negb (s_secondary (snd g))
         && bytes_eqb (uuid_bytes (s_uuid (snd g))) value && (4 <=? avail)
      then g :: fbtv_walk G' lo hi value (avail - 4)
      else fbtv_walk G' lo hi value avail
  end.

Lemma erase_service a s : erase a = AService s -> a = AService s.
Proof. destruct a; cbn [erase]; intros H; try discriminate H; exact H. Qed.

Lemma skipn_hd (A : Type) (l : list A) n x t : skipn n l = x :: t -> nth_error l n = Some x.
Proof.
  revert l; induction n as [|n IH]; intros l H; [destruct l; inversion H; reflexivity|].
  destruct l as [|y l']; [discriminate H|]. cbn [skipn nth_error] in *. apply IH. exact H.
Qed.

Lemma sbg_walk c st cid lo hi e value ss : wf c -> no_includes c ->
  forall index b cur found b' cur' found',
  index + sumN svc_nattrs ss = number_of_attributes c ->
  skipn (N.to_nat index) (decl_attrs c) = flat_map svc_decl_attrs ss ->
  1 <= cur -> cur <= e -> e <= len b ->
  services_by_group c st cid ss index (first_index_by_handle c lo) hi value b cur e found = Some (b', cur', found') ->
  let R := fbtv_walk (svc_groups ss (skipn (N.to_nat index) (assign c))) lo hi value (e - cur) in
  seg 1 cur' b' = seg 1 cur b ++ flat_map genc4 R
  /\ cur' = cur + 4 * len R /\ cur' <= e /\ len b' = len b
  /\ found' = (found || match R with [] => false | _ => true end).
Proof.
  intros Hw Hn. induction ss as [|s t IH]; intros index b cur found b' cur' found' HI Hsk Hc1 Hc2 Hl H; cbn [services_by_group] in H.
  - inversion H; subst. cbn [svc_groups fbtv_walk flat_map]. rewrite app_nil_r, orb_false_r. repeat split; try lia. unfold len; cbn; lia.
  - cbn [sumN] in HI. pose proof (svc_nattrs_pos s) as Hp.
    destruct (group_head c s index Hw Hn ltac:(lia)) as (G1 & G2 & G3).
    cbn [svc_groups fbtv_walk]. unfold gfirst at 1 2, glast. cbn [fst snd]. rewrite G1, G3. cbv zeta in H.
    rewrite (idx_ge_iff c lo index Hw Hn ltac:(lia)) in H.
    (* the next service *)
    assert (Hsk' : skipn (N.to_nat (index + svc_nattrs s)) (decl_attrs c) = flat_map svc_decl_attrs t).
    { replace (N.to_nat (index + svc_nattrs s)) with (N.to_nat index + N.to_nat (svc_nattrs s))%nat by lia.
      rewrite <- skipn_skipn_nat, Hsk. cbn [flat_map].
      pose proof (svc_decl_attrs_len s) as X. unfold len in X.
      rewrite skipn_app. replace (N.to_nat (svc_nattrs s) - length (svc_decl_attrs s))%nat with O by lia.
      rewrite skipn_all2 by lia. reflexivity. }
    assert (Hat : attribute_at c index = Some (AService s)).
    { destruct (table_nth c index Hw Hn ltac:(lia)) as [a [Ha1 Ha2]].
      pose proof (attribute_at_decl c index) as X. rewrite Ha1 in X. cbn [option_map] in X.
      cbn [flat_map] in Hsk. unfold svc_decl_attrs at 1 in Hsk. cbn [app] in Hsk.
      rewrite (skipn_hd _ _ _ _ _ Hsk) in X. injection X as X'. apply erase_service in X'. subst a. exact Ha1. }
    destruct ((lo <=? handle_by_index c index) && (handle_by_index c index <=? hi)) eqn:Ec.
    + rewrite Hat in H. cbn [attr_uuid access_compare_value] in H.
      destruct (s_secondary s) eqn:Es.
      * cbn [negb andb]. change (uuid_secondary_service =? uuid_primary_service) with false in H. cbn [negb] in H.
        apply IH in H; auto; try lia.
      * cbn [negb] in H. change (uuid_primary_service =? uuid_primary_service) with true in H. cbn [negb andb] in H.
        cbn [negb andb].
        destruct (bytes_eqb (uuid_bytes (s_uuid s)) value) eqn:Eb; cbn [andb].
        -- destruct (4 <=? e - cur) eqn:E4.
           ++ destruct (put b cur _) as [b1|] eqn:Ep; [|discriminate].
              pose proof (put_length _ _ _ _ Ep) as Lp.
              apply IH in H; auto; try lia. destruct H as (I1 & I2 & I3 & I4 & I5).
              replace (e - (cur + 4)) with (e - cur - 4) in * by lia.
              cbn [flat_map]. unfold genc4 at 1, gfirst, glast. cbn [fst snd]. rewrite G2.
              repeat split; try lia.
              ** rewrite I1.
                 replace (cur + 4) with (cur + len (le16 (handle_by_index c index) ++ le16 (handle_by_index c (index + svc_nattrs s - 1))))
                   by (unfold len; cbn; lia).
                 rewrite (seg_put_append _ _ _ _ 1 Ep) by lia. rewrite <- !app_assoc. reflexivity.
              ** rewrite I2. unfold len. cbn [length]. lia.
              ** rewrite I5. cbn. rewrite orb_true_r. destruct found; reflexivity.
           ++ apply IH in H; auto; try lia.
        -- apply IH in H; auto; try lia.
    + cbn [andb]. apply IH in H; auto; try lia.
Qed.
