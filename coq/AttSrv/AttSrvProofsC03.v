(* Proofs for property C03: primary service discovery never reports secondary services.
   Read By Group Type is proved in AttSrvProofsC02 (read_by_group_type_spec, walk_first_spec,
   rbg_discover_all); here: Find By Type Value and the statements in terms of [primary_services]. *)
From Coq Require Import Lia ZifyBool.
From BT Require Import Base.ListX AttDb.AttDbModel AttDb.AttDbSpec AttDb.AttDbProofs NQueue.NQueueModel
  AttSrv.AttSrvModel AttSrv.AttSrvSpecC02 AttSrv.AttSrvSpecC03 AttSrv.AttSrvProofsC02.
Local Open Scope N_scope.

(* ================================================================== Find By Type Value *)
Definition genc4 (g : N * N * service_decl) : list N := le16 (gfirst g) ++ le16 (glast g).

(* services_by_group as a walk over the groups *)
Fixpoint fbtv_walk (G : list (N * N * service_decl)) (lo hi : N) (value : list N) (avail : N) : list (N * N * service_decl) :=
  match G with
  | [] => []
  | g :: G' =>
      if (lo <=? gfirst g) && (gfirst g <=? hi) && negb (s_secondary (snd g))
         && bytes_eqb (uuid_bytes (s_uuid (snd g))) value && (4 <=? avail)
      then g :: fbtv_walk G' lo hi value (avail - 4)
      else fbtv_walk G' lo hi value avail
  end.

Lemma erase_service a s : erase a = AService s -> a = AService s.
Proof. destruct a; cbn [erase]; intros H; try discriminate H; exact H. Qed.

Lemma skipn_hd (A : Type) (l : list A) n x t : skipn n l = x :: t -> nth_error l n = Some x.
Proof.
  revert l; induction n as [|n IH]; intros l H; [destruct l; inversion H; reflexivity|].
  destruct l as [|y l']; [discriminate H|]. cbn [skipn nth_error] in *. apply IH. exact H.
Qed.

Lemma sbg_walk c st cid lo hi e value ss : wf c -> no_includes c ->
  forall index b cur found b' cur' found',
  index + sumN svc_nattrs ss = number_of_attributes c ->
  skipn (N.to_nat index) (decl_attrs c) = flat_map svc_decl_attrs ss ->
  1 <= cur -> cur <= e -> e <= len b ->
  services_by_group c st cid ss index (first_index_by_handle c lo) hi value b cur e found = Some (b', cur', found') ->
  let R := fbtv_walk (svc_groups ss (skipn (N.to_nat index) (assign c))) lo hi value (e - cur) in
  seg 1 cur' b' = seg 1 cur b ++ flat_map genc4 R
  /\ cur' = cur + 4 * len R /\ cur' <= e /\ len b' = len b
  /\ found' = (found || match R with [] => false | _ => true end).
Proof.
  intros Hw Hn. induction ss as [|s t IH]; intros index b cur found b' cur' found' HI Hsk Hc1 Hc2 Hl H; cbn [services_by_group] in H.
  - inversion H; subst. cbn [svc_groups fbtv_walk flat_map]. rewrite app_nil_r, orb_false_r. repeat split; try lia. unfold len; cbn; lia.
  - cbn [sumN] in HI. pose proof (svc_nattrs_pos s) as Hp.
    destruct (group_head c s index Hw Hn ltac:(lia)) as (G1 & G2 & G3).
    cbn [svc_groups fbtv_walk]. unfold gfirst, glast. cbn [fst snd]. rewrite G1, G3. cbv zeta in H.
    rewrite (idx_ge_iff c lo index Hw Hn ltac:(lia)) in H.
    (* the next service *)
    assert (Hsk' : skipn (N.to_nat (index + svc_nattrs s)) (decl_attrs c) = flat_map svc_decl_attrs t).
    { replace (N.to_nat (index + svc_nattrs s)) with (N.to_nat index + N.to_nat (svc_nattrs s))%nat by lia.
      rewrite <- skipn_skipn_nat, Hsk. cbn [flat_map].
      pose proof (svc_decl_attrs_len s) as X. unfold len in X.
      rewrite skipn_app. replace (N.to_nat (svc_nattrs s) - length (svc_decl_attrs s))%nat with O by lia.
      rewrite skipn_all2 by lia. reflexivity. }
    assert (Hat : attribute_at c index = Some (AService s)).
    { destruct (table_nth c index Hw Hn ltac:(lia)) as [a [Ha1 Ha2]].
      pose proof (attribute_at_decl c index) as X. rewrite Ha1 in X. cbn [option_map] in X.
      cbn [flat_map] in Hsk. unfold svc_decl_attrs at 1 in Hsk. cbn [app] in Hsk.
      rewrite (skipn_hd _ _ _ _ _ Hsk) in X. injection X as X'. apply erase_service in X'. subst a. exact Ha1. }
    destruct ((lo <=? handle_by_index c index) && (handle_by_index c index <=? hi)) eqn:Ec.
    + rewrite Hat in H. cbn [attr_uuid access_compare_value] in H.
      destruct (s_secondary s) eqn:Es.
      * cbn [negb andb]. change (uuid_secondary_service =? uuid_primary_service) with false in H. cbn [negb] in H.
        apply IH in H; auto; try lia.
      * cbn [negb] in H. change (uuid_primary_service =? uuid_primary_service) with true in H. cbn [negb andb] in H.
        cbn [negb andb].
        destruct (bytes_eqb (uuid_bytes (s_uuid s)) value) eqn:Eb; cbn [andb].
        -- destruct (4 <=? e - cur) eqn:E4.
           ++ destruct (put b cur _) as [b1|] eqn:Ep; [|discriminate].
              pose proof (put_length _ _ _ _ Ep) as Lp.
              apply IH in H; auto; try lia. destruct H as (I1 & I2 & I3 & I4 & I5).
              replace (e - (cur + 4)) with (e - cur - 4) in * by lia.
              cbn [flat_map]. unfold genc4 at 1, gfirst, glast. cbn [fst snd]. rewrite G2.
              repeat split; try lia.
              ** rewrite I1.
                 replace (cur + 4) with (cur + len (le16 (handle_by_index c index) ++ le16 (handle_by_index c (index + svc_nattrs s - 1))))
                   by (unfold len; cbn; lia).
                 rewrite (seg_put_append _ _ _ _ 1 Ep) by lia. rewrite <- !app_assoc. reflexivity.
              ** rewrite I2. unfold len. cbn [length]. lia.
           ++ apply IH in H; auto; try lia.
        -- apply IH in H; auto; try lia.
    + cbn [andb]. apply IH in H; auto; try lia.
Qed.

(* what a complete answer holds: the primary services in lo..hi whose uuid bytes are [value] *)
Definition fbtv_wanted (lo hi : N) (value : list N) (g : N * N * service_decl) : bool :=
  group_wanted lo hi g && bytes_eqb (uuid_bytes (s_uuid (snd g))) value.

Lemma fbtv_cond lo hi value avail (g : N * N * service_decl) :
  (lo <=? gfirst g) && (gfirst g <=? hi) && negb (s_secondary (snd g))
  && bytes_eqb (uuid_bytes (s_uuid (snd g))) value && (4 <=? avail)
  = fbtv_wanted lo hi value g && (4 <=? avail).
Proof. reflexivity. Qed.

Lemma fbtv_walk_blocked G lo hi value avail : avail < 4 -> fbtv_walk G lo hi value avail = [].
Proof.
  intros H. induction G as [|g t IH]; cbn [fbtv_walk]; [reflexivity|].
  replace (4 <=? avail) with false by lia. rewrite andb_false_r. exact IH.
Qed.

Lemma fbtv_walk_prefix G lo hi value avail :
  exists rest, filter (fbtv_wanted lo hi value) G = fbtv_walk G lo hi value avail ++ rest
    /\ (4 <= avail -> fbtv_walk G lo hi value avail = [] -> filter (fbtv_wanted lo hi value) G = []).
Proof.
  revert avail; induction G as [|g t IH]; intros avail; cbn [fbtv_walk filter]; [exists []; split; auto|].
  rewrite fbtv_cond. destruct (fbtv_wanted lo hi value g); cbn [andb].
  - destruct (4 <=? avail) eqn:E.
    + destruct (IH (avail - 4)) as [rest [H1 _]]. exists rest. split; [cbn [app]; f_equal; exact H1|discriminate].
    + rewrite fbtv_walk_blocked by lia. eexists. split; [reflexivity|lia].
  - apply IH.
Qed.

Lemma error_response_seg op code h buf out_size r :
  5 <= out_size -> error_response op code h buf out_size = Some r ->
  snd r = 5 /\ seg 0 5 (fst r) = 1 :: op :: le16 h ++ [code].
Proof.
  intros Ho. unfold error_response. replace (5 <=? out_size) with true by lia.
  destruct (put buf 0 _) as [b'|] eqn:E; [|discriminate]. intros H. inversion H; subst r. cbn [fst snd].
  pose proof (seg_put_self _ _ _ _ E) as Hs. split; auto.
Qed.

Definition fbtv_response (R : list (N * N * service_decl)) (lo out_size : N) (r : resp) : Prop :=
  match R with
  | [] => snd r = 5 /\ seg 0 5 (fst r) = 1 :: 6 :: le16 lo ++ [10]
  | _ => snd r = 1 + (4 * len R) mod 256
         /\ (4 * len R < 256 -> snd r <= out_size /\ snd r <= len (fst r) /\ seg 0 (snd r) (fst r) = 7 :: flat_map genc4 R)
  end.

(* The Find By Type Value response for <<Primary Service>>: determined by the walk over the declared services *)
Theorem find_by_type_value_spec c st cid pdu lo hi value b out_size r :
  wf c -> no_includes c ->
  rd pdu 0 = Some 6 -> (len pdu = 9 \/ len pdu = 23) ->
  rd16 pdu 1 = Some lo -> rd16 pdu 3 = Some hi -> rd16 pdu 5 = Some uuid_primary_service ->
  slice pdu 7 (len pdu) = Some value ->
  1 <= lo -> lo <= hi -> 23 <= out_size -> out_size <= len b ->
  handle_find_by_type_value c st cid pdu b out_size = Some r ->
  fbtv_response (fbtv_walk (groups c) lo hi value (out_size - 1)) lo out_size r.
Proof.
  intros Hw Hn Hop Hlen Hlo' Hhi' Hty Hsl Hlo Hhi Ho Hb H.
  unfold handle_find_by_type_value, check_size_and_handle_range in H. rewrite Hop in H.
  replace (negb (len pdu =? 9) && negb (len pdu =? 23)) with false in H by (destruct Hlen as [-> | ->]; reflexivity).
  rewrite Hlo', Hhi' in H. replace ((lo =? 0) || (hi <? lo)) with false in H by lia.
  destruct (fbtv_walk_prefix (groups c) lo hi value (out_size - 1)) as (rest & W1 & W2).
  destruct (first_index_by_handle c lo =? invalid_index) eqn:Efi.
  - destruct (error_response 6 err_attribute_not_found lo b out_size) as [r'|] eqn:Ee; [|discriminate].
    inversion H; subst r'; clear H. apply error_response_seg in Ee; [|lia].
    assert (HG : filter (fbtv_wanted lo hi value) (groups c) = []).
    { apply filter_all_false. intros g Hg. unfold fbtv_wanted, group_wanted, in_range.
      assert (Hin : In (gentry g) (table c)).
      { assert (X : In (gentry g) (map gentry (groups c))) by (apply in_map; auto).
        rewrite <- table_services in X by auto. apply filter_In in X. tauto. }
      apply (in_map fst) in Hin. rewrite table_handles in Hin by auto. cbn [gentry fst] in Hin.
      apply N.eqb_eq in Efi. rewrite first_index_by_handle_spec in Efi by auto.
      assert (fst (fst g) < lo); [|lia].
      destruct (In_nth _ _ 0 Hin) as [j [Hj1 Hj2]].
      pose proof (first_ge_le_iff 0 (assign c) lo 0 j (assign_increasing c) Hj1) as X.
      pose proof (assign_length c Hw Hn) as Hl. pose proof (wf_attr_bound c Hw) as Hbd.
      rewrite Efi, N.eqb_refl, Hj2 in X. cbn [negb andb] in X.
      assert (0 + N.of_nat (length (assign c)) < invalid_index) by (unfold invalid_index; lia). specialize (X H). lia. }
    rewrite HG in W1. destruct (fbtv_walk (groups c) lo hi value (out_size - 1)); [|discriminate W1]. exact Ee.
  - rewrite Hty, Hsl in H. change (negb (uuid_primary_service =? uuid_primary_service)) with false in H. cbv iota in H.
    destruct (services_by_group c st cid (services c) 0 _ _ _ _ _ _ _) as [[[b1 cur] found]|] eqn:Es; [|discriminate].
    apply sbg_walk in Es; auto; try lia.
    cbn [N.to_nat skipn] in Es. fold (groups c) in Es. destruct Es as (S1 & S2 & S3 & S4 & S5).
    cbn [orb] in S5.
    destruct (fbtv_walk (groups c) lo hi value (out_size - 1)) as [|g R] eqn:Ew.
    + subst found. apply error_response_seg in H; [|lia]. exact H.
    + subst found. destruct (put b1 0 [7]) as [b2|] eqn:Ep; [|discriminate]. inversion H; subst r; clear H.
      cbn [fbtv_response fst snd]. pose proof (put_length _ _ _ _ Ep) as Lp.
      replace (cur - 1) with (4 * len (g :: R)) by lia. split; [lia|]. intros Hsm.
      rewrite N.mod_small by lia. repeat split; try lia.
      rewrite (seg_app 0 1) by lia. replace (4 * len (g :: R) + 1) with cur by lia.
      rewrite (seg_put_other _ _ _ _ 1 cur Ep) by (unfold len; cbn; lia).
      rewrite S1, seg_nil. cbn [app].
      pose proof (seg_put_self _ _ _ _ Ep) as X. change (0 + len [7]) with 1 in X. rewrite X. reflexivity.
Qed.

(* ================================================================== in terms of the declared primary services *)
Definition gtriple (g : N * N * service_decl) : N * N * uuid := (gfirst g, glast g, s_uuid (snd g)).

Lemma primary_services_all c lo hi :
  primary_services c None lo hi = map gtriple (filter (group_wanted lo hi) (groups c)).
Proof.
  unfold primary_services. f_equal. apply filter_ext_in'. intros g _. unfold group_wanted. cbn [uuid_wanted]. apply andb_true_r.
Qed.

(* the value of a Find By Type Value request names the uuid [uuid_of_bytes value] *)
Lemma value_is_uuid u value :
  uuid_ok u = true -> forallb byte_ok value = true ->
  bytes_eqb (uuid_bytes u) value = uuid_eqb u (uuid_of_bytes value).
Proof.
  intros Hu Hv. destruct u as [v|bs]; cbn [uuid_ok] in Hu.
  - destruct value as [|p [|q [|r t]]]; cbn [uuid_bytes bytes_eqb uuid_of_bytes uuid_eqb]; try reflexivity.
    + rewrite andb_false_r. reflexivity.
    + cbn [forallb] in Hv. unfold byte_ok, w16 in *. rewrite andb_true_r.
      assert (Hd : v = 256 * (v / 256) + v mod 256) by (apply N.div_mod; lia).
      assert (Hm : v mod 256 < 256) by (apply N.mod_lt; lia).
      assert (Hq : v / 256 < 256) by (apply N.div_lt_upper_bound; lia).
      rewrite (N.mod_small (v / 256)) by lia.
      destruct (v =? p + 256 * q) eqn:E.
      * apply N.eqb_eq in E. subst v.
        assert (X1 : (p + 256 * q) mod 256 = p) by (symmetry; apply (N.mod_unique _ 256 q p); lia).
        assert (X2 : (p + 256 * q) / 256 = q) by (symmetry; apply (N.div_unique _ 256 q p); lia).
        rewrite X1, X2, !N.eqb_refl. reflexivity.
      * apply N.eqb_neq in E. destruct (v mod 256 =? p) eqn:E1; [|reflexivity]. destruct (v / 256 =? q) eqn:E2; [|reflexivity].
        exfalso. apply E. lia.
    + rewrite !andb_false_r. reflexivity.
  - apply andb_true_iff in Hu. destruct Hu as [Hl _]. apply Nat.eqb_eq in Hl.
    destruct value as [|p [|q [|r t]]]; cbn [uuid_bytes uuid_of_bytes uuid_eqb]; try reflexivity.
    do 3 (destruct bs as [|? bs]; [discriminate Hl|]). cbn [bytes_eqb]. rewrite !andb_false_r. reflexivity.
Qed.

Lemma services_uuid_ok c g : wf c -> In g (groups c) -> uuid_ok (s_uuid (snd g)) = true.
Proof.
  intros Hw Hg.
  assert (Hu : forallb (fun s => uuid_ok (s_uuid s)) (services c) = true).
  { unfold wf, wf_b in Hw. repeat (apply andb_true_iff in Hw; destruct Hw as [Hw ?]).
    apply forallb_forall. intros s Hs.
    match goal with X : forallb (svc_static_ok c) (services c) = true |- _ => rewrite forallb_forall in X; specialize (X s Hs) end.
    unfold svc_static_ok in *. repeat (match goal with X : _ && _ = true |- _ => apply andb_true_iff in X; destruct X end). auto. }
  rewrite forallb_forall in Hu. apply Hu. unfold groups in Hg.
  clear -Hg. revert Hg. generalize (assign c). induction (services c) as [|s t IH]; intros hs Hg; [destruct Hg|].
  cbn [svc_groups] in Hg. destruct Hg as [<-|Hg]; [left; reflexivity|right; eapply IH; eauto].
Qed.

Lemma primary_services_by_uuid c value lo hi :
  wf c -> forallb byte_ok value = true ->
  primary_services c (Some (uuid_of_bytes value)) lo hi = map gtriple (filter (fbtv_wanted lo hi value) (groups c)).
Proof.
  intros Hw Hv. unfold primary_services. f_equal. apply filter_ext_in'. intros g Hg.
  unfold fbtv_wanted, group_wanted. cbn [uuid_wanted]. rewrite value_is_uuid; auto. eapply services_uuid_ok; eauto.
Qed.

(* a client discovering a primary service by its uuid *)
Definition fbtv_responder (c : cfg) (out_size : N) (value : list N) : N -> N -> option (list N * N) :=
  group_responder (fun lo hi => fbtv_walk (groups c) lo hi value (out_size - 1)).

Theorem fbtv_discover_all c out_size value hi :
  wf c -> no_includes c -> 23 <= out_size ->
  forall lo, 1 <= lo ->
    discover_all (S (length (groups c))) (fbtv_responder c out_size value) lo hi
    = hrange (map gfirst (filter (fun g => negb (s_secondary (snd g)) && bytes_eqb (uuid_bytes (s_uuid (snd g))) value) (groups c))) lo hi.
Proof.
  intros Hw Hn Ho lo Hlo. unfold fbtv_responder. apply groups_discover_all; auto.
  intros lo'. destruct (fbtv_walk_prefix (groups c) lo' hi value (out_size - 1)) as (rest & W1 & W2).
  exists rest.
  assert (E : filter (selected_range (fun g => negb (s_secondary (snd g)) && bytes_eqb (uuid_bytes (s_uuid (snd g))) value) lo' hi) (groups c)
              = filter (fbtv_wanted lo' hi value) (groups c)).
  { apply filter_ext_in'. intros g _. unfold selected_range, fbtv_wanted, group_wanted, gfirst. apply andb_assoc. }
  rewrite E. split; [exact W1|apply W2; lia].
Qed.

(* ---- what is reported, in terms of the declared primary services *)
Lemma rbg_reports_primary_services c lo hi out_size :
  23 <= out_size ->
  let W := walk_first (groups c) lo hi (out_size - 2) in
  exists rest, primary_services c None lo hi = map gtriple W ++ rest
               /\ (W = [] -> primary_services c None lo hi = [])
               /\ (forall g, In g W -> s_secondary (snd g) = false /\ In g (groups c) /\ in_range lo hi (gfirst g) = true).
Proof.
  intros Ho W. destruct (walk_first_spec (groups c) lo hi (out_size - 2) ltac:(lia)) as (rest & W1 & W2 & _).
  rewrite primary_services_all. exists (map gtriple rest). fold W in W1, W2. repeat split.
  - rewrite W1, map_app. reflexivity.
  - intros E. rewrite W2 by exact E. reflexivity.
  - assert (X : In g (filter (group_wanted lo hi) (groups c))) by (rewrite W1; apply in_or_app; left; auto).
    apply filter_In in X. destruct X as [_ X]. unfold group_wanted in X. apply andb_true_iff in X. destruct X as [_ X].
    destruct (s_secondary (snd g)); [discriminate X|reflexivity].
  - assert (X : In g (filter (group_wanted lo hi) (groups c))) by (rewrite W1; apply in_or_app; left; auto).
    apply filter_In in X. tauto.
  - assert (X : In g (filter (group_wanted lo hi) (groups c))) by (rewrite W1; apply in_or_app; left; auto).
    apply filter_In in X. destruct X as [_ X]. unfold group_wanted in X. apply andb_true_iff in X. tauto.
Qed.

Lemma fbtv_reports_primary_services c lo hi value out_size :
  wf c -> forallb byte_ok value = true -> 23 <= out_size ->
  let W := fbtv_walk (groups c) lo hi value (out_size - 1) in
  exists rest, primary_services c (Some (uuid_of_bytes value)) lo hi = map gtriple W ++ rest
               /\ (W = [] -> primary_services c (Some (uuid_of_bytes value)) lo hi = [])
               /\ (forall g, In g W -> s_secondary (snd g) = false /\ In g (groups c) /\ in_range lo hi (gfirst g) = true).
Proof.
  intros Hw Hv Ho W. destruct (fbtv_walk_prefix (groups c) lo hi value (out_size - 1)) as (rest & W1 & W2).
  rewrite primary_services_by_uuid by auto. exists (map gtriple rest). fold W in W1, W2.
  assert (Hin : forall g, In g W -> In g (groups c) /\ fbtv_wanted lo hi value g = true).
  { intros g Hg. assert (X : In g (filter (fbtv_wanted lo hi value) (groups c))) by (rewrite W1; apply in_or_app; left; auto).
    apply filter_In in X. exact X. }
  repeat split.
  - rewrite W1, map_app. reflexivity.
  - intros E. rewrite W2 by (auto; lia). reflexivity.
  - destruct (Hin g H) as [_ X]. unfold fbtv_wanted, group_wanted in X.
    apply andb_true_iff in X. destruct X as [X _]. apply andb_true_iff in X. destruct X as [_ X].
    destruct (s_secondary (snd g)); [discriminate X|reflexivity].
  - apply (Hin g H).
  - destruct (Hin g H) as [_ X]. unfold fbtv_wanted, group_wanted in X.
    apply andb_true_iff in X. destruct X as [X _]. apply andb_true_iff in X. tauto.
Qed.

(* ================================================================== at most one service has the requested uuid *)
Lemma bytes_eqb_eq a b : bytes_eqb a b = true -> a = b.
Proof.
  revert b; induction a as [|x a IH]; intros [|y b] H; cbn [bytes_eqb] in H; try discriminate H; [reflexivity|].
  apply andb_true_iff in H. destruct H as [H1 H2]. apply N.eqb_eq in H1. subst y. f_equal. apply IH. exact H2.
Qed.

Lemma uuid_eqb_eq a b : uuid_eqb a b = true -> a = b.
Proof.
  destruct a, b; cbn [uuid_eqb]; intros H; try discriminate H.
  - apply N.eqb_eq in H. subst. reflexivity.
  - apply bytes_eqb_eq in H. subst. reflexivity.
Qed.

Lemma uuid_eqb_refl a : uuid_eqb a a = true.
Proof.
  destruct a; cbn [uuid_eqb]; [apply N.eqb_refl|]. induction bytes as [|x t IH]; cbn [bytes_eqb]; [reflexivity|].
  rewrite N.eqb_refl. exact IH.
Qed.

Lemma in_list_false u l : in_list u l = false -> forall x, In x l -> uuid_eqb u x = false.
Proof.
  unfold in_list. induction l as [|y t IH]; intros H x Hx; [destruct Hx|].
  cbn [index_of] in H. destruct (uuid_eqb u y) eqn:E.
  - unfold len in H. cbn [length] in H. apply negb_false_iff, N.eqb_eq in H. lia.
  - destruct Hx as [<-|Hx]; [exact E|]. apply IH; auto.
    apply negb_false_iff, N.eqb_eq in H. apply negb_false_iff, N.eqb_eq. unfold len in *. cbn [length] in H. lia.
Qed.

Lemma unique_match (ss : list service_decl) (U : uuid) :
  uuids_unique (map s_uuid ss) = true ->
  (length (filter (fun s => uuid_eqb (s_uuid s) U) ss) <= 1)%nat.
Proof.
  induction ss as [|s t IH]; intros Hu; cbn [filter length]; [lia|].
  cbn [map uuids_unique] in Hu. apply andb_true_iff in Hu. destruct Hu as [H1 H2]. apply negb_true_iff in H1.
  destruct (uuid_eqb (s_uuid s) U) eqn:E; [|apply IH; exact H2].
  apply uuid_eqb_eq in E. subst U.
  rewrite (filter_all_false _ t); [cbn [length]; lia|].
  intros x Hx. destruct (uuid_eqb (s_uuid x) (s_uuid s)) eqn:E2; [|reflexivity].
  apply uuid_eqb_eq in E2. pose proof (in_list_false _ _ H1 (s_uuid x) (in_map s_uuid _ _ Hx)) as X.
  rewrite E2, uuid_eqb_refl in X. discriminate X.
Qed.

Lemma groups_services ss hs : map snd (svc_groups ss hs) = ss.
Proof. revert hs; induction ss as [|s t IH]; intros hs; cbn [svc_groups map snd]; [reflexivity|]. f_equal. apply IH. Qed.

Lemma filter_map_snd (f : service_decl -> bool) (G : list (N * N * service_decl)) :
  length (filter (fun g => f (snd g)) G) = length (filter f (map snd G)).
Proof. induction G as [|g t IH]; cbn [filter map]; [reflexivity|]. destruct (f (snd g)); cbn [length]; rewrite IH; reflexivity. Qed.

Lemma fbtv_walk_at_most_one c lo hi value avail :
  wf c -> forallb byte_ok value = true -> len (fbtv_walk (groups c) lo hi value avail) <= 1.
Proof.
  intros Hw Hv. destruct (fbtv_walk_prefix (groups c) lo hi value avail) as (rest & W1 & _).
  assert (Hle : (length (filter (fbtv_wanted lo hi value) (groups c)) <= 1)%nat).
  { assert (Hu : uuids_unique (map s_uuid (services c)) = true).
    { unfold wf, wf_b in Hw. repeat (apply andb_true_iff in Hw; destruct Hw as [Hw ?]). assumption. }
    pose proof (unique_match (services c) (uuid_of_bytes value) Hu) as X.
    rewrite <- (groups_services (services c) (assign c)) in X. fold (groups c) in X. rewrite <- filter_map_snd in X.
    eapply Nat.le_trans; [|exact X]. clear X.
    assert (E : filter (fbtv_wanted lo hi value) (groups c)
                = filter (fun g => group_wanted lo hi g) (filter (fun g => uuid_eqb (s_uuid (snd g)) (uuid_of_bytes value)) (groups c))).
    { rewrite filter_filter. apply filter_ext_in'. intros g Hg. unfold fbtv_wanted.
      rewrite value_is_uuid by (auto; eapply services_uuid_ok; eauto). apply andb_comm. }
    rewrite E. apply filter_len_le. }
  rewrite W1, app_length in Hle. unfold len. lia.
Qed.

(* the Find By Type Value response without the size premise *)
Theorem find_by_type_value_spec' c st cid pdu lo hi value b out_size r :
  wf c -> no_includes c -> forallb byte_ok value = true ->
  rd pdu 0 = Some 6 -> (len pdu = 9 \/ len pdu = 23) ->
  rd16 pdu 1 = Some lo -> rd16 pdu 3 = Some hi -> rd16 pdu 5 = Some uuid_primary_service ->
  slice pdu 7 (len pdu) = Some value ->
  1 <= lo -> lo <= hi -> 23 <= out_size -> out_size <= len b ->
  handle_find_by_type_value c st cid pdu b out_size = Some r ->
  match fbtv_walk (groups c) lo hi value (out_size - 1) with
  | [] => snd r = 5 /\ seg 0 5 (fst r) = 1 :: 6 :: le16 lo ++ [10]
  | g :: W => W = [] /\ snd r = 5 /\ 5 <= len (fst r) /\ seg 0 5 (fst r) = 7 :: genc4 g
  end.
Proof.
  intros Hw Hn Hv Hop Hlen Hlo' Hhi' Hty Hsl Hlo Hhi Ho Hb H.
  pose proof (fbtv_walk_at_most_one c lo hi value (out_size - 1) Hw Hv) as H1.
  apply (find_by_type_value_spec c st cid pdu lo hi value b out_size r) in H; auto.
  unfold fbtv_response in H. destruct (fbtv_walk (groups c) lo hi value (out_size - 1)) as [|g W]; [exact H|].
  assert (W = []) by (destruct W; [reflexivity|unfold len in H1; cbn [length] in H1; lia]). subst W.
  destruct H as [H2 H3]. change (4 * len [g]) with 4 in *. change (4 mod 256) with 4 in H2.
  destruct (H3 ltac:(lia)) as (H4 & H5 & H6). rewrite H2 in *. cbn [flat_map] in H6. rewrite app_nil_r in H6.
  repeat split; auto.
Qed.
