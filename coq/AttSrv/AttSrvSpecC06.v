(* Property C06: reads and writes follow the attribute value semantics.
   Executable monitor over observed (operation, output) pairs; it runs the reference semantics of
   AttSrvSpecVal.v (abstract value store) beside the trace and never looks at model state. Requests whose
   reference result is a security error are C05's and are not judged here (the store is still expected
   unchanged).

   Clauses (tags):
     write_exact        a Write Request that has to succeed is refused (or one that has to fail for its offset /
                        length is accepted), or after an accepted write the value is not exactly the old value
                        with the written bytes at the written position
     rejected_changes   a value differs although the last write-like request naming it was rejected, only
                        prepared, or cancelled
     read_value         Read / Read Blob do not return the current value bytes from the offset, truncated to MTU - 1
     invalid_offset     Read Blob past the end is not answered with Invalid Offset (or Invalid Offset is answered
                        for an offset inside the value)
     permission         no_read_access / no_write_access / const / fixed / cstring values / missing handlers are not
                        enforced on Read, Read Blob, Read By Type, Read Multiple, Write Request (code 02 / 03)
     properties_match   the properties byte of a characteristic declaration differs from what the permissions allow *)
From BT Require Import Base.ListX AttDb.AttDbModel NQueue.NQueueModel AttSrv.AttSrvModel AttSrv.AttSrvSpecVal.
Local Open Scope N_scope.

Definition t_write_exact := 1%nat.
Definition t_rejected_changes := 2%nat.
Definition t_read_value := 3%nat.
Definition t_invalid_offset := 4%nat.
Definition t_permission := 5%nat.
Definition t_properties_match := 6%nat.

(* a value was found different from the reference store: which clause, by the last event naming it *)
Definition changed_tag (mark : nat) (default : nat) : nat :=
  if Nat.eqb mark m_written || Nat.eqb mark m_executed then t_write_exact
  else if Nat.eqb mark m_none then default
  else t_rejected_changes.

Definition error_code_of (resp : list N) : option N :=
  match resp with [1; _; _; _; e] => Some e | _ => None end.

Definition judge (c : cfg) (a : astate) (o : srv_op) (x : expect) (r : srv_out) : verdict :=
  match o, r with
  | OpIn cid pdu n, OBytes resp =>
      match x with
      | XResp kind exp g rsp =>
          if is_sec exp || list_eqb resp rsp then Ok
          else if Nat.eqb kind k_read then
            match exp, error_code_of resp with
            | AErr 2, _ => Bad t_permission
            | AErr 7, _ => Bad t_invalid_offset
            | AErr _, _ => Bad t_read_value
            | AOk, Some 7 => Bad t_invalid_offset
            | AOk, Some 2 => Bad t_permission
            | AOk, Some _ => Bad t_read_value
            | AOk, None => Bad (changed_tag (match g with Some gi => nth gi (as_marks a) m_none | None => m_none end) t_read_value)
            end
          else if Nat.eqb kind k_write then
            match exp, error_code_of resp with
            | AErr 3, _ => Bad t_permission
            | AErr 2, _ => Bad t_permission
            | _, Some 3 => Bad t_permission
            | _, Some 2 => Bad t_permission
            | _, _ => Bad t_write_exact
            end
          else Ok
      | XProps p =>
          match resp with
          | h :: p' :: _ => if (h =? 11) && negb (p' =? p) then Bad t_properties_match else Ok
          | _ => Ok
          end
      | _ =>
          match pdu with
          | op :: hs =>
              if op =? 8 then                                   (* Read By Type Response *)
                match resp with
                | 9 :: l :: entries =>
                    if existsb (unreadable_handle c) (entry_handles (length entries) (N.to_nat l) entries)
                    then Bad t_permission else Ok
                | _ => Ok
                end
              else if op =? 14 then                             (* Read Multiple Response *)
                match resp with
                | 15 :: _ => if existsb (unreadable_handle c) (pair_handles hs) then Bad t_permission else Ok
                | _ => Ok
                end
              else Ok
          | [] => Ok
          end
      end
  | OpVal g, OValue v _ =>
      match x with
      | XVal _ v' _ => if list_eqb v v' then Ok else Bad (changed_tag (nth g (as_marks a) m_none) t_write_exact)
      | _ => Ok
      end
  | _, _ => Ok
  end.

Definition mstep (c : cfg) (m : mon) (o : srv_op) (r : srv_out) : verdict * mon := mstep_with judge c m o r.
Definition monitor_from (c : cfg) (m : mon) (pos : nat) (tr : list (srv_op * srv_out)) : option (nat * nat) :=
  monitor_from_with judge c m pos tr.
Definition monitor (c : cfg) (tr : list (srv_op * srv_out)) : option (nat * nat) := monitor_from c (minit c) O tr.
