(* The executable monitors of C03 (and C02) accept the traces of the model.
   Part M1  what one answer of a good responder says about the rest of the session
   Part M2  decoding the encodings of AttSrvProofsC02 / C03 (parse_resp after genc / genc4 / fenc)
   Part M3  the judgement of one response, the session step
   Part M4  C03: every fault free trace of the model is accepted *)
From Coq Require Import Lia ZifyBool.
From BT Require Import Base.ListX AttDb.AttDbModel AttDb.AttDbSpec AttDb.AttDbProofs NQueue.NQueueModel
  AttSrv.AttSrvModel AttSrv.AttSrvSpecC02 AttSrv.AttSrvSpecC03 AttSrv.AttSrvProofsC02 AttSrv.AttSrvProofsC03.
From BT Require AttSrv.AttSrvProofsC01.
Local Open Scope N_scope.

(* ================================================================== Part M1 *)
Lemma responder_next l hi r lo hs cnt :
  increasing_from 0 l = true -> good_responder l hi r -> 1 <= lo -> lo <= hi -> r lo hi = Some (hs, cnt) ->
  hs <> [] /\ last hs 0 <= cnt /\ lo <= last hs 0 /\ hrange l lo hi = hs ++ hrange l (cnt + 1) hi.
Proof.
  intros Hs Hr Hlo Hhi E. specialize (Hr lo Hlo Hhi). rewrite E in Hr.
  destruct Hr as (Hne & Hc1 & Hc2 & rest & Hrest).
  assert (Hsort : increasing_from 0 (hs ++ rest) = true) by (rewrite <- Hrest; apply increasing_from_filter; auto).
  assert (Hin : In (last hs 0) (hrange l lo hi)) by (rewrite Hrest; apply in_or_app; left; apply last_in; auto).
  apply filter_In in Hin. destruct Hin as [Hin1 Hin2]. unfold in_range in Hin2.
  pose proof (sorted_split _ _ _ Hsort Hne) as Hsp.
  repeat split; auto; [lia|]. rewrite Hrest. f_equal. symmetry.
  transitivity (hrange l (last hs 0 + 1) hi).
  - unfold hrange. apply filter_ext_in'. intros x Hx. unfold in_range.
    destruct (last hs 0 + 1 <=? x) eqn:E1; [specialize (Hc2 x Hx ltac:(lia)); lia|].
    replace (cnt + 1 <=? x) with false by lia. reflexivity.
  - rewrite (hrange_narrow l lo hi) by lia. rewrite Hrest. exact Hsp.
Qed.

Lemma hrange_beyond l hi cnt :
  (forall h, In h l -> h <= 65535) -> (hi <=? cnt) || (65535 <=? cnt) = true -> hrange l (cnt + 1) hi = [].
Proof.
  intros Hb H. apply filter_all_false. intros x Hx. specialize (Hb x Hx). unfold in_range. lia.
Qed.

(* the answers of a group discovery are those of a good responder *)
Lemma groups_good_responder c P walk hi :
  wf c -> no_includes c ->
  (forall lo, exists rest, filter (selected_range P lo hi) (groups c) = walk lo hi ++ rest
                           /\ (walk lo hi = [] -> filter (selected_range P lo hi) (groups c) = [])) ->
  good_responder (map gfirst (filter P (groups c))) hi (group_responder walk).
Proof.
  intros Hw Hn Hwalk. pose proof (groups_sorted c Hw Hn) as Hs.
  intros lo' Hlo1 Hlo2. unfold group_responder.
  destruct (Hwalk lo') as (rest & W1 & W2).
  rewrite selected_starts_range.
  destruct (walk lo' hi) as [|g W] eqn:Ew.
  - rewrite W2 by reflexivity. reflexivity.
  - assert (Hsf : blocks_sorted 0 ((g :: W) ++ rest) = true) by (rewrite <- W1; apply blocks_sorted_filter; exact Hs).
    assert (Hne : g :: W <> []) by discriminate.
    assert (Hlast_eq : last (map gfirst (g :: W)) 0 = gfirst (last (g :: W) g)).
    { rewrite (last_default (map gfirst (g :: W)) 0 (gfirst g)) by discriminate. apply map_last. discriminate. }
    rewrite Hlast_eq.
    repeat split.
    + discriminate.
    + apply (blocks_sorted_last_le 0 _ rest); auto.
    + intros h Hin Hlt.
      apply in_map_iff in Hin. destruct Hin as [g' [<- Hg']].
      assert (Hall : blocks_sorted 0 (filter P (groups c)) = true) by (apply blocks_sorted_filter; exact Hs).
      assert (Hlast : In (last (g :: W) g) (filter P (groups c))).
      { assert (X : In (last (g :: W) g) (filter (selected_range P lo' hi) (groups c))).
        { rewrite W1. apply in_or_app. left. apply last_in_list. discriminate. }
        apply filter_In in X. destruct X as [X1 X2]. apply filter_In. split; auto.
        unfold selected_range in X2. apply andb_true_iff in X2. tauto. }
      revert Hall Hg' Hlast Hlt. generalize (filter P (groups c)) (last (g :: W) g) 0.
      clear. intros L w p. revert p. induction L as [|x t IH]; intros p Hall Hin' Hlast Hlt; [destruct Hin'|].
      cbn [blocks_sorted] in Hall. apply andb_true_iff in Hall. destruct Hall as [Ha H3]. apply andb_true_iff in Ha. destruct Ha as [H1 H2].
      destruct Hlast as [->|Hlast].
      * destruct Hin' as [->|Hin']; [lia|].
        clear IH. revert H3 Hin'. generalize (glast w). induction t as [|y r IHr]; intros q H3 Hin'; [destruct Hin'|].
        cbn [blocks_sorted] in H3. apply andb_true_iff in H3. destruct H3 as [H3 H5]. apply andb_true_iff in H3. destruct H3 as [H3 H4].
        destruct Hin' as [->|Hin']; [lia|]. specialize (IHr _ H5 Hin'). lia.
      * destruct Hin' as [->|Hin']; [|apply (IH (glast x)); auto].
        exfalso. assert (glast g' < gfirst w); [|lia].
        clear IH Hlt. revert H3 Hlast. generalize (glast g'). induction t as [|y r IHr]; intros q H3 Hlast; [destruct Hlast|].
        cbn [blocks_sorted] in H3. apply andb_true_iff in H3. destruct H3 as [H3 H5]. apply andb_true_iff in H3. destruct H3 as [H3 H4].
        destruct Hlast as [->|Hlast]; [lia|]. specialize (IHr _ H5 Hlast). lia.
    + exists (map gfirst rest). rewrite W1, map_app. reflexivity.
Qed.

(* ================================================================== Part M2: decoding *)
Lemma w16_le16 x : x < 65536 -> w16 (x mod 256) ((x / 256) mod 256) = x.
Proof.
  intros H. unfold w16. assert (Hq : x / 256 < 256) by (apply N.div_lt_upper_bound; lia).
  rewrite (N.mod_small (x / 256)) by lia. pose proof (N.div_mod x 256 ltac:(lia)). lia.
Qed.

Lemma uuid_of_uuid_bytes u : uuid_ok u = true -> uuid_of_bytes (uuid_bytes u) = u.
Proof.
  destruct u as [v|b]; cbn [uuid_ok uuid_bytes uuid_of_bytes]; intros H.
  - f_equal. apply w16_le16. lia.
  - apply andb_true_iff in H. destruct H as [H _]. apply Nat.eqb_eq in H.
    do 3 (destruct b as [|? b]; [discriminate H|]). reflexivity.
Qed.

Lemma skipn_app_exact (A : Type) (l1 l2 : list A) n : length l1 = n -> skipn n (l1 ++ l2) = l2.
Proof. intros <-. rewrite skipn_app, skipn_all, Nat.sub_diag. reflexivity. Qed.
Lemma firstn_app_exact (A : Type) (l1 l2 : list A) n : length l1 = n -> firstn n (l1 ++ l2) = l1.
Proof. intros <-. rewrite firstn_app, firstn_all, Nat.sub_diag. cbn [firstn]. apply app_nil_r. Qed.

Lemma chunks_flat_map (A : Type) (enc : A -> list N) (n : nat) (W : list A) fuel :
  (0 < n)%nat -> (forall g, In g W -> length (enc g) = n) -> (length (flat_map enc W) <= fuel)%nat ->
  chunks fuel n (flat_map enc W) = Some (map enc W).
Proof.
  intros Hn. revert fuel; induction W as [|g t IH]; intros fuel Hl Hf; cbn [flat_map map]; [destruct fuel; reflexivity|].
  assert (Hg : length (enc g) = n) by (apply Hl; left; reflexivity).
  cbn [flat_map] in Hf. rewrite app_length in Hf.
  pose proof (skipn_app_exact _ (enc g) (flat_map enc t) n Hg) as Hsk.
  pose proof (firstn_app_exact _ (enc g) (flat_map enc t) n Hg) as Hfi.
  assert (Hlen : length (enc g ++ flat_map enc t) = (n + length (flat_map enc t))%nat) by (rewrite app_length; lia).
  destruct fuel as [|f]; [lia|].
  destruct (enc g ++ flat_map enc t) as [|x l] eqn:E; [cbn [length] in Hlen; lia|].
  cbn [chunks]. rewrite Hlen, Hsk, Hfi.
  replace ((n + length (flat_map enc t) <? n)%nat || (n =? 0)%nat) with false
    by (symmetry; apply orb_false_iff; split; [apply Nat.ltb_ge; lia|apply Nat.eqb_neq; lia]).
  rewrite IH by (try (intros; apply Hl; right; assumption); lia). reflexivity.
Qed.

(* ================================================================== Part M3: judging *)
Lemma ascending_from_increasing p l : ascending_from p l = increasing_from p l.
Proof. revert p; induction l as [|x t IH]; intros p; cbn [ascending_from increasing_from]; [reflexivity|]. rewrite IH. reflexivity. Qed.

Lemma ascending_of_increasing p l : increasing_from p l = true -> ascending l = true.
Proof.
  destruct l as [|x t]; [reflexivity|]. cbn [ascending increasing_from]. intros H. apply andb_true_iff in H.
  rewrite ascending_from_increasing. tauto.
Qed.

Lemma exact_ok_eq (M : list (N * attr)) acc : map fst M = acc -> exact_ok (fun _ => true) M acc = true.
Proof.
  revert acc; induction M as [|[x a] t IH]; intros acc H; cbn [map] in H; subst acc; cbn [exact_ok map fst]; [reflexivity|].
  rewrite N.eqb_refl. apply IH. reflexivity.
Qed.

Lemma run_ok_prefix (M : list (N * attr)) hs rest : map fst M = hs ++ rest -> run_ok (fun _ => true) M hs = true.
Proof.
  revert M; induction hs as [|h t IH]; intros M H; [destruct M as [|[? ?] ?]; reflexivity|].
  destruct M as [|[x a] M']; [discriminate H|]. cbn [map fst app] in H. inversion H; subst x.
  cbn [run_ok]. rewrite N.eqb_refl. apply IH. assumption.
Qed.

Lemma none_required_all (M : list (N * attr)) : none_required (fun _ => true) M = match M with [] => true | _ => false end.
Proof. destruct M; reflexivity. Qed.

(* ---- client sessions: what the monitor remembers is consistent with the handle list of the request kind *)
Definition sess_ok (L : dkind -> list N) (s : session) : Prop :=
  hrange (L (ss_kind s)) (ss_lo0 s) (ss_hi s) = ss_acc s ++ hrange (L (ss_kind s)) (ss_next s) (ss_hi s).
Definition mon_ok (L : dkind -> list N) (m : mon) : Prop :=
  forall cid s, nth cid m None = Some s -> sess_ok L s.

Lemma dkind_eqb_eq a b : dkind_eqb a b = true -> a = b.
Proof. destruct a, b; cbn [dkind_eqb]; intros H; try discriminate H; try reflexivity. apply uuid_eqb_eq in H. subst. reflexivity. Qed.

Lemma mon_ok_upd_none L m cid : mon_ok L m -> mon_ok L (upd m cid None).
Proof.
  intros H i s Hn. destruct (Nat.eq_dec cid i) as [->|Hne].
  - destruct (Nat.lt_ge_cases i (length m)); [rewrite nth_upd_eq in Hn by auto; discriminate Hn|rewrite upd_out in Hn by auto; eapply H; eauto].
  - rewrite nth_upd_neq in Hn by auto. eapply H; eauto.
Qed.

Lemma mon_ok_upd_some L m cid s : mon_ok L m -> sess_ok L s -> mon_ok L (upd m cid (Some s)).
Proof.
  intros H Hs i s' Hn. destruct (Nat.eq_dec cid i) as [->|Hne].
  - destruct (Nat.lt_ge_cases i (length m)); [rewrite nth_upd_eq in Hn by auto; inversion Hn; subst; auto|rewrite upd_out in Hn by auto; eapply H; eauto].
  - rewrite nth_upd_neq in Hn by auto. eapply H; eauto.
Qed.

Lemma mon_ok_init L : mon_ok L (repeat None n_conns).
Proof. intros i s H. cbn in H. destruct i as [|[|[|[|i]]]]; discriminate H. Qed.

(* what [continued] hands over is consistent *)
Lemma continued_ok L m cid k lo hi lo0 acc :
  mon_ok L m -> continued (nth cid m None) k lo hi = (lo0, acc) ->
  hrange (L k) lo0 hi = acc ++ hrange (L k) lo hi.
Proof.
  intros Hm H. unfold continued in H. destruct (nth cid m None) as [s|] eqn:En.
  - destruct (dkind_eqb (ss_kind s) k && (ss_hi s =? hi) && (ss_next s =? lo)) eqn:E.
    + apply andb_true_iff in E. destruct E as [E E3]. apply andb_true_iff in E. destruct E as [E1 E2].
      apply dkind_eqb_eq in E1. apply N.eqb_eq in E2, E3. inversion H; subst. apply (Hm _ _ En).
    + inversion H; subst. reflexivity.
  - inversion H; subst. reflexivity.
Qed.

(* the session step on an answer that is right for lo..hi *)
Lemma session_step_ok L m cid k lo hi p judge (expected : N -> list (N * attr)) tnf ten :
  mon_ok L m ->
  (forall l', map fst (expected l') = hrange (L k) l' hi) ->
  (forall h, In h (L k) -> h <= 65535) ->
  match p with
  | PError _ code => code = err_attribute_not_found /\ hrange (L k) lo hi = []
  | PEntries es => judge es = Ok /\ hrange (L k) lo hi = map entry_handle es ++ hrange (L k) (last (map entry_end es) 0 + 1) hi
  | PBroken => False
  end ->
  exists m', session_step m cid k lo hi p judge expected (fun _ => true) tnf ten = (Ok, m') /\ mon_ok L m'.
Proof.
  intros Hm Hexp Hb Hp. unfold session_step.
  destruct (continued (nth cid m None) k lo hi) as [lo0 acc] eqn:Ec.
  pose proof (continued_ok L m cid k lo hi lo0 acc Hm Ec) as Hc.
  destruct p as [h code|es|]; [| |destruct Hp].
  - destruct Hp as [-> Hp]. rewrite N.eqb_refl, none_required_all. cbn [andb].
    assert (He : expected lo = []) by (specialize (Hexp lo); rewrite Hp in Hexp; destruct (expected lo); [reflexivity|discriminate Hexp]).
    rewrite He. unfold finish. rewrite exact_ok_eq by (rewrite Hexp, Hc, Hp; apply app_nil_r).
    eexists. split; [reflexivity|]. apply mon_ok_upd_none; auto.
  - destruct Hp as [Hj Hp]. rewrite Hj. cbv zeta.
    destruct ((hi <=? last (map entry_end es) 0) || (65535 <=? last (map entry_end es) 0)) eqn:Ee.
    + unfold finish. rewrite exact_ok_eq.
      * eexists. split; [reflexivity|]. apply mon_ok_upd_none; auto.
      * rewrite Hexp, Hc, Hp. rewrite (hrange_beyond (L k) hi _ Hb Ee), app_nil_r. reflexivity.
    + eexists. split; [reflexivity|]. apply mon_ok_upd_some; auto.
      unfold sess_ok. cbn [ss_kind ss_lo0 ss_hi ss_next ss_acc]. rewrite Hc, Hp, app_assoc. reflexivity.
Qed.

(* ================================================================== Part M4: C03 *)
Definition kind_u (k : dkind) : option uuid := match k with KType u => Some u | _ => None end.
Definition svc_sel (u : option uuid) (g : N * N * service_decl) : bool := negb (s_secondary (snd g)) && uuid_wanted u (snd g).
Definition L03 (c : cfg) (k : dkind) : list N := map gfirst (filter (svc_sel (kind_u k)) (groups c)).

Lemma svc_matching_groups c u lo hi :
  wf c -> no_includes c ->
  svc_matching c u lo hi = map gentry (filter (selected_range (svc_sel u) lo hi) (groups c)).
Proof.
  intros Hw Hn. unfold svc_matching. rewrite matching_groups by auto.
  induction (groups c) as [|g t IH]; [reflexivity|]. cbn [filter].
  unfold selected_range at 1, svc_sel at 1, group_wanted at 1. fold (gfirst g).
  destruct (in_range lo hi (gfirst g)), (s_secondary (snd g)); cbn [negb andb map filter gentry snd]; try exact IH.
  destruct (uuid_wanted u (snd g)); cbn [map]; rewrite IH; reflexivity.
Qed.

Lemma svc_matching_handles c u lo hi :
  wf c -> no_includes c -> map fst (svc_matching c u lo hi) = hrange (map gfirst (filter (svc_sel u) (groups c))) lo hi.
Proof.
  intros Hw Hn. rewrite svc_matching_groups, selected_starts_range by auto. rewrite map_map. reflexivity.
Qed.

Lemma group_handles_bounded c (g : N * N * service_decl) :
  wf c -> no_includes c -> In g (groups c) -> gfirst g <= 65535 /\ glast g <= 65535 /\ gfirst g <= glast g.
Proof.
  intros Hw Hn Hg. unfold groups in Hg. pose proof (assign_length c Hw Hn) as Hl.
  assert (Hb : forall x, In x (assign c) -> x < 65536) by (intros; eapply assign_upper; eauto).
  pose proof (assign_increasing c) as Hs.
  unfold number_of_attributes in Hl. revert Hg Hl Hb Hs. generalize (assign c) 0. induction (services c) as [|s t IH]; intros hs p Hg Hl Hb Hs; [destruct Hg|].
  cbn [svc_groups sumN] in *. pose proof (svc_nattrs_pos s) as Hp. set (n := N.to_nat (svc_nattrs s)) in *.
  destruct Hg as [<-|Hg].
  - unfold gfirst, glast. cbn [fst snd].
    assert (In (nth 0 hs 0) hs) by (apply nth_In; lia). assert (In (nth (n - 1) hs 0) hs) by (apply nth_In; lia).
    pose proof (Hb _ H). pose proof (Hb _ H0). pose proof (increasing_nth_le p hs 0 (n - 1) Hs ltac:(lia) ltac:(lia)). lia.
  - apply (IH (skipn n hs) (nth (n - 1) hs 0)); auto.
    + rewrite skipn_length. lia.
    + intros x Hx. apply Hb. rewrite <- (firstn_skipn n hs). apply in_or_app. right. exact Hx.
    + apply (increasing_skipn p); auto; lia.
Qed.

Lemma L03_bounded c k h : wf c -> no_includes c -> In h (L03 c k) -> h <= 65535.
Proof.
  intros Hw Hn Hh. unfold L03 in Hh. apply in_map_iff in Hh. destruct Hh as [g [<- Hg]]. apply filter_In in Hg.
  apply (group_handles_bounded c g Hw Hn). tauto.
Qed.

Lemma find_group_in p G g :
  blocks_sorted p G = true -> In g G -> find (fun x => fst (fst x) =? gfirst g) G = Some g.
Proof.
  revert p; induction G as [|x t IH]; intros p Hs Hin; [destruct Hin|].
  cbn [blocks_sorted] in Hs. apply andb_true_iff in Hs. destruct Hs as [Hs H3]. apply andb_true_iff in Hs. destruct Hs as [H1 H2].
  cbn [find]. fold (gfirst x). destruct (gfirst x =? gfirst g) eqn:E.
  - destruct Hin as [->|Hin]; [reflexivity|]. exfalso. apply N.eqb_eq in E.
    assert (glast x < gfirst g); [|lia].
    clear IH E. revert H3 Hin. generalize (glast x). induction t as [|y r IHr]; intros q H3 Hin; [destruct Hin|].
    cbn [blocks_sorted] in H3. apply andb_true_iff in H3. destruct H3 as [H3 H5]. apply andb_true_iff in H3. destruct H3 as [H3 H4].
    destruct Hin as [->|Hin]; [lia|]. specialize (IHr _ H5 Hin). lia.
  - destruct Hin as [->|Hin]; [rewrite N.eqb_refl in E; discriminate E|]. apply (IH (glast x)); auto.
Qed.

Definition gentry3 (u : option uuid) (g : N * N * service_decl) : entry :=
  EGroup (gfirst g) (glast g) (match u with Some x => x | None => s_uuid (snd g) end).

(* the judgement of the groups W reported for lo..hi *)
Lemma judge_groups_ok c u lo hi W rest :
  wf c -> no_includes c -> W <> [] ->
  filter (selected_range (svc_sel u) lo hi) (groups c) = W ++ rest ->
  judge_groups c u lo hi (map (gentry3 u) W) = Ok.
Proof.
  intros Hw Hn Hne HW. pose proof (groups_sorted c Hw Hn) as Hs.
  assert (Hin : forall g, In g W -> In g (groups c) /\ selected_range (svc_sel u) lo hi g = true).
  { intros g Hg. assert (X : In g (filter (selected_range (svc_sel u) lo hi) (groups c))) by (rewrite HW; apply in_or_app; left; auto).
    apply filter_In in X. exact X. }
  unfold judge_groups. cbv zeta.
  assert (Hfb : first_bad (map (judge_group c) (map (gentry3 u) W)) = Ok).
  { clear HW Hne. induction W as [|g t IH]; [reflexivity|]. cbn [map first_bad].
    destruct (Hin g ltac:(left; reflexivity)) as [Hg1 Hg2].
    unfold judge_group at 1, gentry3 at 1, find_group. rewrite (find_group_in 0 (groups c) g Hs Hg1).
    destruct g as [[f l] s]. unfold selected_range, svc_sel, gfirst, glast in *. cbn [fst snd] in *.
    apply andb_true_iff in Hg2. destruct Hg2 as [_ Hg2]. apply andb_true_iff in Hg2. destruct Hg2 as [Hg2 Hg3].
    apply negb_true_iff in Hg2. rewrite Hg2, N.eqb_refl. cbn [negb].
    replace (uuid_eqb (s_uuid s) match u with Some x => x | None => s_uuid s end) with true
      by (destruct u; [symmetry; exact Hg3|symmetry; apply uuid_eqb_refl]).
    cbn [negb]. apply IH. intros g' Hg'. apply Hin. right. exact Hg'. }
  rewrite Hfb.
  assert (Hhs : map entry_handle (map (gentry3 u) W) = map gfirst W) by (rewrite map_map; reflexivity).
  rewrite Hhs. destruct W as [|g0 W0]; [congruence|]. cbn [map]. cbv iota.
  replace (forallb (in_range lo hi) (gfirst g0 :: map gfirst W0)) with true.
  2:{ symmetry. change (gfirst g0 :: map gfirst W0) with (map gfirst (g0 :: W0)). apply forallb_forall. intros h Hh. apply in_map_iff in Hh. destruct Hh as [g [<- Hg]].
      destruct (Hin g Hg) as [_ X]. unfold selected_range in X. apply andb_true_iff in X. tauto. }
  cbn [negb].
  assert (Hsorted : increasing_from 0 (map gfirst ((g0 :: W0) ++ rest)) = true).
  { rewrite <- HW. apply blocks_sorted_firsts. apply blocks_sorted_filter. exact Hs. }
  rewrite map_app in Hsorted. apply increasing_from_app in Hsorted. destruct Hsorted as [Hsorted _].
  change (gfirst g0 :: map gfirst W0) with (map gfirst (g0 :: W0)).
  rewrite (ascending_of_increasing 0) by exact Hsorted. cbn [negb].
  rewrite (run_ok_prefix _ _ (map gfirst rest)); [reflexivity|].
  rewrite svc_matching_handles, selected_starts_range, HW, map_app by auto. reflexivity.
Qed.

(* ---- the requests *)
Lemma c03_parse_inv pdu r :
  c03_parse pdu = Some r ->
  exists a b x y v,
    (r = RGroup (w16 a b) (w16 x y) /\ pdu = [16; a; b; x; y; 0; 40] /\ v = [])
    \/ (r = RValue (uuid_of_bytes v) (w16 a b) (w16 x y) /\ pdu = 6 :: a :: b :: x :: y :: 0 :: 40 :: v
        /\ (length v = 2 \/ length v = 16)%nat).
Proof.
  unfold c03_parse. do 7 (destruct pdu as [|? pdu]; [discriminate|]).
  destruct ((n4 =? 0) && (n5 =? 40)) eqn:E; [|discriminate]. apply andb_true_iff in E. destruct E as [E0 E1].
  apply N.eqb_eq in E0, E1. subst n4 n5.
  destruct ((n =? 16) && match pdu with [] => true | _ => false end) eqn:Eg.
  - apply andb_true_iff in Eg. destruct Eg as [Eg1 Eg2]. apply N.eqb_eq in Eg1. subst n. destruct pdu; [|discriminate Eg2].
    intros H. inversion H. exists n0, n1, n2, n3, []. left. repeat split.
  - destruct ((n =? 6) && ((length pdu =? 2)%nat || (length pdu =? 16)%nat)) eqn:Ev; [|discriminate].
    apply andb_true_iff in Ev. destruct Ev as [Ev1 Ev2]. apply N.eqb_eq in Ev1. subst n.
    intros H. inversion H. exists n0, n1, n2, n3, pdu. right. repeat split.
    apply orb_true_iff in Ev2. destruct Ev2 as [X|X]; apply Nat.eqb_eq in X; auto.
Qed.

(* ---- decoding the responses *)
Lemma genc_length g : uuid_ok (s_uuid (snd g)) = true -> length (genc g) = N.to_nat (gsize (is_128bit (s_uuid (snd g)))).
Proof.
  intros H. pose proof (uuid_bytes_len _ H) as X. unfold genc, len in *. rewrite !app_length. cbn [le16 length].
  unfold gsize. destruct (is_128bit (s_uuid (snd g))); lia.
Qed.

Lemma decode_group g :
  uuid_ok (s_uuid (snd g)) = true -> gfirst g < 65536 -> glast g < 65536 ->
  EGroup (w16 (nth 0 (genc g) 0) (nth 1 (genc g) 0)) (w16 (nth 2 (genc g) 0) (nth 3 (genc g) 0)) (uuid_of_bytes (skipn 4 (genc g)))
  = gentry3 None g.
Proof.
  intros Hu Hf Hl. unfold genc, gentry3, le16. cbn [app nth skipn]. fold (gfirst g) (glast g).
  rewrite !w16_le16 by auto. rewrite uuid_of_uuid_bytes by auto. reflexivity.
Qed.

Lemma parse_rbg_response c W is128 :
  wf c -> no_includes c -> W <> [] -> (forall g, In g W -> In g (groups c) /\ is_128bit (s_uuid (snd g)) = is128) ->
  parse_resp 16 (17 :: gsize is128 :: flat_map genc W) = PEntries (map (gentry3 None) W).
Proof.
  intros Hw Hn Hne HW.
  assert (Hlen : forall g, In g W -> length (genc g) = N.to_nat (gsize is128)).
  { intros g Hg. destruct (HW g Hg) as [H1 H2]. rewrite genc_length by (eapply services_uuid_ok; eauto). rewrite H2. reflexivity. }
  assert (Hmap : map (fun ch => EGroup (w16 (nth 0 ch 0) (nth 1 ch 0)) (w16 (nth 2 ch 0) (nth 3 ch 0)) (uuid_of_bytes (skipn 4 ch))) (map genc W)
                 = map (gentry3 None) W).
  { rewrite map_map. apply map_ext_in. intros g Hg. destruct (HW g Hg) as [H1 _].
    destruct (group_handles_bounded c g Hw Hn H1) as (B1 & B2 & _).
    apply decode_group; [eapply services_uuid_ok; eauto|lia|lia]. }
  destruct is128; cbn [gsize] in *.
  - unfold parse_resp. lazy beta iota delta [N.eqb N.add Pos.eqb Pos.add Pos.succ negb orb N.ltb N.compare Pos.compare Pos.compare_cont]. unfold parse_entries.
    rewrite (chunks_flat_map _ genc (N.to_nat 20) W) by (auto; lia). rewrite Hmap. reflexivity.
  - unfold parse_resp. lazy beta iota delta [N.eqb N.add Pos.eqb Pos.add Pos.succ negb orb N.ltb N.compare Pos.compare Pos.compare_cont]. unfold parse_entries.
    rewrite (chunks_flat_map _ genc (N.to_nat 6) W) by (auto; lia). rewrite Hmap. reflexivity.
Qed.

Lemma parse_error_response op a b code : parse_resp op [1; op; a; b; code] = PError (w16 a b) code.
Proof. unfold parse_resp. rewrite N.eqb_refl. reflexivity. Qed.

Lemma parse_fbtv_error u a b code : parse_fbtv_resp u [1; 6; a; b; code] = PError (w16 a b) code.
Proof. reflexivity. Qed.

Lemma parse_fbtv_one c u g :
  wf c -> no_includes c -> In g (groups c) ->
  parse_fbtv_resp u (7 :: genc4 g) = PEntries [gentry3 (Some u) g].
Proof.
  intros Hw Hn Hg. destruct (group_handles_bounded c g Hw Hn Hg) as (B1 & B2 & _).
  unfold parse_fbtv_resp, genc4, le16. cbn [app].
  cbv beta iota delta [parse_entries chunks length N.to_nat Pos.to_nat Pos.iter_op Init.Nat.add Nat.ltb Nat.leb Nat.eqb orb skipn firstn map nth].
  unfold gentry3. rewrite !w16_le16 by lia. reflexivity.
Qed.

(* ---- l2cap_input for the two requests *)
Lemma att_input_16 c st cid t n st' resp :
  att_input c st cid (16 :: t) n = Some (st', resp) ->
  exists k b' nn, get_conn st cid = Some k /\ 23 <= N.min n (negotiated_mtu c k)
    /\ handle_read_by_group_type c (16 :: t) (repeat fill_byte (N.to_nat n)) (N.min n (negotiated_mtu c k)) = Some (b', nn)
    /\ nn <= len b' /\ resp = takeN nn b'.
Proof.
  unfold att_input. destruct (get_conn st cid) as [k|]; [|discriminate]. cbv zeta.
  destruct (len (16 :: t) =? 0); [discriminate|].
  destruct (N.min n (negotiated_mtu c k) <? default_att_mtu) eqn:E; [discriminate|].
  change (rd (16 :: t) 0) with (Some 16). cbn [N.eqb Pos.eqb].
  destruct (handle_read_by_group_type c (16 :: t) _ _) as [[b' nn]|] eqn:Eh; [|discriminate].
  destruct (nn <=? len b') eqn:En; [|discriminate]. intros H. inversion H; subst.
  exists k, b', nn. unfold default_att_mtu in E. repeat split; auto; lia.
Qed.

Lemma att_input_6 c st cid t n st' resp :
  att_input c st cid (6 :: t) n = Some (st', resp) ->
  exists k b' nn, get_conn st cid = Some k /\ 23 <= N.min n (negotiated_mtu c k)
    /\ handle_find_by_type_value c st cid (6 :: t) (repeat fill_byte (N.to_nat n)) (N.min n (negotiated_mtu c k)) = Some (b', nn)
    /\ nn <= len b' /\ resp = takeN nn b'.
Proof.
  unfold att_input. destruct (get_conn st cid) as [k|]; [|discriminate]. cbv zeta.
  destruct (len (6 :: t) =? 0); [discriminate|].
  destruct (N.min n (negotiated_mtu c k) <? default_att_mtu) eqn:E; [discriminate|].
  change (rd (6 :: t) 0) with (Some 6). cbn [N.eqb Pos.eqb].
  destruct (handle_find_by_type_value c st cid (6 :: t) _ _) as [[b' nn]|] eqn:Eh; [|discriminate].
  destruct (nn <=? len b') eqn:En; [|discriminate]. intros H. inversion H; subst.
  exists k, b', nn. unfold default_att_mtu in E. repeat split; auto; lia.
Qed.

(* ---- one answer of a group discovery, as the monitor needs it *)
Lemma group_answer c u walk lo hi :
  wf c -> no_includes c ->
  (forall lo', exists rest, filter (selected_range (svc_sel u) lo' hi) (groups c) = walk lo' hi ++ rest
                            /\ (walk lo' hi = [] -> filter (selected_range (svc_sel u) lo' hi) (groups c) = [])) ->
  1 <= lo -> lo <= hi ->
  let L := map gfirst (filter (svc_sel u) (groups c)) in
  match walk lo hi with
  | [] => hrange L lo hi = []
  | g :: W' =>
      let es := map (gentry3 u) (g :: W') in
      judge_groups c u lo hi es = Ok
      /\ hrange L lo hi = map entry_handle es ++ hrange L (last (map entry_end es) 0 + 1) hi
  end.
Proof.
  intros Hw Hn Hwalk Hlo Hhi L. destruct (Hwalk lo) as (rest & W1 & W2).
  destruct (walk lo hi) as [|g W'] eqn:Ew.
  - unfold L. rewrite selected_starts_range, W2 by reflexivity. reflexivity.
  - cbv zeta. split; [apply (judge_groups_ok c u lo hi (g :: W') rest); auto; discriminate|].
    pose proof (groups_good_responder c (svc_sel u) walk hi Hw Hn Hwalk) as Hg.
    assert (Hs : increasing_from 0 L = true).
    { unfold L. apply blocks_sorted_firsts. apply blocks_sorted_filter. apply groups_sorted; auto. }
    assert (Er : group_responder walk lo hi = Some (map gfirst (g :: W'), glast (last (g :: W') g))) by (unfold group_responder; rewrite Ew; reflexivity).
    destruct (responder_next L hi _ lo _ _ Hs Hg Hlo Hhi Er) as (_ & _ & _ & X).
    rewrite X. f_equal; [rewrite map_map; reflexivity|]. f_equal. f_equal.
    rewrite map_map. change (fun x => entry_end (gentry3 u x)) with glast.
    rewrite (last_default (map glast (g :: W')) 0 (glast g)) by discriminate. rewrite map_last by discriminate. reflexivity.
Qed.

Lemma svc_sel_none_wanted lo hi G : filter (selected_range (svc_sel None) lo hi) G = filter (group_wanted lo hi) G.
Proof. apply filter_ext_in'. intros g _. unfold selected_range, svc_sel, group_wanted, gfirst. cbn [uuid_wanted]. rewrite andb_true_r. reflexivity. Qed.

Lemma svc_sel_value_wanted c value lo hi :
  wf c -> forallb byte_ok value = true ->
  filter (selected_range (svc_sel (Some (uuid_of_bytes value))) lo hi) (groups c) = filter (fbtv_wanted lo hi value) (groups c).
Proof.
  intros Hw Hv. apply filter_ext_in'. intros g Hg. unfold selected_range, svc_sel, fbtv_wanted, group_wanted, gfirst. cbn [uuid_wanted].
  rewrite value_is_uuid by (auto; eapply services_uuid_ok; eauto). apply andb_assoc.
Qed.

(* ---- requests with lo = 0 or lo > hi *)
Lemma check_range_invalid c pdu b out_size sa sb op lo hi :
  rd pdu 0 = Some op -> (len pdu = sa \/ len pdu = sb) -> rd16 pdu 1 = Some lo -> rd16 pdu 3 = Some hi ->
  (lo =? 0) || (hi <? lo) = true ->
  check_size_and_handle_range c pdu b out_size sa sb
  = match error_response op err_invalid_handle lo b out_size with Some r => Some (Failed r) | None => None end.
Proof.
  intros H0 Hl H1 H3 Hi. unfold check_size_and_handle_range. rewrite H0.
  replace (negb (len pdu =? sa) && negb (len pdu =? sb)) with false by (destruct Hl as [-> | ->]; rewrite N.eqb_refl; cbn; rewrite ?andb_false_r; reflexivity).
  rewrite H1, H3, Hi. reflexivity.
Qed.

Lemma rd_prefix7 a0 a1 a2 a3 a4 a5 a6 (v : list N) :
  let pdu := a0 :: a1 :: a2 :: a3 :: a4 :: a5 :: a6 :: v in
  rd16 pdu 5 = Some (a5 + 256 * a6) /\ slice pdu 7 (len pdu) = Some v /\ len pdu = 7 + len v.
Proof.
  cbv zeta. unfold rd16, rd, slice.
  assert (H : len (a0 :: a1 :: a2 :: a3 :: a4 :: a5 :: a6 :: v) = 7 + len v) by (unfold len; cbn [length]; lia).
  replace (5 <? len (a0 :: a1 :: a2 :: a3 :: a4 :: a5 :: a6 :: v)) with true by lia.
  replace (5 + 1 <? len (a0 :: a1 :: a2 :: a3 :: a4 :: a5 :: a6 :: v)) with true by lia.
  replace ((7 <=? len (a0 :: a1 :: a2 :: a3 :: a4 :: a5 :: a6 :: v)) && (len (a0 :: a1 :: a2 :: a3 :: a4 :: a5 :: a6 :: v) <=? len (a0 :: a1 :: a2 :: a3 :: a4 :: a5 :: a6 :: v))) with true by lia.
  repeat split; auto. f_equal. rewrite H. replace (7 + len v - 7) with (len v) by lia.
  unfold takeN, dropN, len. cbn [N.to_nat Pos.to_nat Pos.iter_op plus skipn]. rewrite Nat2N.id. apply firstn_all.
Qed.

(* ---- one step of the C03 monitor on the model *)
Definition op_bytes (o : srv_op) : bool :=
  match o with OpIn _ pdu _ => forallb byte_ok pdu | _ => true end.

Lemma len_repeat_N (x : N) n : len (repeat x (N.to_nat n)) = n.
Proof. unfold len. rewrite repeat_length. lia. Qed.

Lemma c03_group_step c st m cid a b x y n st' resp :
  wf c -> no_includes c -> mon_ok (L03 c) m ->
  a < 256 -> b < 256 -> x < 256 -> y < 256 ->
  att_input c st cid [16; a; b; x; y; 0; 40] n = Some (st', resp) ->
  exists m', c03_judge c m cid KGroup None (w16 a b) (w16 x y) (parse_resp 16 resp) = (Ok, m') /\ mon_ok (L03 c) m'.
Proof.
  intros Hw Hn Hm Ha Hb Hx Hy Hin.
  apply att_input_16 in Hin. destruct Hin as (k & b' & nn & Hk & Hout & Hh & Hnn & ->).
  set (out_size := N.min n (negotiated_mtu c k)) in *.
  assert (Hlb : out_size <= len (repeat fill_byte (N.to_nat n))) by (rewrite len_repeat_N; unfold out_size; lia).
  rewrite takeN_seg by exact Hnn.
  unfold c03_judge. destruct ((w16 a b =? 0) || (w16 x y <? w16 a b)) eqn:Er.
  - (* Invalid Handle *)
    unfold handle_read_by_group_type in Hh.
    rewrite (check_range_invalid c _ _ out_size 7 21 16 (w16 a b) (w16 x y)) in Hh; try reflexivity; [|left; reflexivity|exact Er].
    destruct (error_response 16 err_invalid_handle (w16 a b) _ out_size) as [r|] eqn:Ee; [|discriminate Hh].
    inversion Hh; subst r. apply error_response_bytes in Ee; auto; [|lia]. cbn [fst snd] in Ee. destruct Ee as (E1 & E2 & _).
    subst nn. rewrite E2, parse_error_response. cbn [judge_invalid_range]. rewrite N.eqb_refl. cbn.
    eexists. split; [reflexivity|]. apply mon_ok_upd_none; auto.
  - assert (Hlo : 1 <= w16 a b) by lia. assert (Hhi : w16 a b <= w16 x y) by lia.
    pose proof (read_by_group_type_spec c a b x y _ out_size (b', nn) Hw Hn Ha Hb Hx Hy Hlo Hhi Hout Hlb Hh) as Hsp.
    set (walk := fun lo hi => walk_first (groups c) lo hi (out_size - 2)).
    assert (Hwalk : forall lo', exists rest, filter (selected_range (svc_sel None) lo' (w16 x y)) (groups c) = walk lo' (w16 x y) ++ rest
                                  /\ (walk lo' (w16 x y) = [] -> filter (selected_range (svc_sel None) lo' (w16 x y)) (groups c) = [])).
    { intros lo'. destruct (walk_first_spec (groups c) lo' (w16 x y) (out_size - 2) ltac:(lia)) as (rest & W1 & W2 & _).
      exists rest. rewrite svc_sel_none_wanted. split; auto. }
    pose proof (group_answer c None walk (w16 a b) (w16 x y) Hw Hn Hwalk Hlo Hhi) as Hans. cbv zeta in Hans.
    destruct (walk_first_spec (groups c) (w16 a b) (w16 x y) (out_size - 2) ltac:(lia)) as (rest & W1 & W2 & W3).
    unfold walk in Hans. unfold rbg_response in Hsp. cbn [fst snd] in Hsp.
    apply (session_step_ok (L03 c) m cid KGroup); auto.
    + intros l'. apply svc_matching_handles; auto.
    + intros h Hh'. eapply L03_bounded; eauto.
    + destruct (walk_first (groups c) (w16 a b) (w16 x y) (out_size - 2)) as [|g W'] eqn:Ew.
      * destruct Hsp as [E1 E2]. subst nn. rewrite E2, parse_error_response. split; [reflexivity|exact Hans].
      * destruct Hsp as (_ & _ & E3). rewrite E3.
        rewrite (parse_rbg_response c (g :: W') (is_128bit (s_uuid (snd g)))); auto; [discriminate|].
        intros g' Hg'. split; [|apply W3; exact Hg'].
        assert (X : In g' (filter (group_wanted (w16 a b) (w16 x y)) (groups c))) by (rewrite W1; apply in_or_app; left; exact Hg').
        apply filter_In in X. tauto.
Qed.

Lemma c03_value_step c st m cid a b x y v n st' resp :
  wf c -> no_includes c -> mon_ok (L03 c) m ->
  a < 256 -> b < 256 -> forallb byte_ok v = true -> (length v = 2 \/ length v = 16)%nat ->
  att_input c st cid (6 :: a :: b :: x :: y :: 0 :: 40 :: v) n = Some (st', resp) ->
  exists m', c03_judge c m cid (KType (uuid_of_bytes v)) (Some (uuid_of_bytes v)) (w16 a b) (w16 x y) (parse_fbtv_resp (uuid_of_bytes v) resp) = (Ok, m')
             /\ mon_ok (L03 c) m'.
Proof.
  intros Hw Hn Hm Ha Hb Hv Hlv Hin.
  apply att_input_6 in Hin. destruct Hin as (k & b' & nn & Hk & Hout & Hh & Hnn & ->).
  set (out_size := N.min n (negotiated_mtu c k)) in *.
  assert (Hlb : out_size <= len (repeat fill_byte (N.to_nat n))) by (rewrite len_repeat_N; unfold out_size; lia).
  rewrite takeN_seg by exact Hnn.
  destruct (rd_prefix5 6 a b x y (0 :: 40 :: v)) as (R0 & R1 & R3). destruct (rd_prefix7 6 a b x y 0 40 v) as (R5 & Rs & Rl).
  cbv zeta in R0, R1, R3, R5, Rs, Rl. fold (w16 a b) in R1. fold (w16 x y) in R3.
  set (pdu := 6 :: a :: b :: x :: y :: 0 :: 40 :: v) in *.
  assert (Hlen : len pdu = 9 \/ len pdu = 23) by (rewrite Rl; unfold len; destruct Hlv as [-> | ->]; [left|right]; reflexivity).
  unfold c03_judge. destruct ((w16 a b =? 0) || (w16 x y <? w16 a b)) eqn:Er.
  - unfold handle_find_by_type_value in Hh.
    rewrite (check_range_invalid c pdu _ out_size 9 23 6 (w16 a b) (w16 x y) R0 Hlen R1 R3 Er) in Hh.
    destruct (error_response 6 err_invalid_handle (w16 a b) _ out_size) as [r|] eqn:Ee; [|discriminate Hh].
    inversion Hh; subst r. apply error_response_bytes in Ee; auto; [|lia]. cbn [fst snd] in Ee. destruct Ee as (E1 & E2 & _).
    subst nn. rewrite E2, parse_fbtv_error. cbn [judge_invalid_range]. rewrite N.eqb_refl. cbn.
    eexists. split; [reflexivity|]. apply mon_ok_upd_none; auto.
  - assert (Hlo : 1 <= w16 a b) by lia. assert (Hhi : w16 a b <= w16 x y) by lia.
    pose proof (find_by_type_value_spec' c st cid pdu (w16 a b) (w16 x y) v _ out_size (b', nn) Hw Hn Hv R0 Hlen R1 R3 R5 Rs Hlo Hhi Hout Hlb Hh) as Hsp.
    set (walk := fun lo hi => fbtv_walk (groups c) lo hi v (out_size - 1)).
    assert (Hwalk : forall lo', exists rest, filter (selected_range (svc_sel (Some (uuid_of_bytes v))) lo' (w16 x y)) (groups c) = walk lo' (w16 x y) ++ rest
                                  /\ (walk lo' (w16 x y) = [] -> filter (selected_range (svc_sel (Some (uuid_of_bytes v))) lo' (w16 x y)) (groups c) = [])).
    { intros lo'. destruct (fbtv_walk_prefix (groups c) lo' (w16 x y) v (out_size - 1)) as (rest & W1 & W2).
      exists rest. rewrite svc_sel_value_wanted by auto. split; [exact W1|apply W2; lia]. }
    pose proof (group_answer c (Some (uuid_of_bytes v)) walk (w16 a b) (w16 x y) Hw Hn Hwalk Hlo Hhi) as Hans. cbv zeta in Hans.
    destruct (fbtv_walk_prefix (groups c) (w16 a b) (w16 x y) v (out_size - 1)) as (rest & W1 & _).
    unfold walk in Hans. cbn [fst snd] in Hsp.
    apply (session_step_ok (L03 c) m cid (KType (uuid_of_bytes v))); auto.
    + intros l'. apply svc_matching_handles; auto.
    + intros h Hh'. eapply L03_bounded; eauto.
    + destruct (fbtv_walk (groups c) (w16 a b) (w16 x y) v (out_size - 1)) as [|g W'] eqn:Ew.
      * destruct Hsp as [E1 E2]. subst nn. rewrite E2, le16_w16 by auto. cbn [app]. rewrite parse_fbtv_error. split; [reflexivity|exact Hans].
      * destruct Hsp as (-> & E1 & _ & E3). subst nn. rewrite E3.
        rewrite (parse_fbtv_one c); auto.
        assert (X : In g (filter (fbtv_wanted (w16 a b) (w16 x y) v) (groups c))) by (rewrite W1; left; reflexivity).
        apply filter_In in X. tauto.
Qed.

Lemma c03_step_ok c st m o :
  wf c -> no_includes c -> mon_ok (L03 c) m -> op_bytes o = true -> snd (srv_step c st o) <> OFault ->
  exists m', c03_step c m o (snd (srv_step c st o)) = (Ok, m') /\ mon_ok (L03 c) m'.
Proof.
  intros Hw Hn Hm Hb Hf. destruct o as [cid pdu n| | |cid| | |]; cbn [c03_step]; try (eexists; split; [reflexivity|exact Hm]).
  - destruct (n <? default_att_mtu); [eexists; split; [reflexivity|exact Hm]|].
    destruct (c03_parse pdu) as [r|] eqn:Ep; [|eexists; split; [reflexivity|exact Hm]].
    cbn [srv_step] in *. destruct (att_input c st cid pdu n) as [[st' resp]|] eqn:Ein; [|exfalso; apply Hf; reflexivity].
    cbn [snd]. destruct (c03_parse_inv pdu r Ep) as (a & b & x & y & v & [(-> & -> & ->)|(-> & -> & Hlv)]).
    + cbn [op_bytes forallb] in Hb. unfold byte_ok in Hb. apply (c03_group_step c st m cid a b x y n st' resp); auto; lia.
    + cbn [op_bytes forallb] in Hb. unfold byte_ok in Hb.
      repeat (apply andb_true_iff in Hb; destruct Hb as [? Hb]).
      apply (c03_value_step c st m cid a b x y v n st' resp); auto; lia.
  - eexists. split; [reflexivity|]. apply mon_ok_upd_none; auto.
Qed.

(* C03: the monitor accepts every fault free trace of the model, of any length, from every state *)
Theorem c03_monitor_accepts c : wf c -> no_includes c ->
  forall ops st m pos,
    mon_ok (L03 c) m -> forallb op_bytes ops = true ->
    Forall (fun p => snd p <> OFault) (srv_run c st ops) ->
    c03_monitor_from c m pos (srv_run c st ops) = None.
Proof.
  intros Hw Hn. induction ops as [|o t IH]; intros st m pos Hm Hb Hf; [reflexivity|].
  cbn [forallb] in Hb. apply andb_true_iff in Hb. destruct Hb as [Hb1 Hb2].
  pose proof (c03_step_ok c st m o Hw Hn Hm Hb1) as Hstep.
  cbn [srv_run] in *. destruct (srv_step c st o) as [st' out] eqn:Es. cbn [snd] in Hstep.
  inversion Hf as [|? ? Hf1 Hf2]; subst. cbn [snd] in Hf1.
  destruct (Hstep Hf1) as (m' & E & Hm'). cbn [c03_monitor_from]. rewrite E. apply IH; auto.
Qed.

(* ================================================================== Part M5: C02 (Find Information, Read By Group Type) *)
Lemma parse_req_inv pdu op k lo hi :
  parse_req pdu = Some (op, k, lo, hi) ->
  exists a b x y t, pdu = op :: a :: b :: x :: y :: t /\ lo = w16 a b /\ hi = w16 x y
    /\ ((op = 4 /\ k = KInfo /\ t = []) \/ (op = 16 /\ k = KGroup /\ t = [0; 40])
        \/ (op = 8 /\ exists u, k = KType u /\ req_type t = Some u)).
Proof.
  unfold parse_req. do 5 (destruct pdu as [|? pdu]; [discriminate|]).
  destruct (n =? 4) eqn:E4.
  - apply N.eqb_eq in E4. subst n. destruct pdu; [|discriminate]. intros H. inversion H; subst.
    eexists _, _, _, _, _. repeat split. left. auto.
  - destruct (n =? 16) eqn:E16.
    + apply N.eqb_eq in E16. subst n. destruct pdu as [|t0 [|t1 [|]]]; try discriminate.
      destruct ((t0 =? 0) && (t1 =? 40)) eqn:Et; [|discriminate]. apply andb_true_iff in Et. destruct Et as [Et0 Et1].
      apply N.eqb_eq in Et0, Et1. subst. intros H. inversion H; subst. eexists _, _, _, _, _. repeat split. right. left. auto.
    + destruct (n =? 8) eqn:E8; [|discriminate]. apply N.eqb_eq in E8. subst n.
      destruct (req_type pdu) as [u|] eqn:Er; [|discriminate]. intros H. inversion H; subst.
      eexists _, _, _, _, _. repeat split. right. right. split; [reflexivity|]. exists u. auto.
Qed.

Definition L02 (c : cfg) (k : dkind) : list N :=
  match k with KInfo => assign c | KGroup => primary_starts c | KType _ => [] end.

Lemma matching_info_handles c lo hi : wf c -> no_includes c -> map fst (matching c KInfo lo hi) = hrange (assign c) lo hi.
Proof.
  intros Hw Hn. unfold hrange, matching. rewrite <- (table_handles c Hw Hn).
  rewrite <- (map_filter_fst (in_range lo hi)). f_equal. apply filter_ext_in'. intros x _. cbn [type_matches]. rewrite andb_true_r. reflexivity.
Qed.

Lemma matching_group_handles c lo hi : wf c -> no_includes c -> map fst (matching c KGroup lo hi) = hrange (primary_starts c) lo hi.
Proof.
  intros Hw Hn. rewrite matching_groups by auto. unfold primary_starts. rewrite selected_starts_range, map_map. reflexivity.
Qed.

Lemma primary_starts_sel c : primary_starts c = map gfirst (filter (svc_sel None) (groups c)).
Proof. unfold primary_starts. f_equal. apply filter_ext_in'. intros g _. unfold svc_sel. cbn [uuid_wanted]. rewrite andb_true_r. reflexivity. Qed.

Lemma L02_bounded c k h : wf c -> no_includes c -> In h (L02 c k) -> h <= 65535.
Proof.
  intros Hw Hn. destruct k; cbn [L02]; intros Hh.
  - pose proof (assign_upper c h Hw Hn Hh). lia.
  - destruct Hh.
  - rewrite primary_starts_sel in Hh. apply (L03_bounded c KGroup h Hw Hn Hh).
Qed.

(* ---- Find Information on a configuration with 16 bit types only *)
Definition all_16bit (c : cfg) : bool := forallb (fun x => is16 (snd x)) (table c).

Lemma is16_type c x : wf c -> In x (table c) -> is16 (snd x) = true -> exists v, attr_type (snd x) = U16 v /\ v < 65536.
Proof.
  intros Hw Hin H16. destruct x as [h a]. cbn [snd] in *. unfold table in Hin. apply in_combine_r in Hin.
  unfold is16 in H16. apply negb_true_iff, N.eqb_neq in H16.
  assert (Hsvc : forall s, In s (services c) -> svc_static_ok c s = true).
  { unfold wf, wf_b in Hw. repeat (apply andb_true_iff in Hw; destruct Hw as [Hw ?]).
    match goal with X : forallb (svc_static_ok c) (services c) = true |- _ => rewrite forallb_forall in X; exact X end. }
  unfold decl_attrs in Hin. apply in_flat_map in Hin. destruct Hin as [s [Hs Hin]]. specialize (Hsvc s Hs).
  unfold svc_static_ok in Hsvc. repeat (match goal with X : _ && _ = true |- _ => apply andb_true_iff in X; destruct X end).
  unfold svc_decl_attrs in Hin. destruct Hin as [<-|Hin].
  { cbn [attr_type attr_uuid]. eexists. split; [reflexivity|]. destruct (s_secondary s); cbv; reflexivity. }
  apply in_app_or in Hin. destruct Hin as [Hin|Hin].
  { apply in_map_iff in Hin. destruct Hin as [u [<- _]]. cbn [attr_type attr_uuid]. eexists. split; [reflexivity|cbv; reflexivity]. }
  apply in_flat_map in Hin. destruct Hin as [ch [Hch Hin]].
  match goal with X : forallb char_static_ok (s_chars s) = true |- _ => rewrite forallb_forall in X; specialize (X ch Hch) end.
  unfold char_static_ok in *. repeat (match goal with X : _ && _ = true |- _ => apply andb_true_iff in X; destruct X end).
  unfold char_attrs in Hin. destruct Hin as [<-|[<-|Hin]].
  - cbn [attr_type attr_uuid]. eexists. split; [reflexivity|cbv; reflexivity].
  - cbn [attr_type attr_uuid] in *. destruct (c_uuid ch) as [v|bs] eqn:Eu; [|congruence].
    exists v. split; [reflexivity|]. match goal with X : uuid_ok _ = true |- _ => cbn [uuid_ok] in X; lia end.
  - unfold char_tail_attrs in Hin.
    apply in_app_or in Hin. destruct Hin as [Hin|Hin].
    { destruct (has_cccd ch); [destruct Hin as [<-|[]]|destruct Hin]. cbn [attr_type attr_uuid]. eexists. split; [reflexivity|cbv; reflexivity]. }
    apply in_app_or in Hin. destruct Hin as [Hin|Hin].
    { destruct (c_name ch); [destruct Hin as [<-|[]]|destruct Hin]. cbn [attr_type attr_uuid]. eexists. split; [reflexivity|cbv; reflexivity]. }
    apply in_map_iff in Hin. destruct Hin as [d [<- Hd]]. cbn [attr_type attr_uuid].
    match goal with X : forallb _ (c_descs ch) = true |- _ => rewrite forallb_forall in X; specialize (X d Hd); cbv beta in X end.
    repeat (match goal with X : _ && _ = true |- _ => apply andb_true_iff in X; destruct X end).
    eexists. split; [reflexivity|lia].
Qed.

Definition einfo (x : N * attr) : entry := EInfo (fst x) (attr_type (snd x)).

Lemma parse_fi_response c (R : list (N * attr)) :
  wf c -> no_includes c -> (forall x, In x R -> In x (table c) /\ is16 (snd x) = true) ->
  parse_resp 4 (5 :: 1 :: flat_map fenc R) = PEntries (map einfo R).
Proof.
  intros Hw Hn HR.
  assert (Hlen : forall x, In x R -> length (fenc x) = 4%nat).
  { intros x Hx. destruct (HR x Hx) as [H1 H2]. destruct (is16_type c x Hw H1 H2) as (v & Hv & _). unfold fenc. rewrite Hv. reflexivity. }
  assert (Hmap : map (fun ch => EInfo (w16 (nth 0 ch 0) (nth 1 ch 0)) (U16 (w16 (nth 2 ch 0) (nth 3 ch 0)))) (map fenc R) = map einfo R).
  { rewrite map_map. apply map_ext_in. intros x Hx. destruct (HR x Hx) as [H1 H2]. destruct (is16_type c x Hw H1 H2) as (v & Hv & Hv2).
    assert (Hh : fst x < 65536) by (apply (assign_upper c _ Hw Hn); rewrite <- (table_handles c Hw Hn); apply in_map; exact H1).
    unfold fenc, einfo. rewrite Hv. unfold le16. cbn [uuid_bytes app nth]. rewrite !w16_le16 by auto. reflexivity. }
  unfold parse_resp. lazy beta iota delta [N.eqb N.add Pos.eqb Pos.add Pos.succ negb orb N.ltb N.compare Pos.compare Pos.compare_cont]. unfold parse_entries.
  rewrite (chunks_flat_map _ fenc (N.to_nat 4) R) by (auto; lia). rewrite Hmap. reflexivity.
Qed.

Lemma fi_good_responder c out_size hi :
  wf c -> no_includes c -> 23 <= out_size -> all_16bit c = true ->
  good_responder (assign c) hi (fi_responder c out_size).
Proof.
  intros Hw Hn Ho Hu. unfold all_16bit in Hu. rewrite forallb_forall in Hu.
  intros lo' Hl1 Hl2. unfold fi_responder. rewrite <- matching_info_handles by auto.
  destruct (from_handle lo' (table c)) as [|x W] eqn:Ef.
  - rewrite matching_info, Ef. reflexivity.
  - destruct (fst x <=? hi) eqn:Ex.
    + destruct (fi_walk_head x W hi (out_size - 2) ltac:(lia) ltac:(lia)) as [R HR]. rewrite HR. cbv zeta.
      destruct (fi_walk_prefix (x :: W) hi (is16 (snd x)) (out_size - 2)) as [rest Hr].
      { intros y Hy _. assert (In y (table c)).
        { assert (X : In y (from_handle lo' (table c))) by (rewrite Ef; exact Hy). apply filter_In in X. tauto. }
        rewrite (Hu y) by auto. symmetry. apply Hu.
        assert (X : In x (from_handle lo' (table c))) by (rewrite Ef; left; reflexivity). apply filter_In in X. tauto. }
      rewrite HR in Hr. rewrite matching_info, Ef, Hr.
      repeat split; [discriminate|lia|intros; lia|].
      exists (map fst rest). rewrite map_app. reflexivity.
    + rewrite (matching_info_empty c lo' hi x W) by (auto; lia). reflexivity.
Qed.

Lemma fi_answer c out_size lo hi x W :
  wf c -> no_includes c -> 23 <= out_size -> all_16bit c = true -> 1 <= lo -> lo <= hi ->
  from_handle lo (table c) = x :: W -> fst x <= hi ->
  let Wk := fi_walk (x :: W) hi (is16 (snd x)) (out_size - 2) in
  let es := map einfo Wk in
  (forall y, In y Wk -> In y (table c) /\ is16 (snd y) = true)
  /\ judge_entries c KInfo lo hi es = Ok
  /\ hrange (assign c) lo hi = map entry_handle es ++ hrange (assign c) (last (map entry_end es) 0 + 1) hi.
Proof.
  intros Hw Hn Ho Hu Hlo Hhi Ef Ex Wk es.
  assert (Hu' := Hu). unfold all_16bit in Hu'. rewrite forallb_forall in Hu'.
  destruct (fi_walk_head x W hi (out_size - 2) Ex ltac:(lia)) as [R HR]. fold Wk in HR.
  pose proof (fi_walk_subseq (x :: W) hi (is16 (snd x)) (out_size - 2)) as Hsub. fold Wk in Hsub.
  assert (HM : matching c KInfo lo hi = filter (fun y => fst y <=? hi) (x :: W)) by (rewrite matching_info, Ef; reflexivity).
  rewrite <- HM in Hsub.
  assert (Hin : forall y, In y Wk -> In y (matching c KInfo lo hi)) by (intros y Hy; eapply subseq_in; eauto).
  assert (Htab : forall y, In y Wk -> In y (table c) /\ is16 (snd y) = true).
  { intros y Hy. destruct (matching_sound _ _ _ _ _ (Hin y Hy)) as (T1 & _). split; auto. }
  destruct (fi_walk_prefix (x :: W) hi (is16 (snd x)) (out_size - 2)) as [rest Hr].
  { intros y Hy _. assert (In y (table c)).
    { assert (X : In y (from_handle lo (table c))) by (rewrite Ef; exact Hy). apply filter_In in X. tauto. }
    rewrite (Hu' y) by auto. symmetry. apply Hu'.
    assert (X : In x (from_handle lo (table c))) by (rewrite Ef; left; reflexivity). apply filter_In in X. tauto. }
  fold Wk in Hr. rewrite <- HM in Hr.
  assert (Hhs : map entry_handle es = map fst Wk) by (unfold es; rewrite map_map; reflexivity).
  assert (Hen : map entry_end es = map fst Wk) by (unfold es; rewrite map_map; reflexivity).
  split; [exact Htab|]. split.
  - unfold judge_entries. cbv zeta. rewrite Hhs. unfold es.
    assert (Hnemp : match map einfo Wk with [] => true | _ :: _ => false end = false) by (rewrite HR; reflexivity).
    rewrite Hnemp.
    replace (forallb (in_range lo hi) (map fst Wk)) with true.
    2:{ symmetry. apply forallb_forall. intros h Hh. apply in_map_iff in Hh. destruct Hh as [y [<- Hy]].
        destruct (matching_sound _ _ _ _ _ (Hin y Hy)) as (_ & T2 & _). exact T2. }
    cbn [negb].
    replace (forallb (entry_matches c KInfo) (map einfo Wk)) with true.
    2:{ symmetry. apply forallb_forall. intros e He. apply in_map_iff in He. destruct He as [y [<- Hy]].
        unfold entry_matches, einfo. cbn [entry_handle]. apply existsb_exists. exists y. split; [apply Htab; exact Hy|].
        rewrite N.eqb_refl, uuid_eqb_refl. reflexivity. }
    cbn [negb].
    assert (Hsorted : increasing_from 0 (map fst Wk) = true).
    { apply (subseq_increasing 0 _ (map fst (matching c KInfo lo hi))); [apply subseq_map; exact Hsub|apply matching_sorted; auto]. }
    rewrite (ascending_of_increasing 0) by exact Hsorted. cbn [negb].
    rewrite (run_ok_prefix _ _ (map fst rest)) by (rewrite Hr, map_app; reflexivity). reflexivity.
  - rewrite Hhs, Hen.
    assert (Er : fi_responder c out_size lo hi = Some (map fst Wk, last (map fst Wk) 0)).
    { unfold fi_responder. rewrite Ef. replace (fst x <=? hi) with true by lia. reflexivity. }
    destruct (responder_next (assign c) hi _ lo _ _ (assign_increasing c) (fi_good_responder c out_size hi Hw Hn Ho Hu) Hlo Hhi Er) as (_ & _ & _ & X).
    exact X.
Qed.

(* ---- Read By Group Type, judged by C02's clauses *)
Lemma judge_entries_groups c lo hi W rest :
  wf c -> no_includes c -> W <> [] ->
  filter (group_wanted lo hi) (groups c) = W ++ rest ->
  judge_entries c KGroup lo hi (map (gentry3 None) W) = Ok.
Proof.
  intros Hw Hn Hne HW. pose proof (groups_sorted c Hw Hn) as Hs.
  assert (HM : matching c KGroup lo hi = map gentry (W ++ rest)) by (rewrite matching_groups, HW by auto; reflexivity).
  assert (Hin : forall g, In g W -> In (gentry g) (matching c KGroup lo hi)).
  { intros g Hg. rewrite HM. apply in_map. apply in_or_app. left. exact Hg. }
  assert (Hhs : map entry_handle (map (gentry3 None) W) = map gfirst W) by (rewrite map_map; reflexivity).
  unfold judge_entries. cbv zeta. rewrite Hhs.
  destruct W as [|g0 W0]; [congruence|]. cbn [map]. cbv iota.
  change (gfirst g0 :: map gfirst W0) with (map gfirst (g0 :: W0)).
  change (gentry3 None g0 :: map (gentry3 None) W0) with (map (gentry3 None) (g0 :: W0)).
  replace (forallb (in_range lo hi) (map gfirst (g0 :: W0))) with true.
  2:{ symmetry. apply forallb_forall. intros h Hh. apply in_map_iff in Hh. destruct Hh as [g [<- Hg]].
      destruct (matching_sound _ _ _ _ _ (Hin g Hg)) as (_ & T2 & _). exact T2. }
  cbn [negb].
  replace (forallb (entry_matches c KGroup) (map (gentry3 None) (g0 :: W0))) with true.
  2:{ symmetry. apply forallb_forall. intros e He. apply in_map_iff in He. destruct He as [g [<- Hg]].
      destruct (matching_sound _ _ _ _ _ (Hin g Hg)) as (T1 & _ & T3).
      unfold entry_matches, gentry3. cbn [entry_handle]. apply existsb_exists. exists (gentry g). split; [exact T1|].
      cbn [gentry fst snd] in *. fold (gfirst g). rewrite N.eqb_refl, T3. reflexivity. }
  cbn [negb].
  assert (Hsorted : increasing_from 0 (map gfirst ((g0 :: W0) ++ rest)) = true).
  { rewrite <- HW. apply blocks_sorted_firsts. apply blocks_sorted_filter. exact Hs. }
  rewrite map_app in Hsorted. apply increasing_from_app in Hsorted. destruct Hsorted as [Hsorted _].
  rewrite (ascending_of_increasing 0) by exact Hsorted. cbn [negb].
  rewrite (run_ok_prefix _ _ (map gfirst rest)); [reflexivity|].
  rewrite HM, map_map, map_app. reflexivity.
Qed.

Lemma att_input_4 c st cid t n st' resp :
  att_input c st cid (4 :: t) n = Some (st', resp) ->
  exists k b' nn, get_conn st cid = Some k /\ 23 <= N.min n (negotiated_mtu c k)
    /\ handle_find_information c (4 :: t) (repeat fill_byte (N.to_nat n)) (N.min n (negotiated_mtu c k)) = Some (b', nn)
    /\ nn <= len b' /\ resp = takeN nn b'.
Proof.
  unfold att_input. destruct (get_conn st cid) as [k|]; [|discriminate]. cbv zeta.
  destruct (len (4 :: t) =? 0); [discriminate|].
  destruct (N.min n (negotiated_mtu c k) <? default_att_mtu) eqn:E; [discriminate|].
  change (rd (4 :: t) 0) with (Some 4). cbn [N.eqb Pos.eqb].
  destruct (handle_find_information c (4 :: t) _ _) as [[b' nn]|] eqn:Eh; [|discriminate].
  destruct (nn <=? len b') eqn:En; [|discriminate]. intros H. inversion H; subst.
  exists k, b', nn. unfold default_att_mtu in E. repeat split; auto; lia.
Qed.

Lemma c02_info_step c st m cid a b x y n st' resp :
  wf c -> no_includes c -> all_16bit c = true -> mon_ok (L02 c) m ->
  a < 256 -> b < 256 -> x < 256 -> y < 256 ->
  att_input c st cid [4; a; b; x; y] n = Some (st', resp) ->
  exists m',
    (if (w16 a b =? 0) || (w16 x y <? w16 a b) then (judge_invalid_range (w16 a b) (parse_resp 4 resp), upd m cid None)
     else session_step m cid KInfo (w16 a b) (w16 x y) (parse_resp 4 resp) (judge_entries c KInfo (w16 a b) (w16 x y))
            (fun l => matching c KInfo l (w16 x y)) (required c KInfo) dt_not_found dt_enumerate) = (Ok, m')
    /\ mon_ok (L02 c) m'.
Proof.
  intros Hw Hn Hu Hm Ha Hb Hx Hy Hin.
  apply att_input_4 in Hin. destruct Hin as (k & b' & nn & Hk & Hout & Hh & Hnn & ->).
  set (out_size := N.min n (negotiated_mtu c k)) in *.
  assert (Hlb : out_size <= len (repeat fill_byte (N.to_nat n))) by (rewrite len_repeat_N; unfold out_size; lia).
  rewrite takeN_seg by exact Hnn.
  destruct ((w16 a b =? 0) || (w16 x y <? w16 a b)) eqn:Er.
  - unfold handle_find_information in Hh.
    rewrite (check_range_invalid c _ _ out_size 5 5 4 (w16 a b) (w16 x y)) in Hh; try reflexivity; [|left; reflexivity|exact Er].
    destruct (error_response 4 err_invalid_handle (w16 a b) _ out_size) as [r|] eqn:Ee; [|discriminate Hh].
    inversion Hh; subst r. apply error_response_bytes in Ee; auto; [|lia]. cbn [fst snd] in Ee. destruct Ee as (E1 & E2 & _).
    subst nn. rewrite E2, parse_error_response. cbn [judge_invalid_range]. rewrite N.eqb_refl. cbn.
    eexists. split; [reflexivity|]. apply mon_ok_upd_none; auto.
  - assert (Hlo : 1 <= w16 a b) by lia. assert (Hhi : w16 a b <= w16 x y) by lia.
    pose proof (find_information_spec c a b x y _ out_size (b', nn) Hw Hn Ha Hb Hx Hy Hlo Hhi Hout Hlb Hh) as Hsp.
    unfold fi_response in Hsp. cbv zeta in Hsp. cbn [fst snd] in Hsp.
    change (required c KInfo) with (fun _ : attr => true).
    apply (session_step_ok (L02 c) m cid KInfo); auto.
    + intros l'. apply matching_info_handles; auto.
    + intros h Hh'. eapply L02_bounded; eauto.
    + cbn [L02]. destruct (from_handle (w16 a b) (table c)) as [|e W] eqn:Ef.
      * destruct Hsp as [E1 E2]. subst nn. rewrite E2, parse_error_response. split; [reflexivity|].
        rewrite <- matching_info_handles, matching_info, Ef by auto. reflexivity.
      * destruct (fst e <=? w16 x y) eqn:Ex.
        -- destruct Hsp as (_ & _ & E3). rewrite E3.
           destruct (fi_answer c out_size (w16 a b) (w16 x y) e W Hw Hn Hout Hu Hlo Hhi Ef ltac:(lia)) as (F1 & F2 & F3).
           assert (H16 : is16 (snd e) = true).
           { unfold all_16bit in Hu. rewrite forallb_forall in Hu. apply Hu.
             assert (X : In e (from_handle (w16 a b) (table c))) by (rewrite Ef; left; reflexivity). apply filter_In in X. tauto. }
           rewrite H16 in *. rewrite (parse_fi_response c); auto.
        -- destruct Hsp as [E1 E2]. subst nn. rewrite E2, parse_error_response. split; [reflexivity|].
           rewrite <- matching_info_handles by auto. rewrite (matching_info_empty c _ _ e W) by (auto; lia). reflexivity.
Qed.

Lemma c02_group_step c st m cid a b x y n st' resp :
  wf c -> no_includes c -> mon_ok (L02 c) m ->
  a < 256 -> b < 256 -> x < 256 -> y < 256 ->
  att_input c st cid [16; a; b; x; y; 0; 40] n = Some (st', resp) ->
  exists m',
    (if (w16 a b =? 0) || (w16 x y <? w16 a b) then (judge_invalid_range (w16 a b) (parse_resp 16 resp), upd m cid None)
     else session_step m cid KGroup (w16 a b) (w16 x y) (parse_resp 16 resp) (judge_entries c KGroup (w16 a b) (w16 x y))
            (fun l => matching c KGroup l (w16 x y)) (required c KGroup) dt_not_found dt_enumerate) = (Ok, m')
    /\ mon_ok (L02 c) m'.
Proof.
  intros Hw Hn Hm Ha Hb Hx Hy Hin.
  apply att_input_16 in Hin. destruct Hin as (k & b' & nn & Hk & Hout & Hh & Hnn & ->).
  set (out_size := N.min n (negotiated_mtu c k)) in *.
  assert (Hlb : out_size <= len (repeat fill_byte (N.to_nat n))) by (rewrite len_repeat_N; unfold out_size; lia).
  rewrite takeN_seg by exact Hnn.
  destruct ((w16 a b =? 0) || (w16 x y <? w16 a b)) eqn:Er.
  - unfold handle_read_by_group_type in Hh.
    rewrite (check_range_invalid c _ _ out_size 7 21 16 (w16 a b) (w16 x y)) in Hh; try reflexivity; [|left; reflexivity|exact Er].
    destruct (error_response 16 err_invalid_handle (w16 a b) _ out_size) as [r|] eqn:Ee; [|discriminate Hh].
    inversion Hh; subst r. apply error_response_bytes in Ee; auto; [|lia]. cbn [fst snd] in Ee. destruct Ee as (E1 & E2 & _).
    subst nn. rewrite E2, parse_error_response. cbn [judge_invalid_range]. rewrite N.eqb_refl. cbn.
    eexists. split; [reflexivity|]. apply mon_ok_upd_none; auto.
  - assert (Hlo : 1 <= w16 a b) by lia. assert (Hhi : w16 a b <= w16 x y) by lia.
    pose proof (read_by_group_type_spec c a b x y _ out_size (b', nn) Hw Hn Ha Hb Hx Hy Hlo Hhi Hout Hlb Hh) as Hsp.
    set (walk := fun lo hi => walk_first (groups c) lo hi (out_size - 2)).
    assert (Hwalk : forall lo', exists rest, filter (selected_range (svc_sel None) lo' (w16 x y)) (groups c) = walk lo' (w16 x y) ++ rest
                                  /\ (walk lo' (w16 x y) = [] -> filter (selected_range (svc_sel None) lo' (w16 x y)) (groups c) = [])).
    { intros lo'. destruct (walk_first_spec (groups c) lo' (w16 x y) (out_size - 2) ltac:(lia)) as (rest & W1 & W2 & _).
      exists rest. rewrite svc_sel_none_wanted. split; auto. }
    pose proof (group_answer c None walk (w16 a b) (w16 x y) Hw Hn Hwalk Hlo Hhi) as Hans. cbv zeta in Hans.
    rewrite <- primary_starts_sel in Hans.
    destruct (walk_first_spec (groups c) (w16 a b) (w16 x y) (out_size - 2) ltac:(lia)) as (rest & W1 & W2 & W3).
    unfold walk in Hans. unfold rbg_response in Hsp. cbn [fst snd] in Hsp.
    change (required c KGroup) with (fun _ : attr => true).
    apply (session_step_ok (L02 c) m cid KGroup); auto.
    + intros l'. apply matching_group_handles; auto.
    + intros h Hh'. eapply L02_bounded; eauto.
    + cbn [L02]. destruct (walk_first (groups c) (w16 a b) (w16 x y) (out_size - 2)) as [|g W'] eqn:Ew.
      * destruct Hsp as [E1 E2]. subst nn. rewrite E2, parse_error_response. split; [reflexivity|exact Hans].
      * destruct Hsp as (_ & _ & E3). rewrite E3.
        rewrite (parse_rbg_response c (g :: W') (is_128bit (s_uuid (snd g)))); auto; [|discriminate|].
        -- destruct Hans as [_ Hans]. split; [|exact Hans].
           apply (judge_entries_groups c _ _ (g :: W') rest); auto. discriminate.
        -- intros g' Hg'. split; [|apply W3; exact Hg'].
           assert (X : In g' (filter (group_wanted (w16 a b) (w16 x y)) (groups c))) by (rewrite W1; apply in_or_app; left; exact Hg').
           apply filter_In in X. tauto.
Qed.

(* requests the partial theorem does not cover: Read By Type *)
Definition no_read_by_type (o : srv_op) : bool :=
  match o with OpIn _ (8 :: _) _ => false | _ => true end.

Lemma c02_step_ok c st m o :
  wf c -> no_includes c -> all_16bit c = true -> mon_ok (L02 c) m ->
  op_bytes o = true -> no_read_by_type o = true -> snd (srv_step c st o) <> OFault ->
  exists m', c02_step c m o (snd (srv_step c st o)) = (Ok, m') /\ mon_ok (L02 c) m'.
Proof.
  intros Hw Hn Hu Hm Hb Hr Hf. destruct o as [cid pdu n| | |cid| | |]; cbn [c02_step]; try (eexists; split; [reflexivity|exact Hm]).
  - destruct (n <? default_att_mtu); [eexists; split; [reflexivity|exact Hm]|].
    destruct (parse_req pdu) as [[[[op k] lo] hi]|] eqn:Ep; [|eexists; split; [reflexivity|exact Hm]].
    cbn [srv_step] in *. destruct (att_input c st cid pdu n) as [[st' resp]|] eqn:Ein; [|exfalso; apply Hf; reflexivity].
    cbn [snd]. destruct (parse_req_inv pdu op k lo hi Ep) as (a & b & x & y & t & -> & -> & -> & Hcase).
    cbn [op_bytes forallb] in Hb. unfold byte_ok in Hb.
    destruct Hcase as [(-> & -> & ->)|[(-> & -> & ->)|(-> & _)]].
    + apply (c02_info_step c st m cid a b x y n st' resp); auto; lia.
    + apply (c02_group_step c st m cid a b x y n st' resp); auto; lia.
    + discriminate Hr.
  - eexists. split; [reflexivity|]. apply mon_ok_upd_none; auto.
Qed.

Theorem c02_monitor_accepts c : wf c -> no_includes c -> all_16bit c = true ->
  forall ops st m pos,
    mon_ok (L02 c) m -> forallb op_bytes ops = true -> forallb no_read_by_type ops = true ->
    Forall (fun p => snd p <> OFault) (srv_run c st ops) ->
    c02_monitor_from c m pos (srv_run c st ops) = None.
Proof.
  intros Hw Hn Hu. induction ops as [|o t IH]; intros st m pos Hm Hb Hr Hf; [reflexivity|].
  cbn [forallb] in Hb, Hr. apply andb_true_iff in Hb. destruct Hb as [Hb1 Hb2]. apply andb_true_iff in Hr. destruct Hr as [Hr1 Hr2].
  pose proof (c02_step_ok c st m o Hw Hn Hu Hm Hb1 Hr1) as Hstep.
  cbn [srv_run] in *. destruct (srv_step c st o) as [st' out] eqn:Es. cbn [snd] in Hstep.
  inversion Hf as [|? ? Hf1 Hf2]; subst. cbn [snd] in Hf1.
  destruct (Hstep Hf1) as (m' & E & Hm'). cbn [c02_monitor_from]. rewrite E. apply IH; auto.
Qed.

(* ================================================================== Part M6: C02 with Read By Type *)
(* the session invariant in its general form: what is still to come completes what was collected *)
Definition sess_inv (c : cfg) (s : session) : Prop :=
  forall hs', exact_ok (required c (ss_kind s)) (matching c (ss_kind s) (ss_next s) (ss_hi s)) hs' = true ->
              exact_ok (required c (ss_kind s)) (matching c (ss_kind s) (ss_lo0 s) (ss_hi s)) (ss_acc s ++ hs') = true.
Definition mon_inv (c : cfg) (m : mon) : Prop := forall cid s, nth cid m None = Some s -> sess_inv c s.

Lemma mon_inv_upd_none c m cid : mon_inv c m -> mon_inv c (upd m cid None).
Proof.
  intros H i s Hn. destruct (Nat.eq_dec cid i) as [->|Hne].
  - destruct (Nat.lt_ge_cases i (length m)); [rewrite nth_upd_eq in Hn by auto; discriminate Hn|rewrite upd_out in Hn by auto; eapply H; eauto].
  - rewrite nth_upd_neq in Hn by auto. eapply H; eauto.
Qed.

Lemma mon_inv_upd_some c m cid s : mon_inv c m -> sess_inv c s -> mon_inv c (upd m cid (Some s)).
Proof.
  intros H Hs i s' Hn. destruct (Nat.eq_dec cid i) as [->|Hne].
  - destruct (Nat.lt_ge_cases i (length m)); [rewrite nth_upd_eq in Hn by auto; inversion Hn; subst; auto|rewrite upd_out in Hn by auto; eapply H; eauto].
  - rewrite nth_upd_neq in Hn by auto. eapply H; eauto.
Qed.

Lemma mon_inv_init c : mon_inv c (repeat None n_conns).
Proof. intros i s H. cbn in H. destruct i as [|[|[|[|i]]]]; discriminate H. Qed.

Lemma continued_inv c m cid k lo hi lo0 acc :
  mon_inv c m -> continued (nth cid m None) k lo hi = (lo0, acc) ->
  forall hs', exact_ok (required c k) (matching c k lo hi) hs' = true ->
              exact_ok (required c k) (matching c k lo0 hi) (acc ++ hs') = true.
Proof.
  intros Hm H. unfold continued in H. destruct (nth cid m None) as [s|] eqn:En.
  - destruct (dkind_eqb (ss_kind s) k && (ss_hi s =? hi) && (ss_next s =? lo)) eqn:E.
    + apply andb_true_iff in E. destruct E as [E E3]. apply andb_true_iff in E. destruct E as [E1 E2].
      apply dkind_eqb_eq in E1. apply N.eqb_eq in E2, E3. inversion H; subst. apply (Hm _ _ En).
    + inversion H; subst. intros hs' X. exact X.
  - inversion H; subst. intros hs' X. exact X.
Qed.

Lemma exact_ok_none_required req (M : list (N * attr)) : none_required req M = true -> exact_ok req M [] = true.
Proof.
  induction M as [|[x a] t IH]; cbn [none_required forallb exact_ok snd]; [reflexivity|].
  intros H. apply andb_true_iff in H. destruct H as [H1 H2]. rewrite H1. cbn [andb]. apply IH. exact H2.
Qed.

Lemma session_step_inv c m cid k lo hi p judge tnf ten :
  mon_inv c m ->
  match p with
  | PError _ code => code = err_attribute_not_found /\ none_required (required c k) (matching c k lo hi) = true
  | PEntries es =>
      judge es = Ok
      /\ (forall hs', exact_ok (required c k) (matching c k (last (map entry_end es) 0 + 1) hi) hs' = true ->
                      exact_ok (required c k) (matching c k lo hi) (map entry_handle es ++ hs') = true)
      /\ ((hi <=? last (map entry_end es) 0) || (65535 <=? last (map entry_end es) 0) = true ->
          matching c k (last (map entry_end es) 0 + 1) hi = [])
  | PBroken => False
  end ->
  exists m', session_step m cid k lo hi p judge (fun l => matching c k l hi) (required c k) tnf ten = (Ok, m') /\ mon_inv c m'.
Proof.
  intros Hm Hp. unfold session_step.
  destruct (continued (nth cid m None) k lo hi) as [lo0 acc] eqn:Ec.
  pose proof (continued_inv c m cid k lo hi lo0 acc Hm Ec) as Hc.
  destruct p as [h code|es|]; [| |destruct Hp].
  - destruct Hp as [-> Hp]. rewrite N.eqb_refl, Hp. cbn [andb]. unfold finish.
    specialize (Hc [] (exact_ok_none_required _ _ Hp)). rewrite app_nil_r in Hc. rewrite Hc.
    eexists. split; [reflexivity|]. apply mon_inv_upd_none; auto.
  - destruct Hp as (Hj & Hp & Hend). rewrite Hj. cbv zeta.
    destruct ((hi <=? last (map entry_end es) 0) || (65535 <=? last (map entry_end es) 0)) eqn:Ee.
    + unfold finish. specialize (Hend eq_refl).
      assert (X : exact_ok (required c k) (matching c k lo hi) (map entry_handle es ++ []) = true) by (apply Hp; rewrite Hend; reflexivity).
      rewrite app_nil_r in X. rewrite (Hc _ X). eexists. split; [reflexivity|]. apply mon_inv_upd_none; auto.
    + eexists. split; [reflexivity|]. apply mon_inv_upd_some; auto.
      unfold sess_inv. cbn [ss_kind ss_lo0 ss_hi ss_next ss_acc]. intros hs' X. rewrite <- app_assoc. apply Hc. apply Hp. exact X.
Qed.

(* for the kinds where every matching attribute is required: from the handle lists *)
Lemma exact_ok_all req (M : list (N * attr)) hs : (forall a, req a = true) -> exact_ok req M hs = true -> map fst M = hs.
Proof.
  intros Hr. revert hs; induction M as [|[x a] t IH]; intros hs H; cbn [exact_ok map fst] in *.
  - destruct hs; [reflexivity|discriminate H].
  - destruct hs as [|h hs']; [rewrite Hr in H; discriminate H|].
    destruct (x =? h) eqn:E; [apply N.eqb_eq in E; subst; f_equal; apply IH; exact H|rewrite Hr in H; discriminate H].
Qed.

Lemma exact_ok_of_eq req (M : list (N * attr)) acc : map fst M = acc -> exact_ok req M acc = true.
Proof.
  revert acc; induction M as [|[x a] t IH]; intros acc H; cbn [map] in H; subst acc; cbn [exact_ok map fst]; [reflexivity|].
  rewrite N.eqb_refl. apply IH. reflexivity.
Qed.

Lemma session_step_handles c (L : dkind -> list N) m cid k lo hi p judge tnf ten :
  mon_inv c m -> (forall a, required c k a = true) ->
  (forall l', map fst (matching c k l' hi) = hrange (L k) l' hi) ->
  (forall h, In h (L k) -> h <= 65535) ->
  match p with
  | PError _ code => code = err_attribute_not_found /\ hrange (L k) lo hi = []
  | PEntries es => judge es = Ok /\ hrange (L k) lo hi = map entry_handle es ++ hrange (L k) (last (map entry_end es) 0 + 1) hi
  | PBroken => False
  end ->
  exists m', session_step m cid k lo hi p judge (fun l => matching c k l hi) (required c k) tnf ten = (Ok, m') /\ mon_inv c m'.
Proof.
  intros Hm Hr Hexp Hb Hp. apply session_step_inv; auto.
  destruct p as [h code|es|]; [| |exact Hp].
  - destruct Hp as [-> Hp]. split; [reflexivity|].
    assert (X : matching c k lo hi = []) by (specialize (Hexp lo); rewrite Hp in Hexp; destruct (matching c k lo hi); [reflexivity|discriminate Hexp]).
    rewrite X. reflexivity.
  - destruct Hp as [Hj Hp]. split; [exact Hj|]. split.
    + intros hs' X. apply (exact_ok_all _ _ _ Hr) in X. apply exact_ok_of_eq. rewrite Hexp, Hp, <- X, Hexp. reflexivity.
    + intros Ee. pose proof (hrange_beyond (L k) hi _ Hb Ee) as X. rewrite <- Hexp in X.
      destruct (matching c k (last (map entry_end es) 0 + 1) hi); [reflexivity|discriminate X].
Qed.

Lemma c02_info_step_inv c st m cid a b x y n st' resp :
  wf c -> no_includes c -> all_16bit c = true -> mon_inv c m ->
  a < 256 -> b < 256 -> x < 256 -> y < 256 ->
  att_input c st cid [4; a; b; x; y] n = Some (st', resp) ->
  exists m',
    (if (w16 a b =? 0) || (w16 x y <? w16 a b) then (judge_invalid_range (w16 a b) (parse_resp 4 resp), upd m cid None)
     else session_step m cid KInfo (w16 a b) (w16 x y) (parse_resp 4 resp) (judge_entries c KInfo (w16 a b) (w16 x y))
            (fun l => matching c KInfo l (w16 x y)) (required c KInfo) dt_not_found dt_enumerate) = (Ok, m')
    /\ mon_inv c m'.
Proof.
  intros Hw Hn Hu Hm Ha Hb Hx Hy Hin.
  apply att_input_4 in Hin. destruct Hin as (k & b' & nn & Hk & Hout & Hh & Hnn & ->).
  set (out_size := N.min n (negotiated_mtu c k)) in *.
  assert (Hlb : out_size <= len (repeat fill_byte (N.to_nat n))) by (rewrite len_repeat_N; unfold out_size; lia).
  rewrite takeN_seg by exact Hnn.
  destruct ((w16 a b =? 0) || (w16 x y <? w16 a b)) eqn:Er.
  - unfold handle_find_information in Hh.
    rewrite (check_range_invalid c _ _ out_size 5 5 4 (w16 a b) (w16 x y)) in Hh; try reflexivity; [|left; reflexivity|exact Er].
    destruct (error_response 4 err_invalid_handle (w16 a b) _ out_size) as [r|] eqn:Ee; [|discriminate Hh].
    inversion Hh; subst r. apply error_response_bytes in Ee; auto; [|lia]. cbn [fst snd] in Ee. destruct Ee as (E1 & E2 & _).
    subst nn. rewrite E2, parse_error_response. cbn [judge_invalid_range]. rewrite N.eqb_refl. cbn.
    eexists. split; [reflexivity|]. apply mon_inv_upd_none; auto.
  - assert (Hlo : 1 <= w16 a b) by lia. assert (Hhi : w16 a b <= w16 x y) by lia.
    pose proof (find_information_spec c a b x y _ out_size (b', nn) Hw Hn Ha Hb Hx Hy Hlo Hhi Hout Hlb Hh) as Hsp.
    unfold fi_response in Hsp. cbv zeta in Hsp. cbn [fst snd] in Hsp.
    apply (session_step_handles c (L02 c) m cid KInfo); [exact Hm|intros ?; reflexivity| | |].
    + intros l'. apply matching_info_handles; auto.
    + intros h Hh'. eapply L02_bounded; eauto.
    + cbn [L02]. destruct (from_handle (w16 a b) (table c)) as [|e W] eqn:Ef.
      * destruct Hsp as [E1 E2]. subst nn. rewrite E2, parse_error_response. split; [reflexivity|].
        rewrite <- matching_info_handles, matching_info, Ef by auto. reflexivity.
      * destruct (fst e <=? w16 x y) eqn:Ex.
        -- destruct Hsp as (_ & _ & E3). rewrite E3.
           destruct (fi_answer c out_size (w16 a b) (w16 x y) e W Hw Hn Hout Hu Hlo Hhi Ef ltac:(lia)) as (F1 & F2 & F3).
           assert (H16 : is16 (snd e) = true).
           { unfold all_16bit in Hu. rewrite forallb_forall in Hu. apply Hu.
             assert (X : In e (from_handle (w16 a b) (table c))) by (rewrite Ef; left; reflexivity). apply filter_In in X. tauto. }
           rewrite H16 in *. rewrite (parse_fi_response c); auto.
        -- destruct Hsp as [E1 E2]. subst nn. rewrite E2, parse_error_response. split; [reflexivity|].
           rewrite <- matching_info_handles by auto. rewrite (matching_info_empty c _ _ e W) by (auto; lia). reflexivity.
Qed.

Lemma c02_group_step_inv c st m cid a b x y n st' resp :
  wf c -> no_includes c -> mon_inv c m ->
  a < 256 -> b < 256 -> x < 256 -> y < 256 ->
  att_input c st cid [16; a; b; x; y; 0; 40] n = Some (st', resp) ->
  exists m',
    (if (w16 a b =? 0) || (w16 x y <? w16 a b) then (judge_invalid_range (w16 a b) (parse_resp 16 resp), upd m cid None)
     else session_step m cid KGroup (w16 a b) (w16 x y) (parse_resp 16 resp) (judge_entries c KGroup (w16 a b) (w16 x y))
            (fun l => matching c KGroup l (w16 x y)) (required c KGroup) dt_not_found dt_enumerate) = (Ok, m')
    /\ mon_inv c m'.
Proof.
  intros Hw Hn Hm Ha Hb Hx Hy Hin.
  apply att_input_16 in Hin. destruct Hin as (k & b' & nn & Hk & Hout & Hh & Hnn & ->).
  set (out_size := N.min n (negotiated_mtu c k)) in *.
  assert (Hlb : out_size <= len (repeat fill_byte (N.to_nat n))) by (rewrite len_repeat_N; unfold out_size; lia).
  rewrite takeN_seg by exact Hnn.
  destruct ((w16 a b =? 0) || (w16 x y <? w16 a b)) eqn:Er.
  - unfold handle_read_by_group_type in Hh.
    rewrite (check_range_invalid c _ _ out_size 7 21 16 (w16 a b) (w16 x y)) in Hh; try reflexivity; [|left; reflexivity|exact Er].
    destruct (error_response 16 err_invalid_handle (w16 a b) _ out_size) as [r|] eqn:Ee; [|discriminate Hh].
    inversion Hh; subst r. apply error_response_bytes in Ee; auto; [|lia]. cbn [fst snd] in Ee. destruct Ee as (E1 & E2 & _).
    subst nn. rewrite E2, parse_error_response. cbn [judge_invalid_range]. rewrite N.eqb_refl. cbn.
    eexists. split; [reflexivity|]. apply mon_inv_upd_none; auto.
  - assert (Hlo : 1 <= w16 a b) by lia. assert (Hhi : w16 a b <= w16 x y) by lia.
    pose proof (read_by_group_type_spec c a b x y _ out_size (b', nn) Hw Hn Ha Hb Hx Hy Hlo Hhi Hout Hlb Hh) as Hsp.
    set (walk := fun lo hi => walk_first (groups c) lo hi (out_size - 2)).
    assert (Hwalk : forall lo', exists rest, filter (selected_range (svc_sel None) lo' (w16 x y)) (groups c) = walk lo' (w16 x y) ++ rest
                                  /\ (walk lo' (w16 x y) = [] -> filter (selected_range (svc_sel None) lo' (w16 x y)) (groups c) = [])).
    { intros lo'. destruct (walk_first_spec (groups c) lo' (w16 x y) (out_size - 2) ltac:(lia)) as (rest & W1 & W2 & _).
      exists rest. rewrite svc_sel_none_wanted. split; auto. }
    pose proof (group_answer c None walk (w16 a b) (w16 x y) Hw Hn Hwalk Hlo Hhi) as Hans. cbv zeta in Hans.
    rewrite <- primary_starts_sel in Hans.
    destruct (walk_first_spec (groups c) (w16 a b) (w16 x y) (out_size - 2) ltac:(lia)) as (rest & W1 & W2 & W3).
    unfold walk in Hans. unfold rbg_response in Hsp. cbn [fst snd] in Hsp.
    apply (session_step_handles c (L02 c) m cid KGroup); [exact Hm|intros ?; reflexivity| | |].
    + intros l'. apply matching_group_handles; auto.
    + intros h Hh'. eapply L02_bounded; eauto.
    + cbn [L02]. destruct (walk_first (groups c) (w16 a b) (w16 x y) (out_size - 2)) as [|g W'] eqn:Ew.
      * destruct Hsp as [E1 E2]. subst nn. rewrite E2, parse_error_response. split; [reflexivity|exact Hans].
      * destruct Hsp as (_ & _ & E3). rewrite E3.
        rewrite (parse_rbg_response c (g :: W') (is_128bit (s_uuid (snd g)))); auto; [|discriminate|].
        -- destruct Hans as [_ Hans]. split; [|exact Hans].
           apply (judge_entries_groups c _ _ (g :: W') rest); auto. discriminate.
        -- intros g' Hg'. split; [|apply W3; exact Hg'].
           assert (X : In g' (filter (group_wanted (w16 a b) (w16 x y)) (groups c))) by (rewrite W1; apply in_or_app; left; exact Hg').
           apply filter_In in X. tauto.
Qed.

(* ---- Read By Type on configurations where the attributes of one type have equal, state independent value lengths *)
Definition slen (a : attr) : option N :=
  match a with
  | AService s => Some (len (uuid_bytes (s_uuid s)))
  | AInclude _ => None
  | ACharDecl _ ch => Some (3 + len (uuid_bytes (c_uuid ch)))
  | AValue _ ch _ _ => match c_value ch with VFixed size _ => Some size | VString bs => Some (len bs) | _ => None end
  | ACccd _ _ _ => Some 2
  | AUserDesc n => Some (len n)
  | ADesc _ v => Some (len v)
  end.

Lemma slen_erase a : slen (erase a) = slen a.
Proof. destruct a; reflexivity. Qed.

Lemma mem_read_0 mem m : mem_read mem 0 m = (Success, takeN (N.min m (len mem - 0)) (dropN 0 mem)).
Proof. unfold mem_read. replace (len mem <? 0) with false by lia. reflexivity. Qed.

Lemma mem_read_0_len mem m r d : mem_read mem 0 m = (r, d) -> len d = N.min (len mem) m.
Proof.
  rewrite mem_read_0. intros H. inversion H; subst. unfold len, takeN, dropN. cbn [N.to_nat skipn]. rewrite firstn_length. lia.
Qed.

Lemma fixed_bytes_len size v : len (fixed_bytes size v) = size.
Proof. unfold fixed_bytes, len. rewrite map_length, seq_length. lia. Qed.

Lemma access_read_slen c st cid a index m st' d L :
  access_read c st cid a index 0 m = Some (st', Success, d) -> slen a = Some L -> len d = N.min L m.
Proof.
  unfold access_read. destruct (get_conn st cid) as [k|]; [|discriminate]. cbv zeta.
  destruct a as [s|u|s ch|s ch g cci|s ch cci|nm|u v]; cbn [slen]; intros H HL.
  - inversion HL; subst L. destruct (mem_read _ 0 m) as [r d'] eqn:E. inversion H; subst. eapply mem_read_0_len; eauto.
  - discriminate HL.
  - apply AttSrvProofsC01.some_inj in HL. subst L. unfold char_decl_value in H. cbv zeta in H. destruct (handle_by_index c (index + 1) =? invalid_handle); [discriminate|]. cbv iota beta in H.
    destruct (mem_read _ 0 m) as [r d'] eqn:E. inversion H; subst. apply mem_read_0_len in E. rewrite E. f_equal.
    unfold len, le16. cbn [length app]. lia.
  - unfold value_read in H. destruct (security_check _ _ _); try discriminate H.
    destruct (c_value ch) as [sz cst|sz v|bs|sz hrd hwr blob]; try discriminate HL; inversion HL; subst L.
    + destruct (c_no_read ch); [discriminate H|]. destruct (mem_read _ 0 m) as [r d'] eqn:E. inversion H; subst.
      apply mem_read_0_len in E. rewrite E, fixed_bytes_len. reflexivity.
    + destruct (mem_read _ 0 m) as [r d'] eqn:E. inversion H; subst. eapply mem_read_0_len; eauto.
  - inversion HL; subst L. destruct (security_check _ _ _); try discriminate H.
    destruct (mem_read _ 0 m) as [r d'] eqn:E. inversion H; subst. apply mem_read_0_len in E. rewrite E. reflexivity.
  - inversion HL; subst L. destruct (mem_read _ 0 m) as [r d'] eqn:E. inversion H; subst. eapply mem_read_0_len; eauto.
  - inversion HL; subst L. destruct (mem_read _ 0 m) as [r d'] eqn:E. inversion H; subst. eapply mem_read_0_len; eauto.
Qed.

Definition same_len (x y : N * attr) : bool :=
  negb (uuid_eqb (attr_type (snd x)) (attr_type (snd y))) || (fst x =? fst y)
  || match slen (snd x), slen (snd y) with Some a, Some b => a =? b | _, _ => false end.
Definition rbt_regular (c : cfg) : bool := forallb (fun x => forallb (same_len x) (table c)) (table c).

Lemma rbt_regular_pair c ty x y :
  rbt_regular c = true -> In x (table c) -> In y (table c) ->
  type_matches (KType ty) (snd x) = true -> type_matches (KType ty) (snd y) = true -> fst x <> fst y ->
  exists L, slen (snd x) = Some L /\ slen (snd y) = Some L.
Proof.
  intros Hr Hx Hy Tx Ty Hne. unfold rbt_regular in Hr. rewrite forallb_forall in Hr. specialize (Hr x Hx).
  rewrite forallb_forall in Hr. specialize (Hr y Hy). unfold same_len in Hr. cbn [type_matches] in Tx, Ty.
  apply uuid_eqb_eq in Tx, Ty. rewrite Tx, Ty, uuid_eqb_refl in Hr. cbn [negb orb] in Hr.
  replace (fst x =? fst y) with false in Hr by (symmetry; apply N.eqb_neq; exact Hne). cbn [orb] in Hr.
  destruct (slen (snd x)) as [a|]; [|discriminate Hr]. destruct (slen (snd y)) as [b|]; [|discriminate Hr].
  apply N.eqb_eq in Hr. subst b. exists a. auto.
Qed.

Lemma col_inv_cur k E : col_inv k E -> co_cur k = 2 + len (flat_map ebytes E).
Proof. intros (I1 & I2 & _). rewrite <- I2, seg_len. lia. Qed.

Lemma ebytes_app_len E x : len (flat_map ebytes (E ++ [x])) = len (flat_map ebytes E) + 2 + len (snd x).
Proof. rewrite flat_map_app. cbn [flat_map]. rewrite app_nil_r. unfold len, ebytes, le16. rewrite !app_length. cbn [length]. lia. Qed.

(* one attribute offered to the collector: collected, or not collected for one of three reasons *)
Lemma collect_attribute_cases c st cid k e index a st' k' E :
  collect_attribute c st cid k e index a = Some (st', k') ->
  col_inv k E -> co_cur k <= e -> e <= len (co_buf k) ->
  conns st' = conns st /\ co_cur k' <= e /\ len (co_buf k') = len (co_buf k)
  /\ ((exists d0 d st1, col_inv k' (E ++ [(handle_by_index c index, d0)])
         /\ access_read c st cid a index 0 (N.min (e - co_cur k) 255 - 2) = Some (st1, Success, d)
         /\ 2 <= e - co_cur k /\ (co_first k = false -> len d + 2 = co_size k))
      \/ (col_inv k' E /\ co_cur k' = co_cur k /\ co_first k' = co_first k /\ (co_first k = false -> co_size k' = co_size k)
          /\ (e - co_cur k < 2
              \/ (exists st1 rc d, access_read c st cid a index 0 (N.min (e - co_cur k) 255 - 2) = Some (st1, rc, d) /\ rc <> Success)
              \/ (co_first k = false /\ exists st1 d, access_read c st cid a index 0 (N.min (e - co_cur k) 255 - 2) = Some (st1, Success, d)
                                                     /\ len d + 2 <> co_size k)))).
Proof.
  intros H Hinv Hc He.
  destruct (collect_attribute_step _ _ _ _ _ _ _ _ _ E H Hinv Hc He) as (S1 & S2 & S3).
  destruct (collect_attribute_first _ _ _ _ _ _ _ _ _ H) as (C1 & _).
  split; [exact C1|]. split; [exact S1|]. split; [exact S2|].
  pose proof (col_inv_cur k E Hinv) as Hcur.
  assert (Hsame : forall X : unit, co_cur k' = co_cur k -> (col_inv k' E \/ exists d, col_inv k' (E ++ [(handle_by_index c index, d)])) -> col_inv k' E).
  { intros _ Hk [X|[d X]]; [exact X|]. apply col_inv_cur in X. rewrite ebytes_app_len in X. lia. }
  assert (Hmore : forall d : list N, co_cur k' = co_cur k + 2 + len d -> (col_inv k' E \/ exists d0, col_inv k' (E ++ [(handle_by_index c index, d0)])) ->
                  exists d0, col_inv k' (E ++ [(handle_by_index c index, d0)])).
  { intros d Hk [X|X]; [|exact X]. apply col_inv_cur in X. lia. }
  unfold collect_attribute in H.
  destruct (2 <=? e - co_cur k) eqn:E2.
  - cbv zeta in H. destruct (access_read c st cid a index 0 _) as [[[st1 rc] d]|] eqn:Ea; [|discriminate].
    destruct rc.
    + destruct (253 <? len d) eqn:E253; [discriminate|].
      destruct (put (co_buf k) (co_cur k + 2) d) as [b1|] eqn:P1; [|discriminate].
      assert (Hmod : (len d + 2) mod 256 = len d + 2) by (apply N.mod_small; lia).
      assert (Hmod' : len d mod 256 = len d) by (apply N.mod_small; lia).
      destruct (len d + 2 =? (if co_first k then (len d + 2) mod 256 else co_size k)) eqn:Es.
      * destruct (put b1 (co_cur k) _) as [b2|]; [|discriminate]. inversion H; subst st' k'. cbn [co_cur co_first co_size] in *.
        rewrite Hmod' in *.
        left. destruct (Hmore d ltac:(lia) S3) as [d0 X]. exists d0, d, st1.
        split; [exact X|]. split; [reflexivity|]. split; [lia|].
        intros Hf. rewrite Hf in Es. lia.
      * inversion H; subst st' k'. cbn [co_cur co_first co_size] in *. right.
        assert (Hnf : co_first k = false) by (destruct (co_first k); [lia|reflexivity]). rewrite Hnf in *.
        split; [apply (Hsame tt); auto|]. repeat split; auto.
        right. right. split; [reflexivity|]. exists st1, d. split; [reflexivity|lia].
    + inversion H; subst st' k'. right. split; [apply (Hsame tt); auto|]. repeat split; auto.
      right. left. exists st1, (Err code), d. split; [reflexivity|discriminate].
    + inversion H; subst st' k'. right. split; [apply (Hsame tt); auto|]. repeat split; auto.
      right. left. exists st1, ValueEqual, d. split; [reflexivity|discriminate].
  - inversion H; subst st' k'. right. split; [apply (Hsame tt); auto|]. repeat split; auto. left. lia.
Qed.

(* ---- exact_ok over processed prefixes *)
Lemma exact_ok_handles req (M : list (N * attr)) hs : exact_ok req M hs = true -> forall h, In h hs -> In h (map fst M).
Proof.
  revert hs; induction M as [|[x a] t IH]; intros hs H h Hh; cbn [exact_ok] in H.
  - destruct hs; [destruct Hh|discriminate H].
  - destruct hs as [|h0 hs']; [destruct Hh|]. cbn [map fst]. destruct (x =? h0) eqn:E.
    + apply N.eqb_eq in E. subst. destruct Hh as [<-|Hh]; [left; reflexivity|right; eapply IH; eauto].
    + apply andb_true_iff in H. destruct H as [_ H]. right. eapply IH; eauto.
Qed.

Lemma exact_ok_app req (A B : list (N * attr)) hs hs2 :
  exact_ok req A hs = true -> (forall y h, In y A -> In h hs2 -> fst y <> h) ->
  exact_ok req (A ++ B) (hs ++ hs2) = exact_ok req B hs2.
Proof.
  revert hs; induction A as [|[x a] t IH]; intros hs H Hd; cbn [exact_ok app] in *.
  - destruct hs; [reflexivity|discriminate H].
  - destruct hs as [|h hs'].
    + apply andb_true_iff in H. destruct H as [H1 H2]. cbn [app].
      destruct hs2 as [|h2 t2].
      * rewrite H1. cbn [andb]. apply (IH [] H2). intros; eapply Hd; eauto. right; auto.
      * replace (x =? h2) with false by (symmetry; apply N.eqb_neq; apply (Hd (x, a) h2); left; reflexivity).
        rewrite H1. cbn [andb]. apply (IH [] H2). intros y h Hy Hh. apply Hd; auto. right; auto.
    + cbn [app]. destruct (x =? h).
      * apply IH; auto. intros; eapply Hd; eauto. right; auto.
      * apply andb_true_iff in H. destruct H as [H1 H2]. rewrite H1. cbn [andb]. apply (IH (h :: hs') H2). intros; eapply Hd; eauto. right; auto.
Qed.

Lemma exact_ok_skip_all req (P : list (N * attr)) h a :
  (forall y, In y P -> req (snd y) = false /\ fst y <> h) -> exact_ok req (P ++ [(h, a)]) [h] = true.
Proof.
  induction P as [|[x b] t IH]; intros H; cbn [app exact_ok].
  - rewrite N.eqb_refl. reflexivity.
  - destruct (H (x, b) ltac:(left; reflexivity)) as [H1 H2]. cbn [fst snd] in *.
    replace (x =? h) with false by (symmetry; apply N.eqb_neq; exact H2). rewrite H1. cbn [negb andb].
    apply IH. intros y Hy. apply H. right. exact Hy.
Qed.

Lemma run_ok_of_exact req (A B : list (N * attr)) hs : exact_ok req A hs = true -> run_ok req (A ++ B) hs = true.
Proof.
  revert hs; induction A as [|[x a] t IH]; intros hs H; cbn [exact_ok app] in *.
  - destruct hs; [destruct B as [|[? ?] ?]; reflexivity|discriminate H].
  - destruct hs as [|h hs']; [reflexivity|]. cbn [run_ok]. destruct (x =? h); [apply IH; exact H|].
    apply andb_true_iff in H. destruct H as [H1 H2]. rewrite H1. cbn [andb]. apply IH. exact H2.
Qed.

(* why an attribute was not collected although nothing behind it is excluded *)
Definition skip_ok (c : cfg) (e : N) (k : collect) (y : N * attr) : Prop :=
  readable c (snd y) = false
  \/ (co_first k = false /\ forall L, slen (snd y) = Some L ->
        e - co_cur k < 2 \/ N.min L (N.min (e - co_cur k) 255 - 2) + 2 <> co_size k).

Definition wanted_type (ty : uuid) (eh : N) (x : N * attr) : bool := (fst x <=? eh) && type_matches (KType ty) (snd x).

(* the processed attributes of the requested type: P1 up to the last collected one, P2 behind it *)
Record cover (c : cfg) (ty : uuid) (e : N) (k : collect) (E : list (N * list N)) (P1 P2 : list (N * attr)) : Prop := mkCover {
  cv_exact : exact_ok (readable c) P1 (map fst E) = true;
  cv_low : forall y, In y P1 -> fst y <= last (map fst E) 0;
  cv_high : forall y, In y P2 -> last (map fst E) 0 < fst y;
  cv_skip : forall y, In y P2 -> skip_ok c e k y;
  cv_table : forall y, In y (P1 ++ P2) -> In y (table c) /\ type_matches (KType ty) (snd y) = true;
  cv_none : E = [] -> P1 = [] }.

Lemma aa_cover c cid f e eh ty : wf c -> no_includes c -> rbt_regular c = true -> 23 <= e ->
  (forall a, uuid_filter_match f a = type_matches (KType ty) (erase a)) ->
  forall fuel st k index st' k' kk E P1 P2,
  all_attributes fuel c st cid f k e index (last_handle_index c eh) eh = Some (st', k') ->
  get_conn st cid = Some kk ->
  (N.to_nat (number_of_attributes c - index) < fuel)%nat ->
  col_inv k E -> co_cur k <= e -> e <= len (co_buf k) ->
  cover c ty e k E P1 P2 ->
  (forall y z, In y (P1 ++ P2) -> In z (skipn (N.to_nat index) (table c)) -> fst y < fst z) ->
  exists E' P1' P2',
    col_inv k' E' /\ co_cur k' <= e /\ len (co_buf k') = len (co_buf k)
    /\ cover c ty e k' E' P1' P2'
    /\ P1' ++ P2' = P1 ++ P2 ++ filter (wanted_type ty eh) (skipn (N.to_nat index) (table c)).
Proof.
  intros Hw Hn Hreg He23 Hf. induction fuel as [|n IH]; intros st k index st' k' kk E P1 P2 H Hk Hfu Hinv Hc He Hcov Hlt; [lia|].
  cbn [all_attributes] in H.
  destruct (index <? number_of_attributes c) eqn:Ei.
  - destruct (table_step c index Hw Hn ltac:(lia)) as (a & Ha & Hsk & Hin). rewrite Hsk in *. cbn [filter].
    set (x := (handle_by_index c index, erase a)) in *.
    assert (Hxt : In x (table c)) by (rewrite <- (firstn_skipn (N.to_nat index) (table c)), Hsk; apply in_or_app; right; left; reflexivity).
    assert (Hlt' : forall y z, In y (P1 ++ P2) -> In z (skipn (N.to_nat (index + 1)) (table c)) -> fst y < fst z)
      by (intros y z Hy Hz; apply Hlt; auto; right; exact Hz).
    assert (Hxz : forall z, In z (skipn (N.to_nat (index + 1)) (table c)) -> fst x < fst z)
      by (intros z Hz; apply (skipn_table_sorted c _ _ _ Hw Hn Hsk z Hz)).
    destruct ((index <=? last_handle_index c eh) && (handle_by_index c index <=? eh)) eqn:Ec.
    + rewrite Ha in H. apply andb_true_iff in Ec. destruct Ec as [_ Ec].
      unfold wanted_type at 1. change (fst x) with (handle_by_index c index). change (snd x) with (erase a).
      rewrite Ec. cbn [andb]. rewrite <- Hf.
      destruct (uuid_filter_match f a) eqn:Em.
      * destruct (collect_attribute c st cid k e index a) as [[st1 k1]|] eqn:Eca; [|discriminate].
        destruct (collect_attribute_cases _ _ _ _ _ _ _ _ _ E Eca Hinv Hc He) as (C1 & C2 & C3 & Ccase).
        assert (Hk1 : get_conn st1 cid = Some kk) by (rewrite (get_conn_conns _ _ _ C1); exact Hk).
        assert (Hxty : type_matches (KType ty) (snd x) = true) by (unfold x; cbn [snd]; rewrite <- Hf; exact Em).
        destruct Ccase as [(d0 & d & s1 & Cinv & Cread & Croom & Csize)|(Cinv & Ccur & Cfirst & Csz & Creason)].
        -- (* collected: everything skipped since the last collected one cannot be read *)
           assert (HP2 : forall y, In y P2 -> readable c (snd y) = false /\ fst y <> fst x).
           { intros y Hy. split; [|assert (fst y < fst x) by (apply Hlt; [apply in_or_app; right; exact Hy|left; reflexivity]); lia].
             destruct (cv_skip _ _ _ _ _ _ _ Hcov y Hy) as [Hr|[Hfirst Hlen]]; [exact Hr|exfalso].
             destruct (cv_table _ _ _ _ _ _ _ Hcov y ltac:(apply in_or_app; right; exact Hy)) as [Hyt Hyty].
             assert (Hne : fst y <> fst x) by (assert (fst y < fst x) by (apply Hlt; [apply in_or_app; right; exact Hy|left; reflexivity]); lia).
             destruct (rbt_regular_pair c ty y x Hreg Hyt Hxt Hyty Hxty Hne) as (L & Ly & Lx).
             unfold x in Lx. cbn [snd] in Lx. rewrite slen_erase in Lx.
             pose proof (access_read_slen _ _ _ _ _ _ _ _ _ Cread Lx) as Hd.
             specialize (Csize Hfirst). destruct (Hlen L Ly) as [X|X]; lia. }
           assert (Hcov1 : cover c ty e k1 (E ++ [(handle_by_index c index, d0)]) (P1 ++ P2 ++ [x]) []).
           { assert (Hlast : last (map fst (E ++ [(handle_by_index c index, d0)])) 0 = fst x).
             { rewrite map_app. cbn [map fst]. clear. induction (map fst E) as [|h t IHl]; [reflexivity|].
               destruct t; [reflexivity|]. exact IHl. }
             constructor.
             - rewrite map_app. cbn [map fst]. rewrite exact_ok_app.
               + apply exact_ok_skip_all. exact HP2.
               + apply (cv_exact _ _ _ _ _ _ _ Hcov).
               + intros y h Hy [<-|[]]. assert (fst y < fst x) by (apply Hlt; [apply in_or_app; left; exact Hy|left; reflexivity]). unfold x in *. cbn [fst] in *. lia.
             - intros y Hy. rewrite Hlast. apply in_app_or in Hy. destruct Hy as [Hy|Hy].
               + assert (fst y < fst x) by (apply Hlt; [apply in_or_app; left; exact Hy|left; reflexivity]). lia.
               + apply in_app_or in Hy. destruct Hy as [Hy|[<-|[]]]; [|lia].
                 assert (fst y < fst x) by (apply Hlt; [apply in_or_app; right; exact Hy|left; reflexivity]). lia.
             - intros y [].
             - intros y [].
             - intros y Hy. rewrite app_nil_r in Hy. apply in_app_or in Hy. destruct Hy as [Hy|Hy].
               + apply (cv_table _ _ _ _ _ _ _ Hcov). apply in_or_app. left. exact Hy.
               + apply in_app_or in Hy. destruct Hy as [Hy|[<-|[]]]; [|split; auto].
                 apply (cv_table _ _ _ _ _ _ _ Hcov). apply in_or_app. right. exact Hy.
             - intros X. destruct E; discriminate X. }
           assert (Hlt1 : forall y z, In y ((P1 ++ P2 ++ [x]) ++ []) -> In z (skipn (N.to_nat (index + 1)) (table c)) -> fst y < fst z).
           { intros y z Hy Hz. rewrite app_nil_r in Hy. apply in_app_or in Hy. destruct Hy as [Hy|Hy].
             - apply Hlt'; auto. apply in_or_app. left. exact Hy.
             - apply in_app_or in Hy. destruct Hy as [Hy|[<-|[]]]; [|apply Hxz; exact Hz]. apply Hlt'; auto. apply in_or_app. right. exact Hy. }
           destruct (IH _ _ _ _ _ _ _ _ _ H Hk1 ltac:(lia) Cinv C2 ltac:(lia) Hcov1 Hlt1) as (E' & P1' & P2' & R1 & R2 & R3 & R4 & R5).
           exists E', P1', P2'. split; [exact R1|]. split; [exact R2|]. split; [lia|]. split; [exact R4|].
           rewrite R5. cbn [app]. rewrite <- !app_assoc. reflexivity.
        -- (* not collected *)
           assert (Hskx : skip_ok c e k1 x).
           { destruct Creason as [Hroom|[(s1 & rc & d & Hr1 & Hr2)|(Hff & s1 & d & Hr1 & Hr2)]].
             - right. assert (Hnf : co_first k = false).
               { destruct (co_first k) eqn:Ef; [|reflexivity]. pose proof (col_inv_cur k E Hinv) as X. destruct Hinv as (_ & _ & I3 & _).
                 rewrite (I3 Ef) in X. cbn in X. lia. }
               split; [congruence|]. intros L _. left. lia.
             - left. destruct (readable c (snd x)) eqn:Er; [|reflexivity]. exfalso.
               destruct (access_read_readable c st cid kk a index (N.min (e - co_cur k) 255 - 2) Hw Hn Ha Er Hk) as (s2 & d2 & Hacc & _).
               rewrite Hacc in Hr1. inversion Hr1; subst. apply Hr2. reflexivity.
             - right. split; [congruence|]. intros L HL. right. unfold x in HL. cbn [snd] in HL. rewrite slen_erase in HL.
               pose proof (access_read_slen _ _ _ _ _ _ _ _ _ Hr1 HL) as Hd. rewrite Ccur, (Csz Hff). lia. }
           assert (Hcov1 : cover c ty e k1 E P1 (P2 ++ [x])).
           { constructor.
             - apply (cv_exact _ _ _ _ _ _ _ Hcov).
             - apply (cv_low _ _ _ _ _ _ _ Hcov).
             - intros y Hy. apply in_app_or in Hy. destruct Hy as [Hy|[<-|[]]]; [apply (cv_high _ _ _ _ _ _ _ Hcov); exact Hy|].
               destruct (map fst E) as [|h0 t0] eqn:EE.
               + cbn [last]. assert (0 < fst x); [|lia]. pose proof (table_sorted c Hw Hn) as Hs.
                 apply (increasing_from_lower 0 _ _ Hs). apply in_map. exact Hxt.
               + assert (Hl : In (last (h0 :: t0) 0) (map fst P1)).
                 { apply (exact_ok_handles _ _ _ (cv_exact _ _ _ _ _ _ _ Hcov)). rewrite EE. apply last_in. discriminate. }
                 apply in_map_iff in Hl. destruct Hl as [y [Hy1 Hy2]]. rewrite <- Hy1.
                 apply Hlt; [apply in_or_app; left; exact Hy2|left; reflexivity].
             - intros y Hy. apply in_app_or in Hy. destruct Hy as [Hy|[<-|[]]]; [|exact Hskx].
               destruct (cv_skip _ _ _ _ _ _ _ Hcov y Hy) as [Hr|[Hff Hlen]]; [left; exact Hr|right].
               split; [congruence|]. intros L HL. rewrite Ccur, (Csz Hff). apply Hlen. exact HL.
             - intros y Hy. rewrite app_assoc in Hy. apply in_app_or in Hy. destruct Hy as [Hy|[<-|[]]]; [|split; auto].
               apply (cv_table _ _ _ _ _ _ _ Hcov). exact Hy.
             - apply (cv_none _ _ _ _ _ _ _ Hcov). }
           assert (Hlt1 : forall y z, In y (P1 ++ P2 ++ [x]) -> In z (skipn (N.to_nat (index + 1)) (table c)) -> fst y < fst z).
           { intros y z Hy Hz. rewrite app_assoc in Hy. apply in_app_or in Hy. destruct Hy as [Hy|[<-|[]]]; [apply Hlt'; auto|apply Hxz; exact Hz]. }
           destruct (IH _ _ _ _ _ _ _ _ _ H Hk1 ltac:(lia) Cinv C2 ltac:(lia) Hcov1 Hlt1) as (E' & P1' & P2' & R1 & R2 & R3 & R4 & R5).
           exists E', P1', P2'. split; [exact R1|]. split; [exact R2|]. split; [lia|]. split; [exact R4|].
           rewrite R5. cbn [app]. rewrite <- !app_assoc. reflexivity.
      * (* another type *)
        destruct (IH _ _ _ _ _ _ _ _ _ H Hk ltac:(lia) Hinv Hc He Hcov Hlt') as (E' & P1' & P2' & R1 & R2 & R3 & R4 & R5).
        exists E', P1', P2'. split; [exact R1|]. split; [exact R2|]. split; [exact R3|]. split; [exact R4|]. exact R5.
    + (* the scan ends: everything behind lies behind the ending handle *)
      inversion H; subst st' k'. exists E, P1, P2. split; [exact Hinv|]. split; [exact Hc|]. split; [reflexivity|]. split; [exact Hcov|].
      assert (Hgt : eh < handle_by_index c index).
      { apply andb_false_iff in Ec. destruct Ec as [Ec|Ec]; [|lia].
        destruct (handle_by_index c index <=? eh) eqn:E0; [|lia].
        pose proof (last_index_covers c eh index Hw Hn ltac:(lia) ltac:(lia)). lia. }
      unfold wanted_type at 1. change (fst x) with (handle_by_index c index). replace (handle_by_index c index <=? eh) with false by lia. cbn [andb].
      rewrite (filter_all_false _ (skipn (N.to_nat (index + 1)) (table c))); [rewrite app_nil_r; reflexivity|].
      intros z Hz. specialize (Hxz z Hz). unfold x in Hxz. cbn [fst] in Hxz. unfold wanted_type. replace (fst z <=? eh) with false by lia. reflexivity.
  - rewrite table_end by (auto; lia). cbn [filter]. rewrite !app_nil_r.
    destruct ((index <=? last_handle_index c eh) && (handle_by_index c index <=? eh)).
    + rewrite attribute_at_beyond in H by lia. discriminate H.
    + inversion H; subst st' k'. exists E, P1, P2. split; [exact Hinv|]. split; [exact Hc|]. split; [reflexivity|]. split; [exact Hcov|]. reflexivity.
Qed.

Lemma matching_narrow c k lo hi lo' : lo <= lo' -> matching c k lo' hi = filter (fun x => lo' <=? fst x) (matching c k lo hi).
Proof.
  intros H. unfold matching. rewrite filter_filter. apply filter_ext_in'. intros x _. unfold in_range.
  destruct (lo' <=? fst x) eqn:E1, (lo <=? fst x) eqn:E2, (fst x <=? hi) eqn:E3; cbn [andb]; try reflexivity; try lia.
  all: rewrite ?andb_true_r, ?andb_false_r; reflexivity.
Qed.

Lemma exact_ok_subseq req (M : list (N * attr)) hs : exact_ok req M hs = true -> subseq hs (map fst M).
Proof.
  revert hs; induction M as [|[x a] t IH]; intros hs H; cbn [exact_ok map fst] in *.
  - destruct hs; [constructor|discriminate H].
  - destruct hs as [|h hs']; [constructor|]. destruct (x =? h) eqn:E.
    + apply N.eqb_eq in E. subst. apply sub_take. apply IH. exact H.
    + apply andb_true_iff in H. destruct H as [_ H]. apply sub_skip. apply IH. exact H.
Qed.

Definition ehandle (e : N * list N) : entry := EHandle (fst e).

Lemma parse_rbt_response (E : list (N * list N)) sz :
  E <> [] -> (forall x, In x E -> len (snd x) + 2 = sz /\ fst x < 65536) ->
  parse_resp 8 (9 :: sz :: flat_map ebytes E) = PEntries (map ehandle E).
Proof.
  intros Hne HE.
  assert (Hsz : 2 <= sz) by (destruct E as [|x t]; [congruence|]; destruct (HE x ltac:(left; reflexivity)); lia).
  assert (Hlen : forall x, In x E -> length (ebytes x) = N.to_nat sz).
  { intros x Hx. destruct (HE x Hx) as [H1 _]. unfold ebytes, le16, len in *. cbn [app length]. lia. }
  assert (Hmap : map (fun ch => EHandle (w16 (nth 0 ch 0) (nth 1 ch 0))) (map ebytes E) = map ehandle E).
  { rewrite map_map. apply map_ext_in. intros x Hx. destruct (HE x Hx) as [_ H2]. unfold ebytes, ehandle, le16. cbn [app nth].
    rewrite w16_le16 by exact H2. reflexivity. }
  unfold parse_resp. lazy beta iota delta [N.eqb N.add Pos.eqb Pos.add Pos.succ negb orb].
  replace (sz <? 2) with false by lia. unfold parse_entries.
  rewrite (chunks_flat_map _ ebytes (N.to_nat sz) E) by (auto; lia). rewrite Hmap. reflexivity.
Qed.

Lemma att_input_8 c st cid t n st' resp :
  att_input c st cid (8 :: t) n = Some (st', resp) ->
  exists k b' nn, get_conn st cid = Some k /\ 23 <= N.min n (negotiated_mtu c k)
    /\ handle_read_by_type c st cid (8 :: t) (repeat fill_byte (N.to_nat n)) (N.min n (negotiated_mtu c k)) = Some (st', (b', nn))
    /\ nn <= len b' /\ resp = takeN nn b'.
Proof.
  unfold att_input. destruct (get_conn st cid) as [k|]; [|discriminate]. cbv zeta.
  destruct (len (8 :: t) =? 0); [discriminate|].
  destruct (N.min n (negotiated_mtu c k) <? default_att_mtu) eqn:E; [discriminate|].
  change (rd (8 :: t) 0) with (Some 8). cbn [N.eqb Pos.eqb].
  destruct (handle_read_by_type c st cid (8 :: t) _ _) as [[st1 [b' nn]]|] eqn:Eh; [|discriminate].
  destruct (nn <=? len b') eqn:En; [|discriminate]. intros H. inversion H; subst.
  exists k, b', nn. unfold default_att_mtu in E. repeat split; auto; lia.
Qed.

Lemma last_app_single (l : list N) x d : last (l ++ [x]) d = x.
Proof. induction l as [|h t IH]; [reflexivity|]. destruct t; [reflexivity|]. exact IH. Qed.

(* the Read By Type answer, as the monitor needs it *)
Lemma rbt_answer c st cid kk a0 a1 x0 x1 tyb ty b out_size st' r :
  wf c -> no_includes c -> rbt_regular c = true -> get_conn st cid = Some kk ->
  a0 < 256 -> a1 < 256 -> x0 < 256 -> x1 < 256 ->
  req_type tyb = Some ty -> ty <> U16 internal_128bit_uuid ->
  let lo := w16 a0 a1 in let hi := w16 x0 x1 in
  1 <= lo -> lo <= hi -> 23 <= out_size -> out_size <= 257 -> out_size <= len b ->
  handle_read_by_type c st cid (8 :: a0 :: a1 :: x0 :: x1 :: tyb) b out_size = Some (st', r) ->
  let M := fun l => matching c (KType ty) l hi in
  (snd r = 5 /\ seg 0 5 (fst r) = [1; 8; a0; a1; 10] /\ none_required (readable c) (M lo) = true)
  \/ (exists E sz, E <> [] /\ (forall x, In x E -> len (snd x) + 2 = sz /\ fst x < 65536)
        /\ snd r <= len (fst r) /\ seg 0 (snd r) (fst r) = 9 :: sz :: flat_map ebytes E
        /\ judge_entries c (KType ty) lo hi (map ehandle E) = Ok
        /\ (forall hs', exact_ok (readable c) (M (last (map fst E) 0 + 1)) hs' = true ->
                        exact_ok (readable c) (M lo) (map fst E ++ hs') = true)
        /\ ((hi <=? last (map fst E) 0) || (65535 <=? last (map fst E) 0) = true -> M (last (map fst E) 0 + 1) = [])).
Proof.
  intros Hw Hn Hreg Hk Ha0 Ha1 Hx0 Hx1 Hty Hne lo hi Hlo Hhi Ho Ho2 Hb H M.
  destruct (make_filter_spec a0 a1 x0 x1 tyb ty Hty Hne) as (Hlen & f & Hmk & Hf). cbv zeta in Hlen, Hmk.
  unfold handle_read_by_type, check_size_and_handle_range in H.
  destruct (rd_prefix5 8 a0 a1 x0 x1 tyb) as (R0 & R1 & R3). cbv zeta in R0, R1, R3.
  set (pdu := 8 :: a0 :: a1 :: x0 :: x1 :: tyb) in *.
  rewrite R0 in H. cbv iota beta in H.
  replace (negb (len pdu =? 7) && negb (len pdu =? 21)) with false in H by (destruct Hlen as [-> | ->]; reflexivity).
  rewrite R1, R3 in H. cbv iota beta in H. fold (w16 a0 a1) in H. fold (w16 x0 x1) in H. fold lo in H. fold hi in H.
  replace ((lo =? 0) || (hi <? lo)) with false in H by lia.
  destruct (from_first_index c lo Hw Hn) as [F1 F2].
  assert (HM : M lo = filter (wanted_type ty hi) (from_handle lo (table c))) by (unfold M; rewrite matching_type; reflexivity).
  destruct (first_index_by_handle c lo =? invalid_index) eqn:Efi.
  - destruct (error_response 8 err_attribute_not_found lo b out_size) as [r'|] eqn:Ee; [|discriminate].
    inversion H; subst st' r'. apply error_response_bytes in Ee; auto; [|lia]. left.
    apply N.eqb_eq in Efi. rewrite HM, (F1 Efi). cbn [filter]. tauto.
  - apply N.eqb_neq in Efi. destruct (F2 Efi) as [F3 F4].
    rewrite Hmk in H. cbv iota beta in H.
    destruct (all_attributes _ c st cid f _ out_size _ _ hi) as [[st1 k]|] eqn:Ea; [|discriminate].
    assert (Hcov0 : cover c ty out_size (mkCol b 2 0 true) [] [] []).
    { constructor; try (intros y []); auto. }
    assert (Hinv0 : col_inv (mkCol b 2 0 true) []).
    { unfold col_inv. cbn [co_cur co_buf co_first co_size]. rewrite seg_nil.
      split; [lia|]. split; [reflexivity|]. split; [reflexivity|]. split; [intros X; discriminate X|intros x []]. }
    destruct (aa_cover c cid f out_size hi ty Hw Hn Hreg Ho Hf _ _ _ _ _ _ kk [] [] [] Ea Hk ltac:(lia) Hinv0 ltac:(cbn; lia) ltac:(cbn; lia) Hcov0 ltac:(intros y z [])) as (E & P1 & P2 & I1 & I2 & I3 & I4 & I5).
    cbn [app co_buf co_cur] in I2, I3, I5. rewrite F4, <- HM in I5.
    pose proof (col_inv_cur k E I1) as Hcur. destruct I1 as (J1 & J2 & J3 & J4 & J5).
    destruct (co_cur k =? 2) eqn:E2.
    + cbn [negb] in H. destruct (error_response 8 err_attribute_not_found lo (co_buf k) out_size) as [r'|] eqn:Ee; [|discriminate].
      inversion H; subst st' r'. apply error_response_bytes in Ee; auto; [|lia]. left. split; [tauto|]. split; [tauto|].
      (* nothing collected: every matching attribute was skipped because it cannot be read *)
      apply N.eqb_eq in E2.
      assert (HE : E = []).
      { destruct E as [|x t]; [reflexivity|]. exfalso. rewrite E2 in Hcur. cbn [flat_map] in Hcur. unfold ebytes, le16, len in Hcur.
        rewrite !app_length in Hcur. cbn [length] in Hcur. lia. }
      subst E. rewrite (cv_none _ _ _ _ _ _ _ I4 eq_refl) in I5. cbn [app] in I5. rewrite <- I5.
      unfold none_required. apply forallb_forall. intros y Hy.
      destruct (cv_skip _ _ _ _ _ _ _ I4 y Hy) as [Hr|[Hff _]]; [rewrite Hr; reflexivity|].
      destruct (co_first k) eqn:Ef; [discriminate Hff|]. destruct (J4 eq_refl) as [X _]. congruence.
    + cbn [negb] in H. apply N.eqb_neq in E2.
      destruct (put (co_buf k) 0 [9; co_size k]) as [b1|] eqn:Ep; [|discriminate].
      apply AttSrvProofsC01.some_inj in H. apply AttSrvProofsC01.pair_inj in H. destruct H as [<- <-].
      cbn [fst snd]. pose proof (put_length _ _ _ _ Ep) as Lp.
      rewrite N.mod_small by lia. replace (2 + (co_cur k - 2)) with (co_cur k) by lia.
      right. exists E, (co_size k).
      assert (HE : E <> []) by (intros ->; cbn in Hcur; lia).
      set (hs := map fst E) in *. set (cnt := last hs 0) in *.
      assert (Hex : exact_ok (readable c) P1 hs = true) by apply (cv_exact _ _ _ _ _ _ _ I4).
      assert (HinM : forall y, In y (P1 ++ P2) -> In y (M lo)) by (intros y Hy; rewrite <- I5; exact Hy).
      assert (Hhs : forall h, In h hs -> exists y, In y P1 /\ fst y = h).
      { intros h Hh. pose proof (exact_ok_handles _ _ _ Hex h Hh) as X. apply in_map_iff in X. destruct X as [y [X1 X2]]. exists y. auto. }
      assert (HP2 : M (cnt + 1) = P2).
      { unfold M. rewrite (matching_narrow c (KType ty) lo hi (cnt + 1)).
        - fold (M lo). rewrite <- I5, filter_app.
          rewrite (filter_all_false _ P1), (filter_all_true _ P2); [reflexivity| |].
          + intros y Hy. pose proof (cv_high _ _ _ _ _ _ _ I4 y Hy). fold hs cnt in H. lia.
          + intros y Hy. pose proof (cv_low _ _ _ _ _ _ _ I4 y Hy). fold hs cnt in H. lia.
        - assert (In cnt hs) by (apply last_in; unfold hs; destruct E; [congruence|discriminate]).
          destruct (Hhs _ H) as [y [Y1 Y2]]. destruct (matching_sound _ _ _ _ _ (HinM y ltac:(apply in_or_app; left; exact Y1))) as (_ & T2 & _).
          unfold in_range in T2. lia. }
      split; [exact HE|]. split.
      { intros x Hx. split; [apply J5; exact Hx|].
        destruct (Hhs (fst x) ltac:(apply in_map; exact Hx)) as [y [Y1 Y2]]. rewrite <- Y2.
        destruct (cv_table _ _ _ _ _ _ _ I4 y ltac:(apply in_or_app; left; exact Y1)) as [T1 _].
        apply (assign_upper c _ Hw Hn). rewrite <- (table_handles c Hw Hn). apply in_map. exact T1. }
      split; [lia|]. split.
      { rewrite (seg_app 0 2) by lia. rewrite (seg_put_other _ _ _ _ 2 (co_cur k) Ep) by (unfold len; cbn; lia).
        rewrite J2. pose proof (seg_put_self _ _ _ _ Ep) as X. change (0 + len [9; co_size k]) with 2 in X. rewrite X. reflexivity. }
      split.
      { (* the judgement of the entries *)
        assert (Hmh : map entry_handle (map ehandle E) = hs) by (rewrite map_map; reflexivity).
        unfold judge_entries. cbv zeta. rewrite Hmh.
        assert (Hnemp : match map ehandle E with [] => true | _ :: _ => false end = false) by (destruct E; [congruence|reflexivity]).
        rewrite Hnemp.
        replace (forallb (in_range lo hi) hs) with true.
        2:{ symmetry. apply forallb_forall. intros h Hh. destruct (Hhs h Hh) as [y [Y1 <-]].
            destruct (matching_sound _ _ _ _ _ (HinM y ltac:(apply in_or_app; left; exact Y1))) as (_ & T2 & _). exact T2. }
        cbn [negb].
        replace (forallb (entry_matches c (KType ty)) (map ehandle E)) with true.
        2:{ symmetry. apply forallb_forall. intros en Hen. apply in_map_iff in Hen. destruct Hen as [x [<- Hx]].
            destruct (Hhs (fst x) ltac:(apply in_map; exact Hx)) as [y [Y1 Y2]].
            destruct (cv_table _ _ _ _ _ _ _ I4 y ltac:(apply in_or_app; left; exact Y1)) as [T1 T3].
            unfold entry_matches, ehandle. cbn [entry_handle]. apply existsb_exists. exists y. split; [exact T1|].
            rewrite Y2, N.eqb_refl, T3. reflexivity. }
        cbn [negb].
        assert (Hsorted : increasing_from 0 hs = true).
        { apply (subseq_increasing 0 _ (map fst P1)); [apply (exact_ok_subseq _ _ _ Hex)|].
          assert (X : increasing_from 0 (map fst (P1 ++ P2)) = true) by (rewrite I5; apply matching_sorted; auto).
          rewrite map_app in X. apply increasing_from_app in X. tauto. }
        rewrite (ascending_of_increasing 0) by exact Hsorted. cbn [negb].
        fold (M lo). rewrite <- I5. rewrite (run_ok_of_exact _ _ _ _ Hex). reflexivity. }
      split.
      { intros hs' X. rewrite HP2 in X. rewrite <- I5. rewrite exact_ok_app; [exact X|exact Hex|].
        intros y h Hy Hh. pose proof (exact_ok_handles _ _ _ X h Hh) as Z. apply in_map_iff in Z. destruct Z as [z [Z1 Z2]].
        pose proof (cv_low _ _ _ _ _ _ _ I4 y Hy). pose proof (cv_high _ _ _ _ _ _ _ I4 z Z2). fold hs cnt in H, H0. lia. }
      intros Ee. rewrite HP2. destruct P2 as [|z P2']; [reflexivity|exfalso].
      pose proof (cv_high _ _ _ _ _ _ _ I4 z ltac:(left; reflexivity)) as Z1. fold hs cnt in Z1.
      destruct (matching_sound _ _ _ _ _ (HinM z ltac:(apply in_or_app; right; left; reflexivity))) as (T1 & T2 & _).
      unfold in_range in T2.
      assert (fst z < 65536) by (apply (assign_upper c _ Hw Hn); rewrite <- (table_handles c Hw Hn); apply in_map; exact T1). lia.
Qed.

(* the configurations on which neither skip finding can occur, and the 8 bit size counter cannot cut a response *)
Definition c02_regular (c : cfg) : bool := all_16bit c && rbt_regular c && (max_mtu c <=? 257).

(* Read By Type for the internal marker 0x0001 is not covered *)
Definition no_marker_type (o : srv_op) : bool :=
  match o with
  | OpIn _ (8 :: _ :: _ :: _ :: _ :: t) _ =>
      match req_type t with Some u => negb (uuid_eqb u (U16 internal_128bit_uuid)) | None => true end
  | _ => true
  end.

Lemma c02_type_step c st m cid a b x y t u n st' resp :
  wf c -> no_includes c -> rbt_regular c = true -> max_mtu c <= 257 -> mon_inv c m ->
  a < 256 -> b < 256 -> x < 256 -> y < 256 ->
  req_type t = Some u -> u <> U16 internal_128bit_uuid ->
  att_input c st cid (8 :: a :: b :: x :: y :: t) n = Some (st', resp) ->
  exists m',
    (if (w16 a b =? 0) || (w16 x y <? w16 a b) then (judge_invalid_range (w16 a b) (parse_resp 8 resp), upd m cid None)
     else session_step m cid (KType u) (w16 a b) (w16 x y) (parse_resp 8 resp) (judge_entries c (KType u) (w16 a b) (w16 x y))
            (fun l => matching c (KType u) l (w16 x y)) (required c (KType u)) dt_not_found dt_enumerate) = (Ok, m')
    /\ mon_inv c m'.
Proof.
  intros Hw Hn Hreg Hmtu Hm Ha Hb Hx Hy Hty Hne Hin.
  apply att_input_8 in Hin. destruct Hin as (k & b' & nn & Hk & Hout & Hh & Hnn & ->).
  set (out_size := N.min n (negotiated_mtu c k)) in *.
  assert (Hlb : out_size <= len (repeat fill_byte (N.to_nat n))) by (rewrite len_repeat_N; unfold out_size; lia).
  assert (Ho2 : out_size <= 257) by (unfold out_size, negotiated_mtu; lia).
  rewrite takeN_seg by exact Hnn.
  destruct ((w16 a b =? 0) || (w16 x y <? w16 a b)) eqn:Er.
  - destruct (make_filter_spec a b x y t u Hty Hne) as (Hlen & _). cbv zeta in Hlen.
    destruct (rd_prefix5 8 a b x y t) as (R0 & R1 & R3). cbv zeta in R0, R1, R3. fold (w16 a b) in R1. fold (w16 x y) in R3.
    unfold handle_read_by_type in Hh.
    rewrite (check_range_invalid c _ _ out_size 7 21 8 (w16 a b) (w16 x y) R0 Hlen R1 R3 Er) in Hh.
    destruct (error_response 8 err_invalid_handle (w16 a b) _ out_size) as [r|] eqn:Ee; [|discriminate Hh].
    inversion Hh; subst r. apply error_response_bytes in Ee; auto; [|lia]. cbn [fst snd] in Ee. destruct Ee as (E1 & E2 & _).
    subst nn. rewrite E2, parse_error_response. cbn [judge_invalid_range]. rewrite N.eqb_refl. cbn.
    eexists. split; [reflexivity|]. apply mon_inv_upd_none; auto.
  - assert (Hlo : 1 <= w16 a b) by lia. assert (Hhi : w16 a b <= w16 x y) by lia.
    pose proof (rbt_answer c st cid k a b x y t u _ out_size st' (b', nn) Hw Hn Hreg Hk Ha Hb Hx Hy Hty Hne Hlo Hhi Hout Ho2 Hlb Hh) as Hans.
    cbv zeta in Hans. cbn [fst snd] in Hans.
    apply session_step_inv; auto.
    destruct Hans as [(E1 & E2 & E3)|(E & sz & A1 & A2 & A3 & A4 & A5 & A6 & A7)].
    + subst nn. rewrite E2, parse_error_response. split; [reflexivity|exact E3].
    + rewrite A4. rewrite (parse_rbt_response E sz A1 A2).
      assert (Hmh : map entry_handle (map ehandle E) = map fst E) by (rewrite map_map; reflexivity).
      assert (Hme : map entry_end (map ehandle E) = map fst E) by (rewrite map_map; reflexivity).
      rewrite Hmh, Hme. split; [exact A5|]. split; [exact A6|exact A7].
Qed.

Lemma c02_step_regular c st m o :
  wf c -> no_includes c -> c02_regular c = true -> mon_inv c m ->
  op_bytes o = true -> no_marker_type o = true -> snd (srv_step c st o) <> OFault ->
  exists m', c02_step c m o (snd (srv_step c st o)) = (Ok, m') /\ mon_inv c m'.
Proof.
  intros Hw Hn Hreg Hm Hb Hr Hf. unfold c02_regular in Hreg.
  apply andb_true_iff in Hreg. destruct Hreg as [Hreg Hmtu]. apply andb_true_iff in Hreg. destruct Hreg as [H16 Hrbt].
  destruct o as [cid pdu n| | |cid| | |]; cbn [c02_step]; try (eexists; split; [reflexivity|exact Hm]).
  - destruct (n <? default_att_mtu); [eexists; split; [reflexivity|exact Hm]|].
    destruct (parse_req pdu) as [[[[op k] lo] hi]|] eqn:Ep; [|eexists; split; [reflexivity|exact Hm]].
    cbn [srv_step] in *. destruct (att_input c st cid pdu n) as [[st' resp]|] eqn:Ein; [|exfalso; apply Hf; reflexivity].
    cbn [snd]. destruct (parse_req_inv pdu op k lo hi Ep) as (a & b & x & y & t & -> & -> & -> & Hcase).
    cbn [op_bytes forallb] in Hb. unfold byte_ok in Hb.
    destruct Hcase as [(-> & -> & ->)|[(-> & -> & ->)|(-> & u & -> & Hty)]].
    + apply (c02_info_step_inv c st m cid a b x y n st' resp); auto; lia.
    + apply (c02_group_step_inv c st m cid a b x y n st' resp); auto; lia.
    + cbn [no_marker_type] in Hr. rewrite Hty in Hr.
      assert (Hne : u <> U16 internal_128bit_uuid) by (intros ->; rewrite uuid_eqb_refl in Hr; discriminate Hr).
      repeat (apply andb_true_iff in Hb; destruct Hb as [? Hb]).
      apply (c02_type_step c st m cid a b x y t u n st' resp); auto; lia.
  - eexists. split; [reflexivity|]. apply mon_inv_upd_none; auto.
Qed.

Theorem c02_monitor_accepts_regular c : wf c -> no_includes c -> c02_regular c = true ->
  forall ops st m pos,
    mon_inv c m -> forallb op_bytes ops = true -> forallb no_marker_type ops = true ->
    Forall (fun p => snd p <> OFault) (srv_run c st ops) ->
    c02_monitor_from c m pos (srv_run c st ops) = None.
Proof.
  intros Hw Hn Hu. induction ops as [|o t IH]; intros st m pos Hm Hb Hr Hf; [reflexivity|].
  cbn [forallb] in Hb, Hr. apply andb_true_iff in Hb. destruct Hb as [Hb1 Hb2]. apply andb_true_iff in Hr. destruct Hr as [Hr1 Hr2].
  pose proof (c02_step_regular c st m o Hw Hn Hu Hm Hb1 Hr1) as Hstep.
  cbn [srv_run] in *. destruct (srv_step c st o) as [st' out] eqn:Es. cbn [snd] in Hstep.
  inversion Hf as [|? ? Hf1 Hf2]; subst. cbn [snd] in Hf1.
  destruct (Hstep Hf1) as (m' & E & Hm'). cbn [c02_monitor_from]. rewrite E. apply IH; auto.
Qed.
