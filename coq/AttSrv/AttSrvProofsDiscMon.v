(* The executable monitors of C03 (and C02) accept the traces of the model.
   Part M1  what one answer of a good responder says about the rest of the session
   Part M2  decoding the encodings of AttSrvProofsC02 / C03 (parse_resp after genc / genc4 / fenc)
   Part M3  the judgement of one response, the session step
   Part M4  C03: every fault free trace of the model is accepted *)
From Coq Require Import Lia ZifyBool.
From BT Require Import Base.ListX AttDb.AttDbModel AttDb.AttDbSpec AttDb.AttDbProofs NQueue.NQueueModel
  AttSrv.AttSrvModel AttSrv.AttSrvSpecC02 AttSrv.AttSrvSpecC03 AttSrv.AttSrvProofsC02 AttSrv.AttSrvProofsC03.
From BT Require AttSrv.AttSrvProofsC01.
Local Open Scope N_scope.

(* ================================================================== Part M1 *)
Lemma responder_next l hi r lo hs cnt :
  increasing_from 0 l = true -> good_responder l hi r -> 1 <= lo -> lo <= hi -> r lo hi = Some (hs, cnt) ->
  hs <> [] /\ last hs 0 <= cnt /\ lo <= last hs 0 /\ hrange l lo hi = hs ++ hrange l (cnt + 1) hi.
Proof.
  intros Hs Hr Hlo Hhi E. specialize (Hr lo Hlo Hhi). rewrite E in Hr.
  destruct Hr as (Hne & Hc1 & Hc2 & rest & Hrest).
  assert (Hsort : increasing_from 0 (hs ++ rest) = true) by (rewrite <- Hrest; apply increasing_from_filter; auto).
  assert (Hin : In (last hs 0) (hrange l lo hi)) by (rewrite Hrest; apply in_or_app; left; apply last_in; auto).
  apply filter_In in Hin. destruct Hin as [Hin1 Hin2]. unfold in_range in Hin2.
  pose proof (sorted_split _ _ _ Hsort Hne) as Hsp.
  repeat split; auto; [lia|]. rewrite Hrest. f_equal. symmetry.
  transitivity (hrange l (last hs 0 + 1) hi).
  - unfold hrange. apply filter_ext_in'. intros x Hx. unfold in_range.
    destruct (last hs 0 + 1 <=? x) eqn:E1; [specialize (Hc2 x Hx ltac:(lia)); lia|].
    replace (cnt + 1 <=? x) with false by lia. reflexivity.
  - rewrite (hrange_narrow l lo hi) by lia. rewrite Hrest. exact Hsp.
Qed.

Lemma hrange_beyond l hi cnt :
  (forall h, In h l -> h <= 65535) -> (hi <=? cnt) || (65535 <=? cnt) = true -> hrange l (cnt + 1) hi = [].
Proof.
  intros Hb H. apply filter_all_false. intros x Hx. specialize (Hb x Hx). unfold in_range. lia.
Qed.

(* the answers of a group discovery are those of a good responder *)
Lemma groups_good_responder c P walk hi :
  wf c -> no_includes c ->
  (forall lo, exists rest, filter (selected_range P lo hi) (groups c) = walk lo hi ++ rest
                           /\ (walk lo hi = [] -> filter (selected_range P lo hi) (groups c) = [])) ->
  good_responder (map gfirst (filter P (groups c))) hi (group_responder walk).
Proof.
  intros Hw Hn Hwalk. pose proof (groups_sorted c Hw Hn) as Hs.
  intros lo' Hlo1 Hlo2. unfold group_responder.
  destruct (Hwalk lo') as (rest & W1 & W2).
  rewrite selected_starts_range.
  destruct (walk lo' hi) as [|g W] eqn:Ew.
  - rewrite W2 by reflexivity. reflexivity.
  - assert (Hsf : blocks_sorted 0 ((g :: W) ++ rest) = true) by (rewrite <- W1; apply blocks_sorted_filter; exact Hs).
    assert (Hne : g :: W <> []) by discriminate.
    assert (Hlast_eq : last (map gfirst (g :: W)) 0 = gfirst (last (g :: W) g)).
    { rewrite (last_default (map gfirst (g :: W)) 0 (gfirst g)) by discriminate. apply map_last. discriminate. }
    rewrite Hlast_eq.
    repeat split.
    + discriminate.
    + apply (blocks_sorted_last_le 0 _ rest); auto.
    + intros h Hin Hlt.
      apply in_map_iff in Hin. destruct Hin as [g' [<- Hg']].
      assert (Hall : blocks_sorted 0 (filter P (groups c)) = true) by (apply blocks_sorted_filter; exact Hs).
      assert (Hlast : In (last (g :: W) g) (filter P (groups c))).
      { assert (X : In (last (g :: W) g) (filter (selected_range P lo' hi) (groups c))).
        { rewrite W1. apply in_or_app. left. apply last_in_list. discriminate. }
        apply filter_In in X. destruct X as [X1 X2]. apply filter_In. split; auto.
        unfold selected_range in X2. apply andb_true_iff in X2. tauto. }
      revert Hall Hg' Hlast Hlt. generalize (filter P (groups c)) (last (g :: W) g) 0.
      clear. intros L w p. revert p. induction L as [|x t IH]; intros p Hall Hin' Hlast Hlt; [destruct Hin'|].
      cbn [blocks_sorted] in Hall. apply andb_true_iff in Hall. destruct Hall as [Ha H3]. apply andb_true_iff in Ha. destruct Ha as [H1 H2].
      destruct Hlast as [->|Hlast].
      * destruct Hin' as [->|Hin']; [lia|].
        clear IH. revert H3 Hin'. generalize (glast w). induction t as [|y r IHr]; intros q H3 Hin'; [destruct Hin'|].
        cbn [blocks_sorted] in H3. apply andb_true_iff in H3. destruct H3 as [H3 H5]. apply andb_true_iff in H3. destruct H3 as [H3 H4].
        destruct Hin' as [->|Hin']; [lia|]. specialize (IHr _ H5 Hin'). lia.
      * destruct Hin' as [->|Hin']; [|apply (IH (glast x)); auto].
        exfalso. assert (glast g' < gfirst w); [|lia].
        clear IH Hlt. revert H3 Hlast. generalize (glast g'). induction t as [|y r IHr]; intros q H3 Hlast; [destruct Hlast|].
        cbn [blocks_sorted] in H3. apply andb_true_iff in H3. destruct H3 as [H3 H5]. apply andb_true_iff in H3. destruct H3 as [H3 H4].
        destruct Hlast as [->|Hlast]; [lia|]. specialize (IHr _ H5 Hlast). lia.
    + exists (map gfirst rest). rewrite W1, map_app. reflexivity.
Qed.

(* ================================================================== Part M2: decoding *)
Lemma w16_le16 x : x < 65536 -> w16 (x mod 256) ((x / 256) mod 256) = x.
Proof.
  intros H. unfold w16. assert (Hq : x / 256 < 256) by (apply N.div_lt_upper_bound; lia).
  rewrite (N.mod_small (x / 256)) by lia. pose proof (N.div_mod x 256 ltac:(lia)). lia.
Qed.

Lemma uuid_of_uuid_bytes u : uuid_ok u = true -> uuid_of_bytes (uuid_bytes u) = u.
Proof.
  destruct u as [v|b]; cbn [uuid_ok uuid_bytes uuid_of_bytes]; intros H.
  - f_equal. apply w16_le16. lia.
  - apply andb_true_iff in H. destruct H as [H _]. apply Nat.eqb_eq in H.
    do 3 (destruct b as [|? b]; [discriminate H|]). reflexivity.
Qed.

Lemma skipn_app_exact (A : Type) (l1 l2 : list A) n : length l1 = n -> skipn n (l1 ++ l2) = l2.
Proof. intros <-. rewrite skipn_app, skipn_all, Nat.sub_diag. reflexivity. Qed.
Lemma firstn_app_exact (A : Type) (l1 l2 : list A) n : length l1 = n -> firstn n (l1 ++ l2) = l1.
Proof. intros <-. rewrite firstn_app, firstn_all, Nat.sub_diag. cbn [firstn]. apply app_nil_r. Qed.

Lemma chunks_flat_map (A : Type) (enc : A -> list N) (n : nat) (W : list A) fuel :
  (0 < n)%nat -> (forall g, In g W -> length (enc g) = n) -> (length (flat_map enc W) <= fuel)%nat ->
  chunks fuel n (flat_map enc W) = Some (map enc W).
Proof.
  intros Hn. revert fuel; induction W as [|g t IH]; intros fuel Hl Hf; cbn [flat_map map]; [destruct fuel; reflexivity|].
  assert (Hg : length (enc g) = n) by (apply Hl; left; reflexivity).
  cbn [flat_map] in Hf. rewrite app_length in Hf.
  pose proof (skipn_app_exact _ (enc g) (flat_map enc t) n Hg) as Hsk.
  pose proof (firstn_app_exact _ (enc g) (flat_map enc t) n Hg) as Hfi.
  assert (Hlen : length (enc g ++ flat_map enc t) = (n + length (flat_map enc t))%nat) by (rewrite app_length; lia).
  destruct fuel as [|f]; [lia|].
  destruct (enc g ++ flat_map enc t) as [|x l] eqn:E; [cbn [length] in Hlen; lia|].
  cbn [chunks]. rewrite Hlen, Hsk, Hfi.
  replace ((n + length (flat_map enc t) <? n)%nat || (n =? 0)%nat) with false
    by (symmetry; apply orb_false_iff; split; [apply Nat.ltb_ge; lia|apply Nat.eqb_neq; lia]).
  rewrite IH by (try (intros; apply Hl; right; assumption); lia). reflexivity.
Qed.

(* ================================================================== Part M3: judging *)
Lemma ascending_from_increasing p l : ascending_from p l = increasing_from p l.
Proof. revert p; induction l as [|x t IH]; intros p; cbn [ascending_from increasing_from]; [reflexivity|]. rewrite IH. reflexivity. Qed.

Lemma ascending_of_increasing p l : increasing_from p l = true -> ascending l = true.
Proof.
  destruct l as [|x t]; [reflexivity|]. cbn [ascending increasing_from]. intros H. apply andb_true_iff in H.
  rewrite ascending_from_increasing. tauto.
Qed.

Lemma exact_ok_eq (M : list (N * attr)) acc : map fst M = acc -> exact_ok (fun _ => true) M acc = true.
Proof.
  revert acc; induction M as [|[x a] t IH]; intros acc H; cbn [map] in H; subst acc; cbn [exact_ok map fst]; [reflexivity|].
  rewrite N.eqb_refl. apply IH. reflexivity.
Qed.

Lemma run_ok_prefix (M : list (N * attr)) hs rest : map fst M = hs ++ rest -> run_ok (fun _ => true) M hs = true.
Proof.
  revert M; induction hs as [|h t IH]; intros M H; [destruct M as [|[? ?] ?]; reflexivity|].
  destruct M as [|[x a] M']; [discriminate H|]. cbn [map fst app] in H. inversion H; subst x.
  cbn [run_ok]. rewrite N.eqb_refl. apply IH. assumption.
Qed.

Lemma none_required_all (M : list (N * attr)) : none_required (fun _ => true) M = match M with [] => true | _ => false end.
Proof. destruct M; reflexivity. Qed.

(* ---- client sessions: what the monitor remembers is consistent with the handle list of the request kind *)
Definition sess_ok (L : dkind -> list N) (s : session) : Prop :=
  hrange (L (ss_kind s)) (ss_lo0 s) (ss_hi s) = ss_acc s ++ hrange (L (ss_kind s)) (ss_next s) (ss_hi s).
Definition mon_ok (L : dkind -> list N) (m : mon) : Prop :=
  forall cid s, nth cid m None = Some s -> sess_ok L s.

Lemma dkind_eqb_eq a b : dkind_eqb a b = true -> a = b.
Proof. destruct a, b; cbn [dkind_eqb]; intros H; try discriminate H; try reflexivity. apply uuid_eqb_eq in H. subst. reflexivity. Qed.

Lemma mon_ok_upd_none L m cid : mon_ok L m -> mon_ok L (upd m cid None).
Proof.
  intros H i s Hn. destruct (Nat.eq_dec cid i) as [->|Hne].
  - destruct (Nat.lt_ge_cases i (length m)); [rewrite nth_upd_eq in Hn by auto; discriminate Hn|rewrite upd_out in Hn by auto; eapply H; eauto].
  - rewrite nth_upd_neq in Hn by auto. eapply H; eauto.
Qed.

Lemma mon_ok_upd_some L m cid s : mon_ok L m -> sess_ok L s -> mon_ok L (upd m cid (Some s)).
Proof.
  intros H Hs i s' Hn. destruct (Nat.eq_dec cid i) as [->|Hne].
  - destruct (Nat.lt_ge_cases i (length m)); [rewrite nth_upd_eq in Hn by auto; inversion Hn; subst; auto|rewrite upd_out in Hn by auto; eapply H; eauto].
  - rewrite nth_upd_neq in Hn by auto. eapply H; eauto.
Qed.

Lemma mon_ok_init L : mon_ok L (repeat None n_conns).
Proof. intros i s H. cbn in H. destruct i as [|[|[|[|i]]]]; discriminate H. Qed.

(* what [continued] hands over is consistent *)
Lemma continued_ok L m cid k lo hi lo0 acc :
  mon_ok L m -> continued (nth cid m None) k lo hi = (lo0, acc) ->
  hrange (L k) lo0 hi = acc ++ hrange (L k) lo hi.
Proof.
  intros Hm H. unfold continued in H. destruct (nth cid m None) as [s|] eqn:En.
  - destruct (dkind_eqb (ss_kind s) k && (ss_hi s =? hi) && (ss_next s =? lo)) eqn:E.
    + apply andb_true_iff in E. destruct E as [E E3]. apply andb_true_iff in E. destruct E as [E1 E2].
      apply dkind_eqb_eq in E1. apply N.eqb_eq in E2, E3. inversion H; subst. apply (Hm _ _ En).
    + inversion H; subst. reflexivity.
  - inversion H; subst. reflexivity.
Qed.

(* the session step on an answer that is right for lo..hi *)
Lemma session_step_ok L m cid k lo hi p judge (expected : N -> list (N * attr)) tnf ten :
  mon_ok L m ->
  (forall l', map fst (expected l') = hrange (L k) l' hi) ->
  (forall h, In h (L k) -> h <= 65535) ->
  match p with
  | PError _ code => code = err_attribute_not_found /\ hrange (L k) lo hi = []
  | PEntries es => judge es = Ok /\ hrange (L k) lo hi = map entry_handle es ++ hrange (L k) (last (map entry_end es) 0 + 1) hi
  | PBroken => False
  end ->
  exists m', session_step m cid k lo hi p judge expected (fun _ => true) tnf ten = (Ok, m') /\ mon_ok L m'.
Proof.
  intros Hm Hexp Hb Hp. unfold session_step.
  destruct (continued (nth cid m None) k lo hi) as [lo0 acc] eqn:Ec.
  pose proof (continued_ok L m cid k lo hi lo0 acc Hm Ec) as Hc.
  destruct p as [h code|es|]; [| |destruct Hp].
  - destruct Hp as [-> Hp]. rewrite N.eqb_refl, none_required_all. cbn [andb].
    assert (He : expected lo = []) by (specialize (Hexp lo); rewrite Hp in Hexp; destruct (expected lo); [reflexivity|discriminate Hexp]).
    rewrite He. unfold finish. rewrite exact_ok_eq by (rewrite Hexp, Hc, Hp; apply app_nil_r).
    eexists. split; [reflexivity|]. apply mon_ok_upd_none; auto.
  - destruct Hp as [Hj Hp]. rewrite Hj. cbv zeta.
    destruct ((hi <=? last (map entry_end es) 0) || (65535 <=? last (map entry_end es) 0)) eqn:Ee.
    + unfold finish. rewrite exact_ok_eq.
      * eexists. split; [reflexivity|]. apply mon_ok_upd_none; auto.
      * rewrite Hexp, Hc, Hp. rewrite (hrange_beyond (L k) hi _ Hb Ee), app_nil_r. reflexivity.
    + eexists. split; [reflexivity|]. apply mon_ok_upd_some; auto.
      unfold sess_ok. cbn [ss_kind ss_lo0 ss_hi ss_next ss_acc]. rewrite Hc, Hp, app_assoc. reflexivity.
Qed.

(* ================================================================== Part M4: C03 *)
Definition kind_u (k : dkind) : option uuid := match k with KType u => Some u | _ => None end.
Definition svc_sel (u : option uuid) (g : N * N * service_decl) : bool := negb (s_secondary (snd g)) && uuid_wanted u (snd g).
Definition L03 (c : cfg) (k : dkind) : list N := map gfirst (filter (svc_sel (kind_u k)) (groups c)).

Lemma svc_matching_groups c u lo hi :
  wf c -> no_includes c ->
  svc_matching c u lo hi = map gentry (filter (selected_range (svc_sel u) lo hi) (groups c)).
Proof.
  intros Hw Hn. unfold svc_matching. rewrite matching_groups by auto.
  induction (groups c) as [|g t IH]; [reflexivity|]. cbn [filter].
  unfold selected_range at 1, svc_sel at 1, group_wanted at 1. fold (gfirst g).
  destruct (in_range lo hi (gfirst g)), (s_secondary (snd g)); cbn [negb andb map filter gentry snd]; try exact IH.
  destruct (uuid_wanted u (snd g)); cbn [map]; rewrite IH; reflexivity.
Qed.

Lemma svc_matching_handles c u lo hi :
  wf c -> no_includes c -> map fst (svc_matching c u lo hi) = hrange (map gfirst (filter (svc_sel u) (groups c))) lo hi.
Proof.
  intros Hw Hn. rewrite svc_matching_groups, selected_starts_range by auto. rewrite map_map. reflexivity.
Qed.

Lemma group_handles_bounded c (g : N * N * service_decl) :
  wf c -> no_includes c -> In g (groups c) -> gfirst g <= 65535 /\ glast g <= 65535 /\ gfirst g <= glast g.
Proof.
  intros Hw Hn Hg. unfold groups in Hg. pose proof (assign_length c Hw Hn) as Hl.
  assert (Hb : forall x, In x (assign c) -> x < 65536) by (intros; eapply assign_upper; eauto).
  pose proof (assign_increasing c) as Hs.
  unfold number_of_attributes in Hl. revert Hg Hl Hb Hs. generalize (assign c) 0. induction (services c) as [|s t IH]; intros hs p Hg Hl Hb Hs; [destruct Hg|].
  cbn [svc_groups sumN] in *. pose proof (svc_nattrs_pos s) as Hp. set (n := N.to_nat (svc_nattrs s)) in *.
  destruct Hg as [<-|Hg].
  - unfold gfirst, glast. cbn [fst snd].
    assert (In (nth 0 hs 0) hs) by (apply nth_In; lia). assert (In (nth (n - 1) hs 0) hs) by (apply nth_In; lia).
    pose proof (Hb _ H). pose proof (Hb _ H0). pose proof (increasing_nth_le p hs 0 (n - 1) Hs ltac:(lia) ltac:(lia)). lia.
  - apply (IH (skipn n hs) (nth (n - 1) hs 0)); auto.
    + rewrite skipn_length. lia.
    + intros x Hx. apply Hb. rewrite <- (firstn_skipn n hs). apply in_or_app. right. exact Hx.
    + apply (increasing_skipn p); auto; lia.
Qed.

Lemma L03_bounded c k h : wf c -> no_includes c -> In h (L03 c k) -> h <= 65535.
Proof.
  intros Hw Hn Hh. unfold L03 in Hh. apply in_map_iff in Hh. destruct Hh as [g [<- Hg]]. apply filter_In in Hg.
  apply (group_handles_bounded c g Hw Hn). tauto.
Qed.

Lemma find_group_in p G g :
  blocks_sorted p G = true -> In g G -> find (fun x => fst (fst x) =? gfirst g) G = Some g.
Proof.
  revert p; induction G as [|x t IH]; intros p Hs Hin; [destruct Hin|].
  cbn [blocks_sorted] in Hs. apply andb_true_iff in Hs. destruct Hs as [Hs H3]. apply andb_true_iff in Hs. destruct Hs as [H1 H2].
  cbn [find]. fold (gfirst x). destruct (gfirst x =? gfirst g) eqn:E.
  - destruct Hin as [->|Hin]; [reflexivity|]. exfalso. apply N.eqb_eq in E.
    assert (glast x < gfirst g); [|lia].
    clear IH E. revert H3 Hin. generalize (glast x). induction t as [|y r IHr]; intros q H3 Hin; [destruct Hin|].
    cbn [blocks_sorted] in H3. apply andb_true_iff in H3. destruct H3 as [H3 H5]. apply andb_true_iff in H3. destruct H3 as [H3 H4].
    destruct Hin as [->|Hin]; [lia|]. specialize (IHr _ H5 Hin). lia.
  - destruct Hin as [->|Hin]; [rewrite N.eqb_refl in E; discriminate E|]. apply (IH (glast x)); auto.
Qed.

Definition gentry3 (u : option uuid) (g : N * N * service_decl) : entry :=
  EGroup (gfirst g) (glast g) (match u with Some x => x | None => s_uuid (snd g) end).

(* the judgement of the groups W reported for lo..hi *)
Lemma judge_groups_ok c u lo hi W rest :
  wf c -> no_includes c -> W <> [] ->
  filter (selected_range (svc_sel u) lo hi) (groups c) = W ++ rest ->
  judge_groups c u lo hi (map (gentry3 u) W) = Ok.
Proof.
  intros Hw Hn Hne HW. pose proof (groups_sorted c Hw Hn) as Hs.
  assert (Hin : forall g, In g W -> In g (groups c) /\ selected_range (svc_sel u) lo hi g = true).
  { intros g Hg. assert (X : In g (filter (selected_range (svc_sel u) lo hi) (groups c))) by (rewrite HW; apply in_or_app; left; auto).
    apply filter_In in X. exact X. }
  unfold judge_groups. cbv zeta.
  assert (Hfb : first_bad (map (judge_group c) (map (gentry3 u) W)) = Ok).
  { clear HW Hne. induction W as [|g t IH]; [reflexivity|]. cbn [map first_bad].
    destruct (Hin g ltac:(left; reflexivity)) as [Hg1 Hg2].
    unfold judge_group at 1, gentry3 at 1, find_group. rewrite (find_group_in 0 (groups c) g Hs Hg1).
    destruct g as [[f l] s]. unfold selected_range, svc_sel, gfirst, glast in *. cbn [fst snd] in *.
    apply andb_true_iff in Hg2. destruct Hg2 as [_ Hg2]. apply andb_true_iff in Hg2. destruct Hg2 as [Hg2 Hg3].
    apply negb_true_iff in Hg2. rewrite Hg2, N.eqb_refl. cbn [negb].
    replace (uuid_eqb (s_uuid s) match u with Some x => x | None => s_uuid s end) with true
      by (destruct u; [symmetry; exact Hg3|symmetry; apply uuid_eqb_refl]).
    cbn [negb]. apply IH. intros g' Hg'. apply Hin. right. exact Hg'. }
  rewrite Hfb.
  assert (Hhs : map entry_handle (map (gentry3 u) W) = map gfirst W) by (rewrite map_map; reflexivity).
  rewrite Hhs. destruct W as [|g0 W0]; [congruence|]. cbn [map]. cbv iota.
  replace (forallb (in_range lo hi) (gfirst g0 :: map gfirst W0)) with true.
  2:{ symmetry. change (gfirst g0 :: map gfirst W0) with (map gfirst (g0 :: W0)). apply forallb_forall. intros h Hh. apply in_map_iff in Hh. destruct Hh as [g [<- Hg]].
      destruct (Hin g Hg) as [_ X]. unfold selected_range in X. apply andb_true_iff in X. tauto. }
  cbn [negb].
  assert (Hsorted : increasing_from 0 (map gfirst ((g0 :: W0) ++ rest)) = true).
  { rewrite <- HW. apply blocks_sorted_firsts. apply blocks_sorted_filter. exact Hs. }
  rewrite map_app in Hsorted. apply increasing_from_app in Hsorted. destruct Hsorted as [Hsorted _].
  change (gfirst g0 :: map gfirst W0) with (map gfirst (g0 :: W0)).
  rewrite (ascending_of_increasing 0) by exact Hsorted. cbn [negb].
  rewrite (run_ok_prefix _ _ (map gfirst rest)); [reflexivity|].
  rewrite svc_matching_handles, selected_starts_range, HW, map_app by auto. reflexivity.
Qed.

(* ---- the requests *)
Lemma c03_parse_inv pdu r :
  c03_parse pdu = Some r ->
  exists a b x y v,
    (r = RGroup (w16 a b) (w16 x y) /\ pdu = [16; a; b; x; y; 0; 40] /\ v = [])
    \/ (r = RValue (uuid_of_bytes v) (w16 a b) (w16 x y) /\ pdu = 6 :: a :: b :: x :: y :: 0 :: 40 :: v
        /\ (length v = 2 \/ length v = 16)%nat).
Proof.
  unfold c03_parse. do 7 (destruct pdu as [|? pdu]; [discriminate|]).
  destruct ((n4 =? 0) && (n5 =? 40)) eqn:E; [|discriminate]. apply andb_true_iff in E. destruct E as [E0 E1].
  apply N.eqb_eq in E0, E1. subst n4 n5.
  destruct ((n =? 16) && match pdu with [] => true | _ => false end) eqn:Eg.
  - apply andb_true_iff in Eg. destruct Eg as [Eg1 Eg2]. apply N.eqb_eq in Eg1. subst n. destruct pdu; [|discriminate Eg2].
    intros H. inversion H. exists n0, n1, n2, n3, []. left. repeat split.
  - destruct ((n =? 6) && ((length pdu =? 2)%nat || (length pdu =? 16)%nat)) eqn:Ev; [|discriminate].
    apply andb_true_iff in Ev. destruct Ev as [Ev1 Ev2]. apply N.eqb_eq in Ev1. subst n.
    intros H. inversion H. exists n0, n1, n2, n3, pdu. right. repeat split.
    apply orb_true_iff in Ev2. destruct Ev2 as [X|X]; apply Nat.eqb_eq in X; auto.
Qed.

(* ---- decoding the responses *)
Lemma genc_length g : uuid_ok (s_uuid (snd g)) = true -> length (genc g) = N.to_nat (gsize (is_128bit (s_uuid (snd g)))).
Proof.
  intros H. pose proof (uuid_bytes_len _ H) as X. unfold genc, len in *. rewrite !app_length. cbn [le16 length].
  unfold gsize. destruct (is_128bit (s_uuid (snd g))); lia.
Qed.

Lemma decode_group g :
  uuid_ok (s_uuid (snd g)) = true -> gfirst g < 65536 -> glast g < 65536 ->
  EGroup (w16 (nth 0 (genc g) 0) (nth 1 (genc g) 0)) (w16 (nth 2 (genc g) 0) (nth 3 (genc g) 0)) (uuid_of_bytes (skipn 4 (genc g)))
  = gentry3 None g.
Proof.
  intros Hu Hf Hl. unfold genc, gentry3, le16. cbn [app nth skipn]. fold (gfirst g) (glast g).
  rewrite !w16_le16 by auto. rewrite uuid_of_uuid_bytes by auto. reflexivity.
Qed.

Lemma parse_rbg_response c W is128 :
  wf c -> no_includes c -> W <> [] -> (forall g, In g W -> In g (groups c) /\ is_128bit (s_uuid (snd g)) = is128) ->
  parse_resp 16 (17 :: gsize is128 :: flat_map genc W) = PEntries (map (gentry3 None) W).
Proof.
  intros Hw Hn Hne HW.
  assert (Hlen : forall g, In g W -> length (genc g) = N.to_nat (gsize is128)).
  { intros g Hg. destruct (HW g Hg) as [H1 H2]. rewrite genc_length by (eapply services_uuid_ok; eauto). rewrite H2. reflexivity. }
  assert (Hmap : map (fun ch => EGroup (w16 (nth 0 ch 0) (nth 1 ch 0)) (w16 (nth 2 ch 0) (nth 3 ch 0)) (uuid_of_bytes (skipn 4 ch))) (map genc W)
                 = map (gentry3 None) W).
  { rewrite map_map. apply map_ext_in. intros g Hg. destruct (HW g Hg) as [H1 _].
    destruct (group_handles_bounded c g Hw Hn H1) as (B1 & B2 & _).
    apply decode_group; [eapply services_uuid_ok; eauto|lia|lia]. }
  destruct is128; cbn [gsize] in *.
  - unfold parse_resp. lazy beta iota delta [N.eqb N.add Pos.eqb Pos.add Pos.succ negb orb N.ltb N.compare Pos.compare Pos.compare_cont]. unfold parse_entries.
    rewrite (chunks_flat_map _ genc (N.to_nat 20) W) by (auto; lia). rewrite Hmap. reflexivity.
  - unfold parse_resp. lazy beta iota delta [N.eqb N.add Pos.eqb Pos.add Pos.succ negb orb N.ltb N.compare Pos.compare Pos.compare_cont]. unfold parse_entries.
    rewrite (chunks_flat_map _ genc (N.to_nat 6) W) by (auto; lia). rewrite Hmap. reflexivity.
Qed.

Lemma parse_error_response op a b code : parse_resp op [1; op; a; b; code] = PError (w16 a b) code.
Proof. unfold parse_resp. rewrite N.eqb_refl. reflexivity. Qed.

Lemma parse_fbtv_error u a b code : parse_fbtv_resp u [1; 6; a; b; code] = PError (w16 a b) code.
Proof. reflexivity. Qed.

Lemma parse_fbtv_one c u g :
  wf c -> no_includes c -> In g (groups c) ->
  parse_fbtv_resp u (7 :: genc4 g) = PEntries [gentry3 (Some u) g].
Proof.
  intros Hw Hn Hg. destruct (group_handles_bounded c g Hw Hn Hg) as (B1 & B2 & _).
  unfold parse_fbtv_resp, genc4, le16. cbn [app].
  cbv beta iota delta [parse_entries chunks length N.to_nat Pos.to_nat Pos.iter_op Init.Nat.add Nat.ltb Nat.leb Nat.eqb orb skipn firstn map nth].
  unfold gentry3. rewrite !w16_le16 by lia. reflexivity.
Qed.

(* ---- l2cap_input for the two requests *)
Lemma att_input_16 c st cid t n st' resp :
  att_input c st cid (16 :: t) n = Some (st', resp) ->
  exists k b' nn, get_conn st cid = Some k /\ 23 <= N.min n (negotiated_mtu c k)
    /\ handle_read_by_group_type c (16 :: t) (repeat fill_byte (N.to_nat n)) (N.min n (negotiated_mtu c k)) = Some (b', nn)
    /\ nn <= len b' /\ resp = takeN nn b'.
Proof.
  unfold att_input. destruct (get_conn st cid) as [k|]; [|discriminate]. cbv zeta.
  destruct (len (16 :: t) =? 0); [discriminate|].
  destruct (N.min n (negotiated_mtu c k) <? default_att_mtu) eqn:E; [discriminate|].
  change (rd (16 :: t) 0) with (Some 16). cbn [N.eqb Pos.eqb].
  destruct (handle_read_by_group_type c (16 :: t) _ _) as [[b' nn]|] eqn:Eh; [|discriminate].
  destruct (nn <=? len b') eqn:En; [|discriminate]. intros H. inversion H; subst.
  exists k, b', nn. unfold default_att_mtu in E. repeat split; auto; lia.
Qed.

Lemma att_input_6 c st cid t n st' resp :
  att_input c st cid (6 :: t) n = Some (st', resp) ->
  exists k b' nn, get_conn st cid = Some k /\ 23 <= N.min n (negotiated_mtu c k)
    /\ handle_find_by_type_value c st cid (6 :: t) (repeat fill_byte (N.to_nat n)) (N.min n (negotiated_mtu c k)) = Some (b', nn)
    /\ nn <= len b' /\ resp = takeN nn b'.
Proof.
  unfold att_input. destruct (get_conn st cid) as [k|]; [|discriminate]. cbv zeta.
  destruct (len (6 :: t) =? 0); [discriminate|].
  destruct (N.min n (negotiated_mtu c k) <? default_att_mtu) eqn:E; [discriminate|].
  change (rd (6 :: t) 0) with (Some 6). cbn [N.eqb Pos.eqb].
  destruct (handle_find_by_type_value c st cid (6 :: t) _ _) as [[b' nn]|] eqn:Eh; [|discriminate].
  destruct (nn <=? len b') eqn:En; [|discriminate]. intros H. inversion H; subst.
  exists k, b', nn. unfold default_att_mtu in E. repeat split; auto; lia.
Qed.

(* ---- one answer of a group discovery, as the monitor needs it *)
Lemma group_answer c u walk lo hi :
  wf c -> no_includes c ->
  (forall lo', exists rest, filter (selected_range (svc_sel u) lo' hi) (groups c) = walk lo' hi ++ rest
                            /\ (walk lo' hi = [] -> filter (selected_range (svc_sel u) lo' hi) (groups c) = [])) ->
  1 <= lo -> lo <= hi ->
  let L := map gfirst (filter (svc_sel u) (groups c)) in
  match walk lo hi with
  | [] => hrange L lo hi = []
  | g :: W' =>
      let es := map (gentry3 u) (g :: W') in
      judge_groups c u lo hi es = Ok
      /\ hrange L lo hi = map entry_handle es ++ hrange L (last (map entry_end es) 0 + 1) hi
  end.
Proof.
  intros Hw Hn Hwalk Hlo Hhi L. destruct (Hwalk lo) as (rest & W1 & W2).
  destruct (walk lo hi) as [|g W'] eqn:Ew.
  - unfold L. rewrite selected_starts_range, W2 by reflexivity. reflexivity.
  - cbv zeta. split; [apply (judge_groups_ok c u lo hi (g :: W') rest); auto; discriminate|].
    pose proof (groups_good_responder c (svc_sel u) walk hi Hw Hn Hwalk) as Hg.
    assert (Hs : increasing_from 0 L = true).
    { unfold L. apply blocks_sorted_firsts. apply blocks_sorted_filter. apply groups_sorted; auto. }
    assert (Er : group_responder walk lo hi = Some (map gfirst (g :: W'), glast (last (g :: W') g))) by (unfold group_responder; rewrite Ew; reflexivity).
    destruct (responder_next L hi _ lo _ _ Hs Hg Hlo Hhi Er) as (_ & _ & _ & X).
    rewrite X. f_equal; [rewrite map_map; reflexivity|]. f_equal. f_equal.
    rewrite map_map. change (fun x => entry_end (gentry3 u x)) with glast.
    rewrite (last_default (map glast (g :: W')) 0 (glast g)) by discriminate. rewrite map_last by discriminate. reflexivity.
Qed.

Lemma svc_sel_none_wanted lo hi G : filter (selected_range (svc_sel None) lo hi) G = filter (group_wanted lo hi) G.
Proof. apply filter_ext_in'. intros g _. unfold selected_range, svc_sel, group_wanted, gfirst. cbn [uuid_wanted]. rewrite andb_true_r. reflexivity. Qed.

Lemma svc_sel_value_wanted c value lo hi :
  wf c -> forallb byte_ok value = true ->
  filter (selected_range (svc_sel (Some (uuid_of_bytes value))) lo hi) (groups c) = filter (fbtv_wanted lo hi value) (groups c).
Proof.
  intros Hw Hv. apply filter_ext_in'. intros g Hg. unfold selected_range, svc_sel, fbtv_wanted, group_wanted, gfirst. cbn [uuid_wanted].
  rewrite value_is_uuid by (auto; eapply services_uuid_ok; eauto). apply andb_assoc.
Qed.

(* ---- requests with lo = 0 or lo > hi *)
Lemma check_range_invalid c pdu b out_size sa sb op lo hi :
  rd pdu 0 = Some op -> (len pdu = sa \/ len pdu = sb) -> rd16 pdu 1 = Some lo -> rd16 pdu 3 = Some hi ->
  (lo =? 0) || (hi <? lo) = true ->
  check_size_and_handle_range c pdu b out_size sa sb
  = match error_response op err_invalid_handle lo b out_size with Some r => Some (Failed r) | None => None end.
Proof.
  intros H0 Hl H1 H3 Hi. unfold check_size_and_handle_range. rewrite H0.
  replace (negb (len pdu =? sa) && negb (len pdu =? sb)) with false by (destruct Hl as [-> | ->]; rewrite N.eqb_refl; cbn; rewrite ?andb_false_r; reflexivity).
  rewrite H1, H3, Hi. reflexivity.
Qed.

Lemma rd_prefix7 a0 a1 a2 a3 a4 a5 a6 (v : list N) :
  let pdu := a0 :: a1 :: a2 :: a3 :: a4 :: a5 :: a6 :: v in
  rd16 pdu 5 = Some (a5 + 256 * a6) /\ slice pdu 7 (len pdu) = Some v /\ len pdu = 7 + len v.
Proof.
  cbv zeta. unfold rd16, rd, slice.
  assert (H : len (a0 :: a1 :: a2 :: a3 :: a4 :: a5 :: a6 :: v) = 7 + len v) by (unfold len; cbn [length]; lia).
  replace (5 <? len (a0 :: a1 :: a2 :: a3 :: a4 :: a5 :: a6 :: v)) with true by lia.
  replace (5 + 1 <? len (a0 :: a1 :: a2 :: a3 :: a4 :: a5 :: a6 :: v)) with true by lia.
  replace ((7 <=? len (a0 :: a1 :: a2 :: a3 :: a4 :: a5 :: a6 :: v)) && (len (a0 :: a1 :: a2 :: a3 :: a4 :: a5 :: a6 :: v) <=? len (a0 :: a1 :: a2 :: a3 :: a4 :: a5 :: a6 :: v))) with true by lia.
  repeat split; auto. f_equal. rewrite H. replace (7 + len v - 7) with (len v) by lia.
  unfold takeN, dropN, len. cbn [N.to_nat Pos.to_nat Pos.iter_op plus skipn]. rewrite Nat2N.id. apply firstn_all.
Qed.

(* ---- one step of the C03 monitor on the model *)
Definition op_bytes (o : srv_op) : bool :=
  match o with OpIn _ pdu _ => forallb byte_ok pdu | _ => true end.

Lemma len_repeat_N (x : N) n : len (repeat x (N.to_nat n)) = n.
Proof. unfold len. rewrite repeat_length. lia. Qed.

Lemma c03_group_step c st m cid a b x y n st' resp :
  wf c -> no_includes c -> mon_ok (L03 c) m ->
  a < 256 -> b < 256 -> x < 256 -> y < 256 ->
  att_input c st cid [16; a; b; x; y; 0; 40] n = Some (st', resp) ->
  exists m', c03_judge c m cid KGroup None (w16 a b) (w16 x y) (parse_resp 16 resp) = (Ok, m') /\ mon_ok (L03 c) m'.
Proof.
  intros Hw Hn Hm Ha Hb Hx Hy Hin.
  apply att_input_16 in Hin. destruct Hin as (k & b' & nn & Hk & Hout & Hh & Hnn & ->).
  set (out_size := N.min n (negotiated_mtu c k)) in *.
  assert (Hlb : out_size <= len (repeat fill_byte (N.to_nat n))) by (rewrite len_repeat_N; unfold out_size; lia).
  rewrite takeN_seg by exact Hnn.
  unfold c03_judge. destruct ((w16 a b =? 0) || (w16 x y <? w16 a b)) eqn:Er.
  - (* Invalid Handle *)
    unfold handle_read_by_group_type in Hh.
    rewrite (check_range_invalid c _ _ out_size 7 21 16 (w16 a b) (w16 x y)) in Hh; try reflexivity; [|left; reflexivity|exact Er].
    destruct (error_response 16 err_invalid_handle (w16 a b) _ out_size) as [r|] eqn:Ee; [|discriminate Hh].
    inversion Hh; subst r. apply error_response_bytes in Ee; auto; [|lia]. cbn [fst snd] in Ee. destruct Ee as (E1 & E2 & _).
    subst nn. rewrite E2, parse_error_response. cbn [judge_invalid_range]. rewrite N.eqb_refl. cbn.
    eexists. split; [reflexivity|]. apply mon_ok_upd_none; auto.
  - assert (Hlo : 1 <= w16 a b) by lia. assert (Hhi : w16 a b <= w16 x y) by lia.
    pose proof (read_by_group_type_spec c a b x y _ out_size (b', nn) Hw Hn Ha Hb Hx Hy Hlo Hhi Hout Hlb Hh) as Hsp.
    set (walk := fun lo hi => walk_first (groups c) lo hi (out_size - 2)).
    assert (Hwalk : forall lo', exists rest, filter (selected_range (svc_sel None) lo' (w16 x y)) (groups c) = walk lo' (w16 x y) ++ rest
                                  /\ (walk lo' (w16 x y) = [] -> filter (selected_range (svc_sel None) lo' (w16 x y)) (groups c) = [])).
    { intros lo'. destruct (walk_first_spec (groups c) lo' (w16 x y) (out_size - 2) ltac:(lia)) as (rest & W1 & W2 & _).
      exists rest. rewrite svc_sel_none_wanted. split; auto. }
    pose proof (group_answer c None walk (w16 a b) (w16 x y) Hw Hn Hwalk Hlo Hhi) as Hans. cbv zeta in Hans.
    destruct (walk_first_spec (groups c) (w16 a b) (w16 x y) (out_size - 2) ltac:(lia)) as (rest & W1 & W2 & W3).
    unfold walk in Hans. unfold rbg_response in Hsp. cbn [fst snd] in Hsp.
    apply (session_step_ok (L03 c) m cid KGroup); auto.
    + intros l'. apply svc_matching_handles; auto.
    + intros h Hh'. eapply L03_bounded; eauto.
    + destruct (walk_first (groups c) (w16 a b) (w16 x y) (out_size - 2)) as [|g W'] eqn:Ew.
      * destruct Hsp as [E1 E2]. subst nn. rewrite E2, parse_error_response. split; [reflexivity|exact Hans].
      * destruct Hsp as (_ & _ & E3). rewrite E3.
        rewrite (parse_rbg_response c (g :: W') (is_128bit (s_uuid (snd g)))); auto; [discriminate|].
        intros g' Hg'. split; [|apply W3; exact Hg'].
        assert (X : In g' (filter (group_wanted (w16 a b) (w16 x y)) (groups c))) by (rewrite W1; apply in_or_app; left; exact Hg').
        apply filter_In in X. tauto.
Qed.

Lemma c03_value_step c st m cid a b x y v n st' resp :
  wf c -> no_includes c -> mon_ok (L03 c) m ->
  a < 256 -> b < 256 -> forallb byte_ok v = true -> (length v = 2 \/ length v = 16)%nat ->
  att_input c st cid (6 :: a :: b :: x :: y :: 0 :: 40 :: v) n = Some (st', resp) ->
  exists m', c03_judge c m cid (KType (uuid_of_bytes v)) (Some (uuid_of_bytes v)) (w16 a b) (w16 x y) (parse_fbtv_resp (uuid_of_bytes v) resp) = (Ok, m')
             /\ mon_ok (L03 c) m'.
Proof.
  intros Hw Hn Hm Ha Hb Hv Hlv Hin.
  apply att_input_6 in Hin. destruct Hin as (k & b' & nn & Hk & Hout & Hh & Hnn & ->).
  set (out_size := N.min n (negotiated_mtu c k)) in *.
  assert (Hlb : out_size <= len (repeat fill_byte (N.to_nat n))) by (rewrite len_repeat_N; unfold out_size; lia).
  rewrite takeN_seg by exact Hnn.
  destruct (rd_prefix5 6 a b x y (0 :: 40 :: v)) as (R0 & R1 & R3). destruct (rd_prefix7 6 a b x y 0 40 v) as (R5 & Rs & Rl).
  cbv zeta in R0, R1, R3, R5, Rs, Rl. fold (w16 a b) in R1. fold (w16 x y) in R3.
  set (pdu := 6 :: a :: b :: x :: y :: 0 :: 40 :: v) in *.
  assert (Hlen : len pdu = 9 \/ len pdu = 23) by (rewrite Rl; unfold len; destruct Hlv as [-> | ->]; [left|right]; reflexivity).
  unfold c03_judge. destruct ((w16 a b =? 0) || (w16 x y <? w16 a b)) eqn:Er.
  - unfold handle_find_by_type_value in Hh.
    rewrite (check_range_invalid c pdu _ out_size 9 23 6 (w16 a b) (w16 x y) R0 Hlen R1 R3 Er) in Hh.
    destruct (error_response 6 err_invalid_handle (w16 a b) _ out_size) as [r|] eqn:Ee; [|discriminate Hh].
    inversion Hh; subst r. apply error_response_bytes in Ee; auto; [|lia]. cbn [fst snd] in Ee. destruct Ee as (E1 & E2 & _).
    subst nn. rewrite E2, parse_fbtv_error. cbn [judge_invalid_range]. rewrite N.eqb_refl. cbn.
    eexists. split; [reflexivity|]. apply mon_ok_upd_none; auto.
  - assert (Hlo : 1 <= w16 a b) by lia. assert (Hhi : w16 a b <= w16 x y) by lia.
    pose proof (find_by_type_value_spec' c st cid pdu (w16 a b) (w16 x y) v _ out_size (b', nn) Hw Hn Hv R0 Hlen R1 R3 R5 Rs Hlo Hhi Hout Hlb Hh) as Hsp.
    set (walk := fun lo hi => fbtv_walk (groups c) lo hi v (out_size - 1)).
    assert (Hwalk : forall lo', exists rest, filter (selected_range (svc_sel (Some (uuid_of_bytes v))) lo' (w16 x y)) (groups c) = walk lo' (w16 x y) ++ rest
                                  /\ (walk lo' (w16 x y) = [] -> filter (selected_range (svc_sel (Some (uuid_of_bytes v))) lo' (w16 x y)) (groups c) = [])).
    { intros lo'. destruct (fbtv_walk_prefix (groups c) lo' (w16 x y) v (out_size - 1)) as (rest & W1 & W2).
      exists rest. rewrite svc_sel_value_wanted by auto. split; [exact W1|apply W2; lia]. }
    pose proof (group_answer c (Some (uuid_of_bytes v)) walk (w16 a b) (w16 x y) Hw Hn Hwalk Hlo Hhi) as Hans. cbv zeta in Hans.
    destruct (fbtv_walk_prefix (groups c) (w16 a b) (w16 x y) v (out_size - 1)) as (rest & W1 & _).
    unfold walk in Hans. cbn [fst snd] in Hsp.
    apply (session_step_ok (L03 c) m cid (KType (uuid_of_bytes v))); auto.
    + intros l'. apply svc_matching_handles; auto.
    + intros h Hh'. eapply L03_bounded; eauto.
    + destruct (fbtv_walk (groups c) (w16 a b) (w16 x y) v (out_size - 1)) as [|g W'] eqn:Ew.
      * destruct Hsp as [E1 E2]. subst nn. rewrite E2, le16_w16 by auto. cbn [app]. rewrite parse_fbtv_error. split; [reflexivity|exact Hans].
      * destruct Hsp as (-> & E1 & _ & E3). subst nn. rewrite E3.
        rewrite (parse_fbtv_one c); auto.
        assert (X : In g (filter (fbtv_wanted (w16 a b) (w16 x y) v) (groups c))) by (rewrite W1; left; reflexivity).
        apply filter_In in X. tauto.
Qed.

Lemma c03_step_ok c st m o :
  wf c -> no_includes c -> mon_ok (L03 c) m -> op_bytes o = true -> snd (srv_step c st o) <> OFault ->
  exists m', c03_step c m o (snd (srv_step c st o)) = (Ok, m') /\ mon_ok (L03 c) m'.
Proof.
  intros Hw Hn Hm Hb Hf. destruct o as [cid pdu n| | |cid| | |]; cbn [c03_step]; try (eexists; split; [reflexivity|exact Hm]).
  - destruct (n <? default_att_mtu); [eexists; split; [reflexivity|exact Hm]|].
    destruct (c03_parse pdu) as [r|] eqn:Ep; [|eexists; split; [reflexivity|exact Hm]].
    cbn [srv_step] in *. destruct (att_input c st cid pdu n) as [[st' resp]|] eqn:Ein; [|exfalso; apply Hf; reflexivity].
    cbn [snd]. destruct (c03_parse_inv pdu r Ep) as (a & b & x & y & v & [(-> & -> & ->)|(-> & -> & Hlv)]).
    + cbn [op_bytes forallb] in Hb. unfold byte_ok in Hb. apply (c03_group_step c st m cid a b x y n st' resp); auto; lia.
    + cbn [op_bytes forallb] in Hb. unfold byte_ok in Hb.
      repeat (apply andb_true_iff in Hb; destruct Hb as [? Hb]).
      apply (c03_value_step c st m cid a b x y v n st' resp); auto; lia.
  - eexists. split; [reflexivity|]. apply mon_ok_upd_none; auto.
Qed.

(* C03: the monitor accepts every fault free trace of the model, of any length, from every state *)
Theorem c03_monitor_accepts c : wf c -> no_includes c ->
  forall ops st m pos,
    mon_ok (L03 c) m -> forallb op_bytes ops = true ->
    Forall (fun p => snd p <> OFault) (srv_run c st ops) ->
    c03_monitor_from c m pos (srv_run c st ops) = None.
Proof.
  intros Hw Hn. induction ops as [|o t IH]; intros st m pos Hm Hb Hf; [reflexivity|].
  cbn [forallb] in Hb. apply andb_true_iff in Hb. destruct Hb as [Hb1 Hb2].
  pose proof (c03_step_ok c st m o Hw Hn Hm Hb1) as Hstep.
  cbn [srv_run] in *. destruct (srv_step c st o) as [st' out] eqn:Es. cbn [snd] in Hstep.
  inversion Hf as [|? ? Hf1 Hf2]; subst. cbn [snd] in Hf1.
  destruct (Hstep Hf1) as (m' & E & Hm'). cbn [c03_monitor_from]. rewrite E. apply IH; auto.
Qed.

(* ================================================================== Part M5: C02 (Find Information, Read By Group Type) *)
Lemma parse_req_inv pdu op k lo hi :
  parse_req pdu = Some (op, k, lo, hi) ->
  exists a b x y t, pdu = op :: a :: b :: x :: y :: t /\ lo = w16 a b /\ hi = w16 x y
    /\ ((op = 4 /\ k = KInfo /\ t = []) \/ (op = 16 /\ k = KGroup /\ t = [0; 40])
        \/ (op = 8 /\ exists u, k = KType u /\ req_type t = Some u)).
Proof.
  unfold parse_req. do 5 (destruct pdu as [|? pdu]; [discriminate|]).
  destruct (n =? 4) eqn:E4.
  - apply N.eqb_eq in E4. subst n. destruct pdu; [|discriminate]. intros H. inversion H; subst.
    eexists _, _, _, _, _. repeat split. left. auto.
  - destruct (n =? 16) eqn:E16.
    + apply N.eqb_eq in E16. subst n. destruct pdu as [|t0 [|t1 [|]]]; try discriminate.
      destruct ((t0 =? 0) && (t1 =? 40)) eqn:Et; [|discriminate]. apply andb_true_iff in Et. destruct Et as [Et0 Et1].
      apply N.eqb_eq in Et0, Et1. subst. intros H. inversion H; subst. eexists _, _, _, _, _. repeat split. right. left. auto.
    + destruct (n =? 8) eqn:E8; [|discriminate]. apply N.eqb_eq in E8. subst n.
      destruct (req_type pdu) as [u|] eqn:Er; [|discriminate]. intros H. inversion H; subst.
      eexists _, _, _, _, _. repeat split. right. right. split; [reflexivity|]. exists u. auto.
Qed.

Definition L02 (c : cfg) (k : dkind) : list N :=
  match k with KInfo => assign c | KGroup => primary_starts c | KType _ => [] end.

Lemma matching_info_handles c lo hi : wf c -> no_includes c -> map fst (matching c KInfo lo hi) = hrange (assign c) lo hi.
Proof.
  intros Hw Hn. unfold hrange, matching. rewrite <- (table_handles c Hw Hn).
  rewrite <- (map_filter_fst (in_range lo hi)). f_equal. apply filter_ext_in'. intros x _. cbn [type_matches]. rewrite andb_true_r. reflexivity.
Qed.

Lemma matching_group_handles c lo hi : wf c -> no_includes c -> map fst (matching c KGroup lo hi) = hrange (primary_starts c) lo hi.
Proof.
  intros Hw Hn. rewrite matching_groups by auto. unfold primary_starts. rewrite selected_starts_range, map_map. reflexivity.
Qed.

Lemma primary_starts_sel c : primary_starts c = map gfirst (filter (svc_sel None) (groups c)).
Proof. unfold primary_starts. f_equal. apply filter_ext_in'. intros g _. unfold svc_sel. cbn [uuid_wanted]. rewrite andb_true_r. reflexivity. Qed.

Lemma L02_bounded c k h : wf c -> no_includes c -> In h (L02 c k) -> h <= 65535.
Proof.
  intros Hw Hn. destruct k; cbn [L02]; intros Hh.
  - pose proof (assign_upper c h Hw Hn Hh). lia.
  - destruct Hh.
  - rewrite primary_starts_sel in Hh. apply (L03_bounded c KGroup h Hw Hn Hh).
Qed.

(* ---- Find Information on a configuration with 16 bit types only *)
Definition all_16bit (c : cfg) : bool := forallb (fun x => is16 (snd x)) (table c).

Lemma is16_type c x : wf c -> In x (table c) -> is16 (snd x) = true -> exists v, attr_type (snd x) = U16 v /\ v < 65536.
Proof.
  intros Hw Hin H16. destruct x as [h a]. cbn [snd] in *. unfold table in Hin. apply in_combine_r in Hin.
  unfold is16 in H16. apply negb_true_iff, N.eqb_neq in H16.
  assert (Hsvc : forall s, In s (services c) -> svc_static_ok c s = true).
  { unfold wf, wf_b in Hw. repeat (apply andb_true_iff in Hw; destruct Hw as [Hw ?]).
    match goal with X : forallb (svc_static_ok c) (services c) = true |- _ => rewrite forallb_forall in X; exact X end. }
  unfold decl_attrs in Hin. apply in_flat_map in Hin. destruct Hin as [s [Hs Hin]]. specialize (Hsvc s Hs).
  unfold svc_static_ok in Hsvc. repeat (match goal with X : _ && _ = true |- _ => apply andb_true_iff in X; destruct X end).
  unfold svc_decl_attrs in Hin. destruct Hin as [<-|Hin].
  { cbn [attr_type attr_uuid]. eexists. split; [reflexivity|]. destruct (s_secondary s); cbv; reflexivity. }
  apply in_app_or in Hin. destruct Hin as [Hin|Hin].
  { apply in_map_iff in Hin. destruct Hin as [u [<- _]]. cbn [attr_type attr_uuid]. eexists. split; [reflexivity|cbv; reflexivity]. }
  apply in_flat_map in Hin. destruct Hin as [ch [Hch Hin]].
  match goal with X : forallb char_static_ok (s_chars s) = true |- _ => rewrite forallb_forall in X; specialize (X ch Hch) end.
  unfold char_static_ok in *. repeat (match goal with X : _ && _ = true |- _ => apply andb_true_iff in X; destruct X end).
  unfold char_attrs in Hin. destruct Hin as [<-|[<-|Hin]].
  - cbn [attr_type attr_uuid]. eexists. split; [reflexivity|cbv; reflexivity].
  - cbn [attr_type attr_uuid] in *. destruct (c_uuid ch) as [v|bs] eqn:Eu; [|congruence].
    exists v. split; [reflexivity|]. match goal with X : uuid_ok _ = true |- _ => cbn [uuid_ok] in X; lia end.
  - unfold char_tail_attrs in Hin.
    apply in_app_or in Hin. destruct Hin as [Hin|Hin].
    { destruct (has_cccd ch); [destruct Hin as [<-|[]]|destruct Hin]. cbn [attr_type attr_uuid]. eexists. split; [reflexivity|cbv; reflexivity]. }
    apply in_app_or in Hin. destruct Hin as [Hin|Hin].
    { destruct (c_name ch); [destruct Hin as [<-|[]]|destruct Hin]. cbn [attr_type attr_uuid]. eexists. split; [reflexivity|cbv; reflexivity]. }
    apply in_map_iff in Hin. destruct Hin as [d [<- Hd]]. cbn [attr_type attr_uuid].
    match goal with X : forallb _ (c_descs ch) = true |- _ => rewrite forallb_forall in X; specialize (X d Hd); cbv beta in X end.
    repeat (match goal with X : _ && _ = true |- _ => apply andb_true_iff in X; destruct X end).
    eexists. split; [reflexivity|lia].
Qed.

Definition einfo (x : N * attr) : entry := EInfo (fst x) (attr_type (snd x)).

Lemma parse_fi_response c (R : list (N * attr)) :
  wf c -> no_includes c -> (forall x, In x R -> In x (table c) /\ is16 (snd x) = true) ->
  parse_resp 4 (5 :: 1 :: flat_map fenc R) = PEntries (map einfo R).
Proof.
  intros Hw Hn HR.
  assert (Hlen : forall x, In x R -> length (fenc x) = 4%nat).
  { intros x Hx. destruct (HR x Hx) as [H1 H2]. destruct (is16_type c x Hw H1 H2) as (v & Hv & _). unfold fenc. rewrite Hv. reflexivity. }
  assert (Hmap : map (fun ch => EInfo (w16 (nth 0 ch 0) (nth 1 ch 0)) (U16 (w16 (nth 2 ch 0) (nth 3 ch 0)))) (map fenc R) = map einfo R).
  { rewrite map_map. apply map_ext_in. intros x Hx. destruct (HR x Hx) as [H1 H2]. destruct (is16_type c x Hw H1 H2) as (v & Hv & Hv2).
    assert (Hh : fst x < 65536) by (apply (assign_upper c _ Hw Hn); rewrite <- (table_handles c Hw Hn); apply in_map; exact H1).
    unfold fenc, einfo. rewrite Hv. unfold le16. cbn [uuid_bytes app nth]. rewrite !w16_le16 by auto. reflexivity. }
  unfold parse_resp. lazy beta iota delta [N.eqb N.add Pos.eqb Pos.add Pos.succ negb orb N.ltb N.compare Pos.compare Pos.compare_cont]. unfold parse_entries.
  rewrite (chunks_flat_map _ fenc (N.to_nat 4) R) by (auto; lia). rewrite Hmap. reflexivity.
Qed.

Lemma fi_good_responder c out_size hi :
  wf c -> no_includes c -> 23 <= out_size -> all_16bit c = true ->
  good_responder (assign c) hi (fi_responder c out_size).
Proof.
  intros Hw Hn Ho Hu. unfold all_16bit in Hu. rewrite forallb_forall in Hu.
  intros lo' Hl1 Hl2. unfold fi_responder. rewrite <- matching_info_handles by auto.
  destruct (from_handle lo' (table c)) as [|x W] eqn:Ef.
  - rewrite matching_info, Ef. reflexivity.
  - destruct (fst x <=? hi) eqn:Ex.
    + destruct (fi_walk_head x W hi (out_size - 2) ltac:(lia) ltac:(lia)) as [R HR]. rewrite HR. cbv zeta.
      destruct (fi_walk_prefix (x :: W) hi (is16 (snd x)) (out_size - 2)) as [rest Hr].
      { intros y Hy _. assert (In y (table c)).
        { assert (X : In y (from_handle lo' (table c))) by (rewrite Ef; exact Hy). apply filter_In in X. tauto. }
        rewrite (Hu y) by auto. symmetry. apply Hu.
        assert (X : In x (from_handle lo' (table c))) by (rewrite Ef; left; reflexivity). apply filter_In in X. tauto. }
      rewrite HR in Hr. rewrite matching_info, Ef, Hr.
      repeat split; [discriminate|lia|intros; lia|].
      exists (map fst rest). rewrite map_app. reflexivity.
    + rewrite (matching_info_empty c lo' hi x W) by (auto; lia). reflexivity.
Qed.

Lemma fi_answer c out_size lo hi x W :
  wf c -> no_includes c -> 23 <= out_size -> all_16bit c = true -> 1 <= lo -> lo <= hi ->
  from_handle lo (table c) = x :: W -> fst x <= hi ->
  let Wk := fi_walk (x :: W) hi (is16 (snd x)) (out_size - 2) in
  let es := map einfo Wk in
  (forall y, In y Wk -> In y (table c) /\ is16 (snd y) = true)
  /\ judge_entries c KInfo lo hi es = Ok
  /\ hrange (assign c) lo hi = map entry_handle es ++ hrange (assign c) (last (map entry_end es) 0 + 1) hi.
Proof.
  intros Hw Hn Ho Hu Hlo Hhi Ef Ex Wk es.
  assert (Hu' := Hu). unfold all_16bit in Hu'. rewrite forallb_forall in Hu'.
  destruct (fi_walk_head x W hi (out_size - 2) Ex ltac:(lia)) as [R HR]. fold Wk in HR.
  pose proof (fi_walk_subseq (x :: W) hi (is16 (snd x)) (out_size - 2)) as Hsub. fold Wk in Hsub.
  assert (HM : matching c KInfo lo hi = filter (fun y => fst y <=? hi) (x :: W)) by (rewrite matching_info, Ef; reflexivity).
  rewrite <- HM in Hsub.
  assert (Hin : forall y, In y Wk -> In y (matching c KInfo lo hi)) by (intros y Hy; eapply subseq_in; eauto).
  assert (Htab : forall y, In y Wk -> In y (table c) /\ is16 (snd y) = true).
  { intros y Hy. destruct (matching_sound _ _ _ _ _ (Hin y Hy)) as (T1 & _). split; auto. }
  destruct (fi_walk_prefix (x :: W) hi (is16 (snd x)) (out_size - 2)) as [rest Hr].
  { intros y Hy _. assert (In y (table c)).
    { assert (X : In y (from_handle lo (table c))) by (rewrite Ef; exact Hy). apply filter_In in X. tauto. }
    rewrite (Hu' y) by auto. symmetry. apply Hu'.
    assert (X : In x (from_handle lo (table c))) by (rewrite Ef; left; reflexivity). apply filter_In in X. tauto. }
  fold Wk in Hr. rewrite <- HM in Hr.
  assert (Hhs : map entry_handle es = map fst Wk) by (unfold es; rewrite map_map; reflexivity).
  assert (Hen : map entry_end es = map fst Wk) by (unfold es; rewrite map_map; reflexivity).
  split; [exact Htab|]. split.
  - unfold judge_entries. cbv zeta. rewrite Hhs. unfold es.
    assert (Hnemp : match map einfo Wk with [] => true | _ :: _ => false end = false) by (rewrite HR; reflexivity).
    rewrite Hnemp.
    replace (forallb (in_range lo hi) (map fst Wk)) with true.
    2:{ symmetry. apply forallb_forall. intros h Hh. apply in_map_iff in Hh. destruct Hh as [y [<- Hy]].
        destruct (matching_sound _ _ _ _ _ (Hin y Hy)) as (_ & T2 & _). exact T2. }
    cbn [negb].
    replace (forallb (entry_matches c KInfo) (map einfo Wk)) with true.
    2:{ symmetry. apply forallb_forall. intros e He. apply in_map_iff in He. destruct He as [y [<- Hy]].
        unfold entry_matches, einfo. cbn [entry_handle]. apply existsb_exists. exists y. split; [apply Htab; exact Hy|].
        rewrite N.eqb_refl, uuid_eqb_refl. reflexivity. }
    cbn [negb].
    assert (Hsorted : increasing_from 0 (map fst Wk) = true).
    { apply (subseq_increasing 0 _ (map fst (matching c KInfo lo hi))); [apply subseq_map; exact Hsub|apply matching_sorted; auto]. }
    rewrite (ascending_of_increasing 0) by exact Hsorted. cbn [negb].
    rewrite (run_ok_prefix _ _ (map fst rest)) by (rewrite Hr, map_app; reflexivity). reflexivity.
  - rewrite Hhs, Hen.
    assert (Er : fi_responder c out_size lo hi = Some (map fst Wk, last (map fst Wk) 0)).
    { unfold fi_responder. rewrite Ef. replace (fst x <=? hi) with true by lia. reflexivity. }
    destruct (responder_next (assign c) hi _ lo _ _ (assign_increasing c) (fi_good_responder c out_size hi Hw Hn Ho Hu) Hlo Hhi Er) as (_ & _ & _ & X).
    exact X.
Qed.

(* ---- Read By Group Type, judged by C02's clauses *)
Lemma judge_entries_groups c lo hi W rest :
  wf c -> no_includes c -> W <> [] ->
  filter (group_wanted lo hi) (groups c) = W ++ rest ->
  judge_entries c KGroup lo hi (map (gentry3 None) W) = Ok.
Proof.
  intros Hw Hn Hne HW. pose proof (groups_sorted c Hw Hn) as Hs.
  assert (HM : matching c KGroup lo hi = map gentry (W ++ rest)) by (rewrite matching_groups, HW by auto; reflexivity).
  assert (Hin : forall g, In g W -> In (gentry g) (matching c KGroup lo hi)).
  { intros g Hg. rewrite HM. apply in_map. apply in_or_app. left. exact Hg. }
  assert (Hhs : map entry_handle (map (gentry3 None) W) = map gfirst W) by (rewrite map_map; reflexivity).
  unfold judge_entries. cbv zeta. rewrite Hhs.
  destruct W as [|g0 W0]; [congruence|]. cbn [map]. cbv iota.
  change (gfirst g0 :: map gfirst W0) with (map gfirst (g0 :: W0)).
  change (gentry3 None g0 :: map (gentry3 None) W0) with (map (gentry3 None) (g0 :: W0)).
  replace (forallb (in_range lo hi) (map gfirst (g0 :: W0))) with true.
  2:{ symmetry. apply forallb_forall. intros h Hh. apply in_map_iff in Hh. destruct Hh as [g [<- Hg]].
      destruct (matching_sound _ _ _ _ _ (Hin g Hg)) as (_ & T2 & _). exact T2. }
  cbn [negb].
  replace (forallb (entry_matches c KGroup) (map (gentry3 None) (g0 :: W0))) with true.
  2:{ symmetry. apply forallb_forall. intros e He. apply in_map_iff in He. destruct He as [g [<- Hg]].
      destruct (matching_sound _ _ _ _ _ (Hin g Hg)) as (T1 & _ & T3).
      unfold entry_matches, gentry3. cbn [entry_handle]. apply existsb_exists. exists (gentry g). split; [exact T1|].
      cbn [gentry fst snd] in *. fold (gfirst g). rewrite N.eqb_refl, T3. reflexivity. }
  cbn [negb].
  assert (Hsorted : increasing_from 0 (map gfirst ((g0 :: W0) ++ rest)) = true).
  { rewrite <- HW. apply blocks_sorted_firsts. apply blocks_sorted_filter. exact Hs. }
  rewrite map_app in Hsorted. apply increasing_from_app in Hsorted. destruct Hsorted as [Hsorted _].
  rewrite (ascending_of_increasing 0) by exact Hsorted. cbn [negb].
  rewrite (run_ok_prefix _ _ (map gfirst rest)); [reflexivity|].
  rewrite HM, map_map, map_app. reflexivity.
Qed.

Lemma att_input_4 c st cid t n st' resp :
  att_input c st cid (4 :: t) n = Some (st', resp) ->
  exists k b' nn, get_conn st cid = Some k /\ 23 <= N.min n (negotiated_mtu c k)
    /\ handle_find_information c (4 :: t) (repeat fill_byte (N.to_nat n)) (N.min n (negotiated_mtu c k)) = Some (b', nn)
    /\ nn <= len b' /\ resp = takeN nn b'.
Proof.
  unfold att_input. destruct (get_conn st cid) as [k|]; [|discriminate]. cbv zeta.
  destruct (len (4 :: t) =? 0); [discriminate|].
  destruct (N.min n (negotiated_mtu c k) <? default_att_mtu) eqn:E; [discriminate|].
  change (rd (4 :: t) 0) with (Some 4). cbn [N.eqb Pos.eqb].
  destruct (handle_find_information c (4 :: t) _ _) as [[b' nn]|] eqn:Eh; [|discriminate].
  destruct (nn <=? len b') eqn:En; [|discriminate]. intros H. inversion H; subst.
  exists k, b', nn. unfold default_att_mtu in E. repeat split; auto; lia.
Qed.

Lemma c02_info_step c st m cid a b x y n st' resp :
  wf c -> no_includes c -> all_16bit c = true -> mon_ok (L02 c) m ->
  a < 256 -> b < 256 -> x < 256 -> y < 256 ->
  att_input c st cid [4; a; b; x; y] n = Some (st', resp) ->
  exists m',
    (if (w16 a b =? 0) || (w16 x y <? w16 a b) then (judge_invalid_range (w16 a b) (parse_resp 4 resp), upd m cid None)
     else session_step m cid KInfo (w16 a b) (w16 x y) (parse_resp 4 resp) (judge_entries c KInfo (w16 a b) (w16 x y))
            (fun l => matching c KInfo l (w16 x y)) (required c KInfo) dt_not_found dt_enumerate) = (Ok, m')
    /\ mon_ok (L02 c) m'.
Proof.
  intros Hw Hn Hu Hm Ha Hb Hx Hy Hin.
  apply att_input_4 in Hin. destruct Hin as (k & b' & nn & Hk & Hout & Hh & Hnn & ->).
  set (out_size := N.min n (negotiated_mtu c k)) in *.
  assert (Hlb : out_size <= len (repeat fill_byte (N.to_nat n))) by (rewrite len_repeat_N; unfold out_size; lia).
  rewrite takeN_seg by exact Hnn.
  destruct ((w16 a b =? 0) || (w16 x y <? w16 a b)) eqn:Er.
  - unfold handle_find_information in Hh.
    rewrite (check_range_invalid c _ _ out_size 5 5 4 (w16 a b) (w16 x y)) in Hh; try reflexivity; [|left; reflexivity|exact Er].
    destruct (error_response 4 err_invalid_handle (w16 a b) _ out_size) as [r|] eqn:Ee; [|discriminate Hh].
    inversion Hh; subst r. apply error_response_bytes in Ee; auto; [|lia]. cbn [fst snd] in Ee. destruct Ee as (E1 & E2 & _).
    subst nn. rewrite E2, parse_error_response. cbn [judge_invalid_range]. rewrite N.eqb_refl. cbn.
    eexists. split; [reflexivity|]. apply mon_ok_upd_none; auto.
  - assert (Hlo : 1 <= w16 a b) by lia. assert (Hhi : w16 a b <= w16 x y) by lia.
    pose proof (find_information_spec c a b x y _ out_size (b', nn) Hw Hn Ha Hb Hx Hy Hlo Hhi Hout Hlb Hh) as Hsp.
    unfold fi_response in Hsp. cbv zeta in Hsp. cbn [fst snd] in Hsp.
    change (required c KInfo) with (fun _ : attr => true).
    apply (session_step_ok (L02 c) m cid KInfo); auto.
    + intros l'. apply matching_info_handles; auto.
    + intros h Hh'. eapply L02_bounded; eauto.
    + cbn [L02]. destruct (from_handle (w16 a b) (table c)) as [|e W] eqn:Ef.
      * destruct Hsp as [E1 E2]. subst nn. rewrite E2, parse_error_response. split; [reflexivity|].
        rewrite <- matching_info_handles, matching_info, Ef by auto. reflexivity.
      * destruct (fst e <=? w16 x y) eqn:Ex.
        -- destruct Hsp as (_ & _ & E3). rewrite E3.
           destruct (fi_answer c out_size (w16 a b) (w16 x y) e W Hw Hn Hout Hu Hlo Hhi Ef ltac:(lia)) as (F1 & F2 & F3).
           assert (H16 : is16 (snd e) = true).
           { unfold all_16bit in Hu. rewrite forallb_forall in Hu. apply Hu.
             assert (X : In e (from_handle (w16 a b) (table c))) by (rewrite Ef; left; reflexivity). apply filter_In in X. tauto. }
           rewrite H16 in *. rewrite (parse_fi_response c); auto.
        -- destruct Hsp as [E1 E2]. subst nn. rewrite E2, parse_error_response. split; [reflexivity|].
           rewrite <- matching_info_handles by auto. rewrite (matching_info_empty c _ _ e W) by (auto; lia). reflexivity.
Qed.

Lemma c02_group_step c st m cid a b x y n st' resp :
  wf c -> no_includes c -> mon_ok (L02 c) m ->
  a < 256 -> b < 256 -> x < 256 -> y < 256 ->
  att_input c st cid [16; a; b; x; y; 0; 40] n = Some (st', resp) ->
  exists m',
    (if (w16 a b =? 0) || (w16 x y <? w16 a b) then (judge_invalid_range (w16 a b) (parse_resp 16 resp), upd m cid None)
     else session_step m cid KGroup (w16 a b) (w16 x y) (parse_resp 16 resp) (judge_entries c KGroup (w16 a b) (w16 x y))
            (fun l => matching c KGroup l (w16 x y)) (required c KGroup) dt_not_found dt_enumerate) = (Ok, m')
    /\ mon_ok (L02 c) m'.
Proof.
  intros Hw Hn Hm Ha Hb Hx Hy Hin.
  apply att_input_16 in Hin. destruct Hin as (k & b' & nn & Hk & Hout & Hh & Hnn & ->).
  set (out_size := N.min n (negotiated_mtu c k)) in *.
  assert (Hlb : out_size <= len (repeat fill_byte (N.to_nat n))) by (rewrite len_repeat_N; unfold out_size; lia).
  rewrite takeN_seg by exact Hnn.
  destruct ((w16 a b =? 0) || (w16 x y <? w16 a b)) eqn:Er.
  - unfold handle_read_by_group_type in Hh.
    rewrite (check_range_invalid c _ _ out_size 7 21 16 (w16 a b) (w16 x y)) in Hh; try reflexivity; [|left; reflexivity|exact Er].
    destruct (error_response 16 err_invalid_handle (w16 a b) _ out_size) as [r|] eqn:Ee; [|discriminate Hh].
    inversion Hh; subst r. apply error_response_bytes in Ee; auto; [|lia]. cbn [fst snd] in Ee. destruct Ee as (E1 & E2 & _).
    subst nn. rewrite E2, parse_error_response. cbn [judge_invalid_range]. rewrite N.eqb_refl. cbn.
    eexists. split; [reflexivity|]. apply mon_ok_upd_none; auto.
  - assert (Hlo : 1 <= w16 a b) by lia. assert (Hhi : w16 a b <= w16 x y) by lia.
    pose proof (read_by_group_type_spec c a b x y _ out_size (b', nn) Hw Hn Ha Hb Hx Hy Hlo Hhi Hout Hlb Hh) as Hsp.
    set (walk := fun lo hi => walk_first (groups c) lo hi (out_size - 2)).
    assert (Hwalk : forall lo', exists rest, filter (selected_range (svc_sel None) lo' (w16 x y)) (groups c) = walk lo' (w16 x y) ++ rest
                                  /\ (walk lo' (w16 x y) = [] -> filter (selected_range (svc_sel None) lo' (w16 x y)) (groups c) = [])).
    { intros lo'. destruct (walk_first_spec (groups c) lo' (w16 x y) (out_size - 2) ltac:(lia)) as (rest & W1 & W2 & _).
      exists rest. rewrite svc_sel_none_wanted. split; auto. }
    pose proof (group_answer c None walk (w16 a b) (w16 x y) Hw Hn Hwalk Hlo Hhi) as Hans. cbv zeta in Hans.
    rewrite <- primary_starts_sel in Hans.
    destruct (walk_first_spec (groups c) (w16 a b) (w16 x y) (out_size - 2) ltac:(lia)) as (rest & W1 & W2 & W3).
    unfold walk in Hans. unfold rbg_response in Hsp. cbn [fst snd] in Hsp.
    change (required c KGroup) with (fun _ : attr => true).
    apply (session_step_ok (L02 c) m cid KGroup); auto.
    + intros l'. apply matching_group_handles; auto.
    + intros h Hh'. eapply L02_bounded; eauto.
    + cbn [L02]. destruct (walk_first (groups c) (w16 a b) (w16 x y) (out_size - 2)) as [|g W'] eqn:Ew.
      * destruct Hsp as [E1 E2]. subst nn. rewrite E2, parse_error_response. split; [reflexivity|exact Hans].
      * destruct Hsp as (_ & _ & E3). rewrite E3.
        rewrite (parse_rbg_response c (g :: W') (is_128bit (s_uuid (snd g)))); auto; [|discriminate|].
        -- destruct Hans as [_ Hans]. split; [|exact Hans].
           apply (judge_entries_groups c _ _ (g :: W') rest); auto. discriminate.
        -- intros g' Hg'. split; [|apply W3; exact Hg'].
           assert (X : In g' (filter (group_wanted (w16 a b) (w16 x y)) (groups c))) by (rewrite W1; apply in_or_app; left; exact Hg').
           apply filter_In in X. tauto.
Qed.

(* requests the partial theorem does not cover: Read By Type *)
Definition no_read_by_type (o : srv_op) : bool :=
  match o with OpIn _ (8 :: _) _ => false | _ => true end.

Lemma c02_step_ok c st m o :
  wf c -> no_includes c -> all_16bit c = true -> mon_ok (L02 c) m ->
  op_bytes o = true -> no_read_by_type o = true -> snd (srv_step c st o) <> OFault ->
  exists m', c02_step c m o (snd (srv_step c st o)) = (Ok, m') /\ mon_ok (L02 c) m'.
Proof.
  intros Hw Hn Hu Hm Hb Hr Hf. destruct o as [cid pdu n| | |cid| | |]; cbn [c02_step]; try (eexists; split; [reflexivity|exact Hm]).
  - destruct (n <? default_att_mtu); [eexists; split; [reflexivity|exact Hm]|].
    destruct (parse_req pdu) as [[[[op k] lo] hi]|] eqn:Ep; [|eexists; split; [reflexivity|exact Hm]].
    cbn [srv_step] in *. destruct (att_input c st cid pdu n) as [[st' resp]|] eqn:Ein; [|exfalso; apply Hf; reflexivity].
    cbn [snd]. destruct (parse_req_inv pdu op k lo hi Ep) as (a & b & x & y & t & -> & -> & -> & Hcase).
    cbn [op_bytes forallb] in Hb. unfold byte_ok in Hb.
    destruct Hcase as [(-> & -> & ->)|[(-> & -> & ->)|(-> & _)]].
    + apply (c02_info_step c st m cid a b x y n st' resp); auto; lia.
    + apply (c02_group_step c st m cid a b x y n st' resp); auto; lia.
    + discriminate Hr.
  - eexists. split; [reflexivity|]. apply mon_ok_upd_none; auto.
Qed.

Theorem c02_monitor_accepts c : wf c -> no_includes c -> all_16bit c = true ->
  forall ops st m pos,
    mon_ok (L02 c) m -> forallb op_bytes ops = true -> forallb no_read_by_type ops = true ->
    Forall (fun p => snd p <> OFault) (srv_run c st ops) ->
    c02_monitor_from c m pos (srv_run c st ops) = None.
Proof.
  intros Hw Hn Hu. induction ops as [|o t IH]; intros st m pos Hm Hb Hr Hf; [reflexivity|].
  cbn [forallb] in Hb, Hr. apply andb_true_iff in Hb. destruct Hb as [Hb1 Hb2]. apply andb_true_iff in Hr. destruct Hr as [Hr1 Hr2].
  pose proof (c02_step_ok c st m o Hw Hn Hu Hm Hb1 Hr1) as Hstep.
  cbn [srv_run] in *. destruct (srv_step c st o) as [st' out] eqn:Es. cbn [snd] in Hstep.
  inversion Hf as [|? ? Hf1 Hf2]; subst. cbn [snd] in Hf1.
  destruct (Hstep Hf1) as (m' & E & Hm'). cbn [c02_monitor_from]. rewrite E. apply IH; auto.
Qed.
