(* Proofs for property C06: reads and writes follow the attribute value semantics.
   The refinement of the reference semantics (abstract store, AttSrvSpecVal.v) is AttSrvProofsVal.v.
   Here: the C06 judgement accepts every output that meets the expectation; direct statements about the
   attribute access functions; the properties byte. *)
From Coq Require Import Lia ZifyBool.
From BT Require Import Base.ListX AttDb.AttDbModel NQueue.NQueueModel AttSrv.AttSrvModel AttSrv.AttSrvSpecC01
  AttSrv.AttSrvProofsC01 AttSrv.AttSrvSpecVal AttSrv.AttSrvProofsVal AttSrv.AttSrvSpecC06.
Local Open Scope N_scope.

Definition not_scanned (o : srv_op) : bool := negb (scanned_in o).

Lemma judge_ok c a o x r : no_k1 c -> not_scanned o = true -> (sat_cond c x -> sat c x r) -> judge c a o x r = Ok.
Proof.
  intros NK NS H. unfold judge. destruct o as [cid pdu n|cid n|cid e p|cid|by_uuid kd g|g|g data]; try (destruct r; reflexivity).
  - destruct r as [resp| | | | |]; try reflexivity.
    assert (Scan : match pdu with
                   | op :: hs =>
                       if op =? 8 then match resp with
                                       | 9 :: l :: entries => if existsb (unreadable_handle c) (entry_handles (length entries) (N.to_nat l) entries) then Bad t_permission else Ok
                                       | _ => Ok end
                       else if op =? 14 then match resp with
                                             | 15 :: _ => if existsb (unreadable_handle c) (pair_handles hs) then Bad t_permission else Ok
                                             | _ => Ok end
                       else Ok
                   | [] => Ok
                   end = Ok).
    { destruct pdu as [|op hs]; [reflexivity|]. unfold not_scanned, scanned_in in NS. apply negb_true_iff in NS.
      apply orb_false_iff in NS. destruct NS as [-> ->]. reflexivity. }
    destruct x as [|kind exp g rsp|p|g v wl]; try exact Scan.
    + destruct (is_sec exp) eqn:ES; [reflexivity|]. cbn [orb].
      assert (S : sat c (XResp kind exp g rsp) (OBytes resp)) by (apply H; cbn [sat_cond]; intros _; left; exact NK).
      cbn [sat] in S. inversion S; subst. rewrite list_eqb_refl. reflexivity.
    + specialize (H I). cbn [sat] in H. destruct resp as [|h [|p' t]]; try reflexivity.
      destruct (h =? 11) eqn:E11; [|reflexivity]. apply N.eqb_eq in E11. subst h.
      rewrite (H p' t eq_refl), N.eqb_refl. reflexivity.
  - destruct r as [| | | | |v wl]; try reflexivity. destruct x as [|kind exp g0 rsp|p|g0 v' wl']; try reflexivity.
    destruct (H I) as (lg & E & _). inversion E; subst. rewrite list_eqb_refl. reflexivity.
Qed.

(* the monitor accepts every trace of the model over requests other than Read By Type / Read Multiple (whose
   responses the monitor scans; not proved), for every configuration without the known finding k1 *)
Theorem monitor_sound c ops : no_k1 c -> forallb not_scanned ops = true -> monitor c (srv_run c (srv_init c) ops) = None.
Proof.
  intros NK HP. unfold monitor, monitor_from, minit.
  apply (monitor_sound_with judge not_scanned).
  - intros a o x r Po H. apply judge_ok; assumption.
  - apply sim_init.
  - exact HP.
Qed.

(* ------------------------------------------------------------------ writes *)
(* a write through a characteristic value attribute: exactly the written bytes at the written position of
   exactly this value, or nothing at all *)
Theorem value_write_exact c st sec s ch g off data st' rc :
  value_write c st sec s ch g off data = (st', rc) ->
  (rc = Success ->
     vals st' = upd (vals st) g (splice (get_val st g) off data) /\ off + len data <= len (get_val st g)
     /\ spec_writable ch = true /\ stored ch = true)
  /\ (rc <> Success -> vals st' = vals st).
Proof.
  unfold value_write. destruct (security_check _ _ _); try (intros H; inv H; split; [discriminate|reflexivity]).
  unfold spec_writable, stored. destruct (c_value ch) as [size kc|size v|bytes|size hrd hwr blob];
    try (intros H; inv H; split; [discriminate|reflexivity]).
  - destruct kc, (c_no_write ch); cbn [orb negb andb]; try (intros H; inv H; split; [discriminate|reflexivity]).
    rewrite mem_write_splice.
    destruct (len (get_val st g) <? off) eqn:E1; [intros H; inv H; split; [discriminate|intros _; cbn; apply upd_same]|].
    destruct (len (get_val st g) <? off + len data) eqn:E2; [intros H; inv H; split; [discriminate|intros _; cbn; apply upd_same]|].
    intros H; inv H. split; [|intros X; contradiction]. intros _. apply N.ltb_ge in E2. repeat split; auto.
  - destruct hwr; cbn [negb]; [|intros H; inv H; split; [discriminate|reflexivity]].
    destruct (negb blob && negb (off =? 0)); [intros H; inv H; split; [discriminate|reflexivity]|].
    rewrite mem_write_splice.
    destruct (len (get_val st g) <? off) eqn:E1; [intros H; inv H; split; [discriminate|intros _; cbn; apply upd_same]|].
    destruct (len (get_val st g) <? off + len data) eqn:E2; [intros H; inv H; split; [discriminate|intros _; cbn; apply upd_same]|].
    intros H; inv H. split; [|intros X; contradiction]. intros _. apply N.ltb_ge in E2. repeat split; auto.
Qed.

Lemma nth_skipn_loc (A : Type) (l : list A) n i d : nth i (skipn n l) d = nth (n + i) l d.
Proof. revert l; induction n as [|n IH]; intros l; [reflexivity|]. destruct l as [|x t]; [destruct i; reflexivity|]. cbn. apply IH. Qed.

Lemma nth_firstn_loc (A : Type) (l : list A) n i d : (i < n)%nat -> nth i (firstn n l) d = nth i l d.
Proof.
  revert l i; induction n as [|n IH]; intros l i H; [lia|]. destruct l as [|x t]; [reflexivity|].
  destruct i as [|i]; [reflexivity|]. cbn. apply IH. lia.
Qed.

(* splice: the written bytes at the position, every other byte as before, the length unchanged *)
Lemma splice_length (v : list N) off (d : list N) : off + len d <= len v -> length (splice v off d) = length v.
Proof.
  unfold splice, len. intros H. rewrite !app_length, firstn_length, skipn_length. lia.
Qed.

Lemma splice_nth (v : list N) off (d : list N) i :
  off + len d <= len v ->
  nth i (splice v off d) 0 =
  if (N.to_nat off <=? i)%nat && (i <? N.to_nat off + length d)%nat then nth (i - N.to_nat off) d 0 else nth i v 0.
Proof.
  unfold splice, len. intros H.
  destruct (Nat.ltb_spec i (N.to_nat off)) as [L|L].
  - replace (N.to_nat off <=? i)%nat with false by (symmetry; apply Nat.leb_gt; lia). cbn [andb].
    rewrite app_nth1 by (rewrite firstn_length; lia).
    rewrite <- (firstn_skipn (N.to_nat off) v) at 2. rewrite app_nth1 by (rewrite firstn_length; lia). reflexivity.
  - replace (N.to_nat off <=? i)%nat with true by (symmetry; apply Nat.leb_le; lia). cbn [andb].
    rewrite app_nth2 by (rewrite firstn_length; lia). rewrite firstn_length.
    replace (Nat.min (N.to_nat off) (length v)) with (N.to_nat off) by lia.
    destruct (Nat.ltb_spec i (N.to_nat off + length d)) as [L2|L2].
    + rewrite app_nth1 by lia. reflexivity.
    + rewrite app_nth2 by lia. rewrite nth_skipn_loc. f_equal. lia.
Qed.

(* ------------------------------------------------------------------ reads *)
(* the reference read: the bytes from the offset, at most maxlen, Invalid Offset exactly past the end *)
Lemma sub_spec (v : list N) off n i : off <= len v -> n <= len v - off -> (i < N.to_nat n)%nat -> nth i (sub v off n) 0 = nth (N.to_nat off + i) v 0.
Proof.
  unfold sub, len. intros H1 H2 H3. rewrite nth_firstn_loc by lia. rewrite nth_skipn_loc. reflexivity.
Qed.

Lemma sub_length (v : list N) off n : off <= len v -> n <= len v - off -> len (sub v off n) = n.
Proof. unfold sub, len. intros H1 H2. rewrite firstn_length, skipn_length. lia. Qed.

(* ------------------------------------------------------------------ the properties byte *)
Theorem spec_properties_bits ch :
  N.testbit (spec_properties ch) 1 = spec_readable ch
  /\ N.testbit (spec_properties ch) 3 = (spec_writable ch && negb (c_owwr ch))
  /\ N.testbit (spec_properties ch) 2 = (c_owwr ch || (stored ch && c_wwr ch))
  /\ N.testbit (spec_properties ch) 4 = (c_notify ch && negb (match c_value ch with VString _ => true | _ => false end))
  /\ N.testbit (spec_properties ch) 5 = (c_indicate ch && negb (match c_value ch with VString _ => true | _ => false end))
  /\ spec_properties ch < 64.
Proof.
  unfold spec_properties.
  destruct (spec_readable ch), (spec_writable ch && negb (c_owwr ch)), (c_owwr ch || (stored ch && c_wwr ch)),
    (c_notify ch && negb (match c_value ch with VString _ => true | _ => false end)),
    (c_indicate ch && negb (match c_value ch with VString _ => true | _ => false end)); repeat split; reflexivity.
Qed.

(* ------------------------------------------------------------------ reads and permissions on the model *)
(* Read / Read Blob of a readable value on a sufficiently secure link: the current value bytes from the offset,
   at most maxlen; Invalid Offset exactly when the offset is past the end *)
Theorem value_read_bytes c st enc pair s ch g off maxlen st' rc d :
  value_read c st (enc, pair) s ch g off maxlen = (st', rc, d) ->
  k1 ch = false -> sec_error (spec_protected c s ch) enc pair = None -> spec_readable ch = true -> not_long ch off = false ->
  let v := spec_value (vals st) ch g in
  (len v < off /\ rc = Err err_invalid_offset /\ d = [])
  \/ (off <= len v /\ rc = Success /\ d = sub v off (N.min maxlen (len v - off))).
Proof.
  intros H K HS HR HL. pose proof (value_read_not_equal _ _ _ _ _ _ _ _ _ _ _ H) as NE.
  apply value_read_spec in H. destruct H as [_ H]. specialize (H (or_introl K)).
  unfold aread_value in H. rewrite HS, HR, HL in H. cbn [negb] in H. cbv zeta.
  destruct (len (spec_value (vals st) ch g) <? off) eqn:E; apply pair_inj in H; destruct H as [H1 H2].
  - left. apply N.ltb_lt in E. destruct rc; try discriminate; [|contradiction]. inv H1. auto.
  - right. apply N.ltb_ge in E. destruct rc; try discriminate. auto.
Qed.

(* a value that must not be readable answers Read Not Permitted on every read access *)
Definition read_permission_full : Prop :=
  forall c st enc pair s ch g off maxlen st' rc d,
    value_read c st (enc, pair) s ch g off maxlen = (st', rc, d) ->
    sec_error (spec_protected c s ch) enc pair = None -> spec_readable ch = false ->
    rc = Err err_read_not_permitted /\ d = [].

Theorem read_permission_partial c st enc pair s ch g off maxlen st' rc d :
  value_read c st (enc, pair) s ch g off maxlen = (st', rc, d) ->
  k1 ch = false -> sec_error (spec_protected c s ch) enc pair = None -> spec_readable ch = false ->
  rc = Err err_read_not_permitted /\ d = [].
Proof.
  intros H K HS HR. pose proof (value_read_not_equal _ _ _ _ _ _ _ _ _ _ _ H) as NE.
  apply value_read_spec in H. destruct H as [_ H]. specialize (H (or_introl K)).
  unfold aread_value in H. rewrite HS, HR in H. cbn [negb] in H. apply pair_inj in H. destruct H as [H1 H2].
  destruct rc; try discriminate. inv H1. auto.
Qed.

(* a value that must not be writable answers Write Not Permitted and stays as it is *)
Theorem write_permission c st enc pair s ch g off data st' rc :
  value_write c st (enc, pair) s ch g off data = (st', rc) ->
  sec_error (spec_protected c s ch) enc pair = None -> spec_writable ch = false ->
  rc = Err err_write_not_permitted /\ vals st' = vals st.
Proof.
  unfold value_write. rewrite security_check_spec, <- spec_protected_eq. cbn [fst snd]. intros H HS. rewrite HS in H. revert H.
  unfold spec_writable. destruct (c_value ch) as [size kc|size v|bytes|size hrd hwr blob]; try (intros H _; inv H; split; reflexivity).
  - intros H HW. replace (kc || c_no_write ch) with true in H by (destruct kc, (c_no_write ch); cbn in *; congruence).
    inv H. split; reflexivity.
  - intros H HW. subst hwr. cbn [negb] in H. inv H. split; reflexivity.
Qed.

(* a write refused for insufficient security changes nothing either *)
Theorem write_refused_for_security c st enc pair s ch g off data st' rc e :
  value_write c st (enc, pair) s ch g off data = (st', rc) ->
  sec_error (spec_protected c s ch) enc pair = Some e -> rc = Err e /\ st' = st.
Proof.
  unfold value_write. rewrite security_check_spec, <- spec_protected_eq. cbn [fst snd]. intros H HS. rewrite HS in H. inv H. split; reflexivity.
Qed.
