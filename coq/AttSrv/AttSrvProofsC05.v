(* Proofs for property C05: encryption-protected values are never exposed on an unencrypted link.

   Non-interference: two server states that differ only in the values of protected characteristics
   ([low_eq]) are indistinguishable through a connection that is not encrypted: every request
   (l2cap_input, all 14 handlers, all PDU bytes) and every l2cap_output gives the same bytes on both, and
   the states stay low-equivalent (unwinding); hence whole histories give the same outputs.
   Integrity: such a request changes no protected value. Error codes: per attribute access. *)
From Coq Require Import Lia ZifyBool.
From BT Require Import Base.ListX AttDb.AttDbModel NQueue.NQueueModel AttSrv.AttSrvModel AttSrv.AttSrvSpecC01
  AttSrv.AttSrvProofsC01 AttSrv.AttSrvSpecVal AttSrv.AttSrvProofsVal AttSrv.AttSrvProofsC07 AttSrv.AttSrvSpecC05.
Local Open Scope N_scope.

(* ------------------------------------------------------------------ the monitor's judgement *)
Definition plain_op (o : srv_op) : bool := negb (scanned_in o) && negb (is_out o).

Lemma judge_ok c a o x r : plain_op o = true -> (sat_cond c x -> sat c x r) -> judge c a o x r = Ok.
Proof.
  intros NS H. unfold judge. destruct o as [cid pdu n|cid n|cid e p|cid|by_uuid kd g|g|g data]; try (destruct r; reflexivity).
  - destruct r as [resp| | | | |]; try reflexivity. cbv zeta.
    destruct x as [|kind exp g rsp|p|g v wl].
    2:{ destruct (is_sec exp) eqn:ES; [|reflexivity]. cbn [andb].
        assert (S : sat c (XResp kind exp g rsp) (OBytes resp)) by (apply H; cbn [sat_cond]; intros _; right; exact ES).
        cbn [sat] in S. inversion S; subst. rewrite list_eqb_refl. reflexivity. }
    all: destruct pdu as [|op hs]; [reflexivity|]; unfold plain_op, scanned_in in NS; cbn [is_out negb andb] in NS;
      rewrite andb_true_r in NS; apply negb_true_iff in NS; apply orb_false_iff in NS; destruct NS as [-> ->]; reflexivity.
  - discriminate NS.
  - destruct r as [| | | | |v wl]; try reflexivity. destruct x as [|kind exp g0 rsp|p|g0 v' wl']; try reflexivity.
    destruct (H I) as (lg & E & _). inversion E; subst. rewrite list_eqb_refl. reflexivity.
Qed.

(* the monitor accepts every trace of the model over requests other than Read By Type / Read Multiple and
   without l2cap_output (those outputs are scanned by the monitor; what they may contain is the non-interference
   theorem below), for EVERY configuration *)
Theorem monitor_sound c ops : forallb plain_op ops = true -> monitor c (srv_run c (srv_init c) ops) = None.
Proof.
  intros HP. unfold monitor, monitor_from, minit.
  apply (monitor_sound_with judge plain_op).
  - intros a o x r Po H. apply judge_ok; assumption.
  - apply sim_init.
  - exact HP.
Qed.

(* ------------------------------------------------------------------ protection, low equivalence *)
(* the characteristic with global number g requires encryption *)
Definition prot (c : cfg) (g : nat) : bool :=
  match nth_error (all_chars c) g with
  | Some (s, ch) => char_requires_encryption c s ch
  | None => false
  end.

(* the states agree on everything but the values of protected characteristics *)
Definition low_eq (c : cfg) (st1 st2 : srv_state) : Prop :=
  hlogs st1 = hlogs st2 /\ wq_owner st1 = wq_owner st2 /\ wq_elems st1 = wq_elems st2 /\ conns st1 = conns st2
  /\ length (vals st1) = length (vals st2)
  /\ forall g, prot c g = false -> nth g (vals st1) [] = nth g (vals st2) [].

Lemma low_eq_refl c st : low_eq c st st.
Proof. repeat split. Qed.

Lemma low_eq_conn c st1 st2 cid : low_eq c st1 st2 -> get_conn st1 cid = get_conn st2 cid.
Proof. intros (_ & _ & _ & H & _). unfold get_conn. rewrite H. reflexivity. Qed.

Lemma low_eq_set_conn c st1 st2 cid k : low_eq c st1 st2 -> low_eq c (set_conn st1 cid k) (set_conn st2 cid k).
Proof. intros (H1 & H2 & H3 & H4 & H5 & H6). repeat split; cbn; auto. rewrite H4. reflexivity. Qed.

Lemma low_eq_log c st1 st2 g f : low_eq c st1 st2 -> low_eq c (log_call st1 g f) (log_call st2 g f).
Proof. intros (H1 & H2 & H3 & H4 & H5 & H6). repeat split; cbn; auto. rewrite H1. reflexivity. Qed.

Lemma low_eq_set_wq c st1 st2 o e : low_eq c st1 st2 -> low_eq c (set_wq st1 o e) (set_wq st2 o e).
Proof. intros (H1 & H2 & H3 & H4 & H5 & H6). repeat split; cbn; auto. Qed.

Lemma low_eq_upd c st1 st2 g m : low_eq c st1 st2 ->
  low_eq c (set_vals st1 (upd (vals st1) g m)) (set_vals st2 (upd (vals st2) g m)).
Proof.
  intros (H1 & H2 & H3 & H4 & H5 & H6). repeat split; cbn; auto.
  - rewrite !upd_length. exact H5.
  - intros g' P. destruct (Nat.eq_dec g g') as [->|NE].
    + destruct (Nat.ltb_spec g' (length (vals st1))) as [L|L].
      * rewrite !nth_upd_eq by lia. reflexivity.
      * rewrite !upd_out by lia. apply H6. exact P.
    + rewrite !nth_upd_neq by exact NE. apply H6. exact P.
Qed.

(* results of the two runs: both fault, or both return related values *)
Definition rel_opt {A : Type} (R : A -> A -> Prop) (x y : option A) : Prop :=
  match x, y with
  | Some a, Some b => R a b
  | None, None => True
  | _, _ => False
  end.

Lemma rel_opt_refl (A : Type) (R : A -> A -> Prop) x : (forall a, R a a) -> rel_opt R x x.
Proof. intros H. destruct x; cbn; auto. Qed.

(* the attribute was produced by attribute_at: a value attribute names the characteristic with its number *)
Definition attr_ok (c : cfg) (a : attr) : Prop :=
  match a with AValue s ch g _ => nth_error (all_chars c) g = Some (s, ch) | _ => True end.

Lemma attribute_at_ok c i a : attribute_at c i = Some a -> attr_ok c a.
Proof. intros H. destruct a; cbn; auto. eapply attribute_at_value; eauto. Qed.

Lemma prot_of c s ch g : nth_error (all_chars c) g = Some (s, ch) -> prot c g = char_requires_encryption c s ch.
Proof. intros H. unfold prot. rewrite H. reflexivity. Qed.

(* ------------------------------------------------------------------ attribute access *)
Definition rel_read (c : cfg) (x y : srv_state * acc_res * list N) : Prop :=
  low_eq c (fst (fst x)) (fst (fst y)) /\ snd (fst x) = snd (fst y) /\ snd x = snd y.
Definition rel_write (c : cfg) (x y : srv_state * acc_res) : Prop := low_eq c (fst x) (fst y) /\ snd x = snd y.

Ltac same_r L := cbn [rel_opt rel_read fst snd]; split; [exact L|split; reflexivity].
Ltac same_w L := cbn [rel_opt rel_write fst snd]; split; [exact L|reflexivity].

Lemma value_read_ni c st1 st2 pair s ch g off maxlen :
  low_eq c st1 st2 -> nth_error (all_chars c) g = Some (s, ch) ->
  rel_read c (value_read c st1 (false, pair) s ch g off maxlen) (value_read c st2 (false, pair) s ch g off maxlen).
Proof.
  intros L HA. unfold value_read. cbn [fst snd]. pose proof (prot_of c s ch g HA) as P.
  unfold security_check. destruct (char_requires_encryption c s ch) eqn:ER; cbn [negb].
  - destruct (pair =? 0); same_r L.
  - assert (V : get_val st1 g = get_val st2 g) by (unfold get_val; apply L; exact P).
    destruct (c_value ch) as [size k|size v|bytes|size hrd hwr blob].
    + destruct (c_no_read ch); [same_r L|]. rewrite V. destruct (mem_read _ _ _). same_r L.
    + destruct (c_no_read ch); [same_r L|]. destruct (mem_read _ _ _). same_r L.
    + destruct (mem_read _ _ _). same_r L.
    + destruct (negb hrd); [same_r L|]. destruct (negb blob && negb (off =? 0)); [same_r L|].
      rewrite V. destruct (mem_read _ _ _). cbn [rel_read fst snd]. split; [apply low_eq_log; exact L|split; reflexivity].
Qed.

Lemma access_read_ni c st1 st2 cid k a i off maxlen :
  low_eq c st1 st2 -> get_conn st1 cid = Some k -> encrypted k = false -> attr_ok c a ->
  rel_opt (rel_read c) (access_read c st1 cid a i off maxlen) (access_read c st2 cid a i off maxlen).
Proof.
  intros L G E OK. unfold access_read. rewrite <- (low_eq_conn c st1 st2 cid L), G. rewrite E.
  destruct a as [s|u|s ch|s ch g cci|s ch cci|nm|u v]; cbn [attr_ok] in OK.
  - destruct (mem_read _ _ _). same_r L.
  - destruct (mem_read _ _ _). same_r L.
  - destruct (char_decl_value c ch i); [|exact I]. destruct (mem_read _ _ _). same_r L.
  - cbn [rel_opt]. apply value_read_ni; assumption.
  - cbn [fst snd]. destruct (security_check _ _ _); try same_r L. destruct (mem_read _ _ _). same_r L.
  - destruct (mem_read _ _ _). same_r L.
  - destruct (mem_read _ _ _). same_r L.
Qed.

Lemma value_write_ni c st1 st2 pair s ch g off data :
  low_eq c st1 st2 -> nth_error (all_chars c) g = Some (s, ch) ->
  rel_write c (value_write c st1 (false, pair) s ch g off data) (value_write c st2 (false, pair) s ch g off data).
Proof.
  intros L HA. unfold value_write. cbn [fst snd]. pose proof (prot_of c s ch g HA) as P.
  unfold security_check. destruct (char_requires_encryption c s ch) eqn:ER; cbn [negb].
  - destruct (pair =? 0); same_w L.
  - assert (V : get_val st1 g = get_val st2 g) by (unfold get_val; apply L; exact P).
    destruct (c_value ch) as [size k|size v|bytes|size hrd hwr blob]; try same_w L.
    + destruct (k || c_no_write ch); [same_w L|]. rewrite V. destruct (mem_write _ _ _).
      cbn [rel_write fst snd]. split; [apply low_eq_upd; exact L|reflexivity].
    + destruct (negb hwr); [same_w L|]. destruct (negb blob && negb (off =? 0)); [same_w L|].
      rewrite V. destruct (mem_write _ _ _). cbn [rel_write fst snd]. split; [|reflexivity].
      apply (low_eq_upd c (log_call st1 g _) (log_call st2 g _)). apply low_eq_log. exact L.
Qed.

Lemma access_write_ni c st1 st2 cid k a off data :
  low_eq c st1 st2 -> get_conn st1 cid = Some k -> encrypted k = false -> attr_ok c a ->
  rel_opt (rel_write c) (access_write c st1 cid a off data) (access_write c st2 cid a off data).
Proof.
  intros L G E OK. unfold access_write. rewrite <- (low_eq_conn c st1 st2 cid L), G. rewrite E.
  destruct a as [s|u|s ch|s ch g cci|s ch cci|nm|u v]; cbn [attr_ok] in OK; try same_w L.
  - cbn [rel_opt]. apply value_write_ni; assumption.
  - cbn [fst snd]. destruct (security_check _ _ _); try same_w L.
    unfold cccd_write. destruct (2 <? off); [same_w L|]. destruct (2 <? len data + off); [same_w L|].
    destruct (off =? 0); [|same_w L]. cbn [rel_opt rel_write fst snd]. split; [apply low_eq_set_conn; exact L|reflexivity].
Qed.

(* ------------------------------------------------------------------ the request handlers *)
Definition rel_h (c : cfg) (x y : srv_state * resp) : Prop := low_eq c (fst x) (fst y) /\ snd x = snd y.

(* both sides proceed through the same (state independent) computation *)
Ltac rel_auto :=
  repeat match goal with
         | |- rel_opt _ (match ?x with _ => _ end) (match ?x with _ => _ end) => destruct x
         | |- rel_opt _ None None => exact I
         | |- rel_opt _ (Some _) (Some _) =>
             cbn [rel_opt rel_h rel_read rel_write fst snd]; split; [assumption|try reflexivity]
         end.

(* use a non-interference fact about a state dependent sub-computation *)
Ltac use_ni H x y :=
  match type of H with
  | rel_opt _ ?A ?B =>
      let E1 := fresh "E1" in let E2 := fresh "E2" in
      destruct A as [x|] eqn:E1, B as [y|] eqn:E2; cbn [rel_opt] in H; try contradiction; [|exact I]
  end.

Lemma read_common_ni c st1 st2 cid k pdu b out_size rsp h index off :
  low_eq c st1 st2 -> get_conn st1 cid = Some k -> encrypted k = false ->
  rel_opt (rel_h c) (handle_read_common c st1 cid pdu b out_size rsp h index off)
                    (handle_read_common c st2 cid pdu b out_size rsp h index off).
Proof.
  intros L G E. unfold handle_read_common. destruct (rd pdu 0); [|exact I].
  destruct (attribute_at c index) as [a|] eqn:EA; [|exact I]. apply attribute_at_ok in EA.
  pose proof (access_read_ni c st1 st2 cid k a index off (out_size - 1) L G E EA) as R. use_ni R x y.
  destruct x as [[s1 rc1] d1], y as [[s2 rc2] d2]. destruct R as (L' & R1 & R2). cbn [fst snd] in *. subst rc2 d2.
  destruct rc1; rel_auto.
Qed.

Lemma read_ni c st1 st2 cid k pdu b out_size :
  low_eq c st1 st2 -> get_conn st1 cid = Some k -> encrypted k = false ->
  rel_opt (rel_h c) (handle_read c st1 cid pdu b out_size) (handle_read c st2 cid pdu b out_size).
Proof.
  intros L G E. unfold handle_read. destruct (check_size_and_handle c pdu b out_size 3) as [[r|[h i]]|]; [rel_auto| |exact I].
  eapply read_common_ni; eauto.
Qed.

Lemma read_blob_ni c st1 st2 cid k pdu b out_size :
  low_eq c st1 st2 -> get_conn st1 cid = Some k -> encrypted k = false ->
  rel_opt (rel_h c) (handle_read_blob c st1 cid pdu b out_size) (handle_read_blob c st2 cid pdu b out_size).
Proof.
  intros L G E. unfold handle_read_blob. destruct (check_size_and_handle c pdu b out_size 5) as [[r|[h i]]|]; [rel_auto| |exact I].
  destruct (rd16 pdu 3); [|exact I]. eapply read_common_ni; eauto.
Qed.

(* Read By Type *)
Definition rel_col (c : cfg) (x y : srv_state * collect) : Prop := low_eq c (fst x) (fst y) /\ snd x = snd y.

Lemma collect_attribute_ni c st1 st2 cid k col e index a :
  low_eq c st1 st2 -> get_conn st1 cid = Some k -> encrypted k = false -> attr_ok c a ->
  rel_opt (rel_col c) (collect_attribute c st1 cid col e index a) (collect_attribute c st2 cid col e index a).
Proof.
  intros L G E OK. unfold collect_attribute.
  destruct (2 <=? e - co_cur col); [|cbn; split; auto]. cbv zeta.
  match goal with |- context [access_read c st1 cid a index 0 ?m] =>
    pose proof (access_read_ni c st1 st2 cid k a index 0 m L G E OK) as R end.
  use_ni R x y. destruct x as [[s1 rc1] d1], y as [[s2 rc2] d2]. destruct R as (L' & R1 & R2). cbn [fst snd] in *. subst rc2 d2.
  destruct rc1; try (cbn; split; auto; fail).
  repeat match goal with
         | |- rel_opt _ (match ?x with _ => _ end) (match ?x with _ => _ end) => destruct x
         | |- rel_opt _ None None => exact I
         | |- rel_opt _ (Some _) (Some _) => cbn [rel_opt rel_col fst snd]; split; [assumption|reflexivity]
         end.
Qed.

Lemma all_attributes_ni fuel c cid k f e last eh : forall st1 st2 col index,
  low_eq c st1 st2 -> get_conn st1 cid = Some k -> encrypted k = false ->
  rel_opt (rel_col c) (all_attributes fuel c st1 cid f col e index last eh) (all_attributes fuel c st2 cid f col e index last eh).
Proof.
  induction fuel as [|n IH]; intros st1 st2 col index L G E; cbn [all_attributes]; [cbn; split; auto|].
  destruct ((index <=? last) && (handle_by_index c index <=? eh)); [|cbn; split; auto].
  destruct (attribute_at c index) as [a|] eqn:EA; [|exact I]. apply attribute_at_ok in EA.
  destruct (uuid_filter_match f a); [|apply IH; assumption].
  pose proof (collect_attribute_ni c st1 st2 cid k col e index a L G E EA) as R. use_ni R x y.
  destruct x as [s1 k1], y as [s2 k2]. destruct R as [L' R]. cbn [fst snd] in *. subst k2.
  apply IH; [exact L'| |exact E].
  apply collect_attribute_same in E1. destruct E1 as (_ & _ & _ & C & _). unfold get_conn in *. rewrite C. exact G.
Qed.

Lemma read_by_type_ni c st1 st2 cid k pdu b out_size :
  low_eq c st1 st2 -> get_conn st1 cid = Some k -> encrypted k = false ->
  rel_opt (rel_h c) (handle_read_by_type c st1 cid pdu b out_size) (handle_read_by_type c st2 cid pdu b out_size).
Proof.
  intros L G E. unfold handle_read_by_type.
  destruct (check_size_and_handle_range c pdu b out_size 7 21) as [[r|[sh eh]]|]; [rel_auto| |exact I].
  destruct (rd pdu 0); [|exact I]. destruct (make_uuid_filter pdu (len pdu =? 21)) as [f|]; [|exact I].
  match goal with |- context [all_attributes ?fu c st1 cid f ?col ?e ?i ?la ?eh'] =>
    pose proof (all_attributes_ni fu c cid k f e la eh' st1 st2 col i L G E) as R end.
  use_ni R x y. destruct x as [s1 k1], y as [s2 k2]. destruct R as [L' R]. cbn [fst snd] in *. subst k2. rel_auto.
Qed.

Lemma read_multiple_loop_ni c cid k opcode b0 out_size : forall hs st1 st2 b p,
  low_eq c st1 st2 -> get_conn st1 cid = Some k -> encrypted k = false ->
  rel_opt (rel_h c) (read_multiple_loop c st1 cid opcode hs b0 b p out_size) (read_multiple_loop c st2 cid opcode hs b0 b p out_size).
Proof.
  fix IH 1. intros hs st1 st2 b p L G E. destruct hs as [|lo [|hi t]]; cbn [read_multiple_loop]; try (cbn; split; auto; fail).
  cbv zeta. destruct (lo + 256 * hi =? 0); [rel_auto|].
  destruct (index_by_handle c (lo + 256 * hi) =? invalid_index); [rel_auto|].
  destruct (attribute_at c (index_by_handle c (lo + 256 * hi))) as [a|] eqn:EA; [|exact I]. apply attribute_at_ok in EA.
  match goal with |- context [access_read c st1 cid a ?i 0 ?m] => pose proof (access_read_ni c st1 st2 cid k a i 0 m L G E EA) as R end.
  use_ni R x y. destruct x as [[s1 rc1] d1], y as [[s2 rc2] d2]. destruct R as (L' & R1 & R2). cbn [fst snd] in *. subst rc2 d2.
  destruct rc1; rel_auto.
  apply IH; [exact L'| |exact E].
  apply access_read_same in E1. destruct E1 as (_ & _ & _ & C & _). unfold get_conn in *. rewrite C. exact G.
Qed.

Lemma read_multiple_ni c st1 st2 cid k pdu b out_size :
  low_eq c st1 st2 -> get_conn st1 cid = Some k -> encrypted k = false ->
  rel_opt (rel_h c) (handle_read_multiple c st1 cid pdu b out_size) (handle_read_multiple c st2 cid pdu b out_size).
Proof.
  intros L G E. unfold handle_read_multiple. destruct (rd pdu 0); [|exact I].
  destruct ((len pdu <? 5) || (len pdu mod 2 =? 0)); [rel_auto|].
  destruct (put b 0 [15]); [|exact I]. destruct (slice pdu 1 (len pdu)); [|exact I].
  eapply read_multiple_loop_ni; eauto.
Qed.

Lemma write_request_ni c st1 st2 cid k pdu b out_size :
  low_eq c st1 st2 -> get_conn st1 cid = Some k -> encrypted k = false ->
  rel_opt (rel_h c) (handle_write_request c st1 cid pdu b out_size) (handle_write_request c st2 cid pdu b out_size).
Proof.
  intros L G E. unfold handle_write_request. destruct (rd pdu 0); [|exact I].
  destruct (len pdu <? 3); [rel_auto|].
  destruct (check_handle c pdu b out_size) as [[r|[h i]]|]; [rel_auto| |exact I].
  destruct (attribute_at c i) as [a|] eqn:EA; [|exact I]. apply attribute_at_ok in EA.
  destruct (slice pdu 3 (len pdu)) as [data|]; [|exact I].
  pose proof (access_write_ni c st1 st2 cid k a 0 data L G E EA) as R. use_ni R x y.
  destruct x as [s1 rc1], y as [s2 rc2]. destruct R as [L' R]. cbn [fst snd] in *. subst rc2.
  destruct rc1; rel_auto.
Qed.

Lemma write_command_ni c st1 st2 cid k pdu b out_size :
  low_eq c st1 st2 -> get_conn st1 cid = Some k -> encrypted k = false ->
  rel_opt (rel_h c) (handle_write_command c st1 cid pdu b out_size) (handle_write_command c st2 cid pdu b out_size).
Proof.
  intros L G E. unfold handle_write_command. pose proof (write_request_ni c st1 st2 cid k pdu b out_size L G E) as R.
  use_ni R x y. destruct x as [s1 [b1 m1]], y as [s2 [b2 m2]]. destruct R as [L' R]. cbn [fst snd] in *. inv R.
  cbn. split; auto.
Qed.

Lemma wq_allocate_ni c qs st1 st2 cid elem :
  low_eq c st1 st2 -> rel_opt (low_eq c) (wq_allocate qs st1 cid elem) (wq_allocate qs st2 cid elem).
Proof.
  intros L. unfold wq_allocate, wq_end. destruct L as (H1 & H2 & H3 & H4 & H5 & H6). rewrite H2, H3.
  destruct (_ || _); [exact I|]. cbn [rel_opt]. apply low_eq_set_wq. repeat split; auto.
Qed.

Lemma prepare_write_ni c st1 st2 cid k pdu b out_size :
  low_eq c st1 st2 -> get_conn st1 cid = Some k -> encrypted k = false ->
  rel_opt (rel_h c) (handle_prepare_write c st1 cid pdu b out_size) (handle_prepare_write c st2 cid pdu b out_size).
Proof.
  intros L G E. unfold handle_prepare_write. destruct (rd pdu 0); [|exact I].
  destruct (wqueue c) as [qs|]; [|rel_auto]. destruct (len pdu <? 5); [rel_auto|].
  destruct (check_handle c pdu b out_size) as [[r|[h i]]|]; [rel_auto| |exact I].
  destruct (attribute_at c i) as [a|] eqn:EA; [|exact I]. apply attribute_at_ok in EA.
  unfold access_check_write.
  pose proof (access_write_ni c st1 st2 cid k a 0 [] L G E EA) as R. use_ni R x y.
  destruct x as [s1 rc1], y as [s2 rc2]. destruct R as [L' R]. cbn [fst snd] in *. subst rc2.
  destruct rc1; rel_auto.
  match goal with |- context [wq_allocate qs s1 cid ?elem] =>
    pose proof (wq_allocate_ni c qs s1 s2 cid elem L') as RA;
    destruct (wq_allocate qs s1 cid elem) as [t1|], (wq_allocate qs s2 cid elem) as [t2|]; cbn [rel_opt] in RA; try contradiction; rel_auto
  end.
Qed.

(* the acting connection is not encrypted *)
Definition unenc (st : srv_state) (cid : nat) : Prop := forall k, get_conn st cid = Some k -> encrypted k = false.

Lemma upd_nth_error_neq (A : Type) (l : list A) i j v : i <> j -> nth_error (upd l i v) j = nth_error l j.
Proof. revert i j; induction l as [|h t IH]; intros [|i] [|j] H; cbn; auto; try lia. Qed.

Lemma upd_nth_error_eq (A : Type) (l : list A) i v k : nth_error (upd l i v) i = Some k -> k = v.
Proof. revert i; induction l as [|h t IH]; intros [|i] H; cbn in H; try discriminate; [inv H; reflexivity|eapply IH; eauto]. Qed.

(* a write keeps the link security of every connection *)
Lemma access_write_unenc c st cid a off data st' rc cid' :
  access_write c st cid a off data = Some (st', rc) -> unenc st cid' -> unenc st' cid'.
Proof.
  unfold access_write. destruct (get_conn st cid) as [k|] eqn:G; [|discriminate].
  destruct a as [s|u|s ch|s ch g cci|s ch cci|nm|u v]; try (intros H U; inv H; exact U).
  - intros H U. apply some_inj in H. unfold value_write in H. cbn [fst snd] in H.
    destruct (security_check _ _ _); try (inv H; exact U).
    destruct (c_value ch) as [size kc|size v|bytes|size hrd hwr blob]; try (inv H; exact U).
    + destruct (kc || c_no_write ch); [inv H; exact U|]. destruct (mem_write _ _ _). inv H. exact U.
    + destruct (negb hwr); [inv H; exact U|]. destruct (negb blob && _); [inv H; exact U|]. destruct (mem_write _ _ _). inv H. exact U.
  - cbn [fst snd]. destruct (security_check _ _ _); try (intros H U; inv H; exact U).
    unfold cccd_write. destruct (2 <? off); [intros H U; inv H; exact U|]. destruct (2 <? _); [intros H U; inv H; exact U|].
    destruct (off =? 0); [|intros H U; inv H; exact U]. intros H U. inv H. intros k' G'.
    unfold get_conn, set_conn in G'. cbn [conns] in G'.
    destruct (Nat.eq_dec cid cid') as [<-|NE]; [|rewrite upd_nth_error_neq in G' by exact NE; apply U; exact G'].
    apply upd_nth_error_eq in G'. subst k'. cbn [encrypted]. apply U. exact G.
Qed.

Lemma execute_writes_ni c cid : forall elems st1 st2,
  low_eq c st1 st2 -> unenc st1 cid ->
  rel_opt (fun x y : srv_state * option (N * N) => low_eq c (fst x) (fst y) /\ snd x = snd y)
          (execute_writes c st1 cid elems) (execute_writes c st2 cid elems).
Proof.
  induction elems as [|e t IH]; intros st1 st2 L U; cbn [execute_writes]; [cbn; split; auto|].
  destruct (rd16 e 0) as [h|]; [|exact I]. destruct (rd16 e 2) as [off|]; [|exact I].
  destruct (attribute_at c (index_by_handle c h)) as [a|] eqn:EA; [|exact I]. apply attribute_at_ok in EA.
  destruct (get_conn st1 cid) as [k|] eqn:G.
  2:{ unfold access_write. rewrite <- (low_eq_conn c st1 st2 cid L), G. exact I. }
  pose proof (access_write_ni c st1 st2 cid k a off (dropN 4 e) L G (U k G) EA) as R. use_ni R x y.
  destruct x as [s1 rc1], y as [s2 rc2]. destruct R as [L' R]. cbn [fst snd] in *. subst rc2.
  destruct rc1; try (cbn; split; auto; fail).
  apply IH; [exact L'|]. eapply access_write_unenc; eauto.
Qed.

Lemma wq_free_ni c st1 st2 cid : low_eq c st1 st2 -> low_eq c (wq_free st1 cid) (wq_free st2 cid).
Proof.
  intros L. unfold wq_free. replace (wq_owner st1) with (wq_owner st2) by (symmetry; apply L).
  destruct (wq_owner st2) as [o|]; [|exact L]. destruct (Nat.eqb o cid); [|exact L].
  apply low_eq_set_wq. exact L.
Qed.

Lemma execute_write_ni c st1 st2 cid k pdu b out_size :
  low_eq c st1 st2 -> get_conn st1 cid = Some k -> encrypted k = false ->
  rel_opt (rel_h c) (handle_execute_write c st1 cid pdu b out_size) (handle_execute_write c st2 cid pdu b out_size).
Proof.
  intros L G E. unfold handle_execute_write. destruct (rd pdu 0); [|exact I].
  destruct (wqueue c) as [qs|]; [|rel_auto]. destruct (negb (len pdu =? 2)); [rel_auto|].
  destruct (rd pdu 1) as [flag|]; [|exact I]. destruct (negb (flag =? 0) && negb (flag =? 1)); [rel_auto|].
  assert (U : unenc st1 cid) by (intros k' G'; rewrite G in G'; inv G'; exact E).
  assert (R : rel_opt (fun x y : srv_state * option (N * N) => low_eq c (fst x) (fst y) /\ snd x = snd y)
                (if (flag =? 1) && match wq_owner st1 with Some o => Nat.eqb o cid | None => false end
                 then execute_writes c st1 cid (wq_elems st1) else Some (st1, None))
                (if (flag =? 1) && match wq_owner st2 with Some o => Nat.eqb o cid | None => false end
                 then execute_writes c st2 cid (wq_elems st2) else Some (st2, None))).
  { destruct L as (H1 & H2 & H3 & H4 & H5 & H6). rewrite H2, H3.
    destruct ((flag =? 1) && _); [|cbn; split; [repeat split; auto|reflexivity]].
    apply execute_writes_ni; [repeat split; auto|exact U]. }
  use_ni R x y. destruct x as [s1 f1], y as [s2 f2]. destruct R as [L' R]. cbn [fst snd] in *. subst f2.
  pose proof (wq_free_ni c s1 s2 cid L') as LF.
  destruct f1 as [[h code]|]; rel_auto.
Qed.

Lemma exchange_mtu_ni c st1 st2 cid pdu b out_size :
  low_eq c st1 st2 ->
  rel_opt (rel_h c) (handle_exchange_mtu c st1 cid pdu b out_size) (handle_exchange_mtu c st2 cid pdu b out_size).
Proof.
  intros L. unfold handle_exchange_mtu. destruct (rd pdu 0); [|exact I]. destruct (negb (len pdu =? 3)); [rel_auto|].
  destruct (rd16 pdu 1) as [mtu|]; [|exact I]. destruct (mtu <? default_att_mtu); [rel_auto|].
  rewrite <- (low_eq_conn c st1 st2 cid L). destruct (get_conn st1 cid) as [k|]; [|exact I].
  pose proof (low_eq_set_conn c st1 st2 cid (mkConn mtu (cccd k) (encrypted k) (pairing k) (nq k)) L) as LS. rel_auto.
Qed.

Lemma confirmation_ni c st1 st2 cid pdu b out_size :
  low_eq c st1 st2 ->
  rel_opt (rel_h c) (handle_confirmation c st1 cid pdu b out_size) (handle_confirmation c st2 cid pdu b out_size).
Proof.
  intros L. unfold handle_confirmation. destruct (rd pdu 0); [|exact I]. destruct (negb (len pdu =? 1)); [rel_auto|].
  rewrite <- (low_eq_conn c st1 st2 cid L). destruct (get_conn st1 cid) as [k|]; [|exact I].
  pose proof (low_eq_set_conn c st1 st2 cid (fst (nq_step k Confirm)) L) as LS. rel_auto.
Qed.

(* Find By Type Value does not look at the state at all *)
Lemma services_by_group_state c st1 st2 cid : forall ss index si ei value b cur e found,
  services_by_group c st1 cid ss index si ei value b cur e found = services_by_group c st2 cid ss index si ei value b cur e found.
Proof.
  induction ss as [|s t IH]; intros; cbn [services_by_group]; [reflexivity|]. cbv zeta.
  destruct (_ && _); [|apply IH]. destruct (attribute_at c index) as [a|]; [|reflexivity].
  destruct (negb (attr_uuid a =? uuid_primary_service)); [apply IH|].
  replace (access_compare_value c st2 cid a value) with (access_compare_value c st1 cid a value) by reflexivity.
  destruct (access_compare_value c st1 cid a value); try apply IH.
  destruct (4 <=? e - cur); [|apply IH]. destruct (put b cur _); [apply IH|reflexivity].
Qed.

Lemma find_by_type_value_state c st1 st2 cid pdu b out_size :
  handle_find_by_type_value c st1 cid pdu b out_size = handle_find_by_type_value c st2 cid pdu b out_size.
Proof.
  unfold handle_find_by_type_value. destruct (check_size_and_handle_range c pdu b out_size 9 23) as [[r|[sh eh]]|]; try reflexivity.
  destruct (rd pdu 0); [|reflexivity]. destruct (rd16 pdu 5) as [ty|]; [|reflexivity].
  destruct (negb (ty =? uuid_primary_service)); [reflexivity|]. destruct (slice pdu 7 (len pdu)); [|reflexivity].
  rewrite (services_by_group_state c st1 st2). reflexivity.
Qed.

(* ------------------------------------------------------------------ l2cap_input, l2cap_output *)
Definition rel_io (c : cfg) (x y : srv_state * list N) : Prop := low_eq c (fst x) (fst y) /\ snd x = snd y.

Theorem att_input_ni c st1 st2 cid pdu n :
  low_eq c st1 st2 -> unenc st1 cid ->
  rel_opt (rel_io c) (att_input c st1 cid pdu n) (att_input c st2 cid pdu n).
Proof.
  intros L U. unfold att_input. rewrite <- (low_eq_conn c st1 st2 cid L).
  destruct (get_conn st1 cid) as [k|] eqn:G; [|exact I]. pose proof (U k G) as E.
  destruct (len pdu =? 0); [exact I|]. destruct (N.min n (negotiated_mtu c k) <? default_att_mtu); [exact I|].
  destruct (rd pdu 0) as [op|]; [|exact I].
  set (b := repeat fill_byte (N.to_nat n)). set (out_size := N.min n (negotiated_mtu c k)).
  match goal with |- rel_opt _ (match ?A with _ => _ end) (match ?B with _ => _ end) => assert (R : rel_opt (rel_h c) A B) end.
  { destruct (op =? 1); [cbn; split; auto|].
    destruct (op =? 2); [apply exchange_mtu_ni; exact L|].
    destruct (op =? 4); [rel_auto|].
    destruct (op =? 6); [rewrite (find_by_type_value_state c st1 st2); rel_auto|].
    destruct (op =? 8); [eapply read_by_type_ni; eauto|].
    destruct (op =? 10); [eapply read_ni; eauto|].
    destruct (op =? 12); [eapply read_blob_ni; eauto|].
    destruct (op =? 16); [rel_auto|].
    destruct (op =? 14); [eapply read_multiple_ni; eauto|].
    destruct (op =? 18); [eapply write_request_ni; eauto|].
    destruct (op =? 82); [eapply write_command_ni; eauto|].
    destruct (op =? 22); [eapply prepare_write_ni; eauto|].
    destruct (op =? 24); [eapply execute_write_ni; eauto|].
    destruct (op =? 30); [apply confirmation_ni; exact L|].
    rel_auto. }
  use_ni R x y. destruct x as [s1 [b1 m1]], y as [s2 [b2 m2]]. destruct R as [L' R]. cbn [fst snd] in *. inv R.
  destruct (m2 <=? len b2); [|exact I]. cbn. split; auto.
Qed.

Lemma get_conn_set_conn st cid k k1 : get_conn st cid = Some k -> get_conn (set_conn st cid k1) cid = Some k1.
Proof.
  unfold get_conn, set_conn. cbn [conns]. generalize (conns st). intros l. revert cid.
  induction l as [|h t IH]; intros [|i] H; cbn in *; try discriminate; auto.
Qed.

Lemma nq_step_encrypted k o : encrypted (fst (nq_step k o)) = encrypted k.
Proof. unfold nq_step. destruct (NQueueModel.step (nq k) o). reflexivity. Qed.

Lemma unsent_indication_ni c st1 st2 cid kd : low_eq c st1 st2 -> low_eq c (unsent_indication st1 cid kd) (unsent_indication st2 cid kd).
Proof.
  intros L. unfold unsent_indication. destruct kd; [exact L|]. rewrite <- (low_eq_conn c st1 st2 cid L).
  destruct (get_conn st1 cid); [apply low_eq_set_conn|]; exact L.
Qed.

Theorem att_output_ni c st1 st2 cid n :
  low_eq c st1 st2 -> unenc st1 cid ->
  rel_opt (rel_io c) (att_output c st1 cid n) (att_output c st2 cid n).
Proof.
  intros L U. unfold att_output. rewrite <- (low_eq_conn c st1 st2 cid L).
  destruct (get_conn st1 cid) as [k|] eqn:G; [|exact I]. pose proof (U k G) as E. cbv zeta.
  pose proof (nq_step_encrypted k Dequeue) as NE. destruct (nq_step k Dequeue) as [k1 r]. cbn [fst] in NE.
  pose proof (low_eq_set_conn c st1 st2 cid k1 L) as L1.
  pose proof (get_conn_set_conn st1 cid k k1 G) as G1.
  assert (E1 : encrypted k1 = false) by congruence.
  destruct r; try (cbn; split; auto; fail).
  match goal with |- rel_opt _ (match ?e with Some _ => _ | None => _ end) _ => destruct e as [[kd i]|] end; [|cbn; split; auto].
  destruct (find_notification_data_by_index c (N.of_nat i)) as [ai ci].
  match goal with |- rel_opt _ (if ?x then _ else _) _ => destruct x end.
  2:{ cbn. split; [apply unsent_indication_ni; exact L1|reflexivity]. }
  destruct (attribute_at c ai) as [a|] eqn:EA; [|exact I]. apply attribute_at_ok in EA.
  match goal with |- context [access_read c (set_conn st1 cid k1) cid a ai 0 ?m] =>
    pose proof (access_read_ni c _ _ cid k1 a ai 0 m L1 G1 E1 EA) as R end.
  use_ni R x y. destruct x as [[s1 rc1] d1], y as [[s2 rc2] d2]. destruct R as (L' & R1 & R2). cbn [fst snd] in *. subst rc2 d2.
  pose proof (unsent_indication_ni c s1 s2 cid kd L') as LU.
  destruct rc1;
    repeat match goal with
           | |- rel_opt _ (match ?x with _ => _ end) (match ?x with _ => _ end) => destruct x
           | |- rel_opt _ None None => exact I
           | |- rel_opt _ (Some _) (Some _) => cbn [rel_opt rel_io fst snd]; split; [assumption|reflexivity]
           end.
Qed.

(* ------------------------------------------------------------------ unwinding over operations and histories *)
(* the operation acts through a connection that is not encrypted (every other operation is the application's) *)
Definition unenc_act (st : srv_state) (o : srv_op) : Prop :=
  match o with OpIn cid _ _ | OpOut cid _ => unenc st cid | _ => True end.

(* what an observer of the link sees; the harness' look at a protected variable is not an observation *)
Definition obs (c : cfg) (o : srv_op) (r : srv_out) : srv_out :=
  match o with OpVal g => if prot c g then ONone else r | _ => r end.

Lemma request_ni c st1 st2 kd data :
  low_eq c st1 st2 -> low_eq c (fst (request st1 kd data)) (fst (request st2 kd data)) /\ snd (request st1 kd data) = snd (request st2 kd data).
Proof.
  intros L. unfold request. destruct L as (H1 & H2 & H3 & H4 & H5 & H6). rewrite H4.
  destruct (queue_all (conns st2) _) as [l rs]. cbn. repeat split; auto.
Qed.

Theorem step_ni c st1 st2 o :
  low_eq c st1 st2 -> unenc_act st1 o ->
  low_eq c (fst (srv_step c st1 o)) (fst (srv_step c st2 o)) /\ obs c o (snd (srv_step c st1 o)) = obs c o (snd (srv_step c st2 o)).
Proof.
  intros L U. destruct o as [cid pdu n|cid n|cid e p|cid|by_uuid kd g|g|g data]; cbn [srv_step unenc_act obs] in *.
  - pose proof (att_input_ni c st1 st2 cid pdu n L U) as R.
    destruct (att_input c st1 cid pdu n) as [[s1 r1]|], (att_input c st2 cid pdu n) as [[s2 r2]|]; cbn [rel_opt] in R; try contradiction.
    + destruct R as [L' R]. cbn [fst snd] in *. subst. split; auto.
    + split; auto.
  - pose proof (att_output_ni c st1 st2 cid n L U) as R.
    destruct (att_output c st1 cid n) as [[s1 r1]|], (att_output c st2 cid n) as [[s2 r2]|]; cbn [rel_opt] in R; try contradiction.
    + destruct R as [L' R]. cbn [fst snd] in *. subst. split; auto.
    + split; auto.
  - rewrite <- (low_eq_conn c st1 st2 cid L). destruct (get_conn st1 cid) as [k|]; cbn [fst snd]; split; auto.
    apply low_eq_set_conn. exact L.
  - cbn [fst snd]. split; auto. apply low_eq_set_conn. apply wq_free_ni. exact L.
  - destruct by_uuid.
    + destruct (by_uuid_available c kd g); [|split; auto]. unfold notify_by_uuid.
      destruct (nth_error (all_chars c) g) as [x|]; [|split; auto].
      destruct (find_notification_by_uuid c (c_uuid (snd x))) as [d|]; [|split; auto].
      destruct (request_ni c st1 st2 kd d L) as [L' R]. destruct (request st1 kd d), (request st2 kd d). cbn [fst snd] in *. subst. split; auto.
    + destruct (by_value_available c g); [|split; auto]. unfold notify_by_value.
      destruct (find_notification_data c g) as [d|]; [|split; auto].
      destruct (request_ni c st1 st2 kd d L) as [L' R]. destruct (request st1 kd d), (request st2 kd d). cbn [fst snd] in *. subst. split; auto.
  - destruct (has_var c g) as [[w h]|]; cbn [fst snd]; [|split; auto]. split; [exact L|].
    destruct (prot c g) eqn:P; [reflexivity|]. unfold get_val. destruct L as (H1 & H2 & H3 & H4 & H5 & H6). rewrite H1, (H6 g P). reflexivity.
  - destruct (has_var c g) as [[[|] h]|]; cbn [fst snd]; try (split; auto; fail). split; [|reflexivity].
    (* the application writes the same bytes; the length of the old value decides how many *)
    destruct L as (H1 & H2 & H3 & H4 & H5 & H6). repeat split; cbn; auto.
    + rewrite !upd_length. exact H5.
    + intros g' P. destruct (Nat.eq_dec g g') as [->|NE].
      * unfold get_val. rewrite (H6 g' P).
        destruct (Nat.ltb_spec g' (length (vals st1))) as [Lt|Lt].
        -- rewrite !nth_upd_eq by lia. reflexivity.
        -- rewrite !upd_out by lia. apply H6. exact P.
      * rewrite !nth_upd_neq by exact NE. apply H6. exact P.
Qed.

(* histories: every request / output along the run of the first state acts through an unencrypted connection *)
Fixpoint unenc_hist (c : cfg) (st : srv_state) (ops : list srv_op) : Prop :=
  match ops with
  | [] => True
  | o :: t => unenc_act st o /\ unenc_hist c (fst (srv_step c st o)) t
  end.

Definition observe (c : cfg) (tr : list (srv_op * srv_out)) : list srv_out := map (fun x => obs c (fst x) (snd x)) tr.

(* non-interference: the same history on two stores that differ only in protected values gives identical
   responses, notifications and indications *)
Theorem run_ni c : forall ops st1 st2,
  low_eq c st1 st2 -> unenc_hist c st1 ops -> observe c (srv_run c st1 ops) = observe c (srv_run c st2 ops).
Proof.
  induction ops as [|o t IH]; intros st1 st2 L U; [reflexivity|]. destruct U as [U1 U2].
  destruct (step_ni c st1 st2 o L U1) as [L' R]. cbn [srv_run].
  destruct (srv_step c st1 o) as [s1 r1], (srv_step c st2 o) as [s2 r2]. cbn [fst snd] in *.
  unfold observe. cbn [map fst snd]. f_equal; [exact R|]. apply IH; assumption.
Qed.

(* ------------------------------------------------------------------ the rejection and its error code *)
Definition sec_code (k : conn) : N := if pairing k =? 0 then err_insufficient_authentication else err_insufficient_encryption.

Definition protected_attr (c : cfg) (a : attr) : bool :=
  match a with AValue s ch _ _ | ACccd s ch _ => char_requires_encryption c s ch | _ => false end.

(* every read access to a protected value or protected CCCD on an unencrypted link: no byte, nothing changed,
   Insufficient Authentication without a key, Insufficient Encryption with one *)
Theorem protected_read_refused c st cid k a i off maxlen st' rc d :
  get_conn st cid = Some k -> encrypted k = false -> protected_attr c a = true ->
  access_read c st cid a i off maxlen = Some (st', rc, d) ->
  st' = st /\ rc = Err (sec_code k) /\ d = [].
Proof.
  intros G E P. unfold access_read. rewrite G, E. unfold sec_code.
  destruct a as [s|u|s ch|s ch g cci|s ch cci|nm|u v]; cbn [protected_attr] in P; try discriminate.
  - unfold value_read, security_check. cbn [fst snd]. rewrite P. cbn [negb]. destruct (pairing k =? 0); intros H; inv H; auto.
  - unfold security_check. cbn [fst snd]. rewrite P. cbn [negb]. destruct (pairing k =? 0); intros H; inv H; auto.
Qed.

(* every write access (Write Request, Write Command, the probe of Prepare Write, Execute Write) likewise *)
Theorem protected_write_refused c st cid k a off data st' rc :
  get_conn st cid = Some k -> encrypted k = false -> protected_attr c a = true ->
  access_write c st cid a off data = Some (st', rc) ->
  st' = st /\ rc = Err (sec_code k).
Proof.
  intros G E P. unfold access_write. rewrite G, E. unfold sec_code.
  destruct a as [s|u|s ch|s ch g cci|s ch cci|nm|u v]; cbn [protected_attr] in P; try discriminate.
  - unfold value_write, security_check. cbn [fst snd]. rewrite P. cbn [negb]. destruct (pairing k =? 0); intros H; inv H; auto.
  - unfold security_check. cbn [fst snd]. rewrite P. cbn [negb]. destruct (pairing k =? 0); intros H; inv H; auto.
Qed.

(* ------------------------------------------------------------------ integrity *)
Definition same_prot (c : cfg) (st st' : srv_state) : Prop :=
  forall g, prot c g = true -> nth g (vals st') [] = nth g (vals st) [].

Lemma same_prot_refl c st : same_prot c st st.
Proof. intros g _. reflexivity. Qed.

Lemma same_prot_trans c a b d : same_prot c a b -> same_prot c b d -> same_prot c a d.
Proof. intros H1 H2 g P. rewrite (H2 g P). apply H1. exact P. Qed.

Lemma same_prot_vals c st st' : vals st' = vals st -> same_prot c st st'.
Proof. intros H g _. rewrite H. reflexivity. Qed.

Lemma access_write_prot c st cid k a off data st' rc :
  get_conn st cid = Some k -> encrypted k = false -> attr_ok c a ->
  access_write c st cid a off data = Some (st', rc) -> same_prot c st st'.
Proof.
  intros G E OK. unfold access_write. rewrite G, E.
  destruct a as [s|u|s ch|s ch g cci|s ch cci|nm|u v]; cbn [attr_ok] in OK; try (intros H; inv H; apply same_prot_refl).
  - intros H. apply some_inj in H. unfold value_write in H. cbn [fst snd] in H. pose proof (prot_of c s ch g OK) as P.
    unfold security_check in H. destruct (char_requires_encryption c s ch); cbn [negb] in H.
    + destruct (pairing k =? 0); inv H; apply same_prot_refl.
    + assert (X : forall m st0, vals st0 = vals st -> same_prot c st (set_vals st0 (upd (vals st0) g m))).
      { intros m st0 V g' P'. cbn [vals set_vals]. rewrite V. apply nth_upd_neq. intros ->. congruence. }
      destruct (c_value ch) as [size kc|size v|bytes|size hrd hwr blob]; try (inv H; apply same_prot_refl).
      * destruct (kc || c_no_write ch); [inv H; apply same_prot_refl|]. destruct (mem_write _ _ _). inv H. apply X. reflexivity.
      * destruct (negb hwr); [inv H; apply same_prot_refl|]. destruct (negb blob && _); [inv H; apply same_prot_refl|].
        destruct (mem_write _ _ _). inv H. exact (X _ (log_call st g _) eq_refl).
  - cbn [fst snd]. destruct (security_check _ _ _); try (intros H; inv H; apply same_prot_refl).
    unfold cccd_write. destruct (2 <? off); [intros H; inv H; apply same_prot_refl|]. destruct (2 <? _); [intros H; inv H; apply same_prot_refl|].
    destruct (off =? 0); intros H; inv H; apply same_prot_vals; reflexivity.
Qed.

Lemma execute_writes_prot c cid : forall elems st st' f,
  unenc st cid -> execute_writes c st cid elems = Some (st', f) -> same_prot c st st'.
Proof.
  induction elems as [|e t IH]; intros st st' f U H; cbn [execute_writes] in H.
  - mon. apply same_prot_refl.
  - mon. match goal with X : attribute_at _ _ = Some ?a, Y : access_write _ _ _ ?a _ _ = Some (?s1, ?rc) |- _ =>
      apply attribute_at_ok in X;
      assert (P1 : same_prot c st s1) by (destruct (get_conn st cid) as [k|] eqn:G;
        [eapply access_write_prot; eauto|unfold access_write in Y; rewrite G in Y; discriminate]);
      pose proof (access_write_unenc _ _ _ _ _ _ _ _ cid Y U) as U1; destruct rc end.
    + eapply same_prot_trans; [exact P1|]. eapply IH; eauto.
    + mon. exact P1.
    + mon. exact P1.
Qed.

(* a request through an unencrypted connection changes no protected value *)
Theorem att_input_integrity c st cid pdu n st' rs :
  unenc st cid -> att_input c st cid pdu n = Some (st', rs) -> same_prot c st st'.
Proof.
  intros U H.
  destruct (get_conn st cid) as [k|] eqn:G; [|unfold att_input in H; rewrite G in H; discriminate].
  destruct pdu as [|op t]; [unfold att_input in H; rewrite G in H; cbn in H; discriminate|].
  destruct (att_input_inv _ _ _ _ _ _ _ _ _ G H) as (Ho & b' & m & L & -> & D). clear H. pose proof (U k G) as E.
  set (b := repeat fill_byte (N.to_nat n)) in *. set (out_size := N.min n (negotiated_mtu c k)) in *. set (pdu := op :: t) in *.
  assert (WR : forall s1 r1, handle_write_request c st cid pdu b out_size = Some (s1, r1) -> same_prot c st s1).
  { unfold handle_write_request. intros s1 r1 HW. mon. destruct (len pdu <? 3); [mon; apply same_prot_refl|]. mon.
    destruct c0 as [f|[h i]]; mon; [apply same_prot_refl|].
    match goal with X : attribute_at _ _ = Some ?a, Y : access_write _ _ _ ?a _ _ = Some (_, ?rc) |- _ =>
      apply attribute_at_ok in X; pose proof (access_write_prot _ _ _ _ _ _ _ _ _ G E X Y) as P1; destruct rc; mon; exact P1 end. }
  destruct (op =? 1); [mon; apply same_prot_refl|].
  destruct (op =? 2).
  { unfold handle_exchange_mtu in D.
    repeat (mon; match type of D with (if ?x then _ else _) = Some _ => destruct x end); mon;
      first [apply same_prot_refl|apply same_prot_vals; reflexivity]. }
  destruct (op =? 4); [mon; apply same_prot_refl|].
  destruct (op =? 6); [mon; apply same_prot_refl|].
  destruct (op =? 8); [apply read_by_type_same in D; apply same_prot_vals; apply D|].
  destruct (op =? 10); [apply handle_read_same in D; apply same_prot_vals; apply D|].
  destruct (op =? 12); [apply handle_read_blob_same in D; apply same_prot_vals; apply D|].
  destruct (op =? 16); [mon; apply same_prot_refl|].
  destruct (op =? 14); [apply read_multiple_same in D; apply same_prot_vals; apply D|].
  destruct (op =? 18); [eapply WR; eauto|].
  destruct (op =? 82).
  { unfold handle_write_command in D. destruct (handle_write_request c st cid pdu b out_size) as [[s1 [b1 m1]]|] eqn:EW; [|discriminate].
    mon. eapply WR; eauto. }
  destruct (op =? 22).
  { apply same_prot_vals. eapply AttSrvProofsC07.prepare_never_changes_value; eauto. }
  destruct (op =? 24).
  { unfold handle_execute_write in D. mon. destruct (wqueue c); [|mon; apply same_prot_refl].
    destruct (negb (len pdu =? 2)); [mon; apply same_prot_refl|]. mon.
    match type of D with (if ?x then _ else _) = Some _ => destruct x end; [mon; apply same_prot_refl|]. mon.
    match goal with X : (if ?x then execute_writes c st cid (wq_elems st) else Some (st, None)) = Some (?s, ?o) |- _ =>
      assert (P1 : same_prot c st s) by (destruct x; [eapply execute_writes_prot; eauto|mon; apply same_prot_refl]);
      assert (P2 : same_prot c st (wq_free s cid))
        by (intros g P; unfold wq_free; destruct (wq_owner s); [destruct (Nat.eqb _ _)|]; cbn [vals set_wq]; apply P1; exact P);
      destruct o as [[h code]|]; mon; exact P2
    end. }
  destruct (op =? 30).
  { unfold handle_confirmation in D. mon. destruct (negb (len pdu =? 1)); mon; first [apply same_prot_refl|apply same_prot_vals; reflexivity]. }
  mon. apply same_prot_refl.
Qed.

(* ------------------------------------------------------------------ link security changes by sec / disc only *)
Definition all_unenc (st : srv_state) : Prop := forall cid, unenc st cid.

Lemma unenc_conns st st' cid : conns st' = conns st -> unenc st cid -> unenc st' cid.
Proof. intros H U k G. apply U. unfold get_conn in *. rewrite <- H. exact G. Qed.

Lemma unenc_set_conn st cid k0 k1 cid' :
  get_conn st cid = Some k0 -> encrypted k1 = encrypted k0 -> unenc st cid' -> unenc (set_conn st cid k1) cid'.
Proof.
  intros G E U k' G'. unfold get_conn, set_conn in G'. cbn [conns] in G'.
  destruct (Nat.eq_dec cid cid') as [<-|NE]; [|rewrite upd_nth_error_neq in G' by exact NE; apply U; exact G'].
  apply upd_nth_error_eq in G'. subst k'. rewrite E. apply U. exact G.
Qed.

Lemma execute_writes_unenc c cid cid' : forall elems st st' f,
  execute_writes c st cid elems = Some (st', f) -> unenc st cid' -> unenc st' cid'.
Proof.
  induction elems as [|e t IH]; intros st st' f H U; cbn [execute_writes] in H.
  - mon. exact U.
  - mon. match goal with Y : access_write _ _ _ _ _ _ = Some (_, ?rc) |- _ =>
      pose proof (access_write_unenc _ _ _ _ _ _ _ _ cid' Y U) as U1; destruct rc end.
    + eapply IH; eauto.
    + mon. exact U1.
    + mon. exact U1.
Qed.

Lemma att_input_keeps_unenc c st cid pdu n st' rs cid' :
  att_input c st cid pdu n = Some (st', rs) -> unenc st cid' -> unenc st' cid'.
Proof.
  intros H U.
  destruct (get_conn st cid) as [k|] eqn:G; [|unfold att_input in H; rewrite G in H; discriminate].
  destruct pdu as [|op t]; [unfold att_input in H; rewrite G in H; cbn in H; discriminate|].
  destruct (att_input_inv _ _ _ _ _ _ _ _ _ G H) as (Ho & b' & m & L & -> & D). clear H.
  set (b := repeat fill_byte (N.to_nat n)) in *. set (out_size := N.min n (negotiated_mtu c k)) in *. set (pdu := op :: t) in *.
  assert (WR : forall s1 r1, handle_write_request c st cid pdu b out_size = Some (s1, r1) -> unenc s1 cid').
  { unfold handle_write_request. intros s1 r1 HW. mon. destruct (len pdu <? 3); [mon; exact U|]. mon.
    destruct c0 as [f|[h i]]; mon; [exact U|].
    match goal with Y : access_write _ _ _ _ _ _ = Some (_, ?rc) |- _ =>
      pose proof (access_write_unenc _ _ _ _ _ _ _ _ cid' Y U) as U1; destruct rc; mon; exact U1 end. }
  destruct (op =? 1); [mon; exact U|].
  destruct (op =? 2).
  { unfold handle_exchange_mtu in D.
    repeat (mon; match type of D with (if ?x then _ else _) = Some _ => destruct x end); mon; try exact U.
    match goal with X : get_conn st cid = Some ?k0 |- _ => eapply (unenc_set_conn st cid k0); eauto end. }
  destruct (op =? 4); [mon; exact U|].
  destruct (op =? 6); [mon; exact U|].
  destruct (op =? 8); [apply read_by_type_same in D; eapply unenc_conns; [apply D|exact U]|].
  destruct (op =? 10); [apply handle_read_same in D; eapply unenc_conns; [apply D|exact U]|].
  destruct (op =? 12); [apply handle_read_blob_same in D; eapply unenc_conns; [apply D|exact U]|].
  destruct (op =? 16); [mon; exact U|].
  destruct (op =? 14); [apply read_multiple_same in D; eapply unenc_conns; [apply D|exact U]|].
  destruct (op =? 18); [eapply WR; eauto|].
  destruct (op =? 82).
  { unfold handle_write_command in D. destruct (handle_write_request c st cid pdu b out_size) as [[s1 [b1 m1]]|] eqn:EW; [|discriminate].
    mon. eapply WR; eauto. }
  destruct (op =? 22).
  { unfold handle_prepare_write in D. mon. destruct (wqueue c); [|mon; exact U]. destruct (len pdu <? 5); [mon; exact U|]. mon.
    destruct c0 as [f|[h i]]; mon; [exact U|]. unfold access_check_write in *.
    match goal with Y : access_write _ _ _ _ 0 [] = Some (_, ?rc) |- _ =>
      pose proof (access_write_unenc _ _ _ _ _ _ _ _ cid' Y U) as U1; destruct rc end; mon; try exact U1.
    unfold wq_allocate in D. destruct (_ || _) in D; mon; exact U1. }
  destruct (op =? 24).
  { unfold handle_execute_write in D. mon. destruct (wqueue c); [|mon; exact U].
    destruct (negb (len pdu =? 2)); [mon; exact U|]. mon.
    match type of D with (if ?x then _ else _) = Some _ => destruct x end; [mon; exact U|]. mon.
    match goal with X : (if ?x then execute_writes c st cid (wq_elems st) else Some (st, None)) = Some (?s, ?o) |- _ =>
      assert (U1 : unenc s cid') by (destruct x; [eapply execute_writes_unenc; eauto|mon; exact U]);
      assert (U2 : unenc (wq_free s cid) cid')
        by (eapply unenc_conns; [|exact U1]; unfold wq_free; destruct (wq_owner s); [destruct (Nat.eqb _ _)|]; reflexivity);
      destruct o as [[h code]|]; mon; exact U2
    end. }
  destruct (op =? 30).
  { unfold handle_confirmation in D. mon. destruct (negb (len pdu =? 1)); mon; try exact U.
    match goal with X : get_conn st cid = Some ?k0 |- _ => eapply (unenc_set_conn st cid k0); eauto using nq_step_encrypted end. }
  mon. exact U.
Qed.

Lemma unsent_indication_unenc st cid kd cid' : unenc st cid' -> unenc (unsent_indication st cid kd) cid'.
Proof.
  intros U. unfold unsent_indication. destruct kd; [exact U|]. destruct (get_conn st cid) as [k|] eqn:G; [|exact U].
  eapply unenc_set_conn; eauto using nq_step_encrypted.
Qed.

Lemma att_output_keeps_unenc c st cid n st' rs cid' :
  att_output c st cid n = Some (st', rs) -> unenc st cid' -> unenc st' cid'.
Proof.
  intros H U. unfold att_output in H. destruct (get_conn st cid) as [k|] eqn:G; [|discriminate]. cbv zeta in H.
  pose proof (nq_step_encrypted k Dequeue) as NE. destruct (nq_step k Dequeue) as [k1 r]. cbn [fst] in NE.
  assert (U1 : unenc (set_conn st cid k1) cid') by (eapply unenc_set_conn; eauto).
  destruct r; try (mon; exact U1).
  match type of H with match ?e with Some _ => _ | None => _ end = _ => destruct e as [[kd i]|] end; [|mon; exact U1].
  destruct (find_notification_data_by_index c (N.of_nat i)) as [ai ci].
  match type of H with (if ?x then _ else _) = _ => destruct x end; [|mon; apply unsent_indication_unenc; exact U1].
  mon. match goal with X : access_read _ _ _ _ _ _ _ = Some (?s2, ?rc, _) |- _ =>
    apply access_read_same in X; assert (U2 : unenc s2 cid') by (eapply unenc_conns; [apply X|exact U1]); destruct rc end;
    mon; try apply unsent_indication_unenc; exact U2.
Qed.

Lemma queue_all_encrypted o : forall l l' rs, queue_all l o = (l', rs) -> map encrypted l' = map encrypted l.
Proof.
  induction l as [|k t IH]; intros l' rs H; cbn [queue_all] in H; [inv H; reflexivity|].
  pose proof (nq_step_encrypted k o) as NE. destruct (nq_step k o) as [k' r]. cbn [fst] in NE.
  destruct (queue_all t o) as [t' rs'] eqn:E. inv H. cbn [map]. rewrite NE, (IH _ _ eq_refl). reflexivity.
Qed.

Lemma all_unenc_map st : all_unenc st <-> Forall (fun k => encrypted k = false) (conns st).
Proof.
  unfold all_unenc, unenc, get_conn. rewrite Forall_forall. split.
  - intros H k Hin. apply In_nth_error in Hin. destruct Hin as [i Hi]. eapply H; eauto.
  - intros H cid k G. apply H. eapply nth_error_In; eauto.
Qed.

(* operations that do not switch encryption on *)
Definition no_enc_on (o : srv_op) : bool := match o with OpSec _ e _ => negb e | _ => true end.

Lemma step_keeps_all_unenc c st o : all_unenc st -> no_enc_on o = true -> all_unenc (fst (srv_step c st o)).
Proof.
  intros A NE. destruct o as [cid pdu n|cid n|cid e p|cid|by_uuid kd g|g|g data]; cbn [srv_step].
  - destruct (att_input c st cid pdu n) as [[st' rs]|] eqn:E; [|exact A]. intros cid'. eapply att_input_keeps_unenc; eauto.
  - destruct (att_output c st cid n) as [[st' rs]|] eqn:E; [|exact A]. intros cid'. eapply att_output_keeps_unenc; eauto.
  - cbn [no_enc_on] in NE. apply negb_true_iff in NE. subst e. destruct (get_conn st cid) as [k|] eqn:G; [|exact A].
    intros cid'. cbn [fst]. eapply unenc_set_conn; eauto. cbn. symmetry. apply (A cid k G).
  - cbn [fst]. intros cid' k' G'. unfold get_conn, set_conn in G'. cbn [conns] in G'.
    destruct (Nat.eq_dec cid cid') as [<-|NEq].
    + apply upd_nth_error_eq in G'. subst k'. reflexivity.
    + rewrite upd_nth_error_neq in G' by exact NEq.
      assert (X : conns (wq_free st cid) = conns st) by (unfold wq_free; destruct (wq_owner st); [destruct (Nat.eqb _ _)|]; reflexivity).
      rewrite X in G'. eapply A; eauto.
  - assert (RQ : forall d, all_unenc (fst (request st kd d))).
    { intros d. unfold request. destruct (queue_all (conns st) _) as [l rs] eqn:E. cbn [fst]. apply queue_all_encrypted in E.
      apply all_unenc_map. cbn [conns]. apply all_unenc_map in A. rewrite Forall_forall in *. intros k Hin.
      apply (in_map encrypted) in Hin. rewrite E in Hin. apply in_map_iff in Hin. destruct Hin as (k0 & Hk & Hin0). rewrite <- Hk. apply A. exact Hin0. }
    destruct by_uuid.
    + destruct (by_uuid_available c kd g); [|exact A]. unfold notify_by_uuid.
      destruct (nth_error (all_chars c) g) as [x|]; [|exact A]. destruct (find_notification_by_uuid c _) as [d|]; [|exact A].
      specialize (RQ d). destruct (request st kd d). exact RQ.
    + destruct (by_value_available c g); [|exact A]. unfold notify_by_value. destruct (find_notification_data c g) as [d|]; [|exact A].
      specialize (RQ d). destruct (request st kd d). exact RQ.
  - destruct (has_var c g) as [[w h]|]; exact A.
  - destruct (has_var c g) as [[[|] h]|]; exact A.
Qed.

Lemma never_encrypted_hist c : forall ops st, all_unenc st -> forallb no_enc_on ops = true -> unenc_hist c st ops.
Proof.
  induction ops as [|o t IH]; intros st A H; [exact I|]. cbn [forallb] in H. apply andb_true_iff in H. destruct H as [H1 H2].
  cbn [unenc_hist]. split.
  - destruct o; cbn [unenc_act]; auto.
  - apply IH; [apply step_keeps_all_unenc; assumption|exact H2].
Qed.

Lemma init_all_unenc c : all_unenc (srv_init c).
Proof. apply all_unenc_map. cbn [srv_init conns]. unfold n_conns. cbn [repeat]. repeat constructor. Qed.

(* the property as stated: histories in which no link is ever encrypted, from the initial state with two value
   stores that differ only in protected values *)
Theorem run_ni_never_encrypted c v1 v2 ops :
  low_eq c (set_vals (srv_init c) v1) (set_vals (srv_init c) v2) -> forallb no_enc_on ops = true ->
  observe c (srv_run c (set_vals (srv_init c) v1) ops) = observe c (srv_run c (set_vals (srv_init c) v2) ops).
Proof.
  intros L H. apply run_ni; [exact L|]. apply never_encrypted_hist; [|exact H].
  intros cid. eapply unenc_conns; [|apply init_all_unenc]. reflexivity.
Qed.
