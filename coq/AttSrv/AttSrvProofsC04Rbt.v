(* C04 clause reported_handle for the model, Read By Type: every entry of a Read By Type Response names the
   assigned handle of an attribute of the requested type, and for a declaration (service, characteristic)
   the entry's value is the declaration value C04 specifies (AttDbSpec.check_discovery). Shown for output
   sizes up to 513: up to 257 the 8 bit size counter of collect_attributes cannot cut the list; up to 513 it
   drops exactly 256 bytes, and because 257 is prime the cut never leaves a single byte of an entry (the
   clause judges a cut entry on its handle and the prefix of its value). Above 513 the statement is false in
   general: after a loss of 512 bytes, entries of 3, 9, 19, 27, 57 or 171 bytes (divisors of 513) end in one byte.
   Also: requests of the four discovery opcodes that are refused get Error Responses, so that the clause
   holds for every request. Built on the collector invariant of AttSrvProofsC02.v (col_inv, seg). *)
From Coq Require Import Lia ZifyBool.
From BT Require Import Base.ListX AttDb.AttDbModel AttDb.AttDbSpec AttDb.AttDbProofs NQueue.NQueueModel
  AttSrv.AttSrvModel AttSrv.AttSrvSpecC02.
From BT Require AttSrv.AttSrvProofsC01 AttSrv.AttSrvProofsC02 AttSrv.AttSrvProofsC03 AttSrv.AttSrvNoFault
  AttSrv.AttSrvProofsVal AttSrv.AttSrvProofsC04 AttSrv.AttSrvProofsC04Disc.
Module P1 := AttSrv.AttSrvProofsC01.
Module C2 := AttSrv.AttSrvProofsC02.
Module C3 := AttSrv.AttSrvProofsC03.
Module NF := AttSrv.AttSrvNoFault.
Module PV := AttSrv.AttSrvProofsVal.
Module P4 := AttSrv.AttSrvProofsC04.
Module D := AttSrv.AttSrvProofsC04Disc.
Local Open Scope N_scope.

Ltac nlia := zify; Z.to_euclidean_division_equations; lia.

(* ------------------------------------------------------------------ prefixes and byte comparisons *)
Lemma is_prefix_firstn k : forall l, is_prefix (firstn k l) l = true.
Proof.
  unfold is_prefix. induction k as [|k IH]; intros l; destruct l as [|x t]; cbn [firstn length listN_eqb]; try reflexivity.
  rewrite N.eqb_refl. cbn [andb]. apply IH.
Qed.

Lemma listN_bytes_eqb l : forall m, listN_eqb l m = bytes_eqb l m.
Proof. reflexivity. Qed.

Lemma mem_read_prefix mem mx d : mem_read mem 0 mx = (Success, d) -> is_prefix d mem = true.
Proof.
  unfold mem_read. destruct (len mem <? 0); [discriminate|]. intros H. apply P1.pair_inj in H. destruct H as [_ <-].
  unfold takeN, dropN. cbn [N.to_nat skipn]. apply is_prefix_firstn.
Qed.

Lemma is_prefix_cut d : forall v j, is_prefix d v = true -> is_prefix (firstn j d) v = true.
Proof.
  unfold is_prefix. induction d as [|a d IH]; intros v j H; destruct j as [|j]; cbn [firstn length listN_eqb]; try reflexivity.
  cbn [length firstn] in H. destruct v as [|n v]; [discriminate H|]. cbn [firstn listN_eqb] in H |- *.
  apply andb_true_iff in H. destruct H as [H1 H2]. rewrite H1. cbn [andb]. apply IH. exact H2.
Qed.

Lemma rh_chunks_nil fuel n : rh_chunks fuel n [] = [].
Proof. destruct fuel; reflexivity. Qed.

Lemma rh_chunks_cons fuel n (L : list N) : L <> [] -> rh_chunks (S fuel) n L = firstn n L :: rh_chunks fuel n (skipn n L).
Proof. destruct L; [contradiction|reflexivity]. Qed.

(* the chunks of a cut list of equally long entries: whole entries, and possibly the head of one more *)
Lemma chunks_cut (E : list (N * list N)) (l : nat) :
  (2 <= l)%nat -> (forall x, In x E -> length (C2.ebytes x) = l) ->
  forall fuel m e, In e (rh_chunks fuel l (firstn m (flat_map C2.ebytes E))) ->
  exists x, In x E /\ (e = C2.ebytes x \/
     exists k j, (m = k * l + j /\ 0 < j < l /\ m < length (flat_map C2.ebytes E))%nat /\ e = firstn j (C2.ebytes x)).
Proof.
  intros L2 HL. induction E as [|x t IH]; intros fuel m e Hin.
  - cbn [flat_map] in Hin. rewrite firstn_nil, rh_chunks_nil in Hin. destruct Hin.
  - pose proof (HL x (or_introl eq_refl)) as Lx.
    destruct fuel as [|fuel]; [destruct Hin|]. cbn [flat_map] in Hin |- *.
    destruct (Nat.lt_ge_cases m l) as [Hm|Hm].
    + assert (F : firstn m (C2.ebytes x ++ flat_map C2.ebytes t) = firstn m (C2.ebytes x)).
      { rewrite firstn_app. replace (m - length (C2.ebytes x))%nat with 0%nat by lia. cbn [firstn]. apply app_nil_r. }
      rewrite F in Hin. destruct (firstn m (C2.ebytes x)) as [|a0 L0] eqn:EL; [destruct Hin|].
      rewrite rh_chunks_cons in Hin by discriminate. rewrite <- EL in Hin.
      assert (Lf : length (firstn m (C2.ebytes x)) = m) by (rewrite firstn_length; lia).
      rewrite firstn_all2 in Hin by lia. rewrite skipn_all2 in Hin by lia. rewrite rh_chunks_nil in Hin.
      destruct Hin as [<-|[]]. exists x. split; [left; reflexivity|]. right. exists 0%nat, m.
      split; [|reflexivity]. rewrite app_length. split; [lia|]. split; [|lia].
      destruct m; [rewrite firstn_O in EL; discriminate EL|lia].
    + assert (F : firstn m (C2.ebytes x ++ flat_map C2.ebytes t) = C2.ebytes x ++ firstn (m - l) (flat_map C2.ebytes t)).
      { rewrite firstn_app, Lx. rewrite firstn_all2 by lia. reflexivity. }
      rewrite F in Hin. rewrite rh_chunks_cons in Hin.
      2:{ destruct (C2.ebytes x); [cbn [length] in Lx; lia|discriminate]. }
      assert (F1 : firstn l (C2.ebytes x ++ firstn (m - l) (flat_map C2.ebytes t)) = C2.ebytes x).
      { rewrite firstn_app, firstn_all2 by lia. replace (l - length (C2.ebytes x))%nat with O by lia. cbn [firstn]. apply app_nil_r. }
      assert (F2 : skipn l (C2.ebytes x ++ firstn (m - l) (flat_map C2.ebytes t)) = firstn (m - l) (flat_map C2.ebytes t)).
      { rewrite skipn_app, skipn_all2 by lia. replace (l - length (C2.ebytes x))%nat with O by lia. reflexivity. }
      rewrite F1, F2 in Hin. destruct Hin as [<-|Hin]; [exists x; split; [left; reflexivity|left; reflexivity]|].
      destruct (IH (fun y Hy => HL y (or_intror Hy)) fuel (m - l)%nat e Hin) as (y & Hy & [->|(k & j & (A1 & A2 & A3) & ->)]).
      * exists y. split; [right; exact Hy|left; reflexivity].
      * exists y. split; [right; exact Hy|]. right. exists (S k), j. split; [|reflexivity].
        rewrite app_length. split; [lia|]. split; lia.
Qed.

Lemma flat_map_length_const (E : list (N * list N)) (l : nat) :
  (forall x, In x E -> length (C2.ebytes x) = l) -> length (flat_map C2.ebytes E) = (length E * l)%nat.
Proof.
  induction E as [|x t IH]; intros H; [reflexivity|]. cbn [flat_map length]. rewrite app_length, (H x (or_introl eq_refl)).
  rewrite IH by (intros y Hy; apply H; right; exact Hy). lia.
Qed.

(* 257 is prime: a list of entries of 2 .. 255 bytes that loses exactly 256 bytes does not end one byte into an entry *)
Lemma tail_not_one (l n k : nat) : (2 <= l <= 255)%nat -> (256 <= n * l)%nat -> (n * l - 256 = k * l + 1)%nat -> False.
Proof.
  intros Hl Hn H. assert (X : (257 = (n - k) * l)%nat) by (rewrite Nat.mul_sub_distr_r; lia).
  assert (M : (257 mod l = 0)%nat) by (rewrite X; apply Nat.mod_mul; lia).
  assert (T : forallb (fun d => negb (257 mod d =? 0)%nat) (seq 2 254) = true) by (vm_compute; reflexivity).
  rewrite forallb_forall in T. specialize (T l ltac:(apply in_seq; lia)). rewrite M in T. discriminate T.
Qed.

(* ------------------------------------------------------------------ the filter and the type on the air *)
Lemma filter16_type p q a : p < 256 -> q < 256 ->
  uuid_filter_match (F16 (w16 p q)) a = true -> attr_type_bytes a = [p; q].
Proof.
  intros Hp Hq H. unfold uuid_filter_match in H. apply andb_true_iff in H. destruct H as [H1 H2].
  apply N.eqb_eq in H1. apply negb_true_iff in H2. apply N.eqb_neq in H2. unfold w16 in H1.
  assert (X : lo_hi (p + 256 * q) = [p; q]).
  { unfold lo_hi. f_equal; [nlia|]. f_equal. nlia. }
  destruct a; cbn [attr_type_bytes]; try (rewrite <- H1; exact X).
  cbn [attr_uuid] in H1, H2. destruct (c_uuid c) as [v|bs]; [|exfalso; apply H2; reflexivity].
  cbn [uuid_bytes]. subst v. exact X.
Qed.

Lemma filter128_type bytes a : uuid_filter_match (F128 bytes) a = true -> attr_type_bytes a = bytes.
Proof.
  unfold uuid_filter_match. destruct a; try discriminate. cbn [attr_type_bytes].
  destruct (c_uuid c) as [v|bs]; [discriminate|]. intros H. apply C3.bytes_eqb_eq in H. subst bs. reflexivity.
Qed.

Lemma filter_type a0 a1 x0 x1 tyb f a :
  Forall (fun x => x < 256) tyb ->
  (len (8 :: a0 :: a1 :: x0 :: x1 :: tyb) = 7 \/ len (8 :: a0 :: a1 :: x0 :: x1 :: tyb) = 21) ->
  make_uuid_filter (8 :: a0 :: a1 :: x0 :: x1 :: tyb) (len (8 :: a0 :: a1 :: x0 :: x1 :: tyb) =? 21) = Some f ->
  uuid_filter_match f a = true ->
  listN_eqb (attr_type_bytes a) (norm_type tyb) = true.
Proof.
  intros Hb [L|L] Hf Hm.
  - assert (L' : length tyb = 2%nat) by (unfold len in L; cbn [length] in L; lia).
    destruct tyb as [|p [|q [|]]]; try discriminate L'.
    change (make_uuid_filter [8; a0; a1; x0; x1; p; q] (len [8; a0; a1; x0; x1; p; q] =? 21)) with (Some (F16 (w16 p q))) in Hf.
    apply P1.some_inj in Hf. subst f.
    inversion Hb as [|? ? Hp Hb1]; subst. inversion Hb1 as [|? ? Hq _]; subst.
    rewrite (filter16_type p q a Hp Hq Hm). change (norm_type [p; q]) with [p; q]. apply D.listN_eqb_refl.
  - assert (L' : length tyb = 16%nat) by (unfold len in L; cbn [length] in L; lia).
    do 16 (destruct tyb as [|? tyb]; [discriminate L'|]). destruct tyb; [|discriminate L'].
    unfold make_uuid_filter in Hf.
    change (len [8; a0; a1; x0; x1; n; n0; n1; n2; n3; n4; n5; n6; n7; n8; n9; n10; n11; n12; n13; n14] =? 21) with true in Hf. cbv iota in Hf.
    change (slice [8; a0; a1; x0; x1; n; n0; n1; n2; n3; n4; n5; n6; n7; n8; n9; n10; n11; n12; n13; n14] 5 21)
      with (Some [n; n0; n1; n2; n3; n4; n5; n6; n7; n8; n9; n10; n11; n12; n13; n14]) in Hf.
    cbv beta iota in Hf.
    change (takeN 12 [n; n0; n1; n2; n3; n4; n5; n6; n7; n8; n9; n10; n11; n12; n13; n14]) with [n; n0; n1; n2; n3; n4; n5; n6; n7; n8; n9; n10] in Hf.
    cbn [nth] in Hf.
    unfold norm_type. cbn [length Nat.eqb firstn nth andb]. change base_uuid_tail with base_uuid_prefix.
    change (bytes_eqb [n; n0; n1; n2; n3; n4; n5; n6; n7; n8; n9; n10] base_uuid_prefix) with (listN_eqb [n; n0; n1; n2; n3; n4; n5; n6; n7; n8; n9; n10] base_uuid_prefix) in Hf.
    destruct (listN_eqb [n; n0; n1; n2; n3; n4; n5; n6; n7; n8; n9; n10] base_uuid_prefix && (n13 =? 0) && (n14 =? 0)).
    + change (rd16 [8; a0; a1; x0; x1; n; n0; n1; n2; n3; n4; n5; n6; n7; n8; n9; n10; n11; n12; n13; n14] 17) with (Some (n11 + 256 * n12)) in Hf.
      apply P1.some_inj in Hf. subst f.
      assert (Hp : n11 < 256 /\ n12 < 256).
      { rewrite Forall_forall in Hb. split; apply Hb; cbn [In]; tauto. }
      destruct Hp as [Hp Hq]. rewrite (filter16_type n11 n12 a Hp Hq Hm). apply D.listN_eqb_refl.
    + apply P1.some_inj in Hf. subst f. rewrite (filter128_type _ a Hm). apply D.listN_eqb_refl.
Qed.

(* ------------------------------------------------------------------ what an entry has to look like *)
Definition entry_ok (c : cfg) (ty : list N) (x : N * list N) : Prop :=
  fst x < 65536 /\
  exists i a, attr_at_handle c (fst x) = Some (i, a) /\ listN_eqb (attr_type_bytes a) ty = true /\
    match a with
    | AService s => is_prefix (snd x) (uuid_bytes (s_uuid s)) = true
    | ACharDecl _ _ | AInclude _ => exists v, expected_value c i = Some v /\ is_prefix (snd x) v = true
    | _ => True
    end.

Lemma erase_type_bytes a : attr_type_bytes (C2.erase a) = attr_type_bytes a.
Proof. destruct a; reflexivity. Qed.

Section Cfg.
  Variable c : cfg.
  Hypothesis Hw : wf c.
  Hypothesis Hn : no_includes c.

  Lemma includes_absent index u : attribute_at c index = Some (AInclude u) -> False.
  Proof.
    intros HA. pose proof (C2.attribute_at_decl c index) as X. rewrite HA in X. cbn [option_map C2.erase] in X.
    symmetry in X. apply nth_error_In in X. unfold decl_attrs in X. apply in_flat_map in X. destruct X as (s & Hs & X).
    unfold no_includes, no_includes_b in Hn. rewrite forallb_forall in Hn. specialize (Hn s Hs).
    unfold svc_decl_attrs in X. destruct (s_includes s) as [|i0 it]; [|discriminate Hn].
    cbn [map app] in X. destruct X as [X|X]; [discriminate X|].
    apply in_flat_map in X. destruct X as (ch & _ & X). unfold char_attrs, char_tail_attrs in X.
    destruct X as [X|X]; [discriminate X|]. destruct X as [X|X]; [discriminate X|].
    apply in_app_or in X. destruct X as [X|X].
    { destruct (has_cccd ch); [destruct X as [X|[]]; discriminate X|destruct X]. }
    apply in_app_or in X. destruct X as [X|X].
    { destruct (c_name ch); [destruct X as [X|[]]; discriminate X|destruct X]. }
    apply in_map_iff in X. destruct X as (dd & X & _). discriminate X.
  Qed.

  Lemma entry_ok_read st cid a index mx st1 d ty :
    attribute_at c index = Some a ->
    access_read c st cid a index 0 mx = Some (st1, Success, d) ->
    listN_eqb (attr_type_bytes a) ty = true ->
    entry_ok c ty (handle_by_index c index, d).
  Proof.
    intros HA HR HT. pose proof (NF.attribute_at_lt c index a HA) as Lt.
    pose proof (assign_length c Hw Hn) as AL.
    rewrite (handle_by_index_nth c index Hw Hn Lt). unfold entry_ok. cbn [fst snd].
    split; [apply (C2.assign_upper c _ Hw Hn); apply nth_In; lia|].
    pose proof (C2.attribute_at_decl c index) as X. rewrite HA in X. cbn [option_map] in X.
    exists (N.to_nat index), (C2.erase a). split; [|split].
    - unfold attr_at_handle. rewrite (index_eq_nth 0 (assign c) (N.to_nat index) 0 (assign_increasing c)) by lia.
      pose proof (wf_attr_bound c Hw) as Hb.
      replace (0 + N.of_nat (N.to_nat index) =? invalid_index) with false by (symmetry; apply N.eqb_neq; unfold invalid_index; lia).
      replace (N.to_nat (0 + N.of_nat (N.to_nat index))) with (N.to_nat index) by lia.
      rewrite <- X. reflexivity.
    - rewrite erase_type_bytes. exact HT.
    - unfold access_read in HR. destruct (get_conn st cid) as [k|]; [|discriminate HR]. cbv zeta in HR.
      destruct a; cbn [C2.erase]; try exact I.
      + destruct (mem_read (uuid_bytes (s_uuid s)) 0 mx) as [r dd] eqn:EM. apply P1.some_inj in HR.
        apply P1.pair_inj in HR. destruct HR as [HR ->]. apply P1.pair_inj in HR. destruct HR as [_ ->].
        exact (mem_read_prefix _ _ _ EM).
      + exfalso. exact (includes_absent index u HA).
      + destruct (P4.char_decl_value_spec c index s c0 Hw Hn HA) as [V _]. rewrite V in HR.
        match type of HR with context [mem_read ?v 0 mx] => destruct (mem_read v 0 mx) as [r dd] eqn:EM end.
        apply P1.some_inj in HR. apply P1.pair_inj in HR. destruct HR as [HR ->]. apply P1.pair_inj in HR. destruct HR as [_ ->].
        eexists. split; [|exact (mem_read_prefix _ _ _ EM)].
        unfold expected_value. rewrite <- X. cbn [C2.erase].
        replace (S (N.to_nat index)) with (N.to_nat (index + 1)) by lia. reflexivity.
  Qed.

  (* ---------------------------------------------------------------- the collector *)
  Lemma collect_attribute_tied st cid k e index a st' k' E :
    collect_attribute c st cid k e index a = Some (st', k') ->
    C2.col_inv k E -> co_cur k <= e -> e <= len (co_buf k) ->
    co_cur k' <= e /\ len (co_buf k') = len (co_buf k)
    /\ (C2.col_inv k' E \/ exists st1 d mx, access_read c st cid a index 0 mx = Some (st1, Success, d)
                                          /\ C2.col_inv k' (E ++ [(handle_by_index c index, d)])).
  Proof.
    intros H Hinv Hc He.
    assert (Hsame : co_cur k <= e /\ len (co_buf k) = len (co_buf k)
                    /\ (C2.col_inv k E \/ exists st1 d mx, access_read c st cid a index 0 mx = Some (st1, Success, d)
                                          /\ C2.col_inv k (E ++ [(handle_by_index c index, d)]))) by (repeat split; auto).
    destruct Hinv as (I1 & I2 & I3 & I4 & I5). unfold collect_attribute in H.
    destruct (2 <=? e - co_cur k) eqn:E2; [|inversion H; subst; exact Hsame].
    cbv zeta in H. destruct (access_read c st cid a index 0 _) as [[[st1 rc] d]|] eqn:Ea; [|discriminate].
    destruct rc; [|inversion H; subst; exact Hsame|inversion H; subst; exact Hsame].
    destruct (253 <? len d) eqn:E253; [discriminate|].
    pose proof (P1.access_read_len _ _ _ _ _ _ _ _ _ _ Ea) as Hd.
    destruct (put (co_buf k) (co_cur k + 2) d) as [b1|] eqn:Q1; [|discriminate].
    pose proof (C2.put_length _ _ _ _ Q1) as L1. pose proof (C2.put_bound _ _ _ _ Q1) as B1.
    assert (Hmod : (len d + 2) mod 256 = len d + 2) by (apply N.mod_small; lia).
    assert (Hmod' : len d mod 256 = len d) by (apply N.mod_small; lia).
    destruct (len d + 2 =? (if co_first k then (len d + 2) mod 256 else co_size k)) eqn:Es.
    - destruct (put b1 (co_cur k) (le16 (handle_by_index c index))) as [b2|] eqn:Q2; [|discriminate].
      inversion H; subst st' k'; clear H. cbn [co_cur co_buf co_first co_size].
      pose proof (C2.put_length _ _ _ _ Q2) as L2. rewrite Hmod'.
      split; [lia|]. split; [lia|]. right. exists st1, d. eexists. split; [exact Ea|].
      unfold C2.col_inv. cbn [co_cur co_buf co_first co_size].
      split; [lia|]. split; [|split; [intros X; discriminate X|split]].
      + rewrite flat_map_app. cbn [flat_map]. rewrite app_nil_r. unfold C2.ebytes at 2. cbn [fst snd].
        rewrite (C2.seg_app 2 (co_cur k)) by lia. rewrite (C2.seg_app (co_cur k) (co_cur k + 2)) by lia.
        rewrite (C2.seg_put_other _ _ _ _ 2 (co_cur k) Q2) by lia.
        rewrite (C2.seg_put_other _ _ _ _ 2 (co_cur k) Q1) by lia. rewrite I2. f_equal.
        replace (co_cur k + 2) with (co_cur k + len (le16 (handle_by_index c index))) at 1 by (rewrite C2.le16_len; lia).
        rewrite (C2.seg_put_self _ _ _ _ Q2). f_equal.
        rewrite (C2.seg_put_other _ _ _ _ (co_cur k + 2) (co_cur k + 2 + len d) Q2) by (rewrite C2.le16_len; lia).
        apply (C2.seg_put_self _ _ _ _ Q1).
      + intros _. split; [destruct E; discriminate|].
        destruct (co_first k) eqn:Ef; [rewrite Hmod; lia|]. destruct (I4 eq_refl). lia.
      + intros x Hx. apply in_app_or in Hx. destruct Hx as [Hx|[<-|[]]].
        * rewrite (I5 x Hx). destruct (co_first k) eqn:Ef; [rewrite (I3 eq_refl) in Hx; destruct Hx|reflexivity].
        * cbn [snd]. destruct (co_first k); [rewrite Hmod; reflexivity|lia].
    - inversion H; subst st' k'; clear H. cbn [co_cur co_buf].
      split; [lia|]. split; [lia|]. left. unfold C2.col_inv. cbn [co_cur co_buf co_first co_size].
      assert (Hnf : co_first k = false) by (destruct (co_first k); [lia|reflexivity]). rewrite Hnf in *.
      destruct (I4 eq_refl) as [X Y].
      split; [lia|]. split; [|split; [intros Z; discriminate Z|split; [intros _; split; assumption|exact I5]]].
      rewrite (C2.seg_put_other _ _ _ _ 2 (co_cur k) Q1) by lia. exact I2.
  Qed.

  Lemma all_attributes_entries cid f e last eh ty :
    (forall a, uuid_filter_match f a = true -> listN_eqb (attr_type_bytes a) ty = true) ->
    forall fuel st col index st' col' E,
    all_attributes fuel c st cid f col e index last eh = Some (st', col') ->
    C2.col_inv col E -> co_cur col <= e -> e <= len (co_buf col) -> Forall (entry_ok c ty) E ->
    co_cur col' <= e /\ len (co_buf col') = len (co_buf col) /\
    exists E', C2.col_inv col' E' /\ Forall (entry_ok c ty) E'.
  Proof.
    intros HF. induction fuel as [|n IH]; intros st col index st' col' E H Hinv Hc He HG; cbn [all_attributes] in H.
    - inversion H; subst. repeat split; auto. exists E. split; assumption.
    - destruct ((index <=? last) && (handle_by_index c index <=? eh)).
      2:{ inversion H; subst. repeat split; auto. exists E. split; assumption. }
      destruct (attribute_at c index) as [a|] eqn:HA; [|discriminate].
      destruct (uuid_filter_match f a) eqn:EM; [|eapply IH; eauto].
      destruct (collect_attribute c st cid col e index a) as [[st1 col1]|] eqn:EC; [|discriminate].
      destruct (collect_attribute_tied st cid col e index a st1 col1 E EC Hinv Hc He) as (A & B & [C|(st2 & d & mx & R & C)]).
      + destruct (IH st1 col1 (index + 1) st' col' E H C A ltac:(lia) HG) as (A2 & B2 & X). repeat split; auto. lia.
      + assert (G1 : Forall (entry_ok c ty) (E ++ [(handle_by_index c index, d)])).
        { apply Forall_app. split; [exact HG|]. constructor; [|constructor].
          exact (entry_ok_read st cid a index mx st2 d ty HA R (HF a EM)). }
        destruct (IH st1 col1 (index + 1) st' col' _ H C A ltac:(lia) G1) as (A2 & B2 & X). repeat split; auto. lia.
  Qed.

  (* ---------------------------------------------------------------- the entries under the monitor's clause *)
  Lemma entry_clause ty x : entry_ok c ty x ->
    ((2 <=? length (C2.ebytes x))%nat &&
     match attr_at_handle c (rh_w16 (C2.ebytes x) 0) with
     | Some (i, a) =>
         listN_eqb (attr_type_bytes a) ty &&
         match a with
         | AService s => is_prefix (skipn 2 (C2.ebytes x)) (uuid_bytes (s_uuid s))
         | ACharDecl _ _ | AInclude _ =>
             match expected_value c i with Some v => is_prefix (skipn 2 (C2.ebytes x)) v | None => false end
         | _ => true
         end
     | None => false
     end) = true.
  Proof.
    intros (Lt & i & a & HA & HT & HV). unfold C2.ebytes. rewrite (D.rh_w16_le16 _ _ Lt). rewrite HA, HT.
    change (skipn 2 (le16 (fst x) ++ snd x)) with (snd x). cbn [andb].
    replace (2 <=? length (le16 (fst x) ++ snd x))%nat with true by (symmetry; apply Nat.leb_le; rewrite app_length; cbn [le16 length]; lia).
    cbn [andb]. destruct a; try reflexivity; try exact HV.
    - destruct HV as (v & -> & P). exact P.
    - destruct HV as (v & -> & P). exact P.
  Qed.
  Lemma entry_clause_cut ty x j : entry_ok c ty x -> (2 <= j)%nat ->
    ((2 <=? length (firstn j (C2.ebytes x)))%nat &&
     match attr_at_handle c (rh_w16 (firstn j (C2.ebytes x)) 0) with
     | Some (i, a) =>
         listN_eqb (attr_type_bytes a) ty &&
         match a with
         | AService s => is_prefix (skipn 2 (firstn j (C2.ebytes x))) (uuid_bytes (s_uuid s))
         | ACharDecl _ _ | AInclude _ =>
             match expected_value c i with Some v => is_prefix (skipn 2 (firstn j (C2.ebytes x))) v | None => false end
         | _ => true
         end
     | None => false
     end) = true.
  Proof.
    intros (Lt & i & a & HA & HT & HV) Hj. destruct j as [|[|j]]; try lia.
    unfold C2.ebytes. change (firstn (S (S j)) (le16 (fst x) ++ snd x)) with (le16 (fst x) ++ firstn j (snd x)).
    rewrite (D.rh_w16_le16 _ _ Lt). rewrite HA, HT.
    change (skipn 2 (le16 (fst x) ++ firstn j (snd x))) with (firstn j (snd x)). cbn [andb].
    replace (2 <=? length (le16 (fst x) ++ firstn j (snd x)))%nat with true by (symmetry; apply Nat.leb_le; rewrite app_length; cbn [le16 length]; lia).
    cbn [andb]. destruct a; try reflexivity.
    - apply is_prefix_cut. exact HV.
    - destruct HV as (v & -> & P). apply is_prefix_cut. exact P.
    - destruct HV as (v & -> & P). apply is_prefix_cut. exact P.
  Qed.
End Cfg.

(* ------------------------------------------------------------------ the handler *)
Lemma read_by_type_reported_handles c st cid a0 a1 x0 x1 tyb b out_size st' r :
  wf c -> no_includes c -> Forall (fun x => x < 256) tyb ->
  23 <= out_size -> out_size <= 513 -> out_size <= len b ->
  handle_read_by_type c st cid (8 :: a0 :: a1 :: x0 :: x1 :: tyb) b out_size = Some (st', r) ->
  check_discovery c (8 :: a0 :: a1 :: x0 :: x1 :: tyb) (takeN (snd r) (fst r)) = AttDbSpec.Ok.
Proof.
  intros Hw Hn Hb Ho Ho2 Hlb H. set (pdu := 8 :: a0 :: a1 :: x0 :: x1 :: tyb) in *.
  unfold handle_read_by_type in H.
  destruct (check_size_and_handle_range c pdu b out_size 7 21) as [chk|] eqn:EC; [|discriminate].
  assert (Eop : rd pdu 0 = Some 8) by (destruct (C2.rd_prefix5 8 a0 a1 x0 x1 tyb) as (X & _); exact X).
  assert (ErrOk : forall code hh bb (r0 : resp), error_response 8 code hh bb out_size = Some r0 ->
                    check_discovery c pdu (takeN (snd r0) (fst r0)) = AttDbSpec.Ok).
  { intros code hh bb [b1 m1] He. destruct (PV.error_response_exact _ _ _ _ out_size _ _ ltac:(lia) He) as [_ T]. cbn [fst snd].
    rewrite T. reflexivity. }
  unfold check_size_and_handle_range in EC. rewrite Eop in EC. cbv beta iota in EC.
  destruct chk as [r0|[sh eh]].
  - apply P1.some_inj in H. apply P1.pair_inj in H. destruct H as [_ <-].
    repeat match type of EC with
           | (if ?x then _ else _) = _ => destruct x
           | match ?x with Some _ => _ | None => None end = _ => destruct x eqn:?; [|discriminate]
           end; try discriminate;
      apply P1.some_inj in EC; apply P1.failed_inj in EC; subst;
      match goal with X : error_response _ _ _ _ _ = Some _ |- _ => exact (ErrOk _ _ _ _ X) end.
  - assert (L : len pdu = 7 \/ len pdu = 21).
    { destruct (len pdu =? 7) eqn:E7; [left; apply N.eqb_eq; exact E7|].
      destruct (len pdu =? 21) eqn:E21; [right; apply N.eqb_eq; exact E21|].
      cbn [negb andb] in EC. destruct (error_response 8 err_invalid_pdu 0 b out_size); discriminate EC. }
    rewrite Eop in H. cbv beta iota in H.
    destruct (make_uuid_filter pdu (len pdu =? 21)) as [f|] eqn:EF; [|discriminate].
    destruct (all_attributes _ c st cid f (mkCol b 2 0 true) out_size _ _ eh) as [[st1 col]|] eqn:EA; [|discriminate].
    assert (I0 : C2.col_inv (mkCol b 2 0 true) []).
    { unfold C2.col_inv. cbn [co_cur co_buf co_first co_size]. split; [lia|]. split; [apply C2.seg_nil|]. split; [auto|].
      split; [intros X; discriminate X|]. intros x []. }
    destruct (all_attributes_entries c Hw Hn cid f out_size _ eh (norm_type tyb)
                (fun a => filter_type a0 a1 x0 x1 tyb f a Hb L EF) _ _ _ _ _ _ [] EA I0
                ltac:(cbn; lia) ltac:(cbn [co_buf]; exact Hlb) (Forall_nil _))
      as (Cc & Lb & E & IE & GE). cbn [co_cur co_buf] in *.
    destruct (negb (co_cur col =? 2)) eqn:E2.
    2:{ destruct (error_response 8 err_attribute_not_found sh (co_buf col) out_size) as [r1|] eqn:He; [|discriminate].
        apply P1.some_inj in H. apply P1.pair_inj in H. destruct H as [_ <-]. exact (ErrOk _ _ _ _ He). }
    destruct (put (co_buf col) 0 [9; co_size col]) as [b1|] eqn:Q; [|discriminate].
    apply P1.some_inj in H. apply P1.pair_inj in H. destruct H as [_ <-]. cbn [fst snd].
    destruct IE as (I1 & I2 & I3 & I4 & I5).
    set (mm := 2 + (co_cur col - 2) mod 256).
    assert (Hmm : 2 <= mm /\ mm <= co_cur col) by (unfold mm; split; nlia).
    pose proof (C2.put_length _ _ _ _ Q) as Lq.
    rewrite (C2.takeN_seg mm b1) by lia. rewrite (C2.seg_app 0 2 mm) by lia.
    change 2 with (0 + len [9; co_size col]) at 1. rewrite (C2.seg_put_self _ _ _ _ Q).
    rewrite (C2.seg_put_other _ _ _ _ 2 mm Q) by (right; cbn; lia).
    assert (Pre : C2.seg 2 mm (co_buf col) = firstn (N.to_nat (mm - 2)) (flat_map C2.ebytes E)).
    { rewrite <- I2. rewrite (C2.seg_app 2 mm (co_cur col)) by lia.
      rewrite <- (firstn_all (C2.seg 2 mm (co_buf col))) at 1. pose proof (C2.seg_len 2 mm (co_buf col)) as SL. unfold len in SL.
      replace (N.to_nat (mm - 2)) with (length (C2.seg 2 mm (co_buf col)) + 0)%nat by lia.
      rewrite firstn_app_2. cbn [firstn]. rewrite app_nil_r. apply firstn_all. }
    rewrite Pre. cbn [app]. unfold check_discovery, pdu.
    change (skipn 5 (8 :: a0 :: a1 :: x0 :: x1 :: tyb)) with tyb.
    assert (NE : E <> [] /\ co_size col <= 255).
    { apply I4. destruct (co_first col) eqn:X; [|reflexivity]. specialize (I3 eq_refl). subst E.
      cbn [flat_map] in I2. pose proof (C2.seg_len 2 (co_cur col) (co_buf col)) as SL. rewrite I2 in SL.
      apply negb_true_iff in E2. apply N.eqb_neq in E2. cbn in SL. lia. }
    destruct NE as [NE Sz].
    assert (LE : forall x, In x E -> length (C2.ebytes x) = N.to_nat (co_size col)).
    { intros x Hx. specialize (I5 x Hx). unfold C2.ebytes, le16, len in *. rewrite app_length. cbn [length]. lia. }
    assert (S2 : (2 <= N.to_nat (co_size col))%nat).
    { destruct E as [|e0 E0]; [contradiction|]. specialize (I5 e0 (or_introl eq_refl)). lia. }
    assert (TL : len (flat_map C2.ebytes E) = co_cur col - 2) by (rewrite <- I2; apply C2.seg_len).
    match goal with |- (if ?x then _ else _) = _ => replace x with true; [reflexivity|] end. symmetry.
    rewrite forallb_forall. intros y Hy. rewrite Forall_forall in GE.
    destruct (chunks_cut E (N.to_nat (co_size col)) S2 LE _ _ _ Hy) as (x & Hx & [->|(kk & j & (A1 & A2 & A3) & ->)]).
    + exact (entry_clause c (norm_type tyb) x (GE x Hx)).
    + apply (entry_clause_cut c (norm_type tyb) x j (GE x Hx)).
      destruct (Nat.eq_dec j 1) as [J1|J1]; [|lia]. exfalso. subst j.
      pose proof (flat_map_length_const E _ LE) as FL. unfold len in TL.
      assert (M : (co_cur col - 2) mod 256 = co_cur col - 2 - 256) by (unfold mm in *; nlia).
      apply (tail_not_one (N.to_nat (co_size col)) (length E) kk); [lia|unfold mm in *; lia|unfold mm in *; lia].
Qed.

(* ------------------------------------------------------------------ requests that are refused *)
(* an Error Response reports no handle that C04 has a say about *)
Lemma check_discovery_error c pdu t : check_discovery c pdu (1 :: t) = AttDbSpec.Ok.
Proof.
  unfold check_discovery. destruct pdu as [|o p]; [reflexivity|].
  destruct o as [|q]; [reflexivity|].
  do 6 (try (destruct q as [q|q|]; try reflexivity)).
Qed.

Lemma rd_head o (t : list N) : rd (o :: t) 0 = Some o.
Proof. unfold rd, len. cbn [length]. replace (0 <? N.of_nat (S (length t))) with true by lia. reflexivity. Qed.

(* check_size_and_handle_range either answers with an Error Response or the request is well formed *)
Lemma range_check_cases c pdu b os sa sb op chk : 5 <= os -> rd pdu 0 = Some op ->
  check_size_and_handle_range c pdu b os sa sb = Some chk ->
  match chk with
  | Failed r => exists t, takeN (snd r) (fst r) = 1 :: t
  | Passed (sh, eh) => (len pdu = sa \/ len pdu = sb) /\ rd16 pdu 1 = Some sh /\ rd16 pdu 3 = Some eh /\ 1 <= sh /\ sh <= eh
  end.
Proof.
  intros Ho Hop H. unfold check_size_and_handle_range in H. rewrite Hop in H. cbv beta iota in H.
  assert (Err : forall code hh bb (r0 : resp), error_response op code hh bb os = Some r0 -> exists t, takeN (snd r0) (fst r0) = 1 :: t).
  { intros code hh bb [b1 m1] He. destruct (PV.error_response_exact _ _ _ _ os _ _ Ho He) as [_ T]. cbn [fst snd]. rewrite T.
    eexists. reflexivity. }
  destruct (negb (len pdu =? sa) && negb (len pdu =? sb)) eqn:EL.
  - destruct (error_response op err_invalid_pdu 0 b os) as [r0|] eqn:He; [|discriminate].
    apply P1.some_inj in H. subst chk. exact (Err _ _ _ _ He).
  - destruct (rd16 pdu 1) as [sh|]; [|discriminate]. destruct (rd16 pdu 3) as [eh|]; [|discriminate].
    destruct ((sh =? 0) || (eh <? sh)) eqn:ER.
    + destruct (error_response op err_invalid_handle sh b os) as [r0|] eqn:He; [|discriminate].
      apply P1.some_inj in H. subst chk. exact (Err _ _ _ _ He).
    + destruct (first_index_by_handle c sh =? invalid_index).
      * destruct (error_response op err_attribute_not_found sh b os) as [r0|] eqn:He; [|discriminate].
        apply P1.some_inj in H. subst chk. exact (Err _ _ _ _ He).
      * apply P1.some_inj in H. subst chk. split; [|split; [reflexivity|split; [reflexivity|]]].
        { destruct (len pdu =? sa) eqn:A; [left; apply N.eqb_eq; exact A|].
          destruct (len pdu =? sb) eqn:B; [right; apply N.eqb_eq; exact B|]. discriminate EL. }
        apply orb_false_iff in ER. destruct ER as [E0 E1]. apply N.eqb_neq in E0. apply N.ltb_ge in E1. lia.
Qed.

Lemma error_response_ok c pdu op code hh bb os (r0 : resp) : 5 <= os ->
  error_response op code hh bb os = Some r0 -> check_discovery c pdu (takeN (snd r0) (fst r0)) = AttDbSpec.Ok.
Proof.
  intros Ho He. destruct r0 as [b1 m1]. destruct (PV.error_response_exact _ _ _ _ os _ _ Ho He) as [_ T]. cbn [fst snd].
  rewrite T. apply check_discovery_error.
Qed.

Lemma forall_tail5 (P : N -> Prop) o a0 a1 x0 x1 t : Forall P (o :: a0 :: a1 :: x0 :: x1 :: t) ->
  P a0 /\ P a1 /\ P x0 /\ P x1 /\ Forall P t.
Proof.
  intros H. rewrite Forall_forall in H. repeat split; try (apply H; cbn [In]; tauto).
  apply Forall_forall. intros x Hx. apply H. cbn [In]. tauto.
Qed.

(* ------------------------------------------------------------------ all requests, per handler *)
Theorem read_by_type_all c st cid pdu b os st' r :
  wf c -> no_includes c -> Forall (fun x => x < 256) pdu -> rd pdu 0 = Some 8 ->
  23 <= os -> os <= 513 -> os <= len b ->
  handle_read_by_type c st cid pdu b os = Some (st', r) ->
  check_discovery c pdu (takeN (snd r) (fst r)) = AttDbSpec.Ok.
Proof.
  intros Hw Hn Hb Hop Ho Ho2 Hlb H0. pose proof H0 as H. unfold handle_read_by_type in H.
  destruct (check_size_and_handle_range c pdu b os 7 21) as [chk|] eqn:EC; [|discriminate].
  pose proof (range_check_cases c pdu b os 7 21 8 chk ltac:(lia) Hop EC) as RC.
  destruct chk as [r0|[sh eh]].
  - apply P1.some_inj in H. apply P1.pair_inj in H. destruct H as [_ <-]. destruct RC as [t T]. rewrite T.
    apply check_discovery_error.
  - destruct RC as (L & _). clear H.
    destruct pdu as [|o [|a0 [|a1 [|x0 [|x1 tyb]]]]]; try (exfalso; unfold len in L; cbn [length] in L; lia).
    rewrite rd_head in Hop. apply P1.some_inj in Hop. subst o.
    destruct (forall_tail5 _ _ _ _ _ _ _ Hb) as (_ & _ & _ & _ & Ht).
    exact (read_by_type_reported_handles c st cid a0 a1 x0 x1 tyb b os st' r Hw Hn Ht Ho Ho2 Hlb H0).
Qed.

Theorem find_information_all c pdu b os r :
  wf c -> no_includes c -> NF.no_marker_uuids c -> Forall (fun x => x < 256) pdu -> rd pdu 0 = Some 4 ->
  23 <= os -> os <= len b ->
  handle_find_information c pdu b os = Some r ->
  check_discovery c pdu (takeN (snd r) (fst r)) = AttDbSpec.Ok.
Proof.
  intros Hw Hn Hm Hb Hop Ho Hlb H0. pose proof H0 as H. unfold handle_find_information in H.
  destruct (check_size_and_handle_range c pdu b os 5 5) as [chk|] eqn:EC; [|discriminate].
  pose proof (range_check_cases c pdu b os 5 5 4 chk ltac:(lia) Hop EC) as RC.
  destruct chk as [r0|[sh eh]].
  - apply P1.some_inj in H. subst r0. destruct RC as [t T]. rewrite T. apply check_discovery_error.
  - destruct RC as (L & R1 & R3 & Hlo & Hhi). clear H.
    destruct pdu as [|o [|a0 [|a1 [|x0 [|x1 [|]]]]]]; try (exfalso; unfold len in L; cbn [length] in L; lia).
    rewrite rd_head in Hop. apply P1.some_inj in Hop. subst o.
    destruct (forall_tail5 _ _ _ _ _ _ _ Hb) as (A0 & A1 & X0 & X1 & _).
    destruct (C2.rd_prefix5 4 a0 a1 x0 x1 []) as (_ & Q1 & Q3). rewrite Q1 in R1. rewrite Q3 in R3.
    apply P1.some_inj in R1. apply P1.some_inj in R3. subst sh eh.
    exact (D.fi_reported_handles c Hw Hn Hm a0 a1 x0 x1 b os r A0 A1 X0 X1 Hlo Hhi Ho Hlb H0).
Qed.

Theorem read_by_group_type_all c pdu b os r :
  wf c -> no_includes c -> Forall (fun x => x < 256) pdu -> rd pdu 0 = Some 16 ->
  23 <= os -> os <= len b ->
  handle_read_by_group_type c pdu b os = Some r ->
  check_discovery c pdu (takeN (snd r) (fst r)) = AttDbSpec.Ok.
Proof.
  intros Hw Hn Hb Hop Ho Hlb H0. pose proof H0 as H. unfold handle_read_by_group_type in H.
  destruct (check_size_and_handle_range c pdu b os 7 21) as [chk|] eqn:EC; [|discriminate].
  pose proof (range_check_cases c pdu b os 7 21 16 chk ltac:(lia) Hop EC) as RC.
  destruct chk as [r0|[sh eh]].
  - apply P1.some_inj in H. subst r0. destruct RC as [t T]. rewrite T. apply check_discovery_error.
  - destruct RC as (L & R1 & R3 & Hlo & Hhi). rewrite Hop in H. cbv beta iota in H.
    destruct (rd16 pdu 5) as [ty|] eqn:R5; [|discriminate].
    destruct ((len pdu =? 21) || negb (ty =? uuid_primary_service)) eqn:EU.
    { exact (error_response_ok c pdu _ _ _ _ os _ ltac:(lia) H). }
    clear H. apply orb_false_iff in EU. destruct EU as [E21 ET]. apply N.eqb_neq in E21.
    apply negb_false_iff in ET. apply N.eqb_eq in ET. subst ty.
    destruct L as [L|L]; [|contradiction].
    destruct pdu as [|o [|a0 [|a1 [|x0 [|x1 [|p [|q [|]]]]]]]]; try (exfalso; unfold len in L; cbn [length] in L; lia).
    rewrite rd_head in Hop. apply P1.some_inj in Hop. subst o.
    destruct (forall_tail5 _ _ _ _ _ _ _ Hb) as (A0 & A1 & X0 & X1 & Ht).
    destruct (C2.rd_prefix5 16 a0 a1 x0 x1 [p; q]) as (_ & Q1 & Q3). rewrite Q1 in R1. rewrite Q3 in R3.
    apply P1.some_inj in R1. apply P1.some_inj in R3. subst sh eh.
    change (rd16 [16; a0; a1; x0; x1; p; q] 5) with (Some (p + 256 * q)) in R5. apply P1.some_inj in R5.
    rewrite Forall_forall in Ht. assert (Hp : p < 256) by (apply Ht; cbn [In]; tauto).
    assert (Hq : q < 256) by (apply Ht; cbn [In]; tauto).
    unfold uuid_primary_service in R5. assert (p = 0 /\ q = 40) by lia. destruct H as [-> ->].
    exact (D.rbg_reported_handles c Hw Hn a0 a1 x0 x1 b os r A0 A1 X0 X1 Hlo Hhi Ho Hlb H0).
Qed.

Theorem find_by_type_value_all c st cid pdu b os r :
  wf c -> no_includes c -> Forall (fun x => x < 256) pdu -> rd pdu 0 = Some 6 ->
  23 <= os -> os <= len b ->
  handle_find_by_type_value c st cid pdu b os = Some r ->
  check_discovery c pdu (takeN (snd r) (fst r)) = AttDbSpec.Ok.
Proof.
  intros Hw Hn Hb Hop Ho Hlb H0. pose proof H0 as H. unfold handle_find_by_type_value in H.
  destruct (check_size_and_handle_range c pdu b os 9 23) as [chk|] eqn:EC; [|discriminate].
  pose proof (range_check_cases c pdu b os 9 23 6 chk ltac:(lia) Hop EC) as RC.
  destruct chk as [r0|[sh eh]].
  - apply P1.some_inj in H. subst r0. destruct RC as [t T]. rewrite T. apply check_discovery_error.
  - destruct RC as (L & R1 & R3 & Hlo & Hhi). rewrite Hop in H. cbv beta iota in H.
    destruct (rd16 pdu 5) as [ty|] eqn:R5; [|discriminate].
    destruct (negb (ty =? uuid_primary_service)) eqn:ET.
    { exact (error_response_ok c pdu _ _ _ _ os _ ltac:(lia) H). }
    clear H. apply negb_false_iff in ET. apply N.eqb_eq in ET. subst ty.
    assert (SL : slice pdu 7 (len pdu) = Some (takeN (len pdu - 7) (dropN 7 pdu))).
    { unfold slice. replace ((7 <=? len pdu) && (len pdu <=? len pdu)) with true by (destruct L; lia). reflexivity. }
    assert (Hv : forallb byte_ok (takeN (len pdu - 7) (dropN 7 pdu)) = true).
    { apply forallb_forall. intros x Hx. unfold takeN, dropN in Hx. assert (Hx' : In x (skipn (N.to_nat 7) pdu)) by (rewrite <- (firstn_skipn (N.to_nat (len pdu - 7)) (skipn (N.to_nat 7) pdu)); apply in_or_app; left; exact Hx).
      apply D.skipn_in in Hx'.
      rewrite Forall_forall in Hb. unfold byte_ok. apply N.ltb_lt. exact (Hb x Hx'). }
    exact (D.fbtv_reported_handles c Hw Hn st cid pdu sh eh _ b os r Hv Hop L R1 R3 R5 SL Hlo Hhi Ho Hlb H0).
Qed.

(* ------------------------------------------------------------------ through att_input *)
Lemma att_input_handler8 c st cid pdu n st' rs k :
  get_conn st cid = Some k -> rd pdu 0 = Some 8 -> att_input c st cid pdu n = Some (st', rs) ->
  let b := repeat fill_byte (N.to_nat n) in let os := N.min n (negotiated_mtu c k) in
  23 <= os /\ os <= len b /\
  exists st1 b' m, handle_read_by_type c st cid pdu b os = Some (st1, (b', m)) /\ rs = takeN m b'.
Proof.
  intros G Hop. unfold att_input. rewrite G. cbv zeta.
  destruct (len pdu =? 0); [discriminate|].
  destruct (N.min n (negotiated_mtu c k) <? default_att_mtu) eqn:Eo; [discriminate|]. apply N.ltb_ge in Eo. unfold default_att_mtu in Eo.
  rewrite Hop. intros H.
  assert (Lb : len (repeat fill_byte (N.to_nat n)) = n) by (unfold len; rewrite repeat_length; lia).
  split; [exact Eo|]. split; [rewrite Lb; lia|]. cbn [N.eqb Pos.eqb] in H.
  destruct (handle_read_by_type c st cid pdu _ _) as [[st1 [b' m]]|]; [|discriminate H]. destruct (m <=? len b'); [|discriminate H].
  inversion H. eauto.
Qed.

(* C04 (e) for EVERY request of the four discovery opcodes (any length, any handle range, any type), in every
   state with a live connection; for Read By Type with an output size of at most 513 bytes *)
Theorem discovery_reports_assigned c st cid n st' rs k pdu op :
  wf c -> no_includes c -> NF.no_marker_uuids c -> get_conn st cid = Some k ->
  Forall (fun x => x < 256) pdu -> rd pdu 0 = Some op -> op = 4 \/ op = 6 \/ op = 8 \/ op = 16 ->
  (op = 8 -> N.min n (negotiated_mtu c k) <= 513) ->
  att_input c st cid pdu n = Some (st', rs) -> check_discovery c pdu rs = AttDbSpec.Ok.
Proof.
  intros Hw Hn Hm G Hb Hop Hk H8 A.
  destruct Hk as [-> |[-> |[-> | ->]]].
  - destruct (D.att_input_handler c st cid pdu n st' rs k 4 G Hop A) as (O1 & O2 & H4 & _ & _).
    destruct (H4 eq_refl) as (b' & m & Hh & ->).
    exact (find_information_all c pdu _ _ (b', m) Hw Hn Hm Hb Hop O1 O2 Hh).
  - destruct (D.att_input_handler c st cid pdu n st' rs k 6 G Hop A) as (O1 & O2 & _ & H6 & _).
    destruct (H6 eq_refl) as (b' & m & Hh & ->).
    exact (find_by_type_value_all c st cid pdu _ _ (b', m) Hw Hn Hb Hop O1 O2 Hh).
  - destruct (att_input_handler8 c st cid pdu n st' rs k G Hop A) as (O1 & O2 & st1 & b' & m & Hh & ->).
    exact (read_by_type_all c st cid pdu _ _ st1 (b', m) Hw Hn Hb Hop O1 (H8 eq_refl) O2 Hh).
  - destruct (D.att_input_handler c st cid pdu n st' rs k 16 G Hop A) as (O1 & O2 & _ & _ & H16).
    destruct (H16 eq_refl) as (b' & m & Hh & ->).
    exact (read_by_group_type_all c pdu _ _ (b', m) Hw Hn Hb Hop O1 O2 Hh).
Qed.

(* the clause judges the four discovery opcodes only *)
Lemma check_discovery_other c o t rs : o <> 4 -> o <> 6 -> o <> 8 -> o <> 16 -> check_discovery c (o :: t) rs = AttDbSpec.Ok.
Proof.
  intros H4 H6 H8 H16. unfold check_discovery. destruct o as [|q]; [reflexivity|].
  do 6 (try (destruct q as [q|q|]; try reflexivity));
    exfalso; first [now apply H4 | now apply H6 | now apply H8 | now apply H16].
Qed.

(* ... and so for every request whatsoever *)
Theorem any_request_reports_assigned c st cid n st' rs k pdu :
  wf c -> no_includes c -> NF.no_marker_uuids c -> get_conn st cid = Some k ->
  Forall (fun x => x < 256) pdu ->
  (rd pdu 0 = Some 8 -> N.min n (negotiated_mtu c k) <= 513) ->
  att_input c st cid pdu n = Some (st', rs) -> check_discovery c pdu rs = AttDbSpec.Ok.
Proof.
  intros Hw Hn Hm G Hb H8 A. destruct pdu as [|o t]; [reflexivity|].
  pose proof (rd_head o t) as Hop.
  destruct (N.eq_dec o 4) as [E4|E4]; [subst o; eapply discovery_reports_assigned; eauto; intros X; discriminate X|].
  destruct (N.eq_dec o 6) as [E6|E6]; [subst o; eapply discovery_reports_assigned; eauto; intros X; discriminate X|].
  destruct (N.eq_dec o 8) as [E8|E8]; [subst o; eapply discovery_reports_assigned; eauto 6|].
  destruct (N.eq_dec o 16) as [E16|E16]; [subst o; eapply discovery_reports_assigned; eauto 6; intros X; discriminate X|].
  apply check_discovery_other; assumption.
Qed.

(* Read By Type alone: every request with opcode 8, no condition on the uuids of the configuration *)
Theorem read_by_type_reports_assigned c st cid n st' rs k pdu :
  wf c -> no_includes c -> get_conn st cid = Some k ->
  Forall (fun x => x < 256) pdu -> rd pdu 0 = Some 8 -> N.min n (negotiated_mtu c k) <= 513 ->
  att_input c st cid pdu n = Some (st', rs) -> check_discovery c pdu rs = AttDbSpec.Ok.
Proof.
  intros Hw Hn G Hb Hop H8 A.
  destruct (att_input_handler8 c st cid pdu n st' rs k G Hop A) as (O1 & O2 & st1 & b' & m & Hh & ->).
  exact (read_by_type_all c st cid pdu _ _ st1 (b', m) Hw Hn Hb Hop O1 H8 O2 Hh).
Qed.
