(* Property C01: ATT input handling is memory safe and well framed. Executable monitor over observed
   (operation, output) pairs; it never looks at model state.

   Hypotheses of the property (requests outside them are not judged): 1 <= length pdu, 23 <= out_size.
   Clauses (tags):
     fault        (a) no out-of-range access / failing assert: the output is never FAULT
     length       (b) length response <= min( out_size, negotiated MTU ), the MTU being tracked from the
                      observed Exchange MTU requests that were answered with an Exchange MTU Response
     frame        (c) per request opcode the response is its response opcode or 01 <opcode> <handle> <code>
                      (5 bytes); Write Command, Handle Value Confirmation (length 1) and Error Response
                      get no response; any other opcode gets 01 <opcode> 00 00 06
     frame_list   (c') list shaped responses (Find Information, Find By Type Value, Read By Type, Read By
                      Group Type) hold a positive whole number of entries of the announced size; fixed size
                      responses have their size *)
From BT Require Import Base.ListX AttDb.AttDbModel NQueue.NQueueModel AttSrv.AttSrvModel.
Local Open Scope N_scope.

Inductive verdict := Ok | Bad (tag : nat).
Definition t_fault := 1%nat.
Definition t_length := 2%nat.
Definition t_frame := 3%nat.
Definition t_frame_list := 4%nat.
Definition t_shape := 5%nat.

(* monitor state: the client MTU of every connection *)
Definition mon := list N.
Definition minit : mon := repeat default_att_mtu n_conns.

Definition is_request (op : N) : bool :=
  existsb (N.eqb op) [2; 4; 6; 8; 10; 12; 14; 16; 18; 22; 24].

Definition is_error_for (op : N) (resp : list N) : bool :=
  match resp with
  | [1; o; _; _; _] => o =? op
  | _ => false
  end.

(* (c) *)
Definition frame_ok (pdu resp : list N) : bool :=
  match pdu with
  | [] => true
  | op :: _ =>
      if (op =? 1) || (op =? 82) then match resp with [] => true | _ => false end
      else if op =? 30 then
        (if len pdu =? 1 then match resp with [] => true | _ => false end else is_error_for op resp)
      else if is_request op then
        (match resp with r :: _ => r =? op + 1 | [] => false end) || is_error_for op resp
      else match resp with [1; o; 0; 0; 6] => o =? op | _ => false end
  end.

Definition whole_entries (total entry : N) : bool :=
  (1 <=? entry) && (1 <=? total) && (total mod entry =? 0).

(* (c') *)
Definition frame_list_ok (resp : list N) : bool :=
  match resp with
  | 3 :: _ => len resp =? 3                                   (* Exchange MTU Response *)
  | 5 :: f :: _ => ((f =? 1) && whole_entries (len resp - 2) 4) || ((f =? 2) && whole_entries (len resp - 2) 18)
  | [5] => false
  | 7 :: _ => whole_entries (len resp - 1) 4
  | 9 :: l :: _ => (2 <=? l) && whole_entries (len resp - 2) l
  | [9] => false
  | 17 :: l :: _ => ((l =? 6) || (l =? 20)) && whole_entries (len resp - 2) l
  | [17] => false
  | 19 :: _ => len resp =? 1                                  (* Write Response *)
  | 23 :: _ => 5 <=? len resp                                 (* Prepare Write Response *)
  | 25 :: _ => len resp =? 1                                  (* Execute Write Response *)
  | _ => true
  end.

Definition mstep (c : cfg) (m : mon) (o : srv_op) (r : srv_out) : verdict * mon :=
  match o with
  | OpIn cid pdu n =>
      if (len pdu =? 0) || (n <? default_att_mtu) then (Ok, m)      (* outside the hypotheses *)
      else
        match r with
        | OBytes resp =>
            let mtu := N.min (max_mtu c) (nth cid m default_att_mtu) in
            if N.min n mtu <? len resp then (Bad t_length, m)
            else if negb (frame_ok pdu resp) then (Bad t_frame, m)
            else if negb (frame_list_ok resp) then (Bad t_frame_list, m)
            else
              let m' := match pdu, resp with
                        | [2; lo; hi], 3 :: _ => if default_att_mtu <=? lo + 256 * hi then upd m cid (lo + 256 * hi) else m
                        | _, _ => m
                        end in
              (Ok, m')
        | OFault => (Bad t_fault, m)
        | _ => (Bad t_shape, m)
        end
  | OpDisc cid => (match r with OFault => Bad t_fault | _ => Ok end, upd m cid default_att_mtu)
  | _ => (match r with OFault => Bad t_fault | _ => Ok end, m)
  end.

Fixpoint monitor_from (c : cfg) (m : mon) (pos : nat) (tr : list (srv_op * srv_out)) : option (nat * nat) :=
  match tr with
  | [] => None
  | (o, r) :: t =>
      match mstep c m o r with
      | (Ok, m') => monitor_from c m' (S pos) t
      | (Bad tag, _) => Some (pos, tag)
      end
  end.

Definition monitor (c : cfg) (tr : list (srv_op * srv_out)) : option (nat * nat) := monitor_from c minit O tr.

(* the state after a sequence of operations (for statements about all reachable states) *)
Fixpoint srv_final (c : cfg) (st : srv_state) (ops : list srv_op) : srv_state :=
  match ops with
  | [] => st
  | o :: t => srv_final c (fst (srv_step c st o)) t
  end.
