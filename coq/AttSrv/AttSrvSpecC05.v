(* Property C05: encryption-protected values are never exposed on an unencrypted link.
   Executable monitor over observed (operation, output) pairs. It runs the reference semantics of
   AttSrvSpecVal.v (link security per connection from the observed sec / disc operations, the value
   store) beside the trace and never looks at model state.

   Clauses (tags):
     leak_read             a Read / Read Blob / Read By Type / Read Multiple on an unencrypted connection
                           returns (part of) a protected characteristic value or protected CCCD
     leak_notify           l2cap_output on an unencrypted connection produces a notification / indication of a
                           protected characteristic value
     modified_unencrypted  a Write Request / Prepare Write / Execute Write that names a protected value or CCCD is
                           accepted on an unencrypted connection, or a protected value is found changed after a
                           write attempt (Request, Command, Prepare) on an unencrypted connection
     error_code            the rejection is not  01 <opcode> <handle> 05  without key (pairing status no_key)
                           resp.  ... 0F  with a key

   The semantic statement (non-interference) is in AttSrvProofsC05.v / Props/Properties_C05.v. *)
From BT Require Import Base.ListX AttDb.AttDbModel NQueue.NQueueModel AttSrv.AttSrvModel AttSrv.AttSrvSpecVal.
Local Open Scope N_scope.

Definition t_leak_read := 1%nat.
Definition t_leak_notify := 2%nat.
Definition t_modified_unencrypted := 3%nat.
Definition t_error_code := 4%nat.

Definition is_error_pdu (resp : list N) : bool := match resp with 1 :: _ => true | _ => false end.

(* the judgement of one observed output; [a] is the reference state BEFORE the operation, [x] the expectation *)
Definition judge (c : cfg) (a : astate) (o : srv_op) (x : expect) (r : srv_out) : verdict :=
  match o, r with
  | OpIn cid pdu n, OBytes resp =>
      let k := aconn_of a cid in
      let unenc := negb (ac_enc k) in
      let code := if ac_pair k =? 0 then 5 else 15 in
      match x with
      | XResp kind exp _ rsp =>
          if is_sec exp && negb (list_eqb resp rsp) then
            if is_error_pdu resp then Bad t_error_code
            else if Nat.eqb kind k_read then Bad t_leak_read else Bad t_modified_unencrypted
          else Ok
      | _ =>
          match pdu with
          | op :: hs =>
              if op =? 8 then                                   (* Read By Type Response *)
                match resp with
                | 9 :: l :: entries =>
                    if unenc && existsb (protected_handle c) (entry_handles (length entries) (N.to_nat l) entries)
                    then Bad t_leak_read else Ok
                | _ => Ok
                end
              else if op =? 14 then
                match resp with
                | 15 :: _ =>                                    (* Read Multiple Response *)
                    if unenc && existsb (protected_handle c) (pair_handles hs) then Bad t_leak_read else Ok
                | [1; 14; lo; hi; e] =>                         (* Read Multiple refused because of handle lo/hi *)
                    if unenc && protected_handle c (lo + 256 * hi) && negb (e =? code) then Bad t_error_code else Ok
                | _ => Ok
                end
              else Ok
          | [] => Ok
          end
      end
  | OpOut cid _, OBytes (op :: lo :: hi :: _) =>
      if ((op =? 27) || (op =? 29)) && negb (ac_enc (aconn_of a cid)) && protected_handle c (lo + 256 * hi)
      then Bad t_leak_notify else Ok
  | OpVal g, OValue v _ =>
      match x with
      | XVal _ v' _ =>
          if negb (list_eqb v v') && Nat.eqb (nth g (as_marks a) m_none) m_security then Bad t_modified_unencrypted else Ok
      | _ => Ok
      end
  | _, _ => Ok
  end.

Definition mstep (c : cfg) (m : mon) (o : srv_op) (r : srv_out) : verdict * mon := mstep_with judge c m o r.
Definition monitor_from (c : cfg) (m : mon) (pos : nat) (tr : list (srv_op * srv_out)) : option (nat * nat) :=
  monitor_from_with judge c m pos tr.
Definition monitor (c : cfg) (tr : list (srv_op * srv_out)) : option (nat * nat) := monitor_from c (minit c) O tr.
