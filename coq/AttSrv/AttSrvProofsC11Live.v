(* C11 "never lost": bounded progress of indications at the server level.
   If confirmations keep arriving (a Handle Value Confirmation before every poll) then an indication request
   that is pending in the queue of a connection is taken from the queue by l2cap_output after at most
   (number of pending requests of that connection) polls - whatever else is pending, whether or not the other
   requests can be sent (an unsent indication does not block: fix/C08-C11-notification-path) - and, the client
   being subscribed and the value readable, it is transmitted. Composition of NQueueDrain.v (queue level,
   through the abstraction of C12) with the l2cap_output / confirmation lemmas of AttSrvProofsC11.v. *)
From Coq Require Import Lia ZifyBool.
From BT Require Import Base.ListX Base.Bits2 AttDb.AttDbModel AttDb.AttDbNotifProofs NQueue.NQueueModel NQueue.NQueueSpec NQueue.NQueueProofs NQueue.NQueueDrain
  AttSrv.AttSrvModel AttSrv.AttSrvSpecC01 AttSrv.AttSrvProofsC01 AttSrv.AttSrvFrame AttSrv.AttSrvProofsC08 AttSrv.AttSrvProofsC10 AttSrv.AttSrvProofsC11.
Local Open Scope N_scope.

(* everything of a connection but its queue *)
Definition same_but_queue (k k' : conn) : Prop :=
  client_mtu k' = client_mtu k /\ cccd k' = cccd k /\ encrypted k' = encrypted k /\ pairing k' = pairing k.

Lemma sbq_refl k : same_but_queue k k.
Proof. repeat split. Qed.
Lemma sbq_trans a b d : same_but_queue a b -> same_but_queue b d -> same_but_queue a d.
Proof. intros (A1 & A2 & A3 & A4) (B1 & B2 & B3 & B4). repeat split; congruence. Qed.

(* ------------------------------------------------------------------ the confirmation step *)
Lemma confirm_step c st cid n k :
  get_conn st cid = Some k -> default_att_mtu <= N.min n (negotiated_mtu c k) ->
  srv_step c st (OpIn cid [30] n) = (set_conn st cid (fst (nq_step k Confirm)), OBytes []).
Proof.
  intros G M. cbn [srv_step]. rewrite (att_input_opcode30 c st cid [30] n k G eq_refl M).
  destruct (confirmation_good c st cid (repeat fill_byte (N.to_nat n)) (N.min n (negotiated_mtu c k)) k G) as (HC & _).
  rewrite HC. replace (0 <=? len (repeat fill_byte (N.to_nat n))) with true by (symmetry; apply N.leb_le; lia). reflexivity.
Qed.

Lemma confirm_abs s m : st_rel s m -> st_rel (fst (NQueueModel.step s Confirm)) (mkm (mlevels m) false).
Proof.
  intros R. destruct (step_rel s m Confirm R) as (m' & E & R'). cbn [NQueueModel.step snd mstep] in E. inversion E; subst. exact R'.
Qed.

(* ------------------------------------------------------------------ the poll step *)
Lemma att_output_conn c st cid n st' rs k q1 r :
  get_conn st cid = Some k -> NQueueModel.step (nq k) Dequeue = (q1, r) ->
  att_output c st cid n = Some (st', rs) ->
  exists k', get_conn st' cid = Some k' /\ same_but_queue k k'
             /\ (nq k' = q1 \/ nq k' = fst (NQueueModel.step q1 Confirm)).
Proof.
  intros G D. unfold att_output. rewrite G. unfold nq_step at 1. rewrite D.
  set (k1 := mkConn (client_mtu k) (cccd k) (encrypted k) (pairing k) q1).
  assert (G1 : get_conn (set_conn st cid k1) cid = Some k1).
  { unfold get_conn, set_conn. cbn [conns]. apply nth_error_upd_eq. eapply nth_error_lt; eauto. }
  assert (S1 : same_but_queue k k1) by (repeat split).
  assert (U : forall s kd, get_conn s cid = Some k1 ->
              exists k', get_conn (unsent_indication s cid kd) cid = Some k' /\ same_but_queue k k'
                         /\ (nq k' = q1 \/ nq k' = fst (NQueueModel.step q1 Confirm))).
  { intros s kd Gs. unfold unsent_indication. destruct kd.
    - exists k1. auto.
    - rewrite Gs. eexists. split.
      + unfold get_conn, set_conn. cbn [conns]. apply nth_error_upd_eq. eapply nth_error_lt; eauto.
      + unfold nq_step. cbn [nq k1 fst NQueueModel.step]. split; [repeat split|right; reflexivity]. }
  destruct r as [x|[[kd i]|]|]; [intros H; inv H; exists k1; auto| |intros H; inv H; exists k1; auto|intros H; inv H; exists k1; auto].
  destruct (find_notification_data_by_index c (N.of_nat i)) as [ai ci].
  destruct (negb _ && _).
  - intros H. mon.
    match goal with E0 : access_read _ _ _ _ _ _ _ = Some (?s2, _, _) |- _ =>
      pose proof (access_read_conns _ _ _ _ _ _ _ _ _ _ E0) as C2;
      assert (G2 : get_conn s2 cid = Some k1) by (unfold get_conn in *; rewrite C2; exact G1)
    end.
    match goal with H : match ?rc with Success => _ | _ => _ end = Some _ |- _ => destruct rc end; mon; eauto.
  - intros H. inv H. eauto.
Qed.

(* an indication taken from the queue for a subscribed client whose value can be read IS transmitted *)
Lemma att_output_sends c st cid n k q1 i a s1 d :
  get_conn st cid = Some k ->
  NQueueModel.step (nq k) Dequeue = (q1, OEntry (Some (KInd, i))) ->
  let ai := fst (find_notification_data_by_index c (N.of_nat i)) in
  let st1 := set_conn st cid (mkConn (client_mtu k) (cccd k) (encrypted k) (pairing k) q1) in
  negb (N.land (cccd_get (cccd k) (N.of_nat i)) 2 =? 0) = true ->
  3 <= N.min n (negotiated_mtu c k) ->
  attribute_at c ai = Some a ->
  access_read c st1 cid a ai 0 (N.min n (negotiated_mtu c k) - 3) = Some (s1, Success, d) ->
  att_output c st cid n = Some (s1, 29 :: le16 (handle_by_index c ai) ++ d).
Proof.
  intros G D ai st1 B L3 A R. unfold att_output. rewrite G. unfold nq_step at 1. rewrite D.
  pose proof (find_notification_data_by_index_snd c (N.of_nat i)) as Sn.
  fold st1. subst ai. destruct (find_notification_data_by_index c (N.of_nat i)) as [ai ci]. cbn [fst snd] in *. subst ci.
  cbn [cccd]. rewrite B. replace (3 <=? N.min n (negotiated_mtu c k)) with true by (symmetry; apply N.leb_le; exact L3).
  cbn [andb]. rewrite A, R.
  pose proof (access_read_len _ _ _ _ _ _ _ _ _ _ R) as Ld.
  destruct (put_ok (repeat fill_byte (N.to_nat n)) 3 d) as (b1 & P1); [rewrite len_repeat; lia|]. rewrite P1.
  destruct (put_ok b1 0 (29 :: le16 (handle_by_index c ai))) as (b2 & P2).
  { rewrite (put_len _ _ _ _ P1), len_repeat. unfold le16, len. cbn [length]. lia. }
  rewrite P2. f_equal. f_equal. unfold le16 in *. eapply put_put_take; eauto.
Qed.

(* ------------------------------------------------------------------ rounds: confirmation, then poll *)
Fixpoint rounds (cid : nat) (n : N) (j : nat) : list srv_op :=
  match j with O => [] | S j' => OpIn cid [30] n :: OpOut cid n :: rounds cid n j' end.

Section Progress.
  Variables (c : cfg) (cid : nat) (n : N) (i : nat).
  Hypothesis Hn : default_att_mtu <= n.
  Hypothesis Hmax : default_att_mtu <= max_mtu c.
  (* memory safety of l2cap_output is C01's property, not this one's *)
  Hypothesis Hsafe : forall st, (exists k, get_conn st cid = Some k) -> att_output c st cid n <> None.

  Theorem indication_progress : forall M st k mq,
    get_conn st cid = Some k -> default_att_mtu <= client_mtu k ->
    st_rel (nq k) mq -> (mcount (mlevels mq) <= M)%nat -> has (mget (mlevels mq) i) KInd = true ->
    exists j, (j < M)%nat /\
      exists kj q1,
        get_conn (fst (srv_step c (srv_after c st (rounds cid n j)) (OpIn cid [30] n))) cid = Some kj
        /\ same_but_queue k kj /\ out_of kj = None
        /\ NQueueModel.step (nq kj) Dequeue = (q1, OEntry (Some (KInd, i))).
  Proof.
    induction M as [|M IH]; intros st k mq G Mk R Cn Hp.
    - pose proof (count_pos _ _ _ Hp). lia.
    - (* the confirmation *)
      assert (Mn : default_att_mtu <= N.min n (negotiated_mtu c k)) by (unfold negotiated_mtu; lia).
      pose proof (confirm_step c st cid n k G Mn) as CS.
      set (k1 := fst (nq_step k Confirm)) in *. set (st1 := set_conn st cid k1) in *.
      assert (G1 : get_conn st1 cid = Some k1) by (eapply set_conn_get; eauto).
      assert (S1 : same_but_queue k k1) by (unfold k1, nq_step; cbn; repeat split).
      assert (Q1 : nq k1 = fst (NQueueModel.step (nq k) Confirm)) by reflexivity.
      assert (O1 : out_of k1 = None) by reflexivity.
      pose proof (confirm_abs _ _ R) as R1. rewrite <- Q1 in R1.
      (* the dequeue of the poll, through the abstraction *)
      destruct (dequeue_abs _ _ R1) as (m' & R' & Dq). cbn [mlevels mout negb] in Dq.
      destruct (NQueueModel.step (nq k1) Dequeue) as [q1 r] eqn:D. cbn [fst snd] in *.
      destruct r as [b|[[kd gi]|]|]; try contradiction.
      + destruct Dq as (El & Cd & Gm).
        destruct (Nat.eq_dec gi i) as [->|Ngi]; [destruct kd|].
        * (* a notification of the same characteristic first *) 
          idtac.
          destruct (att_output c st1 cid n) as [[st2 rs]|] eqn:A; [|exfalso; eapply Hsafe; eauto].
          destruct (att_output_conn _ _ _ _ _ _ _ _ _ G1 D A) as (k2 & G2 & S2 & Q2).
          assert (R2 : exists m2, st_rel (nq k2) m2 /\ mlevels m2 = mlevels m').
          { destruct Q2 as [->| ->]; [eauto|]. eexists. split; [apply confirm_abs; exact R'|reflexivity]. }
          destruct R2 as (m2 & R2 & L2).
          assert (Hp2 : has (mget (mlevels m2) i) KInd = true).
          { rewrite L2, Gm, Nat.eqb_refl. rewrite has_ldiff by (apply mget_lt4; eapply st_rel_mwf; eauto). rewrite Hp. reflexivity. }
          destruct (IH st2 k2 m2 G2) as (j & Hj & kj & qj & Gj & Sj & Oj & Dj); auto.
          { destruct S2 as (E & _). destruct S1 as (E1 & _). lia. }
          { rewrite L2. lia. }
          exists (S j). split; [lia|]. exists kj, qj. cbn [rounds srv_after]. rewrite CS. cbn [fst]. cbn [srv_step]. rewrite A. cbn [fst].
          split; [exact Gj|]. split; [eapply sbq_trans; [exact S1|eapply sbq_trans; eauto]|auto].
        * (* this is it *)
          exists O. split; [lia|]. exists k1, q1. cbn [rounds srv_after]. rewrite CS. cbn [fst]. auto.
        * destruct (att_output c st1 cid n) as [[st2 rs]|] eqn:A; [|exfalso; eapply Hsafe; eauto].
          destruct (att_output_conn _ _ _ _ _ _ _ _ _ G1 D A) as (k2 & G2 & S2 & Q2).
          assert (R2 : exists m2, st_rel (nq k2) m2 /\ mlevels m2 = mlevels m').
          { destruct Q2 as [->| ->]; [eauto|]. eexists. split; [apply confirm_abs; exact R'|reflexivity]. }
          destruct R2 as (m2 & R2 & L2).
          assert (Hp2 : has (mget (mlevels m2) i) KInd = true).
          { rewrite L2, Gm. replace (i =? gi)%nat with false by (symmetry; apply Nat.eqb_neq; auto). exact Hp. }
          destruct (IH st2 k2 m2 G2) as (j & Hj & kj & qj & Gj & Sj & Oj & Dj); auto.
          { destruct S2 as (E & _). destruct S1 as (E1 & _). lia. }
          { rewrite L2. lia. }
          exists (S j). split; [lia|]. exists kj, qj. cbn [rounds srv_after]. rewrite CS. cbn [fst]. cbn [srv_step]. rewrite A. cbn [fst].
          split; [exact Gj|]. split; [eapply sbq_trans; [exact S1|eapply sbq_trans; eauto]|auto].
      + (* 'empty' although the indication is pending and nothing is outstanding: impossible *)
        specialize (Dq i KInd). unfold eligible in Dq. rewrite Hp in Dq. discriminate.
  Qed.
End Progress.

(* ------------------------------------------------------------------ reachable states *)
Lemma wf_sizes_of_wf c : wf c -> wf_sizes (map N.to_nat (priority_numbers c)).
Proof.
  intros W. unfold wf, wf_b in W. apply andb_true_iff in W. destruct W as [_ W].
  unfold wf_sizes. apply Forall_forall. intros s Hs. apply in_map_iff in Hs. destruct Hs as (x & <- & Hx).
  rewrite forallb_forall in W. specialize (W x Hx). apply N.leb_le in W. lia.
Qed.

(* in every reachable state every connection's queue is related to an abstract pending set (C12) and its
   client MTU is at least 23 *)
Theorem queue_abstraction_reachable c ops j k :
  wf c -> get_conn (srv_after c (srv_init c) ops) j = Some k ->
  (exists m, st_rel (nq k) m) /\ default_att_mtu <= client_mtu k.
Proof.
  intros W. revert j k.
  apply (inv_reachable c (fun k => (exists m, st_rel (nq k) m) /\ default_att_mtu <= client_mtu k)).
  - split; [|cbn; lia]. eexists. unfold init_conn. cbn [nq]. apply init_rel. apply wf_sizes_of_wf. exact W.
  - intros k m [H _] Hm. split; auto.
  - intros k pos v H. exact H.
  - intros k o [(m & R) Hm]. split.
    + destruct (step_rel _ _ o R) as (m' & _ & R'). exists m'. unfold nq_step. destruct (NQueueModel.step (nq k) o). exact R'.
    + unfold nq_step. destruct (NQueueModel.step (nq k) o). exact Hm.
  - intros k e p H. exact H.
Qed.

(* NEVER LOST. In any reachable state of any well formed configuration: an indication request that is pending
   in the queue of connection cid is taken from the queue by l2cap_output - with no indication outstanding -
   after fewer than 2 * (size of the queue) rounds of (Handle Value Confirmation, poll), whatever else is
   pending and whether or not it can be sent; the rest of the connection's data is untouched meanwhile *)
Theorem indication_never_lost c cid n i ops k :
  wf c -> default_att_mtu <= n ->
  (forall st, (exists k, get_conn st cid = Some k) -> att_output c st cid n <> None) ->
  let st := srv_after c (srv_init c) ops in
  get_conn st cid = Some k -> pending_ind (nq k) i ->
  exists j, (j < 2 * qsize (nq k))%nat /\
    exists kj q1,
      get_conn (fst (srv_step c (srv_after c st (rounds cid n j)) (OpIn cid [30] n))) cid = Some kj
      /\ same_but_queue k kj /\ out_of kj = None
      /\ NQueueModel.step (nq kj) Dequeue = (q1, OEntry (Some (KInd, i))).
Proof.
  intros W Hn Hs st G (mq & R & Hp).
  destruct (queue_abstraction_reachable c ops cid k W G) as (_ & Mk).
  assert (Wm : default_att_mtu <= max_mtu c).
  { unfold wf, wf_b in W. repeat (apply andb_true_iff in W; destruct W as [W ?]).
    match goal with H : (default_att_mtu <=? max_mtu c) = true |- _ => apply N.leb_le in H; exact H end. }
  apply (indication_progress c cid n i Hn Wm Hs (2 * qsize (nq k)) st k mq G Mk R); auto.
  rewrite <- (mtotal_qsize _ _ R). apply mcount_le.
Qed.
