(* The transcribed ATT server (AttSrvModel.v) refines the reference semantics of values, link security
   and the prepared write queue (AttSrvSpecVal.v). Shared by the proofs of C05, C06, C07.

   Part 1  attribute level: spec_protected = characteristic_requires_encryption, security_check = sec_error,
           value_read / value_write / access_write against aread_value / aperm / awrite
   Part 2  buffers: the exact bytes of the responses
   Part 3  the simulation relation [sim] between model state and reference state and its preservation by every
           operation, together with the expectation [sat] on the model's output *)
From Coq Require Import Lia ZifyBool.
From BT Require Import Base.ListX AttDb.AttDbModel NQueue.NQueueModel AttSrv.AttSrvModel AttSrv.AttSrvSpecC01
  AttSrv.AttSrvProofsC01 AttSrv.AttSrvSpecVal.
Local Open Scope N_scope.

(* ================================================================== Part 1: attributes *)

(* C05 spec: the innermost explicit choice IS the code's characteristic_requires_encryption, for every
   placement of the three options on the three levels (2^6 relevant placements, by case analysis) *)
Lemma spec_protected_eq c s ch : spec_protected c s ch = char_requires_encryption c s ch.
Proof.
  unfold spec_protected, char_requires_encryption, encryption_default, explicit_choice.
  destruct (e_noreq (c_enc ch)), (e_req (c_enc ch)), (e_noreq (s_enc s)), (e_req (s_enc s)),
    (e_noreq (enc c)), (e_req (enc c)); reflexivity.
Qed.

Definition to_ares (r : acc_res) : ares :=
  match r with Success => AOk | Err e => AErr e | ValueEqual => AErr err_invalid_offset end.

Lemma security_check_spec req enc pair :
  security_check req enc pair = match sec_error req enc pair with Some e => Err e | None => Success end.
Proof. unfold security_check, sec_error. destruct req, enc; cbn; try reflexivity. destruct (pair =? 0); reflexivity. Qed.

(* the handler calls the reference counts: (writes, empty writes) *)
Definition wlog_of (st : srv_state) : list (N * N) := map (fun x => (snd (fst x), snd x)) (hlogs st).

(* what a read access may change: the read counters of the handler log only *)
Definition same_but_reads (st st' : srv_state) : Prop :=
  vals st' = vals st /\ wq_owner st' = wq_owner st /\ wq_elems st' = wq_elems st /\ conns st' = conns st
  /\ wlog_of st' = wlog_of st.

Lemma same_but_reads_refl st : same_but_reads st st.
Proof. repeat split. Qed.

Lemma same_but_reads_trans a b c : same_but_reads a b -> same_but_reads b c -> same_but_reads a c.
Proof. unfold same_but_reads. intros (A1 & A2 & A3 & A4 & A5) (B1 & B2 & B3 & B4 & B5). repeat split; congruence. Qed.

Lemma map_upd (A B : Type) (f : A -> B) (l : list A) i v : map f (upd l i v) = upd (map f l) i (f v).
Proof. revert i; induction l as [|h t IH]; intros [|j]; cbn; auto. f_equal; auto. Qed.

Lemma map_upd_invariant (A B : Type) (f : A -> B) (F : A -> A) (l : list A) g d :
  (forall x, f (F x) = f x) -> map f (upd l g (F (nth g l d))) = map f l.
Proof.
  intros HF. revert g; induction l as [|h t IH]; intros [|j]; cbn; auto.
  - rewrite HF. reflexivity.
  - f_equal. apply IH.
Qed.

Lemma log_read_same st g : same_but_reads st (log_call st g (fun '(r, w, e) => (r + 1, w, e))).
Proof.
  unfold same_but_reads, log_call, set_hlogs, wlog_of. cbn. repeat split.
  apply map_upd_invariant with (F := fun '(r, w, e) => (r + 1, w, e)).
  intros [[r w] e]. reflexivity.
Qed.

(* handler value with a read handler and no_read_access: the known finding of C06 *)
Definition k1 (ch : char_decl) : bool :=
  match c_value ch with VHandler _ rd _ _ => rd && c_no_read ch | _ => false end.

Lemma mem_read_sub mem off maxlen :
  mem_read mem off maxlen = if len mem <? off then (Err err_invalid_offset, []) else (Success, sub mem off (N.min maxlen (len mem - off))).
Proof. reflexivity. Qed.

(* a read of a characteristic value answers as the reference semantics says (unless k1) and changes read
   counters only *)
Lemma value_read_spec c st enc pair s ch g off maxlen st' rc d :
  value_read c st (enc, pair) s ch g off maxlen = (st', rc, d) ->
  same_but_reads st st' /\
  (k1 ch = false \/ sec_error (spec_protected c s ch) enc pair <> None ->
   aread_value c (vals st) enc pair s ch g off maxlen = (to_ares rc, d)).
Proof.
  unfold value_read, aread_value. rewrite security_check_spec, <- spec_protected_eq. cbn [fst snd].
  destruct (sec_error (spec_protected c s ch) enc pair) as [e|].
  - intros H; inv H. split; [apply same_but_reads_refl|reflexivity].
  - unfold k1.
    assert (X : forall P : Prop, (match c_value ch with VHandler _ rd _ _ => rd && c_no_read ch | _ => false end = false -> P) ->
                (match c_value ch with VHandler _ rd _ _ => rd && c_no_read ch | _ => false end = false \/ @None N <> None -> P))
      by (intros P HP [K|K]; [exact (HP K)|contradiction]).
    unfold spec_readable, not_long, spec_value, get_val.
    destruct (c_value ch) as [size k|size v|bytes|size hrd hwr blob].
    + destruct (c_no_read ch); cbn [negb].
      * intros H; inv H. split; [apply same_but_reads_refl|reflexivity].
      * rewrite mem_read_sub. destruct (len (nth g (vals st) []) <? off); intros H; inv H; (split; [apply same_but_reads_refl|reflexivity]).
    + destruct (c_no_read ch); cbn [negb].
      * intros H; inv H. split; [apply same_but_reads_refl|reflexivity].
      * rewrite mem_read_sub. destruct (len (fixed_bytes size v) <? off); intros H; inv H; (split; [apply same_but_reads_refl|reflexivity]).
    + rewrite mem_read_sub. cbn [negb]. destruct (len bytes <? off); intros H; inv H; (split; [apply same_but_reads_refl|reflexivity]).
    + destruct hrd; cbn [negb andb].
      * destruct (negb blob && negb (off =? 0)).
        -- intros H; inv H. split; [apply same_but_reads_refl|]. apply X. intros K. cbn [andb] in K. rewrite K. reflexivity.
        -- rewrite mem_read_sub. destruct (len (nth g (vals st) []) <? off); intros H; inv H;
             (split; [apply log_read_same|]); apply X; intros K; cbn [andb] in K; rewrite K; reflexivity.
      * intros H; inv H. split; [apply same_but_reads_refl|reflexivity].
Qed.

(* ------------------------------------------------------------------ the simulation relation *)
Definition aconn_of_conn (k : conn) : aconn := mkAC (client_mtu k) (encrypted k) (pairing k).

(* a queue element as the reference queue sees it: handle, offset, bytes *)
Definition dec_elem (e : list N) : N * N * list N :=
  (nth 0 e 0 + 256 * nth 1 e 0, nth 2 e 0 + 256 * nth 3 e 0, skipn 4 e).
Definition elem_ok (c : cfg) (e : list N) : Prop := 4 <= len e /\ attr_of c (fst (fst (dec_elem e))) <> None.

(* a characteristic value behind a write handler: the known finding of C07 (the probe calls the handler) *)
Definition k2 (ch : char_decl) : bool := match c_value ch with VHandler _ _ wr _ => wr | _ => false end.
Definition no_k2 (c : cfg) : Prop :=
  forall i s ch g cci, attribute_at c i = Some (AValue s ch g cci) -> k2 ch = false.

(* the handler call counters agree as long as no Prepare Write probe reaches a write handler *)
Record sim (c : cfg) (st : srv_state) (a : astate) : Prop := mkSim {
  sim_vals : as_vals a = vals st;
  sim_wlog : no_k2 c -> as_wlog a = wlog_of st;
  sim_conns : as_conns a = map aconn_of_conn (conns st);
  sim_owner : as_owner a = wq_owner st;
  sim_queue : as_queue a = map dec_elem (wq_elems st);
  sim_qok : Forall (elem_ok c) (wq_elems st) }.
Arguments sim_vals {c st a}.
Arguments sim_wlog {c st a}.
Arguments sim_conns {c st a}.
Arguments sim_owner {c st a}.
Arguments sim_queue {c st a}.
Arguments sim_qok {c st a}.

Lemma sim_set_mark c st a g m : sim c st a -> sim c st (set_mark a g m).
Proof. intros [H1 H2 H3 H4 H5 H6]. constructor; assumption. Qed.

Lemma sim_reads c st st' a : sim c st a -> same_but_reads st st' -> sim c st' a.
Proof.
  intros [H1 H2 H3 H4 H5 H6] (R1 & R2 & R3 & R4 & R5). constructor; try congruence.
  intros NK. rewrite R5. auto.
Qed.

Lemma sim_conn c st a cid k : sim c st a -> get_conn st cid = Some k -> aconn_of a cid = aconn_of_conn k.
Proof.
  intros S G. unfold aconn_of. rewrite (sim_conns S). unfold get_conn in G.
  rewrite (nth_indep _ _ (aconn_of_conn k)).
  - rewrite map_nth. f_equal. apply nth_error_nth. exact G.
  - rewrite map_length. apply nth_error_Some. congruence.
Qed.

Lemma map_upd_same_image (A B : Type) (f : A -> B) (l : list A) i k k' :
  nth_error l i = Some k -> f k' = f k -> map f (upd l i k') = map f l.
Proof.
  revert i; induction l as [|h t IH]; intros [|j] G E; cbn in *; try discriminate.
  - inv G. rewrite E. reflexivity.
  - f_equal. eapply IH; eauto.
Qed.

(* changing the CCCDs or the notification queue of a connection is invisible to the reference state *)
Lemma sim_set_conn c st a cid k k' :
  sim c st a -> get_conn st cid = Some k -> aconn_of_conn k' = aconn_of_conn k -> sim c (set_conn st cid k') a.
Proof.
  intros [H1 H2 H3 H4 H5 H6] G E. constructor; cbn; try assumption.
  rewrite H3. symmetry. eapply map_upd_same_image; eauto.
Qed.

Lemma wlog_of_log_write st g (data : list N) :
  wlog_of (log_call st g (fun '(r, w, e) => (r, w + 1, if len data =? 0 then e + 1 else e)))
  = upd (wlog_of st) g (let '(w, e) := nth g (wlog_of st) (0, 0) in (w + 1, if len data =? 0 then e + 1 else e)).
Proof.
  unfold wlog_of, log_call, set_hlogs. cbn [hlogs]. rewrite map_upd. f_equal.
  pose proof (map_nth (fun x : N * N * N => (snd (fst x), snd x)) (hlogs st) (0, 0, 0) g) as M.
  cbn [fst snd] in M. rewrite M.
  destruct (nth g (hlogs st) (0, 0, 0)) as [[r w] e]. reflexivity.
Qed.

Lemma mem_write_splice mem off data :
  mem_write mem off data =
  if len mem <? off then (Err err_invalid_offset, mem)
  else if len mem <? off + len data then (Err err_invalid_attribute_value_length, mem)
  else (Success, splice mem off data).
Proof.
  unfold mem_write, splice, takeN, dropN. rewrite (N.add_comm (len data) off).
  destruct (len mem <? off); [reflexivity|]. destruct (len mem <? off + len data); [reflexivity|].
  unfold len. rewrite N2Nat.inj_add, Nat2N.id. reflexivity.
Qed.

(* a write through an attribute: the model answers and changes the state as the reference semantics does *)
Lemma access_write_sim c st a cid at_ off data st' rc m :
  sim c st a -> access_write c st cid at_ off data = Some (st', rc) ->
  fst (awrite c a cid at_ off data m) = to_ares rc /\ sim c st' (snd (awrite c a cid at_ off data m)).
Proof.
  intros S. unfold access_write. destruct (get_conn st cid) as [k|] eqn:G; [|discriminate].
  pose proof (sim_conn c st a cid k S G) as K.
  destruct at_ as [s|u|s ch|s ch g cci|s ch cci|nm|u v]; cbn [awrite].
  - intros H; inv H. split; [reflexivity|exact S].
  - intros H; inv H. split; [reflexivity|exact S].
  - intros H; inv H. split; [reflexivity|exact S].
  - (* characteristic value *)
    unfold value_write, aperm. rewrite K. cbn [ac_enc ac_pair aconn_of_conn fst snd].
    rewrite security_check_spec, <- spec_protected_eq.
    destruct (sec_error (spec_protected c s ch) (encrypted k) (pairing k)) as [e|] eqn:Es.
    + intros H; inv H. split; [reflexivity|]. apply sim_set_mark. exact S.
    + unfold spec_writable, not_long. destruct (c_value ch) as [size kc|size v|bytes|size hrd hwr blob].
      * destruct kc, (c_no_write ch); cbn [negb andb orb];
          try (intros H; inv H; split; [reflexivity|apply sim_set_mark; exact S]).
        rewrite mem_write_splice. rewrite (sim_vals S). unfold get_val.
        destruct (len (nth g (vals st) []) <? off).
        { intros H; inv H. split; [reflexivity|]. destruct S as [H1 H2 H3 H4 H5 H6]. constructor; cbn; try assumption.
          rewrite upd_same. reflexivity. }
        destruct (len (nth g (vals st) []) <? off + len data).
        { intros H; inv H. split; [reflexivity|]. destruct S as [H1 H2 H3 H4 H5 H6]. constructor; cbn; try assumption.
          rewrite upd_same. reflexivity. }
        intros H; inv H. split; [reflexivity|]. destruct S as [H1 H2 H3 H4 H5 H6]. constructor; cbn; try assumption.
        reflexivity.
      * intros H; inv H. split; [reflexivity|apply sim_set_mark; exact S].
      * intros H; inv H. split; [reflexivity|apply sim_set_mark; exact S].
      * destruct hwr; cbn [negb].
        2:{ intros H; inv H. split; [reflexivity|apply sim_set_mark; exact S]. }
        destruct (negb blob && negb (off =? 0)).
        { intros H; inv H. split; [reflexivity|apply sim_set_mark; exact S]. }
        rewrite mem_write_splice. rewrite (sim_vals S). unfold get_val.
        pose proof (wlog_of_log_write st g data) as W.
        set (st1 := log_call st g (fun '(r, w, e) => (r, w + 1, if len data =? 0 then e + 1 else e))) in *.
        assert (V1 : vals st1 = vals st) by reflexivity.
        destruct (len (nth g (vals st) []) <? off).
        { intros H; inv H. split; [reflexivity|]. destruct S as [H1 H2 H3 H4 H5 H6]. constructor; cbn; try assumption.
          - rewrite upd_same. reflexivity.
          - intros NK. rewrite (H2 NK). symmetry. exact W. }
        destruct (len (nth g (vals st) []) <? off + len data).
        { intros H; inv H. split; [reflexivity|]. destruct S as [H1 H2 H3 H4 H5 H6]. constructor; cbn; try assumption.
          - rewrite upd_same. reflexivity.
          - intros NK. rewrite (H2 NK). symmetry. exact W. }
        intros H; inv H. split; [reflexivity|]. destruct S as [H1 H2 H3 H4 H5 H6]. constructor; cbn; try assumption.
        -- reflexivity.
        -- intros NK. rewrite (H2 NK). symmetry. exact W.
  - (* client characteristic configuration *)
    unfold aperm. rewrite K. cbn [ac_enc ac_pair aconn_of_conn fst snd].
    rewrite security_check_spec, <- spec_protected_eq.
    destruct (sec_error (spec_protected c s ch) (encrypted k) (pairing k)) as [e|] eqn:Es.
    + intros H; inv H. split; [reflexivity|exact S].
    + unfold cccd_write. rewrite (N.add_comm (len data) off).
      destruct (2 <? off); [intros H; inv H; split; [reflexivity|exact S]|].
      destruct (2 <? off + len data); [intros H; inv H; split; [reflexivity|exact S]|].
      destruct (off =? 0); intros H; inv H; (split; [reflexivity|]); [|exact S].
      eapply sim_set_conn; eauto.
  - destruct (len nm <? off); intros H; inv H; (split; [reflexivity|exact S]).
  - intros H; inv H. split; [reflexivity|exact S].
Qed.

(* ================================================================== Part 2: buffers *)
Lemma firstn_len_app (A : Type) (d y : list A) : firstn (length d) (d ++ y) = d.
Proof. rewrite firstn_app, Nat.sub_diag, firstn_all. cbn. apply app_nil_r. Qed.

Lemma error_response_exact op code h b out_size b' k :
  5 <= out_size -> error_response op code h b out_size = Some (b', k) -> k <= len b' /\ takeN k b' = err_rsp op h code.
Proof.
  intros Ho. unfold error_response. replace (5 <=? out_size) with true by (symmetry; apply N.leb_le; exact Ho).
  destruct (put b 0 (1 :: op :: le16 h ++ [code])) as [b1|] eqn:E; [|discriminate]. intros H. inv H.
  split.
  - pose proof (put_len _ _ _ _ E) as L. unfold put in E.
    destruct (0 + len (1 :: op :: le16 h ++ [code]) <=? len b) eqn:E1; [|discriminate]. apply N.leb_le in E1.
    unfold le16, len in *. cbn in E1. lia.
  - apply put_take in E. exact E.
Qed.

Lemma put_spec b p bs b' :
  put b p bs = Some b' ->
  b' = firstn (N.to_nat p) b ++ bs ++ skipn (N.to_nat p + length bs) b /\ (N.to_nat p + length bs <= length b)%nat.
Proof.
  unfold put. destruct (p + len bs <=? len b) eqn:E; [|discriminate]. apply N.leb_le in E. intros H. apply some_inj in H.
  subst b'. unfold takeN, dropN, len in *. rewrite N2Nat.inj_add, Nat2N.id. split; [reflexivity|lia].
Qed.

Lemma to_nat_1_len (A : Type) (d : list A) : N.to_nat (1 + len d) = S (length d).
Proof. unfold len. lia. Qed.

(* the response written by the read handlers: data at 1, then the opcode at 0 *)
Lemma put_data_then_opcode b d x b1 b2 :
  put b 1 d = Some b1 -> put b1 0 [x] = Some b2 -> 1 + len d <= len b2 /\ takeN (1 + len d) b2 = x :: d.
Proof.
  intros P1 P2. pose proof (put_len _ _ _ _ P1) as L1. pose proof (put_len _ _ _ _ P2) as L2.
  apply put_spec in P1. destruct P1 as [P1 B1]. apply put_spec in P2. destruct P2 as [P2 B2].
  change (N.to_nat 1) with 1%nat in *. change (N.to_nat 0) with 0%nat in *.
  split; [unfold len in *; lia|].
  destruct b as [|x0 b0]; [cbn [length] in B1; lia|].
  cbn [firstn app] in P1. subst b1. cbn [firstn skipn app Nat.add length] in P2. subst b2.
  unfold takeN. rewrite to_nat_1_len. cbn [firstn]. f_equal. apply firstn_len_app.
Qed.

(* the Prepare Write Response: the opcode at 0, then the echo at 1 *)
Lemma put_opcode_then_data b d x b1 b2 :
  put b 0 [x] = Some b1 -> put b1 1 d = Some b2 -> 1 + len d <= len b2 /\ takeN (1 + len d) b2 = x :: d.
Proof.
  intros P1 P2. pose proof (put_len _ _ _ _ P1) as L1. pose proof (put_len _ _ _ _ P2) as L2.
  apply put_spec in P1. destruct P1 as [P1 B1]. apply put_spec in P2. destruct P2 as [P2 B2].
  change (N.to_nat 1) with 1%nat in *. change (N.to_nat 0) with 0%nat in *.
  split; [unfold len in *; lia|].
  cbn [firstn app Nat.add length] in P1. subst b1. cbn [firstn app] in P2. subst b2.
  unfold takeN. rewrite to_nat_1_len. cbn [firstn]. f_equal. apply firstn_len_app.
Qed.

(* reading the fields of a request with a known shape *)
Lemma rd_0 x t : rd (x :: t) 0 = Some x.
Proof. unfold rd, len. cbn [length]. destruct (0 <? N.of_nat (S (length t))) eqn:E; [reflexivity|]. apply N.ltb_ge in E. lia. Qed.

Lemma rd_1 x y t : rd (x :: y :: t) 1 = Some y.
Proof. unfold rd, len. cbn [length]. destruct (1 <? N.of_nat (S (S (length t)))) eqn:E; [reflexivity|]. apply N.ltb_ge in E. lia. Qed.

Lemma rd16_1 o lo hi t : rd16 (o :: lo :: hi :: t) 1 = Some (lo + 256 * hi).
Proof.
  unfold rd16, rd, len. cbn [length].
  destruct (1 <? N.of_nat (S (S (S (length t))))) eqn:E; [|apply N.ltb_ge in E; lia].
  destruct (1 + 1 <? N.of_nat (S (S (S (length t))))) eqn:E2; [|apply N.ltb_ge in E2; lia]. reflexivity.
Qed.

Lemma rd16_3 o a b lo hi t : rd16 (o :: a :: b :: lo :: hi :: t) 3 = Some (lo + 256 * hi).
Proof.
  unfold rd16, rd, len. cbn [length].
  destruct (3 <? N.of_nat (S (S (S (S (S (length t))))))) eqn:E; [|apply N.ltb_ge in E; lia].
  destruct (3 + 1 <? N.of_nat (S (S (S (S (S (length t))))))) eqn:E2; [|apply N.ltb_ge in E2; lia]. reflexivity.
Qed.

Lemma slice_all_from (pdu : list N) k : (k <= length pdu)%nat -> slice pdu (N.of_nat k) (len pdu) = Some (skipn k pdu).
Proof.
  intros H. unfold slice, len. destruct ((N.of_nat k <=? N.of_nat (length pdu)) && (N.of_nat (length pdu) <=? N.of_nat (length pdu))) eqn:E.
  - f_equal. unfold takeN, dropN. rewrite Nat2N.id. apply firstn_all2. rewrite skipn_length. lia.
  - apply andb_false_iff in E. destruct E as [E|E]; apply N.leb_gt in E; lia.
Qed.

Lemma len_cons (A : Type) (x : A) t : len (x :: t) = 1 + len t.
Proof. unfold len. cbn [length]. lia. Qed.

(* ================================================================== Part 3: the operations *)
Definition sat (c : cfg) (x : expect) (r : srv_out) : Prop :=
  match x with
  | XAny => True
  | XResp _ _ _ rsp => r = OBytes rsp
  | XProps p => forall p' t, r = OBytes (11 :: p' :: t) -> p' = p
  | XVal _ v wl =>
      exists lg, r = OValue v lg /\
                 (no_k2 c ->
                  match wl, lg with
                  | Some (w, e), Some (_, w', e') => w = w' /\ e = e'
                  | None, None => True
                  | _, _ => False
                  end)
  end.

(* no characteristic has a read handler together with no_read_access (the known finding of C06) *)
Definition no_k1 (c : cfg) : Prop :=
  forall i s ch g cci, attribute_at c i = Some (AValue s ch g cci) -> k1 ch = false.

(* l2cap_input: the preamble and the framing of the result, the handler chosen by the opcode *)
Lemma att_input_inv c st cid op t n st' rs k :
  get_conn st cid = Some k -> att_input c st cid (op :: t) n = Some (st', rs) ->
  let out_size := N.min n (negotiated_mtu c k) in
  let pdu := op :: t in
  let b := repeat fill_byte (N.to_nat n) in
  23 <= out_size /\
  exists b' m, m <= len b' /\ rs = takeN m b' /\
    (if op =? 1 then Some (st, (b, 0))
     else if op =? 2 then handle_exchange_mtu c st cid pdu b out_size
     else if op =? 4 then do x <- handle_find_information c pdu b out_size; Some (st, x)
     else if op =? 6 then do x <- handle_find_by_type_value c st cid pdu b out_size; Some (st, x)
     else if op =? 8 then handle_read_by_type c st cid pdu b out_size
     else if op =? 10 then handle_read c st cid pdu b out_size
     else if op =? 12 then handle_read_blob c st cid pdu b out_size
     else if op =? 16 then do x <- handle_read_by_group_type c pdu b out_size; Some (st, x)
     else if op =? 14 then handle_read_multiple c st cid pdu b out_size
     else if op =? 18 then handle_write_request c st cid pdu b out_size
     else if op =? 82 then handle_write_command c st cid pdu b out_size
     else if op =? 22 then handle_prepare_write c st cid pdu b out_size
     else if op =? 24 then handle_execute_write c st cid pdu b out_size
     else if op =? 30 then handle_confirmation c st cid pdu b out_size
     else do x <- error_response op err_request_not_supported 0 b out_size; Some (st, x)) = Some (st', (b', m)).
Proof.
  intros G. unfold att_input. rewrite G. rewrite len_cons.
  destruct (1 + len t =? 0) eqn:E0; [apply N.eqb_eq in E0; lia|].
  destruct (N.min n (negotiated_mtu c k) <? default_att_mtu) eqn:E1; [discriminate|].
  apply N.ltb_ge in E1. rewrite rd_0. intros H. cbv zeta. split; [exact E1|].
  match type of H with match ?X with Some _ => _ | None => None end = _ => destruct X as [[st1 [b1 m1]]|] eqn:E2; [|discriminate] end.
  destruct (m1 <=? len b1) eqn:E3; [|discriminate]. apply N.leb_le in E3. apply some_inj in H. apply pair_inj in H. destruct H as [-> <-].
  exists b1, m1. split; [exact E3|]. split; [reflexivity|]. reflexivity.
Qed.

Lemma char_properties_spec ch : char_properties ch = spec_properties ch.
Proof.
  unfold char_properties, spec_properties, v_has_read, v_has_write, v_has_wwr, v_has_notification, v_has_indication,
    spec_readable, spec_writable, stored.
  destruct (c_value ch); cbn [andb negb]; rewrite ?andb_true_r, ?andb_false_r; reflexivity.
Qed.

Lemma value_read_not_equal c st sec s ch g off maxlen st' rc d :
  value_read c st sec s ch g off maxlen = (st', rc, d) -> rc <> ValueEqual.
Proof.
  unfold value_read. rewrite security_check_spec. destruct (sec_error _ _ _); [intros H; inv H; discriminate|].
  destruct (c_value ch) as [size k|size v|bytes|size hrd hwr blob]; unfold mem_read.
  - destruct (c_no_read ch); [intros H; inv H; discriminate|]. destruct (_ <? _); intros H; inv H; discriminate.
  - destruct (c_no_read ch); [intros H; inv H; discriminate|]. destruct (_ <? _); intros H; inv H; discriminate.
  - destruct (_ <? _); intros H; inv H; discriminate.
  - destruct (negb hrd); [intros H; inv H; discriminate|]. destruct (negb blob && _); [intros H; inv H; discriminate|].
    destruct (_ <? _); intros H; inv H; discriminate.
Qed.

(* every read access changes read counters only *)
Lemma access_read_same c st cid a i off maxlen st' rc d :
  access_read c st cid a i off maxlen = Some (st', rc, d) -> same_but_reads st st'.
Proof.
  unfold access_read. destruct (get_conn st cid) as [k|]; [|discriminate].
  destruct a as [s|u|s ch|s ch g cci|s ch cci|nm|u v].
  - destruct (mem_read _ _ _). intros H; inv H. apply same_but_reads_refl.
  - destruct (mem_read _ _ _). intros H; inv H. apply same_but_reads_refl.
  - destruct (char_decl_value c ch i); [|discriminate]. destruct (mem_read _ _ _). intros H; inv H. apply same_but_reads_refl.
  - intros H. apply some_inj in H. apply value_read_spec in H. apply H.
  - destruct (security_check _ _ _); try (intros H; inv H; apply same_but_reads_refl).
    destruct (mem_read _ _ _). intros H; inv H. apply same_but_reads_refl.
  - destruct (mem_read _ _ _). intros H; inv H. apply same_but_reads_refl.
  - destruct (mem_read _ _ _). intros H; inv H. apply same_but_reads_refl.
Qed.


Lemma attr_of_index c h : h <> 0 -> index_by_handle c h <> invalid_index -> attr_of c h = attribute_at c (index_by_handle c h).
Proof.
  intros H0 Hi. unfold attr_of. destruct (h =? 0) eqn:E; [apply N.eqb_eq in E; contradiction|].
  destruct (index_by_handle c h =? invalid_index) eqn:E1; [apply N.eqb_eq in E1; contradiction|]. reflexivity.
Qed.

Lemma takeN_cons_inv (n : N) (v : list N) p t : takeN n v = p :: t -> exists t', v = p :: t'.
Proof. unfold takeN. destruct (N.to_nat n); [discriminate|]. destruct v as [|x v']; [discriminate|]. cbn. intros H. inv H. eexists. reflexivity. Qed.

Lemma mem_read_not_equal mem off maxlen rc d : mem_read mem off maxlen = (rc, d) -> rc <> ValueEqual.
Proof. unfold mem_read. destruct (_ <? _); intros H; inv H; discriminate. Qed.

Lemma access_read_not_equal c st cid a i off maxlen st' rc d :
  access_read c st cid a i off maxlen = Some (st', rc, d) -> rc <> ValueEqual.
Proof.
  unfold access_read. destruct (get_conn st cid) as [k|]; [|discriminate].
  destruct a as [s|u|s ch|s ch g cci|s ch cci|nm|u v].
  - destruct (mem_read _ _ _) eqn:E. intros H; inv H. eapply mem_read_not_equal; eauto.
  - destruct (mem_read _ _ _) eqn:E. intros H; inv H. eapply mem_read_not_equal; eauto.
  - destruct (char_decl_value c ch i); [|discriminate]. destruct (mem_read _ _ _) eqn:E. intros H; inv H. eapply mem_read_not_equal; eauto.
  - intros H. apply some_inj in H. eapply value_read_not_equal; eauto.
  - rewrite security_check_spec. destruct (sec_error _ _ _); [intros H; inv H; discriminate|].
    destruct (mem_read _ _ _) eqn:E. intros H; inv H. eapply mem_read_not_equal; eauto.
  - destruct (mem_read _ _ _) eqn:E. intros H; inv H. eapply mem_read_not_equal; eauto.
  - destruct (mem_read _ _ _) eqn:E. intros H; inv H. eapply mem_read_not_equal; eauto.
Qed.

(* the bytes of a Read / Read Blob response *)
Lemma read_resp_exact (st1 st' : srv_state) rc d b rsp op h out_size b' m :
  23 <= out_size -> rc <> ValueEqual ->
  match rc with
  | Success => do b1 <- put b 1 d; do b2 <- put b1 0 [rsp]; Some (st1, (b2, 1 + len d))
  | _ => do e <- error_response op (att_code rc err_read_not_permitted) h b out_size; Some (st1, e)
  end = Some (st', (b', m)) ->
  st' = st1 /\ m <= len b' /\ takeN m b' = match to_ares rc with AOk => rsp :: d | AErr e => err_rsp op h e end.
Proof.
  intros Ho NE H. destruct rc as [|code|]; [| |contradiction].
  - mon. destruct (put_data_then_opcode _ _ _ _ _ E E0) as [L T]. repeat split; assumption.
  - mon. destruct (error_response_exact _ _ _ _ out_size _ _ ltac:(lia) E) as [L T]. repeat split; assumption.
Qed.

(* the expectation is a refusal for insufficient security *)
Definition exp_sec (x : expect) : bool := match x with XResp _ e _ _ => is_sec e | _ => false end.
Definition read_kind (x : expect) : bool := match x with XResp k _ _ _ => Nat.eqb k k_read | _ => false end.

(* when the expectation is binding for the model: a read expectation needs a configuration without the known
   finding of C06, unless the expected answer is a security error (security is checked first) *)
Definition sat_cond (c : cfg) (x : expect) : Prop :=
  match x with
  | XResp k e _ _ => Nat.eqb k k_read = true -> no_k1 c \/ is_sec e = true
  | _ => True
  end.

Lemma aread_value_sec c store enc pair s ch g off maxlen r d :
  aread_value c store enc pair s ch g off maxlen = (r, d) -> is_sec r = true ->
  sec_error (spec_protected c s ch) enc pair <> None.
Proof.
  unfold aread_value. destruct (sec_error _ _ _); [discriminate|].
  destruct (negb (spec_readable ch)); [intros H; inv H; discriminate|].
  destruct (not_long ch off); [intros H; inv H; discriminate|].
  destruct (_ <? _); intros H; inv H; discriminate.
Qed.

(* Read / Read Blob of an existing attribute *)
Lemma read_common_sim c st a cid k pdu op b out_size rsp h off n jd st' b' m :
  sim c st a -> get_conn st cid = Some k ->
  rd pdu 0 = Some op -> 23 <= out_size -> out_size = out_limit c a cid n ->
  h <> 0 -> index_by_handle c h <> invalid_index -> (jd = true -> off = 0 /\ rsp = 11) ->
  handle_read_common c st cid pdu b out_size rsp h (index_by_handle c h) off = Some (st', (b', m)) ->
  same_but_reads st st' /\ m <= len b' /\
  (sat_cond c (aread c a cid op rsp h off n jd) -> sat c (aread c a cid op rsp h off n jd) (OBytes (takeN m b'))).
Proof.
  intros S G Hop Ho Hl H0 Hi Hjd. unfold handle_read_common. rewrite Hop.
  unfold aread. rewrite (attr_of_index c h H0 Hi).
  destruct (attribute_at c (index_by_handle c h)) as [at_|] eqn:EA; [|discriminate].
  destruct (access_read c st cid at_ (index_by_handle c h) off (out_size - 1)) as [[[st1 rc] d]|] eqn:ER; [|discriminate].
  pose proof (access_read_same _ _ _ _ _ _ _ _ _ _ ER) as Same.
  pose proof (access_read_not_equal _ _ _ _ _ _ _ _ _ _ ER) as NE.
  pose proof (sim_conn c st a cid k S G) as K.
  intros H. destruct (read_resp_exact _ _ _ _ _ _ _ _ _ _ _ Ho NE H) as (-> & L & T). clear H.
  split; [exact Same|]. split; [exact L|].
  destruct at_ as [s|u|s ch|s ch g cci|s ch cci|nm|u v]; try (intros _; exact I).
  - (* characteristic declaration *)
    intros _. destruct jd; [|exact I]. cbn [sat]. intros p' t HB.
    assert (HT : takeN m b' = 11 :: p' :: t) by (inversion HB; reflexivity). clear HB. rewrite T in HT. clear T.
    destruct (Hjd eq_refl) as [-> ->].
    unfold access_read in ER. rewrite G in ER.
    destruct (char_decl_value c ch (index_by_handle c h)) as [v|] eqn:EV; [|discriminate].
    unfold mem_read in ER. destruct (len v <? 0) eqn:EO; [apply N.ltb_lt in EO; lia|].
    apply some_inj in ER. apply pair_inj in ER. destruct ER as [ER Ed]. apply pair_inj in ER. destruct ER as [_ <-].
    cbn [to_ares] in HT. apply (f_equal (@tl N)) in HT. cbn [tl] in HT. rewrite <- Ed in HT.
    apply takeN_cons_inv in HT. destruct HT as [t' Hv].
    unfold char_decl_value in EV. destruct (handle_by_index c (index_by_handle c h + 1) =? invalid_handle); [discriminate|].
    apply some_inj in EV. unfold dropN in Hv. cbn [N.to_nat skipn] in Hv. rewrite <- EV in Hv.
    apply (f_equal (fun l => nth 0 l 0)) in Hv. cbn [nth] in Hv. rewrite <- Hv. apply char_properties_spec.
  - (* characteristic value *)
    unfold access_read in ER. rewrite G in ER. apply some_inj in ER.
    apply value_read_spec in ER. destruct ER as [_ ER].
    rewrite K. cbn [ac_enc ac_pair aconn_of_conn]. rewrite (sim_vals S), <- Hl.
    destruct (aread_value c (vals st) (encrypted k) (pairing k) s ch g off (out_size - 1)) as [r0 d0] eqn:EV.
    cbn [sat_cond sat]. intros Hc. specialize (Hc (Nat.eqb_refl _)).
    assert (ER' : (r0, d0) = (to_ares rc, d)).
    { apply ER. destruct Hc as [NK|Hs]; [left; eapply NK; eauto|right]. eapply aread_value_sec; eauto. }
    apply pair_inj in ER'. destruct ER' as [-> ->]. rewrite T. reflexivity.
  - (* client characteristic configuration *)
    unfold access_read in ER. rewrite G in ER. rewrite K. cbn [ac_enc ac_pair aconn_of_conn fst snd] in *.
    rewrite security_check_spec, <- spec_protected_eq in ER.
    destruct (sec_error (spec_protected c s ch) (encrypted k) (pairing k)) as [e|]; [|intros _; exact I].
    apply some_inj in ER. apply pair_inj in ER. destruct ER as [ER <-]. apply pair_inj in ER. destruct ER as [_ <-].
    intros _. cbn [sat]. rewrite T. reflexivity.
Qed.

Lemma attr_of_zero c : attr_of c 0 = None.
Proof. reflexivity. Qed.

Lemma attr_of_invalid c h : index_by_handle c h = invalid_index -> attr_of c h = None.
Proof. intros E. unfold attr_of. destruct (h =? 0); [reflexivity|]. rewrite E. reflexivity. Qed.

Lemma aread_none c a cid op rsp h off n jd : attr_of c h = None -> aread c a cid op rsp h off n jd = XAny.
Proof. intros E. unfold aread. rewrite E. reflexivity. Qed.

(* check_handle on a request  op lo hi ... *)
Lemma check_handle_cases c op lo hi t b out_size r :
  23 <= out_size ->
  check_handle c (op :: lo :: hi :: t) b out_size = Some r ->
  let h := lo + 256 * hi in
  (exists b' m, r = Failed (b', m) /\ m <= len b' /\ attr_of c h = None)
  \/ (r = Passed (h, index_by_handle c h) /\ h <> 0 /\ index_by_handle c h <> invalid_index).
Proof.
  intros Ho. unfold check_handle. rewrite rd_0, rd16_1. cbv zeta.
  destruct (lo + 256 * hi =? 0) eqn:E0.
  - apply N.eqb_eq in E0. intros H. mon. match goal with X : error_response _ _ _ _ _ = Some ?p |- _ => destruct p as [b' m] end. left. exists b', m.
    destruct (error_response_exact _ _ _ _ out_size _ _ ltac:(lia) E) as [L _]. rewrite E0. repeat split; auto.
  - apply N.eqb_neq in E0. destruct (index_by_handle c (lo + 256 * hi) =? invalid_index) eqn:E1.
    + apply N.eqb_eq in E1. intros H. mon. match goal with X : error_response _ _ _ _ _ = Some ?p |- _ => destruct p as [b' m] end. left. exists b', m.
      destruct (error_response_exact _ _ _ _ out_size _ _ ltac:(lia) E) as [L _]. repeat split; auto. apply attr_of_invalid. exact E1.
    + apply N.eqb_neq in E1. intros H. mon. right. repeat split; auto.
Qed.

Lemma handle_read_sim c st a cid k lo hi b out_size n st' b' m :
  sim c st a -> get_conn st cid = Some k -> 23 <= out_size -> out_size = out_limit c a cid n ->
  handle_read c st cid [10; lo; hi] b out_size = Some (st', (b', m)) ->
  same_but_reads st st' /\ m <= len b' /\
  (sat_cond c (aread c a cid 10 11 (lo + 256 * hi) 0 n true) ->
   sat c (aread c a cid 10 11 (lo + 256 * hi) 0 n true) (OBytes (takeN m b'))).
Proof.
  intros S G Ho Hl. unfold handle_read, check_size_and_handle. rewrite rd_0. cbn [len length N.of_nat Pos.of_succ_nat Pos.succ N.eqb Pos.eqb negb].
  destruct (check_handle c [10; lo; hi] b out_size) as [r|] eqn:EC; [|discriminate].
  destruct (check_handle_cases _ _ _ _ _ _ _ _ Ho EC) as [(b1 & m1 & -> & L & EA)|(-> & H0 & Hi)].
  - intros H. mon. split; [apply same_but_reads_refl|]. split; [exact L|]. rewrite aread_none by exact EA. intros _. exact I.
  - intros H. eapply read_common_sim; eauto. apply rd_0.
Qed.

Lemma handle_read_blob_sim c st a cid k lo hi olo ohi b out_size n st' b' m :
  sim c st a -> get_conn st cid = Some k -> 23 <= out_size -> out_size = out_limit c a cid n ->
  handle_read_blob c st cid [12; lo; hi; olo; ohi] b out_size = Some (st', (b', m)) ->
  same_but_reads st st' /\ m <= len b' /\
  (sat_cond c (aread c a cid 12 13 (lo + 256 * hi) (olo + 256 * ohi) n false) ->
   sat c (aread c a cid 12 13 (lo + 256 * hi) (olo + 256 * ohi) n false) (OBytes (takeN m b'))).
Proof.
  intros S G Ho Hl. unfold handle_read_blob, check_size_and_handle. rewrite rd_0. cbn [len length N.of_nat Pos.of_succ_nat Pos.succ N.eqb Pos.eqb negb].
  destruct (check_handle c [12; lo; hi; olo; ohi] b out_size) as [r|] eqn:EC; [|discriminate].
  destruct (check_handle_cases _ _ _ _ _ _ _ _ Ho EC) as [(b1 & m1 & -> & L & EA)|(-> & H0 & Hi)].
  - intros H. mon. split; [apply same_but_reads_refl|]. split; [exact L|]. rewrite aread_none by exact EA. intros _. exact I.
  - rewrite rd16_3. intros H. eapply read_common_sim; eauto. apply rd_0. discriminate.
Qed.

Lemma access_write_not_equal c st cid a off data st' rc :
  access_write c st cid a off data = Some (st', rc) -> rc <> ValueEqual.
Proof.
  unfold access_write. destruct (get_conn st cid) as [k|]; [|discriminate].
  destruct a as [s|u|s ch|s ch g cci|s ch cci|nm|u v]; try (intros H; inv H; discriminate).
  - unfold value_write. rewrite security_check_spec. destruct (sec_error _ _ _); [intros H; inv H; discriminate|].
    destruct (c_value ch) as [size kc|size v|bytes|size hrd hwr blob]; try (intros H; inv H; discriminate).
    + destruct (kc || c_no_write ch); [intros H; inv H; discriminate|]. rewrite mem_write_splice.
      destruct (_ <? _); [intros H; inv H; discriminate|]. destruct (_ <? _); intros H; inv H; discriminate.
    + destruct (negb hwr); [intros H; inv H; discriminate|]. destruct (negb blob && _); [intros H; inv H; discriminate|].
      rewrite mem_write_splice.
      destruct (_ <? _); [intros H; inv H; discriminate|]. destruct (_ <? _); intros H; inv H; discriminate.
  - rewrite security_check_spec. destruct (sec_error _ _ _); [intros H; inv H; discriminate|].
    unfold cccd_write. destruct (2 <? off); [intros H; inv H; discriminate|]. destruct (2 <? _); [intros H; inv H; discriminate|].
    destruct (off =? 0); intros H; inv H; discriminate.
  - destruct (_ <? _); intros H; inv H; discriminate.
Qed.

Lemma slice_data op lo hi (data : list N) : slice (op :: lo :: hi :: data) 3 (len (op :: lo :: hi :: data)) = Some data.
Proof. apply (slice_all_from (op :: lo :: hi :: data) 3). cbn [length]. lia. Qed.

Lemma len3_not_lt3 (op lo hi : N) (data : list N) : (len (op :: lo :: hi :: data) <? 3) = false.
Proof. apply N.ltb_ge. rewrite !len_cons. lia. Qed.

(* Write Request / the Write Request inside a Write Command *)
Lemma handle_write_request_sim c st a cid k op lo hi data b out_size st' b' m :
  sim c st a -> get_conn st cid = Some k -> 23 <= out_size ->
  handle_write_request c st cid (op :: lo :: hi :: data) b out_size = Some (st', (b', m)) ->
  m <= len b' /\
  match attr_of c (lo + 256 * hi) with
  | None => sim c st' a
  | Some at_ => sim c st' (snd (awrite c a cid at_ 0 data m_written)) /\
                takeN m b' = match fst (awrite c a cid at_ 0 data m_written) with AOk => [19] | AErr e => err_rsp op (lo + 256 * hi) e end
  end.
Proof.
  intros S G Ho. unfold handle_write_request. rewrite rd_0, len3_not_lt3.
  destruct (check_handle c (op :: lo :: hi :: data) b out_size) as [r|] eqn:EC; [|discriminate].
  destruct (check_handle_cases _ _ _ _ _ _ _ _ Ho EC) as [(b1 & m1 & -> & L & EA)|(-> & H0 & Hi)].
  - intros H. mon. split; [exact L|]. rewrite EA. exact S.
  - rewrite (attr_of_index c _ H0 Hi).
    destruct (attribute_at c (index_by_handle c (lo + 256 * hi))) as [at_|]; [|discriminate].
    rewrite slice_data.
    destruct (access_write c st cid at_ 0 data) as [[st1 rc]|] eqn:EW; [|discriminate].
    pose proof (access_write_not_equal _ _ _ _ _ _ _ _ EW) as NE.
    destruct (access_write_sim c st a cid at_ 0 data st1 rc m_written S EW) as [R S1]. rewrite R.
    destruct rc as [|code|]; [| |contradiction]; intros H; mon.
    + match goal with X : put b 0 [19] = Some ?x |- _ => apply put_spec in X; destruct X as [X B]; change (N.to_nat 0) with 0%nat in *;
        cbn [firstn app Nat.add length] in *; subst x end.
      split; [unfold len; cbn [length]; lia|]. split; [exact S1|]. reflexivity.
    + destruct (error_response_exact _ _ _ _ out_size _ _ ltac:(lia) E) as [L T]. split; [exact L|]. split; [exact S1|exact T].
Qed.

(* ------------------------------------------------------------------ the reference step on the judged requests *)
Lemma astep_in_read c a cid lo hi n : astep_in c a cid [10; lo; hi] n = (a, aread c a cid 10 11 (lo + 256 * hi) 0 n true).
Proof. reflexivity. Qed.

Lemma astep_in_read_blob c a cid lo hi olo ohi n :
  astep_in c a cid [12; lo; hi; olo; ohi] n = (a, aread c a cid 12 13 (lo + 256 * hi) (olo + 256 * ohi) n false).
Proof. reflexivity. Qed.

Lemma astep_in_write c a cid lo hi data n :
  astep_in c a cid (18 :: lo :: hi :: data) n =
  match attr_of c (lo + 256 * hi) with
  | None => (a, XAny)
  | Some at_ =>
      let '(r, a') := awrite c a cid at_ 0 data m_written in
      (a', XResp k_write r (value_index at_) (match r with AOk => [19] | AErr e => err_rsp 18 (lo + 256 * hi) e end))
  end.
Proof. reflexivity. Qed.

Lemma astep_in_write_command c a cid lo hi data n :
  astep_in c a cid (82 :: lo :: hi :: data) n =
  match attr_of c (lo + 256 * hi) with
  | None => (a, XAny)
  | Some at_ => (snd (awrite c a cid at_ 0 data m_written), XAny)
  end.
Proof. reflexivity. Qed.

Lemma astep_in_mtu c a cid lo hi n :
  astep_in c a cid [2; lo; hi] n =
  (if default_att_mtu <=? lo + 256 * hi
   then set_aconn a cid (mkAC (lo + 256 * hi) (ac_enc (aconn_of a cid)) (ac_pair (aconn_of a cid))) else a, XAny).
Proof. reflexivity. Qed.

Lemma astep_in_prepare c a cid lo hi olo ohi data n :
  astep_in c a cid (22 :: lo :: hi :: olo :: ohi :: data) n =
  match wqueue c with
  | None => (a, XAny)
  | Some qs => aprepare c a cid qs (lo + 256 * hi) (olo + 256 * ohi) data (22 :: lo :: hi :: olo :: ohi :: data) n
  end.
Proof. unfold astep_in. cbn [N.eqb Pos.eqb]. destruct (wqueue c); reflexivity. Qed.

Lemma astep_in_execute c a cid flag n :
  astep_in c a cid [24; flag] n = match wqueue c with None => (a, XAny) | Some _ => aexec c a cid flag end.
Proof. unfold astep_in. cbn [N.eqb Pos.eqb]. destruct (wqueue c); reflexivity. Qed.

(* ------------------------------------------------------------------ Prepare Write *)

Lemma splice_nothing (v : list N) : splice v 0 [] = v.
Proof. unfold splice. cbn. reflexivity. Qed.

(* the probe (a write of nothing at offset 0) answers exactly the permission ... *)
Lemma awrite_probe_result c a cid at_ m :
  fst (awrite c a cid at_ 0 [] m) = aperm c (ac_enc (aconn_of a cid)) (ac_pair (aconn_of a cid)) at_.
Proof.
  destruct at_ as [s|u|s ch|s ch g cci|s ch cci|nm|u v]; cbn [awrite aperm fst]; try reflexivity.
  - destruct (match sec_error _ _ _ with Some e => AErr e | None => if spec_writable ch then AOk else AErr 3 end) eqn:E; [|reflexivity].
    replace (not_long ch 0) with false by (unfold not_long; destruct (c_value ch); try reflexivity; cbn; rewrite andb_false_r; reflexivity).
    replace (len (nth g (as_vals a) []) <? 0) with false by (symmetry; apply N.ltb_ge; lia).
    replace (len (nth g (as_vals a) []) <? 0 + len (@nil N)) with false by (symmetry; apply N.ltb_ge; unfold len; cbn [length]; lia).
    reflexivity.
  - destruct (sec_error _ _ _); reflexivity.
  - replace (len nm <? 0) with false by (symmetry; apply N.ltb_ge; lia). reflexivity.
Qed.

(* ... and changes nothing the simulation relation looks at, unless a write handler is called *)
Lemma awrite_probe_sim c st a cid at_ m :
  (forall s ch g cci, at_ = AValue s ch g cci -> no_k2 c -> k2 ch = false) ->
  sim c st (snd (awrite c a cid at_ 0 [] m)) -> sim c st a.
Proof.
  intros NK. destruct at_ as [s|u|s ch|s ch g cci|s ch cci|nm|u v]; cbn [awrite snd]; try (intros S; exact S).
  - specialize (NK s ch g cci eq_refl).
    destruct (aperm c _ _ _) eqn:E; [|intros [H1 H2 H3 H4 H5 H6]; constructor; assumption].
    destruct (not_long ch 0); [intros [H1 H2 H3 H4 H5 H6]; constructor; assumption|].
    assert (W : k2 ch = false ->
                match c_value ch with
                | VHandler _ _ _ _ => upd (as_wlog a) g (let '(w, e) := nth g (as_wlog a) (0, 0) in (w + 1, if len (@nil N) =? 0 then e + 1 else e))
                | _ => as_wlog a
                end = as_wlog a).
    { intros K2. unfold k2 in K2. unfold aperm in E. unfold spec_writable in E. destruct (c_value ch); auto.
      rewrite K2 in E. destruct (sec_error _ _ _); discriminate. }
    destruct (len (nth g (as_vals a) []) <? 0);
      [intros [H1 H2 H3 H4 H5 H6]; constructor; try assumption; intros N2; cbn in H2; rewrite <- (W (NK N2)); exact (H2 N2)|].
    destruct (len (nth g (as_vals a) []) <? 0 + len (@nil N));
      [intros [H1 H2 H3 H4 H5 H6]; constructor; try assumption; intros N2; cbn in H2; rewrite <- (W (NK N2)); exact (H2 N2)|].
    rewrite splice_nothing, upd_same. intros [H1 H2 H3 H4 H5 H6]; constructor; try assumption.
    intros N2. cbn in H2. rewrite <- (W (NK N2)). exact (H2 N2).
  - destruct (aperm c _ _ _); [|intros S; exact S]. destruct (2 <? 0); [intros S; exact S|]. destruct (2 <? 0 + len (@nil N)); intros S; exact S.
Qed.

Lemma wq_end_used c st a : sim c st a -> wq_end st = queue_used (as_queue a).
Proof.
  intros S. unfold wq_end, queue_used. rewrite (sim_queue S). pose proof (sim_qok S) as Q.
  induction (wq_elems st) as [|e t IH]; [reflexivity|]. cbn [sumN map]. inversion Q; subst.
  rewrite IH by assumption. f_equal. unfold elem_cost, dec_elem. cbn [snd]. destruct H1 as [L _].
  unfold len in *. rewrite skipn_length. lia.
Qed.

Lemma sim_mark_opt c st a (g : option nat) m : sim c st a -> sim c st (match g with Some gi => set_mark a gi m | None => a end).
Proof. intros S. destruct g; [apply sim_set_mark|]; exact S. Qed.

Lemma len5_not_lt5 (op a1 a2 a3 a4 : N) (data : list N) : (len (op :: a1 :: a2 :: a3 :: a4 :: data) <? 5) = false.
Proof. apply N.ltb_ge. rewrite !len_cons. lia. Qed.

Lemma handle_prepare_write_sim c st a cid k qs lo hi olo ohi data b n st' b' m :
  sim c st a -> get_conn st cid = Some k -> wqueue c = Some qs -> 23 <= out_limit c a cid n ->
  handle_prepare_write c st cid (22 :: lo :: hi :: olo :: ohi :: data) b (out_limit c a cid n) = Some (st', (b', m)) ->
  m <= len b' /\
  sim c st' (fst (aprepare c a cid qs (lo + 256 * hi) (olo + 256 * ohi) data (22 :: lo :: hi :: olo :: ohi :: data) n)) /\
  sat c (snd (aprepare c a cid qs (lo + 256 * hi) (olo + 256 * ohi) data (22 :: lo :: hi :: olo :: ohi :: data) n)) (OBytes (takeN m b')).
Proof.
  intros S G Hq Ho. set (out_size := out_limit c a cid n) in *. unfold handle_prepare_write. rewrite rd_0, Hq, len5_not_lt5.
  set (pdu := 22 :: lo :: hi :: olo :: ohi :: data).
  destruct (check_handle c pdu b out_size) as [r|] eqn:EC; [|discriminate].
  destruct (check_handle_cases _ _ _ _ _ _ _ _ Ho EC) as [(b1 & m1 & -> & L & EA)|(-> & H0 & Hi)].
  - intros H. mon. split; [exact L|]. unfold aprepare. rewrite EA. split; [exact S|exact I].
  - unfold aprepare. rewrite (attr_of_index c _ H0 Hi).
    destruct (attribute_at c (index_by_handle c (lo + 256 * hi))) as [at_|] eqn:EA; [|discriminate].
    unfold access_check_write.
    destruct (access_write c st cid at_ 0 []) as [[st1 rc]|] eqn:EW; [|discriminate].
    pose proof (access_write_not_equal _ _ _ _ _ _ _ _ EW) as NE.
    destruct (access_write_sim c st a cid at_ 0 [] st1 rc m_none S EW) as [R S1].
    rewrite awrite_probe_result in R.
    apply awrite_probe_sim in S1; [|intros s ch g cci -> NK; eapply NK; eauto].
    cbv zeta. rewrite R.
    destruct rc as [|code|]; [| |contradiction]; cbn [to_ares].
    + (* a write is permitted *)
      assert (SL : slice pdu 1 (len pdu) = Some (tl pdu)) by (apply (slice_all_from pdu 1); cbn [length pdu]; lia).
      rewrite SL. unfold wq_allocate. rewrite (wq_end_used c st1 a S1), <- (sim_owner S1).
      replace (len (tl pdu) + 2) with (elem_cost data) by (unfold pdu, elem_cost; cbn [tl]; rewrite !len_cons; lia).
      destruct (match as_owner a with Some o => negb (Nat.eqb o cid) | None => false end) eqn:EO.
      * rewrite orb_true_r. intros H. mon. destruct (error_response_exact _ _ _ _ out_size _ _ ltac:(lia) E) as [L T].
        split; [exact L|]. split; [apply sim_mark_opt; exact S1|]. cbn [snd sat]. rewrite T. reflexivity.
      * rewrite orb_false_r. destruct (qs - queue_used (as_queue a) <? elem_cost data).
        -- intros H. mon. destruct (error_response_exact _ _ _ _ out_size _ _ ltac:(lia) E) as [L T].
           split; [exact L|]. split; [apply sim_mark_opt; exact S1|]. cbn [snd sat]. rewrite T. reflexivity.
        -- intros H. mon.
           match goal with X : slice pdu 1 _ = Some ?e, Y : put b 0 [23] = Some ?x, Z : put ?x 1 ?e = Some _ |- _ =>
             destruct (put_opcode_then_data _ _ _ _ _ Y Z) as [L T]; rename X into SE; rename e into echo end.
           assert (Hn : 1 <= N.min out_size (len pdu) /\ N.min out_size (len pdu) <= len pdu)
             by (unfold pdu; rewrite !len_cons; lia).
           assert (EL : 1 + len echo = N.min out_size (len pdu)).
           { unfold slice in SE. destruct ((1 <=? N.min out_size (len pdu)) && (N.min out_size (len pdu) <=? len pdu)); [|discriminate].
             apply some_inj in SE. subst echo. rewrite len_takeN, len_dropN. lia. }
           rewrite EL in L, T. split; [exact L|]. split.
           ++ set (a1 := match value_index at_ with Some gi => set_mark a gi m_prepared | None => a end).
              assert (S2 : sim c st1 a1) by (apply sim_mark_opt; exact S1).
              destruct S2 as [H1 H2 H3 H4 H5 H6]. constructor; cbn [fst set_queue set_wq as_vals as_wlog as_conns as_owner as_queue vals hlogs conns wq_owner wq_elems]; try assumption.
              ** reflexivity.
              ** rewrite H5, map_app. reflexivity.
              ** apply Forall_app. split; [exact H6|]. constructor; [|constructor]. split.
                 { unfold pdu. cbn [tl]. rewrite !len_cons. lia. }
                 { unfold pdu, dec_elem. cbn [tl nth fst]. rewrite (attr_of_index c _ H0 Hi), EA. discriminate. }
           ++ cbn [snd sat]. rewrite T. f_equal. f_equal. fold out_size.
              unfold slice in SE. destruct ((1 <=? N.min out_size (len pdu)) && (N.min out_size (len pdu) <=? len pdu)); [|discriminate].
              apply some_inj in SE. subst echo. unfold sub, takeN, dropN, pdu. cbn [N.to_nat Pos.to_nat Pos.iter_op skipn tl]. reflexivity.
    + (* refused *)
      intros H. mon. destruct (error_response_exact _ _ _ _ out_size _ _ ltac:(lia) E) as [L T].
      split; [exact L|]. split; [apply sim_mark_opt; exact S1|]. cbn [snd sat]. rewrite T. reflexivity.
Qed.

(* ------------------------------------------------------------------ Execute Write *)
Lemma rd16_nth (e : list N) i : i + 1 < len e -> rd16 e i = Some (nth (N.to_nat i) e 0 + 256 * nth (N.to_nat (i + 1)) e 0).
Proof.
  intros H. unfold rd16, rd.
  destruct (i <? len e) eqn:E1; [|apply N.ltb_ge in E1; lia].
  destruct (i + 1 <? len e) eqn:E2; [|apply N.ltb_ge in E2; lia].
  rewrite (nth_error_nth' e 0) by (unfold len in *; lia). rewrite (nth_error_nth' e 0) by (unfold len in *; lia). reflexivity.
Qed.

Lemma attr_of_some c h at_ : attr_of c h = Some at_ -> attribute_at c (index_by_handle c h) = Some at_.
Proof.
  unfold attr_of. destruct (h =? 0); [discriminate|]. destruct (index_by_handle c h =? invalid_index); [discriminate|]. auto.
Qed.

Lemma execute_writes_sim c cid elems : forall st a st1 failure,
  sim c st a -> Forall (elem_ok c) elems ->
  execute_writes c st cid elems = Some (st1, failure) ->
  sim c st1 (fst (aexecute c a cid (map dec_elem elems))) /\ snd (aexecute c a cid (map dec_elem elems)) = failure.
Proof.
  induction elems as [|e t IH]; intros st a st1 failure S Q H.
  - cbn in H. mon. split; [exact S|reflexivity].
  - inversion Q as [|? ? [L A] Q']; subst. cbn [execute_writes] in H.
    rewrite (rd16_nth e 0) in H by lia. rewrite (rd16_nth e 2) in H by lia.
    change (N.to_nat 0) with 0%nat in H. change (N.to_nat (0 + 1)) with 1%nat in H.
    change (N.to_nat 2) with 2%nat in H. change (N.to_nat (2 + 1)) with 3%nat in H.
    cbn [map aexecute dec_elem]. unfold dec_elem in A. cbn [fst] in A.
    destruct (attr_of c (nth 0 e 0 + 256 * nth 1 e 0)) as [at_|] eqn:EA; [|contradiction].
    rewrite (attr_of_some _ _ _ EA) in H. unfold dropN in H. change (N.to_nat 4) with 4%nat in H.
    destruct (access_write c st cid at_ (nth 2 e 0 + 256 * nth 3 e 0) (skipn 4 e)) as [[st2 rc]|] eqn:EW; [|discriminate].
    pose proof (access_write_not_equal _ _ _ _ _ _ _ _ EW) as NE.
    destruct (access_write_sim c st a cid at_ _ _ st2 rc m_executed S EW) as [R S2].
    destruct (awrite c a cid at_ (nth 2 e 0 + 256 * nth 3 e 0) (skipn 4 e) m_executed) as [r a2] eqn:EAW. cbn [fst snd] in R, S2.
    destruct rc as [|code|]; [| |contradiction]; cbn [to_ares] in R; subst r.
    + apply (IH _ _ _ _ S2 Q' H).
    + mon. split; [exact S2|reflexivity].
Qed.

Lemma sim_mark_queue c st q m : forall a, sim c st a -> sim c st (mark_queue c a q m).
Proof.
  induction q as [|[[h off] data] t IH]; intros a S; cbn [mark_queue]; [exact S|].
  apply IH. destruct (attr_of c h) as [[]|]; try exact S. apply sim_set_mark. exact S.
Qed.

Lemma mark_queue_fields c q m : forall a,
  as_owner (mark_queue c a q m) = as_owner a /\ as_queue (mark_queue c a q m) = as_queue a.
Proof.
  induction q as [|[[h off] data] t IH]; intros a; cbn [mark_queue]; [split; reflexivity|].
  destruct (IH (match attr_of c h with Some (AValue _ _ g _) => set_mark a g m | _ => a end)) as [I1 I2].
  rewrite I1, I2. destruct (attr_of c h) as [[]|]; split; reflexivity.
Qed.

(* releasing the queue: write_queue::free_write_queue *)
Lemma release_sim c st a cid cancel : sim c st a -> sim c (wq_free st cid) (arelease c a cid cancel).
Proof.
  intros S. unfold wq_free, arelease. rewrite <- (sim_owner S).
  destruct (as_owner a) as [o|]; [|exact S]. destruct (Nat.eqb o cid); [|exact S].
  assert (S1 : sim c st (if cancel then mark_queue c a (as_queue a) m_cancelled else a)) by (destruct cancel; [apply sim_mark_queue|]; exact S).
  destruct S1 as [H1 H2 H3 H4 H5 H6]. constructor; cbn; try assumption; try reflexivity. constructor.
Qed.

Lemma handle_execute_write_sim c st a cid k qs flag b out_size st' b' m :
  sim c st a -> get_conn st cid = Some k -> wqueue c = Some qs -> 23 <= out_size ->
  handle_execute_write c st cid [24; flag] b out_size = Some (st', (b', m)) ->
  m <= len b' /\ sim c st' (fst (aexec c a cid flag)) /\ sat c (snd (aexec c a cid flag)) (OBytes (takeN m b')).
Proof.
  intros S G Hq Ho. unfold handle_execute_write, aexec. rewrite rd_0, Hq, rd_1.
  cbn [len length N.of_nat Pos.of_succ_nat Pos.succ N.eqb Pos.eqb negb].
  destruct (negb (flag =? 0) && negb (flag =? 1)).
  - intros H. mon. destruct (error_response_exact _ _ _ _ out_size _ _ ltac:(lia) E) as [L T]. split; [exact L|]. split; [exact S|exact I].
  - rewrite <- (sim_owner S).
    destruct ((flag =? 1) && match as_owner a with Some o => Nat.eqb o cid | None => false end) eqn:EM.
    + destruct (execute_writes c st cid (wq_elems st)) as [[st1 failure]|] eqn:EX; [|discriminate].
      destruct (execute_writes_sim c cid _ _ _ _ _ S (sim_qok S) EX) as [S1 F]. rewrite <- (sim_queue S) in S1, F.
      destruct (aexecute c a cid (as_queue a)) as [a1 f]. cbn [fst snd] in S1, F. subst f.
      destruct failure as [[h code]|]; intros H; mon.
      * destruct (error_response_exact _ _ _ _ out_size _ _ ltac:(lia) E) as [L T].
        split; [exact L|]. split; [apply release_sim; exact S1|]. cbn [snd sat]. rewrite T. reflexivity.
      * match goal with X : put b 0 [25] = Some ?x |- _ => apply put_spec in X; destruct X as [X B]; change (N.to_nat 0) with 0%nat in *;
          cbn [firstn app Nat.add length] in *; subst x end.
        split; [unfold len; cbn [length]; lia|]. split; [apply release_sim; exact S1|]. reflexivity.
    + intros H. mon.
      match goal with X : put b 0 [25] = Some ?x |- _ => apply put_spec in X; destruct X as [X B]; change (N.to_nat 0) with 0%nat in *;
        cbn [firstn app Nat.add length] in *; subst x end.
      split; [unfold len; cbn [length]; lia|]. split; [apply release_sim; exact S|]. reflexivity.
Qed.

(* ------------------------------------------------------------------ requests that only read *)
Lemma collect_attribute_same c st cid k e index a st' k' :
  collect_attribute c st cid k e index a = Some (st', k') -> same_but_reads st st'.
Proof.
  unfold collect_attribute. destruct (2 <=? e - co_cur k); [|intros H; mon; apply same_but_reads_refl].
  cbv zeta. destruct (access_read c st cid a index 0 _) as [[[st1 rc] d]|] eqn:ER; [|discriminate].
  apply access_read_same in ER. destruct rc.
  - destruct (253 <? len d); [discriminate|]. intros H. mon. destruct (_ =? _) in H; mon; exact ER.
  - intros H. mon. exact ER.
  - intros H. mon. exact ER.
Qed.

Lemma all_attributes_same fuel c cid f e last eh : forall st k index st' k',
  all_attributes fuel c st cid f k e index last eh = Some (st', k') -> same_but_reads st st'.
Proof.
  induction fuel as [|n IH]; intros st k index st' k' H; cbn [all_attributes] in H.
  - mon. apply same_but_reads_refl.
  - destruct ((index <=? last) && (handle_by_index c index <=? eh)); [|mon; apply same_but_reads_refl].
    destruct (attribute_at c index) as [a|]; [|discriminate].
    destruct (uuid_filter_match f a).
    + destruct (collect_attribute c st cid k e index a) as [[st1 k1]|] eqn:EC; [|discriminate].
      apply collect_attribute_same in EC. apply IH in H. eapply same_but_reads_trans; eauto.
    + apply IH in H. exact H.
Qed.

Lemma read_by_type_same c st cid pdu b out_size st' r :
  handle_read_by_type c st cid pdu b out_size = Some (st', r) -> same_but_reads st st'.
Proof.
  unfold handle_read_by_type. intros H. mon. destruct c0 as [f|[sh eh]]; mon; [apply same_but_reads_refl|].
  apply all_attributes_same in E2. destruct (negb (co_cur c0 =? 2)); mon; exact E2.
Qed.

Lemma read_multiple_loop_same c cid opcode b0 out_size : forall hs st b p st' r,
  read_multiple_loop c st cid opcode hs b0 b p out_size = Some (st', r) -> same_but_reads st st'.
Proof.
  fix IH 1. intros hs st b p st' r H. destruct hs as [|lo [|hi t]]; cbn [read_multiple_loop] in H.
  - mon. apply same_but_reads_refl.
  - mon. apply same_but_reads_refl.
  - cbv zeta in H. destruct (lo + 256 * hi =? 0); [mon; apply same_but_reads_refl|].
    destruct (index_by_handle c (lo + 256 * hi) =? invalid_index); [mon; apply same_but_reads_refl|].
    destruct (attribute_at c (index_by_handle c (lo + 256 * hi))) as [a|]; [|discriminate].
    destruct (access_read c st cid a _ 0 _) as [[[st1 rc] d]|] eqn:ER; [|discriminate].
    apply access_read_same in ER. destruct rc.
    + destruct (put b p d) as [b1|]; [|discriminate]. destruct (out_size <? p + len d); [discriminate|].
      apply IH in H. eapply same_but_reads_trans; eauto.
    + mon. exact ER.
    + mon. exact ER.
Qed.

Lemma read_multiple_same c st cid pdu b out_size st' r :
  handle_read_multiple c st cid pdu b out_size = Some (st', r) -> same_but_reads st st'.
Proof.
  unfold handle_read_multiple. intros H. mon. destruct ((len pdu <? 5) || (len pdu mod 2 =? 0)); mon; [apply same_but_reads_refl|].
  eapply read_multiple_loop_same; eauto.
Qed.

Lemma handle_read_same c st cid pdu b out_size st' r :
  handle_read c st cid pdu b out_size = Some (st', r) -> same_but_reads st st'.
Proof.
  unfold handle_read, handle_read_common. intros H. mon. destruct c0 as [f|[h i]]; mon; [apply same_but_reads_refl|].
  match goal with X : access_read _ _ _ _ _ _ _ = Some (_, ?rc, _) |- _ => apply access_read_same in X; destruct rc; mon; exact X end.
Qed.

Lemma handle_read_blob_same c st cid pdu b out_size st' r :
  handle_read_blob c st cid pdu b out_size = Some (st', r) -> same_but_reads st st'.
Proof.
  unfold handle_read_blob, handle_read_common. intros H. mon. destruct c0 as [f|[h i]]; mon; [apply same_but_reads_refl|].
  match goal with X : access_read _ _ _ _ _ _ _ = Some (_, ?rc, _) |- _ => apply access_read_same in X; destruct rc; mon; exact X end.
Qed.

(* ------------------------------------------------------------------ l2cap_input as a whole *)
Lemma sim_set_mtu c st a cid k mtu :
  sim c st a -> get_conn st cid = Some k ->
  sim c (set_conn st cid (mkConn mtu (cccd k) (encrypted k) (pairing k) (nq k)))
        (set_aconn a cid (mkAC mtu (ac_enc (aconn_of a cid)) (ac_pair (aconn_of a cid)))).
Proof.
  intros S G. rewrite (sim_conn c st a cid k S G). destruct S as [H1 H2 H3 H4 H5 H6]. constructor; cbn; try assumption.
  rewrite H3, map_upd. reflexivity.
Qed.

Lemma out_limit_eq c st a cid k n : sim c st a -> get_conn st cid = Some k -> out_limit c a cid n = N.min n (negotiated_mtu c k).
Proof. intros S G. unfold out_limit, negotiated_mtu. rewrite (sim_conn c st a cid k S G). reflexivity. Qed.

Lemma sim_step_in c st a cid pdu n st' rs :
  sim c st a ->
  att_input c st cid pdu n = Some (st', rs) ->
  sim c st' (fst (astep c a (OpIn cid pdu n))) /\
  (sat_cond c (snd (astep c a (OpIn cid pdu n))) -> sat c (snd (astep c a (OpIn cid pdu n))) (OBytes rs)).
Proof.
  intros Sm H.
  destruct (get_conn st cid) as [k|] eqn:G; [|unfold att_input in H; rewrite G in H; discriminate].
  destruct pdu as [|op t]; [unfold att_input in H; rewrite G in H; cbn in H; discriminate|].
  destruct (att_input_inv _ _ _ _ _ _ _ _ _ G H) as (Ho & b' & m & L & -> & D). clear H.
  pose proof (out_limit_eq c st a cid k n Sm G) as OL.
  cbn [astep]. rewrite len_cons.
  replace (1 + len t =? 0) with false by (symmetry; apply N.eqb_neq; lia).
  change (N.min n (N.min (max_mtu c) (ac_mtu (aconn_of a cid)))) with (out_limit c a cid n).
  rewrite OL. replace (N.min n (negotiated_mtu c k) <? default_att_mtu) with false by (symmetry; apply N.ltb_ge; exact Ho).
  cbn [orb]. unfold astep_in.
  set (b := repeat fill_byte (N.to_nat n)) in *. set (out_size := N.min n (negotiated_mtu c k)) in *.
  destruct (op =? 2) eqn:E2.
  { (* Exchange MTU *)
    apply N.eqb_eq in E2. subst op. cbn [N.eqb Pos.eqb] in D. unfold handle_exchange_mtu in D. rewrite rd_0 in D.
    destruct t as [|lo [|hi [|x t']]].
    1,2,4: (match type of D with context [len ?l =? 3] =>
              replace (len l =? 3) with false in D by (symmetry; apply N.eqb_neq; rewrite ?len_cons; unfold len; cbn [length]; lia) end;
            cbn [negb] in D; mon; split; [exact Sm|intros _; exact I]).
    replace (len [2; lo; hi] =? 3) with true in D by reflexivity. cbn [negb] in D.
    rewrite rd16_1 in D. rewrite G in D. unfold default_att_mtu in *.
    destruct (lo + 256 * hi <? 23) eqn:EL.
    + mon. replace (23 <=? lo + 256 * hi) with false by (symmetry; apply N.leb_gt; apply N.ltb_lt; exact EL). split; [exact Sm|intros _; exact I].
    + mon. replace (23 <=? lo + 256 * hi) with true by (symmetry; apply N.leb_le; apply N.ltb_ge; exact EL).
      split; [|intros _; exact I]. apply sim_set_mtu; assumption. }
  destruct (op =? 10) eqn:E10.
  { apply N.eqb_eq in E10. subst op. cbn [N.eqb Pos.eqb] in D.
    destruct t as [|lo [|hi [|x t']]];
      try (split; [eapply sim_reads; [exact Sm|eapply handle_read_same; exact D]|intros _; exact I]).
    destruct (handle_read_sim c st a cid k lo hi b out_size n st' b' m Sm G Ho (eq_sym OL) D) as (Same & _ & Sat).
    split; [eapply sim_reads; eauto|exact Sat]. }
  destruct (op =? 12) eqn:E12.
  { apply N.eqb_eq in E12. subst op. cbn [N.eqb Pos.eqb] in D.
    destruct t as [|lo [|hi [|olo [|ohi [|x t']]]]];
      try (split; [eapply sim_reads; [exact Sm|eapply handle_read_blob_same; exact D]|intros _; exact I]).
    destruct (handle_read_blob_sim c st a cid k lo hi olo ohi b out_size n st' b' m Sm G Ho (eq_sym OL) D) as (Same & _ & Sat).
    split; [eapply sim_reads; eauto|exact Sat]. }
  destruct (op =? 18) eqn:E18.
  { apply N.eqb_eq in E18. subst op. cbn [N.eqb Pos.eqb] in D.
    destruct t as [|lo [|hi data]].
    - unfold handle_write_request in D. rewrite rd_0 in D. cbn [len length N.of_nat Pos.of_succ_nat N.ltb N.compare Pos.compare Pos.compare_cont] in D.
      mon. split; [exact Sm|intros _; exact I].
    - unfold handle_write_request in D. rewrite rd_0 in D. cbn [len length N.of_nat Pos.of_succ_nat Pos.succ N.ltb N.compare Pos.compare Pos.compare_cont] in D.
      mon. split; [exact Sm|intros _; exact I].
    - destruct (handle_write_request_sim c st a cid k 18 lo hi data b out_size st' b' m Sm G Ho D) as [_ W].
      destruct (attr_of c (lo + 256 * hi)) as [at_|]; [|split; [exact W|intros _; exact I]].
      destruct W as [S1 T]. destruct (awrite c a cid at_ 0 data m_written) as [r a1]. cbn [fst snd] in *.
      split; [exact S1|]. intros _. cbn [sat]. rewrite T. reflexivity. }
  destruct (op =? 82) eqn:E82.
  { apply N.eqb_eq in E82. subst op. cbn [N.eqb Pos.eqb] in D. unfold handle_write_command in D.
    destruct (handle_write_request c st cid (82 :: t) b out_size) as [[st1 [b1 m1]]|] eqn:EW; [|discriminate].
    apply some_inj in D. apply pair_inj in D. destruct D as [-> D]. apply pair_inj in D. destruct D as [-> <-].
    destruct t as [|lo [|hi data]].
    - unfold handle_write_request in EW. rewrite rd_0 in EW. cbn [len length N.of_nat Pos.of_succ_nat N.ltb N.compare Pos.compare Pos.compare_cont] in EW.
      mon. split; [exact Sm|intros _; exact I].
    - unfold handle_write_request in EW. rewrite rd_0 in EW. cbn [len length N.of_nat Pos.of_succ_nat Pos.succ N.ltb N.compare Pos.compare Pos.compare_cont] in EW.
      mon. split; [exact Sm|intros _; exact I].
    - destruct (handle_write_request_sim c st a cid k 82 lo hi data b out_size st' b' m1 Sm G Ho EW) as [_ W].
      destruct (attr_of c (lo + 256 * hi)) as [at_|]; [|split; [exact W|intros _; exact I]].
      destruct W as [S1 _]. split; [exact S1|intros _; exact I]. }
  destruct (op =? 22) eqn:E22.
  { apply N.eqb_eq in E22. subst op. cbn [N.eqb Pos.eqb] in D.
    destruct (wqueue c) as [qs|] eqn:Hq.
    2:{ unfold handle_prepare_write in D. rewrite rd_0, Hq in D. mon.
        destruct t as [|lo [|hi [|olo [|ohi data]]]]; (split; [exact Sm|intros _; exact I]). }
    destruct t as [|lo [|hi [|olo [|ohi data]]]];
      try (unfold handle_prepare_write in D; rewrite rd_0, Hq in D;
           cbn [len length N.of_nat Pos.of_succ_nat Pos.succ N.ltb N.compare Pos.compare Pos.compare_cont] in D; mon; split; [exact Sm|intros _; exact I]).
    unfold out_size in *. rewrite <- OL in D, Ho.
    destruct (handle_prepare_write_sim c st a cid k qs lo hi olo ohi data _ n st' b' m Sm G Hq Ho D) as (_ & S1 & Sat).
    split; [exact S1|intros _; exact Sat]. }
  destruct (op =? 24) eqn:E24.
  { apply N.eqb_eq in E24. subst op. cbn [N.eqb Pos.eqb] in D.
    destruct (wqueue c) as [qs|] eqn:Hq.
    2:{ unfold handle_execute_write in D. rewrite rd_0, Hq in D. mon.
        destruct t as [|flag [|x t']]; (split; [exact Sm|intros _; exact I]). }
    destruct t as [|flag [|x t']].
    - unfold handle_execute_write in D. rewrite rd_0, Hq in D. cbn [len length N.of_nat Pos.of_succ_nat N.eqb Pos.eqb negb] in D.
      mon. split; [exact Sm|intros _; exact I].
    - destruct (handle_execute_write_sim c st a cid k qs flag b out_size st' b' m Sm G Hq Ho D) as (_ & S1 & Sat). split; [exact S1|intros _; exact Sat].
    - unfold handle_execute_write in D. rewrite rd_0, Hq in D.
      replace (len (24 :: flag :: x :: t') =? 2) with false in D by (symmetry; apply N.eqb_neq; rewrite !len_cons; lia).
      cbn [negb] in D. mon. split; [exact Sm|intros _; exact I]. }
  (* every other opcode: nothing the reference state tracks changes *)
  apply N.eqb_neq in E2, E10, E12, E18, E82, E22, E24.
  split; [|intros _; exact I].
  destruct (op =? 1); [mon; exact Sm|].
  destruct (op =? 2) eqn:X2; [apply N.eqb_eq in X2; contradiction|].
  destruct (op =? 4); [mon; exact Sm|].
  destruct (op =? 6); [mon; exact Sm|].
  destruct (op =? 8); [eapply sim_reads; [exact Sm|eapply read_by_type_same; exact D]|].
  destruct (op =? 10) eqn:X10; [apply N.eqb_eq in X10; contradiction|].
  destruct (op =? 12) eqn:X12; [apply N.eqb_eq in X12; contradiction|].
  destruct (op =? 16); [mon; exact Sm|].
  destruct (op =? 14); [eapply sim_reads; [exact Sm|eapply read_multiple_same; exact D]|].
  destruct (op =? 18) eqn:X18; [apply N.eqb_eq in X18; contradiction|].
  destruct (op =? 82) eqn:X82; [apply N.eqb_eq in X82; contradiction|].
  destruct (op =? 22) eqn:X22; [apply N.eqb_eq in X22; contradiction|].
  destruct (op =? 24) eqn:X24; [apply N.eqb_eq in X24; contradiction|].
  destruct (op =? 30).
  - unfold handle_confirmation in D. rewrite rd_0 in D. destruct (negb (len (op :: t) =? 1)); [mon; exact Sm|].
    rewrite G in D. mon. unfold nq_step. destruct (NQueueModel.step (nq k) Confirm) as [q r]. cbn [fst].
    eapply sim_set_conn; eauto.
  - mon. exact Sm.
Qed.

(* ------------------------------------------------------------------ the other operations *)
Lemma nq_step_aconn k o : aconn_of_conn (fst (nq_step k o)) = aconn_of_conn k.
Proof. unfold nq_step. destruct (NQueueModel.step (nq k) o). reflexivity. Qed.

Lemma unsent_indication_sim c st a cid kd : sim c st a -> sim c (unsent_indication st cid kd) a.
Proof.
  intros Sm. unfold unsent_indication. destruct kd; [exact Sm|]. destruct (get_conn st cid) as [k|] eqn:G; [|exact Sm].
  eapply sim_set_conn; eauto using nq_step_aconn.
Qed.

(* l2cap_output: the notification queue and read counters only *)
Lemma att_output_sim c st a cid n st' r : sim c st a -> att_output c st cid n = Some (st', r) -> sim c st' a.
Proof.
  intros Sm. unfold att_output. destruct (get_conn st cid) as [k|] eqn:G; [|discriminate].
  pose proof (nq_step_aconn k Dequeue) as NA. destruct (nq_step k Dequeue) as [k1 r1]. cbn [fst] in NA.
  assert (S1 : sim c (set_conn st cid k1) a) by (eapply sim_set_conn; eauto).
  cbv zeta.
  destruct r1; try (intros H; mon; exact S1).
  match goal with |- context [match ?e with Some _ => _ | None => _ end] => destruct e as [[kd i]|] end; [|intros H; mon; exact S1].
  destruct (find_notification_data_by_index c (N.of_nat i)) as [ai ci].
  match goal with |- context [if ?x then _ else _] => destruct x end; [|intros H; mon; apply unsent_indication_sim; exact S1].
  destruct (attribute_at c ai) as [at_|]; [|discriminate].
  match goal with |- context [access_read ?c' ?s ?i' ?a' ?x ?o ?l] =>
    destruct (access_read c' s i' a' x o l) as [[[st2 rc] d]|] eqn:ER; [|discriminate] end.
  apply access_read_same in ER.
  destruct rc; intros H; mon; try apply unsent_indication_sim; eapply sim_reads; eauto.
Qed.

Lemma queue_all_aconn o : forall l l' rs, queue_all l o = (l', rs) -> map aconn_of_conn l' = map aconn_of_conn l.
Proof.
  induction l as [|k t IH]; intros l' rs H; cbn [queue_all] in H.
  - inv H. reflexivity.
  - pose proof (nq_step_aconn k o) as NA. destruct (nq_step k o) as [k' r]. cbn [fst] in NA.
    destruct (queue_all t o) as [t' rs'] eqn:E. inv H. cbn [map]. rewrite NA, (IH _ _ eq_refl). reflexivity.
Qed.

Lemma request_sim c st a kd data st' rs : sim c st a -> request st kd data = (st', rs) -> sim c st' a.
Proof.
  intros [H1 H2 H3 H4 H5 H6]. unfold request. destruct (queue_all (conns st) _) as [l rs'] eqn:E. intros H. inv H.
  apply queue_all_aconn in E. constructor; cbn; try assumption. rewrite E. exact H3.
Qed.

Lemma sim_init c : sim c (srv_init c) (ainit c).
Proof.
  constructor; cbn [srv_init ainit as_vals as_wlog as_conns as_owner as_queue vals hlogs conns wq_owner wq_elems].
  - reflexivity.
  - intros _. unfold wlog_of. simpl hlogs. rewrite map_map. reflexivity.
  - reflexivity.
  - reflexivity.
  - reflexivity.
  - constructor.
Qed.

Lemma firstn_min_eq (A : Type) (data old : list A) :
  firstn (N.to_nat (N.min (len data) (len old))) data = firstn (length old) data
  /\ N.to_nat (N.min (len data) (len old)) = length (firstn (length old) data).
Proof.
  unfold len. rewrite firstn_length. split; [|lia].
  destruct (Nat.le_ge_cases (length data) (length old)) as [L|L].
  - replace (N.to_nat (N.min (N.of_nat (length data)) (N.of_nat (length old)))) with (length data) by lia.
    rewrite !firstn_all2 by lia. reflexivity.
  - replace (N.to_nat (N.min (N.of_nat (length data)) (N.of_nat (length old)))) with (length old) by lia. reflexivity.
Qed.

(* every operation: the reference state stays related, and the model's output is what the reference expects *)
Lemma sim_step c st a o :
  sim c st a -> snd (srv_step c st o) <> OFault ->
  sim c (fst (srv_step c st o)) (fst (astep c a o)) /\
  (sat_cond c (snd (astep c a o)) -> sat c (snd (astep c a o)) (snd (srv_step c st o))).
Proof.
  intros Sm NF. destruct o as [cid pdu n|cid n|cid e p|cid|by_uuid kd g|g|g data].
  - (* l2cap_input *)
    cbn [srv_step] in *. destruct (att_input c st cid pdu n) as [[st' rs]|] eqn:E; [|cbn in NF; contradiction].
    cbn [fst snd]. eapply sim_step_in; eauto.
  - (* l2cap_output *)
    cbn [srv_step astep] in *. destruct (att_output c st cid n) as [[st' rs]|] eqn:E; [|cbn in NF; contradiction].
    cbn [fst snd]. split; [eapply att_output_sim; eauto|intros _; exact I].
  - (* link security *)
    cbn [srv_step astep fst snd]. split; [|intros _; exact I].
    destruct (get_conn st cid) as [k|] eqn:G; cbn [fst].
    + rewrite (sim_conn c st a cid k Sm G). destruct Sm as [H1 H2 H3 H4 H5 H6]. constructor; cbn; try assumption.
      rewrite H3, map_upd. reflexivity.
    + destruct Sm as [H1 H2 H3 H4 H5 H6]. constructor; cbn; try assumption.
      rewrite upd_out; [exact H3|]. rewrite H3, map_length. apply nth_error_None. exact G.
  - (* disconnect *)
    cbn [srv_step astep fst snd]. split; [|intros _; exact I].
    pose proof (release_sim c st a cid true Sm) as S1. destruct S1 as [H1 H2 H3 H4 H5 H6]. constructor; cbn; try assumption.
    cbn in H3. rewrite H3, map_upd. reflexivity.
  - (* notify / indicate *)
    cbn [srv_step astep fst snd] in *. split; [|intros _; exact I].
    destruct by_uuid.
    + destruct (by_uuid_available c kd g); [|exact Sm]. unfold notify_by_uuid in *.
      destruct (nth_error (all_chars c) g) as [x|]; [|exact Sm].
      destruct (find_notification_by_uuid c (c_uuid (snd x))) as [d|]; [|exact Sm].
      destruct (request st kd d) as [st' rs] eqn:E. cbn [fst]. eapply request_sim; eauto.
    + destruct (by_value_available c g); [|exact Sm]. unfold notify_by_value in *.
      destruct (find_notification_data c g) as [d|]; [|exact Sm].
      destruct (request st kd d) as [st' rs] eqn:E. cbn [fst]. eapply request_sim; eauto.
  - (* the harness looks at a variable *)
    cbn [srv_step astep]. destruct (has_var c g) as [[w h]|]; cbn [fst snd]; [|split; [exact Sm|intros _; exact I]].
    split; [exact Sm|]. intros _. cbn [sat]. unfold get_val. rewrite (sim_vals Sm).
    eexists. split; [reflexivity|]. intros NK. destruct h; [|exact I]. rewrite (sim_wlog Sm NK). unfold wlog_of.
    pose proof (map_nth (fun x : N * N * N => (snd (fst x), snd x)) (hlogs st) (0, 0, 0) g) as M. cbn [fst snd] in M. rewrite M.
    destruct (nth g (hlogs st) (0, 0, 0)) as [[r w'] e']. cbn [fst snd]. split; reflexivity.
  - (* the application sets a variable *)
    cbn [srv_step astep]. destruct (has_var c g) as [[[|] h]|]; cbn [fst snd]; try (split; [exact Sm|intros _; exact I]).
    split; [|intros _; exact I]. destruct Sm as [H1 H2 H3 H4 H5 H6]. constructor; cbn; try assumption.
    rewrite H1. f_equal. unfold get_val, splice, takeN, dropN. cbn [N.to_nat firstn Nat.add app].
    destruct (firstn_min_eq N data (nth g (vals st) [])) as [F1 F2]. rewrite F1, F2. reflexivity.
Qed.

(* ================================================================== Part 4: monitors over the reference semantics *)
Lemma dead_accepts judge c tr : forall pos, monitor_from_with judge c None pos tr = None.
Proof. induction tr as [|[o r] t IH]; intros pos; cbn [monitor_from_with mstep_with]; [reflexivity|apply IH]. Qed.

Lemma list_eqb_refl l : list_eqb l l = true.
Proof. induction l as [|x t IH]; cbn; [reflexivity|]. rewrite N.eqb_refl, IH. reflexivity. Qed.

(* a monitor whose judgement accepts every output that meets the expectation accepts every trace of the model:
   for every configuration, every state related to the monitor's reference state, histories of any length *)
Theorem monitor_sound_with (judge : cfg -> astate -> srv_op -> expect -> srv_out -> verdict) (P : srv_op -> bool) c :
  (forall a o x r, P o = true -> (sat_cond c x -> sat c x r) -> judge c a o x r = Ok) ->
  forall ops st a pos, sim c st a -> forallb P ops = true ->
    monitor_from_with judge c (Some a) pos (srv_run c st ops) = None.
Proof.
  intros J. induction ops as [|o t IH]; intros st a pos Sm HP; [reflexivity|].
  cbn [forallb] in HP. apply andb_true_iff in HP. destruct HP as [Po Pt].
  cbn [srv_run]. destruct (srv_step c st o) as [st' r] eqn:E. cbn [monitor_from_with].
  assert (NFcase : r = OFault \/ r <> OFault) by (destruct r; (left; reflexivity) || (right; discriminate)).
  destruct NFcase as [->|NF].
  - cbn [mstep_with]. apply dead_accepts.
  - pose proof (sim_step c st a o Sm) as SS. rewrite E in SS. cbn [fst snd] in SS. destruct (SS NF) as [S' Sat].
    assert (M : mstep_with judge c (Some a) o r = (judge c a o (snd (astep c a o)) r, Some (fst (astep c a o)))).
    { unfold mstep_with. destruct (astep c a o) as [a' x]. destruct r; try reflexivity. contradiction. }
    rewrite M. rewrite (J a o _ r Po Sat). apply IH; assumption.
Qed.

(* ================================================================== Part 5: value and CCCD attributes belong to declared characteristics *)
Lemma char_attribute_at_char s c g cci i s' ch' :
  (exists g' cci', char_attribute_at s c g cci i = Some (AValue s' ch' g' cci') /\ g' = g
   \/ char_attribute_at s c g cci i = Some (ACccd s' ch' cci')) -> s' = s /\ ch' = c.
Proof.
  unfold char_attribute_at, char_attrs. intros (g' & cci' & H).
  destruct (N.to_nat i) as [|[|k]] eqn:E; cbn [nth_error] in H.
  - destruct H as [[H _]|H]; discriminate.
  - destruct H as [[H _]|H]; [inversion H; split; reflexivity|discriminate].
  - assert (HI : In (ACccd s' ch' cci') (char_tail_attrs s c cci) \/ (exists g'', In (AValue s' ch' g'' cci') (char_tail_attrs s c cci))).
    { destruct H as [[H _]|H]; apply nth_error_In in H; [right; eexists; exact H|left; exact H]. }
    unfold char_tail_attrs in HI. destruct HI as [HI|[g'' HI]].
    + apply in_app_or in HI. destruct HI as [HI|HI].
      * destruct (has_cccd c); [destruct HI as [HI|[]]; inversion HI; split; reflexivity|destruct HI].
      * apply in_app_or in HI. destruct HI as [HI|HI].
        -- destruct (c_name c); [destruct HI as [HI|[]]; discriminate|destruct HI].
        -- apply in_map_iff in HI. destruct HI as [d [HI _]]. discriminate.
    + apply in_app_or in HI. destruct HI as [HI|HI].
      * destruct (has_cccd c); [destruct HI as [HI|[]]; discriminate|destruct HI].
      * apply in_app_or in HI. destruct HI as [HI|HI].
        -- destruct (c_name c); [destruct HI as [HI|[]]; discriminate|destruct HI].
        -- apply in_map_iff in HI. destruct HI as [d [HI _]]. discriminate.
Qed.

Lemma char_attribute_at_value_g s c g cci i s' ch' g' cci' :
  char_attribute_at s c g cci i = Some (AValue s' ch' g' cci') -> g' = g.
Proof.
  unfold char_attribute_at, char_attrs. intros H.
  destruct (N.to_nat i) as [|[|k]] eqn:E; cbn [nth_error] in H; [discriminate|inversion H; reflexivity|].
  apply nth_error_In in H. unfold char_tail_attrs in H.
  apply in_app_or in H. destruct H as [H|H].
  - destruct (has_cccd c); [destruct H as [H|[]]; discriminate|destruct H].
  - apply in_app_or in H. destruct H as [H|H].
    + destruct (c_name c); [destruct H as [H|[]]; discriminate|destruct H].
    + apply in_map_iff in H. destruct H as [d [H _]]. discriminate.
Qed.

(* the characteristic of a value / CCCD attribute is one of the service's, at position g' - g *)
Lemma chars_attribute_at_char s cs : forall g cci i s' ch',
  ((exists g' cci', chars_attribute_at s cs g cci i = Some (AValue s' ch' g' cci')) ->
   exists g' cci', chars_attribute_at s cs g cci i = Some (AValue s' ch' g' cci') /\ s' = s /\ (g <= g')%nat /\ nth_error cs (g' - g) = Some ch')
  /\ (forall cci', chars_attribute_at s cs g cci i = Some (ACccd s' ch' cci') -> s' = s /\ In ch' cs).
Proof.
  induction cs as [|c t IH]; intros g cci i s' ch'; cbn [chars_attribute_at]; [split; [intros (? & ? & H)|intros ? H]; discriminate|].
  destruct (i <? char_nattrs c) eqn:E.
  - split.
    + intros (g' & cci' & H). pose proof (char_attribute_at_value_g _ _ _ _ _ _ _ _ _ H) as ->.
      destruct (char_attribute_at_char s c g cci i s' ch') as [-> ->]; [exists g, cci'; left; split; [exact H|reflexivity]|].
      exists g, cci'. repeat split; auto. rewrite Nat.sub_diag. reflexivity.
    + intros cci' H. destruct (char_attribute_at_char s c g cci i s' ch') as [-> ->]; [exists O, cci'; right; exact H|].
      split; [reflexivity|left; reflexivity].
  - destruct (IH (S g) (cci + char_nccc c) (i - char_nattrs c) s' ch') as [I1 I2]. split.
    + intros Hex. destruct (I1 Hex) as (g' & cci' & H & -> & Hg & Hn). exists g', cci'. repeat split; auto; [lia|].
      replace (g' - g)%nat with (S (g' - S g)) by lia. exact Hn.
    + intros cci' H. destruct (I2 cci' H) as [-> Hin]. split; [reflexivity|right; exact Hin].
Qed.

Lemma svcs_attribute_at_char ss : forall g cci i s' ch',
  ((exists g' cci', svcs_attribute_at ss g cci i = Some (AValue s' ch' g' cci')) ->
   exists g' cci', svcs_attribute_at ss g cci i = Some (AValue s' ch' g' cci') /\ (g <= g')%nat /\
                   nth_error (flat_map (fun s => map (fun ch => (s, ch)) (s_chars s)) ss) (g' - g) = Some (s', ch'))
  /\ (forall cci', svcs_attribute_at ss g cci i = Some (ACccd s' ch' cci') ->
        In (s', ch') (flat_map (fun s => map (fun ch => (s, ch)) (s_chars s)) ss)).
Proof.
  induction ss as [|s t IH]; intros g cci i s' ch'; cbn [svcs_attribute_at flat_map]; [split; [intros (? & ? & H)|intros ? H]; discriminate|].
  destruct (i <? svc_nattrs s) eqn:E.
  - unfold svc_attribute_at. destruct (i <? svc_nsattrs s).
    + split; [intros (g' & cci' & H)|intros cci' H]; (destruct (i =? 0); [discriminate|]);
        destruct (nth_error (s_includes s) (N.to_nat (i - 1))); discriminate.
    + destruct (chars_attribute_at_char s (s_chars s) g cci (i - svc_nsattrs s) s' ch') as [C1 C2]. split.
      * intros Hex. destruct (C1 Hex) as (g' & cci' & H & -> & Hg & Hn). exists g', cci'. repeat split; auto.
        rewrite nth_error_app1 by (rewrite map_length; apply nth_error_Some; congruence).
        rewrite nth_error_map, Hn. reflexivity.
      * intros cci' H. destruct (C2 cci' H) as [-> Hin]. apply in_or_app. left. apply in_map. exact Hin.
  - destruct (IH (g + length (s_chars s))%nat (cci + svc_nccc s) (i - svc_nattrs s) s' ch') as [I1 I2]. split.
    + intros Hex. destruct (I1 Hex) as (g' & cci' & H & Hg & Hn). exists g', cci'. repeat split; auto; [lia|].
      rewrite nth_error_app2 by (rewrite map_length; lia). rewrite map_length.
      replace (g' - g - length (s_chars s))%nat with (g' - (g + length (s_chars s)))%nat by lia. exact Hn.
    + intros cci' H. apply in_or_app. right. exact (I2 cci' H).
Qed.

(* the value attribute with global number g belongs to the g-th declared characteristic *)
Lemma attribute_at_value c i s ch g cci :
  attribute_at c i = Some (AValue s ch g cci) -> nth_error (all_chars c) g = Some (s, ch).
Proof.
  unfold attribute_at, all_chars. intros H.
  destruct (svcs_attribute_at_char (services c) O 0 i s ch) as [C1 _].
  destruct (C1 (ex_intro _ g (ex_intro _ cci H))) as (g' & cci' & H' & _ & Hn).
  rewrite H in H'. inversion H'; subst. rewrite Nat.sub_0_r in Hn. exact Hn.
Qed.

Lemma attribute_at_cccd c i s ch cci : attribute_at c i = Some (ACccd s ch cci) -> In (s, ch) (all_chars c).
Proof.
  unfold attribute_at, all_chars. intros H.
  destruct (svcs_attribute_at_char (services c) O 0 i s ch) as [_ C2]. exact (C2 cci H).
Qed.

(* decidable sufficient conditions for the two hypotheses *)
Definition no_k1_b (c : cfg) : bool := forallb (fun x => negb (k1 (snd x))) (all_chars c).
Definition no_k2_b (c : cfg) : bool := forallb (fun x => negb (k2 (snd x))) (all_chars c).

Lemma no_k1_b_sound c : no_k1_b c = true -> no_k1 c.
Proof.
  intros H i s ch g cci HA. apply attribute_at_value in HA. apply nth_error_In in HA.
  unfold no_k1_b in H. rewrite forallb_forall in H. specialize (H _ HA). cbn [snd] in H. apply negb_true_iff in H. exact H.
Qed.

Lemma no_k2_b_sound c : no_k2_b c = true -> no_k2 c.
Proof.
  intros H i s ch g cci HA. apply attribute_at_value in HA. apply nth_error_In in HA.
  unfold no_k2_b in H. rewrite forallb_forall in H. specialize (H _ HA). cbn [snd] in H. apply negb_true_iff in H. exact H.
Qed.

(* the same with a judgement that may look at the model's step (needed where the judgement scans a response
   whose content is not fixed by the reference semantics) *)
Theorem monitor_sound_with_step (judge : cfg -> astate -> srv_op -> expect -> srv_out -> verdict) (P : srv_op -> bool) c :
  (forall st a o, sim c st a -> P o = true -> snd (srv_step c st o) <> OFault ->
     (sat_cond c (snd (astep c a o)) -> sat c (snd (astep c a o)) (snd (srv_step c st o))) ->
     judge c a o (snd (astep c a o)) (snd (srv_step c st o)) = Ok) ->
  forall ops st a pos, sim c st a -> forallb P ops = true ->
    monitor_from_with judge c (Some a) pos (srv_run c st ops) = None.
Proof.
  intros J. induction ops as [|o t IH]; intros st a pos Sm HP; [reflexivity|].
  cbn [forallb] in HP. apply andb_true_iff in HP. destruct HP as [Po Pt].
  cbn [srv_run]. pose proof (J st a o Sm Po) as Jo. pose proof (sim_step c st a o Sm) as SS.
  destruct (srv_step c st o) as [st' r] eqn:E. cbn [fst snd] in *. cbn [monitor_from_with].
  assert (NFcase : r = OFault \/ r <> OFault) by (destruct r; (left; reflexivity) || (right; discriminate)).
  destruct NFcase as [->|NF].
  - cbn [mstep_with]. apply dead_accepts.
  - destruct (SS NF) as [S' Sat].
    assert (M : mstep_with judge c (Some a) o r = (judge c a o (snd (astep c a o)) r, Some (fst (astep c a o)))).
    { unfold mstep_with. destruct (astep c a o) as [a' x]. destruct r; try reflexivity. contradiction. }
    rewrite M. rewrite (Jo NF Sat). apply IH; assumption.
Qed.
