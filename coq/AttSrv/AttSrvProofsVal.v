(* The transcribed ATT server (AttSrvModel.v) refines the reference semantics of values, link security
   and the prepared write queue (AttSrvSpecVal.v). Shared by the proofs of C05, C06, C07.

   Part 1  attribute level: spec_protected = characteristic_requires_encryption, security_check = sec_error,
           value_read / value_write / access_write against aread_value / aperm / awrite
   Part 2  buffers: the exact bytes of the responses
   Part 3  the simulation relation [sim] between model state and reference state and its preservation by every
           operation, together with the expectation [sat] on the model's output *)
From Coq Require Import Lia ZifyBool.
From BT Require Import Base.ListX AttDb.AttDbModel NQueue.NQueueModel AttSrv.AttSrvModel AttSrv.AttSrvSpecC01
  AttSrv.AttSrvProofsC01 AttSrv.AttSrvSpecVal.
Local Open Scope N_scope.

(* ================================================================== Part 1: attributes *)

(* C05 spec: the innermost explicit choice IS the code's characteristic_requires_encryption, for every
   placement of the three options on the three levels (2^6 relevant placements, by case analysis) *)
Lemma spec_protected_eq c s ch : spec_protected c s ch = char_requires_encryption c s ch.
Proof.
  unfold spec_protected, char_requires_encryption, encryption_default, explicit_choice.
  destruct (e_noreq (c_enc ch)), (e_req (c_enc ch)), (e_noreq (s_enc s)), (e_req (s_enc s)),
    (e_noreq (enc c)), (e_req (enc c)); reflexivity.
Qed.

Definition to_ares (r : acc_res) : ares :=
  match r with Success => AOk | Err e => AErr e | ValueEqual => AErr err_invalid_offset end.

Lemma security_check_spec req enc pair :
  security_check req enc pair = match sec_error req enc pair with Some e => Err e | None => Success end.
Proof. unfold security_check, sec_error. destruct req, enc; cbn; try reflexivity. destruct (pair =? 0); reflexivity. Qed.

(* the handler calls the reference counts: (writes, empty writes) *)
Definition wlog_of (st : srv_state) : list (N * N) := map (fun x => (snd (fst x), snd x)) (hlogs st).

(* what a read access may change: the read counters of the handler log only *)
Definition same_but_reads (st st' : srv_state) : Prop :=
  vals st' = vals st /\ wq_owner st' = wq_owner st /\ wq_elems st' = wq_elems st /\ conns st' = conns st
  /\ wlog_of st' = wlog_of st.

Lemma same_but_reads_refl st : same_but_reads st st.
Proof. repeat split. Qed.

Lemma same_but_reads_trans a b c : same_but_reads a b -> same_but_reads b c -> same_but_reads a c.
Proof. unfold same_but_reads. intros (A1 & A2 & A3 & A4 & A5) (B1 & B2 & B3 & B4 & B5). repeat split; congruence. Qed.

Lemma map_upd (A B : Type) (f : A -> B) (l : list A) i v : map f (upd l i v) = upd (map f l) i (f v).
Proof. revert i; induction l as [|h t IH]; intros [|j]; cbn; auto. f_equal; auto. Qed.

Lemma map_upd_invariant (A B : Type) (f : A -> B) (F : A -> A) (l : list A) g d :
  (forall x, f (F x) = f x) -> map f (upd l g (F (nth g l d))) = map f l.
Proof.
  intros HF. revert g; induction l as [|h t IH]; intros [|j]; cbn; auto.
  - rewrite HF. reflexivity.
  - f_equal. apply IH.
Qed.

Lemma log_read_same st g : same_but_reads st (log_call st g (fun '(r, w, e) => (r + 1, w, e))).
Proof.
  unfold same_but_reads, log_call, set_hlogs, wlog_of. cbn. repeat split.
  apply map_upd_invariant with (F := fun '(r, w, e) => (r + 1, w, e)).
  intros [[r w] e]. reflexivity.
Qed.

(* handler value with a read handler and no_read_access: the known finding of C06 *)
Definition k1 (ch : char_decl) : bool :=
  match c_value ch with VHandler _ rd _ _ => rd && c_no_read ch | _ => false end.

Lemma mem_read_sub mem off maxlen :
  mem_read mem off maxlen = if len mem <? off then (Err err_invalid_offset, []) else (Success, sub mem off (N.min maxlen (len mem - off))).
Proof. reflexivity. Qed.

(* a read of a characteristic value answers as the reference semantics says (unless k1) and changes read
   counters only *)
Lemma value_read_spec c st enc pair s ch g off maxlen st' rc d :
  value_read c st (enc, pair) s ch g off maxlen = (st', rc, d) ->
  same_but_reads st st' /\
  (k1 ch = false -> aread_value c (vals st) enc pair s ch g off maxlen = (to_ares rc, d)).
Proof.
  unfold value_read, aread_value. rewrite security_check_spec, <- spec_protected_eq. cbn [fst snd].
  destruct (sec_error (spec_protected c s ch) enc pair) as [e|].
  - intros H; inv H. split; [apply same_but_reads_refl|reflexivity].
  - unfold spec_readable, not_long, spec_value, k1, get_val.
    destruct (c_value ch) as [size k|size v|bytes|size hrd hwr blob].
    + destruct (c_no_read ch); cbn [negb].
      * intros H; inv H. split; [apply same_but_reads_refl|reflexivity].
      * rewrite mem_read_sub. destruct (len (nth g (vals st) []) <? off); intros H; inv H; (split; [apply same_but_reads_refl|reflexivity]).
    + destruct (c_no_read ch); cbn [negb].
      * intros H; inv H. split; [apply same_but_reads_refl|reflexivity].
      * rewrite mem_read_sub. destruct (len (fixed_bytes size v) <? off); intros H; inv H; (split; [apply same_but_reads_refl|reflexivity]).
    + rewrite mem_read_sub. cbn [negb]. destruct (len bytes <? off); intros H; inv H; (split; [apply same_but_reads_refl|reflexivity]).
    + destruct hrd; cbn [negb andb].
      * destruct (negb blob && negb (off =? 0)).
        -- intros H; inv H. split; [apply same_but_reads_refl|]. intros K. rewrite K. reflexivity.
        -- rewrite mem_read_sub. destruct (len (nth g (vals st) []) <? off); intros H; inv H;
             (split; [apply log_read_same|]); intros K; rewrite K; reflexivity.
      * intros H; inv H. split; [apply same_but_reads_refl|reflexivity].
Qed.

(* ------------------------------------------------------------------ the simulation relation *)
Definition aconn_of_conn (k : conn) : aconn := mkAC (client_mtu k) (encrypted k) (pairing k).

(* a queue element as the reference queue sees it: handle, offset, bytes *)
Definition dec_elem (e : list N) : N * N * list N :=
  (nth 0 e 0 + 256 * nth 1 e 0, nth 2 e 0 + 256 * nth 3 e 0, skipn 4 e).
Definition elem_ok (c : cfg) (e : list N) : Prop := 4 <= len e /\ attr_of c (fst (fst (dec_elem e))) <> None.

Record sim (c : cfg) (st : srv_state) (a : astate) : Prop := mkSim {
  sim_vals : as_vals a = vals st;
  sim_wlog : as_wlog a = wlog_of st;
  sim_conns : as_conns a = map aconn_of_conn (conns st);
  sim_owner : as_owner a = wq_owner st;
  sim_queue : as_queue a = map dec_elem (wq_elems st);
  sim_qok : Forall (elem_ok c) (wq_elems st) }.
Arguments sim_vals {c st a}.
Arguments sim_wlog {c st a}.
Arguments sim_conns {c st a}.
Arguments sim_owner {c st a}.
Arguments sim_queue {c st a}.
Arguments sim_qok {c st a}.

Lemma sim_set_mark c st a g m : sim c st a -> sim c st (set_mark a g m).
Proof. intros [H1 H2 H3 H4 H5 H6]. constructor; assumption. Qed.

Lemma sim_reads c st st' a : sim c st a -> same_but_reads st st' -> sim c st' a.
Proof.
  intros [H1 H2 H3 H4 H5 H6] (R1 & R2 & R3 & R4 & R5). constructor; congruence.
Qed.

Lemma sim_conn c st a cid k : sim c st a -> get_conn st cid = Some k -> aconn_of a cid = aconn_of_conn k.
Proof.
  intros S G. unfold aconn_of. rewrite (sim_conns S). unfold get_conn in G.
  rewrite (nth_indep _ _ (aconn_of_conn k)).
  - rewrite map_nth. f_equal. apply nth_error_nth. exact G.
  - rewrite map_length. apply nth_error_Some. congruence.
Qed.

Lemma map_upd_same_image (A B : Type) (f : A -> B) (l : list A) i k k' :
  nth_error l i = Some k -> f k' = f k -> map f (upd l i k') = map f l.
Proof.
  revert i; induction l as [|h t IH]; intros [|j] G E; cbn in *; try discriminate.
  - inv G. rewrite E. reflexivity.
  - f_equal. eapply IH; eauto.
Qed.

(* changing the CCCDs or the notification queue of a connection is invisible to the reference state *)
Lemma sim_set_conn c st a cid k k' :
  sim c st a -> get_conn st cid = Some k -> aconn_of_conn k' = aconn_of_conn k -> sim c (set_conn st cid k') a.
Proof.
  intros [H1 H2 H3 H4 H5 H6] G E. constructor; cbn; try assumption.
  rewrite H3. symmetry. eapply map_upd_same_image; eauto.
Qed.

Lemma wlog_of_log_write st g (data : list N) :
  wlog_of (log_call st g (fun '(r, w, e) => (r, w + 1, if len data =? 0 then e + 1 else e)))
  = upd (wlog_of st) g (let '(w, e) := nth g (wlog_of st) (0, 0) in (w + 1, if len data =? 0 then e + 1 else e)).
Proof.
  unfold wlog_of, log_call, set_hlogs. cbn [hlogs]. rewrite map_upd. f_equal.
  pose proof (map_nth (fun x : N * N * N => (snd (fst x), snd x)) (hlogs st) (0, 0, 0) g) as M.
  cbn [fst snd] in M. rewrite M.
  destruct (nth g (hlogs st) (0, 0, 0)) as [[r w] e]. reflexivity.
Qed.

Lemma mem_write_splice mem off data :
  mem_write mem off data =
  if len mem <? off then (Err err_invalid_offset, mem)
  else if len mem <? off + len data then (Err err_invalid_attribute_value_length, mem)
  else (Success, splice mem off data).
Proof.
  unfold mem_write, splice, takeN, dropN. rewrite (N.add_comm (len data) off).
  destruct (len mem <? off); [reflexivity|]. destruct (len mem <? off + len data); [reflexivity|].
  unfold len. rewrite N2Nat.inj_add, Nat2N.id. reflexivity.
Qed.

(* a write through an attribute: the model answers and changes the state as the reference semantics does *)
Lemma access_write_sim c st a cid at_ off data st' rc m :
  sim c st a -> access_write c st cid at_ off data = Some (st', rc) ->
  fst (awrite c a cid at_ off data m) = to_ares rc /\ sim c st' (snd (awrite c a cid at_ off data m)).
Proof.
  intros S. unfold access_write. destruct (get_conn st cid) as [k|] eqn:G; [|discriminate].
  pose proof (sim_conn c st a cid k S G) as K.
  destruct at_ as [s|u|s ch|s ch g cci|s ch cci|nm|u v]; cbn [awrite].
  - intros H; inv H. split; [reflexivity|exact S].
  - intros H; inv H. split; [reflexivity|exact S].
  - intros H; inv H. split; [reflexivity|exact S].
  - (* characteristic value *)
    unfold value_write, aperm. rewrite K. cbn [ac_enc ac_pair aconn_of_conn fst snd].
    rewrite security_check_spec, <- spec_protected_eq.
    destruct (sec_error (spec_protected c s ch) (encrypted k) (pairing k)) as [e|] eqn:Es.
    + intros H; inv H. split; [reflexivity|]. apply sim_set_mark. exact S.
    + unfold spec_writable, not_long. destruct (c_value ch) as [size kc|size v|bytes|size hrd hwr blob].
      * destruct kc, (c_no_write ch); cbn [negb andb orb];
          try (intros H; inv H; split; [reflexivity|apply sim_set_mark; exact S]).
        rewrite mem_write_splice. rewrite (sim_vals S). unfold get_val.
        destruct (len (nth g (vals st) []) <? off).
        { intros H; inv H. split; [reflexivity|]. destruct S as [H1 H2 H3 H4 H5 H6]. constructor; cbn; try assumption.
          rewrite upd_same. reflexivity. }
        destruct (len (nth g (vals st) []) <? off + len data).
        { intros H; inv H. split; [reflexivity|]. destruct S as [H1 H2 H3 H4 H5 H6]. constructor; cbn; try assumption.
          rewrite upd_same. reflexivity. }
        intros H; inv H. split; [reflexivity|]. destruct S as [H1 H2 H3 H4 H5 H6]. constructor; cbn; try assumption.
        reflexivity.
      * intros H; inv H. split; [reflexivity|apply sim_set_mark; exact S].
      * intros H; inv H. split; [reflexivity|apply sim_set_mark; exact S].
      * destruct hwr; cbn [negb].
        2:{ intros H; inv H. split; [reflexivity|apply sim_set_mark; exact S]. }
        destruct (negb blob && negb (off =? 0)).
        { intros H; inv H. split; [reflexivity|apply sim_set_mark; exact S]. }
        rewrite mem_write_splice. rewrite (sim_vals S), (sim_wlog S). unfold get_val.
        pose proof (wlog_of_log_write st g data) as W.
        set (st1 := log_call st g (fun '(r, w, e) => (r, w + 1, if len data =? 0 then e + 1 else e))) in *.
        assert (V1 : vals st1 = vals st) by reflexivity.
        destruct (len (nth g (vals st) []) <? off).
        { intros H; inv H. split; [reflexivity|]. destruct S as [H1 H2 H3 H4 H5 H6]. constructor; cbn; try assumption.
          - rewrite upd_same. reflexivity.
          - symmetry. exact W. }
        destruct (len (nth g (vals st) []) <? off + len data).
        { intros H; inv H. split; [reflexivity|]. destruct S as [H1 H2 H3 H4 H5 H6]. constructor; cbn; try assumption.
          - rewrite upd_same. reflexivity.
          - symmetry. exact W. }
        intros H; inv H. split; [reflexivity|]. destruct S as [H1 H2 H3 H4 H5 H6]. constructor; cbn; try assumption.
        -- reflexivity.
        -- symmetry. exact W.
  - (* client characteristic configuration *)
    unfold aperm. rewrite K. cbn [ac_enc ac_pair aconn_of_conn fst snd].
    rewrite security_check_spec, <- spec_protected_eq.
    destruct (sec_error (spec_protected c s ch) (encrypted k) (pairing k)) as [e|] eqn:Es.
    + intros H; inv H. split; [reflexivity|exact S].
    + unfold cccd_write. rewrite (N.add_comm (len data) off).
      destruct (2 <? off); [intros H; inv H; split; [reflexivity|exact S]|].
      destruct (2 <? off + len data); [intros H; inv H; split; [reflexivity|exact S]|].
      destruct (off =? 0); intros H; inv H; (split; [reflexivity|]); [|exact S].
      eapply sim_set_conn; eauto.
  - destruct (len nm <? off); intros H; inv H; (split; [reflexivity|exact S]).
  - intros H; inv H. split; [reflexivity|exact S].
Qed.

(* ================================================================== Part 2: buffers *)
Lemma firstn_len_app (A : Type) (d y : list A) : firstn (length d) (d ++ y) = d.
Proof. rewrite firstn_app, Nat.sub_diag, firstn_all. cbn. apply app_nil_r. Qed.

Lemma error_response_exact op code h b out_size b' k :
  5 <= out_size -> error_response op code h b out_size = Some (b', k) -> k <= len b' /\ takeN k b' = err_rsp op h code.
Proof.
  intros Ho. unfold error_response. replace (5 <=? out_size) with true by (symmetry; apply N.leb_le; exact Ho).
  destruct (put b 0 (1 :: op :: le16 h ++ [code])) as [b1|] eqn:E; [|discriminate]. intros H. inv H.
  split.
  - pose proof (put_len _ _ _ _ E) as L. unfold put in E.
    destruct (0 + len (1 :: op :: le16 h ++ [code]) <=? len b) eqn:E1; [|discriminate]. apply N.leb_le in E1.
    unfold le16, len in *. cbn in E1. lia.
  - apply put_take in E. exact E.
Qed.

Lemma put_spec b p bs b' :
  put b p bs = Some b' ->
  b' = firstn (N.to_nat p) b ++ bs ++ skipn (N.to_nat p + length bs) b /\ (N.to_nat p + length bs <= length b)%nat.
Proof.
  unfold put. destruct (p + len bs <=? len b) eqn:E; [|discriminate]. apply N.leb_le in E. intros H. apply some_inj in H.
  subst b'. unfold takeN, dropN, len in *. rewrite N2Nat.inj_add, Nat2N.id. split; [reflexivity|lia].
Qed.

Lemma to_nat_1_len (A : Type) (d : list A) : N.to_nat (1 + len d) = S (length d).
Proof. unfold len. lia. Qed.

(* the response written by the read handlers: data at 1, then the opcode at 0 *)
Lemma put_data_then_opcode b d x b1 b2 :
  put b 1 d = Some b1 -> put b1 0 [x] = Some b2 -> 1 + len d <= len b2 /\ takeN (1 + len d) b2 = x :: d.
Proof.
  intros P1 P2. pose proof (put_len _ _ _ _ P1) as L1. pose proof (put_len _ _ _ _ P2) as L2.
  apply put_spec in P1. destruct P1 as [P1 B1]. apply put_spec in P2. destruct P2 as [P2 B2].
  change (N.to_nat 1) with 1%nat in *. change (N.to_nat 0) with 0%nat in *.
  split; [unfold len in *; lia|].
  destruct b as [|x0 b0]; [cbn [length] in B1; lia|].
  cbn [firstn app] in P1. subst b1. cbn [firstn skipn app Nat.add length] in P2. subst b2.
  unfold takeN. rewrite to_nat_1_len. cbn [firstn]. f_equal. apply firstn_len_app.
Qed.

(* the Prepare Write Response: the opcode at 0, then the echo at 1 *)
Lemma put_opcode_then_data b d x b1 b2 :
  put b 0 [x] = Some b1 -> put b1 1 d = Some b2 -> 1 + len d <= len b2 /\ takeN (1 + len d) b2 = x :: d.
Proof.
  intros P1 P2. pose proof (put_len _ _ _ _ P1) as L1. pose proof (put_len _ _ _ _ P2) as L2.
  apply put_spec in P1. destruct P1 as [P1 B1]. apply put_spec in P2. destruct P2 as [P2 B2].
  change (N.to_nat 1) with 1%nat in *. change (N.to_nat 0) with 0%nat in *.
  split; [unfold len in *; lia|].
  cbn [firstn app Nat.add length] in P1. subst b1. cbn [firstn app] in P2. subst b2.
  unfold takeN. rewrite to_nat_1_len. cbn [firstn]. f_equal. apply firstn_len_app.
Qed.

(* reading the fields of a request with a known shape *)
Lemma rd_0 x t : rd (x :: t) 0 = Some x.
Proof. unfold rd, len. cbn [length]. destruct (0 <? N.of_nat (S (length t))) eqn:E; [reflexivity|]. apply N.ltb_ge in E. lia. Qed.

Lemma rd_1 x y t : rd (x :: y :: t) 1 = Some y.
Proof. unfold rd, len. cbn [length]. destruct (1 <? N.of_nat (S (S (length t)))) eqn:E; [reflexivity|]. apply N.ltb_ge in E. lia. Qed.

Lemma rd16_1 o lo hi t : rd16 (o :: lo :: hi :: t) 1 = Some (lo + 256 * hi).
Proof.
  unfold rd16, rd, len. cbn [length].
  destruct (1 <? N.of_nat (S (S (S (length t))))) eqn:E; [|apply N.ltb_ge in E; lia].
  destruct (1 + 1 <? N.of_nat (S (S (S (length t))))) eqn:E2; [|apply N.ltb_ge in E2; lia]. reflexivity.
Qed.

Lemma rd16_3 o a b lo hi t : rd16 (o :: a :: b :: lo :: hi :: t) 3 = Some (lo + 256 * hi).
Proof.
  unfold rd16, rd, len. cbn [length].
  destruct (3 <? N.of_nat (S (S (S (S (S (length t))))))) eqn:E; [|apply N.ltb_ge in E; lia].
  destruct (3 + 1 <? N.of_nat (S (S (S (S (S (length t))))))) eqn:E2; [|apply N.ltb_ge in E2; lia]. reflexivity.
Qed.

Lemma slice_all_from (pdu : list N) k : (k <= length pdu)%nat -> slice pdu (N.of_nat k) (len pdu) = Some (skipn k pdu).
Proof.
  intros H. unfold slice, len. destruct ((N.of_nat k <=? N.of_nat (length pdu)) && (N.of_nat (length pdu) <=? N.of_nat (length pdu))) eqn:E.
  - f_equal. unfold takeN, dropN. rewrite Nat2N.id. apply firstn_all2. rewrite skipn_length. lia.
  - apply andb_false_iff in E. destruct E as [E|E]; apply N.leb_gt in E; lia.
Qed.

Lemma len_cons (A : Type) (x : A) t : len (x :: t) = 1 + len t.
Proof. unfold len. cbn [length]. lia. Qed.
