(* Concrete configurations for the Examples / witnesses of C02 and C03. GENERATED once from
   props/disc_common.py: DISC_CONFIGS with gen/emit_cpp.py: emit_coq (the same JSON the harness
   configurations are generated from). *)
From BT Require Import Base.ListX AttDb.AttDbModel.
Local Open Scope N_scope.

Definition cfg_disc_gap_first : cfg :=
  mkCfg
    [mkSvc (U16 6160) false (Some 5) []
      [mkChar (U16 10752) HNone (VBind 1 false) false false false false false false None [] (mkEnc false false false);
       mkChar (U16 10752) HNone (VBind 2 false) false false false false false false None [] (mkEnc false false false);
       mkChar (U16 10752) HNone (VBind 1 false) false false false false false false None [] (mkEnc false false false)]
      (mkEnc false false false) [];
     mkSvc (U128 [0; 3; 199; 91; 237; 78; 138; 162; 159; 73; 226; 13; 148; 64; 139; 140]) false (Some 32) []
      [mkChar (U128 [49; 0; 199; 91; 237; 78; 138; 162; 159; 73; 226; 13; 148; 64; 139; 140]) HNone (VBind 2 false) false false false false false false None [] (mkEnc false false false);
       mkChar (U16 10753) HNone (VBind 2 false) false false true false false false None [] (mkEnc false false false);
       mkChar (U128 [49; 0; 199; 91; 237; 78; 138; 162; 159; 73; 226; 13; 148; 64; 139; 140]) HNone (VBind 2 false) false false false false false false None [] (mkEnc false false false)]
      (mkEnc false false false) [];
     mkSvc (U16 6161) true None []
      [mkChar (U16 10754) (HThree 48 52 0) (VBind 1 false) false false false false false false None [] (mkEnc false false false)]
      (mkEnc false false false) [];
     mkSvc (U16 6162) false (Some 64) []
      []
      (mkEnc false false false) []]
    65 None [] (mkEnc false false false).
Definition cfg_disc_sec_mix : cfg :=
  mkCfg
    [mkSvc (U16 6176) true (Some 4) []
      [mkChar (U16 10768) HNone (VBind 1 false) false false false false false false None [] (mkEnc false false false)]
      (mkEnc false false false) [];
     mkSvc (U128 [0; 4; 199; 91; 237; 78; 138; 162; 159; 73; 226; 13; 148; 64; 139; 140]) false None []
      [mkChar (U16 10769) HNone (VBind 2 false) false false false false false false None [] (mkEnc false false false)]
      (mkEnc false false false) [];
     mkSvc (U16 6177) true None []
      []
      (mkEnc false false false) [];
     mkSvc (U16 6178) false (Some 24) []
      [mkChar (U128 [65; 0; 199; 91; 237; 78; 138; 162; 159; 73; 226; 13; 148; 64; 139; 140]) HNone (VBind 4 false) false false true false false false None [] (mkEnc false false false)]
      (mkEnc false false false) [];
     mkSvc (U128 [1; 4; 199; 91; 237; 78; 138; 162; 159; 73; 226; 13; 148; 64; 139; 140]) true None []
      [mkChar (U16 10770) HNone (VBind 1 false) false false false false false false None [] (mkEnc false false false)]
      (mkEnc false false false) [];
     mkSvc (U128 [2; 4; 199; 91; 237; 78; 138; 162; 159; 73; 226; 13; 148; 64; 139; 140]) false None []
      [mkChar (U16 10771) (HOne 48) (VBind 1 false) false false false false false false None [] (mkEnc false false false)]
      (mkEnc false false false) [];
     mkSvc (U16 6179) true (Some 80) []
      [mkChar (U16 10772) HNone (VBind 1 false) false false false false false false None [] (mkEnc false false false)]
      (mkEnc false false false) []]
    100 None [] (mkEnc false false false).
Definition cfg_disc_sec128 : cfg :=
  mkCfg
    [mkSvc (U128 [0; 5; 199; 91; 237; 78; 138; 162; 159; 73; 226; 13; 148; 64; 139; 140]) true None []
      [mkChar (U128 [81; 0; 199; 91; 237; 78; 138; 162; 159; 73; 226; 13; 148; 64; 139; 140]) HNone (VBind 2 false) true false false false false false None [] (mkEnc false false false)]
      (mkEnc false false false) [];
     mkSvc (U128 [1; 5; 199; 91; 237; 78; 138; 162; 159; 73; 226; 13; 148; 64; 139; 140]) true None []
      [mkChar (U128 [82; 0; 199; 91; 237; 78; 138; 162; 159; 73; 226; 13; 148; 64; 139; 140]) HNone (VBind 2 false) false false false false false false None [] (mkEnc false false false);
       mkChar (U128 [82; 0; 199; 91; 237; 78; 138; 162; 159; 73; 226; 13; 148; 64; 139; 140]) HNone (VBind 2 false) false false false false false false None [] (mkEnc true false false);
       mkChar (U128 [82; 0; 199; 91; 237; 78; 138; 162; 159; 73; 226; 13; 148; 64; 139; 140]) HNone (VBind 2 false) false false false false false false None [] (mkEnc false false false)]
      (mkEnc false false false) [];
     mkSvc (U128 [2; 5; 199; 91; 237; 78; 138; 162; 159; 73; 226; 13; 148; 64; 139; 140]) false (Some 16) []
      [mkChar (U16 10784) HNone (VHandler 4 false true true) false false false false false false None [] (mkEnc false false false);
       mkChar (U16 10784) HNone (VBind 4 false) false false false false false false None [] (mkEnc false false false)]
      (mkEnc false false false) [];
     mkSvc (U128 [3; 5; 199; 91; 237; 78; 138; 162; 159; 73; 226; 13; 148; 64; 139; 140]) false (Some 33) []
      [mkChar (U16 10785) HNone (VString [97; 98; 99]) false false false false false false (Some [120]) [] (mkEnc false false false)]
      (mkEnc false false false) []]
    23 None [] (mkEnc false false false).
Definition cfg_disc_uniform : cfg :=
  mkCfg
    [mkSvc (U16 6192) false None []
      [mkChar (U16 10800) HNone (VBind 2 false) false false false false false false None [] (mkEnc false false false);
       mkChar (U16 10801) HNone (VBind 2 false) false false true false false false None [] (mkEnc false false false);
       mkChar (U16 10800) HNone (VBind 2 false) false false false false false false None [] (mkEnc false false false)]
      (mkEnc false false false) [];
     mkSvc (U16 6193) false None []
      [mkChar (U16 10800) HNone (VBind 2 false) false false false true false false None [] (mkEnc false false false)]
      (mkEnc false false false) [];
     mkSvc (U16 6194) true None []
      [mkChar (U16 10802) HNone (VFixed 2 4660) false false false false false false None [] (mkEnc false false false)]
      (mkEnc false false false) [];
     mkSvc (U16 6195) false None []
      []
      (mkEnc false false false) []]
    40 None [] (mkEnc false false false).
