(* Trace level theorem of C09, extended to histories that also contain l2cap_output, notify / indicate, link
   security changes, disconnects and val / setval operations. *)
From Coq Require Import Lia ZifyBool.
From BT Require Import Base.ListX Base.Bits2 AttDb.AttDbModel AttDb.AttDbProofs NQueue.NQueueModel AttSrv.AttSrvModel
  AttSrv.AttSrvFrame AttSrv.AttSrvCbModel AttSrv.AttSrvNotifSpec AttSrv.AttSrvNotifObs AttSrv.AttSrvNotifObs09 AttSrv.AttSrvSpecC09
  AttSrv.AttSrvProofsC08 AttSrv.AttSrvProofsC09 AttSrv.AttSrvProofsC09T AttSrv.AttSrvProofsC11Live.
Local Open Scope N_scope.

Definition ok_pair (c : cfg) (o : oconn) (k : conn) : Prop :=
  conn_store_ok c k /\ o_enc o = encrypted k
  /\ forall g v h s ch cci, nth g (o_cccd o) None = Some v -> by_cccd_handle (char_table c) h = Some g ->
       attribute_at c (index_by_handle c h) = Some (ACccd s ch cci) -> cccd_get (cccd k) (cccd_position c cci) = v.

Lemma sim09_set c st n m cid o1 k1 st' :
  sim09 c (st, n) m -> (cid < length (conns st))%nat -> ok_pair c o1 k1 -> conns st' = upd (conns st) cid k1 ->
  sim09 c (st', n) (set_oc m cid o1).
Proof.
  intros (T & L & CB & S) Hc OK E. cbn [fst snd] in *.
  split; [exact T|]. split; [cbn [fst]; rewrite set_oc_length, E, upd_length; exact L|]. split; [exact CB|].
  intros j kj Gj. cbn [fst] in Gj. unfold get_conn in Gj. rewrite E in Gj.
  destruct (Nat.eq_dec cid j) as [<-|Nj].
  - rewrite nth_error_upd_eq in Gj by exact Hc. apply f_some_inj in Gj. subst kj.
    assert (E2 : oc_at (set_oc m cid o1) cid = o1).
    { rewrite oc_at_set_oc, Nat.eqb_refl. replace (cid <? length (ob_conns m))%nat with true by (symmetry; apply Nat.ltb_lt; lia). reflexivity. }
    unfold tracked. rewrite E2. exact OK.
  - rewrite nth_error_upd_neq in Gj by exact Nj.
    assert (E2 : oc_at (set_oc m cid o1) j = oc_at m j).
    { rewrite oc_at_set_oc. replace (Nat.eqb cid j) with false by (symmetry; apply Nat.eqb_neq; exact Nj). reflexivity. }
    unfold tracked. rewrite E2. exact (S j kj Gj).
Qed.

Lemma ok_pair_init c n : (n = length (char_table c)) -> ok_pair c (oc_init n) (init_conn c).
Proof.
  intros ->. pose proof (sim09_init c) as (_ & _ & _ & S). cbn [fst] in S.
  assert (G : get_conn (srv_init c) O = Some (init_conn c)) by reflexivity.
  destruct (S O _ G) as (A & B & C). split; [exact A|]. split; [reflexivity|].
  intros g v h s ch cci Hv Bh At. apply (C g v h s ch cci); auto.
Qed.

Lemma request_same_cccd st kd d : same_cccd st (fst (request st kd d)) /\ length (conns (fst (request st kd d))) = length (conns st).
Proof.
  unfold request. destruct (queue_all (conns st) _) as [l rs] eqn:Q. cbn [fst conns].
  destruct (queue_all_spec _ _ _ _ Q) as (Ln & N0). split; [|exact Ln].
  intros j k G. unfold get_conn in *. cbn [conns]. rewrite (N0 _ _ G). eexists. split; [reflexivity|].
  unfold nq_step. destruct (NQueueModel.step (nq k) _). split; reflexivity.
Qed.

Lemma sim09_other c st n0 m op :
  (match op with OpIn _ _ _ => False | _ => True end) ->
  snd (srv_step c st op) <> OFault -> sim09 c (st, n0) m ->
  sim09 c (fst (srv_step c st op), n0) (advance c m op (snd (srv_step c st op)))
  /\ check09 c m op (snd (srv_step c st op)) = None.
Proof.
  intros Hop NF SM. pose proof SM as (T & L & CB & S). cbn [fst snd] in *.
  destruct op as [cid pdu n|cid n|cid e p|cid|bu kd g|g|g data]; [contradiction| | | | | |]; cbn [srv_step] in *.
  - (* l2cap_output *)
    destruct (att_output c st cid n) as [[st' rs]|] eqn:A; cbn [fst snd] in *; [|contradiction]. split; [|reflexivity].
    assert (exists k, get_conn st cid = Some k) as (k & G) by (unfold att_output in A; destruct (get_conn st cid); [eauto|discriminate]).
    destruct (NQueueModel.step (nq k) Dequeue) as [q1 r] eqn:D.
    destruct (att_output_conn c st cid n st' rs k q1 r G D A) as (k' & G' & (_ & Ec & Ee & _) & _).
    assert (SC : same_cccd st st').
    { intros j kj Gj. destruct (Nat.eq_dec j cid) as [->|Nj].
      - rewrite G in Gj. apply f_some_inj in Gj. subst kj. exists k'. auto.
      - exists kj. rewrite (frame_other _ _ _ _ _ j (att_output_frame _ _ _ _ _ _ A) Nj). auto. }
    exact (sim09_keep c st n0 m st' _ SM SC (frame_length _ _ _ (att_output_frame _ _ _ _ _ _ A)) (k9_adv_out c m cid n rs)).
  - (* link security *)
    destruct (get_conn st cid) as [k0|] eqn:G; cbn [fst snd]; (split; [|reflexivity]).
    + destruct (S _ _ G) as (S1 & S2 & S3). apply (sim09_set c st n0 m cid (release_must (oc_at m cid) e) (mkConn (client_mtu k0) (cccd k0) e (p mod 4) (nq k0)) _ SM (nth_error_lt _ _ _ _ G)); [|reflexivity].
      split; [exact S1|]. split; [reflexivity|]. exact S3.
    + assert (Lo : (length (ob_conns m) <= cid)%nat) by (rewrite L; apply nth_error_None; exact G).
      apply (sim09_keep c st n0 m st _ SM (sc_refl st) eq_refl). apply k9_conns; try reflexivity.
      unfold set_oc. cbn [ob_conns]. apply upd_out. exact Lo.
  - (* disconnect *)
    cbn [fst snd]. split; [|reflexivity].
    destruct (Nat.lt_ge_cases cid (length (conns st))) as [Hc|Hc].
    + apply (sim09_set c st n0 m cid (oc_init (length (ob_tab m))) (init_conn c) _ SM Hc); [apply ok_pair_init; congruence|].
      unfold set_conn. cbn [conns]. rewrite wq_free_conns. reflexivity.
    + assert (E : conns (set_conn (wq_free st cid) cid (init_conn c)) = conns st).
      { unfold set_conn. cbn [conns]. rewrite wq_free_conns. apply upd_out. exact Hc. }
      apply (sim09_keep c st n0 m _ _ SM (sc_conns _ _ E) (f_equal (@length _) E)). apply k9_conns; try reflexivity.
      unfold set_oc. cbn [ob_conns]. apply upd_out. lia.
  - (* notify / indicate *)
    assert (R : forall d, sim09 c (fst (request st kd d), n0)
                  (mkObs (ob_tab m) (adv_request (ob_tab m) (target m bu g) kd (ob_conns m) (snd (request st kd d))) (ob_vals m) (ob_cb m))).
    { intros d. destruct (request_same_cccd st kd d) as (SC & LC). exact (sim09_keep c st n0 m _ _ SM SC LC (k9_notify m bu kd g _)). }
    assert (K0 : sim09 c (st, n0) m) by exact SM.
    destruct bu.
    + destruct (by_uuid_available c kd g); cbn [fst snd]; [|split; [exact K0|reflexivity]].
      unfold notify_by_uuid in *. destruct (nth_error (all_chars c) g) as [x|]; cbn [fst snd] in *; [|contradiction].
      destruct (find_notification_by_uuid c (c_uuid (snd x))) as [d|]; cbn [fst snd] in *; [|contradiction].
      specialize (R d). destruct (request st kd d) as [s1 r1]. cbn [fst snd] in *. split; [exact R|reflexivity].
    + destruct (by_value_available c g); cbn [fst snd]; [|split; [exact K0|reflexivity]].
      unfold notify_by_value in *. destruct (find_notification_data c g) as [d|]; cbn [fst snd] in *; [|contradiction].
      specialize (R d). destruct (request st kd d) as [s1 r1]. cbn [fst snd] in *. split; [exact R|reflexivity].
  - destruct (has_var c g) as [[w h]|]; cbn [fst snd]; (split; [|reflexivity]); [|exact SM].
    apply (sim09_keep c st n0 m st _ SM (sc_refl st) eq_refl). apply k9_conns; reflexivity.
  - destruct (has_var c g) as [[[|] h]|]; cbn [fst snd]; (split; [|reflexivity]); try exact SM.
    assert (K : keeps9 m (match nth g (ob_vals m) None with
                          | Some old => set_obvals m (upd (ob_vals m) g (Some (takeN (N.min (len data) (len old)) data ++ dropN (N.min (len data) (len old)) old)))
                          | None => m end)) by (destruct (nth g (ob_vals m) None); [apply k9_conns; reflexivity|apply k9_refl]).
    exact (sim09_keep c st n0 m _ _ SM (sc_conns _ _ eq_refl) eq_refl K).
Qed.

(* any operation; the PDUs of l2cap_input consist of bytes *)
Definition op09_bytes (o : op9) : bool :=
  match o with
  | Op9 (OpIn _ pdu _) => forallb (fun b => b <? 256) pdu
  | _ => true
  end.

Theorem monitor09_from_accepts_all c : wf c -> no_includes c -> env09 c = true -> forall ops s m pos,
  sim09 c s m -> forallb op09_bytes ops = true -> no_fault9 (srv9_run c s ops) ->
  monitor09_from c m pos (srv9_run c s ops) = None.
Proof.
  intros W NI EV. induction ops as [|o t IH]; intros s m pos SM OK NF; cbn [srv9_run monitor09_from]; [reflexivity|].
  cbn [forallb] in OK. apply andb_true_iff in OK. destruct OK as [Ok1 Ok2]. destruct s as [st n0].
  destruct o as [op|].
  - destruct op as [cid pdu n|cid n|cid e p|cid|bu kd g|g|g data].
    + assert (BO : bytes_ok_l pdu).
      { cbn [op09_bytes] in Ok1. rewrite forallb_forall in Ok1. apply Forall_forall. intros b Hb. apply N.ltb_lt. apply Ok1. exact Hb. }
      cbn [srv9_run srv9_step fst snd srv_step] in NF |- *.
      destruct (att_input c st cid pdu n) as [[st' rs]|] eqn:A; cbn [fst snd] in NF |- *.
      * cbn [monitor09_from mstep09]. unfold mstep_of.
        rewrite (check09_in_ok c st n0 m cid pdu n st' rs W NI EV BO SM A).
        inversion NF as [|? ? NF1 NF2]. apply IH; [|exact Ok2|exact NF2].
        exact (sim09_in c st n0 m cid pdu n st' rs W NI EV BO SM A).
      * exfalso. inversion NF as [|? ? NF1 NF2]. apply NF1. reflexivity.
    + cbn [srv9_run srv9_step fst snd] in NF |- *.
      destruct (srv_step c st (OpOut cid n)) as [st' x] eqn:E. cbn [fst snd] in NF |- *. inversion NF as [|? ? NF1 NF2]. cbn [snd] in NF1.
      assert (NFx : snd (srv_step c st (OpOut cid n)) <> OFault) by (rewrite E; intros X; apply NF1; cbn [snd] in X |- *; congruence).
      destruct (sim09_other c st n0 m (OpOut cid n) I NFx SM) as (S1 & C1). rewrite E in S1, C1. cbn [fst snd] in S1, C1.
      cbn [monitor09_from mstep09]. unfold mstep_of. rewrite C1. rewrite N.add_0_r. apply IH; [exact S1|exact Ok2|rewrite N.add_0_r in NF2; exact NF2].
    + cbn [srv9_run srv9_step fst snd] in NF |- *.
      destruct (srv_step c st (OpSec cid e p)) as [st' x] eqn:E. cbn [fst snd] in NF |- *. inversion NF as [|? ? NF1 NF2]. cbn [snd] in NF1.
      assert (NFx : snd (srv_step c st (OpSec cid e p)) <> OFault) by (rewrite E; intros X; apply NF1; cbn [snd] in X |- *; congruence).
      destruct (sim09_other c st n0 m (OpSec cid e p) I NFx SM) as (S1 & C1). rewrite E in S1, C1. cbn [fst snd] in S1, C1.
      cbn [monitor09_from mstep09]. unfold mstep_of. rewrite C1. rewrite N.add_0_r. apply IH; [exact S1|exact Ok2|rewrite N.add_0_r in NF2; exact NF2].
    + cbn [srv9_run srv9_step fst snd] in NF |- *.
      destruct (srv_step c st (OpDisc cid)) as [st' x] eqn:E. cbn [fst snd] in NF |- *. inversion NF as [|? ? NF1 NF2]. cbn [snd] in NF1.
      assert (NFx : snd (srv_step c st (OpDisc cid)) <> OFault) by (rewrite E; intros X; apply NF1; cbn [snd] in X |- *; congruence).
      destruct (sim09_other c st n0 m (OpDisc cid) I NFx SM) as (S1 & C1). rewrite E in S1, C1. cbn [fst snd] in S1, C1.
      cbn [monitor09_from mstep09]. unfold mstep_of. rewrite C1. rewrite N.add_0_r. apply IH; [exact S1|exact Ok2|rewrite N.add_0_r in NF2; exact NF2].
    + cbn [srv9_run srv9_step fst snd] in NF |- *.
      destruct (srv_step c st (OpNotify bu kd g)) as [st' x] eqn:E. cbn [fst snd] in NF |- *. inversion NF as [|? ? NF1 NF2]. cbn [snd] in NF1.
      assert (NFx : snd (srv_step c st (OpNotify bu kd g)) <> OFault) by (rewrite E; intros X; apply NF1; cbn [snd] in X |- *; congruence).
      destruct (sim09_other c st n0 m (OpNotify bu kd g) I NFx SM) as (S1 & C1). rewrite E in S1, C1. cbn [fst snd] in S1, C1.
      cbn [monitor09_from mstep09]. unfold mstep_of. rewrite C1. rewrite N.add_0_r. apply IH; [exact S1|exact Ok2|rewrite N.add_0_r in NF2; exact NF2].
    + cbn [srv9_run srv9_step fst snd] in NF |- *.
      destruct (srv_step c st (OpVal g)) as [st' x] eqn:E. cbn [fst snd] in NF |- *. inversion NF as [|? ? NF1 NF2]. cbn [snd] in NF1.
      assert (NFx : snd (srv_step c st (OpVal g)) <> OFault) by (rewrite E; intros X; apply NF1; cbn [snd] in X |- *; congruence).
      destruct (sim09_other c st n0 m (OpVal g) I NFx SM) as (S1 & C1). rewrite E in S1, C1. cbn [fst snd] in S1, C1.
      cbn [monitor09_from mstep09]. unfold mstep_of. rewrite C1. rewrite N.add_0_r. apply IH; [exact S1|exact Ok2|rewrite N.add_0_r in NF2; exact NF2].
    + cbn [srv9_run srv9_step fst snd] in NF |- *.
      destruct (srv_step c st (OpSetVal g data)) as [st' x] eqn:E. cbn [fst snd] in NF |- *. inversion NF as [|? ? NF1 NF2]. cbn [snd] in NF1.
      assert (NFx : snd (srv_step c st (OpSetVal g data)) <> OFault) by (rewrite E; intros X; apply NF1; cbn [snd] in X |- *; congruence).
      destruct (sim09_other c st n0 m (OpSetVal g data) I NFx SM) as (S1 & C1). rewrite E in S1, C1. cbn [fst snd] in S1, C1.
      cbn [monitor09_from mstep09]. unfold mstep_of. rewrite C1. rewrite N.add_0_r. apply IH; [exact S1|exact Ok2|rewrite N.add_0_r in NF2; exact NF2].
  - cbn [srv9_run srv9_step fst snd] in NF |- *. cbn [monitor09_from mstep09].
    inversion NF as [|? ? NF1 NF2].
    destruct SM as (T & L & CB & S). cbn [fst snd] in *.
    assert (SM' : sim09 c (st, 0) (set_cb m (Some 0))).
    { split; [exact T|]. split; [exact L|]. split; [intros e He; cbn [set_cb ob_cb] in He; inversion He; reflexivity|]. exact S. }
    destruct (ob_cb m) as [e|] eqn:Cb.
    + rewrite (CB e eq_refl), N.eqb_refl. apply IH; [exact SM'|exact Ok2|exact NF2].
    + apply IH; [exact SM'|exact Ok2|exact NF2].
Qed.

Theorem monitor09_accepts_model_all c ops :
  wf c -> no_includes c -> env09 c = true -> forallb op09_bytes ops = true ->
  no_fault9 (srv9_run c (srv9_init c) ops) -> monitor09 c (srv9_run c (srv9_init c) ops) = None.
Proof. intros W NI EV OK NF. apply monitor09_from_accepts_all; auto. apply sim09_init. Qed.
