(* Proofs for property C02 (and the parts shared with C03).

   Part A  sorted handle lists: the client procedure [discover_all] over ANY responder that answers with a
           non-empty prefix of the in-range elements enumerates them exactly (C02 (c), abstract form).
   Part B  the attribute table of a wf configuration without include declarations: the model's index
           based accessors (handle_by_index, attribute_at, first_index_by_handle) read the table.
   Part C  buffers: consecutive [put]s append to the written prefix.
   Part D  the handlers. *)
From Coq Require Import Lia ZifyBool.
From BT Require Import Base.ListX AttDb.AttDbModel AttDb.AttDbSpec AttDb.AttDbProofs NQueue.NQueueModel
  AttSrv.AttSrvModel AttSrv.AttSrvSpecC02 AttSrv.AttSrvSpecC03.
Local Open Scope N_scope.

(* ================================================================== Part A: sorted lists *)
Definition hrange (l : list N) (lo hi : N) : list N := filter (in_range lo hi) l.

Lemma increasing_from_weaken p q l : q <= p -> increasing_from p l = true -> increasing_from q l = true.
Proof.
  destruct l as [|x t]; cbn [increasing_from]; auto. intros H H1.
  apply andb_true_iff in H1. destruct H1 as [H1 H2]. apply N.ltb_lt in H1.
  apply andb_true_iff. split; [apply N.ltb_lt; lia|exact H2].
Qed.

Lemma last_default (l : list N) d d' : l <> [] -> last l d = last l d'.
Proof.
  induction l as [|a t IH]; intros H; [congruence|].
  destruct t; [reflexivity|]. cbn [last] in *. apply IH. discriminate.
Qed.

Lemma increasing_from_app p a b :
  increasing_from p (a ++ b) = true -> increasing_from p a = true /\ increasing_from (last a p) b = true.
Proof.
  revert p; induction a as [|x t IH]; intros p H; cbn [app increasing_from] in *; [split; auto|].
  apply andb_true_iff in H. destruct H as [H1 H2]. destruct (IH _ H2) as [I1 I2].
  split; [apply andb_true_iff; split; auto|].
  destruct t as [|y t']; [exact I2|].
  rewrite (last_default (x :: y :: t') p x) by discriminate.
  change (last (x :: y :: t') x) with (last (y :: t') x). exact I2.
Qed.

Lemma increasing_from_filter p f l : increasing_from p l = true -> increasing_from p (filter f l) = true.
Proof.
  revert p; induction l as [|x t IH]; intros p H; cbn [filter increasing_from] in *; auto.
  apply andb_true_iff in H. destruct H as [H1 H2].
  destruct (f x); cbn [increasing_from].
  - apply andb_true_iff. split; auto.
  - apply IH. apply N.ltb_lt in H1. apply (increasing_from_weaken x); [lia|auto].
Qed.

Lemma filter_all_false {A : Type} (f : A -> bool) l : (forall x, In x l -> f x = false) -> filter f l = [].
Proof.
  induction l as [|x t IH]; intros H; cbn [filter]; auto.
  rewrite (H x) by (left; auto). apply IH. intros y Hy. apply H. right. auto.
Qed.

Lemma filter_all_true {A : Type} (f : A -> bool) l : (forall x, In x l -> f x = true) -> filter f l = l.
Proof.
  induction l as [|x t IH]; intros H; cbn [filter]; auto.
  rewrite (H x) by (left; auto). f_equal. apply IH. intros y Hy. apply H. right. auto.
Qed.

Lemma filter_filter {A : Type} (f g : A -> bool) l : filter f (filter g l) = filter (fun x => g x && f x) l.
Proof.
  induction l as [|x t IH]; cbn [filter]; auto.
  destruct (g x); cbn [filter andb]; [destruct (f x); rewrite IH; auto|auto].
Qed.

Lemma filter_ext_in' {A : Type} (f g : A -> bool) l : (forall x, In x l -> f x = g x) -> filter f l = filter g l.
Proof.
  induction l as [|x t IH]; intros H; cbn [filter]; auto.
  rewrite (H x) by (left; auto). rewrite IH; auto. intros y Hy. apply H. right. auto.
Qed.

Lemma last_in (l : list N) d : l <> [] -> In (last l d) l.
Proof.
  induction l as [|x t IH]; intros H; [congruence|].
  destruct t as [|y t']; [left; reflexivity|]. right. apply IH. discriminate.
Qed.

(* the part of a sorted list behind the last element of a prefix *)
Lemma sorted_split p hs rest :
  increasing_from p (hs ++ rest) = true -> hs <> [] ->
  filter (fun h => last hs 0 + 1 <=? h) (hs ++ rest) = rest.
Proof.
  intros H Hne. destruct (increasing_from_app _ _ _ H) as [H1 H2].
  rewrite filter_app. rewrite (filter_all_false _ hs), (filter_all_true _ rest); auto.
  - intros x Hx. apply N.leb_le.
    assert (last hs p < x) by (apply (increasing_from_lower _ rest); auto).
    rewrite (last_default hs 0 p) by auto. lia.
  - intros x Hx. apply N.leb_gt.
    (* every element of hs is <= last hs *)
    clear H2 H Hne rest. revert p H1 Hx. induction hs as [|a t IH]; intros p H1 Hx; [destruct Hx|].
    cbn [increasing_from] in H1. apply andb_true_iff in H1. destruct H1 as [_ H1].
    destruct t as [|b t'].
    + destruct Hx as [<-|[]]. cbn [last]. lia.
    + destruct Hx as [<-|Hx].
      * assert (a < last (b :: t') 0); [|cbn [last] in *; lia].
        apply (increasing_from_lower a (b :: t')); auto. apply last_in. discriminate.
      * specialize (IH a H1 Hx). cbn [last] in *. exact IH.
Qed.

Lemma hrange_narrow l lo hi lo' :
  lo <= lo' -> hrange l lo' hi = filter (fun h => lo' <=? h) (hrange l lo hi).
Proof.
  intros H. unfold hrange. rewrite filter_filter. apply filter_ext_in'. intros x _. unfold in_range.
  destruct (lo' <=? x) eqn:E1, (lo <=? x) eqn:E2, (x <=? hi) eqn:E3; cbn [andb]; auto; lia.
Qed.

(* C02 (c), abstract: [r] answers lo..hi with a non-empty prefix of the elements in range and a handle to
   continue behind (no element between the last returned one and that handle), or with "not found"
   exactly when there is none *)
Definition good_responder (l : list N) (hi : N) (r : N -> N -> option (list N * N)) : Prop :=
  forall lo, 1 <= lo -> lo <= hi ->
    match r lo hi with
    | None => hrange l lo hi = []
    | Some (hs, cnt) =>
        hs <> [] /\ last hs 0 <= cnt /\ (forall h, In h l -> last hs 0 < h -> cnt < h)
        /\ exists rest, hrange l lo hi = hs ++ rest
    end.

Theorem discover_all_enumerates l hi r :
  increasing_from 0 l = true -> (forall h, In h l -> h <= 65535) ->
  good_responder l hi r ->
  forall fuel lo, 1 <= lo -> (length (hrange l lo hi) < fuel)%nat ->
    discover_all fuel r lo hi = hrange l lo hi.
Proof.
  intros Hs Hb Hr. induction fuel as [|f IH]; intros lo Hlo Hf; [lia|].
  cbn [discover_all]. destruct (hi <? lo) eqn:E.
  - symmetry. apply filter_all_false. intros x _. unfold in_range. lia.
  - specialize (Hr lo Hlo ltac:(lia)). destruct (r lo hi) as [[hs cnt]|]; [|symmetry; exact Hr].
    destruct Hr as (Hne & Hc1 & Hc2 & rest & Hrest). rewrite Hrest. f_equal.
    assert (Hsort : increasing_from 0 (hs ++ rest) = true)
      by (rewrite <- Hrest; apply increasing_from_filter; auto).
    assert (Hin : In (last hs 0) (hrange l lo hi)) by (rewrite Hrest; apply in_or_app; left; apply last_in; auto).
    apply filter_In in Hin. destruct Hin as [Hin1 Hin2]. unfold in_range in Hin2.
    pose proof (sorted_split _ _ _ Hsort Hne) as Hsp.
    assert (Hnext : hrange l (cnt + 1) hi = rest).
    { transitivity (hrange l (last hs 0 + 1) hi).
      - unfold hrange. apply filter_ext_in'. intros x Hx. unfold in_range.
        destruct (last hs 0 + 1 <=? x) eqn:E1; [specialize (Hc2 x Hx ltac:(lia)); lia|].
        replace (cnt + 1 <=? x) with false by lia. reflexivity.
      - rewrite (hrange_narrow l lo hi) by lia. rewrite Hrest. exact Hsp. }
    destruct ((hi <=? cnt) || (65535 <=? cnt)) eqn:E2.
    + (* nothing can follow *)
      rewrite <- Hnext. symmetry. apply filter_all_false. intros x Hx. unfold in_range.
      specialize (Hb x Hx). lia.
    + rewrite IH; [exact Hnext|lia|].
      rewrite Hnext. rewrite Hrest, app_length in Hf. destruct hs; [congruence|]. cbn [length] in Hf. lia.
Qed.

(* ================================================================== Part B: the attribute table *)
(* the declared attribute without the run-time numbers (global characteristic number, CCCD number) *)
Definition erase (a : attr) : attr :=
  match a with
  | AValue s ch _ _ => AValue s ch O 0
  | ACccd s ch _ => ACccd s ch 0
  | _ => a
  end.

Lemma erase_uuid a : attr_uuid (erase a) = attr_uuid a.
Proof. destruct a; reflexivity. Qed.
Lemma erase_type a : attr_type (erase a) = attr_type a.
Proof. destruct a; reflexivity. Qed.
Lemma erase_matches k a : type_matches k (erase a) = type_matches k a.
Proof. destruct k, a; reflexivity. Qed.
Lemma erase_readable c a : readable c (erase a) = readable c a.
Proof. destruct a; reflexivity. Qed.

Lemma nth_error_app_N (A : Type) (l1 l2 : list A) (i : N) :
  nth_error (l1 ++ l2) (N.to_nat i)
  = if i <? len l1 then nth_error l1 (N.to_nat i) else nth_error l2 (N.to_nat (i - len l1)).
Proof.
  unfold len. destruct (i <? N.of_nat (length l1)) eqn:E.
  - apply nth_error_app1. lia.
  - rewrite nth_error_app2 by lia. f_equal. lia.
Qed.

Lemma char_attrs_len s ch g cci : len (char_attrs s ch g cci) = char_nattrs ch.
Proof.
  unfold char_attrs, char_tail_attrs, char_nattrs, char_nccc, len.
  cbn [length]. rewrite !app_length, map_length.
  destruct (has_cccd ch), (c_name ch); cbn [length b2n is_some]; lia.
Qed.

Lemma char_attrs_erase s ch g cci : map erase (char_attrs s ch g cci) = char_attrs s ch O 0.
Proof.
  unfold char_attrs, char_tail_attrs. cbn [map erase]. f_equal. f_equal.
  rewrite !map_app, map_map. cbn [erase].
  destruct (has_cccd ch), (c_name ch); cbn [map erase]; try reflexivity;
    repeat f_equal; apply map_ext; intros; reflexivity.
Qed.

Lemma nth_error_map_erase (l : list attr) i : option_map erase (nth_error l i) = nth_error (map erase l) i.
Proof. symmetry. apply nth_error_map. Qed.

Lemma chars_attribute_at_table s cs g cci i :
  option_map erase (chars_attribute_at s cs g cci i)
  = nth_error (flat_map (fun ch => char_attrs s ch O 0) cs) (N.to_nat i).
Proof.
  revert g cci i; induction cs as [|ch t IH]; intros g cci i; cbn [chars_attribute_at flat_map].
  - destruct (N.to_nat i); reflexivity.
  - rewrite nth_error_app_N, char_attrs_len. destruct (i <? char_nattrs ch).
    + unfold char_attribute_at. rewrite nth_error_map_erase, char_attrs_erase. reflexivity.
    + apply IH.
Qed.

Lemma svc_decl_attrs_len s : len (svc_decl_attrs s) = svc_nattrs s.
Proof.
  unfold svc_decl_attrs, svc_nattrs, svc_nsattrs, len. cbn [length]. rewrite app_length, map_length.
  assert (H : N.of_nat (length (flat_map (fun ch => char_attrs s ch O 0) (s_chars s))) = sumN char_nattrs (s_chars s)).
  { induction (s_chars s) as [|ch t IH]; cbn [flat_map sumN length]; [reflexivity|].
    rewrite app_length, Nat2N.inj_add, IH. pose proof (char_attrs_len s ch O 0) as Hl. unfold len in Hl. lia. }
  lia.
Qed.

Lemma svc_attribute_at_table s g cci i :
  option_map erase (svc_attribute_at s g cci i) = nth_error (svc_decl_attrs s) (N.to_nat i).
Proof.
  unfold svc_attribute_at, svc_decl_attrs, svc_nsattrs.
  change (AService s :: map AInclude (s_includes s) ++ flat_map (fun ch => char_attrs s ch O 0) (s_chars s))
    with ((AService s :: map AInclude (s_includes s)) ++ flat_map (fun ch => char_attrs s ch O 0) (s_chars s)).
  rewrite nth_error_app_N.
  replace (len (AService s :: map AInclude (s_includes s))) with (1 + len (s_includes s))
    by (unfold len; cbn [length]; rewrite map_length; lia).
  destruct (i <? 1 + len (s_includes s)) eqn:E.
  - destruct (i =? 0) eqn:E0.
    + apply N.eqb_eq in E0. subst i. reflexivity.
    + replace (N.to_nat i) with (S (N.to_nat (i - 1))) by lia. cbn [nth_error].
      rewrite nth_error_map. destruct (nth_error (s_includes s) (N.to_nat (i - 1))); reflexivity.
  - apply chars_attribute_at_table.
Qed.

Lemma svcs_attribute_at_table ss g cci i :
  option_map erase (svcs_attribute_at ss g cci i) = nth_error (flat_map svc_decl_attrs ss) (N.to_nat i).
Proof.
  revert g cci i; induction ss as [|s t IH]; intros g cci i; cbn [svcs_attribute_at flat_map].
  - destruct (N.to_nat i); reflexivity.
  - rewrite nth_error_app_N, svc_decl_attrs_len. destruct (i <? svc_nattrs s).
    + apply svc_attribute_at_table.
    + apply IH.
Qed.

(* attribute_at reads the declaration *)
Lemma attribute_at_decl c i : option_map erase (attribute_at c i) = nth_error (decl_attrs c) (N.to_nat i).
Proof. apply svcs_attribute_at_table. Qed.

Lemma decl_attrs_len c : len (decl_attrs c) = number_of_attributes c.
Proof.
  unfold decl_attrs, number_of_attributes. induction (services c) as [|s t IH]; cbn [flat_map sumN]; [reflexivity|].
  unfold len in *. rewrite app_length, Nat2N.inj_add, IH. pose proof (svc_decl_attrs_len s) as H. unfold len in H. lia.
Qed.

Lemma table_length c : wf c -> no_includes c -> length (table c) = N.to_nat (number_of_attributes c).
Proof.
  intros Hw Hn. unfold table. rewrite combine_length, (assign_length c Hw Hn).
  pose proof (decl_attrs_len c) as H. unfold len in H. lia.
Qed.

(* the i-th entry of the table is what the model's accessors deliver for index i *)
Lemma table_nth c i :
  wf c -> no_includes c -> i < number_of_attributes c ->
  exists a, attribute_at c i = Some a /\ nth_error (table c) (N.to_nat i) = Some (handle_by_index c i, erase a).
Proof.
  intros Hw Hn Hi. pose proof (attribute_at_decl c i) as Ha. pose proof (decl_attrs_len c) as Hl. unfold len in Hl.
  destruct (nth_error (decl_attrs c) (N.to_nat i)) as [d|] eqn:Ed; [|apply nth_error_None in Ed; lia].
  destruct (attribute_at c i) as [a|]; [|discriminate]. cbn [option_map] in Ha. inversion Ha; subst d.
  exists a. split; [reflexivity|]. unfold table.
  rewrite handle_by_index_nth by auto.
  pose proof (assign_length c Hw Hn) as Hla.
  clear -Ed Hla Hi. revert Ed Hla Hi. generalize (decl_attrs c) (assign c) (number_of_attributes c).
  intros D A n. revert D A n. induction (N.to_nat i) as [|k IH] eqn:Ek in i |- *; intros D A n Ed Hla Hi.
  - destruct D as [|d D]; [discriminate|]. destruct A as [|x A]; [cbn [length] in Hla; lia|].
    cbn [nth_error] in *. inversion Ed. reflexivity.
  - destruct D as [|d D]; [discriminate|]. destruct A as [|x A]; [cbn [length] in Hla; lia|].
    cbn [nth_error combine nth] in *. apply (IH (i - 1) ltac:(lia) D A (n - 1)); auto; cbn [length] in Hla; lia.
Qed.

Lemma table_handles c : wf c -> no_includes c -> map fst (table c) = assign c.
Proof.
  intros Hw Hn. unfold table. pose proof (assign_length c Hw Hn) as Hla. pose proof (decl_attrs_len c) as Hl.
  unfold len in Hl. assert (H : length (assign c) = length (decl_attrs c)) by lia.
  revert H. generalize (assign c) (decl_attrs c). induction l as [|x t IH]; intros [|d D] H; cbn [length] in H; try lia; cbn [combine map fst]; auto.
  f_equal. apply IH. lia.
Qed.

(* ================================================================== Part C: buffers *)
(* the bytes lo..hi-1 of a buffer *)
Definition seg (lo hi : N) (b : list N) : list N :=
  map (fun j => nth (N.to_nat lo + j) b 0) (seq 0 (N.to_nat (hi - lo))).

Lemma seg_len lo hi b : len (seg lo hi b) = hi - lo.
Proof. unfold seg, len. rewrite map_length, seq_length. lia. Qed.

Lemma seg_nil lo b : seg lo lo b = [].
Proof. unfold seg. replace (lo - lo) with 0 by lia. reflexivity. Qed.

Lemma map_seq_shift (A : Type) (f : nat -> A) k s n : map f (seq (k + s) n) = map (fun j => f (k + j)%nat) (seq s n).
Proof.
  revert s. induction n as [|n IH]; intros s; cbn [seq map]; [reflexivity|].
  f_equal. replace (S (k + s)) with (k + S s)%nat by lia. apply IH.
Qed.

Lemma seg_app lo mid hi b : lo <= mid -> mid <= hi -> seg lo hi b = seg lo mid b ++ seg mid hi b.
Proof.
  intros H1 H2. unfold seg.
  replace (N.to_nat (hi - lo)) with (N.to_nat (mid - lo) + N.to_nat (hi - mid))%nat by lia.
  rewrite seq_app, map_app. f_equal.
  replace (0 + N.to_nat (mid - lo))%nat with (N.to_nat (mid - lo) + 0)%nat by lia.
  rewrite map_seq_shift. apply map_ext. intros j. f_equal. lia.
Qed.

Lemma takeN_seg n (b : list N) : n <= len b -> takeN n b = seg 0 n b.
Proof.
  intros H. unfold takeN, seg, len in *. replace (n - 0) with n by lia. cbn [N.to_nat plus].
  apply nth_ext_len with (d := 0).
  - rewrite firstn_length, map_length, seq_length. lia.
  - intros i Hi. rewrite firstn_length in Hi.
    rewrite nth_map_seq by lia.
    rewrite <- (firstn_skipn (N.to_nat n) b) at 2. rewrite app_nth1 by (rewrite firstn_length; lia). reflexivity.
Qed.

Lemma nth_skipn_N (A : Type) (l : list A) n i d : nth i (skipn n l) d = nth (n + i) l d.
Proof.
  revert l; induction n as [|n IH]; intros l; [reflexivity|].
  destruct l as [|x t]; [destruct i; reflexivity|]. cbn [skipn plus nth]. apply IH.
Qed.

Lemma put_nth b p bs b' i :
  put b p bs = Some b' ->
  nth i b' 0 = if (N.to_nat p <=? i)%nat && (i <? N.to_nat p + length bs)%nat then nth (i - N.to_nat p) bs 0 else nth i b 0.
Proof.
  unfold put. destruct (p + len bs <=? len b) eqn:E; [|discriminate]. intros H. inversion H; subst b'; clear H.
  apply N.leb_le in E. unfold takeN, dropN, len in *.
  assert (Hl : length (firstn (N.to_nat p) b) = N.to_nat p) by (rewrite firstn_length; lia).
  destruct (N.to_nat p <=? i)%nat eqn:E1; cbn [andb].
  - rewrite app_nth2 by lia. rewrite Hl.
    destruct (i <? N.to_nat p + length bs)%nat eqn:E2.
    + rewrite app_nth1 by lia. reflexivity.
    + rewrite app_nth2 by lia. rewrite nth_skipn_N. f_equal. lia.
  - rewrite app_nth1 by lia.
    rewrite <- (firstn_skipn (N.to_nat p) b) at 2. rewrite app_nth1 by lia. reflexivity.
Qed.

Lemma seg_put_other b p bs b' lo hi :
  put b p bs = Some b' -> hi <= p \/ p + len bs <= lo -> seg lo hi b' = seg lo hi b.
Proof.
  intros H Hd. unfold seg. apply map_ext_in. intros j Hj. apply in_seq in Hj.
  rewrite (put_nth _ _ _ _ _ H). unfold len in Hd.
  destruct ((N.to_nat p <=? N.to_nat lo + j)%nat && (N.to_nat lo + j <? N.to_nat p + length bs)%nat) eqn:E; [lia|reflexivity].
Qed.

Lemma seg_put_self b p bs b' : put b p bs = Some b' -> seg p (p + len bs) b' = bs.
Proof.
  intros H. unfold seg, len. replace (N.to_nat (p + N.of_nat (length bs) - p)) with (length bs) by lia.
  rewrite <- (map_seq_nth bs 0) at 2. apply map_ext_in. intros j Hj. apply in_seq in Hj.
  rewrite (put_nth _ _ _ _ _ H).
  replace ((N.to_nat p <=? N.to_nat p + j)%nat && (N.to_nat p + j <? N.to_nat p + length bs)%nat) with true by lia.
  f_equal. lia.
Qed.

(* a put behind a written segment appends to it *)
Lemma seg_put_append b p bs b' lo :
  put b p bs = Some b' -> lo <= p -> seg lo (p + len bs) b' = seg lo p b ++ bs.
Proof.
  intros H Hlo. rewrite (seg_app lo p) by lia.
  rewrite (seg_put_other _ _ _ _ lo p H) by lia. rewrite (seg_put_self _ _ _ _ H). reflexivity.
Qed.

Lemma put_length b p bs b' : put b p bs = Some b' -> len b' = len b.
Proof.
  unfold put. destruct (p + len bs <=? len b) eqn:E; [|discriminate]. intros H. inversion H; subst.
  apply N.leb_le in E. unfold len, takeN, dropN in *. rewrite !app_length, firstn_length, skipn_length. lia.
Qed.

Lemma put_bound b p bs b' : put b p bs = Some b' -> p + len bs <= len b.
Proof. unfold put. destruct (p + len bs <=? len b) eqn:E; [|discriminate]. intros _. apply N.leb_le. exact E. Qed.

(* ================================================================== Part B2: indices and handles *)
Definition small_index (i : N) : Prop := i < 4294967296.

(* "index >= first_index_by_handle( lo )" says "handle( index ) >= lo" *)
Lemma first_ge_le_iff p A lo i I :
  increasing_from p A = true -> (I < length A)%nat -> i + N.of_nat (length A) < invalid_index ->
  (negb (first_ge A lo i =? invalid_index) && (first_ge A lo i <=? i + N.of_nat I)) = (lo <=? nth I A 0).
Proof.
  revert p i I; induction A as [|x t IH]; intros p i I Hs HI Hb; cbn [length] in *; [lia|].
  cbn [increasing_from] in Hs. apply andb_true_iff in Hs. destruct Hs as [Hs1 Hs2].
  cbn [first_ge]. destruct (lo <=? x) eqn:E.
  - assert (Hx : x <= nth I (x :: t) 0).
    { destruct I as [|I]; cbn [nth]; [lia|].
      assert (x < nth I t 0) by (apply (increasing_from_lower x t); auto; apply nth_In; lia). lia. }
    unfold invalid_index in *. lia.
  - destruct I as [|I]; cbn [nth].
    + destruct (first_ge_range t lo (i + 1)) as [Hr|Hr]; [rewrite Hr; rewrite N.eqb_refl; cbn; lia|].
      unfold invalid_index in *. lia.
    + assert (Hb' : i + 1 + N.of_nat (length t) < invalid_index) by lia.
      rewrite <- (IH x (i + 1) I Hs2 ltac:(lia) Hb').
      replace (i + 1 + N.of_nat I) with (i + N.of_nat (S I)) by lia. reflexivity.
Qed.

Lemma idx_ge_iff c lo I :
  wf c -> no_includes c -> I < number_of_attributes c ->
  (negb (first_index_by_handle c lo =? invalid_index) && (first_index_by_handle c lo <=? I))
  = (lo <=? handle_by_index c I).
Proof.
  intros Hw Hn HI. rewrite first_index_by_handle_spec, handle_by_index_nth by auto.
  pose proof (assign_length c Hw Hn) as Hl. pose proof (wf_attr_bound c Hw) as Hb.
  rewrite <- (first_ge_le_iff 0 (assign c) lo 0 (N.to_nat I)); [repeat f_equal; lia|apply assign_increasing|lia|].
  unfold invalid_index. lia.
Qed.

Lemma first_index_one c : wf c -> no_includes c -> 1 <= number_of_attributes c -> first_index_by_handle c 1 = 0.
Proof.
  intros Hw Hn H1. rewrite first_index_by_handle_spec by auto.
  pose proof (assign_length c Hw Hn) as Hl. pose proof (assign_increasing c) as Hs.
  destruct (assign c) as [|x t]; [cbn [length] in Hl; lia|].
  cbn [increasing_from] in Hs. apply andb_true_iff in Hs. destruct Hs as [Hs _].
  cbn [first_ge]. replace (1 <=? x) with true by lia. reflexivity.
Qed.

(* ---- the services in the table *)
Definition is_service (a : attr) : bool := match a with AService _ => true | _ => false end.
Definition gentry (g : N * N * service_decl) : N * attr := (fst (fst g), AService (snd g)).

Lemma combine_app (A B : Type) (a1 a2 : list A) (b1 b2 : list B) :
  length a1 = length b1 -> combine (a1 ++ a2) (b1 ++ b2) = combine a1 b1 ++ combine a2 b2.
Proof.
  revert b1; induction a1 as [|x t IH]; intros [|y b1] H; cbn [length] in H; try lia; cbn [app combine]; auto.
  f_equal. apply IH. lia.
Qed.

Lemma filter_snd_none (A B : Type) (f : B -> bool) (l1 : list A) (l2 : list B) :
  (forall y, In y l2 -> f y = false) -> filter (fun e => f (snd e)) (combine l1 l2) = [].
Proof.
  intros H. apply filter_all_false. intros [x y] Hin. apply in_combine_r in Hin. cbn [snd]. auto.
Qed.

Lemma svc_decl_attrs_tail_no_service s a :
  In a (map AInclude (s_includes s) ++ flat_map (fun ch => char_attrs s ch O 0) (s_chars s)) -> is_service a = false.
Proof.
  intros H. apply in_app_or in H. destruct H as [H|H].
  - apply in_map_iff in H. destruct H as [u [<- _]]. reflexivity.
  - apply in_flat_map in H. destruct H as [ch [_ H]]. unfold char_attrs, char_tail_attrs in H.
    destruct H as [<-|[<-|H]]; try reflexivity.
    apply in_app_or in H. destruct H as [H|H]; [destruct (has_cccd ch); [destruct H as [<-|[]]; reflexivity|destruct H]|].
    apply in_app_or in H. destruct H as [H|H]; [destruct (c_name ch); [destruct H as [<-|[]]; reflexivity|destruct H]|].
    apply in_map_iff in H. destruct H as [d [<- _]]. reflexivity.
Qed.

Lemma services_in_table ss hs :
  length hs = length (flat_map svc_decl_attrs ss) ->
  filter (fun e => is_service (snd e)) (combine hs (flat_map svc_decl_attrs ss)) = map gentry (svc_groups ss hs).
Proof.
  revert hs; induction ss as [|s t IH]; intros hs Hl; cbn [flat_map svc_groups map]; [destruct hs; reflexivity|].
  cbn [flat_map] in Hl. rewrite app_length in Hl.
  pose proof (svc_decl_attrs_len s) as Hn. unfold len in Hn.
  set (n := N.to_nat (svc_nattrs s)) in *. assert (Hn' : length (svc_decl_attrs s) = n) by lia.
  rewrite <- (firstn_skipn n hs) at 1.
  rewrite combine_app by (rewrite firstn_length; lia).
  rewrite filter_app. rewrite IH by (rewrite skipn_length; lia). f_equal.
  unfold svc_decl_attrs in *. cbn [length] in Hn'.
  destruct hs as [|h hs']; [cbn [length] in Hl; lia|].
  destruct n as [|n']; [lia|]. cbn [firstn combine filter snd is_service nth].
  rewrite filter_snd_none by (intros y Hy; apply svc_decl_attrs_tail_no_service with (s := s); exact Hy).
  reflexivity.
Qed.

Lemma table_services c :
  wf c -> no_includes c -> filter (fun e => is_service (snd e)) (table c) = map gentry (groups c).
Proof.
  intros Hw Hn. unfold table, groups, decl_attrs. apply services_in_table.
  rewrite (assign_length c Hw Hn). pose proof (decl_attrs_len c) as H. unfold len, decl_attrs in H. lia.
Qed.

(* the primary services in lo..hi *)
Definition group_wanted (lo hi : N) (g : N * N * service_decl) : bool :=
  in_range lo hi (fst (fst g)) && negb (s_secondary (snd g)).

Lemma filter_map_gentry lo hi G :
  filter (fun e => in_range lo hi (fst e) && type_matches KGroup (snd e)) (map gentry G)
  = map gentry (filter (group_wanted lo hi) G).
Proof.
  induction G as [|g t IH]; [reflexivity|]. cbn [map filter]. rewrite IH.
  replace (in_range lo hi (fst (gentry g)) && type_matches KGroup (snd (gentry g))) with (group_wanted lo hi g) by reflexivity.
  destruct (group_wanted lo hi g); reflexivity.
Qed.

Lemma matching_groups c lo hi :
  wf c -> no_includes c -> matching c KGroup lo hi = map gentry (filter (group_wanted lo hi) (groups c)).
Proof.
  intros Hw Hn. unfold matching.
  rewrite (filter_ext_in' (fun e => in_range lo hi (fst e) && type_matches KGroup (snd e))
                          (fun e => is_service (snd e) && (in_range lo hi (fst e) && type_matches KGroup (snd e)))).
  - rewrite <- filter_filter, table_services by auto. apply filter_map_gentry.
  - intros [h a] _. cbn [fst snd type_matches]. destruct a; cbn [is_primary is_service andb]; auto.
    all: rewrite andb_false_r; reflexivity.
Qed.

(* ================================================================== Part D1: Read By Group Type *)
Definition gsize (is128 : bool) : N := if is128 then 20 else 6.
Definition genc (g : N * N * service_decl) : list N :=
  le16 (fst (fst g)) ++ le16 (snd (fst g)) ++ uuid_bytes (s_uuid (snd g)).

(* collect_primary_services as a walk over the groups: behind the first reported service *)
Fixpoint walk_rest (G : list (N * N * service_decl)) (lo hi : N) (stopped is128 : bool) (avail : N)
  : list (N * N * service_decl) :=
  match G with
  | [] => []
  | g :: G' =>
      if negb stopped && negb (s_secondary (snd g)) && (lo <=? fst (fst g)) && (fst (fst g) <=? hi) then
        let s128 := is_128bit (s_uuid (snd g)) in
        let stopped' := negb (Bool.eqb is128 s128) in
        if Bool.eqb is128 s128 && (gsize is128 <=? avail) then g :: walk_rest G' lo hi stopped' is128 (avail - gsize is128)
        else walk_rest G' lo hi stopped' is128 avail
      else walk_rest G' lo hi stopped is128 avail
  end.

(* ... and up to the first one *)
Fixpoint walk_first (G : list (N * N * service_decl)) (lo hi : N) (avail : N) : list (N * N * service_decl) :=
  match G with
  | [] => []
  | g :: G' =>
      if negb (s_secondary (snd g)) && (lo <=? fst (fst g)) && (fst (fst g) <=? hi) then
        let s128 := is_128bit (s_uuid (snd g)) in
        if gsize s128 <=? avail then g :: walk_rest G' lo hi false s128 (avail - gsize s128)
        else walk_rest G' lo hi false s128 avail
      else walk_first G' lo hi avail
  end.

Lemma le16_len x : len (le16 x) = 2.
Proof. reflexivity. Qed.

Lemma uuid_bytes_len u : uuid_ok u = true -> len (uuid_bytes u) = if is_128bit u then 16 else 2.
Proof.
  destruct u as [v|b]; cbn [uuid_ok uuid_bytes is_128bit]; [reflexivity|].
  intros H. apply andb_true_iff in H. destruct H as [H _]. apply Nat.eqb_eq in H. unfold len. rewrite H. reflexivity.
Qed.

Lemma mem_read_all mem maxlen : len mem <= maxlen -> mem_read mem 0 maxlen = (Success, mem).
Proof.
  intros H. unfold mem_read. replace (len mem <? 0) with false by lia. f_equal.
  unfold takeN, dropN. cbn [N.to_nat skipn]. unfold len in *. apply firstn_all2. lia.
Qed.

(* one service written by read_primary_service_response *)
Lemma rpsr_emit c s b out e index b' out' :
  uuid_ok (s_uuid s) = true -> 2 <= out ->
  read_primary_service_response c s b out e index (is_128bit (s_uuid s)) = Some (b', out') ->
  gsize (is_128bit (s_uuid s)) <= e - out ->
  out' = out + gsize (is_128bit (s_uuid s)) /\ len b' = len b /\ out' <= len b' /\
  seg 0 2 b' = seg 0 2 b /\
  seg 2 out' b' = seg 2 out b ++ le16 (handle_by_index c index) ++ le16 (handle_by_index c (index + svc_nattrs s - 1))
                              ++ uuid_bytes (s_uuid s).
Proof.
  intros Hu Ho H Hfit. unfold read_primary_service_response in H. cbv zeta in H.
  rewrite eqb_reflx in H. fold (gsize (is_128bit (s_uuid s))) in H.
  replace (gsize (is_128bit (s_uuid s)) <=? e - out) with true in H by lia. cbn [andb] in H.
  pose proof (uuid_bytes_len _ Hu) as Hlen.
  destruct (put b out _) as [b1|] eqn:E1; [|discriminate].
  rewrite mem_read_all in H by (unfold gsize in Hfit; destruct (is_128bit (s_uuid s)); lia).
  destruct (put b1 (out + 4) _) as [b2|] eqn:E2; [|discriminate]. inversion H; subst b' out'; clear H.
  pose proof (put_length _ _ _ _ E1) as L1. pose proof (put_length _ _ _ _ E2) as L2. pose proof (put_bound _ _ _ _ E2) as B2.
  assert (Hsz : 4 + len (uuid_bytes (s_uuid s)) = gsize (is_128bit (s_uuid s))) by (unfold gsize; destruct (is_128bit (s_uuid s)); lia).
  repeat split; try lia.
  - rewrite (seg_put_other _ _ _ _ 0 2 E2) by lia. apply (seg_put_other _ _ _ _ 0 2 E1). lia.
  - replace (out + 4 + len (uuid_bytes (s_uuid s))) with ((out + 4) + len (uuid_bytes (s_uuid s))) by lia.
    rewrite (seg_put_append _ _ _ _ 2 E2) by lia.
    replace (out + 4) with (out + len (le16 (handle_by_index c index) ++ le16 (handle_by_index c (index + svc_nattrs s - 1))))
      by (unfold len; rewrite app_length; cbn [length le16]; lia).
    rewrite (seg_put_append _ _ _ _ 2 E1) by lia. rewrite <- !app_assoc. reflexivity.
Qed.

Lemma skipn_skipn_nat (A : Type) (l : list A) a b : skipn a (skipn b l) = skipn (b + a) l.
Proof.
  revert l; induction b as [|b IH]; intros l; [reflexivity|].
  destruct l as [|x t]; [destruct a; reflexivity|]. cbn [skipn plus]. apply IH.
Qed.

Lemma svc_nattrs_pos s : 1 <= svc_nattrs s.
Proof. unfold svc_nattrs, svc_nsattrs. lia. Qed.

(* the group of the service that starts at index I *)
Lemma group_head c s I :
  wf c -> no_includes c -> I + svc_nattrs s <= number_of_attributes c ->
  let hs := skipn (N.to_nat I) (assign c) in
  nth 0 hs 0 = handle_by_index c I
  /\ nth (N.to_nat (svc_nattrs s) - 1) hs 0 = handle_by_index c (I + svc_nattrs s - 1)
  /\ skipn (N.to_nat (svc_nattrs s)) hs = skipn (N.to_nat (I + svc_nattrs s)) (assign c).
Proof.
  intros Hw Hn Hb. cbv zeta. pose proof (svc_nattrs_pos s) as Hp.
  rewrite !nth_skipn_N, !handle_by_index_nth by (auto; lia). rewrite skipn_skipn_nat.
  repeat split; f_equal; lia.
Qed.

Lemma cps_rest c lo hi e ss : wf c -> no_includes c ->
  forall k k',
  forallb (fun s => uuid_ok (s_uuid s)) ss = true ->
  pc_index k + sumN svc_nattrs ss = number_of_attributes c ->
  pc_first k = false -> 2 <= pc_out k -> pc_out k <= e -> e <= len (pc_buf k) ->
  collect_primary_services c ss k (first_index_by_handle c lo) hi e = Some k' ->
  let R := walk_rest (svc_groups ss (skipn (N.to_nat (pc_index k)) (assign c))) lo hi (pc_stopped k) (pc_is128 k) (e - pc_out k) in
  seg 0 2 (pc_buf k') = seg 0 2 (pc_buf k)
  /\ seg 2 (pc_out k') (pc_buf k') = seg 2 (pc_out k) (pc_buf k) ++ flat_map genc R
  /\ pc_out k <= pc_out k' /\ pc_out k' <= e /\ len (pc_buf k') = len (pc_buf k).
Proof.
  intros Hw Hn. induction ss as [|s t IH]; intros k k' Hu HI Hf Ho1 Ho2 Hl H; cbn [collect_primary_services] in H.
  - inversion H; subst k'. cbn [svc_groups walk_rest flat_map]. rewrite app_nil_r. repeat split; lia.
  - cbn [forallb] in Hu. apply andb_true_iff in Hu. destruct Hu as [Hu1 Hu2]. cbn [sumN] in HI.
    destruct k as [buf out idx stopped first is128]. cbn [pc_buf pc_out pc_index pc_stopped pc_first pc_is128] in *. subst first.
    pose proof (svc_nattrs_pos s) as Hp.
    destruct (group_head c s idx Hw Hn ltac:(lia)) as (G1 & G2 & G3).
    cbn [svc_groups walk_rest fst snd]. rewrite G1, G3. cbv zeta in H.
    rewrite (idx_ge_iff c lo idx Hw Hn ltac:(lia)) in H.
    destruct (negb stopped && negb (s_secondary s) && (lo <=? handle_by_index c idx) && (handle_by_index c idx <=? hi)) eqn:Ec.
    + (* the service is in the range *)
      unfold read_primary_service_response in H. cbv zeta in H. fold (gsize is128) in H.
      destruct (Bool.eqb is128 (is_128bit (s_uuid s)) && (gsize is128 <=? e - out)) eqn:Ee.
      * apply andb_true_iff in Ee. destruct Ee as [Ee1 Ee2]. apply eqb_prop in Ee1. subst is128.
        destruct (read_primary_service_response c s buf out e idx (is_128bit (s_uuid s))) as [[b2 out2]|] eqn:Er.
        2:{ unfold read_primary_service_response in Er. cbv zeta in Er. fold (gsize (is_128bit (s_uuid s))) in Er.
            rewrite eqb_reflx, Ee2 in Er. cbn [andb] in Er. rewrite Er in H. discriminate. }
        assert (Hr := Er). unfold read_primary_service_response in Hr. cbv zeta in Hr. fold (gsize (is_128bit (s_uuid s))) in Hr.
        rewrite eqb_reflx, Ee2 in Hr. cbn [andb] in Hr. rewrite Hr in H. clear Hr.
        apply rpsr_emit in Er; [|auto|lia|lia]. destruct Er as (E1 & E2 & E3 & E4 & E5). subst out2.
        apply IH in H; cbn [pc_buf pc_out pc_index pc_stopped pc_first pc_is128]; auto; try lia.
        cbn [pc_buf pc_out pc_index pc_stopped pc_first pc_is128] in H. destruct H as (I1 & I2 & I3 & I4 & I5).
        rewrite eqb_reflx in *. cbn [negb] in *.
        replace (e - (out + gsize (is_128bit (s_uuid s)))) with (e - out - gsize (is_128bit (s_uuid s))) in I2 by lia.
        cbn [flat_map]. unfold genc at 1. cbn [fst snd]. rewrite G2.
        repeat split; try lia; [congruence|].
        rewrite I2, E5. rewrite <- !app_assoc. reflexivity.
      * (* not written: another uuid size, or no room *)
        apply IH in H; cbn [pc_buf pc_out pc_index pc_stopped pc_first pc_is128]; auto; try lia.
    + apply IH in H; cbn [pc_buf pc_out pc_index pc_stopped pc_first pc_is128]; auto; try lia.
Qed.

Lemma cps_first c lo hi e ss : wf c -> no_includes c ->
  forall k k',
  forallb (fun s => uuid_ok (s_uuid s)) ss = true ->
  pc_index k + sumN svc_nattrs ss = number_of_attributes c ->
  pc_first k = true -> pc_stopped k = false -> pc_out k = 2 -> 22 <= e -> e <= len (pc_buf k) ->
  collect_primary_services c ss k (first_index_by_handle c lo) hi e = Some k' ->
  let R := walk_first (svc_groups ss (skipn (N.to_nat (pc_index k)) (assign c))) lo hi (e - 2) in
  nth 0 (pc_buf k') 0 = nth 0 (pc_buf k) 0
  /\ seg 2 (pc_out k') (pc_buf k') = flat_map genc R
  /\ 2 <= pc_out k' /\ pc_out k' <= e /\ len (pc_buf k') = len (pc_buf k)
  /\ (pc_out k' = 2 <-> R = [])
  /\ match R with g :: _ => nth 1 (pc_buf k') 0 = gsize (is_128bit (s_uuid (snd g))) | [] => True end.
Proof.
  intros Hw Hn. induction ss as [|s t IH]; intros k k' Hu HI Hf Hst Ho He Hl H; cbn [collect_primary_services] in H.
  - inversion H; subst k'. cbn [svc_groups walk_first flat_map]. rewrite Ho, seg_nil. repeat split; auto; lia.
  - cbn [forallb] in Hu. apply andb_true_iff in Hu. destruct Hu as [Hu1 Hu2]. cbn [sumN] in HI.
    destruct k as [buf out idx stopped first is128]. cbn [pc_buf pc_out pc_index pc_stopped pc_first pc_is128] in *. subst first stopped out.
    pose proof (svc_nattrs_pos s) as Hp.
    destruct (group_head c s idx Hw Hn ltac:(lia)) as (G1 & G2 & G3).
    cbn [svc_groups walk_first fst snd]. rewrite G1, G3. cbv zeta in H.
    rewrite (idx_ge_iff c lo idx Hw Hn ltac:(lia)) in H. cbn [negb andb] in H.
    destruct (negb (s_secondary s) && (lo <=? handle_by_index c idx) && (handle_by_index c idx <=? hi)) eqn:Ec.
    + set (s128 := is_128bit (s_uuid s)) in *.
      destruct (put buf 1 [if s128 then 20 else 6]) as [b1|] eqn:Ep; [|discriminate].
      cbn [pc_buf] in H.
      assert (Hfit : gsize s128 <= e - 2) by (unfold gsize; destruct s128; lia).
      replace (gsize s128 <=? e - 2) with true by lia.
      destruct (read_primary_service_response c s b1 2 e idx s128) as [[b2 out2]|] eqn:Er; [|discriminate].
      pose proof (put_length _ _ _ _ Ep) as Lp.
      apply rpsr_emit in Er; [|auto|lia|lia]. destruct Er as (E1 & E2 & E3 & E4 & E5). subst out2.
      apply cps_rest in H; cbn [pc_buf pc_out pc_index pc_stopped pc_first pc_is128]; auto; try lia.
      cbn [pc_buf pc_out pc_index pc_stopped pc_first pc_is128] in H. destruct H as (I1 & I2 & I3 & I4 & I5).
      assert (Hb1 : seg 0 2 b1 = [nth 0 buf 0; gsize s128]).
      { unfold seg. cbn [N.to_nat seq map plus Pos.to_nat Pos.iter_op].
        change (N.to_nat (2 - 0)) with 2%nat. cbn [seq map plus].
        rewrite !(put_nth _ _ _ _ _ Ep). cbn. unfold gsize. destruct s128; reflexivity. }
      assert (Hk : seg 0 2 (pc_buf k') = [nth 0 buf 0; gsize s128]) by (rewrite I1, E4; exact Hb1).
      unfold seg in Hk. change (N.to_nat (2 - 0)) with 2%nat in Hk. cbn [seq map N.to_nat plus] in Hk.
      assert (Hk0 : nth 0 (pc_buf k') 0 = nth 0 buf 0) by (injection Hk; auto).
      assert (Hk1 : nth 1 (pc_buf k') 0 = gsize s128) by (injection Hk; auto).
      clear Hk.
      cbn [flat_map]. unfold genc at 1. cbn [fst snd]. rewrite G2.
      repeat split; try lia; auto.
      * rewrite I2, E5, seg_nil. cbn [app]. rewrite <- !app_assoc.
        replace (e - (2 + gsize (is_128bit (s_uuid s)))) with (e - 2 - gsize s128) by (subst s128; lia). reflexivity.
      * intros X. exfalso. subst s128. unfold gsize in *. destruct (is_128bit (s_uuid s)); lia.
      * intros X. discriminate X.
    + apply IH in H; cbn [pc_buf pc_out pc_index pc_stopped pc_first pc_is128]; auto; try lia.
Qed.

(* ---- what the walk reports: a prefix of the wanted groups, all of one uuid size *)
Lemma walk_rest_blocked G lo hi stopped is128 avail :
  stopped = true \/ avail < gsize is128 -> walk_rest G lo hi stopped is128 avail = [].
Proof.
  revert stopped avail; induction G as [|g t IH]; intros stopped avail Hb; cbn [walk_rest]; [reflexivity|].
  destruct (negb stopped && negb (s_secondary (snd g)) && (lo <=? fst (fst g)) && (fst (fst g) <=? hi)) eqn:Ec.
  - cbv zeta. destruct Hb as [->|Hb]; [discriminate Ec|].
    replace (gsize is128 <=? avail) with false by lia. rewrite andb_false_r. apply IH. right. exact Hb.
  - apply IH. exact Hb.
Qed.

Lemma walk_rest_prefix G lo hi stopped is128 avail :
  exists rest, filter (group_wanted lo hi) G = walk_rest G lo hi stopped is128 avail ++ rest.
Proof.
  revert stopped avail; induction G as [|g t IH]; intros stopped avail; cbn [walk_rest filter]; [exists []; reflexivity|].
  unfold group_wanted at 1. unfold in_range.
  destruct (lo <=? fst (fst g)) eqn:E1, (fst (fst g) <=? hi) eqn:E2, (s_secondary (snd g)) eqn:E3;
    cbn [andb negb]; rewrite ?andb_false_r; cbn [andb negb]; try apply IH.
  destruct stopped; cbn [negb andb].
  - rewrite walk_rest_blocked by (left; reflexivity). eexists. reflexivity.
  - cbv zeta. destruct (Bool.eqb is128 (is_128bit (s_uuid (snd g))) && (gsize is128 <=? avail)) eqn:Ee.
    + destruct (IH (negb (Bool.eqb is128 (is_128bit (s_uuid (snd g))))) (avail - gsize is128)) as [rest Hr].
      exists rest. cbn [app]. f_equal. exact Hr.
    + rewrite walk_rest_blocked; [eexists; reflexivity|].
      apply andb_false_iff in Ee. destruct Ee as [Ee|Ee]; [left; rewrite Ee; reflexivity|right; lia].
Qed.

Lemma walk_rest_sizes G lo hi stopped is128 avail g :
  In g (walk_rest G lo hi stopped is128 avail) -> is_128bit (s_uuid (snd g)) = is128.
Proof.
  revert stopped avail; induction G as [|x t IH]; intros stopped avail; cbn [walk_rest]; [intros []|].
  destruct (negb stopped && negb (s_secondary (snd x)) && (lo <=? fst (fst x)) && (fst (fst x) <=? hi)); [|apply IH].
  cbv zeta. destruct (Bool.eqb is128 (is_128bit (s_uuid (snd x))) && (gsize is128 <=? avail)) eqn:Ee; [|apply IH].
  intros [<-|Hin]; [|eapply IH; eauto].
  apply andb_true_iff in Ee. destruct Ee as [Ee _]. apply eqb_prop in Ee. auto.
Qed.

Lemma wanted_cond lo hi (g : N * N * service_decl) :
  negb (s_secondary (snd g)) && (lo <=? fst (fst g)) && (fst (fst g) <=? hi) = group_wanted lo hi g.
Proof.
  unfold group_wanted, in_range.
  destruct (s_secondary (snd g)), (lo <=? fst (fst g)), (fst (fst g) <=? hi); reflexivity.
Qed.

Lemma walk_first_spec G lo hi avail :
  20 <= avail ->
  exists rest, filter (group_wanted lo hi) G = walk_first G lo hi avail ++ rest
    /\ (walk_first G lo hi avail = [] -> filter (group_wanted lo hi) G = [])
    /\ match walk_first G lo hi avail with
       | g :: _ => forall x, In x (walk_first G lo hi avail) -> is_128bit (s_uuid (snd x)) = is_128bit (s_uuid (snd g))
       | [] => True
       end.
Proof.
  intros Ha. induction G as [|g t IH]; cbn [walk_first filter]; [exists []; repeat split; auto|].
  rewrite wanted_cond. destruct (group_wanted lo hi g); [|exact IH].
  cbv zeta. replace (gsize (is_128bit (s_uuid (snd g))) <=? avail) with true by (unfold gsize; destruct (is_128bit (s_uuid (snd g))); lia).
  destruct (walk_rest_prefix t lo hi false (is_128bit (s_uuid (snd g))) (avail - gsize (is_128bit (s_uuid (snd g))))) as [rest Hr].
  exists rest. repeat split.
  - cbn [app]. f_equal. exact Hr.
  - discriminate.
  - intros x [<-|Hx]; [reflexivity|]. eapply walk_rest_sizes; eauto.
Qed.

(* ---- the request *)
Lemma le16_w16 a b : a < 256 -> b < 256 -> le16 (w16 a b) = [a; b].
Proof.
  intros Ha Hb. unfold le16, w16.
  assert (Hm : (a + 256 * b) mod 256 = a) by (symmetry; apply (N.mod_unique _ 256 b a); lia).
  assert (Hd : (a + 256 * b) / 256 = b) by (symmetry; apply (N.div_unique _ 256 b a); lia).
  rewrite Hm, Hd. rewrite (N.mod_small b) by lia. reflexivity.
Qed.

Lemma error_response_bytes op code a b buf out_size r :
  5 <= out_size -> a < 256 -> b < 256 ->
  error_response op code (w16 a b) buf out_size = Some r -> snd r = 5 /\ seg 0 5 (fst r) = [1; op; a; b; code] /\ 5 <= len (fst r).
Proof.
  intros Ho Ha Hb. unfold error_response. replace (5 <=? out_size) with true by lia.
  rewrite le16_w16 by auto. destruct (put buf 0 _) as [b'|] eqn:E; [|discriminate]. intros H. inversion H; subst r. cbn [fst snd].
  pose proof (seg_put_self _ _ _ _ E) as Hs. pose proof (put_bound _ _ _ _ E) as Hbd. pose proof (put_length _ _ _ _ E) as Hl.
  cbn [app] in *. change (0 + len [1; op; a; b; code]) with 5 in *. repeat split; auto. lia.
Qed.

(* The Read By Group Type response for <<Primary Service>>, completely: it is determined by the walk W over
   the declared services - Attribute Not Found if W is empty, else the encoding of W. [walk_first_spec]:
   W is a prefix of the declared primary services whose declaration handle lies in lo..hi, empty only if
   there is none, all of the uuid size of the first *)
Definition rbg_response (W : list (N * N * service_decl)) (a0 a1 out_size : N) (r : resp) : Prop :=
  match W with
  | [] => snd r = 5 /\ seg 0 5 (fst r) = [1; 16; a0; a1; 10]
  | g :: _ => snd r <= out_size /\ snd r <= len (fst r)
              /\ seg 0 (snd r) (fst r) = 17 :: gsize (is_128bit (s_uuid (snd g))) :: flat_map genc W
  end.

Theorem read_by_group_type_spec c a0 a1 x0 x1 b out_size r :
  wf c -> no_includes c ->
  a0 < 256 -> a1 < 256 -> x0 < 256 -> x1 < 256 ->
  let lo := w16 a0 a1 in let hi := w16 x0 x1 in
  1 <= lo -> lo <= hi -> 23 <= out_size -> out_size <= len b ->
  handle_read_by_group_type c [16; a0; a1; x0; x1; 0; 40] b out_size = Some r ->
  rbg_response (walk_first (groups c) lo hi (out_size - 2)) a0 a1 out_size r.
Proof.
  intros Hw Hn Ha0 Ha1 Hx0 Hx1 lo hi Hlo Hhi Ho Hb H.
  unfold handle_read_by_group_type, check_size_and_handle_range in H.
  cbn [rd len length N.of_nat] in H.
  change (rd16 [16; a0; a1; x0; x1; 0; 40] 1) with (Some (a0 + 256 * a1)) in H.
  change (rd16 [16; a0; a1; x0; x1; 0; 40] 3) with (Some (x0 + 256 * x1)) in H.
  change (rd16 [16; a0; a1; x0; x1; 0; 40] 5) with (Some 10240) in H.
  cbn -[first_index_by_handle error_response collect_primary_services put N.mul] in H.
  fold (w16 a0 a1) in H. fold (w16 x0 x1) in H. fold lo in H. fold hi in H.
  replace ((lo =? 0) || (hi <? lo)) with false in H by lia.
  assert (Hu : forallb (fun s => uuid_ok (s_uuid s)) (services c) = true).
  { unfold wf, wf_b in Hw. repeat (apply andb_true_iff in Hw; destruct Hw as [Hw ?]).
    apply forallb_forall. intros s Hs.
    match goal with X : forallb (svc_static_ok c) (services c) = true |- _ => rewrite forallb_forall in X; specialize (X s Hs) end.
    unfold svc_static_ok in *. repeat (match goal with X : _ && _ = true |- _ => apply andb_true_iff in X; destruct X end). auto. }
  destruct (walk_first_spec (groups c) lo hi (out_size - 2) ltac:(lia)) as (rest & W1 & W2 & W3).
  destruct (first_index_by_handle c lo =? invalid_index) eqn:Efi.
  - (* no attribute at or behind lo *)
    destruct (error_response 16 err_attribute_not_found lo b out_size) as [r'|] eqn:Ee; [|discriminate].
    inversion H; subst r'; clear H.
    apply error_response_bytes in Ee; auto; [|lia]. destruct Ee as (E1 & E2 & _).
    assert (HG : filter (group_wanted lo hi) (groups c) = []).
    { apply filter_all_false. intros g Hg. unfold group_wanted, in_range.
      assert (Hin : In (gentry g) (table c)).
      { assert (X : In (gentry g) (map gentry (groups c))) by (apply in_map; auto).
        rewrite <- table_services in X by auto. apply filter_In in X. tauto. }
      apply (in_map fst) in Hin. rewrite table_handles in Hin by auto. cbn [gentry fst] in Hin.
      apply N.eqb_eq in Efi. rewrite first_index_by_handle_spec in Efi by auto.
      assert (fst (fst g) < lo); [|lia].
      destruct (In_nth _ _ 0 Hin) as [j [Hj1 Hj2]].
      pose proof (first_ge_le_iff 0 (assign c) lo 0 j (assign_increasing c) Hj1) as X.
      pose proof (assign_length c Hw Hn) as Hl. pose proof (wf_attr_bound c Hw) as Hbd.
      rewrite Efi, N.eqb_refl, Hj2 in X. cbn [negb andb] in X.
      assert (0 + N.of_nat (length (assign c)) < invalid_index) by (unfold invalid_index; lia). specialize (X H). lia. }
    rewrite HG in W1. destruct (walk_first (groups c) lo hi (out_size - 2)); [|discriminate W1].
    split; auto.
  - destruct (put b 0 [17]) as [b1|] eqn:Ep; [|discriminate].
    destruct (collect_primary_services c (services c) _ _ _ _) as [k'|] eqn:Ec; [|discriminate].
    pose proof (put_length _ _ _ _ Ep) as Lp.
    assert (Hn1 : 1 <= number_of_attributes c).
    { unfold wf, wf_b in Hw. repeat (apply andb_true_iff in Hw; destruct Hw as [Hw ?]).
      unfold number_of_attributes. destruct (services c) as [|s t]; [cbn in Hw; discriminate|].
      cbn [sumN]. pose proof (svc_nattrs_pos s). lia. }
    rewrite first_index_one in Ec by auto.
    apply cps_first in Ec; cbn [pc_buf pc_out pc_index pc_stopped pc_first pc_is128]; auto; try lia.
    cbn [pc_buf pc_out pc_index pc_stopped pc_first pc_is128 N.to_nat skipn] in Ec.
    destruct Ec as (C0 & C1 & C2 & C3 & C4 & C5 & C6).
    fold (groups c) in *.
    destruct (pc_out k' =? 2) eqn:E2.
    + apply N.eqb_eq in E2. apply C5 in E2. rewrite E2.
      apply error_response_bytes in H; auto; [|lia]. destruct H as (E1 & E3 & _). split; auto.
    + apply N.eqb_neq in E2. inversion H; subst r; clear H. cbn [fst snd].
      destruct (walk_first (groups c) lo hi (out_size - 2)) as [|g R] eqn:Ew; [exfalso; apply E2; apply C5; reflexivity|].
      cbn [rbg_response fst snd]. repeat split; try lia.
      rewrite (seg_app 0 2) by lia. rewrite C1. f_equal.
      unfold seg. change (N.to_nat (2 - 0)) with 2%nat. cbn [seq map N.to_nat plus].
      rewrite C0, C6. rewrite (put_nth _ _ _ _ _ Ep). reflexivity.
Qed.

(* ================================================================== Part D1': a client discovering all primary services *)
Lemma chars_end_lt cs sh : chars_handles_ok cs sh = true -> sh < 65536 -> chars_end_handle cs sh < 65536.
Proof.
  revert sh; induction cs as [|ch t IH]; intros sh H Hs; cbn [chars_end_handle]; [exact Hs|].
  apply chars_handles_ok_cons in H. destruct H as [Hc Ht]. apply IH; auto. apply (char_end_handle_gt sh ch Hc).
Qed.

Lemma svcs_hlist_upper ss sh x : svcs_handles_ok ss sh = true -> In x (svcs_hlist ss sh) -> x < 65536.
Proof.
  revert sh; induction ss as [|s t IH]; intros sh H Hin; cbn [svcs_hlist] in *; [destruct Hin|].
  apply svcs_handles_ok_cons in H. destruct H as (H1 & H2 & H3 & H4 & H5).
  destruct Hin as [<-|Hin]; [lia|]. apply in_app_or in Hin. destruct Hin as [Hin|Hin].
  - pose proof (chars_hlist_bounds _ _ _ H3 Hin). pose proof (chars_end_lt _ _ H3 H2). lia.
  - apply (IH _ H5 Hin).
Qed.

Lemma assign_upper c x : wf c -> no_includes c -> In x (assign c) -> x < 65536.
Proof.
  intros Hw Hn Hin. rewrite assign_is_hlist in Hin by auto. eapply svcs_hlist_upper; eauto. apply wf_handles_ok; auto.
Qed.

Definition gfirst (g : N * N * service_decl) : N := fst (fst g).
Definition glast (g : N * N * service_decl) : N := snd (fst g).

(* the groups are consecutive blocks of the handle space *)
Fixpoint blocks_sorted (p : N) (G : list (N * N * service_decl)) : bool :=
  match G with
  | [] => true
  | g :: G' => (p <? gfirst g) && (gfirst g <=? glast g) && blocks_sorted (glast g) G'
  end.

Lemma increasing_nth_le p l i j : increasing_from p l = true -> (i <= j)%nat -> (j < length l)%nat -> nth i l 0 <= nth j l 0.
Proof.
  revert p i j; induction l as [|x t IH]; intros p i j H Hij Hj; cbn [length] in Hj; [lia|].
  cbn [increasing_from] in H. apply andb_true_iff in H. destruct H as [H1 H2].
  destruct i as [|i], j as [|j]; cbn [nth]; try lia.
  - assert (x < nth j t 0) by (apply (increasing_from_lower x t); auto; apply nth_In; lia). lia.
  - apply (IH x); auto; lia.
Qed.

Lemma increasing_skipn p l n :
  increasing_from p l = true -> (1 <= n)%nat -> (n <= length l)%nat -> increasing_from (nth (n - 1) l 0) (skipn n l) = true.
Proof.
  revert p n; induction l as [|x t IH]; intros p n H Hn Hl; cbn [length] in Hl; [lia|].
  cbn [increasing_from] in H. apply andb_true_iff in H. destruct H as [H1 H2].
  destruct n as [|n]; [lia|]. cbn [skipn]. destruct n as [|n]; [cbn [skipn nth]; exact H2|].
  replace (S (S n) - 1)%nat with (S n) by lia. cbn [nth].
  replace n with (S n - 1)%nat at 1 by lia. apply (IH x); auto; lia.
Qed.

Lemma svc_groups_sorted ss : forall hs p,
  increasing_from p hs = true -> length hs = N.to_nat (sumN svc_nattrs ss) -> blocks_sorted p (svc_groups ss hs) = true.
Proof.
  induction ss as [|s t IH]; intros hs p Hs Hl; cbn [svc_groups blocks_sorted]; [reflexivity|].
  cbn [sumN] in Hl. pose proof (svc_nattrs_pos s) as Hp. unfold gfirst, glast. cbn [fst snd].
  set (n := N.to_nat (svc_nattrs s)) in *.
  assert (H0 : p < nth 0 hs 0) by (apply (increasing_from_lower p hs); auto; apply nth_In; lia).
  assert (H1 : nth 0 hs 0 <= nth (n - 1) hs 0) by (apply (increasing_nth_le p); auto; lia).
  apply andb_true_iff. split; [apply andb_true_iff; split; lia|].
  apply IH; [apply (increasing_skipn p); auto; lia|rewrite skipn_length; lia].
Qed.

Lemma groups_sorted c : wf c -> no_includes c -> blocks_sorted 0 (groups c) = true.
Proof.
  intros Hw Hn. apply svc_groups_sorted; [apply assign_increasing|]. apply assign_length; auto.
Qed.

Lemma blocks_sorted_filter p f G : blocks_sorted p G = true -> blocks_sorted p (filter f G) = true.
Proof.
  revert p; induction G as [|g t IH]; intros p H; cbn [filter blocks_sorted] in *; auto.
  apply andb_true_iff in H. destruct H as [H H3]. apply andb_true_iff in H. destruct H as [H1 H2].
  destruct (f g); cbn [blocks_sorted].
  - rewrite H1, H2, IH; auto.
  - apply IH. clear IH. destruct t as [|g' t']; cbn [blocks_sorted] in *; auto.
    apply andb_true_iff in H3. destruct H3 as [H3 H5]. apply andb_true_iff in H3. destruct H3 as [H3 H4].
    rewrite H4, H5. replace (p <? gfirst g') with true by lia. reflexivity.
Qed.

Lemma blocks_sorted_firsts p G : blocks_sorted p G = true -> increasing_from p (map gfirst G) = true.
Proof.
  revert p; induction G as [|g t IH]; intros p H; cbn [map blocks_sorted increasing_from] in *; auto.
  apply andb_true_iff in H. destruct H as [H H3]. apply andb_true_iff in H. destruct H as [H1 H2].
  rewrite H1. cbn [andb]. apply IH. destruct t as [|g' t']; cbn [blocks_sorted] in *; auto.
  apply andb_true_iff in H3. destruct H3 as [H3 H5]. apply andb_true_iff in H3. destruct H3 as [H3 H4].
  rewrite H4, H5. replace (gfirst g <? gfirst g') with true by lia. reflexivity.
Qed.

(* every group behind a prefix W starts behind the end of the last group of W *)
Lemma blocks_sorted_app p W rest g d :
  blocks_sorted p (W ++ rest) = true -> W <> [] -> In g rest -> glast (last W d) < gfirst g.
Proof.
  revert p; induction W as [|w t IH]; intros p H Hne Hin; [congruence|].
  cbn [app blocks_sorted] in H. apply andb_true_iff in H. destruct H as [H H3]. apply andb_true_iff in H. destruct H as [H1 H2].
  destruct t as [|w' t'].
  - cbn [last app] in *. clear IH. revert H3 Hin. generalize (glast w). induction rest as [|x r IHr]; intros q H3 Hin; [destruct Hin|].
    cbn [blocks_sorted] in H3. apply andb_true_iff in H3. destruct H3 as [H3 H5]. apply andb_true_iff in H3. destruct H3 as [H3 H4].
    destruct Hin as [<-|Hin]; [lia|]. specialize (IHr _ H5 Hin). lia.
  - change (last (w :: w' :: t') d) with (last (w' :: t') d). apply (IH (glast w)); auto. discriminate.
Qed.

Lemma blocks_sorted_last_le p W rest d :
  blocks_sorted p (W ++ rest) = true -> W <> [] -> gfirst (last W d) <= glast (last W d).
Proof.
  revert p; induction W as [|w t IH]; intros p H Hne; [congruence|].
  cbn [app blocks_sorted] in H. apply andb_true_iff in H. destruct H as [H H3]. apply andb_true_iff in H. destruct H as [H1 H2].
  destruct t as [|w' t']; [cbn [last]; lia|].
  change (last (w :: w' :: t') d) with (last (w' :: t') d). apply (IH (glast w)); auto. discriminate.
Qed.

(* the answers of a group discovery lo..hi, as a client decodes them: the declaration handles and the end
   group handle of the last group, behind which the client continues *)
Definition group_responder (walk : N -> N -> list (N * N * service_decl)) (lo hi : N) : option (list N * N) :=
  match walk lo hi with
  | [] => None
  | g :: W => Some (map gfirst (g :: W), glast (last (g :: W) g))
  end.

Definition selected_range (P : N * N * service_decl -> bool) (lo hi : N) (g : N * N * service_decl) : bool :=
  in_range lo hi (gfirst g) && P g.

Lemma selected_starts_range c P lo hi :
  hrange (map gfirst (filter P (groups c))) lo hi = map gfirst (filter (selected_range P lo hi) (groups c)).
Proof.
  unfold hrange. induction (groups c) as [|g t IH]; [reflexivity|].
  cbn [filter]. unfold selected_range at 1.
  destruct (P g); cbn [negb andb map filter]; rewrite ?andb_false_r; [|exact IH].
  rewrite andb_true_r. destruct (in_range lo hi (gfirst g)); cbn [map]; rewrite IH; reflexivity.
Qed.

Lemma filter_len_le {A : Type} (f : A -> bool) l : (length (filter f l) <= length l)%nat.
Proof. induction l as [|x t IH]; cbn [filter length]; [lia|]. destruct (f x); cbn [length]; lia. Qed.

Lemma map_last {A B : Type} (f : A -> B) l d : l <> [] -> last (map f l) (f d) = f (last l d).
Proof.
  induction l as [|x t IH]; intros H; [congruence|]. destruct t as [|y t']; [reflexivity|].
  change (last (map f (x :: y :: t')) (f d)) with (last (map f (y :: t')) (f d)).
  change (last (x :: y :: t') d) with (last (y :: t') d). apply IH. discriminate.
Qed.

Lemma last_in_list {A : Type} (l : list A) (d : A) : l <> [] -> In (last l d) l.
Proof.
  induction l as [|x t IH]; intros H; [congruence|].
  destruct t as [|y t']; [left; reflexivity|]. right. apply IH. discriminate.
Qed.

(* a client that continues behind the last end group handle enumerates the selected services exactly,
   whenever every answer is a non-empty prefix of the selected services in range *)
Theorem groups_discover_all c P walk hi :
  wf c -> no_includes c ->
  (forall lo, exists rest, filter (selected_range P lo hi) (groups c) = walk lo hi ++ rest
                           /\ (walk lo hi = [] -> filter (selected_range P lo hi) (groups c) = [])) ->
  forall lo, 1 <= lo ->
    discover_all (S (length (groups c))) (group_responder walk) lo hi = hrange (map gfirst (filter P (groups c))) lo hi.
Proof.
  intros Hw Hn Hwalk lo Hlo.
  pose proof (groups_sorted c Hw Hn) as Hs.
  apply discover_all_enumerates; auto.
  - apply blocks_sorted_firsts. apply blocks_sorted_filter. exact Hs.
  - intros h Hin. apply in_map_iff in Hin. destruct Hin as [g [<- Hg]].
    apply filter_In in Hg. destruct Hg as [Hg _].
    assert (X : In (gentry g) (map gentry (groups c))) by (apply in_map; auto).
    rewrite <- table_services in X by auto. apply filter_In in X. destruct X as [X _].
    apply (in_map fst) in X. rewrite table_handles in X by auto. cbn [gentry fst] in X.
    pose proof (assign_upper c _ Hw Hn X). unfold gfirst. lia.
  - intros lo' Hlo1 Hlo2. unfold group_responder.
    destruct (Hwalk lo') as (rest & W1 & W2).
    rewrite selected_starts_range.
    destruct (walk lo' hi) as [|g W] eqn:Ew.
    + rewrite W2 by reflexivity. reflexivity.
    + assert (Hsf : blocks_sorted 0 ((g :: W) ++ rest) = true) by (rewrite <- W1; apply blocks_sorted_filter; exact Hs).
      assert (Hne : g :: W <> []) by discriminate.
      assert (Hlast_eq : last (map gfirst (g :: W)) 0 = gfirst (last (g :: W) g)).
      { rewrite (last_default (map gfirst (g :: W)) 0 (gfirst g)) by discriminate. apply map_last. discriminate. }
      rewrite Hlast_eq.
      repeat split.
      * discriminate.
      * apply (blocks_sorted_last_le 0 _ rest); auto.
      * intros h Hin Hlt.
        apply in_map_iff in Hin. destruct Hin as [g' [<- Hg']].
        assert (Hall : blocks_sorted 0 (filter P (groups c)) = true) by (apply blocks_sorted_filter; exact Hs).
        assert (Hlast : In (last (g :: W) g) (filter P (groups c))).
        { assert (X : In (last (g :: W) g) (filter (selected_range P lo' hi) (groups c))).
          { rewrite W1. apply in_or_app. left. apply last_in_list. discriminate. }
          apply filter_In in X. destruct X as [X1 X2]. apply filter_In. split; auto.
          unfold selected_range in X2. apply andb_true_iff in X2. tauto. }
        revert Hall Hg' Hlast Hlt. generalize (filter P (groups c)) (last (g :: W) g) 0.
        clear. intros L w p. revert p. induction L as [|x t IH]; intros p Hall Hin' Hlast Hlt; [destruct Hin'|].
        cbn [blocks_sorted] in Hall. apply andb_true_iff in Hall. destruct Hall as [Ha H3]. apply andb_true_iff in Ha. destruct Ha as [H1 H2].
        destruct Hlast as [->|Hlast].
        -- destruct Hin' as [->|Hin']; [lia|].
           clear IH. revert H3 Hin'. generalize (glast w). induction t as [|y r IHr]; intros q H3 Hin'; [destruct Hin'|].
           cbn [blocks_sorted] in H3. apply andb_true_iff in H3. destruct H3 as [H3 H5]. apply andb_true_iff in H3. destruct H3 as [H3 H4].
           destruct Hin' as [->|Hin']; [lia|]. specialize (IHr _ H5 Hin'). lia.
        -- destruct Hin' as [->|Hin']; [|apply (IH (glast x)); auto].
           exfalso. assert (glast g' < gfirst w); [|lia].
           clear IH Hlt. revert H3 Hlast. generalize (glast g'). induction t as [|y r IHr]; intros q H3 Hlast; [destruct Hlast|].
           cbn [blocks_sorted] in H3. apply andb_true_iff in H3. destruct H3 as [H3 H5]. apply andb_true_iff in H3. destruct H3 as [H3 H4].
           destruct Hlast as [->|Hlast]; [lia|]. specialize (IHr _ H5 Hlast). lia.
      * exists (map gfirst rest). rewrite W1, map_app. reflexivity.
  - rewrite selected_starts_range, map_length.
    assert (length (filter (selected_range P lo hi) (groups c)) <= length (groups c))%nat by apply filter_len_le. lia.
Qed.

(* Read By Group Type *)
Definition rbg_responder (c : cfg) (out_size : N) : N -> N -> option (list N * N) :=
  group_responder (fun lo hi => walk_first (groups c) lo hi (out_size - 2)).

(* the declaration handles of the declared primary services *)
Definition primary_starts (c : cfg) : list N :=
  map gfirst (filter (fun g => negb (s_secondary (snd g))) (groups c)).

Theorem rbg_discover_all c out_size hi :
  wf c -> no_includes c -> 23 <= out_size ->
  forall lo, 1 <= lo ->
    discover_all (S (length (groups c))) (rbg_responder c out_size) lo hi = hrange (primary_starts c) lo hi.
Proof.
  intros Hw Hn Ho lo Hlo. unfold rbg_responder, primary_starts. apply groups_discover_all; auto.
  intros lo'. destruct (walk_first_spec (groups c) lo' hi (out_size - 2) ltac:(lia)) as (rest & W1 & W2 & _).
  exists rest. split; [exact W1|exact W2].
Qed.

(* ================================================================== Part B3: a value attribute follows its declaration *)
Definition is_value (a : attr) : bool := match a with AValue _ _ _ _ => true | _ => false end.

Definition value_pred (l : list attr) : Prop :=
  forall j s ch g k, nth_error l (S j) = Some (AValue s ch g k) -> nth_error l j = Some (ACharDecl s ch).
Definition head_no_value (l : list attr) : Prop :=
  match l with a :: _ => is_value a = false | [] => True end.

Lemma value_pred_app l1 l2 : value_pred l1 -> value_pred l2 -> head_no_value l2 -> value_pred (l1 ++ l2).
Proof.
  intros H1 H2 Hh j s ch g k H.
  destruct (Nat.lt_ge_cases (S j) (length l1)) as [Hlt|Hge].
  - rewrite nth_error_app1 in * by lia. eapply H1; eauto.
  - rewrite nth_error_app2 in H by lia.
    destruct (Nat.eq_dec (S j) (length l1)) as [He|Hne].
    + replace (S j - length l1)%nat with O in H by lia. destruct l2 as [|a t]; [discriminate H|].
      cbn [nth_error] in H. inversion H; subst a. cbn in Hh. discriminate Hh.
    + rewrite nth_error_app2 by lia. replace (S j - length l1)%nat with (S (j - length l1)) in H by lia. eapply H2; eauto.
Qed.

Lemma value_pred_none l : (forall a, In a l -> is_value a = false) -> value_pred l.
Proof.
  intros H j s ch g k Hn. apply nth_error_In in Hn. apply H in Hn. discriminate Hn.
Qed.

Lemma char_tail_no_value s ch cci a : In a (char_tail_attrs s ch cci) -> is_value a = false.
Proof.
  unfold char_tail_attrs. intros H.
  apply in_app_or in H. destruct H as [H|H]; [destruct (has_cccd ch); [destruct H as [<-|[]]; reflexivity|destruct H]|].
  apply in_app_or in H. destruct H as [H|H]; [destruct (c_name ch); [destruct H as [<-|[]]; reflexivity|destruct H]|].
  apply in_map_iff in H. destruct H as [d [<- _]]. reflexivity.
Qed.

Lemma char_attrs_value_pred s ch g cci : value_pred (char_attrs s ch g cci).
Proof.
  intros j s' ch' g' k' H. unfold char_attrs in *. destruct j as [|j]; cbn [nth_error] in *.
  - inversion H; subst. reflexivity.
  - apply nth_error_In in H. apply char_tail_no_value in H. discriminate H.
Qed.

Lemma chars_value_pred s cs : value_pred (flat_map (fun ch => char_attrs s ch O 0) cs) /\ head_no_value (flat_map (fun ch => char_attrs s ch O 0) cs).
Proof.
  induction cs as [|ch t [IH1 IH2]]; cbn [flat_map]; [split; [intros j ? ? ? ? H; destruct j; discriminate H|exact I]|].
  split; [|reflexivity]. apply value_pred_app; auto. apply char_attrs_value_pred.
Qed.

Lemma svc_value_pred s : value_pred (svc_decl_attrs s).
Proof.
  unfold svc_decl_attrs.
  change (AService s :: map AInclude (s_includes s) ++ flat_map (fun ch => char_attrs s ch O 0) (s_chars s))
    with ((AService s :: map AInclude (s_includes s)) ++ flat_map (fun ch => char_attrs s ch O 0) (s_chars s)).
  destruct (chars_value_pred s (s_chars s)) as [H1 H2]. apply value_pred_app; auto.
  apply value_pred_none. intros a [<-|H]; [reflexivity|]. apply in_map_iff in H. destruct H as [u [<- _]]. reflexivity.
Qed.

Lemma decl_value_pred c : value_pred (decl_attrs c).
Proof.
  unfold decl_attrs. induction (services c) as [|s t IH]; cbn [flat_map]; [intros j ? ? ? ? H; destruct j; discriminate H|].
  apply value_pred_app; auto; [apply svc_value_pred|]. destruct t; [exact I|reflexivity].
Qed.

(* for the model: the attribute in front of a value attribute is its characteristic declaration *)
Lemma attribute_before_value c i s ch g k :
  attribute_at c i = Some (AValue s ch g k) -> i <> 0 /\ attribute_at c (i - 1) = Some (ACharDecl s ch).
Proof.
  intros H. pose proof (attribute_at_decl c i) as X. rewrite H in X. cbn [option_map erase] in X. symmetry in X.
  assert (Hi : i <> 0).
  { intros ->. cbn [N.to_nat] in X. unfold decl_attrs in X. destruct (services c) as [|s0 t]; [discriminate X|].
    cbn [flat_map svc_decl_attrs app nth_error] in X. discriminate X. }
  split; auto. replace (N.to_nat i) with (S (N.to_nat (i - 1))) in X by lia.
  apply decl_value_pred in X. pose proof (attribute_at_decl c (i - 1)) as Y. rewrite X in Y.
  destruct (attribute_at c (i - 1)) as [a|]; [|discriminate Y]. cbn [option_map] in Y. inversion Y as [Y'].
  destruct a; cbn [erase] in Y'; try discriminate Y'. rewrite Y'. reflexivity.
Qed.

(* only value attributes carry the internal marker of 128 bit uuids *)
Lemma marker_is_value c a : wf c -> In a (decl_attrs c) -> attr_uuid a = internal_128bit_uuid -> is_value a = true.
Proof.
  intros Hw Hin Hu. destruct a; try reflexivity; cbn [attr_uuid] in Hu; try discriminate Hu.
  - destruct (s_secondary s); discriminate Hu.
  - (* a descriptor: its uuid is checked by wf *)
    exfalso. unfold decl_attrs in Hin. apply in_flat_map in Hin. destruct Hin as [s [Hs Hin]].
    unfold svc_decl_attrs in Hin. destruct Hin as [Hin|Hin]; [discriminate Hin|].
    apply in_app_or in Hin. destruct Hin as [Hin|Hin]; [apply in_map_iff in Hin; destruct Hin as [? [X _]]; discriminate X|].
    apply in_flat_map in Hin. destruct Hin as [ch [Hch Hin]]. unfold char_attrs in Hin.
    destruct Hin as [Hin|[Hin|Hin]]; try discriminate Hin. unfold char_tail_attrs in Hin.
    apply in_app_or in Hin. destruct Hin as [Hin|Hin]; [destruct (has_cccd ch); [destruct Hin as [X|[]]; discriminate X|destruct Hin]|].
    apply in_app_or in Hin. destruct Hin as [Hin|Hin]; [destruct (c_name ch); [destruct Hin as [X|[]]; discriminate X|destruct Hin]|].
    apply in_map_iff in Hin. destruct Hin as [d [Hd Hin]]. inversion Hd; subst u value.
    unfold wf, wf_b in Hw. repeat (apply andb_true_iff in Hw; destruct Hw as [Hw ?]).
    match goal with X : forallb (svc_static_ok c) (services c) = true |- _ => rewrite forallb_forall in X; specialize (X s Hs) end.
    unfold svc_static_ok in *. repeat (match goal with X : _ && _ = true |- _ => apply andb_true_iff in X; destruct X end).
    match goal with X : forallb char_static_ok (s_chars s) = true |- _ => rewrite forallb_forall in X; specialize (X ch Hch) end.
    unfold char_static_ok in *. repeat (match goal with X : _ && _ = true |- _ => apply andb_true_iff in X; destruct X end).
    match goal with X : forallb _ (c_descs ch) = true |- _ => rewrite forallb_forall in X; specialize (X d Hin); cbv beta in X end.
    repeat (match goal with X : _ && _ = true |- _ => apply andb_true_iff in X; destruct X end).
    match goal with X : negb (fst d =? internal_128bit_uuid) = true, Y : fst d = internal_128bit_uuid |- _ =>
      rewrite Y, N.eqb_refl in X; discriminate X end.
Qed.

(* ================================================================== Part D2: Find Information *)
Lemma skipn_nth_error (A : Type) (l : list A) n x : nth_error l n = Some x -> skipn n l = x :: skipn (S n) l.
Proof.
  revert l; induction n as [|n IH]; intros l H; destruct l as [|y t]; try discriminate H.
  - inversion H. reflexivity.
  - cbn [nth_error] in H. cbn [skipn]. apply IH. exact H.
Qed.

Lemma table_step c i :
  wf c -> no_includes c -> i < number_of_attributes c ->
  exists a, attribute_at c i = Some a
            /\ skipn (N.to_nat i) (table c) = (handle_by_index c i, erase a) :: skipn (N.to_nat (i + 1)) (table c)
            /\ In (erase a) (decl_attrs c).
Proof.
  intros Hw Hn Hi. destruct (table_nth c i Hw Hn Hi) as [a [H1 H2]]. exists a. split; auto. split.
  - rewrite (skipn_nth_error _ _ _ _ H2). repeat f_equal. lia.
  - pose proof (attribute_at_decl c i) as X. rewrite H1 in X. cbn [option_map] in X. symmetry in X. eapply nth_error_In; eauto.
Qed.

Lemma table_end c i : wf c -> no_includes c -> number_of_attributes c <= i -> skipn (N.to_nat i) (table c) = [].
Proof. intros Hw Hn Hi. apply skipn_all2. rewrite table_length by auto. lia. Qed.

Definition is16 (a : attr) : bool := negb (attr_uuid a =? internal_128bit_uuid).
Definition fsize (only16 : bool) : N := if only16 then 4 else 18.
Definition fenc (e : N * attr) : list N := le16 (fst e) ++ uuid_bytes (attr_type (snd e)).

Lemma is16_erase a : is16 (erase a) = is16 a.
Proof. unfold is16. rewrite erase_uuid. reflexivity. Qed.

(* collect_handle_uuid_tuples as a walk over the table *)
Fixpoint fi_walk (T : list (N * attr)) (e : N) (only16 : bool) (avail : N) : list (N * attr) :=
  match T with
  | [] => []
  | x :: T' =>
      if (fst x <=? e) && (fsize only16 <=? avail) then
        if Bool.eqb only16 (is16 (snd x)) then x :: fi_walk T' e only16 (avail - fsize only16)
        else fi_walk T' e only16 avail
      else []
  end.

Lemma len_dropN_seg (A : Type) n (l : list A) : len (dropN n l) = len l - n.
Proof. unfold len, dropN. rewrite skipn_length. lia. Qed.

(* the uuid written for an attribute with a 128 bit type *)
Lemma uuid128_bytes c i a u :
  wf c -> attribute_at c i = Some a -> In (erase a) (decl_attrs c) -> is16 a = false ->
  uuid128_of_decl c i = Some u -> u = uuid_bytes (attr_type a).
Proof.
  intros Hw Ha Hin H16 Hu. unfold is16 in H16. apply negb_false_iff, N.eqb_eq in H16.
  assert (Hv : is_value (erase a) = true) by (apply (marker_is_value c); auto; rewrite erase_uuid; auto).
  destruct a as [| | |s ch g k| | |]; try discriminate Hv.
  destruct (attribute_before_value c i s ch g k Ha) as [Hi Hb].
  unfold uuid128_of_decl in Hu. replace (i =? 0) with false in Hu by lia. rewrite Hb in Hu.
  unfold char_decl_value in Hu. cbv zeta in Hu.
  destruct (handle_by_index c (1 + 1) =? invalid_handle); [discriminate Hu|]. cbn [attr_type].
  match type of Hu with (if ?x then _ else _) = _ => destruct x; [|discriminate Hu] end.
  inversion Hu. reflexivity.
Qed.

Lemma fi_loop c e only16 out_end : wf c -> no_includes c ->
  forall fuel start b out b' out',
  (N.to_nat (number_of_attributes c - start) < fuel)%nat ->
  2 <= out -> out <= out_end -> out_end <= len b ->
  collect_handle_uuid_tuples fuel c start e only16 b out out_end = Some (b', out') ->
  let R := fi_walk (skipn (N.to_nat start) (table c)) e only16 (out_end - out) in
  seg 0 2 b' = seg 0 2 b /\ seg 2 out' b' = seg 2 out b ++ flat_map fenc R
  /\ out' = out + fsize only16 * len R /\ out' <= out_end /\ len b' = len b.
Proof.
  intros Hw Hn. induction fuel as [|f IH]; intros start b out b' out' Hf Ho1 Ho2 Hl H; [lia|].
  cbn [collect_handle_uuid_tuples] in H. cbv zeta in H. fold (fsize only16) in H.
  destruct (start <? number_of_attributes c) eqn:Es.
  - destruct (table_step c start Hw Hn ltac:(lia)) as (a & Ha & Hsk & Hin). rewrite Hsk. cbn [fi_walk fst snd].
    cbn [andb] in H. rewrite is16_erase.
    destruct ((handle_by_index c start <=? e) && (fsize only16 <=? out_end - out)) eqn:Ec.
    + rewrite Ha in H. fold (is16 a) in H.
      assert (Hfs : fsize only16 <= out_end - out) by lia.
      destruct (Bool.eqb only16 (is16 a)) eqn:Ee.
      * destruct (put b out (le16 (handle_by_index c start))) as [b1|] eqn:E1; [|discriminate].
        destruct (if is16 a then Some (le16 (attr_uuid a)) else uuid128_of_decl c start) as [u|] eqn:Eu; [|discriminate].
        destruct (put b1 (out + 2) u) as [b2|] eqn:E2; [|discriminate].
        assert (Hu : u = uuid_bytes (attr_type a) /\ len u = fsize only16 - 2).
        { apply eqb_prop in Ee. subst only16. destruct (is16 a) eqn:E16.
          - inversion Eu; subst u. split; [|reflexivity].
            unfold is16 in E16. destruct a as [| | |s ch g k| | |]; try reflexivity.
            cbn [attr_type attr_uuid] in *. destruct (c_uuid ch); [reflexivity|discriminate E16].
          - assert (X := uuid128_bytes c start a u Hw Ha Hin E16 Eu). split; auto.
            unfold uuid128_of_decl in Eu. destruct (start =? 0); [discriminate|].
            destruct (attribute_at c (start - 1)) as [[]|]; try discriminate.
            destruct (char_decl_value c c0 1); [|discriminate].
            destruct (len l =? 19) eqn:E19; [|discriminate]. inversion Eu; subst u.
            rewrite len_dropN_seg. cbn [fsize]. lia. }
        destruct Hu as [Hu1 Hu2].
        pose proof (put_length _ _ _ _ E1) as L1. pose proof (put_length _ _ _ _ E2) as L2.
        apply IH in H; try lia. destruct H as (I1 & I2 & I3 & I4 & I5).
        replace (out_end - (out + fsize only16)) with (out_end - out - fsize only16) in I2, I3 by lia.
        replace (N.to_nat (start + 1)) with (N.to_nat (start + 1)) in * by lia.
        cbn [flat_map]. unfold fenc at 1. cbn [fst snd]. rewrite erase_type.
        assert (Hs2 : 2 <= fsize only16) by (destruct only16; cbn; lia).
        repeat split; try lia.
        -- rewrite I1. rewrite (seg_put_other _ _ _ _ 0 2 E2) by lia. apply (seg_put_other _ _ _ _ 0 2 E1). lia.
        -- rewrite I2. replace (out + fsize only16) with ((out + 2) + len u) by lia.
           rewrite (seg_put_append _ _ _ _ 2 E2) by lia.
           replace (out + 2) with (out + len (le16 (handle_by_index c start))) by (rewrite le16_len; lia).
           rewrite (seg_put_append _ _ _ _ 2 E1) by lia. rewrite <- Hu1, <- !app_assoc. reflexivity.
        -- rewrite I3. unfold len. cbn [length]. lia.
      * apply IH in H; try lia. exact H.
    + inversion H; subst b' out'. cbn [flat_map]. rewrite app_nil_r. unfold len. cbn. repeat split; lia.
  - cbn [andb] in H. inversion H; subst b' out'. rewrite table_end by (auto; lia). cbn [fi_walk flat_map].
    rewrite app_nil_r. unfold len. cbn. repeat split; lia.
Qed.

(* ---- the table from a handle on *)
Definition from_handle (lo : N) (T : list (N * attr)) : list (N * attr) := filter (fun x => lo <=? fst x) T.

Lemma first_ge_invalid_all_lt l h i : i + N.of_nat (length l) < invalid_index -> first_ge l h i = invalid_index -> forall x, In x l -> x < h.
Proof.
  revert i; induction l as [|y t IH]; intros i Hb H x Hin; [destruct Hin|]. cbn [first_ge length] in *.
  destruct (h <=? y) eqn:E; [unfold invalid_index in *; lia|].
  destruct Hin as [<-|Hin]; [lia|]. apply (IH (i + 1)); auto. lia.
Qed.

Lemma skipn_first_ge p (T : list (N * attr)) lo i :
  increasing_from p (map fst T) = true -> first_ge (map fst T) lo i <> invalid_index ->
  skipn (N.to_nat (first_ge (map fst T) lo i - i)) T = from_handle lo T.
Proof.
  revert p i; induction T as [|x t IH]; intros p i Hs Hv; cbn [map first_ge] in *; [congruence|].
  cbn [increasing_from] in Hs. apply andb_true_iff in Hs. destruct Hs as [Hs1 Hs2].
  unfold from_handle. cbn [filter]. destruct (lo <=? fst x) eqn:E.
  - replace (i - i) with 0 by lia. cbn [N.to_nat skipn]. f_equal. symmetry. apply filter_all_true.
    intros y Hy. apply (in_map fst) in Hy. pose proof (increasing_from_lower _ _ _ Hs2 Hy). lia.
  - destruct (first_ge_range (map fst t) lo (i + 1)) as [Hr|Hr]; [congruence|].
    replace (N.to_nat (first_ge (map fst t) lo (i + 1) - i)) with (S (N.to_nat (first_ge (map fst t) lo (i + 1) - (i + 1)))) by lia.
    cbn [skipn]. apply (IH (fst x)); auto.
Qed.

Lemma from_first_index c lo :
  wf c -> no_includes c ->
  (first_index_by_handle c lo = invalid_index -> from_handle lo (table c) = [])
  /\ (first_index_by_handle c lo <> invalid_index ->
      first_index_by_handle c lo < number_of_attributes c
      /\ skipn (N.to_nat (first_index_by_handle c lo)) (table c) = from_handle lo (table c)).
Proof.
  intros Hw Hn. rewrite first_index_by_handle_spec by auto. rewrite <- (table_handles c Hw Hn).
  pose proof (assign_increasing c) as Hs. rewrite <- (table_handles c Hw Hn) in Hs.
  pose proof (table_length c Hw Hn) as Hl. pose proof (wf_attr_bound c Hw) as Hb. split.
  - intros H. apply filter_all_false. intros x Hx.
    assert (fst x < lo); [|lia]. apply (first_ge_invalid_all_lt (map fst (table c)) lo 0); auto.
    + rewrite map_length, Hl. unfold invalid_index. lia.
    + apply in_map. exact Hx.
  - intros H. destruct (first_ge_range (map fst (table c)) lo 0) as [Hr|Hr]; [congruence|].
    rewrite map_length, Hl in Hr. split; [lia|].
    rewrite <- (skipn_first_ge 0 (table c) lo 0 Hs H). repeat f_equal. lia.
Qed.

Lemma matching_info c lo hi : matching c KInfo lo hi = filter (fun x => fst x <=? hi) (from_handle lo (table c)).
Proof.
  unfold matching, from_handle. rewrite filter_filter. apply filter_ext_in'. intros x _. cbn [type_matches]. unfold in_range. apply andb_true_r.
Qed.

(* ---- what the walk reports *)
Inductive subseq {A : Type} : list A -> list A -> Prop :=
| sub_nil l : subseq [] l
| sub_take x l1 l2 : subseq l1 l2 -> subseq (x :: l1) (x :: l2)
| sub_skip x l1 l2 : subseq l1 l2 -> subseq l1 (x :: l2).

Lemma subseq_in {A : Type} (l1 l2 : list A) x : subseq l1 l2 -> In x l1 -> In x l2.
Proof. induction 1; intros Hin; [destruct Hin| |right; auto]. destruct Hin as [<-|Hin]; [left; auto|right; auto]. Qed.

Lemma subseq_increasing p (l1 l2 : list N) : subseq l1 l2 -> increasing_from p l2 = true -> increasing_from p l1 = true.
Proof.
  intros H. revert p. induction H; intros p Hs; cbn [increasing_from] in *; auto.
  - apply andb_true_iff in Hs. destruct Hs as [H1 H2]. rewrite H1. cbn [andb]. auto.
  - apply andb_true_iff in Hs. destruct Hs as [H1 H2]. apply IHsubseq. apply (increasing_from_weaken x); [lia|auto].
Qed.

Lemma subseq_map {A B : Type} (f : A -> B) l1 l2 : subseq l1 l2 -> subseq (map f l1) (map f l2).
Proof. induction 1; cbn [map]; constructor; auto. Qed.

Lemma fi_walk_subseq W e only16 avail : subseq (fi_walk W e only16 avail) (filter (fun x => fst x <=? e) W).
Proof.
  revert avail; induction W as [|x t IH]; intros avail; cbn [fi_walk filter]; [constructor|].
  destruct (fst x <=? e); cbn [andb]; [|constructor].
  destruct (fsize only16 <=? avail); [|constructor].
  destruct (Bool.eqb only16 (is16 (snd x))); [apply sub_take|apply sub_skip]; apply IH.
Qed.

Lemma fi_walk_head x W e avail :
  fst x <= e -> 18 <= avail -> exists R, fi_walk (x :: W) e (is16 (snd x)) avail = x :: R.
Proof.
  intros H1 H2. cbn [fi_walk]. replace (fst x <=? e) with true by lia.
  replace (fsize (is16 (snd x)) <=? avail) with true by (unfold fsize; destruct (is16 (snd x)); lia).
  cbn [andb]. rewrite eqb_reflx. eexists. reflexivity.
Qed.

(* if the attributes in range all have the uuid format of the first one, nothing is left out *)
Lemma fi_walk_prefix W e only16 avail :
  (forall x, In x W -> fst x <= e -> is16 (snd x) = only16) ->
  exists rest, filter (fun x => fst x <=? e) W = fi_walk W e only16 avail ++ rest.
Proof.
  revert avail; induction W as [|x t IH]; intros avail Hu; cbn [fi_walk filter]; [exists []; reflexivity|].
  destruct (fst x <=? e) eqn:E; cbn [andb]; [|eexists; reflexivity].
  destruct (fsize only16 <=? avail); [|eexists; reflexivity].
  rewrite (Hu x) by (try (left; reflexivity); lia). rewrite eqb_reflx.
  destruct (IH (avail - fsize only16)) as [rest Hr]; [intros y Hy; apply Hu; right; auto|].
  exists rest. cbn [app]. f_equal. exact Hr.
Qed.

Definition fi_response (c : cfg) (lo hi a0 a1 out_size : N) (r : resp) : Prop :=
  let not_found := snd r = 5 /\ seg 0 5 (fst r) = [1; 4; a0; a1; 10] in
  match from_handle lo (table c) with
  | x :: W =>
      if fst x <=? hi then
        snd r <= out_size /\ snd r <= len (fst r)
        /\ seg 0 (snd r) (fst r) = 5 :: (if is16 (snd x) then 1 else 2) :: flat_map fenc (fi_walk (x :: W) hi (is16 (snd x)) (out_size - 2))
      else not_found
  | [] => not_found
  end.

Theorem find_information_spec c a0 a1 x0 x1 b out_size r :
  wf c -> no_includes c ->
  a0 < 256 -> a1 < 256 -> x0 < 256 -> x1 < 256 ->
  let lo := w16 a0 a1 in let hi := w16 x0 x1 in
  1 <= lo -> lo <= hi -> 23 <= out_size -> out_size <= len b ->
  handle_find_information c [4; a0; a1; x0; x1] b out_size = Some r ->
  fi_response c lo hi a0 a1 out_size r.
Proof.
  intros Hw Hn Ha0 Ha1 Hx0 Hx1 lo hi Hlo Hhi Ho Hb H.
  unfold handle_find_information, check_size_and_handle_range in H.
  cbn [rd len length N.of_nat] in H.
  change (rd16 [4; a0; a1; x0; x1] 1) with (Some (a0 + 256 * a1)) in H.
  change (rd16 [4; a0; a1; x0; x1] 3) with (Some (x0 + 256 * x1)) in H.
  cbn -[first_index_by_handle error_response collect_handle_uuid_tuples put N.mul attribute_at handle_by_index number_of_attributes] in H.
  fold (w16 a0 a1) in H. fold (w16 x0 x1) in H. fold lo in H. fold hi in H.
  replace ((lo =? 0) || (hi <? lo)) with false in H by lia.
  destruct (from_first_index c lo Hw Hn) as [F1 F2]. unfold fi_response. cbv zeta.
  destruct (first_index_by_handle c lo =? invalid_index) eqn:Efi.
  - apply N.eqb_eq in Efi. rewrite (F1 Efi).
    destruct (error_response 4 err_attribute_not_found lo b out_size) as [r'|] eqn:Ee; [|discriminate].
    inversion H; subst r'. apply error_response_bytes in Ee; auto; [|lia]. tauto.
  - apply N.eqb_neq in Efi. destruct (F2 Efi) as [F3 F4]. rewrite <- F4.
    destruct (table_step c _ Hw Hn F3) as (a & Ha & Hsk & Hin). rewrite Ha in H. rewrite Hsk. cbn [fst snd].
    fold (is16 a) in H. rewrite is16_erase.
    destruct (hi <? handle_by_index c (first_index_by_handle c lo)) eqn:Eg.
    + replace (handle_by_index c (first_index_by_handle c lo) <=? hi) with false by lia.
      apply error_response_bytes in H; auto; [|lia]. tauto.
    + replace (handle_by_index c (first_index_by_handle c lo) <=? hi) with true by lia.
      destruct (put b 0 [5]) as [b1|] eqn:E1; [|discriminate].
      assert (Hos : negb match out_size with 0 => false | N.pos q => (1 =? q)%positive end = true).
      { destruct out_size as [|q]; [lia|]. destruct (1 =? q)%positive eqn:E; [apply Pos.eqb_eq in E; lia|reflexivity]. }
      rewrite Hos in H. clear Hos.
      destruct (put b1 1 [if is16 a then 1 else 2]) as [b2|] eqn:E2; cbv iota beta in H; [|discriminate].
      destruct (collect_handle_uuid_tuples _ c _ hi (is16 a) b2 2 out_size) as [[b' out']|] eqn:Ec; cbv iota beta in H; [|discriminate].
      inversion H; subst r; clear H. cbn [fst snd].
      pose proof (put_length _ _ _ _ E1) as L1. pose proof (put_length _ _ _ _ E2) as L2.
      apply fi_loop in Ec; auto; try lia. rewrite Hsk in Ec. destruct Ec as (C1 & C2 & C3 & C4 & C5).
      repeat split; try lia.
      rewrite (seg_app 0 2) by lia. rewrite C2, C1, seg_nil. cbn [app].
      unfold seg at 1. change (N.to_nat (2 - 0)) with 2%nat. cbn [seq map N.to_nat plus].
      rewrite !(put_nth _ _ _ _ _ E2). cbn [Nat.leb Nat.ltb andb N.to_nat Pos.to_nat Pos.iter_op length plus minus nth].
      rewrite (put_nth _ _ _ _ _ E1). cbn. reflexivity.
Qed.

(* ---- Find Information against [matching] *)
Lemma table_sorted c : wf c -> no_includes c -> increasing_from 0 (map fst (table c)) = true.
Proof. intros Hw Hn. rewrite table_handles by auto. apply assign_increasing. Qed.

Lemma map_filter_fst (f : N -> bool) (T : list (N * attr)) : map fst (filter (fun x => f (fst x)) T) = filter f (map fst T).
Proof. induction T as [|x t IH]; cbn [filter map]; [reflexivity|]. destruct (f (fst x)); cbn [map]; rewrite IH; reflexivity. Qed.

Lemma from_handle_sorted c lo : wf c -> no_includes c -> increasing_from 0 (map fst (from_handle lo (table c))) = true.
Proof.
  intros Hw Hn. unfold from_handle. rewrite (map_filter_fst (fun h => lo <=? h)). apply increasing_from_filter. apply table_sorted; auto.
Qed.

(* the first attribute at or behind lo lies behind hi: nothing is in the range *)
Lemma matching_info_empty c lo hi x W :
  wf c -> no_includes c -> from_handle lo (table c) = x :: W -> hi < fst x -> matching c KInfo lo hi = [].
Proof.
  intros Hw Hn Hf Hx. rewrite matching_info, Hf. pose proof (from_handle_sorted c lo Hw Hn) as Hs. rewrite Hf in Hs.
  cbn [map increasing_from] in Hs. apply andb_true_iff in Hs. destruct Hs as [_ Hs].
  apply filter_all_false. intros y [<-|Hy]; [lia|].
  apply (in_map fst) in Hy. pose proof (increasing_from_lower _ _ _ Hs Hy). lia.
Qed.

Definition info_hdr (x : N * attr) : N := if is16 (snd x) then 1 else 2.

(* C02 (a), (b) for Find Information: Attribute Not Found iff nothing matches; otherwise the response holds the
   first matching attribute followed by a SUBSEQUENCE of the remaining ones (in range, ascending, with their
   types); it is a prefix if the matching attributes all have the uuid format of the first one *)
Theorem find_information_matching c a0 a1 x0 x1 b out_size r :
  wf c -> no_includes c ->
  a0 < 256 -> a1 < 256 -> x0 < 256 -> x1 < 256 ->
  let lo := w16 a0 a1 in let hi := w16 x0 x1 in
  1 <= lo -> lo <= hi -> 23 <= out_size -> out_size <= len b ->
  handle_find_information c [4; a0; a1; x0; x1] b out_size = Some r ->
  match matching c KInfo lo hi with
  | [] => snd r = 5 /\ seg 0 5 (fst r) = [1; 4; a0; a1; 10]
  | x :: M =>
      exists R, subseq R M
        /\ snd r <= out_size /\ snd r <= len (fst r)
        /\ seg 0 (snd r) (fst r) = 5 :: info_hdr x :: flat_map fenc (x :: R)
        /\ ((forall y, In y M -> is16 (snd y) = is16 (snd x)) -> exists rest, M = R ++ rest)
  end.
Proof.
  intros Hw Hn Ha0 Ha1 Hx0 Hx1 lo hi Hlo Hhi Ho Hb H.
  apply find_information_spec in H; auto. fold lo hi in H. unfold fi_response in H. cbv zeta in H.
  destruct (from_handle lo (table c)) as [|x W] eqn:Ef.
  - rewrite matching_info, Ef. exact H.
  - destruct (fst x <=? hi) eqn:Ex.
    + rewrite matching_info, Ef. cbn [filter]. rewrite Ex.
      destruct (fi_walk_head x W hi (out_size - 2) ltac:(lia) ltac:(lia)) as [R HR].
      destruct H as (H1 & H2 & H3). rewrite HR in H3.
      pose proof (fi_walk_subseq (x :: W) hi (is16 (snd x)) (out_size - 2)) as Hsub.
      rewrite HR in Hsub. cbn [filter] in Hsub. rewrite Ex in Hsub.
      exists R. repeat split; auto.
      * inversion Hsub as [| ? ? ? Hs' | ? ? ? Hs']; subst; auto.
        (* x skipped: impossible, x is in front of everything in the rest *)
        exfalso. pose proof (from_handle_sorted c lo Hw Hn) as Hs. rewrite Ef in Hs.
        cbn [map increasing_from] in Hs. apply andb_true_iff in Hs. destruct Hs as [_ Hs].
        assert (Hin : In x (filter (fun x0 => fst x0 <=? hi) W)) by (eapply subseq_in; eauto; left; reflexivity).
        apply filter_In in Hin. destruct Hin as [Hin _]. apply (in_map fst) in Hin.
        pose proof (increasing_from_lower _ _ _ Hs Hin). lia.
      * intros Hu. destruct (fi_walk_prefix (x :: W) hi (is16 (snd x)) (out_size - 2)) as [rest Hr].
        { intros y [<-|Hy] Hy2; [reflexivity|]. apply Hu. apply filter_In. split; auto. lia. }
        rewrite HR in Hr. cbn [filter] in Hr. rewrite Ex in Hr. cbn [app] in Hr. inversion Hr as [Hr']. exists rest. exact Hr'.
    + rewrite (matching_info_empty c lo hi x W) by (auto; lia). exact H.
Qed.

(* ---- a client enumerating all attributes with Find Information: exact if all types are 16 bit uuids *)
Definition fi_responder (c : cfg) (out_size lo hi : N) : option (list N * N) :=
  match from_handle lo (table c) with
  | x :: W =>
      if fst x <=? hi then
        let hs := map fst (fi_walk (x :: W) hi (is16 (snd x)) (out_size - 2)) in Some (hs, last hs 0)
      else None
  | [] => None
  end.

Theorem fi_discover_all c out_size hi :
  wf c -> no_includes c -> 23 <= out_size ->
  (forall x, In x (table c) -> is16 (snd x) = true) ->
  forall lo, 1 <= lo ->
    discover_all (S (length (assign c))) (fi_responder c out_size) lo hi = hrange (assign c) lo hi.
Proof.
  intros Hw Hn Ho Hu lo Hlo.
  assert (Hm : forall lo', hrange (assign c) lo' hi = map fst (matching c KInfo lo' hi)).
  { intros lo'. unfold hrange, matching. rewrite <- (table_handles c Hw Hn).
    rewrite <- (map_filter_fst (in_range lo' hi)). f_equal. apply filter_ext_in'. intros x _. cbn [type_matches]. rewrite andb_true_r. reflexivity. }
  apply discover_all_enumerates; auto.
  - apply assign_increasing.
  - intros h Hh. pose proof (assign_upper c h Hw Hn Hh). lia.
  - intros lo' Hl1 Hl2. unfold fi_responder. rewrite Hm.
    destruct (from_handle lo' (table c)) as [|x W] eqn:Ef.
    + rewrite matching_info, Ef. reflexivity.
    + destruct (fst x <=? hi) eqn:Ex.
      * destruct (fi_walk_head x W hi (out_size - 2) ltac:(lia) ltac:(lia)) as [R HR]. rewrite HR. cbv zeta.
        destruct (fi_walk_prefix (x :: W) hi (is16 (snd x)) (out_size - 2)) as [rest Hr].
        { intros y Hy _. assert (In y (table c)).
          { assert (X : In y (from_handle lo' (table c))) by (rewrite Ef; exact Hy). apply filter_In in X. tauto. }
          rewrite (Hu y) by auto. symmetry. apply Hu.
          assert (X : In x (from_handle lo' (table c))) by (rewrite Ef; left; reflexivity). apply filter_In in X. tauto. }
        rewrite HR in Hr. rewrite matching_info, Ef, Hr.
        repeat split; [discriminate|lia|intros; lia|].
        exists (map fst rest). rewrite map_app. reflexivity.
      * rewrite (matching_info_empty c lo' hi x W) by (auto; lia). reflexivity.
  - assert (length (hrange (assign c) lo hi) <= length (assign c))%nat by apply filter_len_le. lia.
Qed.

(* ================================================================== Part D3: Read By Type *)
From BT Require AttSrv.AttSrvProofsC01.

(* the type filter of the request against the types of the declaration *)
Lemma filter16_matches u a : u <> internal_128bit_uuid -> uuid_filter_match (F16 u) a = type_matches (KType (U16 u)) (erase a).
Proof.
  intros Hu. rewrite erase_matches. cbn [uuid_filter_match type_matches].
  destruct (attr_uuid a =? internal_128bit_uuid) eqn:E.
  - apply N.eqb_eq in E. rewrite andb_false_r. symmetry.
    destruct a as [| | |s ch g k| | |]; cbn [attr_type attr_uuid uuid_eqb] in *; try (apply N.eqb_neq; lia).
    destruct (c_uuid ch); [apply N.eqb_neq; lia|reflexivity].
  - rewrite andb_true_r. destruct a as [| | |s ch g k| | |]; cbn [attr_type attr_uuid uuid_eqb] in *; try apply N.eqb_sym.
    destruct (c_uuid ch); [apply N.eqb_sym|discriminate E].
Qed.

Lemma filter128_matches bytes a : uuid_filter_match (F128 bytes) a = type_matches (KType (U128 bytes)) (erase a).
Proof.
  rewrite erase_matches. cbn [uuid_filter_match type_matches].
  destruct a as [| | |s ch g k| | |]; cbn [attr_type uuid_eqb]; try reflexivity; destruct (c_uuid ch); reflexivity.
Qed.

Definition ebytes (e : N * list N) : list N := le16 (fst e) ++ snd e.

(* what collect_attributes has gathered: entries of one size *)
Definition col_inv (k : collect) (E : list (N * list N)) : Prop :=
  2 <= co_cur k /\ seg 2 (co_cur k) (co_buf k) = flat_map ebytes E
  /\ (co_first k = true -> E = []) /\ (co_first k = false -> E <> [] /\ co_size k <= 255)
  /\ (forall x, In x E -> len (snd x) + 2 = co_size k).

Lemma collect_attribute_step c st cid k e index a st' k' E :
  collect_attribute c st cid k e index a = Some (st', k') ->
  col_inv k E -> co_cur k <= e -> e <= len (co_buf k) ->
  co_cur k' <= e /\ len (co_buf k') = len (co_buf k)
  /\ (col_inv k' E \/ exists d, col_inv k' (E ++ [(handle_by_index c index, d)])).
Proof.
  intros H Hinv Hc He.
  assert (Hsame : co_cur k <= e /\ len (co_buf k) = len (co_buf k)
                  /\ (col_inv k E \/ exists d, col_inv k (E ++ [(handle_by_index c index, d)]))) by (repeat split; auto).
  destruct Hinv as (I1 & I2 & I3 & I4 & I5). unfold collect_attribute in H.
  destruct (2 <=? e - co_cur k) eqn:E2; [|inversion H; subst; exact Hsame].
  cbv zeta in H. destruct (access_read c st cid a index 0 _) as [[[st1 rc] d]|] eqn:Ea; [|discriminate].
  destruct rc; [|inversion H; subst; exact Hsame|inversion H; subst; exact Hsame].
  destruct (253 <? len d) eqn:E253; [discriminate|].
  pose proof (AttSrvProofsC01.access_read_len _ _ _ _ _ _ _ _ _ _ Ea) as Hd.
  destruct (put (co_buf k) (co_cur k + 2) d) as [b1|] eqn:P1; [|discriminate].
  pose proof (put_length _ _ _ _ P1) as L1. pose proof (put_bound _ _ _ _ P1) as B1.
  assert (Hmod : (len d + 2) mod 256 = len d + 2) by (apply N.mod_small; lia).
  assert (Hmod' : len d mod 256 = len d) by (apply N.mod_small; lia).
  destruct (len d + 2 =? (if co_first k then (len d + 2) mod 256 else co_size k)) eqn:Es.
  - destruct (put b1 (co_cur k) (le16 (handle_by_index c index))) as [b2|] eqn:P2; [|discriminate].
    inversion H; subst st' k'; clear H. cbn [co_cur co_buf co_first co_size].
    pose proof (put_length _ _ _ _ P2) as L2. rewrite Hmod'.
    split; [lia|]. split; [lia|]. right. exists d. unfold col_inv. cbn [co_cur co_buf co_first co_size].
    split; [lia|]. split; [|split; [intros X; discriminate X|split]].
    + rewrite flat_map_app. cbn [flat_map]. rewrite app_nil_r. unfold ebytes at 2. cbn [fst snd].
      rewrite (seg_app 2 (co_cur k)) by lia. rewrite (seg_app (co_cur k) (co_cur k + 2)) by lia.
      rewrite (seg_put_other _ _ _ _ 2 (co_cur k) P2) by lia.
      rewrite (seg_put_other _ _ _ _ 2 (co_cur k) P1) by lia. rewrite I2. f_equal.
      replace (co_cur k + 2) with (co_cur k + len (le16 (handle_by_index c index))) at 1 by (rewrite le16_len; lia).
      rewrite (seg_put_self _ _ _ _ P2). f_equal.
      rewrite (seg_put_other _ _ _ _ (co_cur k + 2) (co_cur k + 2 + len d) P2) by (rewrite le16_len; lia).
      apply (seg_put_self _ _ _ _ P1).
    + intros _. split; [destruct E; discriminate|].
      destruct (co_first k) eqn:Ef; [rewrite Hmod; lia|]. destruct (I4 eq_refl). lia.
    + intros x Hx. apply in_app_or in Hx. destruct Hx as [Hx|[<-|[]]].
      * rewrite (I5 x Hx). destruct (co_first k) eqn:Ef; [rewrite (I3 eq_refl) in Hx; destruct Hx|reflexivity].
      * cbn [snd]. destruct (co_first k); [rewrite Hmod; reflexivity|lia].
  - inversion H; subst st' k'; clear H. cbn [co_cur co_buf].
    split; [lia|]. split; [lia|]. left. unfold col_inv. cbn [co_cur co_buf co_first co_size].
    assert (Hnf : co_first k = false) by (destruct (co_first k); [lia|reflexivity]). rewrite Hnf in *.
    destruct (I4 eq_refl) as [X Y].
    split; [lia|]. split; [|split; [intros Z; discriminate Z|split; [intros _; split; assumption|exact I5]]].
    rewrite (seg_put_other _ _ _ _ 2 (co_cur k) P1) by lia. exact I2.
Qed.

Lemma attribute_at_beyond c i : number_of_attributes c <= i -> attribute_at c i = None.
Proof.
  intros H. pose proof (attribute_at_decl c i) as X. pose proof (decl_attrs_len c) as L. unfold len in L.
  assert (E : nth_error (decl_attrs c) (N.to_nat i) = None) by (apply nth_error_None; lia).
  rewrite E in X. destruct (attribute_at c i); [discriminate X|reflexivity].
Qed.

Lemma aa_loop c cid f e last eh ty : wf c -> no_includes c ->
  (forall a, uuid_filter_match f a = type_matches (KType ty) (erase a)) ->
  forall fuel st k index st' k' E,
  col_inv k E -> co_cur k <= e -> e <= len (co_buf k) ->
  all_attributes fuel c st cid f k e index last eh = Some (st', k') ->
  exists E', col_inv k' (E ++ E') /\ co_cur k' <= e /\ len (co_buf k') = len (co_buf k)
    /\ subseq (map fst E') (map fst (filter (fun x => (fst x <=? eh) && type_matches (KType ty) (snd x)) (skipn (N.to_nat index) (table c)))).
Proof.
  intros Hw Hn Hf. induction fuel as [|n IH]; intros st k index st' k' E Hinv Hc He H; cbn [all_attributes] in H.
  - inversion H; subst. exists []. rewrite app_nil_r. cbn [map].
    split; [exact Hinv|split; [exact Hc|split; [reflexivity|apply sub_nil]]].
  - destruct ((index <=? last) && (handle_by_index c index <=? eh)) eqn:Ec.
    + destruct (index <? number_of_attributes c) eqn:Ei.
      * destruct (table_step c index Hw Hn ltac:(lia)) as (a & Ha & Hsk & Hin). rewrite Ha in H. rewrite Hsk.
        cbn [filter fst snd]. rewrite <- Hf. apply andb_true_iff in Ec. destruct Ec as [_ Ec]. rewrite Ec. cbn [andb].
        destruct (uuid_filter_match f a) eqn:Em.
        -- destruct (collect_attribute c st cid k e index a) as [[st1 k1]|] eqn:Eca; [|discriminate].
           apply (collect_attribute_step _ _ _ _ _ _ _ _ _ E) in Eca; auto. destruct Eca as (C1 & C2 & C3).
           destruct C3 as [C3|[d C3]].
           ++ apply (IH _ _ _ _ _ _ C3) in H; try lia. destruct H as (E' & I1 & I2 & I3 & I4).
              exists E'. split; [exact I1|split; [exact I2|split; [lia|]]]. cbn [map]. apply sub_skip. exact I4.
           ++ apply (IH _ _ _ _ _ _ C3) in H; try lia. destruct H as (E' & I1 & I2 & I3 & I4).
              exists ((handle_by_index c index, d) :: E'). rewrite <- app_assoc in I1. cbn [app] in I1.
              split; [exact I1|split; [exact I2|split; [lia|]]]. cbn [map fst]. apply sub_take. exact I4.
        -- apply (IH _ _ _ _ _ _ Hinv) in H; auto.
      * rewrite attribute_at_beyond in H by lia. discriminate H.
    + inversion H; subst. exists []. rewrite app_nil_r. cbn [map].
      split; [exact Hinv|split; [exact Hc|split; [reflexivity|apply sub_nil]]].
Qed.

(* the type field of the request and the filter the code builds from it *)
Lemma make_filter_spec a0 a1 x0 x1 tyb ty :
  req_type tyb = Some ty -> ty <> U16 internal_128bit_uuid ->
  let pdu := 8 :: a0 :: a1 :: x0 :: x1 :: tyb in
  (len pdu = 7 \/ len pdu = 21)
  /\ exists f, make_uuid_filter pdu (len pdu =? 21) = Some f
               /\ forall a, uuid_filter_match f a = type_matches (KType ty) (erase a).
Proof.
  intros Hr Hne. cbv zeta. unfold req_type in Hr.
  destruct tyb as [|p [|q [|r0 t]]]; try discriminate Hr.
  - inversion Hr; subst ty. split; [left; reflexivity|].
    exists (F16 (w16 p q)). split; [reflexivity|]. intros a. apply filter16_matches. intros X. apply Hne. rewrite X. reflexivity.
  - destruct (length (p :: q :: r0 :: t) =? 16)%nat eqn:El; [|discriminate Hr]. apply Nat.eqb_eq in El.
    do 13 (destruct t as [|? t]; [discriminate El|]). destruct t; [|discriminate El].
    split; [right; reflexivity|].
    cbn [firstn nth] in Hr. unfold make_uuid_filter.
    change (len [8; a0; a1; x0; x1; p; q; r0; n; n0; n1; n2; n3; n4; n5; n6; n7; n8; n9; n10; n11] =? 21) with true. cbv iota.
    change (slice [8; a0; a1; x0; x1; p; q; r0; n; n0; n1; n2; n3; n4; n5; n6; n7; n8; n9; n10; n11] 5 21)
      with (Some [p; q; r0; n; n0; n1; n2; n3; n4; n5; n6; n7; n8; n9; n10; n11]).
    cbv beta iota. change (takeN 12 [p; q; r0; n; n0; n1; n2; n3; n4; n5; n6; n7; n8; n9; n10; n11]) with [p; q; r0; n; n0; n1; n2; n3; n4; n5; n6; n7].
    cbn [nth].
    destruct (bytes_eqb [p; q; r0; n; n0; n1; n2; n3; n4; n5; n6; n7] base_uuid_prefix && (n10 =? 0) && (n11 =? 0)).
    + inversion Hr; subst ty.
      change (rd16 [8; a0; a1; x0; x1; p; q; r0; n; n0; n1; n2; n3; n4; n5; n6; n7; n8; n9; n10; n11] 17) with (Some (n8 + 256 * n9)).
      exists (F16 (w16 n8 n9)). split; [reflexivity|]. intros a. apply filter16_matches. intros X. apply Hne. rewrite X. reflexivity.
    + inversion Hr; subst ty. eexists. split; [reflexivity|]. intros a. apply filter128_matches.
Qed.

Lemma rd_prefix5 a0 a1 a2 a3 a4 (t : list N) :
  let pdu := a0 :: a1 :: a2 :: a3 :: a4 :: t in
  rd pdu 0 = Some a0 /\ rd16 pdu 1 = Some (a1 + 256 * a2) /\ rd16 pdu 3 = Some (a3 + 256 * a4).
Proof.
  cbv zeta. unfold rd16, rd.
  assert (H : 5 <= len (a0 :: a1 :: a2 :: a3 :: a4 :: t)) by (unfold len; cbn [length]; lia).
  replace (0 <? len (a0 :: a1 :: a2 :: a3 :: a4 :: t)) with true by lia.
  replace (1 <? len (a0 :: a1 :: a2 :: a3 :: a4 :: t)) with true by lia.
  replace (1 + 1 <? len (a0 :: a1 :: a2 :: a3 :: a4 :: t)) with true by lia.
  replace (3 <? len (a0 :: a1 :: a2 :: a3 :: a4 :: t)) with true by lia.
  replace (3 + 1 <? len (a0 :: a1 :: a2 :: a3 :: a4 :: t)) with true by lia.
  repeat split; reflexivity.
Qed.

Lemma matching_type c ty lo hi :
  matching c (KType ty) lo hi
  = filter (fun x => (fst x <=? hi) && type_matches (KType ty) (snd x)) (from_handle lo (table c)).
Proof.
  unfold matching, from_handle. rewrite filter_filter. apply filter_ext_in'. intros x _. unfold in_range.
  destruct (lo <=? fst x), (fst x <=? hi); reflexivity.
Qed.

Lemma subseq_nil_r {A : Type} (l : list A) : subseq l [] -> l = [].
Proof. intros H. inversion H. reflexivity. Qed.

(* C02 for Read By Type, what holds of the code as it is: the response is Attribute Not Found, or it holds a
   non-empty list of entries of one size whose handles are a SUBSEQUENCE of the handles of the matching
   attributes (in range, of the requested type, ascending, each at most once). Hence Attribute Not Found
   whenever nothing matches. Stated for out_size <= 257 (above, collect_attributes::size() truncates: C01) *)
Theorem read_by_type_partial c st cid a0 a1 x0 x1 tyb ty b out_size st' r :
  wf c -> no_includes c ->
  a0 < 256 -> a1 < 256 -> x0 < 256 -> x1 < 256 ->
  req_type tyb = Some ty -> ty <> U16 internal_128bit_uuid ->
  let lo := w16 a0 a1 in let hi := w16 x0 x1 in
  1 <= lo -> lo <= hi -> 23 <= out_size -> out_size <= 257 -> out_size <= len b ->
  handle_read_by_type c st cid (8 :: a0 :: a1 :: x0 :: x1 :: tyb) b out_size = Some (st', r) ->
  (snd r = 5 /\ seg 0 5 (fst r) = [1; 8; a0; a1; 10])
  \/ (exists E sz, E <> [] /\ subseq (map fst E) (map fst (matching c (KType ty) lo hi))
        /\ (forall x, In x E -> len (snd x) + 2 = sz)
        /\ snd r <= out_size /\ snd r <= len (fst r)
        /\ seg 0 (snd r) (fst r) = 9 :: sz :: flat_map ebytes E).
Proof.
  intros Hw Hn Ha0 Ha1 Hx0 Hx1 Hty Hne lo hi Hlo Hhi Ho Ho2 Hb H.
  destruct (make_filter_spec a0 a1 x0 x1 tyb ty Hty Hne) as (Hlen & f & Hmk & Hf). cbv zeta in Hlen, Hmk.
  unfold handle_read_by_type, check_size_and_handle_range in H.
  destruct (rd_prefix5 8 a0 a1 x0 x1 tyb) as (R0 & R1 & R3). cbv zeta in R0, R1, R3.
  set (pdu := 8 :: a0 :: a1 :: x0 :: x1 :: tyb) in *.
  rewrite R0 in H. cbv iota beta in H.
  replace (negb (len pdu =? 7) && negb (len pdu =? 21)) with false in H by (destruct Hlen as [-> | ->]; reflexivity).
  rewrite R1, R3 in H. cbv iota beta in H. fold (w16 a0 a1) in H. fold (w16 x0 x1) in H. fold lo in H. fold hi in H.
  replace ((lo =? 0) || (hi <? lo)) with false in H by lia.
  destruct (from_first_index c lo Hw Hn) as [F1 F2].
  destruct (first_index_by_handle c lo =? invalid_index) eqn:Efi.
  - destruct (error_response 8 err_attribute_not_found lo b out_size) as [r'|] eqn:Ee; [|discriminate].
    inversion H; subst st' r'. apply error_response_bytes in Ee; auto; [|lia]. left. tauto.
  - apply N.eqb_neq in Efi. destruct (F2 Efi) as [F3 F4].
    rewrite Hmk in H. cbv iota beta in H.
    destruct (all_attributes _ c st cid f _ out_size _ _ hi) as [[st1 k]|] eqn:Ea; [|discriminate].
    apply (aa_loop c cid f out_size _ hi ty Hw Hn Hf _ _ _ _ _ _ []) in Ea; cbn [co_cur co_buf]; try lia.
    2:{ unfold col_inv. cbn [co_cur co_buf co_first co_size]. rewrite seg_nil.
        split; [lia|]. split; [reflexivity|]. split; [reflexivity|]. split; [intros X; discriminate X|intros x []]. }
    destruct Ea as (E & I1 & I2 & I3 & I4). cbn [app] in I1. cbn [co_buf co_cur] in I2, I3. rewrite F4, <- matching_type in I4.
    destruct I1 as (J1 & J2 & J3 & J4 & J5).
    destruct (co_cur k =? 2) eqn:E2.
    + cbn [negb] in H. destruct (error_response 8 err_attribute_not_found lo (co_buf k) out_size) as [r'|] eqn:Ee; [|discriminate].
      inversion H; subst st' r'. apply error_response_bytes in Ee; auto; [|lia]. left. tauto.
    + cbn [negb] in H. apply N.eqb_neq in E2.
      destruct (put (co_buf k) 0 [9; co_size k]) as [b1|] eqn:Ep; [|discriminate].
      apply AttSrvProofsC01.some_inj in H. apply AttSrvProofsC01.pair_inj in H. destruct H as [<- <-].
      cbn [fst snd]. pose proof (put_length _ _ _ _ Ep) as Lp.
      rewrite N.mod_small by lia. replace (2 + (co_cur k - 2)) with (co_cur k) by lia.
      right. exists E, (co_size k).
      assert (HE : E <> []).
      { intros ->. cbn [flat_map] in J2. assert (X : len (seg 2 (co_cur k) (co_buf k)) = 0) by (rewrite J2; reflexivity).
        rewrite seg_len in X. lia. }
      split; [exact HE|]. split; [exact I4|]. split; [exact J5|]. split; [lia|]. split; [lia|].
      rewrite (seg_app 0 2) by lia. rewrite (seg_put_other _ _ _ _ 2 (co_cur k) Ep) by (unfold len; cbn; lia).
      rewrite J2. pose proof (seg_put_self _ _ _ _ Ep) as X. change (0 + len [9; co_size k]) with 2 in X. rewrite X. reflexivity.
Qed.

Corollary read_by_type_not_found_if_none c st cid a0 a1 x0 x1 tyb ty b out_size st' r :
  wf c -> no_includes c ->
  a0 < 256 -> a1 < 256 -> x0 < 256 -> x1 < 256 ->
  req_type tyb = Some ty -> ty <> U16 internal_128bit_uuid ->
  1 <= w16 a0 a1 -> w16 a0 a1 <= w16 x0 x1 -> 23 <= out_size -> out_size <= 257 -> out_size <= len b ->
  handle_read_by_type c st cid (8 :: a0 :: a1 :: x0 :: x1 :: tyb) b out_size = Some (st', r) ->
  matching c (KType ty) (w16 a0 a1) (w16 x0 x1) = [] ->
  snd r = 5 /\ seg 0 5 (fst r) = [1; 8; a0; a1; 10].
Proof.
  intros Hw Hn Ha0 Ha1 Hx0 Hx1 Hty Hne Hlo Hhi Ho Ho2 Hb H Hm.
  destruct (read_by_type_partial c st cid a0 a1 x0 x1 tyb ty b out_size st' r) as [X|(E & sz & X1 & X2 & _)]; auto.
  rewrite Hm in X2. cbn [map] in X2. apply subseq_nil_r in X2. destruct E; [congruence|discriminate X2].
Qed.

(* ================================================================== what "subsequence / prefix of matching" gives *)
Lemma matching_sound c k lo hi x :
  In x (matching c k lo hi) -> In x (table c) /\ in_range lo hi (fst x) = true /\ type_matches k (snd x) = true.
Proof.
  unfold matching. intros H. apply filter_In in H. destruct H as [H1 H2]. apply andb_true_iff in H2. tauto.
Qed.

Lemma matching_sorted c k lo hi : wf c -> no_includes c -> increasing_from 0 (map fst (matching c k lo hi)) = true.
Proof.
  intros Hw Hn. unfold matching.
  assert (G : forall (f : N * attr -> bool) T p, increasing_from p (map fst T) = true -> increasing_from p (map fst (filter f T)) = true).
  { intros f T. induction T as [|x t IH]; intros p H; cbn [filter map increasing_from] in *; auto.
    apply andb_true_iff in H. destruct H as [H1 H2]. destruct (f x); cbn [map increasing_from].
    - rewrite H1. cbn [andb]. auto.
    - apply IH. apply (increasing_from_weaken (fst x)); [lia|auto]. }
  apply G. apply table_sorted; auto.
Qed.

(* handles that are a subsequence of the matching handles: all in range, of the type, strictly ascending *)
Lemma subseq_of_matching c k lo hi hs :
  wf c -> no_includes c -> subseq hs (map fst (matching c k lo hi)) ->
  increasing_from 0 hs = true
  /\ forall h, In h hs -> in_range lo hi h = true /\ exists a, In (h, a) (table c) /\ type_matches k a = true.
Proof.
  intros Hw Hn Hs. split; [eapply subseq_increasing; eauto; apply matching_sorted; auto|].
  intros h Hh. pose proof (subseq_in _ _ _ Hs Hh) as X. apply in_map_iff in X. destruct X as [[h' a] [E X]]. cbn [fst] in E. subst h'.
  destruct (matching_sound _ _ _ _ _ X) as (X1 & X2 & X3). cbn [fst snd] in *. split; auto. exists a. auto.
Qed.

(* ================================================================== Part D3': Read By Type answers if a readable attribute matches *)
Definition is_chardecl (a : attr) : bool := match a with ACharDecl _ _ => true | _ => false end.
Definition decl_succ (l : list attr) : Prop := forall j, match nth_error l j with Some a => is_chardecl a = true -> (S j < length l)%nat | None => True end.

Lemma decl_succ_app l1 l2 : decl_succ l1 -> decl_succ l2 -> decl_succ (l1 ++ l2).
Proof.
  intros H1 H2 j. destruct (Nat.lt_ge_cases j (length l1)) as [Hlt|Hge].
  - rewrite nth_error_app1 by lia. specialize (H1 j). destruct (nth_error l1 j); auto. intros X. specialize (H1 X). rewrite app_length. lia.
  - rewrite nth_error_app2 by lia. specialize (H2 (j - length l1)%nat). destruct (nth_error l2 (j - length l1)); auto.
    intros X. specialize (H2 X). rewrite app_length. lia.
Qed.

Lemma decl_succ_none l : (forall a, In a l -> is_chardecl a = false) -> decl_succ l.
Proof. intros H j. destruct (nth_error l j) eqn:E; auto. apply nth_error_In in E. rewrite (H _ E). discriminate. Qed.

Lemma char_tail_no_decl s ch cci a : In a (char_tail_attrs s ch cci) -> is_chardecl a = false.
Proof.
  unfold char_tail_attrs. intros H.
  apply in_app_or in H. destruct H as [H|H]; [destruct (has_cccd ch); [destruct H as [<-|[]]; reflexivity|destruct H]|].
  apply in_app_or in H. destruct H as [H|H]; [destruct (c_name ch); [destruct H as [<-|[]]; reflexivity|destruct H]|].
  apply in_map_iff in H. destruct H as [d [<- _]]. reflexivity.
Qed.

Lemma decl_attrs_succ c : decl_succ (decl_attrs c).
Proof.
  unfold decl_attrs. induction (services c) as [|s t IH]; cbn [flat_map]; [intros j; destruct j; exact I|].
  apply decl_succ_app; auto. unfold svc_decl_attrs.
  change (AService s :: map AInclude (s_includes s) ++ flat_map (fun ch => char_attrs s ch O 0) (s_chars s))
    with ((AService s :: map AInclude (s_includes s)) ++ flat_map (fun ch => char_attrs s ch O 0) (s_chars s)).
  apply decl_succ_app.
  - apply decl_succ_none. intros a [<-|H]; [reflexivity|]. apply in_map_iff in H. destruct H as [u [<- _]]. reflexivity.
  - induction (s_chars s) as [|ch cs IHc]; cbn [flat_map]; [intros j; destruct j; exact I|].
    apply decl_succ_app; auto. intros j. unfold char_attrs. destruct j as [|[|j]]; cbn [nth_error length].
    + intros _. lia.
    + intros X. discriminate X.
    + destruct (nth_error (char_tail_attrs s ch 0) j) eqn:E; auto. apply nth_error_In in E. rewrite (char_tail_no_decl _ _ _ _ E). discriminate.
Qed.

Lemma chardecl_has_value c i s ch : attribute_at c i = Some (ACharDecl s ch) -> i + 1 < number_of_attributes c.
Proof.
  intros H. pose proof (attribute_at_decl c i) as X. rewrite H in X. cbn [option_map erase] in X.
  pose proof (decl_attrs_succ c (N.to_nat i)) as Y. rewrite <- X in Y. specialize (Y eq_refl).
  pose proof (decl_attrs_len c) as L. unfold len in L. lia.
Qed.

(* a readable attribute is read successfully, in every state of every connection *)
Lemma access_read_readable c st cid k a index maxlen :
  wf c -> no_includes c -> attribute_at c index = Some a -> readable c (erase a) = true -> get_conn st cid = Some k ->
  exists st' d, access_read c st cid a index 0 maxlen = Some (st', Success, d) /\ conns st' = conns st.
Proof.
  intros Hw Hn Ha Hr Hk. unfold access_read. rewrite Hk.
  assert (Hm : forall mem, mem_read mem 0 maxlen = (Success, takeN (N.min maxlen (len mem - 0)) (dropN 0 mem))).
  { intros mem. unfold mem_read. replace (len mem <? 0) with false by lia. reflexivity. }
  destruct a as [s|u|s ch|s ch g cci|s ch cci|nm|u v]; cbn [erase readable] in Hr.
  - rewrite Hm. eauto.
  - rewrite Hm. eauto.
  - pose proof (chardecl_has_value c index s ch Ha) as Hi. unfold char_decl_value. cbv zeta.
    destruct (index_by_handle_inverse c (index + 1) Hw Hn Hi) as [_ Hh].
    replace (handle_by_index c (index + 1) =? invalid_handle) with false by (symmetry; apply N.eqb_neq; exact Hh).
    rewrite Hm. eauto.
  - apply andb_true_iff in Hr. destruct Hr as [Hr1 Hr2]. apply negb_true_iff in Hr1.
    unfold value_read. rewrite Hr1. cbn [security_check negb fst snd].
    destruct (c_value ch) as [sz cst|sz v|bs|sz hrd hwr blob].
    + apply negb_true_iff in Hr2. rewrite Hr2, Hm. eauto.
    + apply negb_true_iff in Hr2. rewrite Hr2, Hm. eauto.
    + rewrite Hm. eauto.
    + rewrite Hr2. cbn [negb]. rewrite N.eqb_refl. cbn [negb]. rewrite andb_false_r. rewrite Hm.
      eexists _, _. split; [reflexivity|]. unfold log_call, set_hlogs. reflexivity.
  - apply negb_true_iff in Hr. rewrite Hr. cbn [security_check negb fst snd]. rewrite Hm. eauto.
  - rewrite Hm. eauto.
  - rewrite Hm. eauto.
Qed.

Lemma access_read_conns c st cid a index off maxlen st' r d :
  access_read c st cid a index off maxlen = Some (st', r, d) -> conns st' = conns st.
Proof.
  unfold access_read. destruct (get_conn st cid) as [k|]; [|discriminate]. cbv zeta.
  destruct a as [s|u|s ch|s ch g cci|s ch cci|nm|u v].
  - destruct (mem_read _ _ _). intros H; inversion H; reflexivity.
  - destruct (mem_read _ _ _). intros H; inversion H; reflexivity.
  - destruct (char_decl_value c ch index); [|discriminate]. destruct (mem_read _ _ _). intros H; inversion H; reflexivity.
  - unfold value_read. destruct (security_check _ _ _); try (intros H; inversion H; reflexivity).
    destruct (c_value ch).
    + destruct (c_no_read ch); [intros H; inversion H; reflexivity|]. destruct (mem_read _ _ _). intros H; inversion H; reflexivity.
    + destruct (c_no_read ch); [intros H; inversion H; reflexivity|]. destruct (mem_read _ _ _). intros H; inversion H; reflexivity.
    + destruct (mem_read _ _ _). intros H; inversion H; reflexivity.
    + destruct (negb rd); [intros H; inversion H; reflexivity|].
      destruct (negb blob && negb (off =? 0)); [intros H; inversion H; reflexivity|].
      destruct (mem_read _ _ _). intros H; inversion H; reflexivity.
  - destruct (security_check _ _ _); try (intros H; inversion H; reflexivity).
    destruct (mem_read _ _ _). intros H; inversion H; reflexivity.
  - destruct (mem_read _ _ _). intros H; inversion H; reflexivity.
  - destruct (mem_read _ _ _). intros H; inversion H; reflexivity.
Qed.

Lemma get_conn_conns st st' cid : conns st' = conns st -> get_conn st' cid = get_conn st cid.
Proof. unfold get_conn. intros ->. reflexivity. Qed.

(* one attribute: the collector keeps "something collected"; a successful read is collected if nothing was *)
Lemma collect_attribute_first c st cid k e index a st' k' :
  collect_attribute c st cid k e index a = Some (st', k') ->
  conns st' = conns st
  /\ (co_first k = false -> co_first k' = false)
  /\ (co_first k' = true -> co_cur k' = co_cur k)
  /\ (co_first k = true -> co_cur k + 2 <= e ->
      (exists st1 d, access_read c st cid a index 0 (N.min (e - co_cur k) 255 - 2) = Some (st1, Success, d)) -> co_first k' = false).
Proof.
  unfold collect_attribute. intros H.
  destruct (2 <=? e - co_cur k) eqn:E2.
  - cbv zeta in H. destruct (access_read c st cid a index 0 _) as [[[st1 rc] d]|] eqn:Ea; [|discriminate].
    pose proof (access_read_conns _ _ _ _ _ _ _ _ _ _ Ea) as Hc.
    destruct rc.
    + destruct (253 <? len d); [discriminate|]. destruct (put (co_buf k) (co_cur k + 2) d) as [b1|]; [|discriminate].
      destruct (len d + 2 =? _); [destruct (put b1 (co_cur k) _); [|discriminate]|]; inversion H; subst st' k'; cbn [co_first co_cur];
        repeat split; auto; intros X; discriminate X.
    + inversion H; subst st' k'. repeat split; auto. intros _ _ (s1 & d1 & X). discriminate X.
    + inversion H; subst st' k'. repeat split; auto. intros _ _ (s1 & d1 & X). discriminate X.
  - inversion H; subst st' k'. repeat split; auto. intros _ X. lia.
Qed.

Lemma increasing_nth_lt p l i j : increasing_from p l = true -> (i < j)%nat -> (j < length l)%nat -> nth i l 0 < nth j l 0.
Proof.
  revert p i j; induction l as [|x t IH]; intros p i j H Hij Hj; cbn [length] in Hj; [lia|].
  cbn [increasing_from] in H. apply andb_true_iff in H. destruct H as [H1 H2].
  destruct j as [|j]; [lia|]. destruct i as [|i]; cbn [nth].
  - apply (increasing_from_lower x t); auto. apply nth_In. lia.
  - apply (IH x); auto; lia.
Qed.

(* the last index of the Read By Type scan does not cut off an attribute at or in front of the ending handle *)
Lemma last_index_covers c eh index :
  wf c -> no_includes c -> index < number_of_attributes c -> handle_by_index c index <= eh ->
  index <= last_handle_index c eh.
Proof.
  intros Hw Hn Hi Hh. unfold last_handle_index. cbv zeta.
  destruct (first_index_by_handle c eh =? invalid_index) eqn:E; [lia|]. apply N.eqb_neq in E.
  destruct (N.le_gt_cases index (first_index_by_handle c eh)) as [|Hgt]; [assumption|exfalso].
  (* the attribute in front of [index] would already be at or behind eh *)
  assert (Hp : index - 1 < number_of_attributes c) by lia.
  pose proof (idx_ge_iff c eh (index - 1) Hw Hn Hp) as X.
  replace (first_index_by_handle c eh =? invalid_index) with false in X by (symmetry; apply N.eqb_neq; exact E).
  replace (first_index_by_handle c eh <=? index - 1) with true in X by lia. cbn [negb andb] in X. symmetry in X. apply N.leb_le in X.
  rewrite !handle_by_index_nth in * by (auto; lia).
  pose proof (assign_length c Hw Hn) as Hl.
  assert (Hlt : nth (N.to_nat (index - 1)) (assign c) 0 < nth (N.to_nat index) (assign c) 0)
    by (apply (increasing_nth_lt 0); [apply assign_increasing|lia|lia]).
  lia.
Qed.

Lemma skipn_table_sorted c i x W :
  wf c -> no_includes c -> skipn i (table c) = x :: W -> forall y, In y W -> fst x < fst y.
Proof.
  intros Hw Hn Hsk y Hy. pose proof (table_sorted c Hw Hn) as Hs.
  rewrite <- (firstn_skipn i (table c)), Hsk, map_app in Hs. apply increasing_from_app in Hs. destruct Hs as [_ Hs].
  cbn [map increasing_from] in Hs. apply andb_true_iff in Hs. destruct Hs as [_ Hs].
  apply (increasing_from_lower _ _ _ Hs). apply in_map. exact Hy.
Qed.

Definition wanted_readable (c : cfg) (ty : uuid) (eh : N) (x : N * attr) : bool :=
  (fst x <=? eh) && type_matches (KType ty) (snd x) && readable c (snd x).

Lemma aa_answers c cid f e eh ty : wf c -> no_includes c ->
  (forall a, uuid_filter_match f a = type_matches (KType ty) (erase a)) ->
  forall fuel st k index st' k' kk,
  all_attributes fuel c st cid f k e index (last_handle_index c eh) eh = Some (st', k') ->
  get_conn st cid = Some kk ->
  (N.to_nat (number_of_attributes c - index) < fuel)%nat ->
  (co_first k = false -> co_first k' = false)
  /\ (co_first k = true -> co_cur k + 2 <= e ->
      existsb (wanted_readable c ty eh) (skipn (N.to_nat index) (table c)) = true -> co_first k' = false).
Proof.
  intros Hw Hn Hf. induction fuel as [|n IH]; intros st k index st' k' kk H Hk Hfu; [lia|].
  cbn [all_attributes] in H.
  destruct (index <? number_of_attributes c) eqn:Ei.
  - destruct (table_step c index Hw Hn ltac:(lia)) as (a & Ha & Hsk & Hin). rewrite Hsk. cbn [existsb].
    destruct ((index <=? last_handle_index c eh) && (handle_by_index c index <=? eh)) eqn:Ec.
    + rewrite Ha in H. apply andb_true_iff in Ec. destruct Ec as [_ Ec].
      destruct (uuid_filter_match f a) eqn:Em.
      * destruct (collect_attribute c st cid k e index a) as [[st1 k1]|] eqn:Eca; [|discriminate].
        destruct (collect_attribute_first _ _ _ _ _ _ _ _ _ Eca) as (C1 & C2 & C3 & C4).
        assert (Hk1 : get_conn st1 cid = Some kk) by (rewrite (get_conn_conns _ _ _ C1); exact Hk).
        destruct (IH _ _ _ _ _ _ H Hk1 ltac:(lia)) as [I1 I2].
        split; [intros X; apply I1; apply C2; exact X|].
        intros Hfirst Hroom Hex.
        destruct (co_first k1) eqn:Ef1; [|apply I1; reflexivity].
        apply I2; [reflexivity|rewrite (C3 eq_refl); exact Hroom|].
        apply orb_true_iff in Hex. destruct Hex as [Hex|Hex]; [|exact Hex].
        (* this attribute is wanted and readable: it is collected *)
        exfalso. unfold wanted_readable in Hex. cbn [fst snd] in Hex.
        apply andb_true_iff in Hex. destruct Hex as [_ Hr].
        destruct (access_read_readable c st cid kk a index (N.min (e - co_cur k) 255 - 2) Hw Hn Ha Hr Hk) as (s2 & d & Hacc & _).
        assert (X : true = false) by (apply C4; auto; eexists _, _; exact Hacc). discriminate X.
      * destruct (IH _ _ _ _ _ _ H Hk ltac:(lia)) as [I1 I2]. split; [exact I1|].
        intros Hfirst Hroom Hex. apply I2; auto.
        apply orb_true_iff in Hex. destruct Hex as [Hex|Hex]; [|exact Hex].
        exfalso. unfold wanted_readable in Hex. cbn [fst snd] in Hex. rewrite <- Hf, Em in Hex. rewrite andb_false_r in Hex. discriminate Hex.
    + inversion H; subst st' k'. split; [auto|]. intros _ _ Hex. exfalso.
      (* the scan ends here: the handle lies behind the ending handle, and so do all later ones *)
      assert (Hgt : eh < handle_by_index c index).
      { apply andb_false_iff in Ec. destruct Ec as [Ec|Ec]; [|lia].
        destruct (handle_by_index c index <=? eh) eqn:E; [|lia].
        pose proof (last_index_covers c eh index Hw Hn ltac:(lia) ltac:(lia)). lia. }
      apply orb_true_iff in Hex. destruct Hex as [Hex|Hex].
      * unfold wanted_readable in Hex. cbn [fst] in Hex. replace (handle_by_index c index <=? eh) with false in Hex by lia. discriminate Hex.
      * apply existsb_exists in Hex. destruct Hex as [y [Hy1 Hy2]].
        pose proof (skipn_table_sorted c _ _ _ Hw Hn Hsk y Hy1) as Hlt. cbn [fst] in Hlt.
        unfold wanted_readable in Hy2. replace (fst y <=? eh) with false in Hy2 by lia. discriminate Hy2.
  - rewrite table_end by (auto; lia). cbn [existsb].
    destruct ((index <=? last_handle_index c eh) && (handle_by_index c index <=? eh)).
    + rewrite attribute_at_beyond in H by lia. discriminate H.
    + inversion H; subst st' k'. split; [auto|]. intros _ _ X. discriminate X.
Qed.

(* C02 (b) for Read By Type, second half: if a readable attribute matches, the response is a Read By Type
   Response (opcode 09), not Attribute Not Found *)
Theorem read_by_type_answers_readable c st cid kk a0 a1 x0 x1 tyb ty b out_size st' r :
  wf c -> no_includes c -> get_conn st cid = Some kk ->
  a0 < 256 -> a1 < 256 -> x0 < 256 -> x1 < 256 ->
  req_type tyb = Some ty -> ty <> U16 internal_128bit_uuid ->
  let lo := w16 a0 a1 in let hi := w16 x0 x1 in
  1 <= lo -> lo <= hi -> 23 <= out_size -> out_size <= len b ->
  handle_read_by_type c st cid (8 :: a0 :: a1 :: x0 :: x1 :: tyb) b out_size = Some (st', r) ->
  existsb (fun x => readable c (snd x)) (matching c (KType ty) lo hi) = true ->
  1 <= snd r /\ nth 0 (fst r) 0 = 9.
Proof.
  intros Hw Hn Hk Ha0 Ha1 Hx0 Hx1 Hty Hne lo hi Hlo Hhi Ho Hb H Hex.
  destruct (make_filter_spec a0 a1 x0 x1 tyb ty Hty Hne) as (Hlen & f & Hmk & Hf). cbv zeta in Hlen, Hmk.
  unfold handle_read_by_type, check_size_and_handle_range in H.
  destruct (rd_prefix5 8 a0 a1 x0 x1 tyb) as (R0 & R1 & R3). cbv zeta in R0, R1, R3.
  set (pdu := 8 :: a0 :: a1 :: x0 :: x1 :: tyb) in *.
  rewrite R0 in H. cbv iota beta in H.
  replace (negb (len pdu =? 7) && negb (len pdu =? 21)) with false in H by (destruct Hlen as [-> | ->]; reflexivity).
  rewrite R1, R3 in H. cbv iota beta in H. fold (w16 a0 a1) in H. fold (w16 x0 x1) in H. fold lo in H. fold hi in H.
  replace ((lo =? 0) || (hi <? lo)) with false in H by lia.
  destruct (from_first_index c lo Hw Hn) as [F1 F2].
  rewrite matching_type in Hex.
  assert (Hex' : existsb (wanted_readable c ty hi) (from_handle lo (table c)) = true).
  { apply existsb_exists in Hex. destruct Hex as [y [Hy1 Hy2]]. apply filter_In in Hy1. destruct Hy1 as [Hy1 Hy3].
    apply existsb_exists. exists y. split; auto. unfold wanted_readable. rewrite Hy3, Hy2. reflexivity. }
  destruct (first_index_by_handle c lo =? invalid_index) eqn:Efi.
  - apply N.eqb_eq in Efi. rewrite (F1 Efi) in Hex'. discriminate Hex'.
  - apply N.eqb_neq in Efi. destruct (F2 Efi) as [F3 F4].
    rewrite Hmk in H. cbv iota beta in H.
    destruct (all_attributes _ c st cid f _ out_size _ _ hi) as [[st1 k]|] eqn:Ea; [|discriminate].
    assert (Ea' := Ea).
    apply (aa_answers c cid f out_size hi ty Hw Hn Hf _ _ _ _ _ _ kk) in Ea; auto; [|lia].
    destruct Ea as [_ Ea]. cbn [co_first co_cur] in Ea. rewrite F4 in Ea. specialize (Ea eq_refl ltac:(lia) Hex').
    apply (aa_loop c cid f out_size _ hi ty Hw Hn Hf _ _ _ _ _ _ []) in Ea'; cbn [co_cur co_buf]; try lia.
    2:{ unfold col_inv. cbn [co_cur co_buf co_first co_size]. rewrite seg_nil.
        split; [lia|]. split; [reflexivity|]. split; [reflexivity|]. split; [intros X; discriminate X|intros x []]. }
    destruct Ea' as (E & I1 & I2 & I3 & I4). cbn [app] in I1. destruct I1 as (J1 & J2 & J3 & J4 & J5).
    destruct (J4 Ea) as [HE _].
    assert (Hcur : co_cur k <> 2).
    { intros X. rewrite X, seg_nil in J2. destruct E; [congruence|]. cbn [flat_map] in J2. unfold ebytes in J2. cbn [le16 app] in J2. discriminate J2. }
    replace (co_cur k =? 2) with false in H by (symmetry; apply N.eqb_neq; exact Hcur). cbn [negb] in H.
    destruct (put (co_buf k) 0 [9; co_size k]) as [b1|] eqn:Ep; [|discriminate].
    apply AttSrvProofsC01.some_inj in H. apply AttSrvProofsC01.pair_inj in H. destruct H as [<- <-]. cbn [fst snd].
    split; [pose proof (N.le_0_l ((co_cur k - 2) mod 256)); lia|]. rewrite (put_nth _ _ _ _ _ Ep). reflexivity.
Qed.

(* ================================================================== Part E: maximality ("as far as fits") *)
(* Read By Group Type: the walk ends in front of a wanted service only if that service has another uuid
   size or does not fit into what is left of the response *)
Definition rbg_stop_reason (is128 : bool) (avail : N) (W rest : list (N * N * service_decl)) : Prop :=
  match rest with
  | [] => True
  | g' :: _ => is_128bit (s_uuid (snd g')) <> is128 \/ avail - gsize is128 * len W < gsize is128
  end.

Lemma walk_rest_maximal G lo hi is128 avail :
  exists rest, filter (group_wanted lo hi) G = walk_rest G lo hi false is128 avail ++ rest
               /\ rbg_stop_reason is128 avail (walk_rest G lo hi false is128 avail) rest.
Proof.
  revert avail; induction G as [|g t IH]; intros avail; cbn [walk_rest filter]; [exists []; split; [reflexivity|exact I]|].
  cbn [negb andb]. rewrite wanted_cond. destruct (group_wanted lo hi g) eqn:Eg; [|apply IH].
  cbv zeta. destruct (Bool.eqb is128 (is_128bit (s_uuid (snd g))) && (gsize is128 <=? avail)) eqn:Ee.
  - apply andb_true_iff in Ee. destruct Ee as [Ee1 Ee2]. rewrite Ee1. cbn [negb].
    destruct (IH (avail - gsize is128)) as (rest & H1 & H2). exists rest. split; [cbn [app]; f_equal; exact H1|].
    unfold rbg_stop_reason in *. destruct rest as [|g' r]; [exact I|]. destruct H2 as [H2|H2]; [left; exact H2|right].
    unfold len in *. cbn [length]. lia.
  - rewrite walk_rest_blocked.
    + exists (g :: filter (group_wanted lo hi) t). split; [reflexivity|]. cbn [rbg_stop_reason].
      apply andb_false_iff in Ee. destruct Ee as [Ee|Ee].
      * left. intros X. rewrite X, eqb_reflx in Ee. discriminate Ee.
      * right. unfold len. cbn [length]. lia.
    + apply andb_false_iff in Ee. destruct Ee as [Ee|Ee]; [left; rewrite Ee; reflexivity|right; lia].
Qed.

Theorem walk_first_maximal G lo hi avail :
  20 <= avail ->
  match walk_first G lo hi avail with
  | [] => filter (group_wanted lo hi) G = []
  | g :: W =>
      exists rest, filter (group_wanted lo hi) G = (g :: W) ++ rest
                   /\ rbg_stop_reason (is_128bit (s_uuid (snd g))) avail (g :: W) rest
  end.
Proof.
  intros Ha. induction G as [|g t IH]; cbn [walk_first filter]; [reflexivity|].
  rewrite wanted_cond. destruct (group_wanted lo hi g) eqn:Eg; [|exact IH].
  cbv zeta. replace (gsize (is_128bit (s_uuid (snd g))) <=? avail) with true by (unfold gsize; destruct (is_128bit (s_uuid (snd g))); lia).
  destruct (walk_rest_maximal t lo hi (is_128bit (s_uuid (snd g))) (avail - gsize (is_128bit (s_uuid (snd g))))) as (rest & H1 & H2).
  exists rest. split; [cbn [app]; f_equal; exact H1|].
  unfold rbg_stop_reason in *. destruct rest as [|g' r]; [exact I|]. destruct H2 as [H2|H2]; [left; exact H2|right].
  unfold len in *. cbn [length]. unfold gsize in *. destruct (is_128bit (s_uuid (snd g))); lia.
Qed.

(* Find Information: the walk ends in front of an attribute of its uuid format (in range) only if no further
   pair fits into what is left of the response *)
Lemma fi_walk_maximal W e only16 avail p :
  increasing_from p (map fst W) = true ->
  exists rest,
    filter (fun y => (fst y <=? e) && Bool.eqb only16 (is16 (snd y))) W = fi_walk W e only16 avail ++ rest
    /\ (rest <> [] -> avail - fsize only16 * len (fi_walk W e only16 avail) < fsize only16).
Proof.
  revert avail p; induction W as [|x t IH]; intros avail p Hs; cbn [fi_walk filter]; [exists []; split; [reflexivity|congruence]|].
  cbn [map increasing_from] in Hs. apply andb_true_iff in Hs. destruct Hs as [Hs1 Hs2].
  destruct (fst x <=? e) eqn:Ex; cbn [andb].
  - destruct (fsize only16 <=? avail) eqn:Er.
    + destruct (Bool.eqb only16 (is16 (snd x))) eqn:Ee.
      * destruct (IH (avail - fsize only16) (fst x) Hs2) as (rest & H1 & H2). exists rest. split; [cbn [app]; f_equal; exact H1|].
        intros Hne. specialize (H2 Hne). unfold len in *. cbn [length]. lia.
      * apply (IH avail (fst x) Hs2).
    + eexists. split; [reflexivity|]. intros _. unfold len. cbn [length]. lia.
  - exists []. split; [|congruence]. cbn [app].
    (* behind e: nothing further is in range *)
    apply filter_all_false. intros y Hy. apply (in_map fst) in Hy. pose proof (increasing_from_lower _ _ _ Hs2 Hy).
    replace (fst y <=? e) with false by lia. reflexivity.
Qed.

Theorem rbg_maximal c lo hi out_size :
  wf c -> no_includes c -> 23 <= out_size ->
  match walk_first (groups c) lo hi (out_size - 2) with
  | [] => matching c KGroup lo hi = []
  | g :: W =>
      exists rest, matching c KGroup lo hi = map gentry ((g :: W) ++ rest)
                   /\ rbg_stop_reason (is_128bit (s_uuid (snd g))) (out_size - 2) (g :: W) rest
  end.
Proof.
  intros Hw Hn Ho. pose proof (walk_first_maximal (groups c) lo hi (out_size - 2) ltac:(lia)) as H.
  rewrite matching_groups by auto. destruct (walk_first (groups c) lo hi (out_size - 2)) as [|g W].
  - rewrite H. reflexivity.
  - destruct H as (rest & H1 & H2). exists rest. rewrite H1. auto.
Qed.

Theorem fi_maximal c lo hi out_size x W :
  wf c -> no_includes c -> from_handle lo (table c) = x :: W ->
  let Wk := fi_walk (x :: W) hi (is16 (snd x)) (out_size - 2) in
  exists rest,
    filter (fun y => Bool.eqb (is16 (snd x)) (is16 (snd y))) (matching c KInfo lo hi) = Wk ++ rest
    /\ (rest <> [] -> out_size - 2 - fsize (is16 (snd x)) * len Wk < fsize (is16 (snd x))).
Proof.
  intros Hw Hn Ef Wk. pose proof (from_handle_sorted c lo Hw Hn) as Hs. rewrite Ef in Hs.
  destruct (fi_walk_maximal (x :: W) hi (is16 (snd x)) (out_size - 2) 0 Hs) as (rest & H1 & H2).
  exists rest. split; [|exact H2]. rewrite matching_info, Ef, filter_filter. exact H1.
Qed.

(* ================================================================== Part F: Read By Type, every out_size *)
Lemma seg_prefix lo mid hi b : lo <= mid -> mid <= hi -> seg lo mid b = firstn (N.to_nat (mid - lo)) (seg lo hi b).
Proof.
  intros H1 H2. rewrite (seg_app lo mid hi) by lia. rewrite firstn_app.
  assert (L : length (seg lo mid b) = N.to_nat (mid - lo)) by (pose proof (seg_len lo mid b) as X; unfold len in X; lia).
  rewrite <- L at 1. rewrite firstn_all. rewrite L, Nat.sub_diag. cbn [firstn]. rewrite app_nil_r. reflexivity.
Qed.

(* byte level statement without the bound on out_size: collect_attributes::size() is 8 bit wide, the response
   is cut to 2 + (|entries| mod 256) bytes: the first bytes of the entry list *)
Theorem read_by_type_bytes c st cid a0 a1 x0 x1 tyb ty b out_size st' r :
  wf c -> no_includes c ->
  a0 < 256 -> a1 < 256 -> x0 < 256 -> x1 < 256 ->
  req_type tyb = Some ty -> ty <> U16 internal_128bit_uuid ->
  let lo := w16 a0 a1 in let hi := w16 x0 x1 in
  1 <= lo -> lo <= hi -> 23 <= out_size -> out_size <= len b ->
  handle_read_by_type c st cid (8 :: a0 :: a1 :: x0 :: x1 :: tyb) b out_size = Some (st', r) ->
  (snd r = 5 /\ seg 0 5 (fst r) = [1; 8; a0; a1; 10])
  \/ (exists E sz, E <> [] /\ subseq (map fst E) (map fst (matching c (KType ty) lo hi))
        /\ (forall x, In x E -> len (snd x) + 2 = sz)
        /\ 2 + len (flat_map ebytes E) <= out_size
        /\ snd r = 2 + len (flat_map ebytes E) mod 256 /\ snd r <= len (fst r)
        /\ seg 0 (snd r) (fst r) = 9 :: sz :: firstn (N.to_nat (len (flat_map ebytes E) mod 256)) (flat_map ebytes E)).
Proof.
  intros Hw Hn Ha0 Ha1 Hx0 Hx1 Hty Hne lo hi Hlo Hhi Ho Hb H.
  destruct (make_filter_spec a0 a1 x0 x1 tyb ty Hty Hne) as (Hlen & f & Hmk & Hf). cbv zeta in Hlen, Hmk.
  unfold handle_read_by_type, check_size_and_handle_range in H.
  destruct (rd_prefix5 8 a0 a1 x0 x1 tyb) as (R0 & R1 & R3). cbv zeta in R0, R1, R3.
  set (pdu := 8 :: a0 :: a1 :: x0 :: x1 :: tyb) in *.
  rewrite R0 in H. cbv iota beta in H.
  replace (negb (len pdu =? 7) && negb (len pdu =? 21)) with false in H by (destruct Hlen as [-> | ->]; reflexivity).
  rewrite R1, R3 in H. cbv iota beta in H. fold (w16 a0 a1) in H. fold (w16 x0 x1) in H. fold lo in H. fold hi in H.
  replace ((lo =? 0) || (hi <? lo)) with false in H by lia.
  destruct (from_first_index c lo Hw Hn) as [F1 F2].
  destruct (first_index_by_handle c lo =? invalid_index) eqn:Efi.
  - destruct (error_response 8 err_attribute_not_found lo b out_size) as [r'|] eqn:Ee; [|discriminate].
    inversion H; subst st' r'. apply error_response_bytes in Ee; auto; [|lia]. left. tauto.
  - apply N.eqb_neq in Efi. destruct (F2 Efi) as [F3 F4].
    rewrite Hmk in H. cbv iota beta in H.
    destruct (all_attributes _ c st cid f _ out_size _ _ hi) as [[st1 k]|] eqn:Ea; [|discriminate].
    apply (aa_loop c cid f out_size _ hi ty Hw Hn Hf _ _ _ _ _ _ []) in Ea; cbn [co_cur co_buf]; try lia.
    2:{ unfold col_inv. cbn [co_cur co_buf co_first co_size]. rewrite seg_nil.
        split; [lia|]. split; [reflexivity|]. split; [reflexivity|]. split; [intros X; discriminate X|intros x []]. }
    destruct Ea as (E & I1 & I2 & I3 & I4). cbn [app] in I1. cbn [co_buf co_cur] in I2, I3. rewrite F4, <- matching_type in I4.
    destruct I1 as (J1 & J2 & J3 & J4 & J5).
    assert (Hcur : co_cur k - 2 = len (flat_map ebytes E)) by (rewrite <- J2, seg_len; reflexivity).
    destruct (co_cur k =? 2) eqn:E2.
    + cbn [negb] in H. destruct (error_response 8 err_attribute_not_found lo (co_buf k) out_size) as [r'|] eqn:Ee; [|discriminate].
      inversion H; subst st' r'. apply error_response_bytes in Ee; auto; [|lia]. left. tauto.
    + cbn [negb] in H. apply N.eqb_neq in E2.
      destruct (put (co_buf k) 0 [9; co_size k]) as [b1|] eqn:Ep; [|discriminate].
      apply AttSrvProofsC01.some_inj in H. apply AttSrvProofsC01.pair_inj in H. destruct H as [<- <-].
      cbn [fst snd]. pose proof (put_length _ _ _ _ Ep) as Lp. rewrite Hcur.
      pose proof (N.mod_le (len (flat_map ebytes E)) 256 ltac:(lia)) as Hmod.
      right. exists E, (co_size k).
      assert (HE : E <> []).
      { intros ->. cbn [flat_map] in J2. assert (X : len (seg 2 (co_cur k) (co_buf k)) = 0) by (rewrite J2; reflexivity).
        rewrite seg_len in X. lia. }
      set (mm := len (flat_map ebytes E) mod 256) in *.
      split; [exact HE|]. split; [exact I4|]. split; [exact J5|]. split; [lia|]. split; [reflexivity|]. split; [lia|].
      rewrite (seg_app 0 2) by lia. rewrite (seg_put_other _ _ _ _ 2 _ Ep) by (unfold len; cbn; lia).
      rewrite (seg_prefix 2 _ (co_cur k)) by lia. rewrite J2.
      pose proof (seg_put_self _ _ _ _ Ep) as X. change (0 + len [9; co_size k]) with 2 in X. rewrite X.
      cbn [app]. repeat f_equal. lia.
Qed.
