(* Lemmas about the observer of AttSrvNotifSpec.v (used by the trace level theorems of C08 and C11): how one
   observed step changes the "core" of every observed connection: (client MTU, link encrypted, indication
   awaiting its confirmation). *)
From Coq Require Import Lia ZifyBool.
From BT Require Import Base.ListX AttDb.AttDbModel NQueue.NQueueModel AttSrv.AttSrvModel AttSrv.AttSrvNotifSpec AttSrv.AttSrvFrame.
Local Open Scope N_scope.

Definition core (k : oconn) : N * bool * bool := (o_mtu k, o_enc k, o_out k).

(* m' has as many connections as m and every connection keeps its core *)
Definition keeps (m m' : obs) : Prop :=
  length (ob_conns m') = length (ob_conns m) /\ forall i, core (oc_at m' i) = core (oc_at m i).

Lemma keeps_refl m : keeps m m.
Proof. split; auto. Qed.
Lemma keeps_trans a b d : keeps a b -> keeps b d -> keeps a d.
Proof. intros [L1 C1] [L2 C2]. split; [congruence|]. intros i. rewrite C2, C1. reflexivity. Qed.
Lemma keeps_conns m m' : ob_conns m' = ob_conns m -> keeps m m'.
Proof. intros E. unfold keeps, oc_at. rewrite E. auto. Qed.

Lemma oc_at_set_oc m i k j :
  oc_at (set_oc m i k) j = if Nat.eqb i j && (i <? length (ob_conns m))%nat then k else oc_at m j.
Proof.
  unfold oc_at, set_oc. cbn [ob_conns]. destruct (Nat.eqb i j) eqn:E; cbn [andb].
  - apply Nat.eqb_eq in E. subst j. destruct (i <? length (ob_conns m))%nat eqn:L.
    + apply Nat.ltb_lt in L. apply nth_upd_eq. exact L.
    + apply Nat.ltb_ge in L. rewrite upd_out by exact L. reflexivity.
  - apply Nat.eqb_neq in E. apply nth_upd_neq. exact E.
Qed.

Lemma set_oc_length m i k : length (ob_conns (set_oc m i k)) = length (ob_conns m).
Proof. unfold set_oc. cbn [ob_conns]. apply upd_length. Qed.

Lemma keeps_set_oc m i k : core k = core (oc_at m i) -> keeps m (set_oc m i k).
Proof.
  intros H. split; [apply set_oc_length|]. intros j. rewrite oc_at_set_oc.
  destruct (Nat.eqb i j) eqn:E; cbn [andb]; auto. apply Nat.eqb_eq in E. subst j.
  destruct (i <? length (ob_conns m))%nat; auto.
Qed.

Lemma nth_map_i (A B : Type) (f : nat -> A -> B) (l : list A) : forall i0 j da db,
  nth j (map_i f i0 l) db = if (j <? length l)%nat then f (i0 + j)%nat (nth j l da) else db.
Proof.
  induction l as [|x t IH]; intros i0 j da db; cbn [map_i length].
  - destruct j; reflexivity.
  - destruct j as [|j]; cbn [nth].
    + rewrite Nat.add_0_r. reflexivity.
    + rewrite (IH (S i0) j da db). change (S j <? S (length t))%nat with (j <? length t)%nat.
      destruct (j <? length t)%nat; auto. f_equal. lia.
Qed.

Lemma map_i_length (A B : Type) (f : nat -> A -> B) (l : list A) : forall i0, length (map_i f i0 l) = length l.
Proof. induction l; intros; cbn [map_i length]; auto. Qed.

Lemma keeps_apply_cccd_write m cid g nv : keeps m (apply_cccd_write m cid g nv).
Proof.
  unfold apply_cccd_write. destruct (drop_must (oc_at m cid) g nv) as [mu sl].
  split; cbn [ob_conns].
  - rewrite map_i_length. apply upd_length.
  - intros i. unfold oc_at at 1. cbn [ob_conns].
    rewrite (nth_map_i _ _ _ _ O i (oc_init O) (oc_init O)). rewrite upd_length. cbn [Nat.add].
    destruct (i <? length (ob_conns m))%nat eqn:L.
    + apply Nat.ltb_lt in L. unfold mark_since, core. cbn [o_mtu o_enc o_out].
      destruct (Nat.eq_dec cid i) as [->|N].
      * rewrite nth_upd_eq by exact L. reflexivity.
      * rewrite nth_upd_neq by exact N. reflexivity.
    + apply Nat.ltb_ge in L. unfold oc_at. rewrite nth_overflow by exact L. reflexivity.
Qed.

Lemma keeps_touch_cccd m cid g : keeps m (touch_cccd m cid g).
Proof. unfold touch_cccd. apply keeps_set_oc. reflexivity. Qed.
Lemma keeps_forget_value m g : keeps m (forget_value m g).
Proof. unfold forget_value. destruct (ce_const _); [apply keeps_refl|apply keeps_conns; reflexivity]. Qed.
Lemma keeps_forget_all m : keeps m (forget_all_values m).
Proof. apply keeps_conns. reflexivity. Qed.

Lemma match19 (A : Type) (resp : list N) (X Y : A) :
  (match resp with [19] => X | _ => Y end) = (if bytes_eqb resp [19] then X else Y).
Proof.
  destruct resp as [|x [|y t]]; try reflexivity.
  - cbn [bytes_eqb]. rewrite andb_true_r. destruct (x =? 19) eqn:E.
    + apply N.eqb_eq in E. subst. reflexivity.
    + destruct x as [|p]; try reflexivity. repeat (destruct p as [p|p|]; try reflexivity). discriminate E.
  - cbn [bytes_eqb]. rewrite andb_false_r. destruct x as [|p]; try reflexivity. repeat (destruct p as [p|p|]; try reflexivity).
Qed.

Lemma keeps_adv_write m cid opc h data resp : keeps m (adv_write m cid opc h data resp).
Proof.
  unfold adv_write. destruct (by_cccd_handle (ob_tab m) h) as [g|].
  - destruct (opc =? 18).
    + rewrite match19. destruct (bytes_eqb resp [19]); [apply keeps_apply_cccd_write|apply keeps_refl].
    + destruct (opc =? 82).
      * destruct (_ && _); [apply keeps_apply_cccd_write|apply keeps_refl].
      * destruct (starts 23 resp); [|apply keeps_refl].
        set (m1 := apply_cccd_write m cid g None).
        match goal with |- keeps m (set_cb ?x ?y) => apply keeps_trans with x; [|apply keeps_conns; reflexivity] end.
        apply keeps_trans with m1; [apply keeps_apply_cccd_write|apply keeps_set_oc; reflexivity].
  - destruct (by_value_handle (ob_tab m) h) as [g|]; [|apply keeps_refl].
    destruct (opc =? 22); [apply keeps_refl|apply keeps_forget_value].
Qed.

(* ------------------------------------------------------------------ the effect of one observed step on the cores *)
Definition core_eff (c : cfg) (m : obs) (o : srv_op) (r : srv_out) (i : nat) (x : N * bool * bool) : N * bool * bool :=
  let '(mtu, enc, out) := x in
  match o, r with
  | OpIn cid pdu n, OBytes resp =>
      if negb (Nat.eqb cid i) || (len pdu =? 0) || (n <? default_att_mtu) then x
      else match pdu with
           | [2; lo; hi] => if (default_att_mtu <=? lo + 256 * hi) && starts 3 resp then (lo + 256 * hi, enc, out) else x
           | [30] => (mtu, enc, false)
           | _ => x
           end
  | OpOut cid n, OBytes (opc :: lo :: hi :: _) =>
      if Nat.eqb cid i && (opc =? 29) then (mtu, enc, true) else x
  | OpSec cid e _, _ => if Nat.eqb cid i then (mtu, e, out) else x
  | OpDisc cid, _ => if Nat.eqb cid i then (default_att_mtu, false, false) else x
  | _, _ => x
  end.

Lemma keeps_adv_request tab g kd : forall l bits,
  length (adv_request tab g kd l bits) = length l
  /\ forall i, core (nth i (adv_request tab g kd l bits) (oc_init O)) = core (nth i l (oc_init O)).
Proof.
  induction l as [|k t IH]; intros bits; cbn [adv_request]; [split; auto|].
  destruct bits as [|b bt]; [split; auto|]. destruct (IH bt) as (L & C). split; [cbn [length]; congruence|].
  intros [|i]; cbn [nth]; [reflexivity|apply C].
Qed.

(* eff holds for connection i of m -> m' *)
Definition follows (c : cfg) (m : obs) (o : srv_op) (r : srv_out) (m' : obs) : Prop :=
  length (ob_conns m') = length (ob_conns m)
  /\ forall i, (i < length (ob_conns m))%nat -> core (oc_at m' i) = core_eff c m o r i (core (oc_at m i)).

Lemma keeps_follows c m o r m' :
  keeps m m' -> (forall i x, core_eff c m o r i x = x) -> follows c m o r m'.
Proof. intros [L C] E. split; auto. intros i _. rewrite E. apply C. Qed.

(* ------------------------------------------------------------------ l2cap_input *)
Inductive pdu_class := PMtu (lo hi : N) | PConf | POther.
Definition classify (pdu : list N) : pdu_class :=
  match pdu with [2; lo; hi] => PMtu lo hi | [30] => PConf | _ => POther end.

Lemma keeps_exec m cid k' :
  core k' = core (oc_at m cid) -> keeps m (set_cb (set_oc (forget_all_values m) cid k') None).
Proof.
  intros H. apply keeps_trans with (set_oc (forget_all_values m) cid k'); [|apply keeps_conns; reflexivity].
  apply keeps_trans with (forget_all_values m); [apply keeps_forget_all|]. apply keeps_set_oc. exact H.
Qed.

Ltac kp :=
  repeat match goal with
         | |- keeps _ (match ?x with Some _ => _ | None => _ end) => destruct x
         | |- keeps _ (if ?x then _ else _) => destruct x
         end;
  first [apply keeps_refl | apply keeps_touch_cccd | apply keeps_adv_write | apply keeps_forget_all
        | apply keeps_exec; reflexivity].

Definition adv_in_spec (c : cfg) (m : obs) (cid : nat) (pdu : list N) (n : N) (resp : list N) : Prop :=
  match classify pdu with
  | PMtu lo hi => adv_in c m cid pdu n resp
                  = if (default_att_mtu <=? lo + 256 * hi) && starts 3 resp then set_mtu m cid (lo + 256 * hi) else m
  | PConf => adv_in c m cid pdu n resp
             = set_oc m cid (mkOC (o_mtu (oc_at m cid)) (o_enc (oc_at m cid)) (o_cccd (oc_at m cid)) (o_since (oc_at m cid))
                                  (o_prep (oc_at m cid)) (o_pend (oc_at m cid)) (o_must (oc_at m cid)) false (o_slack (oc_at m cid)))
  | POther => keeps m (adv_in c m cid pdu n resp)
  end.

Ltac leaf := cbv beta iota zeta delta [adv_in_spec classify adv_in]; first [reflexivity | kp].

Lemma adv_in_classified c m cid pdu n resp : adv_in_spec c m cid pdu n resp.
Proof.
  destruct pdu as [|a [|b [|d [|e t]]]]; try solve [leaf];
    (destruct a as [|p]; [solve [leaf]|]; repeat (destruct p as [p|p|]; try solve [leaf])).
Qed.

Definition core_in_spec (c : cfg) (m : obs) (cid : nat) (pdu : list N) (n : N) (resp : list N) (i : nat) (x : N * bool * bool) : Prop :=
  core_eff c m (OpIn cid pdu n) (OBytes resp) i x =
  if negb (Nat.eqb cid i) || (len pdu =? 0) || (n <? default_att_mtu) then x
  else match classify pdu with
       | PMtu lo hi => if (default_att_mtu <=? lo + 256 * hi) && starts 3 resp then (lo + 256 * hi, snd (fst x), snd x) else x
       | PConf => (fst (fst x), snd (fst x), false)
       | POther => x
       end.

Ltac leaf2 := cbv beta iota zeta delta [core_in_spec classify core_eff fst snd];
  repeat match goal with |- context [if ?b then _ else _] => destruct b end; reflexivity.

Lemma core_in_classified c m cid pdu n resp i x : core_in_spec c m cid pdu n resp i x.
Proof.
  destruct x as [[mtu enc] out].
  destruct pdu as [|a [|b [|d [|e t]]]]; try solve [leaf2];
    (destruct a as [|p]; [solve [leaf2]|]; repeat (destruct p as [p|p|]; try solve [leaf2])).
Qed.

Lemma follows_set_oc c m o r cid k' :
  (forall i, (i < length (ob_conns m))%nat ->
     core (if Nat.eqb cid i then k' else oc_at m i) = core_eff c m o r i (core (oc_at m i))) ->
  follows c m o r (set_oc m cid k').
Proof.
  intros H. split; [apply set_oc_length|]. intros i Hi. rewrite oc_at_set_oc. rewrite <- (H i Hi).
  destruct (Nat.eqb cid i) eqn:E; cbn [andb]; auto. apply Nat.eqb_eq in E. subst i.
  replace (cid <? length (ob_conns m))%nat with true by (symmetry; apply Nat.ltb_lt; exact Hi). reflexivity.
Qed.

Lemma follows_in c m cid pdu n resp : follows c m (OpIn cid pdu n) (OBytes resp) (advance c m (OpIn cid pdu n) (OBytes resp)).
Proof.
  cbn [advance]. destruct ((len pdu =? 0) || (n <? default_att_mtu)) eqn:H.
  - apply keeps_follows; [apply keeps_refl|]. intros i x. rewrite (core_in_classified c m cid pdu n resp i x).
    apply orb_true_iff in H. destruct H as [H|H]; rewrite H; rewrite ?orb_true_r; reflexivity.
  - apply orb_false_iff in H. destruct H as [H1 H2].
    pose proof (adv_in_classified c m cid pdu n resp) as A. unfold adv_in_spec in A.
    destruct (classify pdu) as [lo hi| |] eqn:Cl.
    + rewrite A. destruct ((default_att_mtu <=? lo + 256 * hi) && starts 3 resp) eqn:Cd.
      * unfold set_mtu. apply follows_set_oc. intros i Hi. rewrite (core_in_classified c m cid pdu n resp i _).
        rewrite H1, H2, Cl, Cd. destruct (Nat.eqb cid i) eqn:E; cbn [negb orb]; [|reflexivity].
        apply Nat.eqb_eq in E. subst i. reflexivity.
      * apply keeps_follows; [apply keeps_refl|]. intros i x. rewrite (core_in_classified c m cid pdu n resp i x).
        rewrite Cl, Cd. destruct (_ || _); reflexivity.
    + rewrite A. apply follows_set_oc. intros i Hi. rewrite (core_in_classified c m cid pdu n resp i _).
      rewrite H1, H2, Cl. destruct (Nat.eqb cid i) eqn:E; cbn [negb orb]; [|reflexivity].
      apply Nat.eqb_eq in E. subst i. reflexivity.
    + apply keeps_follows; [exact A|]. intros i x. rewrite (core_in_classified c m cid pdu n resp i x).
      rewrite Cl. destruct (_ || _); reflexivity.
Qed.

Lemma keeps_adv_sent_notif m cid g : keeps m (adv_sent m cid g KNotif).
Proof. unfold adv_sent. apply keeps_set_oc. reflexivity. Qed.
Lemma keeps_adv_sent_unknown_notif m cid : keeps m (adv_sent_unknown m cid KNotif).
Proof. unfold adv_sent_unknown. apply keeps_set_oc. reflexivity. Qed.

Lemma follows_out c m cid n pdu : follows c m (OpOut cid n) (OBytes pdu) (advance c m (OpOut cid n) (OBytes pdu)).
Proof.
  cbn [advance]. unfold adv_out.
  destruct pdu as [|opc [|lo [|hi t]]].
  - apply keeps_follows; [|intros i [[? ?] ?]; reflexivity].
    destruct (_ <? 3); [apply keeps_set_oc; reflexivity|]. destruct (eligible_must _); [apply keeps_set_oc; reflexivity|apply keeps_refl].
  - apply keeps_follows; [apply keeps_refl|intros i [[? ?] ?]; reflexivity].
  - apply keeps_follows; [apply keeps_refl|intros i [[? ?] ?]; reflexivity].
  - destruct (opc =? 27) eqn:E27.
    + apply keeps_follows.
      * destruct (by_value_handle _ _); [apply keeps_adv_sent_notif|apply keeps_adv_sent_unknown_notif].
      * intros i [[? ?] ?]. cbn [core_eff]. apply N.eqb_eq in E27. subst opc. change (27 =? 29) with false. rewrite andb_false_r. reflexivity.
    + destruct (opc =? 29) eqn:E29.
      * assert (F : forall k', o_mtu k' = o_mtu (oc_at m cid) -> o_enc k' = o_enc (oc_at m cid) -> o_out k' = true ->
                    follows c m (OpOut cid n) (OBytes (opc :: lo :: hi :: t)) (set_oc m cid k')).
        { intros k' A B C. apply follows_set_oc. intros i Hi. unfold core at 2. cbn [core_eff]. rewrite E29, andb_true_r.
          destruct (Nat.eqb cid i) eqn:E; [|reflexivity]. apply Nat.eqb_eq in E. subst i. unfold core. rewrite A, B, C. reflexivity. }
        destruct (by_value_handle _ _); [unfold adv_sent|unfold adv_sent_unknown]; apply F; reflexivity.
      * apply keeps_follows; [destruct (by_value_handle _ _); apply keeps_refl|].
        intros i [[? ?] ?]. cbn [core_eff]. rewrite E29, andb_false_r. reflexivity.
Qed.

Theorem advance_follows c m o r : follows c m o r (advance c m o r).
Proof.
  destruct o as [cid pdu n|cid n|cid e p|cid|bu kd g|g|g data].
  - destruct r; try (apply keeps_follows; [apply keeps_refl|intros i [[? ?] ?]; reflexivity]). apply follows_in.
  - destruct r; try (apply keeps_follows; [apply keeps_refl|intros i [[? ?] ?]; cbn [core_eff]; reflexivity]). apply follows_out.
  - assert (F : follows c m (OpSec cid e p) r (set_oc m cid (release_must (oc_at m cid) e))).
    { apply follows_set_oc. intros i Hi. destruct (Nat.eqb cid i) eqn:E.
      - apply Nat.eqb_eq in E. subst i. unfold core. destruct r; cbn [core_eff]; rewrite Nat.eqb_refl; reflexivity.
      - unfold core. destruct r; cbn [core_eff]; rewrite E; reflexivity. }
    destruct r; exact F.
  - assert (F : follows c m (OpDisc cid) r (set_oc m cid (oc_init (length (ob_tab m))))).
    { apply follows_set_oc. intros i Hi. destruct (Nat.eqb cid i) eqn:E.
      - unfold core. destruct r; cbn [core_eff]; rewrite E; reflexivity.
      - unfold core. destruct r; cbn [core_eff]; rewrite E; reflexivity. }
    destruct r; exact F.
  - destruct r; try (apply keeps_follows; [apply keeps_refl|intros i [[? ?] ?]; reflexivity]).
    apply keeps_follows; [|intros i [[? ?] ?]; reflexivity]. cbn [advance].
    destruct (keeps_adv_request (ob_tab m) (target m bu g) kd (ob_conns m) l) as (L & C).
    split; cbn [ob_conns]; auto.
  - destruct r; apply keeps_follows; try apply keeps_refl; try (intros i [[? ?] ?]; reflexivity).
    apply keeps_conns. reflexivity.
  - destruct r; apply keeps_follows; try apply keeps_refl; try (intros i [[? ?] ?]; reflexivity).
    cbn [advance]. destruct (nth g (ob_vals m) None); [apply keeps_conns; reflexivity|apply keeps_refl].
Qed.

Lemma classify_mtu pdu lo hi : classify pdu = PMtu lo hi -> pdu = [2; lo; hi].
Proof.
  unfold classify.
  destruct pdu as [|a [|b [|d [|e t]]]]; try discriminate;
    (destruct a as [|p]; [discriminate|]; repeat (destruct p as [p|p|]; try discriminate)).
  intros H. inversion H. reflexivity.
Qed.
Lemma classify_mtu_iff lo hi : classify [2; lo; hi] = PMtu lo hi.
Proof. reflexivity. Qed.

(* ------------------------------------------------------------------ model side: number of connections *)
Lemma frame_length cid st st' : frame cid st st' -> length (conns st') = length (conns st).
Proof. intros (k & k' & _ & E & _). rewrite E. apply upd_length. Qed.

Lemma srv_step_length c st o : length (conns (fst (srv_step c st o))) = length (conns st).
Proof.
  destruct o as [cid pdu n|cid n|cid e p|cid|bu kd g|g|g data]; cbn [srv_step].
  - destruct (att_input c st cid pdu n) as [[st' r]|] eqn:E; cbn [fst]; auto.
    eapply frame_length. eapply att_input_frame; eauto.
  - destruct (att_output c st cid n) as [[st' r]|] eqn:E; cbn [fst]; auto.
    eapply frame_length. eapply att_output_frame; eauto.
  - destruct (get_conn st cid); cbn [fst]; auto. unfold set_conn. cbn [conns]. apply upd_length.
  - cbn [fst]. unfold set_conn. cbn [conns]. rewrite upd_length. apply f_equal. apply wq_free_conns.
  - assert (R : forall d, length (conns (fst (request st kd d))) = length (conns st)).
    { intros d. unfold request. destruct (queue_all (conns st) _) as [l rs] eqn:Q. cbn [fst conns].
      apply (queue_all_spec _ _ _ _ Q). }
    destruct bu.
    + destruct (by_uuid_available c kd g); cbn [fst]; auto.
      unfold notify_by_uuid. destruct (nth_error (all_chars c) g) as [x|]; cbn [fst]; auto.
      destruct (find_notification_by_uuid c (c_uuid (snd x))) as [d|]; cbn [fst]; auto.
      specialize (R d). destruct (request st kd d). exact R.
    + destruct (by_value_available c g); cbn [fst]; auto.
      unfold notify_by_value. destruct (find_notification_data c g) as [d|]; cbn [fst]; auto.
      specialize (R d). destruct (request st kd d). exact R.
  - destruct (has_var c g) as [[w h]|]; cbn [fst]; auto.
  - destruct (has_var c g) as [[[|] h]|]; cbn [fst]; auto.
Qed.

(* no operation of the trace ends in a FAULT (memory safety is C01's property) *)
Definition no_fault (tr : list (srv_op * srv_out)) : Prop := Forall (fun x => snd x <> OFault) tr.
