(* Property C09: client characteristic configuration is per connection and exact.
   Executable monitor over observed (operation, output) pairs of the C09 harness (operations of the server
   + `cbs`); observer: AttSrvNotifSpec.v ([o_cccd]: per connection and characteristic the two bits this
   connection last wrote: Write Request answered with a Write Response, Write Command of at most 2 bytes
   with sufficient link security; a 1 byte write sets the low byte, a 0 byte write changes nothing; bits
   other than notification (1) / indication (2) are dropped; a fresh connection has 0).

   Clauses (tags):
     readback                  a Read Request / Read Blob Request (offset <= 2) on a CCCD is answered with
                               exactly <bits> 00 (from the offset) of the bits this connection last wrote
     other_cccd_changed        ... the mismatch appeared after a write of the SAME connection to ANOTHER CCCD
     other_connection_changed  ... the mismatch appeared after a CCCD write of ANOTHER connection
     cccd_write                a Write Request on a CCCD: at most 2 bytes -> Write Response, more -> error 0x0D
                               (link security permitting)
     callback_iff_changed      `cbs` = the number of CCCD writes since the last `cbs` that changed the stored
                               bits (the server wide client_characteristic_configuration_updated callback is
                               invoked exactly when the stored value changes)
     fault                     no sanitizer / assert abort *)
From BT Require Import Base.ListX AttDb.AttDbModel NQueue.NQueueModel AttSrv.AttSrvModel AttSrv.AttSrvNotifSpec
  AttSrv.AttSrvCbModel.
Local Open Scope N_scope.

Definition t09_fault := 1%nat.
Definition t09_readback := 2%nat.
Definition t09_other_cccd_changed := 3%nat.
Definition t09_other_connection_changed := 4%nat.
Definition t09_callback_iff_changed := 5%nat.
Definition t09_cccd_write := 6%nat.
Definition t09_shape := 7%nat.

Definition mismatch_tag (k : oconn) (cid g : nat) : nat :=
  match nth g (o_since k) None with
  | None => t09_readback
  | Some x => if Nat.eqb (fst x) cid then t09_other_cccd_changed else t09_other_connection_changed
  end.

Definition check_read (m : obs) (cid : nat) (h off : N) (d : list N) : option nat :=
  match by_cccd_handle (ob_tab m) h with
  | Some g =>
      let k := oc_at m cid in
      match nth g (o_cccd k) None with
      | Some v => if bytes_eqb d (dropN off [v; 0]) then None else Some (mismatch_tag k cid g)
      | None => None
      end
  | None => None
  end.

Definition check09 (c : cfg) (m : obs) (o : srv_op) (r : srv_out) : option nat :=
  match o, r with
  | _, OFault => if fault_relevant o then Some t09_fault else None
  | OpIn cid pdu n, OBytes resp =>
      if (len pdu =? 0) || (n <? default_att_mtu) then None
      else match pdu with
           | [10; lo; hi] =>
               match resp with 11 :: d => check_read m cid (lo + 256 * hi) 0 d | _ => None end
           | [12; lo; hi; olo; ohi] =>
               match resp with
               | 13 :: d => if olo + 256 * ohi <=? 2 then check_read m cid (lo + 256 * hi) (olo + 256 * ohi) d else None
               | _ => None
               end
           | 18 :: lo :: hi :: data =>
               match by_cccd_handle (ob_tab m) (lo + 256 * hi) with
               | Some g =>
                   if sec_ok (cent_at (ob_tab m) g) (oc_at m cid) then
                     if bytes_eqb resp (if len data <=? 2 then [19] else [1; 18; lo; hi; 13]) then None else Some t09_cccd_write
                   else None
               | None => None
               end
           | _ => None
           end
  | _, _ => None
  end.

Definition mstep09 (c : cfg) (m : obs) (o : op9) (r : out9) : verdict * obs :=
  match o, r with
  | Op9 op, Out9 x => mstep_of check09 c m op x
  | Cbs, Count n =>
      match ob_cb m with
      | Some e => if n =? e then (Ok, set_cb m (Some 0)) else (Bad t09_callback_iff_changed, m)
      | None => (Ok, set_cb m (Some 0))
      end
  | _, _ => (Bad t09_shape, m)
  end.

Fixpoint monitor09_from (c : cfg) (m : obs) (pos : nat) (tr : list (op9 * out9)) : option (nat * nat) :=
  match tr with
  | [] => None
  | (o, r) :: t =>
      match mstep09 c m o r with
      | (Ok, m') => monitor09_from c m' (S pos) t
      | (Bad tag, _) => Some (pos, tag)
      end
  end.
Definition monitor09 (c : cfg) (tr : list (op9 * out9)) : option (nat * nat) := monitor09_from c (obs_init c) O tr.
