(* Property C08: ATT MTU negotiation bounds every PDU. Executable monitor over observed (operation,
   output) pairs (observer: AttSrvNotifSpec.v); it never looks at model state.

   Hypotheses (requests outside them are not judged): 1 <= length pdu, 23 <= out_size of `in`.
   The negotiated MTU of a connection is min( max_mtu_size of the server, client MTU ), the client MTU being
   23 until a valid Exchange MTU Request (length 3, client MTU >= 23) was seen; l2cap_input / l2cap_output
   work with eff = min( caller's buffer, negotiated MTU ).
   Clauses (tags):
     mtu_value             a valid Exchange MTU Request is answered with 03 <server max>; the MTU in use IS
                           the negotiated one: a Read Response on a characteristic value carries
                           min( size, eff - 1 ) bytes, a notification / indication min( size, eff - 3 )
     mtu_rejected_changed  an Exchange MTU Request with a wrong length or a client MTU below 23 is answered
                           with 01 02 00 00 04 (and is not taken into account for the MTU in use)
     pdu_exceeds_mtu       no response, notification or indication is longer than eff
     fault                 no sanitizer / assert abort *)
From BT Require Import Base.ListX AttDb.AttDbModel NQueue.NQueueModel AttSrv.AttSrvModel AttSrv.AttSrvNotifSpec.
Local Open Scope N_scope.

Definition t08_fault := 1%nat.
Definition t08_mtu_value := 2%nat.
Definition t08_mtu_rejected_changed := 3%nat.
Definition t08_pdu_exceeds_mtu := 4%nat.

Definition mtu_error : list N := [1; 2; 0; 0; 4].

(* the clauses without the exact lengths: fault, pdu_exceeds_mtu, the answers to Exchange MTU Requests
   (C08_monitor_core_accepts_model: proved for every trace of the model) *)
Definition check08_core (c : cfg) (m : obs) (o : srv_op) (r : srv_out) : option nat :=
  match o, r with
  | _, OFault => if fault_relevant o then Some t08_fault else None
  | OpIn cid pdu n, OBytes resp =>
      if (len pdu =? 0) || (n <? default_att_mtu) then None
      else
        let k := oc_at m cid in
        if eff_size c k n <? len resp then Some t08_pdu_exceeds_mtu
        else match pdu with
             | 2 :: rest =>
                 match rest with
                 | [lo; hi] =>
                     if default_att_mtu <=? lo + 256 * hi
                     then (if bytes_eqb resp (3 :: le16 (max_mtu c)) then None else Some t08_mtu_value)
                     else (if bytes_eqb resp mtu_error then None else Some t08_mtu_rejected_changed)
                 | _ => if bytes_eqb resp mtu_error then None else Some t08_mtu_rejected_changed
                 end
             | _ => None
             end
  | OpOut cid n, OBytes pdu =>
      if eff_size c (oc_at m cid) n <? len pdu then Some t08_pdu_exceeds_mtu else None
  | _, _ => None
  end.

(* the MTU in use IS the negotiated one: exact lengths of Read Responses and notifications (tied only) *)
Definition check08_exact (c : cfg) (m : obs) (o : srv_op) (r : srv_out) : option nat :=
  match o, r with
  | OpIn cid pdu n, OBytes resp =>
      if (len pdu =? 0) || (n <? default_att_mtu) then None
      else
        let k := oc_at m cid in
        match pdu with
        | [10; lo; hi] =>
            match by_value_handle (ob_tab m) (lo + 256 * hi), resp with
            | Some g, 11 :: d =>
                if len d =? N.min (ce_size (cent_at (ob_tab m) g)) (eff_size c k n - 1) then None else Some t08_mtu_value
            | _, _ => None
            end
        | _ => None
        end
  | OpOut cid n, OBytes pdu =>
      let k := oc_at m cid in
      match pdu with
      | _ :: lo :: hi :: v =>
          match by_value_handle (ob_tab m) (lo + 256 * hi) with
          | Some g => if len v =? N.min (ce_size (cent_at (ob_tab m) g)) (eff_size c k n - 3) then None else Some t08_mtu_value
          | None => None
          end
      | _ => None
      end
  | _, _ => None
  end.

Definition check08 (c : cfg) (m : obs) (o : srv_op) (r : srv_out) : option nat :=
  match check08_core c m o r with
  | Some t => Some t
  | None => check08_exact c m o r
  end.

Definition mstep08 := mstep_of check08.
Definition monitor08 (c : cfg) (tr : list (srv_op * srv_out)) : option (nat * nat) :=
  monitor_from_of check08 c (obs_init c) O tr.
Definition monitor08_core (c : cfg) (tr : list (srv_op * srv_out)) : option (nat * nat) :=
  monitor_from_of check08_core c (obs_init c) O tr.
