(* C05: the monitor accepts every trace of the model, now including Read By Type, Read Multiple and l2cap_output
   (whose outputs the monitor scans for protected handles), for well formed configurations without
   include_service<> (there the handle mapping has its inverse laws, C04) and request bytes < 256. *)
From Coq Require Import Lia ZifyBool.
From BT Require Import Base.ListX AttDb.AttDbModel AttDb.AttDbProofs NQueue.NQueueModel AttSrv.AttSrvModel
  AttSrv.AttSrvSpecC01 AttSrv.AttSrvProofsC01 AttSrv.AttSrvSpecVal AttSrv.AttSrvProofsVal AttSrv.AttSrvSpecC05
  AttSrv.AttSrvProofsC05 AttSrv.AttSrvProofsScan.
Local Open Scope N_scope.

Definition bytes_op (o : srv_op) : bool :=
  match o with OpIn _ pdu _ => forallb (fun b => b <? 256) pdu | _ => true end.

Lemma xany_scanned c a cid op hs n : (op =? 8) || (op =? 14) = true -> snd (astep c a (OpIn cid (op :: hs) n)) = XAny.
Proof.
  intros H. unfold astep. match goal with |- snd (if ?x then _ else _) = _ => destruct x end; [reflexivity|]. unfold astep_in.
  apply orb_true_iff in H. destruct H as [H|H]; apply N.eqb_eq in H; subst op; reflexivity.
Qed.

Lemma readable_unprotected c k h : encrypted k = false -> readable_here c k h -> protected_handle c h = false.
Proof.
  intros E (a & HA & M). unfold protected_handle. rewrite HA. destruct a; try reflexivity; cbn [may_read] in M; rewrite E in M;
    rewrite spec_protected_eq; destruct (char_requires_encryption c s c0); try reflexivity; discriminate M.
Qed.

Lemma pair_handles_small hs : forallb (fun b => b <? 256) hs = true -> forall h, In h (pair_handles hs) -> h < 65536.
Proof.
  revert hs. fix IH 1. intros hs H h Hin. destruct hs as [|lo [|hi t]]; cbn [pair_handles] in Hin; try contradiction.
  cbn [forallb] in H. apply andb_true_iff in H. destruct H as [Hlo H]. apply andb_true_iff in H. destruct H as [Hhi H].
  destruct Hin as [<-|Hin]; [lia|]. eapply IH; eauto.
Qed.

Lemma existsb_false_forall (A : Type) (f : A -> bool) l : (forall x, In x l -> f x = false) -> existsb f l = false.
Proof. intros H. destruct (existsb f l) eqn:E; [|reflexivity]. apply existsb_exists in E. destruct E as (x & Hx & Fx). rewrite (H x Hx) in Fx. discriminate. Qed.

(* the judgement of one step of the model, every operation *)
Lemma judge_step_ok c st a o :
  wf c -> no_includes c -> sim c st a -> bytes_op o = true -> snd (srv_step c st o) <> OFault ->
  (sat_cond c (snd (astep c a o)) -> sat c (snd (astep c a o)) (snd (srv_step c st o))) ->
  judge c a o (snd (astep c a o)) (snd (srv_step c st o)) = Ok.
Proof.
  intros Hw Hn Sm HB NF Sat.
  destruct (plain_op o) eqn:PO; [apply judge_ok; assumption|].
  destruct o as [cid pdu n|cid n|cid e p|cid|by_uuid kd g|g|g data]; try discriminate PO.
  - (* Read By Type / Read Multiple *)
    destruct pdu as [|op hs]; [discriminate PO|].
    assert (SC : (op =? 8) || (op =? 14) = true).
    { unfold plain_op, scanned_in in PO. cbn [is_out negb andb] in PO. rewrite andb_true_r in PO. apply negb_false_iff in PO. exact PO. }
    rewrite (xany_scanned c a cid op hs n SC). cbn [srv_step] in *.
    destruct (att_input c st cid (op :: hs) n) as [[st' rs]|] eqn:EI; [|cbn in NF; contradiction]. cbn [snd].
    destruct (get_conn st cid) as [k|] eqn:G; [|unfold att_input in EI; rewrite G in EI; discriminate].
    destruct (att_input_inv _ _ _ _ _ _ _ _ _ G EI) as (Ho & b' & m & L & -> & D).
    pose proof (sim_conn c st a cid k Sm G) as K.
    unfold judge. cbv zeta. rewrite K. cbn [ac_enc ac_pair aconn_of_conn].
    destruct (op =? 8) eqn:E8.
    + apply N.eqb_eq in E8. subst op. cbn [N.eqb Pos.eqb] in D.
      destruct (takeN m b') as [|r0 t0] eqn:ET; [reflexivity|].
      destruct (N.eq_dec r0 9) as [->|N9].
      2:{ destruct r0 as [|p9]; [destruct t0 as [|? ?]; reflexivity|].
          repeat (destruct p9 as [p9|p9|]; try (destruct t0 as [|? ?]; reflexivity)); try contradiction. }
      destruct t0 as [|l entries]; [reflexivity|].
      destruct (encrypted k) eqn:EK; [reflexivity|]. cbn [negb andb].
      rewrite existsb_false_forall; [reflexivity|]. intros h Hin. apply (readable_unprotected c k h EK).
      eapply (read_by_type_handles c st cid k (8 :: hs) _ _ st' b' m Hw Hn G Ho); eauto.
      rewrite AttSrvProofsC01.len_repeat. lia.
    + destruct (op =? 14) eqn:E14; [|discriminate SC]. apply N.eqb_eq in E14. subst op. cbn [N.eqb Pos.eqb] in D.
      destruct (read_multiple_handles c st cid k hs _ _ st' b' m G Ho D L) as [RS RE].
      destruct (takeN m b') as [|r0 t0] eqn:ET; [reflexivity|].
      destruct (N.eq_dec r0 15) as [->|N15].
      * destruct (encrypted k) eqn:EK; [reflexivity|]. cbn [negb andb].
        rewrite existsb_false_forall; [reflexivity|]. intros h Hin. apply (readable_unprotected c k h EK). eapply RS; eauto.
      * destruct (N.eq_dec r0 1) as [->|N1].
        2:{ destruct r0 as [|p9]; try reflexivity. repeat (destruct p9 as [p9|p9|]; try reflexivity); try contradiction. }
        destruct t0 as [|o1 t1]; [reflexivity|].
        destruct (N.eq_dec o1 14) as [->|N14].
        2:{ destruct o1 as [|p9]; try reflexivity. repeat (destruct p9 as [p9|p9|]; try reflexivity); try contradiction. }
        destruct t1 as [|lo [|hi [|e [|x t2]]]]; try reflexivity.
        destruct (encrypted k) eqn:EK; [reflexivity|]. cbn [negb andb].
        destruct (RE lo hi e eq_refl) as [(h & code & Ih & EQ & X)|(-> & -> & ->)].
        -- assert (Hh : h < 65536).
           { cbn [bytes_op forallb] in HB. apply andb_true_iff in HB. destruct HB as [_ HB]. exact (pair_handles_small hs HB h Ih). }
           inversion EQ; subst lo hi e. replace (h mod 256 + 256 * ((h / 256) mod 256)) with h by nlia.
           destruct (protected_handle c h) eqn:PH; [|reflexivity]. cbn [andb].
           destruct X as [X|(a0 & st0 & st1 & rc & d & mm & HA & G0 & ER & NS & ->)].
           ++ unfold protected_handle in PH. rewrite X in PH. discriminate PH.
           ++ assert (PA : protected_attr c a0 = true).
              { unfold protected_handle in PH. rewrite HA in PH. destruct a0; try discriminate PH; cbn [protected_attr]; rewrite <- spec_protected_eq; exact PH. }
              destruct (protected_read_refused c st0 cid k a0 _ _ _ _ _ _ G0 EK PA ER) as (_ & -> & _). cbn [att_code]. unfold sec_code.
              unfold err_insufficient_authentication, err_insufficient_encryption. destruct (pairing k =? 0); reflexivity.
        -- replace (protected_handle c (0 + 256 * 0)) with false by reflexivity. reflexivity.
  - (* l2cap_output *)
    cbn [srv_step astep snd] in *. destruct (att_output c st cid n) as [[st' r]|] eqn:EO; [|cbn in NF; contradiction]. cbn [snd].
    unfold judge. destruct r as [|op [|lo [|hi t]]]; try reflexivity.
    destruct (get_conn st cid) as [k|] eqn:G; [|unfold att_output in EO; rewrite G in EO; discriminate].
    rewrite (sim_conn c st a cid k Sm G). cbn [ac_enc aconn_of_conn].
    destruct (encrypted k) eqn:EK; [rewrite andb_false_r; reflexivity|].
    rewrite (readable_unprotected c k (lo + 256 * hi) EK); [rewrite andb_false_r; reflexivity|].
    eapply att_output_handle; eauto.
Qed.

Definition all_bytes (ops : list srv_op) : bool := forallb bytes_op ops.

(* every history: Read By Type, Read Multiple and l2cap_output included *)
Theorem monitor_sound_all c ops :
  wf c -> no_includes c -> all_bytes ops = true -> monitor c (srv_run c (srv_init c) ops) = None.
Proof.
  intros Hw Hn HB. unfold monitor, monitor_from, minit.
  apply (monitor_sound_with_step judge bytes_op).
  - intros st a o Sm Po NF Sat. apply (judge_step_ok c st a o Hw Hn Sm Po NF Sat).
  - apply sim_init.
  - exact HB.
Qed.
