(* No FAULT for the primary service discovery requests in every reachable state (used to drop the "no FAULT"
   premise of the C03 monitor theorem).
   Part N1  every reachable state has three connections whose client MTU is >= 23
   Part N2  Read By Group Type and Find By Type Value never fault on such a state *)
From Coq Require Import Lia ZifyBool.
From BT Require Import Base.ListX AttDb.AttDbModel AttDb.AttDbSpec AttDb.AttDbProofs NQueue.NQueueModel
  AttSrv.AttSrvModel AttSrv.AttSrvSpecC02 AttSrv.AttSrvSpecC03 AttSrv.AttSrvProofsC02 AttSrv.AttSrvProofsC03
  AttSrv.AttSrvProofsDiscMon.
From BT Require AttSrv.AttSrvProofsC01.
Local Open Scope N_scope.

(* ================================================================== Part N1 *)
Definition conns_ok (st : srv_state) : Prop :=
  length (conns st) = n_conns /\ Forall (fun k => 23 <= client_mtu k) (conns st).

Lemma ok_same st st' : conns st' = conns st -> conns_ok st -> conns_ok st'.
Proof. unfold conns_ok. intros ->. auto. Qed.

Lemma Forall_upd (A : Type) (P : A -> Prop) l i v : Forall P l -> P v -> Forall P (upd l i v).
Proof.
  revert i; induction l as [|x t IH]; intros i H Hv; [constructor|].
  inversion H; subst. destruct i; cbn [upd]; constructor; auto.
Qed.

Lemma ok_set_conn st cid k : conns_ok st -> 23 <= client_mtu k -> conns_ok (set_conn st cid k).
Proof.
  intros [H1 H2] Hk. unfold conns_ok, set_conn. cbn [conns]. split; [rewrite upd_length; exact H1|apply Forall_upd; auto].
Qed.

Lemma ok_get st cid k : conns_ok st -> get_conn st cid = Some k -> 23 <= client_mtu k.
Proof.
  intros [_ H] Hg. unfold get_conn in Hg. apply nth_error_In in Hg. rewrite Forall_forall in H. apply H. exact Hg.
Qed.

Lemma ok_get_some st cid : conns_ok st -> (cid < n_conns)%nat -> exists k, get_conn st cid = Some k /\ 23 <= client_mtu k.
Proof.
  intros Hok Hc. unfold get_conn. destruct (nth_error (conns st) cid) as [k|] eqn:E.
  - exists k. split; [reflexivity|]. eapply ok_get; eauto.
  - apply nth_error_None in E. destruct Hok as [H _]. lia.
Qed.

Lemma ok_nq_step st cid k o : conns_ok st -> get_conn st cid = Some k -> conns_ok (set_conn st cid (fst (nq_step k o))).
Proof.
  intros Hok Hg. apply ok_set_conn; auto. unfold nq_step. destruct (NQueueModel.step (nq k) o). cbn [fst client_mtu]. eapply ok_get; eauto.
Qed.

Lemma value_write_conns c st sec s ch gci off data : conns (fst (value_write c st sec s ch gci off data)) = conns st.
Proof.
  unfold value_write. destruct (security_check _ _ _); try reflexivity.
  destruct (c_value ch); try reflexivity.
  - destruct (is_const || c_no_write ch); [reflexivity|]. destruct (mem_write _ _ _). reflexivity.
  - destruct (negb wr); [reflexivity|]. destruct (negb blob && negb (off =? 0)); [reflexivity|].
    destruct (mem_write _ _ _). reflexivity.
Qed.

Lemma access_write_ok c st cid a off data st' r :
  conns_ok st -> access_write c st cid a off data = Some (st', r) -> conns_ok st'.
Proof.
  intros Hok. unfold access_write. destruct (get_conn st cid) as [k|] eqn:Eg; [|discriminate]. cbv zeta.
  destruct a; intros H; try (inversion H; subst; exact Hok).
  - inversion H. pose proof (value_write_conns c st (encrypted k, pairing k) s c0 gci off data) as X.
    rewrite H1 in X. cbn [fst] in X. eapply ok_same; eauto.
  - destruct (security_check _ _ _); try (inversion H; subst; exact Hok).
    unfold cccd_write in H. destruct (2 <? off); [inversion H; subst; exact Hok|].
    destruct (2 <? len data + off); [inversion H; subst; exact Hok|].
    destruct (off =? 0); inversion H; subst; [|exact Hok].
    apply ok_set_conn; auto. cbn [client_mtu]. eapply ok_get; eauto.
Qed.

Lemma execute_writes_ok c cid elems : forall st st' f, conns_ok st -> execute_writes c st cid elems = Some (st', f) -> conns_ok st'.
Proof.
  induction elems as [|e t IH]; intros st st' f Hok H; cbn [execute_writes] in H; [inversion H; subst; exact Hok|].
  AttSrvProofsC01.mon. apply access_write_ok in E2; auto. destruct a0; [eapply IH; eauto| |]; inversion H; subst; exact E2.
Qed.

Lemma wq_free_conns st cid : conns (wq_free st cid) = conns st.
Proof. unfold wq_free. destruct (wq_owner st); [destruct (Nat.eqb n cid)|]; reflexivity. Qed.

Lemma all_attributes_conns c cid f e last eh : forall fuel st k index st' k',
  all_attributes fuel c st cid f k e index last eh = Some (st', k') -> conns st' = conns st.
Proof.
  induction fuel as [|n IH]; intros st k index st' k' H; cbn [all_attributes] in H; [inversion H; reflexivity|].
  destruct ((index <=? last) && (handle_by_index c index <=? eh)); [|inversion H; reflexivity].
  destruct (attribute_at c index); [|discriminate]. destruct (uuid_filter_match f a).
  - destruct (collect_attribute c st cid k e index a) as [[st1 k1]|] eqn:Ec; [|discriminate].
    destruct (collect_attribute_first _ _ _ _ _ _ _ _ _ Ec) as (C1 & _). rewrite (IH _ _ _ _ _ H). exact C1.
  - eapply IH; eauto.
Qed.

Lemma read_multiple_loop_conns c cid opcode b0 out_size : forall hs st b p st' r,
  read_multiple_loop c st cid opcode hs b0 b p out_size = Some (st', r) -> conns st' = conns st.
Proof.
  fix IH 1. intros hs st b p st' r H. destruct hs as [|lo [|hi t]]; cbn [read_multiple_loop] in H; try (inversion H; reflexivity).
  cbv zeta in H. destruct (lo + 256 * hi =? 0); [AttSrvProofsC01.mon; reflexivity|].
  destruct (index_by_handle c (lo + 256 * hi) =? invalid_index); [AttSrvProofsC01.mon; reflexivity|].
  destruct (attribute_at c _); [|discriminate]. destruct (access_read c st cid a _ 0 _) as [[[st1 rc] d]|] eqn:Ea; [|discriminate].
  pose proof (access_read_conns _ _ _ _ _ _ _ _ _ _ Ea) as X. destruct rc.
  - destruct (put b p d); [|discriminate]. destruct (out_size <? p + len d); [discriminate|]. rewrite (IH _ _ _ _ _ _ H). exact X.
  - AttSrvProofsC01.mon. exact X.
  - AttSrvProofsC01.mon. exact X.
Qed.

Ltac mon := AttSrvProofsC01.mon.

Lemma handle_read_common_conns c st cid pdu b out_size rsp h i off st' r :
  handle_read_common c st cid pdu b out_size rsp h i off = Some (st', r) -> conns st' = conns st.
Proof.
  unfold handle_read_common. intros H. mon. apply access_read_conns in E1. destruct a0; mon; exact E1.
Qed.

Lemma att_input_ok c st cid pdu n st' rs : conns_ok st -> att_input c st cid pdu n = Some (st', rs) -> conns_ok st'.
Proof.
  intros Hok. unfold att_input. destruct (get_conn st cid) as [k|] eqn:Eg; [|discriminate]. cbv zeta.
  destruct (len pdu =? 0); [discriminate|]. destruct (N.min n (negotiated_mtu c k) <? default_att_mtu); [discriminate|].
  destruct (rd pdu 0) as [opcode|]; [|discriminate]. cbv beta iota.
  set (b := repeat fill_byte (N.to_nat n)). set (os := N.min n (negotiated_mtu c k)).
  intros H.
  match type of H with match ?r with _ => _ end = _ => destruct r as [[s1 [b' nn]]|] eqn:Hr; [|discriminate H] end.
  destruct (nn <=? len b'); [|discriminate H]. inversion H; subst s1 rs; clear H.
  destruct (opcode =? 1); [inversion Hr; subst; exact Hok|].
  destruct (opcode =? 2).
  { unfold handle_exchange_mtu in Hr. mon. destruct (negb (len pdu =? 3)); [mon; exact Hok|]. mon.
    match type of Hr with context [if ?m <? default_att_mtu then _ else _] => destruct (m <? default_att_mtu) eqn:Em end; [mon; exact Hok|].
    mon. apply ok_set_conn; auto. cbn [client_mtu]. unfold default_att_mtu in Em. lia. }
  destruct (opcode =? 4); [mon; exact Hok|].
  destruct (opcode =? 6); [mon; exact Hok|].
  destruct (opcode =? 8).
  { unfold handle_read_by_type in Hr. mon. destruct c0 as [f|[sh eh]]; mon; [exact Hok|].
    match goal with X : all_attributes _ _ _ _ _ _ _ _ _ _ = Some _ |- _ => apply all_attributes_conns in X end.
    destruct (negb (co_cur c0 =? 2)); mon; eapply ok_same; eauto. }
  destruct (opcode =? 10).
  { unfold handle_read in Hr. mon. destruct c0 as [f|[h i]]; mon; [exact Hok|]. apply handle_read_common_conns in Hr. eapply ok_same; eauto. }
  destruct (opcode =? 12).
  { unfold handle_read_blob in Hr. mon. destruct c0 as [f|[h i]]; mon; [exact Hok|]. apply handle_read_common_conns in Hr. eapply ok_same; eauto. }
  destruct (opcode =? 16); [mon; exact Hok|].
  destruct (opcode =? 14).
  { unfold handle_read_multiple in Hr. mon. destruct ((len pdu <? 5) || (len pdu mod 2 =? 0)); mon; [exact Hok|].
    apply read_multiple_loop_conns in Hr. eapply ok_same; eauto. }
  assert (Hwr : forall s2 r2, handle_write_request c st cid pdu b os = Some (s2, r2) -> conns_ok s2).
  { intros s2 r2 Hw. unfold handle_write_request in Hw. mon. destruct (len pdu <? 3); mon; [exact Hok|].
    destruct c0 as [f|[h i]]; mon; [exact Hok|]. apply access_write_ok in E3; auto. destruct a0; mon; exact E3. }
  destruct (opcode =? 18); [eapply Hwr; eauto|].
  destruct (opcode =? 82).
  { unfold handle_write_command in Hr. destruct (handle_write_request c st cid pdu b os) as [[s2 [b2 n2]]|] eqn:Ew; [|discriminate].
    inversion Hr; subst. eapply Hwr; eauto. }
  destruct (opcode =? 22).
  { unfold handle_prepare_write in Hr. mon. destruct (wqueue c); mon; [|exact Hok].
    destruct (len pdu <? 5); mon; [exact Hok|]. destruct c0 as [f|[h i]]; mon; [exact Hok|].
    match goal with X : access_check_write _ _ _ _ = Some (?s2, _) |- _ => unfold access_check_write in X; apply access_write_ok in X; auto; rename X into Hs2 end.
    destruct a0; mon; try exact Hs2.
    match type of Hr with context [wq_allocate ?q ?s1 ?c1 ?e1] => destruct (wq_allocate q s1 c1 e1) as [s3|] eqn:Ea end; mon; [|exact Hs2].
    unfold wq_allocate in Ea. cbv zeta in Ea.
    match type of Ea with (if ?x then _ else _) = _ => destruct x; [discriminate|] end. inversion Ea; subst. exact Hs2. }
  destruct (opcode =? 24).
  { unfold handle_execute_write in Hr. mon. destruct (wqueue c); mon; [|exact Hok].
    destruct (negb (len pdu =? 2)); mon; [exact Hok|].
    match type of Hr with context [if negb (?f =? 0) && negb (?f =? 1) then _ else _] => destruct (negb (f =? 0) && negb (f =? 1)) end; mon; [exact Hok|].
    match goal with X : (if ?cnd then execute_writes _ _ _ _ else Some (st, None)) = Some (?s1, _) |- _ =>
      assert (Hs : conns_ok s1) by (destruct cnd; [eapply execute_writes_ok; eauto|mon; exact Hok]) end.
    match goal with o : option (N * N) |- _ => destruct o as [[h code]|] end; mon; (eapply ok_same; [apply wq_free_conns|exact Hs]). }
  destruct (opcode =? 30).
  { unfold handle_confirmation in Hr. mon. destruct (negb (len pdu =? 1)); mon; [exact Hok|]. eapply ok_nq_step; eauto. }
  mon. exact Hok.
Qed.

Lemma unsent_indication_ok st cid kd : conns_ok st -> conns_ok (unsent_indication st cid kd).
Proof.
  intros Hok. unfold unsent_indication. destruct kd; [exact Hok|]. destruct (get_conn st cid) eqn:E; [|exact Hok]. eapply ok_nq_step; eauto.
Qed.

Lemma att_output_ok c st cid n st' rs : conns_ok st -> att_output c st cid n = Some (st', rs) -> conns_ok st'.
Proof.
  intros Hok. unfold att_output. destruct (get_conn st cid) as [k|] eqn:Eg; [|discriminate]. cbv zeta.
  pose proof (ok_nq_step st cid k Dequeue Hok Eg) as H1.
  destruct (nq_step k Dequeue) as [k1 r] eqn:En. cbn [fst] in H1.
  destruct r as [|[[kd i]|]|]; try (intros H; inversion H; subst; exact H1).
  destruct (find_notification_data_by_index c (N.of_nat i)) as [ai ci].
  match goal with |- (if ?x then _ else _) = _ -> _ => destruct x end.
  - intros H. mon. apply access_read_conns in E0. assert (Hs : conns_ok s) by (eapply ok_same; eauto).
    destruct a0; mon; [exact Hs|apply unsent_indication_ok; exact Hs|apply unsent_indication_ok; exact Hs].
  - intros H. inversion H; subst. apply unsent_indication_ok. exact H1.
Qed.

Lemma queue_all_ok l o : Forall (fun k => 23 <= client_mtu k) l ->
  length (fst (queue_all l o)) = length l /\ Forall (fun k => 23 <= client_mtu k) (fst (queue_all l o)).
Proof.
  induction l as [|k t IH]; intros H; cbn [queue_all]; [split; [reflexivity|constructor]|].
  inversion H; subst. destruct (IH H3) as [I1 I2].
  unfold nq_step. destruct (NQueueModel.step (nq k) o). destruct (queue_all t o). cbn [fst length] in *.
  split; [lia|constructor; auto].
Qed.

Lemma request_ok st kd d : conns_ok st -> conns_ok (fst (request st kd d)).
Proof.
  intros [H1 H2]. unfold request. cbv zeta.
  pose proof (queue_all_ok (conns st) (match kd with KNotif => QueueN (N.to_nat (snd d)) | KInd => QueueI (N.to_nat (snd d)) end) H2) as [I1 I2].
  destruct (queue_all (conns st) _). cbn [fst] in *. unfold conns_ok. cbn [conns]. split; [lia|exact I2].
Qed.

Lemma srv_init_ok c : conns_ok (srv_init c).
Proof.
  unfold conns_ok, srv_init. cbn [conns]. split; [reflexivity|]. unfold n_conns. cbn [repeat].
  assert (23 <= client_mtu (init_conn c)) by (unfold init_conn, default_att_mtu; cbn [client_mtu]; lia).
  repeat constructor; assumption.
Qed.

Lemma srv_step_ok c st o : conns_ok st -> conns_ok (fst (srv_step c st o)).
Proof.
  intros Hok. destruct o; cbn [srv_step].
  - destruct (att_input c st cid pdu out_size) as [[st' r]|] eqn:E; cbn [fst]; [eapply att_input_ok; eauto|exact Hok].
  - destruct (att_output c st cid out_size) as [[st' r]|] eqn:E; cbn [fst]; [eapply att_output_ok; eauto|exact Hok].
  - destruct (get_conn st cid) as [k|] eqn:E; cbn [fst]; [|exact Hok]. apply ok_set_conn; auto. cbn [client_mtu]. eapply ok_get; eauto.
  - cbn [fst]. apply ok_set_conn; [eapply ok_same; [apply wq_free_conns|exact Hok]|]. unfold init_conn, default_att_mtu. cbn [client_mtu]. lia.
  - destruct by_uuid.
    + destruct (by_uuid_available c kd gci); [|exact Hok]. unfold notify_by_uuid.
      destruct (nth_error (all_chars c) gci); cbn [fst]; [|exact Hok].
      destruct (find_notification_by_uuid c _); cbn [fst]; [|exact Hok].
      pose proof (request_ok st kd p0 Hok) as X. destruct (request st kd p0). exact X.
    + destruct (by_value_available c gci); [|exact Hok]. unfold notify_by_value.
      destruct (find_notification_data c gci); cbn [fst]; [|exact Hok].
      pose proof (request_ok st kd p Hok) as X. destruct (request st kd p). exact X.
  - destruct (has_var c gci) as [[? ?]|]; exact Hok.
  - destruct (has_var c gci) as [[[|] ?]|]; cbn [fst]; try exact Hok.
Qed.

(* ================================================================== Part N2: the two handlers never fault *)
Lemma rpsr_total c s b out e index is128 :
  out <= e -> e <= len b ->
  exists b' out', read_primary_service_response c s b out e index is128 = Some (b', out') /\ out <= out' /\ out' <= e /\ len b' = len b.
Proof.
  intros H1 H2. unfold read_primary_service_response. cbv zeta.
  destruct (Bool.eqb is128 (is_128bit (s_uuid s)) && ((if is128 then 20 else 6) <=? e - out)) eqn:Ec.
  - apply andb_true_iff in Ec. destruct Ec as [_ Ec].
    assert (Hsz : 6 <= e - out) by (destruct is128; lia).
    destruct (AttSrvProofsC01.put_ok b out (le16 (handle_by_index c index) ++ le16 (handle_by_index c (index + svc_nattrs s - 1)))) as [b1 P1];
      [unfold len, le16; cbn [app length]; unfold len in H2; lia|].
    rewrite P1. destruct (mem_read (uuid_bytes (s_uuid s)) 0 (e - (out + 4))) as [rc d] eqn:Em.
    pose proof (AttSrvProofsC01.mem_read_len _ _ _ _ _ Em) as Hd. pose proof (put_length _ _ _ _ P1) as L1.
    destruct (AttSrvProofsC01.put_ok b1 (out + 4) d) as [b2 P2]; [lia|]. rewrite P2.
    pose proof (put_length _ _ _ _ P2) as L2. eexists _, _. split; [reflexivity|]. repeat split; lia.
  - eexists _, _. split; [reflexivity|]. repeat split; lia.
Qed.

Lemma cps_total c si eh e : forall ss k,
  2 <= pc_out k -> pc_out k <= e -> e <= len (pc_buf k) ->
  exists k', collect_primary_services c ss k si eh e = Some k' /\ pc_out k' <= e /\ len (pc_buf k') = len (pc_buf k).
Proof.
  induction ss as [|s t IH]; intros k H1 H2 H3; cbn [collect_primary_services]; [eexists; split; [reflexivity|]; split; [lia|reflexivity]|].
  cbv zeta. destruct (negb (pc_stopped k) && negb (s_secondary s) && (negb (si =? invalid_index) && (si <=? pc_index k)) && (handle_by_index c (pc_index k) <=? eh)).
  - assert (Hb1 : exists b1, (if pc_first k then put (pc_buf k) 1 [if is_128bit (s_uuid s) then 20 else 6] else Some (pc_buf k)) = Some b1 /\ len b1 = len (pc_buf k)).
    { destruct (pc_first k); [|eexists; split; reflexivity].
      destruct (AttSrvProofsC01.put_ok (pc_buf k) 1 [if is_128bit (s_uuid s) then 20 else 6]) as [b1 P]; [unfold len at 1; cbn [length]; lia|].
      exists b1. split; [exact P|eapply put_length; eauto]. }
    destruct Hb1 as (b1 & E1 & L1). rewrite E1.
    destruct (rpsr_total c s b1 (pc_out k) e (pc_index k) (if pc_first k then is_128bit (s_uuid s) else pc_is128 k) H2 ltac:(lia)) as (b2 & out2 & E2 & O1 & O2 & L2).
    rewrite E2. destruct (IH (mkPC b2 out2 (pc_index k + svc_nattrs s) (if pc_first k then false else negb (Bool.eqb (pc_is128 k) (is_128bit (s_uuid s)))) false (if pc_first k then is_128bit (s_uuid s) else pc_is128 k))
        ltac:(cbn [pc_out]; lia) ltac:(cbn [pc_out]; lia) ltac:(cbn [pc_buf]; lia)) as (k' & E3 & O3 & L3).
    exists k'. split; [exact E3|]. cbn [pc_out pc_buf] in *. split; lia.
  - destruct (IH (mkPC (pc_buf k) (pc_out k) (pc_index k + svc_nattrs s) (pc_stopped k) (pc_first k) (pc_is128 k))
        ltac:(cbn [pc_out]; lia) ltac:(cbn [pc_out]; lia) ltac:(cbn [pc_buf]; lia)) as (k' & E3 & O3 & L3).
    exists k'. split; [exact E3|]. cbn [pc_out pc_buf] in *. split; lia.
Qed.

Lemma check_range_total c pdu b out_size sa sb :
  1 <= len pdu -> (len pdu = sa \/ len pdu = sb) -> 5 <= sa -> 5 <= sb -> 5 <= len b ->
  exists chk, check_size_and_handle_range c pdu b out_size sa sb = Some chk
    /\ match chk with Failed r => snd r <= 5 /\ len (fst r) = len b | Passed _ => True end.
Proof.
  intros Hl Hs Ha Hb H5. unfold check_size_and_handle_range.
  destruct (AttSrvProofsC01.rd_ok pdu 0 ltac:(lia)) as [op E0]. rewrite E0.
  replace (negb (len pdu =? sa) && negb (len pdu =? sb)) with false by (destruct Hs as [-> | ->]; rewrite N.eqb_refl; cbn; rewrite ?andb_false_r; reflexivity).
  assert (L5 : 5 <= len pdu) by (destruct Hs; lia).
  assert (R1 : exists v, rd16 pdu 1 = Some v).
  { unfold rd16. destruct (AttSrvProofsC01.rd_ok pdu 1 ltac:(lia)) as [x1 X1]. destruct (AttSrvProofsC01.rd_ok pdu (1 + 1) ltac:(lia)) as [x2 X2]. rewrite X1, X2. eauto. }
  assert (R3 : exists v, rd16 pdu 3 = Some v).
  { unfold rd16. destruct (AttSrvProofsC01.rd_ok pdu 3 ltac:(lia)) as [x1 X1]. destruct (AttSrvProofsC01.rd_ok pdu (3 + 1) ltac:(lia)) as [x2 X2]. rewrite X1, X2. eauto. }
  destruct R1 as [sh R1]. destruct R3 as [eh' R3]. rewrite R1, R3.
  destruct ((sh =? 0) || (eh' <? sh)).
  - destruct (AttSrvProofsC01.error_response_ok op err_invalid_handle sh b out_size H5) as (r & E & X). rewrite E. eexists. split; [reflexivity|exact X].
  - destruct (first_index_by_handle c sh =? invalid_index).
    + destruct (AttSrvProofsC01.error_response_ok op err_attribute_not_found sh b out_size H5) as (r & E & X). rewrite E. eexists. split; [reflexivity|exact X].
    + eexists. split; [reflexivity|exact I].
Qed.

Lemma rbg_total c a b0 x y b out_size :
  23 <= out_size -> out_size <= len b ->
  exists r, handle_read_by_group_type c [16; a; b0; x; y; 0; 40] b out_size = Some r /\ snd r <= len (fst r).
Proof.
  intros Ho Hb. unfold handle_read_by_group_type.
  assert (Q1 : 1 <= len [16; a; b0; x; y; 0; 40]) by (unfold len; cbn; lia).
  assert (Q2 : len [16; a; b0; x; y; 0; 40] = 7 \/ len [16; a; b0; x; y; 0; 40] = 21) by (left; reflexivity).
  destruct (check_range_total c [16; a; b0; x; y; 0; 40] b out_size 7 21 Q1 Q2 ltac:(lia) ltac:(lia) ltac:(lia)) as (chk & Ec & Hc).
  rewrite Ec. destruct chk as [r|[sh eh]].
  - exists r. split; [reflexivity|]. destruct Hc. lia.
  - change (rd [16; a; b0; x; y; 0; 40] 0) with (Some 16). change (rd16 [16; a; b0; x; y; 0; 40] 5) with (Some 10240).
    cbn -[error_response collect_primary_services put first_index_by_handle].
    destruct (AttSrvProofsC01.put_ok b 0 [17]) as [b1 P1]; [unfold len at 1; cbn [length]; lia|]. rewrite P1.
    pose proof (put_length _ _ _ _ P1) as L1.
    destruct (cps_total c (first_index_by_handle c sh) eh out_size (services c) (mkPC b1 2 (first_index_by_handle c 1) false true true))
      as (k' & E & O & L); cbn [pc_out pc_buf]; try lia.
    rewrite E. cbn [pc_out pc_buf] in *. destruct (pc_out k' =? 2).
    + destruct (AttSrvProofsC01.error_response_ok 16 err_attribute_not_found sh (pc_buf k') out_size ltac:(lia)) as (r & Er & X1 & X2).
      rewrite Er. exists r. split; [reflexivity|lia].
    + eexists. split; [reflexivity|]. cbn [fst snd]. lia.
Qed.

Lemma sbg_total c st cid si ei value e : wf c -> no_includes c -> forall ss index b cur found,
  index + sumN svc_nattrs ss = number_of_attributes c -> 1 <= cur -> cur <= e -> e <= len b ->
  exists b' cur' f', services_by_group c st cid ss index si ei value b cur e found = Some (b', cur', f')
                     /\ cur <= cur' /\ cur' <= e /\ len b' = len b.
Proof.
  intros Hw Hn. induction ss as [|s t IH]; intros index b cur found HI H1 H2 H3; cbn [services_by_group].
  - eexists _, _, _. split; [reflexivity|]. repeat split; lia.
  - cbn [sumN] in HI. pose proof (svc_nattrs_pos s) as Hp. cbv zeta.
    assert (Hrec : forall b1 cur1 f1, cur <= cur1 -> cur1 <= e -> len b1 = len b ->
              exists b' cur' f', services_by_group c st cid t (index + svc_nattrs s) si ei value b1 cur1 e f1 = Some (b', cur', f')
                                 /\ cur <= cur' /\ cur' <= e /\ len b' = len b).
    { intros b1 cur1 f1 X1 X2 X3. destruct (IH (index + svc_nattrs s) b1 cur1 f1 ltac:(lia) ltac:(lia) X2 ltac:(lia)) as (b' & cur' & f' & E & Y1 & Y2 & Y3).
      eexists _, _, _. split; [exact E|]. repeat split; lia. }
    destruct ((negb (si =? invalid_index) && (si <=? index)) && (handle_by_index c index <=? ei)); [|apply Hrec; lia].
    destruct (table_nth c index Hw Hn ltac:(lia)) as (a & Ha & _). rewrite Ha.
    destruct (negb (attr_uuid a =? uuid_primary_service)); [apply Hrec; lia|].
    destruct (access_compare_value c st cid a value); try (apply Hrec; lia).
    destruct (4 <=? e - cur) eqn:E4; [|apply Hrec; lia].
    destruct (AttSrvProofsC01.put_ok b cur (le16 (handle_by_index c index) ++ le16 (handle_by_index c (index + svc_nattrs s - 1)))) as [b1 P1];
      [unfold len, le16; cbn [app length]; unfold len in H3; lia|].
    rewrite P1. pose proof (put_length _ _ _ _ P1). apply Hrec; lia.
Qed.

Lemma fbtv_total c st cid a b0 x y v b out_size :
  wf c -> no_includes c -> (length v = 2 \/ length v = 16)%nat -> 23 <= out_size -> out_size <= len b ->
  exists r, handle_find_by_type_value c st cid (6 :: a :: b0 :: x :: y :: 0 :: 40 :: v) b out_size = Some r /\ snd r <= len (fst r).
Proof.
  intros Hw Hn Hv Ho Hb. unfold handle_find_by_type_value.
  destruct (rd_prefix5 6 a b0 x y (0 :: 40 :: v)) as (R0 & R1 & R3). destruct (rd_prefix7 6 a b0 x y 0 40 v) as (R5 & Rs & Rl).
  cbv zeta in R0, R1, R3, R5, Rs, Rl. set (pdu := 6 :: a :: b0 :: x :: y :: 0 :: 40 :: v) in *.
  assert (Q2 : len pdu = 9 \/ len pdu = 23) by (rewrite Rl; unfold len; destruct Hv as [-> | ->]; [left|right]; reflexivity).
  destruct (check_range_total c pdu b out_size 9 23 ltac:(destruct Q2; lia) Q2 ltac:(lia) ltac:(lia) ltac:(lia)) as (chk & Ec & Hc).
  rewrite Ec. destruct chk as [r|[sh eh]].
  - exists r. split; [reflexivity|]. destruct Hc. lia.
  - rewrite R0, R5, Rs. change (negb (0 + 256 * 40 =? uuid_primary_service)) with false. cbv iota beta.
    destruct (sbg_total c st cid (first_index_by_handle c sh) eh v out_size Hw Hn (services c) 0 b 1 false ltac:(unfold number_of_attributes; lia) ltac:(lia) ltac:(lia) Hb)
      as (b1 & cur & f & E & C1 & C2 & L).
    rewrite E. destruct f.
    + destruct (AttSrvProofsC01.put_ok b1 0 [7]) as [b2 P]; [unfold len at 1; cbn [length]; lia|]. rewrite P.
      pose proof (put_length _ _ _ _ P). eexists. split; [reflexivity|]. cbn [fst snd].
      pose proof (N.mod_le (cur - 1) 256 ltac:(lia)). lia.
    + destruct (AttSrvProofsC01.error_response_ok 6 err_attribute_not_found sh b1 out_size ltac:(lia)) as (r & Er & X1 & X2).
      rewrite Er. exists r. split; [reflexivity|lia].
Qed.

(* l2cap_input on a good state *)
Lemma att_input_total_group c st cid a b0 x y n :
  wf c -> conns_ok st -> (cid < n_conns)%nat -> 23 <= n ->
  att_input c st cid [16; a; b0; x; y; 0; 40] n <> None.
Proof.
  intros Hw Hok Hc Hn. destruct (ok_get_some st cid Hok Hc) as (k & Hk & Hm).
  unfold att_input. rewrite Hk. cbv zeta.
  assert (Hmtu : 23 <= max_mtu c).
  { unfold wf, wf_b in Hw. repeat (apply andb_true_iff in Hw; destruct Hw as [Hw ?]). unfold default_att_mtu in *. lia. }
  change (len [16; a; b0; x; y; 0; 40] =? 0) with false. cbv iota.
  replace (N.min n (negotiated_mtu c k) <? default_att_mtu) with false by (unfold negotiated_mtu, default_att_mtu; lia).
  change (rd [16; a; b0; x; y; 0; 40] 0) with (Some 16). cbn [N.eqb Pos.eqb].
  destruct (rbg_total c a b0 x y (repeat fill_byte (N.to_nat n)) (N.min n (negotiated_mtu c k))) as (r & E & L);
    [unfold negotiated_mtu; lia|rewrite len_repeat_N; lia|].
  rewrite E. destruct r as [b' nn]. cbn [fst snd] in L. replace (nn <=? len b') with true by lia. discriminate.
Qed.

Lemma att_input_total_value c st cid a b0 x y v n :
  wf c -> no_includes c -> conns_ok st -> (cid < n_conns)%nat -> 23 <= n -> (length v = 2 \/ length v = 16)%nat ->
  att_input c st cid (6 :: a :: b0 :: x :: y :: 0 :: 40 :: v) n <> None.
Proof.
  intros Hw Hni Hok Hc Hn Hv. destruct (ok_get_some st cid Hok Hc) as (k & Hk & Hm).
  unfold att_input. rewrite Hk. cbv zeta.
  assert (Hmtu : 23 <= max_mtu c).
  { unfold wf, wf_b in Hw. repeat (apply andb_true_iff in Hw; destruct Hw as [Hw ?]). unfold default_att_mtu in *. lia. }
  change (len (6 :: a :: b0 :: x :: y :: 0 :: 40 :: v) =? 0) with false. cbv iota.
  replace (N.min n (negotiated_mtu c k) <? default_att_mtu) with false by (unfold negotiated_mtu, default_att_mtu; lia).
  change (rd (6 :: a :: b0 :: x :: y :: 0 :: 40 :: v) 0) with (Some 6). cbn [N.eqb Pos.eqb].
  destruct (fbtv_total c st cid a b0 x y v (repeat fill_byte (N.to_nat n)) (N.min n (negotiated_mtu c k)) Hw Hni Hv) as (r & E & L);
    [unfold negotiated_mtu; lia|rewrite len_repeat_N; lia|].
  rewrite E. destruct r as [b' nn]. cbn [fst snd] in L. replace (nn <=? len b') with true by lia. discriminate.
Qed.

(* ================================================================== the C03 monitor theorem without premise on the outputs *)
Definition op_conn (o : srv_op) : bool := match o with OpIn cid _ _ => Nat.ltb cid n_conns | _ => true end.

Lemma c03_step_full c st m o :
  wf c -> no_includes c -> conns_ok st -> mon_ok (L03 c) m -> op_bytes o = true -> op_conn o = true ->
  exists m', c03_step c m o (snd (srv_step c st o)) = (Ok, m') /\ mon_ok (L03 c) m'.
Proof.
  intros Hw Hn Hok Hm Hb Hc. destruct o as [cid pdu n| | |cid| | |]; try (apply c03_step_ok; auto; cbn [srv_step]; fail).
  - cbn [c03_step]. destruct (n <? default_att_mtu) eqn:En; [eexists; split; [reflexivity|exact Hm]|].
    destruct (c03_parse pdu) as [r|] eqn:Ep; [|eexists; split; [reflexivity|exact Hm]].
    assert (Hnf : snd (srv_step c st (OpIn cid pdu n)) <> OFault).
    { cbn [srv_step]. cbn [op_conn] in Hc. apply Nat.ltb_lt in Hc. unfold default_att_mtu in En.
      destruct (c03_parse_inv pdu r Ep) as (a & b & x & y & v & [(_ & -> & _)|(_ & -> & Hlv)]).
      - pose proof (att_input_total_group c st cid a b x y n Hw Hok Hc ltac:(lia)) as X.
        destruct (att_input c st cid [16; a; b; x; y; 0; 40] n) as [[? ?]|]; [discriminate|congruence].
      - pose proof (att_input_total_value c st cid a b x y v n Hw Hn Hok Hc ltac:(lia) Hlv) as X.
        destruct (att_input c st cid (6 :: a :: b :: x :: y :: 0 :: 40 :: v) n) as [[? ?]|]; [discriminate|congruence]. }
    pose proof (c03_step_ok c st m (OpIn cid pdu n) Hw Hn Hm Hb Hnf) as X. cbn [c03_step] in X. rewrite En, Ep in X. exact X.
  - cbn [c03_step]. eexists. split; [reflexivity|exact Hm].
  - cbn [c03_step]. eexists. split; [reflexivity|exact Hm].
  - cbn [c03_step]. eexists. split; [reflexivity|]. apply mon_ok_upd_none; auto.
  - cbn [c03_step]. eexists. split; [reflexivity|exact Hm].
  - cbn [c03_step]. eexists. split; [reflexivity|exact Hm].
  - cbn [c03_step]. eexists. split; [reflexivity|exact Hm].
Qed.

Theorem c03_monitor_accepts_full c : wf c -> no_includes c ->
  forall ops st m pos,
    conns_ok st -> mon_ok (L03 c) m -> forallb op_bytes ops = true -> forallb op_conn ops = true ->
    c03_monitor_from c m pos (srv_run c st ops) = None.
Proof.
  intros Hw Hn. induction ops as [|o t IH]; intros st m pos Hok Hm Hb Hc; [reflexivity|].
  cbn [forallb] in Hb, Hc. apply andb_true_iff in Hb. destruct Hb as [Hb1 Hb2]. apply andb_true_iff in Hc. destruct Hc as [Hc1 Hc2].
  destruct (c03_step_full c st m o Hw Hn Hok Hm Hb1 Hc1) as (m' & E & Hm').
  pose proof (srv_step_ok c st o Hok) as Hok'.
  cbn [srv_run]. destruct (srv_step c st o) as [st' out]. cbn [fst snd] in *.
  cbn [c03_monitor_from]. rewrite E. apply IH; auto.
Qed.

(* ================================================================== Part N3: Find Information and Read By Type on regular configurations *)
Lemma all_16bit_attr c i a : wf c -> no_includes c -> all_16bit c = true -> attribute_at c i = Some a -> is16 a = true.
Proof.
  intros Hw Hn Hu Ha. unfold all_16bit in Hu. rewrite forallb_forall in Hu.
  destruct (N.lt_ge_cases i (number_of_attributes c)) as [Hi|Hi]; [|rewrite attribute_at_beyond in Ha by lia; discriminate Ha].
  destruct (table_nth c i Hw Hn Hi) as (a' & Ha' & Ht). rewrite Ha in Ha'. inversion Ha'; subst a'.
  apply nth_error_In in Ht. specialize (Hu _ Ht). cbn [snd] in Hu. rewrite is16_erase in Hu. exact Hu.
Qed.

Lemma chut_total c e out_end : wf c -> no_includes c -> all_16bit c = true ->
  forall fuel start b out, out <= out_end -> out_end <= len b ->
  exists b' out', collect_handle_uuid_tuples fuel c start e true b out out_end = Some (b', out') /\ out' <= out_end /\ len b' = len b.
Proof.
  intros Hw Hn Hu. induction fuel as [|f IH]; intros start b out H1 H2; cbn [collect_handle_uuid_tuples].
  - eexists _, _. split; [reflexivity|]. split; [lia|reflexivity].
  - cbv zeta. destruct ((start <? number_of_attributes c) && (handle_by_index c start <=? e) && (4 <=? out_end - out)) eqn:Ec.
    + apply andb_true_iff in Ec. destruct Ec as [Ec E4]. apply andb_true_iff in Ec. destruct Ec as [Es _].
      destruct (table_nth c start Hw Hn ltac:(lia)) as (a & Ha & _). rewrite Ha.
      pose proof (all_16bit_attr c start a Hw Hn Hu Ha) as H16. unfold is16 in H16. rewrite H16. cbn [Bool.eqb].
      destruct (AttSrvProofsC01.put_ok b out (le16 (handle_by_index c start))) as [b1 P1]; [rewrite le16_len; lia|]. rewrite P1.
      pose proof (put_length _ _ _ _ P1) as L1.
      destruct (AttSrvProofsC01.put_ok b1 (out + 2) (le16 (attr_uuid a))) as [b2 P2]; [rewrite le16_len; lia|]. rewrite P2.
      pose proof (put_length _ _ _ _ P2) as L2.
      destruct (IH (start + 1) b2 (out + 4) ltac:(lia) ltac:(lia)) as (b' & out' & E & O & L).
      eexists _, _. split; [exact E|]. split; lia.
    + eexists _, _. split; [reflexivity|]. split; [lia|reflexivity].
Qed.

Lemma fi_total c a b0 x y b out_size :
  wf c -> no_includes c -> all_16bit c = true -> 23 <= out_size -> out_size <= len b ->
  exists r, handle_find_information c [4; a; b0; x; y] b out_size = Some r /\ snd r <= len (fst r).
Proof.
  intros Hw Hn Hu Ho Hb. unfold handle_find_information.
  assert (Q1 : 1 <= len [4; a; b0; x; y]) by (unfold len; cbn; lia).
  assert (Q2 : len [4; a; b0; x; y] = 5 \/ len [4; a; b0; x; y] = 5) by (left; reflexivity).
  assert (Hch := check_range_total c [4; a; b0; x; y] b out_size 5 5 Q1 Q2 ltac:(lia) ltac:(lia) ltac:(lia)).
  destruct Hch as (chk & Ec & Hc). assert (Ec' := Ec). rewrite Ec. destruct chk as [r|[sh eh]].
  - exists r. split; [reflexivity|]. destruct Hc. lia.
  - (* Passed: the starting index is valid *)
    unfold check_size_and_handle_range in Ec'. cbn [rd len length N.of_nat] in Ec'.
    change (rd16 [4; a; b0; x; y] 1) with (Some (a + 256 * b0)) in Ec'. change (rd16 [4; a; b0; x; y] 3) with (Some (x + 256 * y)) in Ec'.
    cbn -[first_index_by_handle error_response N.mul] in Ec'.
    destruct ((a + 256 * b0 =? 0) || (x + 256 * y <? a + 256 * b0)); [destruct (error_response _ _ _ _ _); discriminate Ec'|].
    destruct (first_index_by_handle c (a + 256 * b0) =? invalid_index) eqn:Efi; [destruct (error_response _ _ _ _ _); discriminate Ec'|].
    apply AttSrvProofsC01.some_inj in Ec'. apply AttSrvProofsC01.passed_inj in Ec'. apply AttSrvProofsC01.pair_inj in Ec'. destruct Ec' as [<- <-].
    apply N.eqb_neq in Efi.
    destruct (from_first_index c (a + 256 * b0) Hw Hn) as [_ F2]. destruct (F2 Efi) as [F3 _].
    destruct (table_nth c _ Hw Hn F3) as (at0 & Ha & _). rewrite Ha.
    pose proof (all_16bit_attr c _ at0 Hw Hn Hu Ha) as H16. unfold is16 in H16. rewrite H16.
    destruct (x + 256 * y <? handle_by_index c (first_index_by_handle c (a + 256 * b0))).
    + change (rd [4; a; b0; x; y] 0) with (Some 4). cbv iota beta.
      destruct (AttSrvProofsC01.error_response_ok 4 err_attribute_not_found (a + 256 * b0) b out_size ltac:(lia)) as (r & Er & X1 & X2).
      rewrite Er. exists r. split; [reflexivity|lia].
    + destruct (AttSrvProofsC01.put_ok b 0 [5]) as [b1 P1]; [unfold len at 1; cbn [length]; lia|]. rewrite P1.
      pose proof (put_length _ _ _ _ P1) as L1.
      replace (negb (1 =? out_size)) with true by lia.
      destruct (AttSrvProofsC01.put_ok b1 1 [1]) as [b2 P2]; [unfold len at 1; cbn [length]; lia|]. rewrite P2.
      pose proof (put_length _ _ _ _ P2) as L2. cbv iota beta.
      destruct (chut_total c (x + 256 * y) out_size Hw Hn Hu (S (N.to_nat (number_of_attributes c))) (first_index_by_handle c (a + 256 * b0)) b2 2 ltac:(lia) ltac:(lia))
        as (b' & out' & E & O & L).
      rewrite E. eexists. split; [reflexivity|]. cbn [fst snd]. lia.
Qed.

Lemma access_read_total c st cid kk a index off m :
  wf c -> no_includes c -> attribute_at c index = Some a -> get_conn st cid = Some kk ->
  exists st' rc d, access_read c st cid a index off m = Some (st', rc, d).
Proof.
  intros Hw Hn Ha Hk. unfold access_read. rewrite Hk. cbv zeta.
  destruct a as [s|u|s ch|s ch g cci|s ch cci|nm|u v].
  - destruct (mem_read _ _ _). eauto.
  - destruct (mem_read _ _ _). eauto.
  - pose proof (chardecl_has_value c index s ch Ha) as Hi. unfold char_decl_value. cbv zeta.
    destruct (index_by_handle_inverse c (index + 1) Hw Hn Hi) as [_ Hh].
    replace (handle_by_index c (index + 1) =? invalid_handle) with false by (symmetry; apply N.eqb_neq; exact Hh).
    destruct (mem_read _ _ _). eauto.
  - destruct (value_read c st (encrypted kk, pairing kk) s ch g off m) as [[s1 r1] d1]. eauto.
  - destruct (security_check _ _ _); eauto. destruct (mem_read _ _ _). eauto.
  - destruct (mem_read _ _ _). eauto.
  - destruct (mem_read _ _ _). eauto.
Qed.

Lemma collect_attribute_total c st cid kk k e index a :
  wf c -> no_includes c -> attribute_at c index = Some a -> get_conn st cid = Some kk ->
  2 <= co_cur k -> co_cur k <= e -> e <= len (co_buf k) ->
  exists st' k', collect_attribute c st cid k e index a = Some (st', k')
                 /\ conns st' = conns st /\ co_cur k <= co_cur k' /\ co_cur k' <= e /\ len (co_buf k') = len (co_buf k).
Proof.
  intros Hw Hn Ha Hk H1 H2 H3. unfold collect_attribute.
  destruct (2 <=? e - co_cur k) eqn:E2; [|eexists _, _; split; [reflexivity|]; repeat split; lia].
  cbv zeta. destruct (access_read_total c st cid kk a index 0 (N.min (e - co_cur k) 255 - 2) Hw Hn Ha Hk) as (s1 & rc & d & Er).
  rewrite Er. pose proof (AttSrvProofsC01.access_read_len _ _ _ _ _ _ _ _ _ _ Er) as Hd. pose proof (access_read_conns _ _ _ _ _ _ _ _ _ _ Er) as Hc.
  destruct rc; try (eexists _, _; split; [reflexivity|]; repeat split; auto; lia).
  replace (253 <? len d) with false by lia.
  destruct (AttSrvProofsC01.put_ok (co_buf k) (co_cur k + 2) d) as [b1 P1]; [lia|]. rewrite P1. pose proof (put_length _ _ _ _ P1) as L1.
  assert (Hmod : len d mod 256 = len d) by (apply N.mod_small; lia).
  destruct (len d + 2 =? _).
  - destruct (AttSrvProofsC01.put_ok b1 (co_cur k) (le16 (handle_by_index c index))) as [b2 P2]; [rewrite le16_len; lia|]. rewrite P2.
    pose proof (put_length _ _ _ _ P2) as L2. eexists _, _. split; [reflexivity|]. cbn [co_cur co_buf]. rewrite Hmod. repeat split; auto; lia.
  - eexists _, _. split; [reflexivity|]. cbn [co_cur co_buf]. repeat split; auto; lia.
Qed.

Lemma last_index_bound c eh : wf c -> no_includes c -> 1 <= number_of_attributes c -> last_handle_index c eh < number_of_attributes c.
Proof.
  intros Hw Hn H1. unfold last_handle_index. cbv zeta. destruct (first_index_by_handle c eh =? invalid_index) eqn:E; [lia|].
  apply N.eqb_neq in E. destruct (from_first_index c eh Hw Hn) as [_ F2]. apply F2. exact E.
Qed.

Lemma aa_total c cid f e eh kk : wf c -> no_includes c -> 1 <= number_of_attributes c ->
  forall fuel st k index,
  get_conn st cid = Some kk -> 2 <= co_cur k -> co_cur k <= e -> e <= len (co_buf k) ->
  exists st' k', all_attributes fuel c st cid f k e index (last_handle_index c eh) eh = Some (st', k')
                 /\ 2 <= co_cur k' /\ co_cur k' <= e /\ len (co_buf k') = len (co_buf k).
Proof.
  intros Hw Hn H1. pose proof (last_index_bound c eh Hw Hn H1) as Hl.
  induction fuel as [|n IH]; intros st k index Hk C1 C2 C3; cbn [all_attributes].
  - eexists _, _. split; [reflexivity|]. repeat split; lia.
  - destruct ((index <=? last_handle_index c eh) && (handle_by_index c index <=? eh)) eqn:Ec.
    + apply andb_true_iff in Ec. destruct Ec as [Ei _].
      destruct (table_nth c index Hw Hn ltac:(lia)) as (a & Ha & _). rewrite Ha.
      destruct (uuid_filter_match f a).
      * destruct (collect_attribute_total c st cid kk k e index a Hw Hn Ha Hk C1 C2 C3) as (s1 & k1 & E & D1 & D2 & D3 & D4).
        rewrite E. assert (Hk1 : get_conn s1 cid = Some kk) by (rewrite (get_conn_conns _ _ _ D1); exact Hk).
        destruct (IH s1 k1 (index + 1) Hk1 ltac:(lia) D3 ltac:(lia)) as (s2 & k2 & E2 & F1 & F2 & F3).
        eexists _, _. split; [exact E2|]. repeat split; lia.
      * apply IH; auto.
    + eexists _, _. split; [reflexivity|]. repeat split; lia.
Qed.

Lemma rbt_total c st cid kk a b0 x y t u b out_size :
  wf c -> no_includes c -> get_conn st cid = Some kk -> req_type t = Some u -> u <> U16 internal_128bit_uuid ->
  23 <= out_size -> out_size <= len b ->
  exists st' r, handle_read_by_type c st cid (8 :: a :: b0 :: x :: y :: t) b out_size = Some (st', r) /\ snd r <= len (fst r).
Proof.
  intros Hw Hn Hk Hty Hne Ho Hb.
  destruct (make_filter_spec a b0 x y t u Hty Hne) as (Hlen & f & Hmk & _). cbv zeta in Hlen, Hmk.
  destruct (rd_prefix5 8 a b0 x y t) as (R0 & _). cbv zeta in R0.
  unfold handle_read_by_type. set (pdu := 8 :: a :: b0 :: x :: y :: t) in *.
  destruct (check_range_total c pdu b out_size 7 21 ltac:(destruct Hlen; lia) Hlen ltac:(lia) ltac:(lia) ltac:(lia)) as (chk & Ec & Hc).
  rewrite Ec. destruct chk as [r|[sh eh]].
  - eexists _, r. split; [reflexivity|]. destruct Hc. lia.
  - rewrite R0, Hmk. cbv iota beta.
    assert (Hn1 : 1 <= number_of_attributes c).
    { unfold wf, wf_b in Hw. repeat (apply andb_true_iff in Hw; destruct Hw as [Hw ?]).
      unfold number_of_attributes. destruct (services c) as [|s0 t0]; [cbn in Hw; discriminate|].
      cbn [sumN]. pose proof (svc_nattrs_pos s0). lia. }
    destruct (aa_total c cid f out_size eh kk Hw Hn Hn1 (S (N.to_nat (number_of_attributes c))) st (mkCol b 2 0 true) (first_index_by_handle c sh) Hk
                ltac:(cbn; lia) ltac:(cbn; lia) ltac:(cbn; lia)) as (s1 & k1 & E & F1 & F2 & F3).
    rewrite E. cbn [co_buf] in F3. destruct (negb (co_cur k1 =? 2)).
    + destruct (AttSrvProofsC01.put_ok (co_buf k1) 0 [9; co_size k1]) as [b1 P]; [unfold len at 1; cbn [length]; lia|]. rewrite P.
      pose proof (put_length _ _ _ _ P). eexists _, _. split; [reflexivity|]. cbn [fst snd].
      pose proof (N.mod_le (co_cur k1 - 2) 256 ltac:(lia)). lia.
    + destruct (AttSrvProofsC01.error_response_ok 8 err_attribute_not_found sh (co_buf k1) out_size ltac:(lia)) as (r & Er & X1 & X2).
      rewrite Er. eexists _, r. split; [reflexivity|lia].
Qed.

Lemma att_input_total_gen c st cid pdu n k op (h : option (srv_state * resp)) :
  wf c -> get_conn st cid = Some k -> 23 <= client_mtu k -> 23 <= n -> rd pdu 0 = Some op -> 1 <= len pdu ->
  (forall os b, os = N.min n (negotiated_mtu c k) -> b = repeat fill_byte (N.to_nat n) -> 23 <= os -> os <= len b ->
     (if op =? 1 then Some (st, (b, 0))
      else if op =? 2 then handle_exchange_mtu c st cid pdu b os
      else if op =? 4 then do x <- handle_find_information c pdu b os; Some (st, x)
      else if op =? 6 then do x <- handle_find_by_type_value c st cid pdu b os; Some (st, x)
      else if op =? 8 then handle_read_by_type c st cid pdu b os
      else if op =? 10 then handle_read c st cid pdu b os
      else if op =? 12 then handle_read_blob c st cid pdu b os
      else if op =? 16 then do x <- handle_read_by_group_type c pdu b os; Some (st, x)
      else if op =? 14 then handle_read_multiple c st cid pdu b os
      else if op =? 18 then handle_write_request c st cid pdu b os
      else if op =? 82 then handle_write_command c st cid pdu b os
      else if op =? 22 then handle_prepare_write c st cid pdu b os
      else if op =? 24 then handle_execute_write c st cid pdu b os
      else if op =? 30 then handle_confirmation c st cid pdu b os
      else do x <- error_response op err_request_not_supported 0 b os; Some (st, x))
     = h /\ exists s1 r, h = Some (s1, r) /\ snd r <= len (fst r)) ->
  att_input c st cid pdu n <> None.
Proof.
  intros Hw Hk Hm Hn Hop Hl Hh. unfold att_input. rewrite Hk. cbv zeta.
  assert (Hmtu : 23 <= max_mtu c).
  { unfold wf, wf_b in Hw. repeat (apply andb_true_iff in Hw; destruct Hw as [Hw ?]). unfold default_att_mtu in *. lia. }
  replace (len pdu =? 0) with false by lia.
  replace (N.min n (negotiated_mtu c k) <? default_att_mtu) with false by (unfold negotiated_mtu, default_att_mtu; lia).
  rewrite Hop. cbv beta iota.
  destruct (Hh _ _ eq_refl eq_refl ltac:(unfold negotiated_mtu; lia) ltac:(rewrite len_repeat_N; lia)) as (E & s1 & [b' nn] & -> & L).
  rewrite E. cbn [fst snd] in L. replace (nn <=? len b') with true by lia. discriminate.
Qed.

Lemma att_input_total_info c st cid a b0 x y n :
  wf c -> no_includes c -> all_16bit c = true -> conns_ok st -> (cid < n_conns)%nat -> 23 <= n ->
  att_input c st cid [4; a; b0; x; y] n <> None.
Proof.
  intros Hw Hn Hu Hok Hc Hn23. destruct (ok_get_some st cid Hok Hc) as (k & Hk & Hm).
  destruct (fi_total c a b0 x y (repeat fill_byte (N.to_nat n)) (N.min n (negotiated_mtu c k)) Hw Hn Hu) as (r & E & L).
  { assert (Hmtu : 23 <= max_mtu c).
    { unfold wf, wf_b in Hw. repeat (apply andb_true_iff in Hw; destruct Hw as [Hw ?]). unfold default_att_mtu in *. lia. }
    unfold negotiated_mtu. lia. }
  { rewrite len_repeat_N. lia. }
  apply (att_input_total_gen c st cid [4; a; b0; x; y] n k 4 (Some (st, r)) Hw Hk Hm Hn23 eq_refl); [unfold len; cbn; lia|].
  intros os b -> -> _ _. cbn [N.eqb Pos.eqb]. rewrite E. split; [reflexivity|]. eauto.
Qed.

Lemma att_input_total_type c st cid a b0 x y t u n :
  wf c -> no_includes c -> conns_ok st -> (cid < n_conns)%nat -> 23 <= n ->
  req_type t = Some u -> u <> U16 internal_128bit_uuid ->
  att_input c st cid (8 :: a :: b0 :: x :: y :: t) n <> None.
Proof.
  intros Hw Hn Hok Hc Hn23 Hty Hne. destruct (ok_get_some st cid Hok Hc) as (k & Hk & Hm).
  destruct (rbt_total c st cid k a b0 x y t u (repeat fill_byte (N.to_nat n)) (N.min n (negotiated_mtu c k)) Hw Hn Hk Hty Hne) as (s1 & r & E & L).
  { assert (Hmtu : 23 <= max_mtu c).
    { unfold wf, wf_b in Hw. repeat (apply andb_true_iff in Hw; destruct Hw as [Hw ?]). unfold default_att_mtu in *. lia. }
    unfold negotiated_mtu. lia. }
  { rewrite len_repeat_N. lia. }
  destruct (rd_prefix5 8 a b0 x y t) as (R0 & _). cbv zeta in R0.
  apply (att_input_total_gen c st cid (8 :: a :: b0 :: x :: y :: t) n k 8 (Some (s1, r)) Hw Hk Hm Hn23 R0); [unfold len; cbn [length]; lia|].
  intros os b -> -> _ _. cbn [N.eqb Pos.eqb]. rewrite E. split; [reflexivity|]. eauto.
Qed.

Lemma c02_step_full c st m o :
  wf c -> no_includes c -> c02_regular c = true -> conns_ok st -> mon_inv c m ->
  op_bytes o = true -> no_marker_type o = true -> op_conn o = true ->
  exists m', c02_step c m o (snd (srv_step c st o)) = (Ok, m') /\ mon_inv c m'.
Proof.
  intros Hw Hn Hreg Hok Hm Hb Hr Hc.
  assert (H16 : all_16bit c = true) by (unfold c02_regular in Hreg; repeat (apply andb_true_iff in Hreg; destruct Hreg as [Hreg ?]); assumption).
  destruct o as [cid pdu n| | |cid| | |]; try (apply c02_step_regular; auto; cbn [srv_step]; fail).
  - cbn [c02_step]. destruct (n <? default_att_mtu) eqn:En; [eexists; split; [reflexivity|exact Hm]|].
    destruct (parse_req pdu) as [[[[op k] lo] hi]|] eqn:Ep; [|eexists; split; [reflexivity|exact Hm]].
    assert (Hnf : snd (srv_step c st (OpIn cid pdu n)) <> OFault).
    { cbn [srv_step]. cbn [op_conn] in Hc. apply Nat.ltb_lt in Hc. unfold default_att_mtu in En.
      destruct (parse_req_inv pdu op k lo hi Ep) as (a & b & x & y & t & -> & _ & _ & Hcase).
      destruct Hcase as [(-> & _ & ->)|[(-> & _ & ->)|(-> & u & _ & Hty)]].
      - pose proof (att_input_total_info c st cid a b x y n Hw Hn H16 Hok Hc ltac:(lia)) as X.
        destruct (att_input c st cid [4; a; b; x; y] n) as [[? ?]|]; [discriminate|congruence].
      - pose proof (att_input_total_group c st cid a b x y n Hw Hok Hc ltac:(lia)) as X.
        destruct (att_input c st cid [16; a; b; x; y; 0; 40] n) as [[? ?]|]; [discriminate|congruence].
      - cbn [no_marker_type] in Hr. rewrite Hty in Hr.
        assert (Hne : u <> U16 internal_128bit_uuid) by (intros ->; rewrite uuid_eqb_refl in Hr; discriminate Hr).
        pose proof (att_input_total_type c st cid a b x y t u n Hw Hn Hok Hc ltac:(lia) Hty Hne) as X.
        destruct (att_input c st cid (8 :: a :: b :: x :: y :: t) n) as [[? ?]|]; [discriminate|congruence]. }
    pose proof (c02_step_regular c st m (OpIn cid pdu n) Hw Hn Hreg Hm Hb Hr Hnf) as X. cbn [c02_step] in X. rewrite En, Ep in X. exact X.
  - cbn [c02_step]. eexists. split; [reflexivity|exact Hm].
  - cbn [c02_step]. eexists. split; [reflexivity|exact Hm].
  - cbn [c02_step]. eexists. split; [reflexivity|]. apply mon_inv_upd_none; auto.
  - cbn [c02_step]. eexists. split; [reflexivity|exact Hm].
  - cbn [c02_step]. eexists. split; [reflexivity|exact Hm].
  - cbn [c02_step]. eexists. split; [reflexivity|exact Hm].
Qed.

Theorem c02_monitor_accepts_regular_full c : wf c -> no_includes c -> c02_regular c = true ->
  forall ops st m pos,
    conns_ok st -> mon_inv c m -> forallb op_bytes ops = true -> forallb no_marker_type ops = true -> forallb op_conn ops = true ->
    c02_monitor_from c m pos (srv_run c st ops) = None.
Proof.
  intros Hw Hn Hreg. induction ops as [|o t IH]; intros st m pos Hok Hm Hb Hr Hc; [reflexivity|].
  cbn [forallb] in Hb, Hr, Hc. apply andb_true_iff in Hb. destruct Hb as [Hb1 Hb2]. apply andb_true_iff in Hr. destruct Hr as [Hr1 Hr2].
  apply andb_true_iff in Hc. destruct Hc as [Hc1 Hc2].
  destruct (c02_step_full c st m o Hw Hn Hreg Hok Hm Hb1 Hr1 Hc1) as (m' & E & Hm').
  pose proof (srv_step_ok c st o Hok) as Hok'.
  cbn [srv_run]. destruct (srv_step c st o) as [st' out]. cbn [fst snd] in *.
  cbn [c02_monitor_from]. rewrite E. apply IH; auto.
Qed.
