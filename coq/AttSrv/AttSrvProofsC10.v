(* Proofs for property C10 (notifications carry the requested characteristic to subscribed clients only). *)
From Coq Require Import Lia ZifyBool Permutation.
From BT Require Import Base.ListX Base.Bits2 AttDb.AttDbModel AttDb.AttDbNotifProofs NQueue.NQueueModel AttSrv.AttSrvModel
  AttSrv.AttSrvSpecC01 AttSrv.AttSrvProofsC01 AttSrv.AttSrvFrame.
Local Open Scope N_scope.

(* ------------------------------------------------------------------ which index a request queues *)
Definition gci_is (g : nat) (x : cinfo) : bool := Nat.eqb (ci_gci x) g.

Lemma index_of_gci_first g : forall l x rest,
  filter (gci_is g) l = x :: rest -> nth_error l (N.to_nat (index_of_gci g l)) = Some x.
Proof.
  induction l as [|a t IH]; intros x rest H; cbn [filter index_of_gci] in *; [discriminate|].
  unfold gci_is in H at 1. destruct (Nat.eqb (ci_gci a) g) eqn:E.
  - inv H. reflexivity.
  - replace (N.to_nat (1 + index_of_gci g t)) with (S (N.to_nat (index_of_gci g t))) by lia. cbn [nth_error]. eapply IH; eauto.
Qed.

Lemma filter_head_in (A : Type) (f : A -> bool) l x rest : filter f l = x :: rest -> In x l /\ f x = true.
Proof. intros H. assert (I : In x (filter f l)) by (rewrite H; left; reflexivity). apply filter_In in I. exact I. Qed.

(* notify( value ) / indicate( value ): the queued index is the position of that characteristic in the priority
   SORTED list, i.e. what find_notification_data_by_index maps back to the same attribute *)
Theorem by_value_addresses_sorted_index c g d :
  find_notification_data c g = Some d ->
  find_notification_data_by_index c (snd d) = d
  /\ exists x, nth_error (sorted_infos c) (N.to_nat (snd d)) = Some x /\ ci_gci x = g /\ fst d = ci_first x + 1.
Proof.
  unfold find_notification_data. change (fun x : cinfo => Nat.eqb (ci_gci x) g) with (gci_is g).
  destruct (filter (gci_is g) (sorted_infos c)) as [|x rest] eqn:F; [discriminate|].
  destruct (c_value (ci_char x)); try discriminate. intros H. inv H. cbn [fst snd].
  pose proof (index_of_gci_first _ _ _ _ F) as Nx.
  destruct (filter_head_in _ _ _ _ _ F) as (_ & Gx). apply Nat.eqb_eq in Gx.
  split.
  - unfold find_notification_data_by_index. rewrite Nx. reflexivity.
  - exists x. auto.
Qed.

(* ------------------------------------------------------------------ the sorted list and the declaration list *)
(* global characteristic numbers are 0, 1, 2, ... in declaration order *)
Lemma chars_infos_gci c s : forall cs gci off le, map ci_gci (chars_infos c s cs gci off le) = seq gci (length cs).
Proof. induction cs as [|ch t IH]; intros; cbn [chars_infos map length seq]; auto. rewrite IH. reflexivity. Qed.

Lemma chars_infos_length c s : forall cs gci off le, length (chars_infos c s cs gci off le) = length cs.
Proof. induction cs as [|ch t IH]; intros; cbn [chars_infos length]; auto. Qed.

Lemma svcs_infos_gci c : forall ss gci le, map ci_gci (svcs_infos c ss gci le) = seq gci (length (svcs_infos c ss gci le)).
Proof.
  induction ss as [|s t IH]; intros; cbn [svcs_infos map length seq]; auto.
  rewrite map_app, app_length, seq_app, chars_infos_gci, IH, chars_infos_length. reflexivity.
Qed.

Lemma all_infos_gci_nodup c : NoDup (map ci_gci (all_infos c)).
Proof. unfold all_infos. rewrite svcs_infos_gci. apply seq_NoDup. Qed.

(* an element of the sorted list is an element of the declaration list with another ci_pos *)
Lemma number_from_in l : forall n y, In y (number_from set_pos l n) -> exists x p, In x l /\ y = set_pos x p.
Proof.
  induction l as [|a t IH]; intros n y H; cbn [number_from] in H; [destruct H|].
  destruct H as [H|H]; [exists a, n; split; [left; reflexivity|auto]|].
  destruct (IH _ _ H) as (x & p & I & E). exists x, p. split; [right; auto|auto].
Qed.

Lemma sorted_in_all c y : In y (sorted_infos c) -> exists x p, In x (all_infos c) /\ has_cccd (ci_char x) = true /\ y = set_pos x p.
Proof.
  intros H. apply (Permutation_in _ (sorted_infos_perm c)) in H. unfold cccd_infos in H.
  change (fun (x : cinfo) (n : N) => _) with set_pos in H.
  destruct (number_from_in _ _ _ H) as (x & p & I & E). apply filter_In in I. destruct I as (I & C).
  exists x, p. auto.
Qed.

Lemma in_map_nodup_eq (A B : Type) (f : A -> B) l x y : NoDup (map f l) -> In x l -> In y l -> f x = f y -> x = y.
Proof.
  induction l as [|a t IH]; intros ND Ix Iy E; [destruct Ix|]. cbn [map] in ND. inversion ND as [|? ? Na ND']; subst.
  destruct Ix as [->|Ix], Iy as [->|Iy]; auto.
  - exfalso. apply Na. rewrite E. apply in_map. auto.
  - exfalso. apply Na. rewrite <- E. apply in_map. auto.
Qed.

(* notify< UUID >() / indicate< UUID >(): the same, for the first characteristic with that uuid *)
Theorem by_uuid_addresses_sorted_index c u d :
  find_notification_by_uuid c u = Some d ->
  exists x0, find_char_by_uuid c u = Some x0
    /\ find_notification_data_by_index c (snd d) = d
    /\ exists x, nth_error (sorted_infos c) (N.to_nat (snd d)) = Some x /\ ci_gci x = ci_gci x0 /\ fst d = ci_first x + 1.
Proof.
  unfold find_notification_by_uuid. destruct (find_char_by_uuid c u) as [x0|] eqn:F; [|discriminate].
  destruct (has_cccd (ci_char x0)) eqn:C; [|discriminate]. intros H. inv H. cbn [fst snd].
  exists x0. split; auto.
  (* x0 is in the declaration list; its image is in the sorted list *)
  assert (I0 : In x0 (all_infos c)).
  { unfold find_char_by_uuid in F. destruct (filter _ (all_infos c)) as [|y r] eqn:E; [discriminate|]. inv F.
    apply filter_head_in in E. tauto. }
  assert (exists y, In y (sorted_infos c) /\ ci_gci y = ci_gci x0) as (y & Iy & Gy).
  { assert (In x0 (filter (fun x => has_cccd (ci_char x)) (all_infos c))) by (apply filter_In; auto).
    assert (exists y, In y (cccd_infos c) /\ ci_gci y = ci_gci x0) as (y & Iy & Gy).
    { unfold cccd_infos. change (fun (x : cinfo) (n : N) => _) with set_pos.
      generalize 0. induction (filter _ (all_infos c)) as [|a t IH]; intros n; [destruct H|].
      destruct H as [->|H]; cbn [number_from].
      - eexists. split; [left; reflexivity|reflexivity].
      - destruct (IH H (n + 1)) as (y & Iy & Gy). exists y. split; [right; auto|auto]. }
    exists y. split; auto. apply (Permutation_in _ (Permutation_sym (sorted_infos_perm c))). auto. }
  destruct (filter (gci_is (ci_gci x0)) (sorted_infos c)) as [|x rest] eqn:Fs.
  { exfalso. assert (In y (filter (gci_is (ci_gci x0)) (sorted_infos c))) by (apply filter_In; split; auto; unfold gci_is; apply Nat.eqb_eq; auto).
    rewrite Fs in H. destruct H. }
  pose proof (index_of_gci_first _ _ _ _ Fs) as Nx.
  destruct (filter_head_in _ _ _ _ _ Fs) as (Ix & Gx). apply Nat.eqb_eq in Gx.
  (* x is x0 up to ci_pos *)
  destruct (sorted_in_all c x Ix) as (x1 & p & I1 & _ & ->). cbn [set_pos ci_gci] in Gx.
  assert (x1 = x0) by (eapply in_map_nodup_eq; eauto using all_infos_gci_nodup). subst x1.
  split.
  - unfold find_notification_data_by_index. rewrite Nx. reflexivity.
  - eexists. split; [exact Nx|]. split; reflexivity.
Qed.

Lemma put_put_take b l b1 x y z b2 :
  put b 3 l = Some b1 -> put b1 0 [x; y; z] = Some b2 -> takeN (3 + len l) b2 = x :: y :: z :: l.
Proof.
  unfold put. destruct (3 + len l <=? len b) eqn:E1; [|discriminate]. intros H1. apply f_some_inj in H1. subst b1.
  destruct (0 + len [x; y; z] <=? _) eqn:E2; [|discriminate]. intros H2. apply f_some_inj in H2. subst b2.
  apply N.leb_le in E1. unfold len in E1. clear E2.
  unfold takeN, dropN, len.
  replace (N.to_nat 0) with 0%nat by reflexivity. replace (N.to_nat 3) with 3%nat by reflexivity.
  replace (N.to_nat (0 + N.of_nat (length [x; y; z]))) with 3%nat by (cbn [length]; lia).
  replace (N.to_nat (3 + N.of_nat (length l))) with (3 + length l)%nat by lia.
  assert (L3 : length (firstn 3 b) = 3%nat) by (rewrite firstn_length; lia).
  set (F := firstn 3 b) in *. set (R := skipn (3 + length l) b).
  cbn [firstn app].
  rewrite skipn_app, L3. replace (3 - 3)%nat with 0%nat by lia. rewrite skipn_all2 by lia. cbn [skipn app].
  cbn [firstn Nat.add]. f_equal; f_equal; f_equal.
  rewrite firstn_app, firstn_all. replace (length l - length l)%nat with O by lia. cbn [firstn]. apply app_nil_r.
Qed.

(* ------------------------------------------------------------------ what l2cap_output transmits *)
(* for the queue entry (kd, i): a PDU is produced only if the CCCD bits at store position i (the position
   the CCCD attribute of the i-th characteristic of the sorted list uses: C09) contain the bit of kd; the PDU
   is opcode, the handle of the attribute find_notification_data_by_index( i ) names, and the bytes
   attribute.access( read ) returns for it now (clipped to min( buffer, negotiated MTU ) - 3) *)
Theorem att_output_pdu c st cid n st' rs k q1 kd i :
  get_conn st cid = Some k ->
  NQueueModel.step (nq k) Dequeue = (q1, OEntry (Some (kd, i))) ->
  att_output c st cid n = Some (st', rs) -> rs <> [] ->
  let ai := fst (find_notification_data_by_index c (N.of_nat i)) in
  negb (N.land (cccd_get (cccd k) (N.of_nat i)) (kbit kd) =? 0) = true
  /\ exists a s1 d,
       attribute_at c ai = Some a
       /\ access_read c (set_conn st cid (mkConn (client_mtu k) (cccd k) (encrypted k) (pairing k) q1)) cid a ai 0
                      (N.min n (negotiated_mtu c k) - 3) = Some (s1, Success, d)
       /\ rs = (match kd with KNotif => 27 | KInd => 29 end) :: le16 (handle_by_index c ai) ++ d.
Proof.
  intros G D. unfold att_output. rewrite G. unfold nq_step at 1. rewrite D.
  pose proof (find_notification_data_by_index_snd c (N.of_nat i)) as Sn.
  destruct (find_notification_data_by_index c (N.of_nat i)) as [ai ci]. cbn [snd fst] in *. subst ci.
  cbn [cccd].
  replace (match kd with KNotif => 1 | KInd => 2 end) with (kbit kd) by (destruct kd; reflexivity).
  destruct (negb (N.land (cccd_get (cccd k) (N.of_nat i)) (kbit kd) =? 0)) eqn:B; cbn [andb].
  2:{ intros H. inv H. intros X. contradiction. }
  destruct (3 <=? N.min n (negotiated_mtu c k)) eqn:L3; [|intros H; inv H; intros X; contradiction].
  intros H Hr. split; auto. mon.
  match goal with H : match ?rc with Success => _ | _ => _ end = Some _ |- _ => destruct rc end; mon; try contradiction.
  eexists _, _, _. split; [reflexivity|]. split; [eassumption|].
  unfold le16 in *. eapply put_put_take; eauto.
Qed.

(* ------------------------------------------------------------------ the attribute a notification reads *)
(* decidable: every characteristic of the sorted list names (first_attribute_index + 1) its own value
   attribute, and its CCCD number is its declaration order number *)
Definition notif_index_ok (c : cfg) : bool :=
  forallb (fun x => match attribute_at c (ci_first x + 1) with
                    | Some (AValue _ _ g cci) => Nat.eqb g (ci_gci x) && (cci =? ci_pos x)
                    | _ => false
                    end) (sorted_infos c).

Definition right_characteristic_full : Prop := forall c, wf c -> notif_index_ok c = true.

From BT Require Import AttDb.AttDbNotifIndex.

(* if every service has a characteristic: queue entry i names the value attribute of the i-th sorted
   characteristic, and the store position i tested by l2cap_output is the one its CCCD attribute writes *)
Theorem right_characteristic_nonempty c i x :
  all_nonempty (services c) = true -> nth_error (sorted_infos c) i = Some x ->
  find_notification_data_by_index c (N.of_nat i) = (ci_first x + 1, N.of_nat i)
  /\ attribute_at c (ci_first x + 1) = Some (AValue (ci_svc x) (ci_char x) (ci_gci x) (ci_pos x))
  /\ cccd_position c (ci_pos x) = N.of_nat i.
Proof.
  intros NE H. split; [|split].
  - unfold find_notification_data_by_index. rewrite Nat2N.id, H. reflexivity.
  - apply value_attribute_of_sorted; auto. eapply nth_error_In; eauto.
  - apply sorted_cccd_position. exact H.
Qed.

Theorem notif_index_ok_nonempty c : all_nonempty (services c) = true -> notif_index_ok c = true.
Proof.
  intros NE. unfold notif_index_ok. apply forallb_forall. intros x Hx.
  rewrite (value_attribute_of_sorted c x NE Hx). rewrite Nat.eqb_refl, N.eqb_refl. reflexivity.
Qed.
