(* Proofs for property C09 (client characteristic configuration is per connection and exact). *)
From Coq Require Import Lia ZifyBool.
From BT Require Import Base.ListX Base.Bits2 AttDb.AttDbModel NQueue.NQueueModel AttSrv.AttSrvModel
  AttSrv.AttSrvFrame AttSrv.AttSrvCbModel.
Local Open Scope N_scope.

(* ------------------------------------------------------------------ the packed store is Bits2's *)
Lemma to_nat_div4 i : N.to_nat (i / 4) = boff (N.to_nat i).
Proof. unfold boff. rewrite N2Nat.inj_div. reflexivity. Qed.
Lemma to_nat_mod4 i : N.to_nat (i mod 4) = slot (N.to_nat i).
Proof. unfold slot. rewrite N2Nat.inj_mod. reflexivity. Qed.
Lemma sh_slot i : sh (slot (N.to_nat i)) = (i mod 4) * 2.
Proof. unfold sh. rewrite <- to_nat_mod4. lia. Qed.

Lemma cccd_get_get2 d i : cccd_get d i = get2 d (N.to_nat i).
Proof. unfold cccd_get, get2, bget. rewrite to_nat_div4, sh_slot. reflexivity. Qed.

Lemma cccd_set_set2 d i v : cccd_set d i v = set2 d (N.to_nat i) v.
Proof. unfold cccd_set, set2, byte_set. cbv zeta. rewrite to_nat_div4, sh_slot. reflexivity. Qed.

Lemma set2_land q i v : set2 q i v = set2 q i (N.land v 3).
Proof. unfold set2. rewrite byte_set_land. reflexivity. Qed.

(* lens laws for ANY number n of CCCDs; positions are N as in the model *)
Definition store_ok (n : N) (d : list N) : Prop := bytes_ok d /\ length d = nbytes (N.to_nat n).

Theorem cccd_lens n d i v :
  store_ok n d -> i < n ->
  cccd_get (cccd_set d i v) i = N.land v 3
  /\ (forall j, j < n -> j <> i -> cccd_get (cccd_set d i v) j = cccd_get d j)
  /\ store_ok n (cccd_set d i v)
  /\ cccd_get d i < 4.
Proof.
  intros [B L] Hi. rewrite cccd_set_set2, set2_land. rewrite !cccd_get_get2.
  assert (V : N.land v 3 < 4) by apply land3_lt.
  assert (Hn : (N.to_nat i < N.to_nat n)%nat) by lia.
  repeat split.
  - eapply get2_set2_eq; eauto.
  - intros j Hj Nj. rewrite !cccd_get_get2. eapply get2_set2_neq; eauto. lia.
  - eapply set2_ok; eauto.
  - eapply set2_ok; eauto.
  - eapply get2_lt with (v := 0); auto. lia.
Qed.

Lemma store_ok_set n d i v : store_ok n d -> store_ok n (cccd_set d i v).
Proof.
  intros [B L]. rewrite cccd_set_set2, set2_land. split; eapply set2_ok; eauto; apply land3_lt.
Qed.

Lemma nbytes_N n : nbytes (N.to_nat n) = N.to_nat ((n * 2 + 7) / 8).
Proof. unfold nbytes. rewrite N2Nat.inj_div, N2Nat.inj_add, N2Nat.inj_mul. reflexivity. Qed.

(* ------------------------------------------------------------------ every reachable connection has a well formed store *)
Definition conn_store_ok (c : cfg) (k : conn) : Prop := store_ok (number_of_client_configs c) (cccd k).

Theorem store_ok_reachable c ops j k :
  get_conn (srv_after c (srv_init c) ops) j = Some k -> conn_store_ok c k.
Proof.
  revert j k. apply (inv_reachable c (conn_store_ok c)).
  - unfold conn_store_ok, init_conn. cbn [cccd]. split; [apply bytes_ok_repeat|].
    rewrite repeat_length, nbytes_N. reflexivity.
  - intros k m H _. exact H.
  - intros k pos v H. unfold conn_store_ok in *. cbn [cccd]. apply store_ok_set. exact H.
  - intros k o H. unfold conn_store_ok, nq_step in *. destruct (NQueueModel.step (nq k) o). exact H.
  - intros k e p H. exact H.
Qed.

(* ------------------------------------------------------------------ the CCCD attribute *)
(* the 16 bit value a write of [data] (at most 2 bytes) at offset 0 hands to flags( index, v ) *)
Definition written_value (old : N) (data : list N) : N :=
  let ser := takeN 2 (data ++ dropN (len data) [old; 0]) in nth 0 ser 0 + 256 * nth 1 ser 0.

Lemma written_value_bits old data :
  old < 4 -> Forall (fun b => b < 256) data -> (length data <= 2)%nat ->
  N.land (written_value old data) 3 = match data with [] => old | b :: _ => N.land b 3 end.
Proof.
  intros Ho F L. unfold written_value.
  destruct data as [|b0 [|b1 [|b2 t]]]; [| | |simpl in L; lia].
  - change (takeN 2 ([] ++ dropN (len []) [old; 0])) with [old; 0]. cbn [nth].
    rewrite N.mul_0_r, N.add_0_r. change 3 with (N.ones 2). rewrite N.land_ones. apply N.mod_small. exact Ho.
  - change (takeN 2 ([b0] ++ dropN (len [b0]) [old; 0])) with [b0; 0]. cbn [nth].
    rewrite N.mul_0_r, N.add_0_r. reflexivity.
  - change (takeN 2 ([b0; b1] ++ dropN (len [b0; b1]) [old; 0])) with [b0; b1]. cbn [nth].
    change 3 with (N.ones 2). rewrite !N.land_ones. change (2 ^ 2) with 4.
    replace (b0 + 256 * b1) with (b0 + (64 * b1) * 4) by lia. rewrite N.mod_add by discriminate. reflexivity.
Qed.

Lemma cccd_write_unfold c st cid k cci data :
  cccd_write c st cid k cci 0 data =
  if 2 <? len data + 0 then (st, Err err_invalid_attribute_value_length)
  else (set_conn st cid (mkConn (client_mtu k)
          (cccd_set (cccd k) (cccd_position c cci) (written_value (cccd_get (cccd k) (cccd_position c cci)) data))
          (encrypted k) (pairing k) (nq k)), Success).
Proof. unfold cccd_write, written_value. change (2 <? 0) with false. change (0 =? 0) with true. cbv iota zeta. reflexivity. Qed.

(* a write that the CCCD attribute accepts: exactness on this connection, nothing else changes *)
Theorem cccd_write_exact c st cid k cci data st' :
  get_conn st cid = Some k -> conn_store_ok c k ->
  cccd_position c cci < number_of_client_configs c ->
  Forall (fun b => b < 256) data ->
  cccd_write c st cid k cci 0 data = (st', Success) ->
  (length data <= 2)%nat /\
  exists k', get_conn st' cid = Some k'
    /\ cccd_get (cccd k') (cccd_position c cci)
       = match data with [] => cccd_get (cccd k) (cccd_position c cci) | b :: _ => N.land b 3 end
    /\ (forall j, j < number_of_client_configs c -> j <> cccd_position c cci -> cccd_get (cccd k') j = cccd_get (cccd k) j)
    /\ client_mtu k' = client_mtu k /\ encrypted k' = encrypted k /\ pairing k' = pairing k /\ nq k' = nq k
    /\ conn_store_ok c k'
    /\ (forall j, j <> cid -> get_conn st' j = get_conn st j)
    /\ vals st' = vals st /\ hlogs st' = hlogs st /\ wq_owner st' = wq_owner st /\ wq_elems st' = wq_elems st.
Proof.
  intros G S P F. rewrite cccd_write_unfold.
  destruct (2 <? len data + 0) eqn:L; [discriminate|].
  intros H. apply f_pair_inj in H. destruct H as [<- _].
  assert (L2 : (length data <= 2)%nat) by (apply N.ltb_ge in L; unfold len in L; lia).
  split; [exact L2|].
  set (pos := cccd_position c cci) in *.
  destruct (cccd_lens _ _ pos (written_value (cccd_get (cccd k) pos) data) S P) as (A & B & C & D).
  eexists. split.
  { unfold get_conn, set_conn. cbn [conns]. apply nth_error_upd_eq. eapply nth_error_lt; eauto. }
  cbn [cccd client_mtu encrypted pairing nq].
  repeat split; auto; try apply C.
  - rewrite A. apply written_value_bits; auto.
  - intros j N. unfold get_conn, set_conn. cbn [conns]. apply nth_error_upd_neq. auto.
Qed.

(* reading the CCCD attribute gives the two bits and a zero byte *)
Theorem cccd_read_exact c st cid k s ch cci off maxlen :
  get_conn st cid = Some k ->
  security_check (char_requires_encryption c s ch) (encrypted k) (pairing k) = Success ->
  access_read c st cid (ACccd s ch cci) 0 off maxlen
  = Some (let '(r, d) := mem_read [cccd_get (cccd k) (cccd_position c cci); 0] off maxlen in (st, r, d)).
Proof.
  intros G Sec. unfold access_read. rewrite G. cbn [fst snd]. rewrite Sec.
  destruct (mem_read _ _ _). reflexivity.
Qed.

(* ------------------------------------------------------------------ the subscription callback *)
(* the callback is invoked during a CCCD write iff the stored two bits change *)
Theorem callback_iff_changed c st cid k cci off data st' r :
  get_conn st cid = Some k ->
  cccd_write c st cid k cci off data = (st', r) ->
  forall k', get_conn st' cid = Some k' ->
  cccd_write_cb c k cci off data = (if cccd_get (cccd k') (cccd_position c cci) =? cccd_get (cccd k) (cccd_position c cci) then 0 else 1).
Proof.
  intros G. unfold cccd_write, cccd_write_cb.
  destruct (2 <? off); [intros H; inv H; intros k' G'; rewrite G in G'; inv G'; rewrite N.eqb_refl; reflexivity|].
  destruct (2 <? len data + off); [intros H; inv H; intros k' G'; rewrite G in G'; inv G'; rewrite N.eqb_refl; reflexivity|].
  destruct (off =? 0); [|intros H; inv H; intros k' G'; rewrite G in G'; inv G'; rewrite N.eqb_refl; reflexivity].
  intros H; inv H. intros k' G'.
  unfold get_conn, set_conn in G'. cbn [conns] in G'.
  rewrite nth_error_upd_eq in G' by (eapply nth_error_lt; eauto). inv G'. cbn [cccd]. reflexivity.
Qed.

(* ------------------------------------------------------------------ per connection *)
(* no request, notification or indication of one connection changes anything of another connection *)
Theorem other_connections_untouched c st o cid :
  (match o with OpIn i _ _ | OpOut i _ => i = cid | _ => False end) ->
  forall j, j <> cid -> get_conn (fst (srv_step c st o)) j = get_conn st j.
Proof.
  intros Ho j N. destruct o as [i pdu n|i n|i e p|i|bu kd gci|gci|gci data]; try contradiction; subst i; cbn [srv_step].
  - destruct (att_input c st cid pdu n) as [[st' r]|] eqn:E; cbn [fst]; auto.
    eapply frame_other; eauto. eapply att_input_frame; eauto.
  - destruct (att_output c st cid n) as [[st' r]|] eqn:E; cbn [fst]; auto.
    eapply frame_other; eauto. eapply att_output_frame; eauto.
Qed.

(* attribute.access( write ) on the CCCD of a characteristic, in a reachable state: exact, local *)
From BT Require Import AttDb.AttDbNotifProofs.

Theorem cccd_access_write_exact c ops cid index s ch cci data st' :
  let st := srv_after c (srv_init c) ops in
  attribute_at c index = Some (ACccd s ch cci) ->
  Forall (fun b => b < 256) data ->
  access_write c st cid (ACccd s ch cci) 0 data = Some (st', Success) ->
  exists k k', get_conn st cid = Some k /\ get_conn st' cid = Some k'
    /\ (length data <= 2)%nat
    /\ cccd_get (cccd k') (cccd_position c cci)
       = match data with [] => cccd_get (cccd k) (cccd_position c cci) | b :: _ => N.land b 3 end
    /\ (forall j, j < number_of_client_configs c -> j <> cccd_position c cci -> cccd_get (cccd k') j = cccd_get (cccd k) j)
    /\ (forall j, j <> cid -> get_conn st' j = get_conn st j)
    /\ vals st' = vals st.
Proof.
  intros st A F. unfold access_write. destruct (get_conn st cid) as [k|] eqn:G; [|discriminate].
  destruct (security_check _ _ _); try (intros H; inv H; fail).
  intros H. apply f_some_inj in H.
  pose proof (store_ok_reachable c ops cid k G) as S.
  destruct (cccd_attribute_position c index s ch cci A) as (P & _).
  destruct (cccd_write_exact c st cid k cci data st' G S P F H) as (L & k' & G' & E1 & E2 & _ & _ & _ & _ & _ & O & V & _).
  exists k, k'. repeat split; auto.
Qed.
