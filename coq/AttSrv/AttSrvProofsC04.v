(* C04 (c): the characteristic declaration as the run-time access function (AttSrvModel.char_decl_value,
   model of char_declaration_access) produces it. *)
From Coq Require Import Lia ZifyBool.
From BT Require Import Base.ListX AttDb.AttDbModel AttDb.AttDbSpec AttDb.AttDbProofs NQueue.NQueueModel AttSrv.AttSrvModel.
Local Open Scope N_scope.

Lemma le16_lo_hi x : le16 x = lo_hi x.
Proof. reflexivity. Qed.

Theorem char_decl_value_spec c i s ch :
  wf c -> no_includes c -> attribute_at c i = Some (ACharDecl s ch) ->
  char_decl_value c ch i
  = Some (char_properties ch :: lo_hi (nth (N.to_nat (i + 1)) (assign c) 0) ++ uuid_bytes (c_uuid ch))
  /\ nth (N.to_nat (i + 1)) (assign c) 0 <> 0.
Proof.
  intros Hw Hn H. destruct (char_declaration_value c i s ch Hw Hn H) as [vh [H1 [H2 H3]]].
  unfold char_decl_value. rewrite <- H3.
  replace (vh =? invalid_handle) with false by (symmetry; apply N.eqb_neq; exact H2).
  rewrite le16_lo_hi. rewrite <- H1. split; [reflexivity|]. unfold invalid_handle in H2. exact H2.
Qed.
