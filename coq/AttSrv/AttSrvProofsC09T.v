(* Trace level theorem of C09 (the monitor accepts the model's traces), for well formed configurations without
   include_service<>, without write queue and without encryption requirements: model side lemmas. *)
From Coq Require Import Lia ZifyBool.
From BT Require Import Base.ListX Base.Bits2 AttDb.AttDbModel AttDb.AttDbSpec AttDb.AttDbProofs AttDb.AttDbNotifProofs AttDb.AttDbCccdIndex
  NQueue.NQueueModel AttSrv.AttSrvModel AttSrv.AttSrvSpecC01 AttSrv.AttSrvProofsC01 AttSrv.AttSrvFrame AttSrv.AttSrvCbModel
  AttSrv.AttSrvNotifSpec AttSrv.AttSrvNotifObs AttSrv.AttSrvNotifObs09 AttSrv.AttSrvSpecC09 AttSrv.AttSrvProofsC08 AttSrv.AttSrvProofsC09
  AttSrv.AttSrvNoFault.
Local Open Scope N_scope.

(* CCCD bits and link security of every connection are the same in st and st' *)
Definition same_cccd (st st' : srv_state) : Prop :=
  forall j k, get_conn st j = Some k -> exists k', get_conn st' j = Some k' /\ cccd k' = cccd k /\ encrypted k' = encrypted k.

Lemma sc_refl st : same_cccd st st.
Proof. intros j k G. eauto. Qed.
Lemma sc_conns st st' : conns st' = conns st -> same_cccd st st'.
Proof. intros E j k G. exists k. unfold get_conn in *. rewrite E. auto. Qed.
Lemma sc_set_conn st cid k0 k1 :
  get_conn st cid = Some k0 -> cccd k1 = cccd k0 -> encrypted k1 = encrypted k0 -> same_cccd st (set_conn st cid k1).
Proof.
  intros G C E j k Gj. destruct (Nat.eq_dec j cid) as [->|Nj].
  - rewrite G in Gj. inv Gj. exists k1. split; [eapply set_conn_get; eauto|auto].
  - exists k. split; [rewrite set_conn_get_other by auto; exact Gj|auto].
Qed.

(* requests that are no (well formed) Write Request / Command leave all CCCDs alone and invoke no callback *)
Lemma att_input_cccd_same c st cid pdu n st' rs op :
  wqueue c = None -> att_input c st cid pdu n = Some (st', rs) -> rd pdu 0 = Some op ->
  (op <> 18 /\ op <> 82) \/ (len pdu <? 3) = true ->
  same_cccd st st' /\ att_input_cb c st cid pdu n = 0.
Proof.
  intros WQ A Hop Hc. split.
  - unfold att_input in A. destruct (get_conn st cid) as [k|] eqn:G; [|discriminate].
    destruct (len pdu =? 0); [discriminate|]. destruct (_ <? default_att_mtu); [discriminate|]. rewrite Hop in A.
    match goal with H : match ?x with Some _ => _ | None => None end = Some _ |- _ => destruct x as [[s1 [b1 mm]]|] eqn:EH; [|discriminate H] end.
    destruct (mm <=? len b1); [|discriminate]. inv A.
    repeat match goal with H : (if ?x then _ else _) = Some _ |- _ => destruct x eqn:? end; fmon; try apply sc_refl.
    + unfold handle_exchange_mtu in EH. fmon. fbrk; fmon; [apply sc_refl|]. fbrk; fmon; [apply sc_refl|].
      eapply sc_set_conn; eauto.
    + apply sc_conns. eapply read_by_type_conns; eauto.
    + apply sc_conns. eapply read_conns; eauto.
    + apply sc_conns. eapply read_blob_conns; eauto.
    + apply sc_conns. eapply read_multiple_conns; eauto.
    + (* Write Request: shorter than 3 bytes *)
      destruct Hc as [[N18 _]|L]; [exfalso; apply N18; apply N.eqb_eq; assumption|].
      unfold handle_write_request in EH. rewrite Hop, L in EH. fmon. apply sc_refl.
    + destruct Hc as [[_ N82]|L]; [exfalso; apply N82; apply N.eqb_eq; assumption|].
      unfold handle_write_command, handle_write_request in EH. rewrite Hop, L in EH. fmon. apply sc_refl.
    + unfold handle_prepare_write in EH. rewrite Hop, WQ in EH. fmon. apply sc_refl.
    + unfold handle_execute_write in EH. rewrite Hop, WQ in EH. fmon. apply sc_refl.
    + unfold handle_confirmation in EH. rewrite Hop in EH. fbrk; fmon; [apply sc_refl|]. eapply sc_set_conn; eauto; unfold nq_step; destruct (NQueueModel.step _ _); reflexivity.
  - unfold att_input_cb. destruct (get_conn st cid); [|reflexivity]. destruct (_ || _); [reflexivity|].
    destruct pdu as [|a t]; [reflexivity|]. change (rd (a :: t) 0) with (Some a) in Hop. inv Hop.
    destruct ((op =? 18) || (op =? 82)) eqn:W.
    + destruct Hc as [[N18 N82]|L].
      * apply orb_true_iff in W. destruct W as [W|W]; apply N.eqb_eq in W; contradiction.
      * unfold write_request_cb. rewrite L. reflexivity.
    + destruct (op =? 24); [|reflexivity]. rewrite WQ. reflexivity.
Qed.

(* ------------------------------------------------------------------ a Write Request / Command with a handle *)
Lemma le16_bytes lo hi : lo < 256 -> hi < 256 -> le16 (lo + 256 * hi) = [lo; hi].
Proof.
  intros A B. unfold le16.
  assert (E1 : (lo + 256 * hi) mod 256 = lo).
  { replace (lo + 256 * hi) with (lo + hi * 256) by lia. rewrite N.mod_add by discriminate. apply N.mod_small. exact A. }
  assert (E2 : (lo + 256 * hi) / 256 = hi).
  { replace (lo + 256 * hi) with (lo + hi * 256) by lia. rewrite N.div_add by discriminate. rewrite (N.div_small lo 256 A). reflexivity. }
  rewrite E1, E2, (N.mod_small hi 256 B). reflexivity.
Qed.

Lemma rd16_1 a lo hi t : rd16 (a :: lo :: hi :: t) 1 = Some (lo + 256 * hi).
Proof.
  unfold rd16, rd.
  replace (1 <? len (a :: lo :: hi :: t)) with true by (symmetry; apply N.ltb_lt; unfold len; cbn [length]; lia).
  replace (1 + 1 <? len (a :: lo :: hi :: t)) with true by (symmetry; apply N.ltb_lt; unfold len; cbn [length]; lia).
  reflexivity.
Qed.

(* what handle_write_request does with the attribute of the handle *)
Lemma write_request_outcome c st cid opc lo hi data b os st' r k :
  get_conn st cid = Some k -> 5 <= os -> os <= len b ->
  handle_write_request c st cid (opc :: lo :: hi :: data) b os = Some (st', r) ->
  let h := lo + 256 * hi in
  (* no attribute, or none that is a CCCD: no CCCD changes *)
  ((h = 0 \/ index_by_handle c h = invalid_index
    \/ exists a, attribute_at c (index_by_handle c h) = Some a /\ (forall s ch cci, a <> ACccd s ch cci))
   /\ same_cccd st st' /\ write_request_cb c st cid (opc :: lo :: hi :: data) = 0)
  \/
  (* the CCCD attribute *)
  (exists s ch cci, h <> 0 /\ index_by_handle c h <> invalid_index
     /\ attribute_at c (index_by_handle c h) = Some (ACccd s ch cci)
     /\ match security_check (char_requires_encryption c s ch) (encrypted k) (pairing k) with
        | Success =>
            if 2 <? len data + 0
            then st' = st /\ snd r = 5 /\ takeN 5 (fst r) = 1 :: opc :: le16 h ++ [13]
                 /\ write_request_cb c st cid (opc :: lo :: hi :: data) = 0
            else st' = set_conn st cid (mkConn (client_mtu k)
                         (cccd_set (cccd k) (cccd_position c cci) (written_value (cccd_get (cccd k) (cccd_position c cci)) data))
                         (encrypted k) (pairing k) (nq k))
                 /\ snd r = 1 /\ takeN 1 (fst r) = [19]
                 /\ write_request_cb c st cid (opc :: lo :: hi :: data) = cccd_write_cb c k cci 0 data
        | _ => st' = st /\ write_request_cb c st cid (opc :: lo :: hi :: data) = 0
        end).
Proof.
  intros G H5 Hb. unfold handle_write_request, write_request_cb.
  change (rd (opc :: lo :: hi :: data) 0) with (Some opc).
  assert (L3 : (len (opc :: lo :: hi :: data) <? 3) = false) by (apply N.ltb_ge; unfold len; cbn [length]; lia).
  rewrite L3. unfold check_handle.
  change (rd (opc :: lo :: hi :: data) 0) with (Some opc).
  rewrite rd16_1. cbv beta iota.
  set (h := lo + 256 * hi).
  assert (SL : slice (opc :: lo :: hi :: data) 3 (len (opc :: lo :: hi :: data)) = Some data).
  { unfold slice. replace ((3 <=? len (opc :: lo :: hi :: data)) && (len (opc :: lo :: hi :: data) <=? len (opc :: lo :: hi :: data))) with true
      by (symmetry; apply andb_true_iff; split; apply N.leb_le; unfold len; cbn [length]; lia).
    f_equal. unfold takeN, dropN, len. cbn [length N.to_nat skipn]. change (Pos.to_nat 3) with 3%nat. cbn [skipn].
    replace (N.to_nat (N.of_nat (S (S (S (length data)))) - 3)) with (length data) by lia. apply firstn_all. }
  rewrite SL.
  destruct (h =? 0) eqn:H0.
  { intros H. fmon. left. split; [left; apply N.eqb_eq; exact H0|]. split; [apply sc_refl|reflexivity]. }
  destruct (index_by_handle c h =? invalid_index) eqn:HI.
  { intros H. fmon. left. split; [right; left; apply N.eqb_eq; exact HI|]. split; [apply sc_refl|reflexivity]. }
  destruct (attribute_at c (index_by_handle c h)) as [a|] eqn:A; [|discriminate].
  cbv beta iota. unfold access_write, access_write_cb. rewrite G. cbn [fst snd].
  destruct a as [s|u|s ch|s ch gci cci|s ch cci|nm|u v].
  - intros H. left. split; [right; right; eexists; split; [reflexivity|intros; discriminate]|]. split; [|reflexivity].
    cbn [att_code] in H. fmon. apply sc_refl.
  - intros H. left. split; [right; right; eexists; split; [reflexivity|intros; discriminate]|]. split; [|reflexivity].
    cbn [att_code] in H. fmon. apply sc_refl.
  - intros H. left. split; [right; right; eexists; split; [reflexivity|intros; discriminate]|]. split; [|reflexivity].
    cbn [att_code] in H. fmon. apply sc_refl.
  - intros H. left. split; [right; right; eexists; split; [reflexivity|intros; discriminate]|]. split; [|reflexivity].
    destruct (value_write c st (encrypted k, pairing k) s ch gci 0 data) as [st1 rc] eqn:VW.
    apply value_write_conns in VW. destruct rc; fmon; apply sc_conns; exact VW.
  - (* the CCCD attribute *)
    intros H. right. exists s, ch, cci. split; [apply N.eqb_neq; exact H0|]. split; [apply N.eqb_neq; exact HI|]. split; [reflexivity|].
    destruct (security_check (char_requires_encryption c s ch) (encrypted k) (pairing k)) eqn:Sec.
    * rewrite cccd_write_unfold in H.
      destruct (2 <? len data + 0) eqn:L2.
      ** cbn [att_code] in H. unfold error_response in H.
         replace (5 <=? os) with true in H by (symmetry; apply N.leb_le; exact H5).
         destruct (put b 0 _) eqn:P; [|discriminate]. fmon. split; [reflexivity|]. split; [reflexivity|]. split.
         { apply put_take in P. exact P. }
         unfold cccd_write_cb. change (2 <? 0) with false. cbv iota. rewrite L2. reflexivity.
      ** destruct (put b 0 [19]) eqn:P; [|discriminate]. fmon. split; [reflexivity|]. split; [reflexivity|]. split; [|reflexivity].
         apply put_take in P. exact P.
    * fmon. destruct (error_response _ _ _ _ _); [|discriminate]. fmon. split; reflexivity.
    * fmon. destruct (error_response _ _ _ _ _); [|discriminate]. fmon. split; reflexivity.
  - intros H. left. split; [right; right; eexists; split; [reflexivity|intros; discriminate]|]. split; [|reflexivity].
    destruct (len nm <? 0); cbn [att_code] in H; fmon; apply sc_refl.
  - intros H. left. split; [right; right; eexists; split; [reflexivity|intros; discriminate]|]. split; [|reflexivity].
    cbn [att_code] in H. fmon. apply sc_refl.
Qed.

(* ------------------------------------------------------------------ l2cap_input for the write opcodes *)
Lemma att_input_write c st cid opc lo hi data n st' rs :
  opc = 18 \/ opc = 82 ->
  att_input c st cid (opc :: lo :: hi :: data) n = Some (st', rs) ->
  exists k r, get_conn st cid = Some k /\ default_att_mtu <= N.min n (negotiated_mtu c k)
    /\ handle_write_request c st cid (opc :: lo :: hi :: data) (repeat fill_byte (N.to_nat n)) (N.min n (negotiated_mtu c k)) = Some (st', r)
    /\ rs = (if opc =? 18 then takeN (snd r) (fst r) else [])
    /\ att_input_cb c st cid (opc :: lo :: hi :: data) n = write_request_cb c st cid (opc :: lo :: hi :: data).
Proof.
  intros Ho A. destruct (att_input_success _ _ _ _ _ _ _ A) as (k & op & G & L & M & Hop).
  exists k. unfold att_input in A. rewrite G, L in A.
  replace (N.min n (negotiated_mtu c k) <? default_att_mtu) with false in A by (symmetry; apply N.ltb_ge; exact M).
  change (rd (opc :: lo :: hi :: data) 0) with (Some opc) in A. cbv beta iota in A.
  assert (CB : att_input_cb c st cid (opc :: lo :: hi :: data) n = write_request_cb c st cid (opc :: lo :: hi :: data)).
  { unfold att_input_cb. rewrite G, L. replace (N.min n (negotiated_mtu c k) <? default_att_mtu) with false by (symmetry; apply N.ltb_ge; exact M).
    cbn [orb]. destruct Ho as [-> | ->]; reflexivity. }
  destruct Ho as [-> | ->].
  - cbn [N.eqb Pos.eqb] in A.
    destruct (handle_write_request _ _ _ _ _ _) as [[s1 [b1 mm]]|] eqn:HW; [|discriminate].
    destruct (mm <=? len b1); [|discriminate]. inv A. exists (b1, mm). auto.
  - cbn [N.eqb Pos.eqb] in A. unfold handle_write_command in A.
    destruct (handle_write_request _ _ _ _ _ _) as [[s1 [b1 mm]]|] eqn:HW; [|discriminate].
    destruct (0 <=? len b1); [|discriminate]. inv A. exists (b1, mm). auto.
Qed.

(* ------------------------------------------------------------------ reading a CCCD *)
Lemma put1_put_take b d b1 x b2 :
  put b 1 d = Some b1 -> put b1 0 [x] = Some b2 -> takeN (1 + len d) b2 = x :: d.
Proof.
  unfold put. destruct (1 + len d <=? len b) eqn:E1; [|discriminate]. intros H1. apply f_some_inj in H1. subst b1.
  destruct (0 + len [x] <=? _) eqn:E2; [|discriminate]. intros H2. apply f_some_inj in H2. subst b2.
  apply N.leb_le in E1. unfold len in E1. clear E2.
  unfold takeN, dropN, len.
  replace (N.to_nat 0) with 0%nat by reflexivity. replace (N.to_nat 1) with 1%nat by reflexivity.
  replace (N.to_nat (0 + N.of_nat (length [x]))) with 1%nat by (cbn [length]; lia).
  replace (N.to_nat (1 + N.of_nat (length d))) with (1 + length d)%nat by lia.
  assert (L1 : length (firstn 1 b) = 1%nat) by (rewrite firstn_length; lia).
  set (F := firstn 1 b) in *. set (R := skipn (1 + length d) b).
  cbn [firstn app].
  rewrite skipn_app, L1. replace (1 - 1)%nat with 0%nat by lia. rewrite skipn_all2 by lia. cbn [skipn app].
  cbn [firstn Nat.add]. f_equal.
  rewrite firstn_app, firstn_all. replace (length d - length d)%nat with O by lia. cbn [firstn]. apply app_nil_r.
Qed.

Lemma cccd_read_any_index c st cid k s ch cci idx off maxlen :
  get_conn st cid = Some k ->
  security_check (char_requires_encryption c s ch) (encrypted k) (pairing k) = Success ->
  access_read c st cid (ACccd s ch cci) idx off maxlen
  = Some (let '(r, d) := mem_read [cccd_get (cccd k) (cccd_position c cci); 0] off maxlen in (st, r, d)).
Proof.
  intros G Sec. unfold access_read. rewrite G. cbn [fst snd]. rewrite Sec. destruct (mem_read _ _ _). reflexivity.
Qed.

Lemma read_common_cccd c st cid pdu b os rsp h i off st' r k s ch cci opc :
  attribute_at c i = Some (ACccd s ch cci) -> get_conn st cid = Some k -> rd pdu 0 = Some opc -> opc <> 0 ->
  security_check (char_requires_encryption c s ch) (encrypted k) (pairing k) = Success ->
  5 <= os -> os <= len b ->
  handle_read_common c st cid pdu b os rsp h i off = Some (st', r) ->
  st' = st /\
  ((off <= 2 /\ takeN (snd r) (fst r) = rsp :: dropN off [cccd_get (cccd k) (cccd_position c cci); 0])
   \/ (snd r = 5 /\ exists y z w, takeN 5 (fst r) = [1; opc; y; z; w])).
Proof.
  intros A G Hop Nz Sec H5 Hb. unfold handle_read_common. rewrite Hop, A.
  rewrite (cccd_read_any_index c st cid k s ch cci i off (os - 1) G Sec). cbv beta iota.
  unfold mem_read. change (len [cccd_get (cccd k) (cccd_position c cci); 0]) with 2.
  destruct (2 <? off) eqn:Lo.
  - cbn [att_code]. intros H. destruct (error_response _ _ _ _ _) as [e|] eqn:ER; [|discriminate]. fmon. split; [reflexivity|]. right.
    destruct (error_response_err _ _ _ _ _ _ H5 ER) as (_ & [X|X]).
    + exfalso. unfold error_response in ER. replace (5 <=? os) with true in ER by (symmetry; apply N.leb_le; exact H5).
      destruct (put b 0 _) eqn:P; [|discriminate]. inv ER. destruct X as (_ & X). cbn [fst] in X. apply put_zero in P. lia.
    + destruct X as (S5 & y & z & w & T). split; [exact S5|eauto].
  - apply N.ltb_ge in Lo. set (d := takeN (N.min (os - 1) (2 - off)) (dropN off [cccd_get (cccd k) (cccd_position c cci); 0])).
    assert (Ed : d = dropN off [cccd_get (cccd k) (cccd_position c cci); 0]).
    { unfold d, takeN, dropN. apply firstn_all2. rewrite skipn_length. cbn [length]. lia. }
    intros H. destruct (put b 1 d) as [b1|] eqn:P1; [|discriminate]. destruct (put b1 0 [rsp]) as [b2|] eqn:P2; [|discriminate].
    fmon. split; [reflexivity|]. left. split; [exact Lo|]. cbn [fst snd]. rewrite (put1_put_take _ _ _ _ _ P1 P2). rewrite Ed. reflexivity.
Qed.

(* ------------------------------------------------------------------ the observer's table and the attributes *)
Lemma attrs_from_in c : forall n i0 j a,
  In (j, a) (attrs_from c n i0) <-> (i0 <= j /\ j < i0 + N.of_nat n /\ attribute_at c j = Some a).
Proof.
  induction n as [|n IH]; intros i0 j a; cbn [attrs_from].
  - split; [intros []|intros (A & B & _); lia].
  - destruct (attribute_at c i0) as [a0|] eqn:E.
    + cbn [In]. rewrite IH. split.
      * intros [H|(A & B & C)]; [inversion H; subst; repeat split; auto; lia|repeat split; auto; lia].
      * intros (A & B & C). destruct (N.eq_dec i0 j) as [->|Nj]; [left; congruence|right; repeat split; auto; lia].
    + rewrite IH. split.
      * intros (A & B & C). repeat split; auto; lia.
      * intros (A & B & C). destruct (N.eq_dec i0 j) as [->|Nj]; [congruence|repeat split; auto; lia].
Qed.

Lemma attr_table_in c j a : In (j, a) (attr_table c) <-> (j < number_of_attributes c /\ attribute_at c j = Some a).
Proof. unfold attr_table. rewrite attrs_from_in. split; intros H; [destruct H as (_ & B & C)|destruct H as (B & C)]; repeat split; auto; lia. Qed.

Lemma cccd_handle_of_index c j s ch cci :
  attribute_at c j = Some (ACccd s ch cci) -> j < number_of_attributes c ->
  cccd_handle_of c (attr_table c) cci = handle_by_index c j.
Proof.
  intros A Hj. unfold cccd_handle_of.
  destruct (find _ (attr_table c)) as [[j' a']|] eqn:F.
  - apply find_some in F. destruct F as (I & P). cbn [snd] in P. destruct a'; try discriminate.
    apply N.eqb_eq in P. subst. apply attr_table_in in I. destruct I as (_ & A').
    cbn [fst]. f_equal. eapply cccd_index_unique; eauto.
  - exfalso. assert (I : In (j, ACccd s ch cci) (attr_table c)) by (apply attr_table_in; auto).
    pose proof (find_none _ _ F _ I) as X. cbn [snd] in X. rewrite N.eqb_refl in X. discriminate.
Qed.

Lemma find_idx_some (A : Type) (f : A -> bool) d : forall l g, find_idx f l = Some g -> (g < length l)%nat /\ f (nth g l d) = true.
Proof.
  induction l as [|x t IH]; intros g H; cbn [find_idx] in H; [discriminate|].
  destruct (f x) eqn:E.
  - inv H. split; [cbn; lia|exact E].
  - destruct (find_idx f t) as [i|] eqn:F; [|discriminate]. inv H. destruct (IH _ eq_refl) as (L & P). split; [cbn; lia|exact P].
Qed.

Lemma find_idx_ex (A : Type) (f : A -> bool) : forall l e, In e l -> f e = true -> exists g, find_idx f l = Some g.
Proof.
  induction l as [|x t IH]; intros e I P; [destruct I|]. cbn [find_idx]. destruct (f x) eqn:E; [eauto|].
  destruct I as [->|I]; [congruence|]. destruct (IH _ I P) as (g & ->). eauto.
Qed.

Lemma char_table_in c e :
  In e (char_table c) <-> exists i s ch g cci, In (i, AValue s ch g cci) (attr_table c) /\ e = cent_of c (attr_table c) i s ch g cci.
Proof.
  unfold char_table. rewrite in_flat_map. split.
  - intros ([i a] & I & H). cbn [snd fst] in H. destruct a; try (destruct H; fail). destruct H as [<-|[]]. eauto 8.
  - intros (i & s & ch & g & cci & I & ->). exists (i, AValue s ch g cci). split; [exact I|left; reflexivity].
Qed.

(* a handle the observer takes for a CCCD handle IS the handle of a CCCD attribute *)
Lemma by_cccd_handle_attr c h g :
  by_cccd_handle (char_table c) h = Some g ->
  exists j s ch cci, j < number_of_attributes c /\ attribute_at c j = Some (ACccd s ch cci) /\ handle_by_index c j = h
                     /\ ce_ch (cent_at (char_table c) g) = h /\ In (cent_at (char_table c) g) (char_table c).
Proof.
  unfold by_cccd_handle. destruct (h =? 0) eqn:H0; [discriminate|]. apply N.eqb_neq in H0. intros F.
  destruct (find_idx_some _ _ cent_dflt _ _ F) as (L & P). apply N.eqb_eq in P. fold (cent_at (char_table c) g) in P.
  assert (I : In (cent_at (char_table c) g) (char_table c)) by (apply nth_In; exact L).
  destruct (proj1 (char_table_in c _) I) as (i & s & ch & gg & cci & Ia & E).
  assert (P2 : ce_ch (cent_of c (attr_table c) i s ch gg cci) = h) by (rewrite <- E; exact P).
  cbn [cent_of ce_ch] in P2.
  destruct (has_cccd ch) eqn:Hc; [|congruence].
  unfold cccd_handle_of in P2. destruct (find _ (attr_table c)) as [[j a']|] eqn:Fd; [|congruence].
  apply find_some in Fd. destruct Fd as (Ij & Pj). cbn [snd] in Pj. destruct a'; try discriminate. apply N.eqb_eq in Pj. subst cci0.
  apply attr_table_in in Ij. destruct Ij as (Hj & Aj). cbn [fst] in P2.
  exists j, s0, c0, cci. repeat split; auto.
Qed.

(* ------------------------------------------------------------------ handles <-> CCCD attributes (wf, no include_service<>) *)
Section Resolve.
  Variable c : cfg.
  Hypothesis W : wf c.
  Hypothesis NI : no_includes c.
  Let tab := char_table c.

  Lemma index_by_handle_handle h j : index_by_handle c h = j -> j <> invalid_index -> handle_by_index c j = h.
  Proof.
    unfold index_by_handle. cbv zeta. intros H Nj.
    destruct (negb (first_index_by_handle c h =? invalid_index) && negb (handle_by_index c (first_index_by_handle c h) =? h)) eqn:E; [congruence|].
    subst j. apply andb_false_iff in E. destruct E as [E|E].
    - apply negb_false_iff, N.eqb_eq in E. congruence.
    - apply negb_false_iff, N.eqb_eq in E. exact E.
  Qed.

  Lemma attr_bound j a : attribute_at c j = Some a -> j <> invalid_index.
  Proof. intros A. apply attribute_at_lt in A. pose proof (wf_attr_bound c W). unfold invalid_index. lia. Qed.

  (* what the observer takes for the CCCD of characteristic g is a CCCD attribute, found by the model under that handle *)
  Lemma resolve_obs h g :
    by_cccd_handle tab h = Some g ->
    exists s ch cci, h <> 0 /\ index_by_handle c h <> invalid_index
                     /\ attribute_at c (index_by_handle c h) = Some (ACccd s ch cci).
  Proof.
    intros B. destruct (by_cccd_handle_attr c h g B) as (j & s & ch & cci & Hj & A & Hh & _).
    destruct (index_by_handle_inverse c j W NI Hj) as (I1 & I2). rewrite Hh in I1, I2.
    exists s, ch, cci. rewrite I1. split; [exact I2|]. split; [eapply attr_bound; eauto|exact A].
  Qed.

  (* every CCCD attribute is in the observer's table *)
  Lemma resolve_model h s ch cci :
    h <> 0 -> index_by_handle c h <> invalid_index -> attribute_at c (index_by_handle c h) = Some (ACccd s ch cci) ->
    exists g, by_cccd_handle tab h = Some g.
  Proof.
    intros H0 Hi A. set (j := index_by_handle c h) in *.
    assert (Hh : handle_by_index c j = h) by (apply index_by_handle_handle; auto).
    pose proof (attribute_at_lt _ _ _ A) as Hj.
    destruct (cccd_follows_value c j s ch cci A) as (J1 & g' & AV & Hc).
    assert (Iv : In (j - 1, AValue s ch g' cci) (attr_table c)) by (apply attr_table_in; split; [lia|exact AV]).
    assert (Ie : In (cent_of c (attr_table c) (j - 1) s ch g' cci) tab) by (apply char_table_in; eauto 8).
    unfold by_cccd_handle. replace (h =? 0) with false by (symmetry; apply N.eqb_neq; exact H0).
    eapply find_idx_ex; [exact Ie|]. cbn [cent_of ce_ch]. rewrite Hc.
    rewrite (cccd_handle_of_index c j s ch cci A Hj), Hh. apply N.eqb_refl.
  Qed.

  (* two handles the observer maps to the same characteristic are the same handle *)
  Lemma by_cccd_handle_inj h h' g : by_cccd_handle tab h = Some g -> by_cccd_handle tab h' = Some g -> h = h'.
  Proof.
    intros B B'. destruct (by_cccd_handle_attr c h g B) as (_ & _ & _ & _ & _ & _ & _ & E & _).
    destruct (by_cccd_handle_attr c h' g B') as (_ & _ & _ & _ & _ & _ & _ & E' & _). congruence.
  Qed.
End Resolve.

(* ------------------------------------------------------------------ the simulation *)
(* environment of the theorem: no write queue (so no prepared CCCD writes), no encryption requirement on any
   characteristic with CCCD (executable) *)
Definition env09 (c : cfg) : bool :=
  match wqueue c with None => true | Some _ => false end
  && forallb (fun e => negb (ce_enc e)) (char_table c)
  && forallb (fun x => match snd x with ACccd s ch _ => negb (char_requires_encryption c s ch) | _ => true end) (attr_table c).

Definition tracked (c : cfg) (m : obs) (cid : nat) (k : conn) : Prop :=
  forall g v h s ch cci,
    nth g (o_cccd (oc_at m cid)) None = Some v -> by_cccd_handle (char_table c) h = Some g ->
    attribute_at c (index_by_handle c h) = Some (ACccd s ch cci) ->
    cccd_get (cccd k) (cccd_position c cci) = v.

Definition sim09 (c : cfg) (s : srv9_state) (m : obs) : Prop :=
  ob_tab m = char_table c
  /\ length (ob_conns m) = length (conns (fst s))
  /\ (forall e, ob_cb m = Some e -> e = snd s)
  /\ forall cid k, get_conn (fst s) cid = Some k ->
       conn_store_ok c k /\ o_enc (oc_at m cid) = encrypted k /\ tracked c m cid k.

Lemma sim09_keep c st n m st' m' :
  sim09 c (st, n) m -> same_cccd st st' -> length (conns st') = length (conns st) -> keeps9 m m' ->
  sim09 c (st', n) m'.
Proof.
  intros (T & L & CB & S) SC LC (K1 & K2 & K3 & K4). cbn [fst snd] in *.
  split; [congruence|]. split; [cbn [fst]; congruence|]. split; [intros e He; apply CB; congruence|].
  intros cid k' G'. cbn [fst] in G'.
  assert (Hc : (cid < length (conns st))%nat) by (rewrite <- LC; eapply nth_error_lt; eauto).
  destruct (nth_error (conns st) cid) as [k|] eqn:G; [|apply nth_error_None in G; lia].
  destruct (SC _ _ G) as (k1 & G1 & C1 & E1). rewrite G1 in G'. inv G'.
  destruct (S _ _ G) as (S1 & S2 & S3). pose proof (K4 cid) as P. unfold part9 in P. inversion P as [[Pe Pc]].
  split; [unfold conn_store_ok in *; rewrite C1; exact S1|]. split; [congruence|].
  intros g v h s ch cci Hv. rewrite Pc in Hv. rewrite C1. eapply S3; eauto.
Qed.

(* ------------------------------------------------------------------ check09 on l2cap_input, classified *)
Inductive kclass9 := K9Read (lo hi : N) | K9Blob (lo hi olo ohi : N) | K9Write (lo hi : N) (data : list N) | K9None.
Definition kclass (pdu : list N) : kclass9 :=
  match pdu with
  | [10; lo; hi] => K9Read lo hi
  | [12; lo; hi; olo; ohi] => K9Blob lo hi olo ohi
  | 18 :: lo :: hi :: data => K9Write lo hi data
  | _ => K9None
  end.

Definition check09_in_spec (c : cfg) (m : obs) (cid : nat) (pdu : list N) (n : N) (resp : list N) : Prop :=
  match kclass pdu with
  | K9Read lo hi =>
      pdu = [10; lo; hi] /\
      check09 c m (OpIn cid pdu n) (OBytes resp)
      = if (len pdu =? 0) || (n <? default_att_mtu) then None
        else match resp with 11 :: d => check_read m cid (lo + 256 * hi) 0 d | _ => None end
  | K9Blob lo hi olo ohi =>
      pdu = [12; lo; hi; olo; ohi] /\
      check09 c m (OpIn cid pdu n) (OBytes resp)
      = if (len pdu =? 0) || (n <? default_att_mtu) then None
        else match resp with
             | 13 :: d => if olo + 256 * ohi <=? 2 then check_read m cid (lo + 256 * hi) (olo + 256 * ohi) d else None
             | _ => None
             end
  | K9Write lo hi data =>
      pdu = 18 :: lo :: hi :: data /\
      check09 c m (OpIn cid pdu n) (OBytes resp)
      = if (len pdu =? 0) || (n <? default_att_mtu) then None
        else match by_cccd_handle (ob_tab m) (lo + 256 * hi) with
             | Some g =>
                 if sec_ok (cent_at (ob_tab m) g) (oc_at m cid) then
                   if bytes_eqb resp (if len data <=? 2 then [19] else [1; 18; lo; hi; 13]) then None else Some t09_cccd_write
                 else None
             | None => None
             end
  | K9None => check09 c m (OpIn cid pdu n) (OBytes resp) = None
  end.

Ltac leafk := cbv beta iota zeta delta [check09_in_spec kclass check09];
  first [ reflexivity | split; reflexivity | destruct (_ || _); reflexivity ].

Lemma check09_in_classified c m cid pdu n resp : check09_in_spec c m cid pdu n resp.
Proof.
  destruct pdu as [|a [|b [|d [|e [|f [|g t]]]]]]; try solve [leafk];
    (destruct a as [|p]; [solve [leafk]|]; repeat (destruct p as [p|p|]; try solve [leafk])).
Qed.

(* the observer may forget; the model keeps CCCDs and link security *)
Lemma sim09_weaken c st n m st' m' :
  sim09 c (st, n) m -> same_cccd st st' -> length (conns st') = length (conns st) ->
  ob_tab m' = ob_tab m -> length (ob_conns m') = length (ob_conns m) ->
  (forall e, ob_cb m' = Some e -> ob_cb m = Some e) ->
  (forall i, o_enc (oc_at m' i) = o_enc (oc_at m i)) ->
  (forall i g v, nth g (o_cccd (oc_at m' i)) None = Some v -> nth g (o_cccd (oc_at m i)) None = Some v) ->
  sim09 c (st', n) m'.
Proof.
  intros (T & L & CB & S) SC LC K1 K3 K2 KE KC. cbn [fst snd] in *.
  split; [congruence|]. split; [cbn [fst]; congruence|]. split; [intros e He; apply CB; auto|].
  intros cid k' G'. cbn [fst] in G'.
  assert (Hc : (cid < length (conns st))%nat) by (rewrite <- LC; eapply nth_error_lt; eauto).
  destruct (nth_error (conns st) cid) as [k|] eqn:G; [|apply nth_error_None in G; lia].
  destruct (SC _ _ G) as (k1 & G1 & C1 & E1). rewrite G1 in G'. inv G'.
  destruct (S _ _ G) as (S1 & S2 & S3).
  split; [unfold conn_store_ok in *; rewrite C1; exact S1|]. split; [rewrite KE; congruence|].
  intros g v h s ch cci Hv. apply KC in Hv. rewrite C1. eapply S3; eauto.
Qed.

Lemma k9_weaken c st n m st' m' :
  sim09 c (st, n) m -> same_cccd st st' -> length (conns st') = length (conns st) -> keeps9 m m' -> sim09 c (st', n) m'.
Proof. apply sim09_keep. Qed.

(* the registered CCCD write *)
Lemma sim09_cccd_write c st n m cid k s ch cci h g data :
  wf c -> no_includes c ->
  sim09 c (st, n) m -> get_conn st cid = Some k ->
  h <> 0 -> index_by_handle c h <> invalid_index -> attribute_at c (index_by_handle c h) = Some (ACccd s ch cci) ->
  by_cccd_handle (char_table c) h = Some g ->
  Forall (fun b => b < 256) data -> (length data <= 2)%nat ->
  sim09 c (set_conn st cid (mkConn (client_mtu k)
              (cccd_set (cccd k) (cccd_position c cci) (written_value (cccd_get (cccd k) (cccd_position c cci)) data))
              (encrypted k) (pairing k) (nq k)),
           n + cccd_write_cb c k cci 0 data)
        (apply_cccd_write m cid g (cccd_new (nth g (o_cccd (oc_at m cid)) None) data)).
Proof.
  intros W NI (T & L & CB & S) G H0 HI A B F L2. cbn [fst snd] in *.
  destruct (S _ _ G) as (S1 & S2 & S3).
  assert (Pc : cccd_position c cci < number_of_client_configs c).
  { destruct (cccd_attribute_position c _ s ch cci A) as (P & _). exact P. }
  set (pos := cccd_position c cci) in *. set (old := cccd_get (cccd k) pos) in *.
  destruct (cccd_lens _ _ pos (written_value old data) S1 Pc) as (LA & LB & LC & LD).
  pose proof (written_value_bits old data LD F L2) as WB.
  set (nv := cccd_new (nth g (o_cccd (oc_at m cid)) None) data).
  destruct (apply_cccd_write_eff m cid g nv) as (E1 & E2 & E3 & E4 & E5).
  assert (Hc : (cid < length (conns st))%nat) by (eapply nth_error_lt; eauto).
  split; [congruence|]. split; [cbn [fst]; unfold set_conn; cbn [conns]; rewrite upd_length; congruence|]. split.
  - (* callbacks *)
    intros e He. cbn [snd]. rewrite E5 in He. destruct (ob_cb m) as [n1|] eqn:Cb; [|discriminate].
    pose proof (CB _ eq_refl) as En. subst n1.
    destruct (nth g (o_cccd (oc_at m cid)) None) as [a|] eqn:Tr; [|discriminate].
    pose proof (S3 g a h s ch cci Tr B A) as Ea. fold pos in Ea. fold old in Ea.
    unfold nv in He; try rewrite Tr in He; unfold cccd_new in He.
    unfold cccd_write_cb. change (2 <? 0) with false. cbv iota.
    replace (2 <? len data + 0) with false by (symmetry; apply N.ltb_ge; unfold len; lia).
    change (0 =? 0) with true. cbv iota zeta. fold pos. fold old. fold (written_value old data). rewrite LA, WB.
    destruct data as [|b0 t].
    + apply f_some_inj in He. subst e. rewrite !N.eqb_refl. lia.
    + apply f_some_inj in He. subst e. subst a. rewrite (N.eqb_sym (N.land b0 3) old). destruct (old =? N.land b0 3); lia.
  - intros j kj Gj. cbn [fst] in Gj. destruct (Nat.eq_dec j cid) as [->|Nj].
    + erewrite set_conn_get in Gj by eauto. inv Gj. cbn [cccd encrypted].
      split; [exact LC|]. split; [rewrite E3; exact S2|].
      intros g' v h' s' ch' cci' Hv B' A'. cbn [cccd]. rewrite E4, Nat.eqb_refl in Hv.
      replace (cid <? length (ob_conns m))%nat with true in Hv by (symmetry; apply Nat.ltb_lt; lia). cbn [andb] in Hv.
      destruct (Nat.eq_dec g' g) as [->|Ng].
      * (* the same characteristic: the same handle, the same attribute *)
        assert (h' = h) by (eapply by_cccd_handle_inj; eauto). subst h'. rewrite A in A'. inv A'.
        fold pos. rewrite LA, WB.
        assert (Lg : (g < length (o_cccd (oc_at m cid)))%nat \/ (length (o_cccd (oc_at m cid)) <= g)%nat) by lia.
        destruct Lg as [Lg|Lg].
        -- rewrite nth_upd_eq in Hv by exact Lg. unfold nv, cccd_new in Hv. destruct data as [|b0 t]; [|inv Hv; reflexivity].
           exact (S3 _ _ _ _ _ _ Hv B' A).
        -- rewrite upd_out in Hv by exact Lg. rewrite nth_overflow in Hv by exact Lg. discriminate.
      * rewrite nth_upd_neq in Hv by auto. pose proof (S3 _ _ _ _ _ _ Hv B' A') as Old.
        destruct (N.eq_dec cci' cci) as [->|Nc].
        -- (* the same CCCD number: the same attribute index, the same handle, hence the same characteristic *)
           exfalso. apply Ng.
           assert (index_by_handle c h' = index_by_handle c h) by (eapply cccd_index_unique; eauto).
           destruct (resolve_obs c W NI h' g' B') as (_ & _ & _ & H0' & HI' & _).
           assert (h' = h).
           { rewrite <- (index_by_handle_handle c h' _ eq_refl HI'), <- (index_by_handle_handle c h _ eq_refl HI). congruence. }
           subst h'. congruence.
        -- rewrite LB; [exact Old| |].
           ++ destruct (cccd_attribute_position c _ s' ch' cci' A') as (P & _). exact P.
           ++ intros X. apply Nc. pose proof (attribute_cccd_number c _ _ _ _ A'). pose proof (attribute_cccd_number c _ _ _ _ A).
              rewrite <- n_cccd_is_number_of_client_configs in *. eapply cccd_position_inj; eauto.
    + rewrite set_conn_get_other in Gj by auto. destruct (S _ _ Gj) as (T1 & T2 & T3).
      split; [exact T1|]. split; [rewrite E3; exact T2|].
      intros g' v h' s' ch' cci' Hv. rewrite E4 in Hv. replace (Nat.eqb cid j) with false in Hv by (symmetry; apply Nat.eqb_neq; auto).
      cbn [andb] in Hv. eapply T3; eauto.
Qed.

(* ------------------------------------------------------------------ l2cap_input: prepare / read / read blob *)
Lemma att_input_prepare_rs c st cid t n st' rs :
  wqueue c = None -> att_input c st cid (22 :: t) n = Some (st', rs) -> starts 23 rs = false.
Proof.
  intros WQ A. destruct (att_input_success _ _ _ _ _ _ _ A) as (k & op & G & L & M & Hop).
  unfold att_input in A. rewrite G, L in A.
  replace (N.min n (negotiated_mtu c k) <? default_att_mtu) with false in A by (symmetry; apply N.ltb_ge; exact M).
  change (rd (22 :: t) 0) with (Some 22) in A. cbv beta iota in A. cbn [N.eqb Pos.eqb] in A.
  unfold handle_prepare_write in A. change (rd (22 :: t) 0) with (Some 22) in A. cbv beta iota in A. rewrite WQ in A.
  unfold error_response in A. replace (5 <=? N.min n (negotiated_mtu c k)) with true in A by (symmetry; apply N.leb_le; unfold default_att_mtu in M; lia).
  destruct (put _ 0 _) as [b'|] eqn:P; [|discriminate]. cbv beta iota in A.
  destruct (5 <=? len b'); [|discriminate]. inv A. apply put_take in P.
  change (len (1 :: 22 :: le16 0 ++ [err_request_not_supported])) with 5 in P. rewrite P. reflexivity.
Qed.

Lemma rd16_3 a b d lo hi t : rd16 (a :: b :: d :: lo :: hi :: t) 3 = Some (lo + 256 * hi).
Proof.
  unfold rd16, rd.
  replace (3 <? len (a :: b :: d :: lo :: hi :: t)) with true by (symmetry; apply N.ltb_lt; unfold len; cbn [length]; lia).
  replace (3 + 1 <? len (a :: b :: d :: lo :: hi :: t)) with true by (symmetry; apply N.ltb_lt; unfold len; cbn [length]; lia).
  reflexivity.
Qed.

Lemma att_input_read c st cid lo hi n st' rs k :
  att_input c st cid [10; lo; hi] n = Some (st', rs) -> get_conn st cid = Some k ->
  lo + 256 * hi <> 0 -> index_by_handle c (lo + 256 * hi) <> invalid_index ->
  exists r, handle_read_common c st cid [10; lo; hi] (repeat fill_byte (N.to_nat n)) (N.min n (negotiated_mtu c k)) 11
              (lo + 256 * hi) (index_by_handle c (lo + 256 * hi)) 0 = Some (st', r)
            /\ rs = takeN (snd r) (fst r) /\ default_att_mtu <= N.min n (negotiated_mtu c k).
Proof.
  intros A G H0 HI. destruct (att_input_success _ _ _ _ _ _ _ A) as (k0 & op & G0 & L & M & Hop). rewrite G in G0. inv G0.
  unfold att_input in A. rewrite G, L in A.
  replace (N.min n (negotiated_mtu c k0) <? default_att_mtu) with false in A by (symmetry; apply N.ltb_ge; exact M).
  change (rd [10; lo; hi] 0) with (Some 10) in A. cbv beta iota in A. cbn [N.eqb Pos.eqb] in A.
  unfold handle_read, check_size_and_handle, check_handle in A.
  change (rd [10; lo; hi] 0) with (Some 10) in A. change (len [10; lo; hi]) with 3 in A. change (negb (3 =? 3)) with false in A.
  cbv beta iota in A. rewrite rd16_1 in A. cbv beta iota in A.
  replace (lo + 256 * hi =? 0) with false in A by (symmetry; apply N.eqb_neq; exact H0).
  replace (index_by_handle c (lo + 256 * hi) =? invalid_index) with false in A by (symmetry; apply N.eqb_neq; exact HI).
  cbv beta iota in A.
  destruct (handle_read_common _ _ _ _ _ _ _ _ _ _) as [[s1 [b1 mm]]|] eqn:HR; [|discriminate].
  destruct (mm <=? len b1); [|discriminate]. inv A. exists (b1, mm). auto.
Qed.

Lemma att_input_read_blob c st cid lo hi olo ohi n st' rs k :
  att_input c st cid [12; lo; hi; olo; ohi] n = Some (st', rs) -> get_conn st cid = Some k ->
  lo + 256 * hi <> 0 -> index_by_handle c (lo + 256 * hi) <> invalid_index ->
  exists r, handle_read_common c st cid [12; lo; hi; olo; ohi] (repeat fill_byte (N.to_nat n)) (N.min n (negotiated_mtu c k)) 13
              (lo + 256 * hi) (index_by_handle c (lo + 256 * hi)) (olo + 256 * ohi) = Some (st', r)
            /\ rs = takeN (snd r) (fst r) /\ default_att_mtu <= N.min n (negotiated_mtu c k).
Proof.
  intros A G H0 HI. destruct (att_input_success _ _ _ _ _ _ _ A) as (k0 & op & G0 & L & M & Hop). rewrite G in G0. inv G0.
  unfold att_input in A. rewrite G, L in A.
  replace (N.min n (negotiated_mtu c k0) <? default_att_mtu) with false in A by (symmetry; apply N.ltb_ge; exact M).
  change (rd [12; lo; hi; olo; ohi] 0) with (Some 12) in A. cbv beta iota in A. cbn [N.eqb Pos.eqb] in A.
  unfold handle_read_blob, check_size_and_handle, check_handle in A.
  change (rd [12; lo; hi; olo; ohi] 0) with (Some 12) in A. change (len [12; lo; hi; olo; ohi]) with 5 in A. change (negb (5 =? 5)) with false in A.
  cbv beta iota in A. rewrite rd16_1 in A. cbv beta iota in A.
  replace (lo + 256 * hi =? 0) with false in A by (symmetry; apply N.eqb_neq; exact H0).
  replace (index_by_handle c (lo + 256 * hi) =? invalid_index) with false in A by (symmetry; apply N.eqb_neq; exact HI).
  cbv beta iota in A. rewrite rd16_3 in A. cbv beta iota in A.
  destruct (handle_read_common _ _ _ _ _ _ _ _ _ _) as [[s1 [b1 mm]]|] eqn:HR; [|discriminate].
  destruct (mm <=? len b1); [|discriminate]. inv A. exists (b1, mm). auto.
Qed.

(* ------------------------------------------------------------------ the environment *)
Lemma env_wq c : env09 c = true -> wqueue c = None.
Proof. unfold env09. intros H. apply andb_true_iff in H. destruct H as [H _]. apply andb_true_iff in H. destruct H as [H _]. destruct (wqueue c); [discriminate|reflexivity]. Qed.
Lemma env_tab c e : env09 c = true -> In e (char_table c) -> ce_enc e = false.
Proof.
  unfold env09. intros H I. apply andb_true_iff in H. destruct H as [H _]. apply andb_true_iff in H. destruct H as [_ H].
  rewrite forallb_forall in H. apply negb_true_iff. apply H. exact I.
Qed.
Lemma env_attr c j s ch cci : env09 c = true -> attribute_at c j = Some (ACccd s ch cci) -> char_requires_encryption c s ch = false.
Proof.
  unfold env09. intros H A. apply andb_true_iff in H. destruct H as [_ H]. rewrite forallb_forall in H.
  assert (I : In (j, ACccd s ch cci) (attr_table c)) by (apply attr_table_in; split; [eapply attribute_at_lt; eauto|exact A]).
  specialize (H _ I). cbn [snd] in H. apply negb_true_iff in H. exact H.
Qed.
Lemma sec_success e p : security_check false e p = Success.
Proof. reflexivity. Qed.

Definition bytes_ok_l (l : list N) : Prop := Forall (fun b => b < 256) l.

(* ------------------------------------------------------------------ l2cap_input: the monitor's verdict *)
Lemma check09_in_ok c st n0 m cid pdu n st' rs :
  wf c -> no_includes c -> env09 c = true -> bytes_ok_l pdu ->
  sim09 c (st, n0) m -> att_input c st cid pdu n = Some (st', rs) ->
  check09 c m (OpIn cid pdu n) (OBytes rs) = None.
Proof.
  intros W NI EV BO (T & L & CB & S) A. cbn [fst snd] in *.
  destruct (att_input_success _ _ _ _ _ _ _ A) as (k & op & G & Lp & M & Hop).
  destruct (S _ _ G) as (S1 & S2 & S3).
  assert (Hh : (len pdu =? 0) || (n <? default_att_mtu) = false).
  { rewrite Lp. cbn [orb]. apply N.ltb_ge. lia. }
  pose proof (check09_in_classified c m cid pdu n rs) as CK. unfold check09_in_spec in CK.
  destruct (kclass pdu) as [lo hi|lo hi olo ohi|lo hi data|] eqn:KC; [| | |exact CK].
  - (* Read Request *)
    destruct CK as (-> & ->). rewrite Hh. destruct rs as [|x d]; [reflexivity|].
    destruct (N.eq_dec x 11) as [->|Nx]; [|destruct x as [|p]; [reflexivity|]; repeat (destruct p as [p|p|]; try reflexivity); exfalso; apply Nx; reflexivity].
    unfold check_read. rewrite T. destruct (by_cccd_handle (char_table c) (lo + 256 * hi)) as [g|] eqn:B; [|reflexivity].
    destruct (nth g (o_cccd (oc_at m cid)) None) as [v|] eqn:Tr; [|reflexivity].
    destruct (resolve_obs c W NI _ _ B) as (s & ch & cci & H0 & HI & At).
    destruct (att_input_read _ _ _ _ _ _ _ _ _ A G H0 HI) as (r & HR & Er & Mm).
    assert (Sec : security_check (char_requires_encryption c s ch) (encrypted k) (pairing k) = Success)
      by (rewrite (env_attr c _ _ _ _ EV At); reflexivity).
    destruct (read_common_cccd c st cid [10; lo; hi] (repeat fill_byte (N.to_nat n)) (N.min n (negotiated_mtu c k)) 11 (lo + 256 * hi) (index_by_handle c (lo + 256 * hi)) 0 st' r k s ch cci 10 At G eq_refl ltac:(discriminate) Sec) as (_ & [(_ & Ok)|(S5 & y & z & w & Er5)]).
    + unfold default_att_mtu in Mm. lia.
    + rewrite len_repeat. lia.
    + exact HR.
    + rewrite <- Er in Ok. inversion Ok as [Ed]. rewrite (S3 _ _ _ _ _ _ Tr B At). rewrite bytes_eqb_refl. reflexivity.
    + rewrite S5 in Er. rewrite Er5 in Er. discriminate Er.
  - (* Read Blob Request *)
    destruct CK as (-> & ->). rewrite Hh. destruct rs as [|x d]; [reflexivity|].
    destruct (N.eq_dec x 13) as [->|Nx]; [|destruct x as [|p]; [reflexivity|]; repeat (destruct p as [p|p|]; try reflexivity); exfalso; apply Nx; reflexivity].
    destruct (olo + 256 * ohi <=? 2) eqn:Lo; [|reflexivity].
    unfold check_read. rewrite T. destruct (by_cccd_handle (char_table c) (lo + 256 * hi)) as [g|] eqn:B; [|reflexivity].
    destruct (nth g (o_cccd (oc_at m cid)) None) as [v|] eqn:Tr; [|reflexivity].
    destruct (resolve_obs c W NI _ _ B) as (s & ch & cci & H0 & HI & At).
    destruct (att_input_read_blob _ _ _ _ _ _ _ _ _ _ _ A G H0 HI) as (r & HR & Er & Mm).
    assert (Sec : security_check (char_requires_encryption c s ch) (encrypted k) (pairing k) = Success)
      by (rewrite (env_attr c _ _ _ _ EV At); reflexivity).
    destruct (read_common_cccd c st cid [12; lo; hi; olo; ohi] (repeat fill_byte (N.to_nat n)) (N.min n (negotiated_mtu c k)) 13 (lo + 256 * hi) (index_by_handle c (lo + 256 * hi)) (olo + 256 * ohi) st' r k s ch cci 12 At G eq_refl ltac:(discriminate) Sec) as (_ & [(_ & Ok)|(S5 & y & z & w & Er5)]).
    + unfold default_att_mtu in Mm. lia.
    + rewrite len_repeat. lia.
    + exact HR.
    + rewrite <- Er in Ok. inversion Ok as [Ed]. rewrite (S3 _ _ _ _ _ _ Tr B At). rewrite bytes_eqb_refl. reflexivity.
    + rewrite S5 in Er. rewrite Er5 in Er. discriminate Er.
  - (* Write Request *)
    destruct CK as (-> & ->). rewrite Hh. rewrite T.
    destruct (by_cccd_handle (char_table c) (lo + 256 * hi)) as [g|] eqn:B; [|reflexivity].
    destruct (by_cccd_handle_attr c _ _ B) as (_ & _ & _ & _ & _ & _ & _ & _ & Ig).
    unfold sec_ok. rewrite (env_tab c _ EV Ig). cbn [negb orb].
    destruct (resolve_obs c W NI _ _ B) as (s & ch & cci & H0 & HI & At).
    destruct (att_input_write c st cid 18 lo hi data n st' rs (or_introl eq_refl) A) as (k0 & r & G0 & Mm & HW & Er & _).
    rewrite G in G0. apply f_some_inj in G0. subst k0. cbn [N.eqb Pos.eqb] in Er.
    assert (O5 : 5 <= N.min n (negotiated_mtu c k)) by (unfold default_att_mtu in Mm; lia).
    assert (Ob : N.min n (negotiated_mtu c k) <= len (repeat fill_byte (N.to_nat n))) by (rewrite len_repeat; lia).
    pose proof (write_request_outcome c st cid 18 lo hi data _ _ st' r k G O5 Ob HW) as WO. cbv zeta in WO.
    destruct WO as [(Hx & _ & _)|(s2 & ch2 & cci2 & _ & _ & At2 & Out)].
    + exfalso. destruct Hx as [Hx|[Hx|(a & Aa & Na)]]; [contradiction|contradiction|]. rewrite At in Aa. apply f_some_inj in Aa. eapply Na. symmetry. exact Aa.
    + assert (E2 : ACccd s ch cci = ACccd s2 ch2 cci2) by congruence. injection E2 as Es Ec Ei. subst s2 ch2 cci2.
      rewrite (env_attr c _ _ _ _ EV At) in Out. cbn [security_check negb] in Out.
      assert (Blo : lo < 256) by (apply Forall_inv_tail in BO; apply Forall_inv in BO; exact BO).
      assert (Bhi : hi < 256) by (apply Forall_inv_tail in BO; apply Forall_inv_tail in BO; apply Forall_inv in BO; exact BO).
      destruct (2 <? len data + 0) eqn:L2.
      * destruct Out as (_ & S5 & T5 & _). replace (len data <=? 2) with false by (symmetry; apply N.leb_gt; apply N.ltb_lt in L2; lia).
        rewrite S5, T5 in Er. rewrite Er. rewrite (le16_bytes lo hi Blo Bhi). cbn [app]. rewrite bytes_eqb_refl. reflexivity.
      * destruct Out as (_ & S1' & T1 & _). replace (len data <=? 2) with true by (symmetry; apply N.leb_le; apply N.ltb_ge in L2; lia).
        rewrite S1', T1 in Er. rewrite Er. reflexivity.
Qed.

(* ------------------------------------------------------------------ l2cap_input: the simulation step *)
Lemma att_input_length_conns c st cid pdu n st' rs : att_input c st cid pdu n = Some (st', rs) -> length (conns st') = length (conns st).
Proof. intros A. eapply frame_length. eapply att_input_frame; eauto. Qed.

Lemma sim09_in c st n0 m cid pdu n st' rs :
  wf c -> no_includes c -> env09 c = true -> bytes_ok_l pdu ->
  sim09 c (st, n0) m -> att_input c st cid pdu n = Some (st', rs) ->
  sim09 c (st', n0 + att_input_cb c st cid pdu n) (advance c m (OpIn cid pdu n) (OBytes rs)).
Proof.
  intros W NI EV BO SM A. pose proof SM as (T & L & CB & S). cbn [fst snd] in *.
  destruct (att_input_success _ _ _ _ _ _ _ A) as (k & op & G & Lp & M & Hop).
  pose proof (att_input_length_conns _ _ _ _ _ _ _ A) as LC.
  pose proof (env_wq c EV) as WQ.
  cbn [advance]. rewrite Lp. cbn [orb]. replace (n <? default_att_mtu) with false by (symmetry; apply N.ltb_ge; lia).
  pose proof (adv_in_classified9 c m cid pdu n rs) as AC. unfold adv_in_spec9 in AC.
  destruct (classify9 pdu) as [opc lo hi data| |] eqn:Cl.
  - (* a write opcode with a handle *)
    destruct AC as (-> & Wop & ->).
    destruct (N.eq_dec opc 22) as [->|N22].
    + (* Prepare Write: not supported without a write queue *)
      assert (N1 : (22 : N) <> 18) by discriminate. assert (N2 : (22 : N) <> 82) by discriminate.
      assert (R22 : rd (22 :: lo :: hi :: data) 0 = Some 22) by reflexivity.
      destruct (att_input_cccd_same c st cid _ n st' rs 22 WQ A R22 (or_introl (conj N1 N2))) as (SC & Cb).
      rewrite Cb, N.add_0_r. pose proof (att_input_prepare_rs c st cid _ n st' rs WQ A) as P23.
      unfold adv_write. rewrite P23. cbn [N.eqb Pos.eqb].
      destruct (by_cccd_handle _ _); [apply (sim09_keep c st n0 m st' _ SM SC LC); apply k9_refl|].
      destruct (by_value_handle _ _); apply (sim09_keep c st n0 m st' _ SM SC LC); apply k9_refl.
    + assert (Ho : opc = 18 \/ opc = 82).
      { apply orb_true_iff in Wop. destruct Wop as [Wop|Wop]; [|apply N.eqb_eq in Wop; contradiction].
        apply orb_true_iff in Wop. destruct Wop as [Wop|Wop]; apply N.eqb_eq in Wop; auto. }
      destruct (att_input_write c st cid opc lo hi data n st' rs Ho A) as (k0 & r & G0 & Mm & HW & Er & Cb).
      rewrite G in G0. apply f_some_inj in G0. subst k0. rewrite Cb.
      assert (O5 : 5 <= N.min n (negotiated_mtu c k)) by (unfold default_att_mtu in Mm; lia).
      assert (Ob : N.min n (negotiated_mtu c k) <= len (repeat fill_byte (N.to_nat n))) by (rewrite len_repeat; lia).
      pose proof (write_request_outcome c st cid opc lo hi data _ _ st' r k G O5 Ob HW) as WO. cbv zeta in WO.
      destruct WO as [(Hx & SC & Cb0)|(s & ch & cci & H0 & HI & At & Out)].
      * (* no CCCD attribute under this handle: the observer does not take it for one either *)
        rewrite Cb0, N.add_0_r. unfold adv_write. rewrite T.
        destruct (by_cccd_handle (char_table c) (lo + 256 * hi)) as [g|] eqn:B.
        { exfalso. destruct (resolve_obs c W NI _ _ B) as (s & ch & cci & H0 & HI & At).
          destruct Hx as [Hx|[Hx|(a & Aa & Na)]]; [contradiction|contradiction|]. rewrite At in Aa. apply f_some_inj in Aa. eapply Na. symmetry. exact Aa. }
        destruct (by_value_handle _ _); [|apply (sim09_keep c st n0 m st' _ SM SC LC); apply k9_refl].
        destruct (opc =? 22); apply (sim09_keep c st n0 m st' _ SM SC LC); [apply k9_refl|apply k9_forget_value].
      * (* the CCCD attribute *)
        destruct (resolve_model c _ s ch cci H0 HI At) as (g & B).
        rewrite (env_attr c _ _ _ _ EV At) in Out. cbn [security_check negb] in Out.
        destruct (by_cccd_handle_attr c _ _ B) as (_ & _ & _ & _ & _ & _ & _ & _ & Ig).
        assert (Bd : bytes_ok_l data) by (apply Forall_inv_tail in BO; apply Forall_inv_tail in BO; apply Forall_inv_tail in BO; exact BO).
        unfold adv_write. rewrite T, B. unfold sec_ok. rewrite (env_tab c _ EV Ig). cbn [negb orb andb].
        destruct (2 <? len data + 0) eqn:L2.
        -- (* too long: rejected, nothing changes *)
           destruct Out as (-> & S5 & T5 & Cb0). rewrite Cb0, N.add_0_r.
           replace (len data <=? 2) with false by (symmetry; apply N.leb_gt; apply N.ltb_lt in L2; lia).
           assert (K : keeps9 m (if opc =? 18 then match rs with [19] => apply_cccd_write m cid g None | _ => m end else if opc =? 82 then m else m)).
           { destruct Ho as [-> | ->]; cbn [N.eqb Pos.eqb]; [|apply k9_refl].
             rewrite match19. cbn [N.eqb Pos.eqb] in Er. rewrite S5, T5 in Er. rewrite Er. cbn [bytes_eqb app le16]. apply k9_refl. }
           destruct Ho as [-> | ->]; cbn [N.eqb Pos.eqb andb] in K |- *; exact (sim09_keep c st n0 m st _ SM (sc_refl st) eq_refl K).
        -- destruct Out as (-> & S1 & T1 & Cb0). rewrite Cb0.
           assert (L2' : (length data <= 2)%nat) by (apply N.ltb_ge in L2; unfold len in L2; lia).
           replace (len data <=? 2) with true by (symmetry; apply N.leb_le; unfold len; lia).
           assert (X : (if opc =? 18 then match rs with [19] => apply_cccd_write m cid g (cccd_new (nth g (o_cccd (oc_at m cid)) None) data) | _ => m end
                        else if opc =? 82 then apply_cccd_write m cid g (cccd_new (nth g (o_cccd (oc_at m cid)) None) data) else m)
                       = apply_cccd_write m cid g (cccd_new (nth g (o_cccd (oc_at m cid)) None) data)).
           { destruct Ho as [-> | ->]; cbn [N.eqb Pos.eqb]; [|reflexivity].
             cbn [N.eqb Pos.eqb] in Er. rewrite S1, T1 in Er. rewrite Er. reflexivity. }
           destruct Ho as [-> | ->]; cbn [N.eqb Pos.eqb andb] in X |- *; try rewrite X; exact (sim09_cccd_write c st n0 m cid k s ch cci _ g data W NI SM G H0 HI At B Bd L2').
  - (* Execute Write: not supported without a write queue *)
    destruct AC as ((t & ->) & ->).
    assert (N1 : (24 : N) <> 18) by discriminate. assert (N2 : (24 : N) <> 82) by discriminate.
    assert (R24 : rd (24 :: t) 0 = Some 24) by reflexivity.
    destruct (att_input_cccd_same c st cid _ n st' rs 24 WQ A R24 (or_introl (conj N1 N2))) as (SC & Cb).
    rewrite Cb, N.add_0_r. destruct (exec9_eff m cid) as (E1 & E2 & E3 & [K|(E4 & E5)]).
    + exact (sim09_keep c st n0 m st' _ SM SC LC K).
    + apply (sim09_weaken c st n0 m st' _ SM SC LC E1 E2); [|exact E3|].
      * intros e He. rewrite E4 in He. discriminate.
      * intros i g v Hv. destruct (E5 i) as [Eq|Nn]; [rewrite Eq in Hv; exact Hv|rewrite Nn in Hv; discriminate].
  - destruct AC as (K & Cond).
    assert (Cond' : (op <> 18 /\ op <> 82) \/ (len pdu <? 3) = true).
    { destruct Cond as [Cd|(op' & Hop' & N18 & N82 & _)]; [right; exact Cd|left]. rewrite Hop in Hop'. apply f_some_inj in Hop'. subst op'. auto. }
    destruct (att_input_cccd_same c st cid pdu n st' rs op WQ A Hop Cond') as (SC & Cb).
    rewrite Cb, N.add_0_r. exact (sim09_keep c st n0 m st' _ SM SC LC K).
Qed.

(* ------------------------------------------------------------------ the trace level theorem *)
(* histories of requests (l2cap_input on any connection, any PDU of bytes) and callback queries *)
Definition op09_ok (o : op9) : bool :=
  match o with
  | Cbs => true
  | Op9 (OpIn _ pdu _) => forallb (fun b => b <? 256) pdu
  | Op9 _ => false
  end.
Definition no_fault9 (tr : list (op9 * out9)) : Prop := Forall (fun x => snd x <> Out9 OFault) tr.

Lemma sim09_init c : sim09 c (srv9_init c) (obs_init c).
Proof.
  unfold srv9_init, obs_init. split; [reflexivity|]. cbn [fst snd ob_conns ob_cb].
  split; [unfold srv_init; cbn [conns]; rewrite !repeat_length; reflexivity|].
  split; [intros e He; inversion He; reflexivity|].
  intros cid k G. split; [exact (store_ok_reachable c [] cid k G)|].
  assert (Hc : (cid < n_conns)%nat).
  { apply nth_error_lt in G. unfold srv_init in G. cbn [conns] in G. rewrite repeat_length in G. exact G. }
  assert (Ek : k = init_conn c).
  { unfold get_conn, srv_init in G. cbn [conns] in G. apply nth_error_In in G. apply repeat_spec in G. exact G. }
  subst k. unfold oc_at. cbn [ob_conns]. rewrite repeat_nth by exact Hc. cbn [oc_init o_enc o_cccd init_conn encrypted cccd].
  split; [reflexivity|]. unfold tracked. intros g v h s ch cci Hv _ _. unfold oc_at in Hv. cbn [ob_conns] in Hv.
  rewrite repeat_nth in Hv by exact Hc. cbn [oc_init o_cccd] in Hv.
  assert (v = 0).
  { destruct (Nat.lt_ge_cases g (length (char_table c))) as [Lg|Lg].
    - rewrite repeat_nth in Hv by exact Lg. inversion Hv. reflexivity.
    - rewrite nth_overflow in Hv by (rewrite repeat_length; exact Lg). discriminate. }
  subst v. rewrite cccd_get_get2. apply get2_repeat0.
Qed.

Theorem monitor09_from_accepts c : wf c -> no_includes c -> env09 c = true -> forall ops s m pos,
  sim09 c s m -> forallb op09_ok ops = true -> no_fault9 (srv9_run c s ops) ->
  monitor09_from c m pos (srv9_run c s ops) = None.
Proof.
  intros W NI EV. induction ops as [|o t IH]; intros s m pos SM OK NF; cbn [srv9_run monitor09_from]; [reflexivity|].
  cbn [forallb] in OK. apply andb_true_iff in OK. destruct OK as [Ok1 Ok2]. destruct s as [st n0].
  destruct o as [op|].
  - destruct op as [cid pdu n|cid n|cid e p|cid|bu kd g|g|g data]; try discriminate Ok1.
    assert (BO : bytes_ok_l pdu).
    { cbn [op09_ok] in Ok1. rewrite forallb_forall in Ok1. apply Forall_forall. intros b Hb. apply N.ltb_lt. apply Ok1. exact Hb. }
    cbn [srv9_run srv9_step fst snd srv_step] in NF |- *.
    destruct (att_input c st cid pdu n) as [[st' rs]|] eqn:A; cbn [fst snd] in NF |- *.
    + cbn [monitor09_from mstep09]. unfold mstep_of.
      rewrite (check09_in_ok c st n0 m cid pdu n st' rs W NI EV BO SM A).
      inversion NF as [|? ? NF1 NF2]. apply IH; [|exact Ok2|exact NF2].
      exact (sim09_in c st n0 m cid pdu n st' rs W NI EV BO SM A).
    + exfalso. inversion NF as [|? ? NF1 NF2]. apply NF1. reflexivity.
  - cbn [srv9_run srv9_step fst snd] in NF |- *. cbn [monitor09_from mstep09].
    inversion NF as [|? ? NF1 NF2].
    destruct SM as (T & L & CB & S). cbn [fst snd] in *.
    assert (SM' : sim09 c (st, 0) (set_cb m (Some 0))).
    { split; [exact T|]. split; [exact L|]. split; [intros e He; cbn [set_cb ob_cb] in He; inversion He; reflexivity|]. exact S. }
    destruct (ob_cb m) as [e|] eqn:Cb.
    + rewrite (CB e eq_refl), N.eqb_refl. apply IH; [exact SM'|exact Ok2|exact NF2].
    + apply IH; [exact SM'|exact Ok2|exact NF2].
Qed.

Theorem monitor09_accepts_model_partial c ops :
  wf c -> no_includes c -> env09 c = true -> forallb op09_ok ops = true ->
  no_fault9 (srv9_run c (srv9_init c) ops) -> monitor09 c (srv9_run c (srv9_init c) ops) = None.
Proof. intros W NI EV OK NF. apply monitor09_from_accepts; auto. apply sim09_init. Qed.
